import IcyVerif.Model.Bytes
import IcyVerif.Gen.Xb
import IcyVerif.Gen.Loaders
/-! # Loader models for C02 ("no file content can crash a loader")

One model per binary loader, following the control flow of the Rust function (after the `fix:` commits of
C02) closely enough that every index / slice / `usize` subtraction / `i32` addition has a counterpart
operation from `Model/Bytes` that can return `.panic <enclosing fn>`.  Cell *contents* are not kept: they
influence neither panics nor the observed geometry; what is kept is the geometry the harness observes
(`buffer size`, `layer 0 size`, `layer 0 lines.len()`), offsets, positions and counters.

Loops of the form `while o < len` are structurally recursive on a fuel argument; running out of fuel is
`.panic "model:fuel"`, so the no-panic theorems also show that the fuel given by the callers suffices. -/
namespace IcyVerif.Loaders
open IcyVerif.Bytes IcyVerif.Gen.Loaders
open IcyVerif.Gen

def sFuel := "model:fuel"

/-- what the harness observes of a loaded buffer -/
structure Geo where
  bw : Int
  bh : Int
  lw : Int
  lh : Int
  lines : Nat
  deriving Repr, DecidableEq

structure Pos where
  x : Int
  y : Int
  deriving Repr, DecidableEq

/-- `Buffer::new((w, h))` [+ `lines.clear()`] + `set_sauce(sauce, true)`: a SAUCE size resizes buffer and layer 0
    (width 0 or > 1000 becomes 80); the lines of layer 0 stay as `Layer::new` made them -/
def initGeo (w h : Nat) (cleared : Bool) (sauce : Option (Nat × Nat)) : Geo :=
  let lines := if cleared then 0 else h
  match sauce with
  | none => ⟨w, h, w, h, lines⟩
  | some (sw, sh) =>
    let sw := if sw = 0 ∨ sw > sauceMaxWidth then sauceDefaultWidth else sw
    ⟨sw, sh, sw, sh, lines⟩

/-- `Layer::set_char` on an unlocked, visible layer: outside the layer nothing happens, inside the line
    vector grows to `y + 1` (lines are created `width` cells wide, so they are never empty) -/
def Geo.setChar (g : Geo) (x y : Int) : Geo :=
  if x < 0 ∨ y < 0 ∨ x ≥ g.lw ∨ y ≥ g.lh then g
  else if g.lines ≤ y.toNat then { g with lines := y.toNat + 1 } else g

/-- `crop_loaded_file`: no line of these loaders is empty, so nothing is popped; heights := line count -/
def Geo.crop (g : Geo) : Geo := { g with lh := g.lines, bh := g.lines }

/-- `pos.x += 1; if pos.x >= width { pos.x = 0; pos.y += 1 }` (xbinary.rs / tundra.rs `advance_pos`) -/
def advance (site : String) (bw : Int) (p : Pos) : Res Pos := do
  let x ← chk32 site (p.x + 1)
  if x ≥ bw then
    let y ← chk32 site (p.y + 1)
    pure ⟨0, y⟩
  else pure ⟨x, p.y⟩

-- ================================================================================================ XBin
def sXb := "formats/xbinary.rs::load_buffer"
def sXbC := "formats/xbinary.rs::read_data_compressed"
def sXbU := "formats/xbinary.rs::read_data_uncompressed"
def sXbAdv := "formats/xbinary.rs::advance_pos"

/-- `Compression::Off`: `for _ in 0..repeat_counter` reading (char, attribute) pairs -/
def xbOffRun (d : Bytes) (bw : Int) : Nat → Nat → Pos → Geo → Res (Nat × Pos × Geo)
  | 0, o, p, g => .ok (o, p, g)
  | n + 1, o, p, g =>
    if o + 2 > d.size then .ok (o, p, g) else do
      let _ ← rd sXbC d o
      let _ ← rd sXbC d (o + 1)
      let p' ← advance sXbAdv bw p
      xbOffRun d bw n (o + 2) p' (g.setChar p.x p.y)

/-- `Compression::Char` / `Compression::Attr`: one byte per cell -/
def xbOneRun (d : Bytes) (bw : Int) : Nat → Nat → Pos → Geo → Res (Nat × Pos × Geo)
  | 0, o, p, g => .ok (o, p, g)
  | n + 1, o, p, g =>
    if o + 1 > d.size then .ok (o, p, g) else do
      let _ ← rd sXbC d o
      let p' ← advance sXbAdv bw p
      xbOneRun d bw n (o + 1) p' (g.setChar p.x p.y)

/-- `Compression::Full`: the same cell `repeat_counter` times -/
def xbFullRun (bw : Int) : Nat → Pos → Geo → Res (Pos × Geo)
  | 0, p, g => .ok (p, g)
  | n + 1, p, g => do
    let p' ← advance sXbAdv bw p
    xbFullRun bw n p' (g.setChar p.x p.y)

/-- `read_data_compressed`: `while o < bytes.len() && pos.y < result.get_height()` -/
def xbCompressed (d : Bytes) (bw bh : Int) : Nat → Nat → Pos → Geo → Res Geo
  | fuel, o, p, g =>
    if ¬ (o < d.size ∧ p.y < bh) then .ok g else
    match fuel with
    | 0 => .panic sFuel
    | fuel + 1 => do
      let c ← rd sXbC d o
      let o := o + 1
      let typ := c &&& Xb.readTypeMask
      let cnt := (c &&& Xb.readCountMask) + 1
      if typ = Xb.compOff then do
        let r ← xbOffRun d bw cnt o p g
        xbCompressed d bw bh fuel r.1 r.2.1 r.2.2
      else if typ = Xb.compChar ∨ typ = Xb.compAttr then
        if o ≥ d.size then .ok g else do
          let _ ← rd sXbC d o
          let r ← xbOneRun d bw cnt (o + 1) p g
          xbCompressed d bw bh fuel r.1 r.2.1 r.2.2
      else
        if o ≥ d.size then .ok g else do
          let _ ← rd sXbC d o
          let o := o + 1
          if o + 1 > d.size then .ok g else do
            let _ ← rd sXbC d o
            let r ← xbFullRun bw cnt p g
            xbCompressed d bw bh fuel (o + 1) r.1 r.2

/-- `read_data_uncompressed` -/
def xbUncompressed (d : Bytes) (bw bh : Int) : Nat → Nat → Pos → Geo → Res Geo
  | fuel, o, p, g =>
    if ¬ (o < d.size ∧ p.y < bh) then .ok g
    else if o + 1 ≥ d.size then .ok g
    else
    match fuel with
    | 0 => .panic sFuel
    | fuel + 1 => do
      let _ ← rd sXbU d o
      let _ ← rd sXbU d (o + 1)
      let p' ← advance sXbAdv bw p
      xbUncompressed d bw bh fuel (o + 2) p' (g.setChar p.x p.y)

def hasFlag (flags bit : Nat) : Bool := flags &&& bit == bit

/-- palette block: `Palette::from_63(&data[o..o + 48])` -/
def xbPalette (d : Bytes) (o : Nat) (has : Bool) : Res Nat :=
  if !has then .ok o
  else if d.size < o + Xb.paletteLength then .err
  else do
    slice sXb d o (o + Xb.paletteLength)
    pure (o + Xb.paletteLength)

/-- font block(s): `BitFont::create_8(.., &data[o..o + font_length])`, twice in 512-character mode -/
def xbFonts (d : Bytes) (o fontSize : Nat) (has ext : Bool) : Res Nat :=
  if !has then .ok o
  else
    let fl := fontSize * 256
    if d.size < o + fl * (if ext then 2 else 1) then .err
    else do
      slice sXb d o (o + fl)
      let o := o + fl
      if ext then do
        slice sXb d o (o + fl)
        pure (o + fl)
      else pure o

def loadXb (d : Bytes) (sauce : Option (Nat × Nat)) : Res Geo :=
  let g := initGeo xbInitW xbInitH xbLinesCleared sauce
  if d.size < Xb.headerSize then .err else do
    slice sXb d 0 4
    if !matchAt d 0 xbId then .err else do
      let w ← rdU16 sXb d 5
      if w < xbMinWidth ∨ w > xbMaxWidth then .err else do
        let h ← rdU16 sXb d 7
        let fs ← rd sXb d 9
        let fs := if fs = 0 then xbDefaultFontSize else fs
        if fs > xbMaxFontSize then .err else do
          let flags ← rd sXb d 10
          -- 512-character mode without a font block is rejected (x_bin.htm: the flag requires the font flag)
          if hasFlag flags Xb.flag512 ∧ ¬ hasFlag flags Xb.flagFont then .err else do
          let o ← xbPalette d Xb.headerSize (hasFlag flags Xb.flagPalette)
          let o ← xbFonts d o fs (hasFlag flags Xb.flagFont) (hasFlag flags Xb.flag512)
          slice sXb d o d.size
          let data := d.extract o d.size
          let g : Geo := { g with bw := w, bh := h, lw := w, lh := h }
          let g ← if hasFlag flags Xb.flagCompress then xbCompressed data w h (data.size + 1) 0 ⟨0, 0⟩ g
                   else xbUncompressed data w h (data.size + 1) 0 ⟨0, 0⟩ g
          pure g.crop

-- ================================================================================================ BIN
def sBin := "formats/bin.rs::load_buffer"

/-- one `for _ in 0..result.get_width()` pass: `some geo` = the loader returned, `none` = row complete -/
def binRow (d : Bytes) : Nat → Nat → Pos → Geo → Res (Option Geo × Nat × Pos × Geo)
  | 0, o, p, g => .ok (none, o, p, g)
  | n + 1, o, p, g =>
    if o ≥ d.size then .ok (some { g with bh := g.lh }, o, p, g)
    else if o + 1 ≥ d.size then .ok (some { g with bh := g.lh }, o, p, g)
    else do
      let lh ← chk32 sBin (p.y + 1)
      let g : Geo := { g with lh := lh }
      let _ ← rd sBin d (o + 1)
      let _ ← rd sBin d o
      let x ← chk32 sBin (p.x + 1)
      binRow d n (o + 2) ⟨x, p.y⟩ (g.setChar p.x p.y)

def binLoop (d : Bytes) : Nat → Nat → Pos → Geo → Res Geo
  | fuel, o, p, g => do
    let r ← binRow d g.bw.toNat o p g
    match r.1 with
    | some res => pure res
    | none =>
      match fuel with
      | 0 => .panic sFuel
      | fuel + 1 => do
        let y ← chk32 sBin (r.2.2.1.y + 1)
        binLoop d fuel r.2.1 ⟨0, y⟩ r.2.2.2

def loadBin (d : Bytes) (sauce : Option (Nat × Nat)) : Res Geo :=
  binLoop d (d.size + 1) 0 ⟨0, 0⟩ (initGeo binInitW binInitH binLinesCleared sauce)

-- ================================================================================================ ADF
def sAdf := "formats/artworx.rs::load_buffer"

def adfRow (d : Bytes) : Nat → Nat → Pos → Geo → Res (Option Geo × Nat × Pos × Geo)
  | 0, o, p, g => .ok (none, o, p, g)
  | n + 1, o, p, g =>
    if o + 2 > d.size then .ok (some g.crop, o, p, g)
    else do
      let lh ← chk32 sAdf (p.y + 1)
      let g : Geo := { g with lh := lh }
      let _ ← rd sAdf d (o + 1)
      let _ ← rd sAdf d o
      let x ← chk32 sAdf (p.x + 1)
      adfRow d n (o + 2) ⟨x, p.y⟩ (g.setChar p.x p.y)

def adfLoop (d : Bytes) : Nat → Nat → Pos → Geo → Res Geo
  | fuel, o, p, g => do
    let r ← adfRow d g.bw.toNat o p g
    match r.1 with
    | some res => pure res
    | none =>
      match fuel with
      | 0 => .panic sFuel
      | fuel + 1 => do
        let y ← chk32 sAdf (r.2.2.1.y + 1)
        adfLoop d fuel r.2.1 ⟨0, y⟩ r.2.2.2

def loadAdf (d : Bytes) (sauce : Option (Nat × Nat)) : Res Geo :=
  let g := initGeo 80 25 adfLinesCleared sauce
  let g : Geo := { g with bw := adfWidth }
  if d.size < adfHeaderLength then .err else do
    let v ← rd sAdf d 0
    if v ≠ adfVersion then .err else do
      let o := 1
      slice sAdf d o (o + adfPaletteSize)      -- from_ega_data reads pal[3*i .. 3*i+2], i <= 63
      let o := o + adfPaletteSize
      slice sAdf d o (o + adfFontSize)
      let o := o + adfFontSize
      adfLoop d (d.size + 1) o ⟨0, 0⟩ g

-- ================================================================================================ IDF
def sIdf := "formats/ice_draw.rs::load_buffer"

/-- ice_draw.rs `advance_pos(x1, x2, pos)` -/
def idfAdvance (x1 x2 : Int) (p : Pos) : Res Pos := do
  let x ← chk32 sIdf (p.x + 1)
  if x > x2 then
    let y ← chk32 sIdf (p.y + 1)
    pure ⟨x1, y⟩
  else pure ⟨x, p.y⟩

/-- `while rle_count > 0`; `none` = the loader returned `OutOfBounds` -/
def idfRun (x1 x2 : Int) : Nat → Pos → Geo → Res (Pos × Geo)
  | 0, p, g => .ok (p, g)
  | n + 1, p, g =>
    if p.y > 65535 then .err else do
      let h ← chk32 sIdf (p.y + 1)
      let g : Geo := { g with lh := h, bh := h }
      let p' ← idfAdvance x1 x2 p
      idfRun x1 x2 n p' (g.setChar p.x p.y)

/-- `while o + 1 < data_size` -/
def idfLoop (d : Bytes) (dataSize : Nat) (x1 x2 : Int) : Nat → Nat → Pos → Geo → Res (Nat × Geo)
  | fuel, o, p, g =>
    if ¬ (o + 1 < dataSize) then .ok (o, g) else
    match fuel with
    | 0 => .panic sFuel
    | fuel + 1 => do
      let ch ← rd sIdf d o
      let attr ← rd sIdf d (o + 1)
      let o := o + 2
      if ch = 1 ∧ attr = 0 then do
        let rle ← rdU16 sIdf d o
        if o + 3 ≥ dataSize then .ok (o, g) else do
          let o := o + 2
          let _ ← rd sIdf d o
          let _ ← rd sIdf d (o + 1)
          let r ← idfRun x1 x2 rle p g
          idfLoop d dataSize x1 x2 fuel (o + 2) r.1 r.2
      else do
        let r ← idfRun x1 x2 1 p g
        idfLoop d dataSize x1 x2 fuel o r.1 r.2

def loadIdf (d : Bytes) (sauce : Option (Nat × Nat)) : Res Geo :=
  let g := initGeo 80 25 idfLinesCleared (if idfResizeToSauce then sauce else none)
  if d.size < idfHeaderSize + idfFontSize + idfPaletteSize then .err else do
    slice sIdf d 0 4
    if !(matchAt d 0 idfV13 || matchAt d 0 idfV14) then .err else do
      let x1 ← rdU16 sIdf d 4
      let y1 ← rdU16 sIdf d 6
      let x2 ← rdU16 sIdf d 8
      let o := 12
      if x2 < x1 then .err else do
        let w ← chk32 sIdf ((x2 : Int) - x1 + 1)
        let g : Geo := { g with bw := w }
        let ds ← usub sIdf d.size idfFontSize
        let ds ← usub sIdf ds idfPaletteSize
        let r ← idfLoop d ds x1 x2 (d.size + 1) o ⟨x1, y1⟩ g
        let o := r.1
        slice sIdf d o (o + idfFontSize)
        let o := o + idfFontSize
        slice sIdf d o (o + idfPaletteSize)
        pure r.2

-- ================================================================================================ Tundra
def sTnd := "formats/tundra.rs::load_buffer"
def sTndU := "formats/tundra.rs::to_u32"
def sTndAdv := "formats/tundra.rs::advance_pos"

/-- `to_u32(&data[o..])`: big-endian, then `as i32` by the shifts -/
def tndU32 (d : Bytes) (o : Nat) : Res Int := do
  slice sTnd d o d.size
  let b3 ← rd sTndU d (o + 3)
  let b2 ← rd sTndU d (o + 2)
  let b1 ← rd sTndU d (o + 1)
  let b0 ← rd sTndU d o
  pure (asI32 (b3 + b2 * 256 + b1 * 65536 + b0 * 16777216))

/-- the three colour bytes after the skipped one: `o += 1; data[o]; o += 1; data[o]; o += 1; data[o]; o += 1` -/
def tndColor (d : Bytes) (o : Nat) (has : Bool) : Res Nat :=
  if !has then .ok o
  else if o + 4 > d.size then .err
  else do
    let _ ← rd sTnd d (o + 1)
    let _ ← rd sTnd d (o + 2)
    let _ ← rd sTnd d (o + 3)
    pure (o + 4)

def tndLoop (d : Bytes) (bw : Int) : Nat → Nat → Pos → Geo → Res Geo
  | fuel, o, p, g =>
    if ¬ (o < d.size) then .ok { g with bw := g.lw, bh := g.lh } else
    match fuel with
    | 0 => .panic sFuel
    | fuel + 1 => do
      let cmd ← rd sTnd d o
      let o := o + 1
      if cmd = tndPosition then
        if o + 8 > d.size then .err else do
          let y ← tndU32 d o
          if y ≥ 65535 then .err else do
            let x ← tndU32 d (o + 4)
            if x ≥ bw then .err else
              tndLoop d bw fuel (o + 8) ⟨x, y⟩ g
      else do
        let o ← (if cmd > tndCmdLo ∧ cmd ≤ tndCmdHi then
            if o ≥ d.size then Res.err else do
              let _ ← rd sTnd d o
              let o ← tndColor d (o + 1) (cmd &&& tndColorFg != 0)
              tndColor d o (cmd &&& tndColorBg != 0)
          else Res.ok o)
        let h ← chk32 sTnd (p.y + 1)
        let g : Geo := { g with lh := h }
        let p' ← advance sTndAdv bw p
        tndLoop d bw fuel o p' (g.setChar p.x p.y)

/-- the Tundra loader's start buffer: `set_sauce`, then a SAUCE width above the `set_sauce` limit is taken as it is (the
    width is stored nowhere else) -/
def tndGeo (sauce : Option (Nat × Nat)) : Geo :=
  let g0 := initGeo 80 25 tndLinesCleared sauce
  match sauce with
  | some (sw, _) => if sw > tndWideAbove then { g0 with bw := sw, lw := sw } else g0
  | none => g0

def loadTnd (d : Bytes) (sauce : Option (Nat × Nat)) : Res Geo :=
  let g := tndGeo sauce
  if d.size < 1 + tndHeader.length then .err else do
    slice sTnd d 1 (tndHeader.length + 1)
    if !matchAt d 1 tndHeader then .err else
      tndLoop d g.bw (d.size + 1) (1 + tndHeader.length) ⟨0, 0⟩ g

-- ================================================================================================ SAUCE (what the dispatch needs) + dispatch
def sSauce := "sauce_mod/mod.rs::extract"
def sFrom := "buffers.rs::from_bytes"

structure SauceInfo where
  headerLen : Nat
  w : Nat
  h : Nat
  deriving Repr, DecidableEq

/-- `SauceData::extract`, reduced to what `Buffer::from_bytes` and the loaders use: presence, the size the
    record announces, `sauce_header_len`.  `dateOk` = the result of chrono's date parser (outside the model).
    `.err` = `Err(..)` (the dispatch then loads the whole file without SAUCE). -/
def sauceInfo (d : Bytes) (dateOk : Bool) : Res (Option SauceInfo) :=
  if d.size < sauceLen then .ok none else do
    let o ← usub sSauce d.size sauceLen
    slice sSauce d o (o + 5)
    if !matchAt d o sauceId then .ok none else do
      slice sSauce d (o + 5) (o + 7)
      if !matchAt d (o + 5) [48, 48] then .err
      else if !dateOk then .err
      else do
        let dataType ← rd sSauce d (o + 94)
        let fileType ← rd sSauce d (o + 95)
        let t1 ← rdU16 sSauce d (o + 96)
        let t2 ← rdU16 sSauce d (o + 98)
        let comments ← rd sSauce d (o + 104)
        let size : Nat × Nat :=
          if dataType = sauceTypeBinaryText then ((fileType * 2) % 65536, 25)
          else if dataType = sauceTypeXBin then (t1, t2)
          else if dataType = sauceTypeCharacter ∧ sauceCharTypes.contains fileType then (t1, t2)
          else (80, 25)
        let len ← (if comments > 0 then do
            let rest ← usub sSauce d.size sauceLen
            if sauceCommentCheckUsize then
              if rest < comments * 64 + 5 then Res.err else do
                let cs ← usub sSauce rest (comments * 64 + 5)
                slice sSauce d cs (cs + 5)
                if !matchAt d cs sauceCommentId then Res.err else pure cs
            else do
              -- `(len - 128) as i32 - n as i32 * 64 - 5 < 0`
              let a ← chk32 sSauce (asI32 rest - (comments : Int) * 64)
              let b ← chk32 sSauce (a - 5)
              if b < 0 then Res.err else do
                let c1 ← usub sSauce rest (comments * 64)
                let cs ← usub sSauce c1 5
                slice sSauce d cs (cs + 5)
                if !matchAt d cs sauceCommentId then Res.err else pure cs
          else usub sSauce d.size sauceLen)
        let offset ← (if sauceOffsetSaturating then Res.ok (len - 1) else usub sSauce len 1)
        let hl ← usub sSauce d.size offset
        pure (some ⟨hl, size.1, size.2⟩)

def lowerAscii (s : String) : String := String.ofList (s.toList.map fun c => if 'A' ≤ c ∧ c ≤ 'Z' then Char.ofNat (c.toNat + 32) else c)

/-- the loader module `Buffer::from_bytes` picks for an extension (first match in `FORMATS`, else ANSI) -/
def loaderFor (ext : String) : String :=
  match extTable.find? (fun p => p.1 == lowerAscii ext) with
  | some p => p.2
  | none => "ansi"

/-- `Buffer::from_bytes` up to the call of `load_buffer`: `(len, sauce size)` with `&bytes[..len]` the content -/
def dispatchLen (d : Bytes) (dateOk : Bool) : Res (Nat × Option (Nat × Nat)) :=
  match sauceInfo d dateOk with
  | .panic s => .panic s
  | .err => .ok (d.size, none)
  | .ok none => .ok (d.size, none)
  | .ok (some s) => do
    let len ← usub sFrom d.size s.headerLen     -- `len -= sauce.sauce_header_len`
    slice sFrom d 0 len                           -- `&bytes[..len]`
    pure (len, some (s.w, s.h))

inductive Obs where
  | geo : Geo → Obs
  | text : Obs      -- a stream format (model: TermGeo, C01) or the .icy container
  deriving Repr, DecidableEq

def fromBytes (d : Bytes) (ext : String) (dateOk : Bool) : Res Obs := do
  let r ← dispatchLen d dateOk
  let data := d.extract 0 r.1
  let m := loaderFor ext
  if m == "xbinary" then Obs.geo <$> loadXb data r.2
  else if m == "bin" then Obs.geo <$> loadBin data r.2
  else if m == "artworx" then Obs.geo <$> loadAdf data r.2
  else if m == "ice_draw" then Obs.geo <$> loadIdf data r.2
  else if m == "tundra" then Obs.geo <$> loadTnd data r.2
  else pure Obs.text

-- ================================================================================================ TheDraw fonts
def sTdf := "tdf_font/mod.rs::from_tdf_bytes"

structure TdfFont where
  ty : Nat
  spaces : Nat
  present : Nat
  height : Nat
  deriving Repr, DecidableEq

/-- `for i in 0..font_name_len { if bytes[o + i] == 0 { font_name_len = i; break; } }` -/
def tdfName (d : Bytes) (o : Nat) : Nat → Nat → Res Nat
  | 0, i => .ok i
  | k + 1, i => do
    let b ← rd sTdf d (o + i)
    if b = 0 then pure i else tdfName d o k (i + 1)

/-- the `loop` reading one glyph's data up to its 0 terminator -/
def tdfGlyphData (d : Bytes) (color : Bool) : Nat → Nat → Res Unit
  | fuel, off =>
    if off ≥ d.size then .err else
    match fuel with
    | 0 => .panic sFuel
    | fuel + 1 => do
      let ch ← rd sTdf d off
      let off := off + 1
      if ch = 0 then pure ()
      else if color then
        if ch = 13 then tdfGlyphData d color fuel off
        else if off ≥ d.size then .err
        else do
          let _ ← rd sTdf d off
          tdfGlyphData d color fuel (off + 1)
      else tdfGlyphData d color fuel off

/-- `for char_offset in char_lookup_table`: (glyphs present, height of the first one) -/
def tdfGlyphs (d : Bytes) (o blockSize : Nat) (color : Bool) : List Nat → Nat → Option Nat → Res (Nat × Option Nat)
  | [], n, fh => .ok (n, fh)
  | co :: rest, n, fh =>
    if co = 65535 then tdfGlyphs d o blockSize color rest n fh
    else if co ≥ blockSize then .err
    else
      let off := co + o
      if off + 2 > d.size then .err else do
        let _ ← rd sTdf d off
        let h ← rd sTdf d (off + 1)
        tdfGlyphData d color (d.size + 1) (off + 2)
        tdfGlyphs d o blockSize color rest (n + 1) (match fh with | some v => some v | none => some h)

/-- `for _ in 0..CHAR_TABLE_SIZE { bytes[o] | bytes[o + 1] << 8; o += 2 }` -/
def tdfTable (d : Bytes) : Nat → Nat → List Nat → Res (List Nat)
  | 0, _, acc => .ok acc.reverse
  | k + 1, o, acc => do
    let v ← rdU16 sTdf d o
    tdfTable d k (o + 2) (v :: acc)

def tdfRecordLen : Nat := tdfHeaderSize - tdfId.length - 2

def tdfFonts (d : Bytes) : Nat → Nat → List TdfFont → Res (List TdfFont)
  | fuel, o, acc =>
    if ¬ (o < d.size) then .ok acc.reverse else
    match fuel with
    | 0 => .panic sFuel
    | fuel + 1 => do
      let b ← rd sTdf d o
      if b = 0 then pure acc.reverse
      else if d.size < o + tdfRecordLen then .err
      else do
        let ind ← rdU32 sTdf d o
        if ind ≠ tdfFontIndicator then .err else do
          let o := o + 4
          let nameLen ← rd sTdf d o
          let o := o + 1
          if nameLen > tdfFontNameLen then .err else do
            let nl ← tdfName d o nameLen 0
            slice sTdf d o (o + nl)
            let o := o + tdfFontNameLen + 4
            let ty ← rd sTdf d o
            if ty > 2 then .err else do
              let o := o + 1
              let spaces ← rd sTdf d o
              if spaces > tdfMaxLetterSpace then .err else do
                let o := o + 1
                let blockSize ← rdU16 sTdf d o
                let o := o + 2
                let table ← tdfTable d tdfCharTableSize o []
                let o := o + 2 * tdfCharTableSize
                let r ← tdfGlyphs d o blockSize (ty == 2) table 0 none
                tdfFonts d fuel (o + blockSize) (⟨ty, spaces, r.1, r.2.getD 0⟩ :: acc)

def loadTdf (d : Bytes) : Res (List TdfFont) :=
  if d.size < tdfHeaderSize then .err else do
    let b ← rd sTdf d 0
    if b ≠ tdfId.length + 1 then .err else do
      slice sTdf d 1 19
      if !matchAt d 1 tdfId then .err else do
        let o := tdfId.length + 1
        let m ← rd sTdf d o
        if m ≠ tdfCtrlZ then .err else
          tdfFonts d (d.size + 1) (o + 1) []

-- ================================================================================================ clipboard
def sClip := "layer.rs::from_clipboard_data"
def sClipAbort := "abort:layer.rs::from_clipboard_data"

structure ClipObs where
  w : Int
  h : Int
  lines : Nat
  x : Int
  y : Int
  deriving Repr, DecidableEq

def isSurrogate (c : Nat) : Bool := 55296 ≤ c && c ≤ 57343

/-- the cell loop: `data[0] .. data[13]`, then `data = &data[14..]` (`off` = start of `data` in the input) -/
def clipCells (d : Bytes) : Nat → Nat → Res Unit
  | 0, _ => .ok ()
  | n + 1, off => do
    let ch ← rdU16 sClip d off
    let _ ← rd sClip d (off + 13)
    if clipCharUnchecked ∧ isSurrogate ch then .panic sClipAbort else do
      slice sClip d (off + 14) d.size
      clipCells d n (off + 14)

/-- `Layer::from_clipboard_data`; `.err` = `None` -/
def loadClip (d : Bytes) : Res ClipObs :=
  if d.size < 17 then .err else do
    let t ← rd sClip d 0
    if t ≠ 0 then .err else do
      let x ← rdU32 sClip d 1
      let y ← rdU32 sClip d 5
      let w ← rdU32 sClip d 9
      let h ← rdU32 sClip d 13
      slice sClip d 17 d.size
      let rest := d.size - 17
      let cells := w * h
      if cells = 0 ∨ cells > 2147483647 ∨ rest / 14 < cells then .err else do
        clipCells d cells 17
        pure ⟨asI32 w, asI32 h, h, asI32 x, asI32 y⟩

-- ================================================================================================ IcyDraw chunk payloads
def sIcy := "formats/icy_draw.rs::load_buffer"
def sIcyStr := "formats/icy_draw.rs::read_utf8_encoded_string"
def sIcyAbort := "abort:formats/icy_draw.rs::load_buffer"

structure Lay where
  role : Nat          -- 0 normal, 1 image
  w : Int
  h : Int
  lines : Nat
  ox : Int
  oy : Int
  pic : Nat           -- picture_data.len() of an image layer
  writable : Bool     -- !is_locked && is_visible (set_char returns early otherwise)
  deriving Repr, DecidableEq

structure IcySt where
  bw : Int
  bh : Int
  layers : Array Lay
  deriving Repr, DecidableEq

/-- what the loaders owned by other models answered on a payload (`o`k, `e`rr, `p`anic) -/
inductive Foreign where
  | ok | err | panic
  deriving Repr, DecidableEq

def Lay.setChar (l : Lay) (x y : Int) : Lay :=
  if x < 0 ∨ y < 0 ∨ x ≥ l.w ∨ y ≥ l.h then l
  else if !l.writable then l
  else if l.lines ≤ y.toNat then { l with lines := y.toNat + 1 } else l

def validChar (c : Nat) : Bool := c < 55296 || (57344 ≤ c && c < 1114112)

/-- one cell after its attribute word: `(new offset, is a cell written)`; `guarded` = the decoder has the
    `o + 4` / `o + 14` checks (both have them after the repair) -/
def icyCell (d : Bytes) (o : Nat) (short : Bool) : Res Nat :=
  if short then
    if o + 4 > d.size then .err else do
      let _ ← rd sIcy d o
      let _ ← rd sIcy d (o + 1)
      let _ ← rd sIcy d (o + 2)
      let _ ← rd sIcy d (o + 3)
      pure (o + 4)
  else
    if o + 14 > d.size then .err else do
      let ch ← rdU32 sIcy d o
      let _ ← rdU32 sIcy d (o + 4)
      let _ ← rdU32 sIcy d (o + 8)
      let _ ← rdU16s sIcy d (o + 12)
      if icyCharUnchecked ∧ !validChar ch then .panic sIcyAbort
      else if !validChar ch then .err
      else pure (o + 14)

/-- `for x in 0..width` of one row: `(offset, layer)` -/
def icyRow (d : Bytes) (y : Int) : Nat → Int → Nat → Lay → Res (Nat × Lay)
  | 0, _, o, l => .ok (o, l)
  | n + 1, x, o, l =>
    if o + 2 > d.size then .err else do
      let attr ← rdU16s sIcy d o
      let o := o + 2
      if attr = attrInvisibleShort then pure (o, l)
      else
        let short := attr &&& attrShortData != 0
        let attr := if short then attr - attrShortData else attr
        if attr = attrInvisible then icyRow d y n (x + 1) o l
        else do
          let o ← icyCell d o short
          icyRow d y n (x + 1) o (l.setChar x y)

/-- `for y in y0..height`: rows until the data runs out -/
def icyRows (d : Bytes) : Nat → Int → Nat → Lay → Res Lay
  | 0, _, _, l => .ok l
  | n + 1, y, o, l =>
    if o ≥ d.size then .ok l else do
      let r ← icyRow d y l.w.toNat 0 o l
      icyRows d n (y + 1) r.1 r.2

/-- `read_utf8_encoded_string(&bytes[o..])`: the size consumed -/
def icyString (d : Bytes) (o : Nat) : Res Nat := do
  slice sIcy d o d.size
  let rest := d.size - o
  if rest < 4 then .err else do
    let size ← rdU32 sIcyStr d o
    let r4 ← usub sIcyStr rest 4
    if r4 < size then .err else do
      slice sIcyStr d (o + 4) (o + 4 + size)
      pure (size + 4)

def isDigit (c : Char) : Bool := '0' ≤ c && c ≤ '9'

def digitsVal (cs : List Char) : Nat := cs.foldl (fun a c => a * 10 + (c.toNat - 48)) 0

/-- `str::parse::<usize>()`: optional `+`, at least one digit, all digits, below 2^64 -/
def parseUsize (s : List Char) : Option Nat :=
  let s := match s with | '+' :: r => r | r => r
  if s.isEmpty ∨ !s.all isDigit then none
  else let v := digitsVal s; if v < 18446744073709551616 then some v else none

/-- leftmost match of `LAYER_(\d+)~(\d+)` anywhere in the keyword: the first capture -/
def layerContinue : Nat → List Char → Option (List Char)
  | 0, _ => none
  | _, [] => none
  | fuel + 1, c :: rest =>
    let s := c :: rest
    let hit : Option (List Char) :=
      if "LAYER_".toList.isPrefixOf s then
        let t := s.drop 6
        let ds := t.takeWhile isDigit
        let u := t.dropWhile isDigit
        match u with
        | '~' :: v => (match v with
          | e :: _ => if !ds.isEmpty ∧ isDigit e then some ds else none
          | [] => none)
        | _ => none
      else none
    match hit with
    | some ds => some ds
    | none => layerContinue fuel rest

/-- a new `LAYER_n` chunk -/
def icyNewLayer (d : Bytes) (st : IcySt) : Res IcySt := do
  let size ← icyString d 0
  let o := size
  if d.size < o + icyLayerHeaderLen then .err else do
    let role ← rd sIcy d o
    let o := o + 1 + 4
    let mode ← rd sIcy d o
    if mode > 2 then .err else do
      let o := o + 1
      let _ ← rd sIcy d o
      let _ ← rd sIcy d (o + 1)
      let _ ← rd sIcy d (o + 2)
      let _ ← rd sIcy d (o + 3)
      let o := o + 4
      let flags ← rdU32 sIcy d o
      let o := o + 4
      let _ ← rd sIcy d o
      let o := o + 1
      let ox ← rdU32 sIcy d o
      let oy ← rdU32 sIcy d (o + 4)
      let w ← rdU32 sIcy d (o + 8)
      let h ← rdU32 sIcy d (o + 12)
      let o := o + 16
      let _ ← rdU16s sIcy d o
      let o := o + 2
      let length ← rdU64 sIcy d o
      let o := o + 8
      let writable := !(flags &&& layerEditLock == layerEditLock) && (flags &&& layerVisible == layerVisible)
      if role = 1 then
        if d.size < o + icyImageHeaderLen then .err else do
          let _ ← rdU32 sIcy d o
          let _ ← rdU32 sIcy d (o + 4)
          let _ ← rdU32 sIcy d (o + 8)
          let _ ← rdU32 sIcy d (o + 12)
          let o := o + 16
          slice sIcy d o d.size
          pure { st with layers := st.layers.push ⟨1, asI32 w, asI32 h, 0, asI32 ox, asI32 oy, d.size - o, writable⟩ }
      else do
        let rest ← usub sIcy d.size o
        if rest < length then .err else do
          -- while the cells are read the layer is still unlocked and visible (flags are applied afterwards)
          let l : Lay := ⟨0, asI32 w, asI32 h, 0, asI32 ox, asI32 oy, 0, true⟩
          let l ← icyRows d l.h.toNat 0 o l
          pure { st with layers := st.layers.push { l with writable := writable } }

/-- a `LAYER_n~k` chunk for layer number `n` -/
def icyContinue (d : Bytes) (st : IcySt) (n : Nat) : Res IcySt :=
  if h : n < st.layers.size then
    let l := st.layers[n]
    if l.role = 0 then do
      let l' ← icyRows d (l.h - (l.lines : Int)).toNat (l.lines : Int) 0 l
      pure { st with layers := st.layers.set n l' }
    else
      pure { st with layers := st.layers.set n { l with pic := l.pic + d.size } }
  else .err

def sForeign := "foreign"

def foreign (f : Foreign) : Res Unit :=
  match f with
  | .ok => .ok ()
  | .err => .err
  | .panic => .panic sForeign

/-- one decoded zTXt chunk: `none` = "END" (stop), `some st` = go on -/
def icyChunk (kw : String) (d : Bytes) (f : Foreign) (st : IcySt) : Res (Option IcySt) :=
  if kw == "END" then .ok none
  else if kw == "ICED" then
    if d.size ≠ icedHeaderSize then .err else do
      let _ ← rdU16s sIcy d 6
      let _ ← rd sIcy d 8
      let _ ← rd sIcy d 9
      let _ ← rd sIcy d 10
      let w ← rdU32 sIcy d 11
      let h ← rdU32 sIcy d 15
      pure (some { st with bw := asI32 w, bh := asI32 h })
  else if kw == "PALETTE" ∨ kw == "SAUCE" then do
    foreign f
    pure (some st)
  else
    let cs := kw.toList
    if "FONT_".toList.isPrefixOf cs then
      match parseUsize (cs.drop 5) with
      | none => .err
      | some _ => do
        let _ ← icyString d 0
        foreign f
        pure (some st)
    else if !"LAYER_".toList.isPrefixOf cs then .ok (some st)
    else
      match layerContinue (cs.length + 1) cs with
      | some ds =>
        (match parseUsize ds with
         | none => .err
         | some n => some <$> icyContinue d st n)
      | none => some <$> icyNewLayer d st

def icyChunks : List (String × Bytes × Foreign) → IcySt → Res IcySt
  | [], st => .ok st
  | (kw, d, f) :: rest, st => do
    let r ← icyChunk kw d f st
    match r with
    | none => pure st
    | some st' => icyChunks rest st'

/-- `IcyDraw::load_buffer` on a container whose zTXt chunks decode to `chunks` (in order) -/
def loadIcy (chunks : List (String × Bytes × Foreign)) : Res IcySt :=
  icyChunks chunks ⟨80, 25, #[]⟩

end IcyVerif.Loaders
