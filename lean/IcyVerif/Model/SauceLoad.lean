import IcyVerif.Model.Sauce
import IcyVerif.Model.BinFormats
/-! `Buffer::from_bytes` for the five binary formats, COMPOSED from the two existing models:
    the SAUCE split of `Model/Sauce.lean` (the full `SauceData::extract`: comment block, every error return, every
    index as a panic site; `fromBytesSplit` = `let mut len = bytes.len(); match SauceData::extract(bytes) { … len -=
    sauce_header_len … }; &bytes[..len]`) followed by the format loader of `Model/BinFormats.lean` (C05).

    Since the merge of the C05 work package `Model/BinFormats.lean` has no SAUCE reader of its own any more (its cut-down
    `extractSauce` and its four-field record are gone): `BinFormats.fromBytes` IS this composition, at `BinFormats.dateOk`
    and with the two outcome levels flattened (`fromBytes_is_binformats`, Lemmas/SauceLoad.lean), and the loaders take the
    record C11 proves things about (`Sauce.Sauce`) as it is.

    Also: the probe alphabet of the harness (`c11load.rs`): the bytes the `.asc` loader draws as one non-blank cell. -/
namespace IcyVerif.SauceLoad
open IcyVerif.Sauce

/-- `Buffer::from_bytes(Path::new("a.<ext>"), _, bytes)`, ext ∈ xb bin adf idf tnd.  Outer result: the SAUCE code
    (`panic` = a panic inside `extract` / the `len` arithmetic / the slice); inner result: the format loader -/
def fromBytes (dateOk : List Nat → Bool) (f : BinFormats.Fmt) (bytes : List Nat) : Res (BinFormats.Out BinFormats.LBuf) :=
  (fromBytesSplit dateOk bytes).bind fun cs => .ok (BinFormats.loadBody f cs.1 cs.2)

/-- probe alphabet `D`: 0x1A and the printable non-blank ASCII range — the `.asc` loader (`byte as char`, then
    `ascii::Parser::print_char`: everything but NUL, BEL, BS, LF, FF, CR, DEL, 0xFF is `print_value`) draws each as one
    visible cell, in reading order -/
def inD (b : Nat) : Bool := b == 26 || (33 ≤ b && b ≤ 126)

/-- length of the longest prefix of `file` inside the probe alphabet -/
def dPrefix (file : List Nat) : Nat := (file.takeWhile inD).length

end IcyVerif.SauceLoad
