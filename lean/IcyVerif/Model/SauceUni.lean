import IcyVerif.Model.Sauce
import IcyVerif.Gen.Codec
import IcyVerif.Gen.SauceUni
/-! # `SauceString::from(String)` and `to_string()`: the CP437 ↔ Unicode layer of SAUCE strings (C11)

`Model/Sauce.lean` works on CP437 bytes (`strFrom len s = s.take len`).  The API takes and returns Rust `String`s:
`from` searches every character in `CP437_TO_UNICODE` (first index; `?` when it is not there, at most `LEN` characters),
`to_string` maps the bytes below `len()` through the table.  The table is the regenerated `Gen/Codec.lean: cp437`
(the same `ascii::CP437_TO_UNICODE` C18 uses).  Strings are lists of code points. -/
namespace IcyVerif.Sauce
open IcyVerif.Gen.Sauce IcyVerif.Gen.Codec

/-- the `for i in 0..CP437_TO_UNICODE.len()` search: the first index (counted from `i`) that holds `ch` -/
def firstIdx : List Nat → Nat → Nat → Option Nat
  | [], _, _ => none
  | x :: xs, i, ch => if x = ch then some i else firstIdx xs (i + 1) ch

/-- the byte `from` pushes for one character: its index in the table, else `b'?'` -/
def cpByte (ch : Nat) : Nat := (firstIdx cp437 0 ch).getD IcyVerif.Gen.SauceUni.substitute

/-- `CP437_TO_UNICODE[b as usize]` -/
def cpChar (b : Nat) : Nat := cp437.getD b 0

/-- `SauceString::<LEN, _>::from(str)`: one byte per character, at most `LEN` characters -/
def strFromUni (len : Nat) (t : List Nat) : List Nat := (t.take len).map cpByte

/-- `to_string()` as code points -/
def strTextUni (s : List Nat) : List Nat := (strText s).map cpChar

end IcyVerif.Sauce
