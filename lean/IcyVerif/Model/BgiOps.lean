import IcyVerif.Model.BgiLine
/-! The modelled part of the public `Bgi` API as data (`Op`), so that sequences of calls can be quantified over. -/
namespace IcyVerif.Bgi

-- ------------------------------------------------------------------------------------------------ the modelled API as data
/-- one call of the modelled part of the public `Bgi` API -/
inductive Op where
  | putPixel (x y : Int) (c : Nat)
  | bar (l t r b : Int)
  | barRect (r : Rect)
  | setViewport (x0 y0 x1 y1 : Int)
  | clearViewport
  | setColor (c : Nat)
  | setBkColor (c : Nat)
  | setFillColor (c : Nat)
  | setFillStyle (v : Nat)
  | setWriteMode (v : Nat)
  | setLineStyle (v : Nat)
  | setLineThickness (t : Int)
  | setLinePattern (p : Int)
  | setUserFillPattern (p : List Nat)
  | setPalette (colors : List Int)
  | setPaletteColor (index : Nat) (color : Nat)
  | graphDefaults
  | line (x1 y1 x2 y2 : Int)
  deriving Repr

/-- `none` = the call panics -/
def applyOp (s : Bgi) : Op → Option Bgi
  | .putPixel x y c => putPixel s x y c
  | .bar l t r b => bar s l t r b
  | .barRect r => barRect s r
  | .setViewport x0 y0 x1 y1 => setViewport s x0 y0 x1 y1
  | .clearViewport => clearViewport s
  | .setColor c => some (setColor s c)
  | .setBkColor c => some (setBkColor s c)
  | .setFillColor c => some (setFillColor s c)
  | .setFillStyle v => some (setFillStyle s v)
  | .setWriteMode v => some (setWriteMode s v)
  | .setLineStyle v => some (setLineStyle s v)
  | .setLineThickness t => some (setLineThickness s t)
  | .setLinePattern p => some (setLinePattern s p)
  | .setUserFillPattern p => some (setUserFillPattern s p)
  | .setPalette cs => setPalette s cs
  | .setPaletteColor i c => setPaletteColor s i c
  | .graphDefaults => graphDefaults s
  | .line x1 y1 x2 y2 => line s x1 y1 x2 y2

/-- a sequence of calls; a panic ends it -/
def applyOps : Bgi → List Op → Option Bgi
  | s, [] => some s
  | s, op :: rest =>
    match applyOp s op with
    | some s' => applyOps s' rest
    | none => none

end IcyVerif.Bgi
