import IcyVerif.Model.TermFile
import IcyVerif.Model.TermWrap
/-! # Avatar, PCBoard, Ctrl-A and Renegade in front of the ANSI parser, on a FILE buffer
(`src/parsers/{avatar,pcboard,ctrla,renegade}/mod.rs` as `.avt/.pcb/.msg/.an1-9` files run them).  Same state machines as
`Model/TermWrap.lean`; the wrapped parser is `TermFile.stepF` with `ansi::Parser::default()` (`wcfg`), the cursor moves
use the file-buffer `limit_caret_pos`, and the two plain `i32` steps of Avatar (`y += 1`, `x + 1`) are checked. -/
namespace IcyVerif.TermFile
open IcyVerif.Term

structure FWSt where
  inner : FSt
  avt : AvtSt := .chars
  avtChar : Char := ' '
  pcbCode : Bool := false
  pcbColor : Bool := false
  pcbPos : Nat := 0
  ctrlA : Bool := false
  rng : Nat := 0
deriving Repr, Inhabited

abbrev FWR := Res (FWSt × Out)

def innerF (w : FWSt) (o : Nat → Orc) (ch : Char) : FWR :=
  match stepF wcfg o w.inner ch with
  | .ok (st, out) => .ok ({ w with inner := st }, out)
  | .error e => .error e

def fwlimit (w : FWSt) (c : Car) (out : Out) : FWR :=
  match limitF w.inner.s c with
  | .ok c' => .ok ({ w with inner := { w.inner with c := c' } }, out)
  | .error e => .error e

/-- `for _ in 0..count { ansi.print_char(ch)? }`: stops at the first Err -/
def avtRepeatF (o : Nat → Orc) (ch : Char) : Nat → FWSt → FWR
  | 0, w => .ok (w, .ok)
  | n+1, w =>
    match stepF wcfg o w.inner ch with
    | .ok (st, .err) => .ok ({ w with inner := st }, .err)
    | .ok (st, _) => avtRepeatF o ch n { w with inner := st }
    | .error e => .error e

def avatarStepF (w : FWSt) (o : Nat → Orc) (ch : Char) : FWR :=
  let s := w.inner.s
  let c := w.inner.c
  match w.avt with
  | .chars =>
    if ch = '\x0c' then .ok ({ w with inner := ffF w.inner }, .ok)
    else if ch = '\x19' then .ok ({ w with avt := .repeatChars 1 }, .ok)
    else if ch = '\x16' then .ok ({ w with avt := .readCommand }, .ok)
    else innerF w o ch
  | .readCommand =>
    let n := ch.toNat % 65536      -- `ch as u16`
    if n = 1 then .ok ({ w with avt := .readColor }, .ok)
    else if n = 2 then .ok ({ w with avt := .chars }, .ok)
    else if n = 3 then
      if c.y - 1 < -2147483648 then .error (.overflow "parsers/avatar/mod.rs::print_char: caret.pos.y - 1")
      else fwlimit { w with avt := .chars } { c with y := max 0 (c.y - 1) } .ok
    else if n = 4 then
      match add1 "parsers/avatar/mod.rs::print_char: caret.pos.y += 1" c.y with
      | .ok y1 => fwlimit { w with avt := .chars } { c with y := y1 } .ok
      | .error e => .error e
    else if n = 5 then .ok ({ w with avt := .chars, inner := { w.inner with c := { c with x := max 0 (c.x - 1) } } }, .ok)
    else if n = 6 then
      match add1 "parsers/avatar/mod.rs::print_char: caret.pos.x + 1" c.x with
      | .ok x1 => .ok ({ w with avt := .chars, inner := { w.inner with c := { c with x := min (s.tw - 1) x1 } } }, .ok)
      | .error e => .error e
    else if n = 7 then .ok (w, .err)
    else if n = 8 then .ok ({ w with avt := .moveCursor 1 }, .ok)
    else .ok ({ w with avt := .chars }, .err)
  | .repeatChars k =>
    if k = 1 then .ok ({ w with avt := .repeatChars 2, avtChar := ch }, .ok)
    else if k = 2 then
      match avtRepeatF o w.avtChar (min ch.toNat 255) { w with avt := .repeatChars 3 } with
      | .ok (w', .err) => .ok (w', .err)
      | .ok (w', _) => .ok ({ w' with avt := .chars }, .ok)
      | .error e => .error e
    else .ok ({ w with avt := .chars }, .err)
  | .readColor => .ok ({ w with avt := .chars }, .ok)
  | .moveCursor k =>
    if k = 1 then .ok ({ w with avt := .moveCursor 2, avtChar := ch }, .ok)
    else if k = 2 then fwlimit { w with avt := .chars } { c with x := max 0 ((ch.toNat : Int) - 1), y := max 0 ((w.avtChar.toNat : Int) - 1) } .ok
    else .ok (w, .err)

def pcboardStepF (w : FWSt) (o : Nat → Orc) (ch : Char) : FWR :=
  if w.pcbColor then
    let pos := w.pcbPos + 1
    if pos = 1 then .ok ({ w with pcbPos := pos }, .ok)
    else .ok ({ w with pcbPos := pos, pcbColor := false, pcbCode := false }, .ok)
  else if w.pcbCode then
    if ch = '@' then .ok ({ w with pcbCode := false }, .ok)
    else if ch = 'X' then .ok ({ w with pcbColor := true, pcbPos := 0 }, .ok)
    else .ok (w, .ok)
  else if ch = '@' then .ok ({ w with pcbCode := true }, .ok)
  else innerF w o ch

def ctrlaStepF (w : FWSt) (o : Nat → Orc) (ch : Char) : FWR :=
  let s := w.inner.s
  let c := w.inner.c
  let r := w.inner.r
  if w.ctrlA then
    let w := { w with ctrlA := false }
    if ch = 'L' then .ok ({ w with inner := clearScreenF w.inner }, .ok)
    else if ch = '\'' then .ok ({ w with inner := { w.inner with c := { c with x := 0, y := 0 } } }, .ok)
    else if ch = 'J' then .ok ({ w with inner := { w.inner with r := r.touchRect 0 (s.bw - 1) c.y (s.bh - 1) } }, .ok)   -- clear_buffer_down
    else if ch = '>' then .ok ({ w with inner := { w.inner with r := r.touchRect c.x (s.bw - 1) c.y c.y } }, .ok)        -- clear_line_end
    else if ch = '<' then fwlimit w { c with x := satSub c.x 1 } .ok
    else if ch = '|' then .ok ({ w with inner := { w.inner with c := { c with x := 0 } } }, .ok)
    else if ch = ']' then fwlimit w { c with y := satAdd c.y 1 } .ok
    else if ch = 'A' then
      match stepF wcfg o w.inner '\x01' with
      | .ok (st, _) => .ok ({ w with inner := st }, .ok)
      | .error e => .error e
    else if ch = 'H' ∨ ch = 'I' ∨ ch = 'E' ∨ ch = 'N' ∨ ch = 'Z' then .ok (w, .ok)
    else if "KBGCRMYW".toList.contains ch ∨ "04261537".toList.contains ch then .ok (w, .ok)
    else if 128 ≤ ch.toNat ∧ ch.toNat ≤ 255 then fwlimit w { c with x := satAdd c.x ((ch.toNat : Int) - 127) } .ok
    else .ok (w, .ok)
  else if ch = '\x01' then .ok ({ w with ctrlA := true }, .ok)
  else innerF w o ch

def renegadeStepF (w : FWSt) (o : Nat → Orc) (ch : Char) : FWR :=
  if w.rng = 0 then
    if ch = '|' then .ok ({ w with rng := 1 }, .ok) else innerF w o ch
  else if w.rng = 1 then
    let code := ch.toNat % 256
    if 48 ≤ code ∧ code ≤ 51 then .ok ({ w with rng := 2 }, .ok) else .ok ({ w with rng := 0 }, .err)
  else
    let code := ch.toNat % 256
    if 48 ≤ code ∧ code ≤ 57 then .ok ({ w with rng := 0 }, .ok) else .ok ({ w with rng := 0 }, .err)

def fwstep (e : Emu) (o : Nat → Orc) (w : FWSt) (ch : Char) : FWR :=
  match e with
  | .avatar => avatarStepF w o ch
  | .pcboard => pcboardStepF w o ch
  | .ctrla => ctrlaStepF w o ch
  | .renegade => renegadeStepF w o ch

def fwrunI (e : Emu) (o : Nat → Orc) : Nat → FWSt → List Char → Res FWSt
  | _, w, [] => .ok w
  | i, w, ch :: rest =>
    match fwstep e (fun _ => o i) w ch with
    | .ok (w', _) => fwrunI e o (i + 1) w' rest
    | .error e => .error e
def fwrun (e : Emu) (o : Nat → Orc) (w : FWSt) (text : List Char) : Res FWSt := fwrunI e o 0 w text

def initFW (w h tabW : Int) (rows : Array Nat) : FWSt := { inner := initF w h tabW rows }

end IcyVerif.TermFile
