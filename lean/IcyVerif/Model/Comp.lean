import IcyVerif.Gen.Comp
/-! # Layer compositing — model of `impl TextPane for Buffer :: get_char` (src/buffers.rs)

A literal transcription of the top-down walk over the layer stack with all its return paths
(`overlay_layer = None`; the overlay is outside C13's quantifier).  Cells, attributes and layers are
plain structures; the half-block classifier used by `make_solid_color` (`HalfBlock::from`, which reads the
font table) is an *uninterpreted parameter* `hb`, so everything proved here holds for every font.

Integers: coordinates are unbounded `Int` in `getChar`; `getCharC` is the same walk with the debug-profile
`i32` overflow check of `pos - cur_layer.get_offset()` made explicit (`none` = panic). -/
namespace IcyVerif.Comp
open IcyVerif.Gen.Comp

structure Attr where
  fg : Nat
  bg : Nat
  flags : Nat
  page : Nat
deriving DecidableEq, Repr, Inhabited

structure Cell where
  ch : Nat
  attr : Attr
deriving DecidableEq, Repr, Inhabited

/-- Rust `PartialEq for AttributedChar` / `TextAttribute`: the font page is NOT compared -/
def Cell.eqv (a b : Cell) : Prop :=
  a.ch = b.ch ∧ a.attr.fg = b.attr.fg ∧ a.attr.bg = b.attr.bg ∧ a.attr.flags = b.attr.flags

instance (a b : Cell) : Decidable (Cell.eqv a b) := by unfold Cell.eqv; infer_instance

/-- `AttributedChar::default()` -/
def defaultCell : Cell := ⟨defaultCh, ⟨defaultFg, defaultBg, defaultFlags, defaultPage⟩⟩
/-- `AttributedChar::invisible()` -/
def invisibleCell : Cell := ⟨invisibleCh, ⟨defaultFg, defaultBg, invisibleBit, defaultPage⟩⟩

/-- `AttributedChar::is_visible` -/
def Cell.isVisible (c : Cell) : Bool := (c.attr.flags &&& invisibleBit) == 0
/-- `AttributedChar::is_transparent` -/
def Cell.isTransparent (c : Cell) : Bool :=
  (c.ch == transparentCh0 || c.ch == transparentCh1) && c.attr.bg == transparentBg
/-- `with_font_page` / `set_font_page` -/
def Cell.withPage (c : Cell) (p : Nat) : Cell := { c with attr := { c.attr with page := p } }
/-- either colour is `TextAttribute::TRANSPARENT_COLOR` -/
def Cell.hasTransparentColor (c : Cell) : Bool :=
  c.attr.fg == transparentColor || c.attr.bg == transparentColor

inductive Mode | normal | chars | attributes
deriving DecidableEq, Repr, Inhabited

structure Layer where
  visible : Bool
  alpha : Bool
  mode : Mode
  offX : Int
  offY : Int
  w : Int
  h : Int
  dfltPage : Nat
  /-- `lines[y].chars[x]`; rows may be missing or shorter (or longer) than the layer size -/
  lines : List (List Cell)
deriving Repr, Inhabited

/-- `impl TextPane for Layer :: get_char` (layer coordinates) -/
def Layer.getChar (l : Layer) (x y : Int) : Cell :=
  if x < 0 || y < 0 || x ≥ l.w || y ≥ l.h then invisibleCell.withPage l.dfltPage
  else match l.lines[y.toNat]? with
    | some line => match line[x.toNat]? with
      | some c => c
      | none => invisibleCell.withPage l.dfltPage
    | none => invisibleCell.withPage l.dfltPage

/-- the rectangle test of `Buffer::get_char` (buffer coordinates) -/
def Layer.covers (l : Layer) (x y : Int) : Bool :=
  !(x - l.offX < 0 || y - l.offY < 0 || x - l.offX ≥ l.w || y - l.offY ≥ l.h)

/-- `fn merge` in src/buffers.rs -/
def merge (c : Cell) (chOpt : Option Nat) (attrOpt : Option Attr) : Cell :=
  if !c.isVisible then c else
  let c := match chOpt with
    | some ch => { c with ch := ch }
    | none => c
  match attrOpt with
  | some a => { c with attr := a }
  | none => c

/-- `Buffer::make_solid_color`; `hb u = (upper_block_color, lower_block_color)` of `HalfBlock::from(buf, u, _)` -/
def makeSolid (hb : Cell → Nat × Nat) (t u : Cell) : Cell :=
  let half := hb u
  if t.ch = halfBlockTop then
    let fg := if t.attr.fg = transparentColor then half.1 else t.attr.fg
    let bg := if t.attr.bg = transparentColor then half.2 else t.attr.bg
    { t with attr := { t.attr with fg := fg, bg := bg } }
  else if t.ch = halfBlockBottom then
    let bg := if t.attr.bg = transparentColor then half.1 else t.attr.bg
    let fg := if t.attr.fg = transparentColor then half.2 else t.attr.fg
    { t with attr := { t.attr with fg := fg, bg := bg } }
  else
    let fg := if t.attr.fg = transparentColor then half.2 else t.attr.fg
    let bg := if t.attr.bg = transparentColor then half.2 else t.attr.bg
    { t with attr := { t.attr with fg := fg, bg := bg } }

/-- the mutable locals of the loop -/
structure St where
  chOpt : Option Nat
  attrOpt : Option Attr
  dflt : Nat
  transp : Option Cell
deriving Repr

def St.init : St := ⟨none, none, 0, none⟩

/-- outcome of one loop iteration -/
inductive Step
  | ret (c : Cell)
  | next (st : St)

/-- the `if !cur_layer.properties.has_alpha_channel { … }` block of the Normal arm -/
def opaqueTail (hb : Cell → Nat × Nat) (st : St) : Cell :=
  let res := merge (defaultCell.withPage st.dflt) st.chOpt st.attrOpt
  -- if ch_opt.is_some() || attr_opt.is_some() { res = self.make_solid_color(res, AttributedChar::default()); }
  -- (before the C13 repair this block OVERWROTE `transparent_char` with `res`: a transparent-colour cell remembered
  --  from a higher layer vanished — see known_findings.txt, key topmost_first:opaque_branch_overwrites_transparent_char)
  let res := if st.chOpt.isSome || st.attrOpt.isSome then makeSolid hb res defaultCell else res
  match st.transp with
  | some t => makeSolid hb t res
  | none => res

/-- body of the loop for one layer that is visible and covers the position; `x y` are layer coordinates,
    `st.dflt` has already been set to the layer's default font page -/
def coveredStep (hb : Cell → Nat × Nat) (l : Layer) (x y : Int) (st : St) : Step :=
  let ch := l.getChar x y
  match l.mode with
  | .normal =>
    if ch.isVisible then
      let found := merge ch st.chOpt st.attrOpt
      if found.hasTransparentColor then
        let st := if st.transp.isNone then { st with transp := some found } else st
        if !l.alpha then .ret (opaqueTail hb st) else .next st
      else match st.transp with
        | some t => .ret (makeSolid hb t found)
        | none => .ret found
    else
      if !l.alpha then .ret (opaqueTail hb st) else .next st
  | .chars =>
    if ch.isVisible && !ch.isTransparent then .next { st with chOpt := some ch.ch } else .next st
  | .attributes =>
    if ch.isVisible then .next { st with attrOpt := some ch.attr } else .next st

/-- one iteration of `for i in (0..self.layers.len()).rev()` -/
def layerStep (hb : Cell → Nat × Nat) (px py : Int) (l : Layer) (st : St) : Step :=
  if !l.visible then .next st
  else
    let x := px - l.offX
    let y := py - l.offY
    if x < 0 || y < 0 || x ≥ l.w || y ≥ l.h then .next st
    else coveredStep hb l x y { st with dflt := l.dfltPage }

/-- the code after the loop -/
def finish (isTerm : Bool) (st : St) : Cell :=
  match st.transp with
  | some t => t
  | none =>
    let ch := if isTerm || st.chOpt.isSome || st.attrOpt.isSome
      then merge defaultCell st.chOpt st.attrOpt else invisibleCell
    ch.withPage st.dflt

/-- the loop, over the layers TOP FIRST -/
def go (hb : Cell → Nat × Nat) (isTerm : Bool) (px py : Int) : List Layer → St → Cell
  | [], st => finish isTerm st
  | l :: rest, st =>
    match layerStep hb px py l st with
    | .ret c => c
    | .next st' => go hb isTerm px py rest st'

/-- `Buffer::get_char((px, py))`; `stack` is `buffer.layers` (bottom layer first, as in Rust) -/
def getChar (hb : Cell → Nat × Nat) (isTerm : Bool) (stack : List Layer) (px py : Int) : Cell :=
  go hb isTerm px py stack.reverse St.init

/-! ## the same walk with `i32` arithmetic made explicit -/

def inI32 (v : Int) : Bool := decide (-2147483648 ≤ v) && decide (v ≤ 2147483647)

/-- `none` = the subtraction `pos - cur_layer.get_offset()` overflows `i32` (panic in the debug profile) -/
def layerStepC (hb : Cell → Nat × Nat) (px py : Int) (l : Layer) (st : St) : Option Step :=
  if !l.visible then some (.next st)
  else if inI32 (px - l.offX) && inI32 (py - l.offY) then some (layerStep hb px py l st)
  else none

def goC (hb : Cell → Nat × Nat) (isTerm : Bool) (px py : Int) : List Layer → St → Option Cell
  | [], st => some (finish isTerm st)
  | l :: rest, st =>
    match layerStepC hb px py l st with
    | none => none
    | some (.ret c) => some c
    | some (.next st') => goC hb isTerm px py rest st'

def getCharC (hb : Cell → Nat × Nat) (isTerm : Bool) (stack : List Layer) (px py : Int) : Option Cell :=
  goC hb isTerm px py stack.reverse St.init

/-- `Layer::set_offset` applied with `offset + (dx, dy)` -/
def Layer.shift (dx dy : Int) (l : Layer) : Layer := { l with offX := l.offX + dx, offY := l.offY + dy }

end IcyVerif.Comp
