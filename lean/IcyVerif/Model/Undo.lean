import IcyVerif.Gen.Undo
/-! # Model of the editor's undo machinery (C08)

Transcribed from `src/editor/mod.rs` (stacks, `push_undo_action`, `push_plain_undo`, `AtomicUndoGuard`),
`src/editor/undo_operations.rs` (one constructor of `UndoOp` per modelled record, with its `undo`/`redo`),
`src/layer.rs` (`get_char`, `set_char`, `swap_char`, `from_layer`, `stamp`) and the editing operations of
`edit_operations.rs`, `layer_operations.rs`, `area_operations.rs`, `selection_operations.rs` that produce the records.

A layer keeps its raw row storage `lines` next to its `size`: content beyond the size survives (hidden), rows and cells
that were never written are absent.  Everything is total; a Rust panic (index out of range, `usize` underflow,
`Vec::resize` with a negative length) is the explicit outcome `Err.panic`, an `Err(..)` return is `Err.err`.
Not modelled: layer title/role/mode/colour, `default_font_page` (0), sixels, hyperlinks, the selection mask,
palette, fonts, SAUCE, ice/palette/font modes and the records that touch them. -/
namespace IcyVerif.Undo
open IcyVerif.Gen.Undo

inductive Err
  | err
  | panic
deriving DecidableEq, Repr

/-! ## cells, rows, layers -/

structure Cell where
  ch : Nat
  attr : Nat
  fg : Nat
  bg : Nat
  page : Nat
deriving DecidableEq, Repr, Inhabited

/-- `AttributedChar::invisible()` -/
def Cell.invisible : Cell := ⟨invisibleCh, attrInvisible, defaultFg, defaultBg, defaultPage⟩
/-- `(attr & INVISIBLE) == 0` (`INVISIBLE` is a single bit, checked by the translator) -/
def Cell.isVisible (c : Cell) : Bool := (c.attr / attrInvisible) % 2 == 0
/-- `(ch == '\0' || ch == ' ') && background == 0` -/
def Cell.isTransparent (c : Cell) : Bool := (c.ch == 0 || c.ch == 32) && c.bg == 0

abbrev Row := List Cell

structure Props where
  visible : Bool
  locked : Bool
  posLocked : Bool
  hasAlpha : Bool
  alphaLocked : Bool
  offX : Int
  offY : Int
deriving DecidableEq, Repr

structure LayerM where
  w : Int
  h : Int
  props : Props
  lines : List Row
deriving DecidableEq, Repr

structure Rect where
  x : Int
  y : Int
  w : Int
  h : Int
deriving DecidableEq, Repr

def Rect.right (r : Rect) : Int := r.x + r.w
def Rect.bottom (r : Rect) : Int := r.y + r.h
def Rect.isEmpty (r : Rect) : Bool := r.w ≤ 0 || r.h ≤ 0
def Rect.isInside (r : Rect) (x y : Int) : Bool := r.x ≤ x && r.y ≤ y && x < r.x + r.w && y < r.y + r.h
/-- `Rectangle::intersect` (sizes may come out negative) -/
def Rect.intersect (a b : Rect) : Rect :=
  let x0 := max a.x b.x
  let y0 := max a.y b.y
  let x1 := min a.right b.right
  let y1 := min a.bottom b.bottom
  ⟨x0, y0, x1 - x0, y1 - y0⟩
def Rect.shift (r : Rect) (dx dy : Int) : Rect := ⟨r.x + dx, r.y + dy, r.w, r.h⟩
/-- `Selection::as_rectangle` of a selection made from a rectangle (anchor = top-left, lead = bottom-right) -/
def Rect.asSelRect (r : Rect) : Rect := ⟨min r.x (r.x + r.w), min r.y (r.y + r.h), (r.w).natAbs, (r.h).natAbs⟩

/-- `a..b` over `i32` -/
def intRange (a b : Int) : List Int := (List.range (b - a).toNat).map (fun (i : Nat) => a + (i : Int))

/-- raw storage read; absent cells read as invisible -/
def rowsGet (ls : List Row) (x y : Nat) : Cell := (ls.getD y []).getD x Cell.invisible

/-- `Vec::resize(n, fill)` when it can only grow -/
def growTo {α : Type} (l : List α) (n : Nat) (fill : α) : List α := l ++ List.replicate (n - l.length) fill

/-- `Line::set_char` -/
def Row.setCell (r : Row) (x : Nat) (c : Cell) : Row := (growTo r (x + 1) Cell.invisible).set x c
/-- `Line::insert_char` -/
def Row.insertCell (r : Row) (x : Nat) (c : Cell) : Row := (growTo r x Cell.invisible).insertIdx x c

def LayerM.inside (l : LayerM) (x y : Int) : Bool := 0 ≤ x && 0 ≤ y && x < l.w && y < l.h

/-- `Layer::get_char` (default_font_page = 0) -/
def LayerM.getChar (l : LayerM) (x y : Int) : Cell :=
  if l.inside x y then rowsGet l.lines x.toNat y.toNat else Cell.invisible

/-- `Layer::set_char`: ignored outside the size, on locked or invisible layers; materialises the rows up to `y`
    BEFORE the alpha-lock test; alpha-locked layers do not accept writes onto invisible cells -/
def LayerM.setChar (l : LayerM) (x y : Int) (c : Cell) : LayerM :=
  if !l.inside x y then l
  else if l.props.locked || !l.props.visible then l
  else
    let lines := growTo l.lines (y.toNat + 1) (List.replicate l.w.toNat Cell.invisible)
    if l.props.hasAlpha && l.props.alphaLocked && !(rowsGet lines x.toNat y.toNat).isVisible then { l with lines := lines }
    else { l with lines := lines.set y.toNat ((lines.getD y.toNat []).setCell x.toNat c) }

/-- `Layer::swap_char` (after `fix: Layer::swap_char with a position outside the layer…`) -/
def LayerM.swapChar (l : LayerM) (x1 y1 x2 y2 : Int) : LayerM :=
  if !l.inside x1 y1 || !l.inside x2 y2 then l
  else
    let tmp := l.getChar x1 y1
    (l.setChar x1 y1 (l.getChar x2 y2)).setChar x2 y2 tmp

def defaultProps : Props := ⟨true, false, false, false, false, 0, 0⟩

/-- `Layer::new(_, (w, h))`; a negative size makes `Vec::resize`/`Line::create` panic (capacity overflow) -/
def newLayer (w h : Int) : Except Err LayerM :=
  if w < 0 || h < 0 then .error .panic
  else .ok ⟨w, h, defaultProps, List.replicate h.toNat (List.replicate w.toNat Cell.invisible)⟩

def LayerM.rect (l : LayerM) : Rect := ⟨l.props.offX, l.props.offY, l.w, l.h⟩

/-- `Layer::from_layer(layer, area)` -/
def fromLayer (l : LayerM) (area : Rect) : Except Err LayerM :=
  match newLayer area.w area.h with
  | .error e => .error e
  | .ok r => .ok ((intRange area.y area.bottom).foldl (fun r y =>
      (intRange area.x area.right).foldl (fun r x => r.setChar (x - area.x) (y - area.y) (l.getChar x y)) r) r)

/-- `Layer::stamp(target_pos, layer)` -/
def LayerM.stamp (l : LayerM) (tx ty : Int) (src : LayerM) : LayerM :=
  (intRange src.rect.y src.rect.bottom).foldl (fun l y =>
    (intRange src.rect.x src.rect.right).foldl (fun l x => l.setChar (x + tx) (y + ty) (src.getChar x y)) l) l

/-- `Layer::set_offset` -/
def LayerM.setOffset (l : LayerM) (x y : Int) : LayerM :=
  if l.props.posLocked then l else { l with props := { l.props with offX := x, offY := y } }

/-! ## document -/

structure Doc where
  w : Int
  h : Int
  layers : List LayerM
  /-- `selection_opt` (rectangle selections only) -/
  sel : Option Rect
  caretX : Int
  caretY : Int
  /-- `current_layer`, NOT clamped -/
  cur : Nat
  mirror : Bool
deriving Repr

def Doc.setLayer (d : Doc) (i : Nat) (l : LayerM) : Doc := { d with layers := d.layers.set i l }
/-- `clamp_current_layer` -/
def Doc.clampCur (d : Doc) : Doc := { d with cur := min d.cur (d.layers.length - 1) }
/-- `get_current_layer` -/
def Doc.currentLayer (d : Doc) : Option Nat := if d.layers.length > 0 then some (min d.cur (d.layers.length - 1)) else none

/-! ## undo records -/

inductive UndoOp
  | setChar (x y : Int) (layer : Nat) (old new : Cell)
  | swapChar (layer : Nat) (x1 y1 x2 y2 : Int)
  | addLayer (index : Nat) (layer : Option LayerM)
  | removeLayer (index : Nat) (layer : Option LayerM)
  | raiseLayer (index : Nat)
  | lowerLayer (index : Nat)
  | toggleVisibility (index : Nat)
  | moveLayer (index : Nat) (fx fy tx ty : Int)
  | setLayerSize (index : Nat) (fw fh tw th : Int)
  | resizeBuffer (ow oh w h : Int)
  | layerChange (layer : Nat) (px py : Int) (old new : LayerM)
  | crop (ow oh w h : Int) (layers : List LayerM)
  | deleteRow (layer : Nat) (line : Int) (row : Row)
  | insertRow (layer : Nat) (line : Int) (row : Row)
  | deleteColumn (layer : Nat) (col : Int) (deleted : List (Option Cell))
  | insertColumn (layer : Nat) (col : Int)
  | scrollUp (layer : Nat)
  | scrollDown (layer : Nat)
  | clearLayer (index : Nat) (lines : List Row)
  | setSelection (old new : Option Rect)
  | selectNothing (sel : Option Rect)
  | deselect (sel : Rect)
  | atomic (ops : List UndoOp)

abbrev Res := Except Err (UndoOp × Doc)

/-- `layers.get_mut(i)` then `f`, `Err(InvalidLayer)` otherwise -/
def onLayer (d : Doc) (i : Nat) (op : UndoOp) (f : LayerM → LayerM) : Res :=
  match d.layers[i]? with
  | some l => .ok (op, d.setLayer i (f l))
  | none => .error .err

/-- `layers[i]` then `f`: an index panic otherwise -/
def onLayerIdx (d : Doc) (i : Nat) (op : UndoOp) (f : LayerM → LayerM) : Res :=
  match d.layers[i]? with
  | some l => .ok (op, d.setLayer i (f l))
  | none => .error .panic

/-- `column as usize` of a negative `i32` is larger than any row -/
def colIdx (col : Int) : Option Nat := if col < 0 then none else some col.toNat

/-- whole-layer scroll (after `fix: whole-layer scroll up/down rotates the visible rows…`) -/
def scrollRows (l : LayerM) (up : Bool) : LayerM :=
  let h := l.h.toNat
  let lines := growTo l.lines h []
  let vis := lines.take h
  -- `[..h].rotate_left(k)` / `rotate_right(k)` with k = 1 (0 on an empty layer)
  let k := if h > 0 then 1 else 0
  let rot := if up then vis.drop k ++ vis.take k else vis.drop (vis.length - k) ++ vis.take (vis.length - k)
  { l with lines := rot ++ lines.drop h }

def deleteRowRedo (l : LayerM) (line : Nat) : Row × LayerM :=
  let lines := growTo l.lines (line + 1) []
  (lines.getD line [], { l with lines := lines.eraseIdx line, h := l.h - 1 })

def insertRowRedo (l : LayerM) (line : Nat) (row : Row) : LayerM :=
  let lines := growTo l.lines (line + 1) []
  { l with lines := lines.insertIdx line row, h := l.h + 1 }

def deleteColumnRedo (l : LayerM) (col : Int) : List (Option Cell) × LayerM :=
  match colIdx col with
  | none => (l.lines.map (fun _ => none), { l with w := l.w - 1 })
  | some o =>
    (l.lines.map (fun r => if o < r.length then some (r.getD o Cell.invisible) else none),
     { l with lines := l.lines.map (fun r => if o < r.length then r.eraseIdx o else r), w := l.w - 1 })

/-- (after `fix: DeleteRow/InsertRow/DeleteColumn undo panic…`) -/
def deleteColumnUndo (l : LayerM) (col : Int) (deleted : List (Option Cell)) : LayerM :=
  let o := col.toNat
  let rec go (i : Nat) (del : List (Option Cell)) (lines : List Row) : List Row :=
    match del with
    | [] => lines
    | none :: rest => go (i + 1) rest lines
    | some c :: rest =>
      let lines := growTo lines (i + 1) []
      go (i + 1) rest (lines.set i ((lines.getD i []).insertCell o c))
  { l with lines := go 0 deleted l.lines, w := l.w + 1 }

def insertColumnRedo (l : LayerM) (col : Int) : LayerM :=
  match colIdx col with
  | none => { l with w := l.w + 1 }
  | some o => { l with lines := l.lines.map (fun r => if r.length ≥ o then r.insertIdx o Cell.invisible else r), w := l.w + 1 }

def insertColumnUndo (l : LayerM) (col : Int) : LayerM :=
  match colIdx col with
  | none => { l with w := l.w - 1 }
  | some o => { l with lines := l.lines.map (fun r => if r.length > o then r.eraseIdx o else r), w := l.w - 1 }

/-- `UndoLayerChange::undo/redo` with the snapshot `chars` -/
def layerChangeApply (l : LayerM) (px py : Int) (chars : LayerM) : LayerM :=
  if l.w = chars.w ∧ l.h = chars.h then { l with lines := chars.lines } else l.stamp px py chars

def listSwap {α : Type} (l : List α) (i j : Nat) : Option (List α) :=
  match l[i]?, l[j]? with
  | some a, some b => some ((l.set i b).set j a)
  | _, _ => none

mutual
/-- `UndoOperation::redo` -/
def UndoOp.redo : UndoOp → Doc → Res
  | .setChar x y i old new, d => onLayerIdx d i (.setChar x y i old new) (·.setChar x y new)
  | .swapChar i x1 y1 x2 y2, d => onLayerIdx d i (.swapChar i x1 y1 x2 y2) (·.swapChar x1 y1 x2 y2)
  | .addLayer idx layer, d =>
    match layer with
    | none => .ok (.addLayer idx none, d)
    | some l => if idx ≤ d.layers.length then .ok (.addLayer idx none, { d with layers := d.layers.insertIdx idx l }) else .error .panic
  | .removeLayer idx _, d =>
    match d.layers[idx]? with
    | some l => .ok (.removeLayer idx (some l), ({ d with layers := d.layers.eraseIdx idx }).clampCur)
    | none => .error .err
  | .raiseLayer idx, d =>
    match listSwap d.layers idx (idx + 1) with
    | some ls => .ok (.raiseLayer idx, { d with layers := ls })
    | none => .error .panic
  | .lowerLayer idx, d =>
    if idx = 0 then .error .panic else
    match listSwap d.layers idx (idx - 1) with
    | some ls => .ok (.lowerLayer idx, { d with layers := ls })
    | none => .error .panic
  | .toggleVisibility idx, d =>
    onLayer d idx (.toggleVisibility idx) (fun l => { l with props := { l.props with visible := !l.props.visible } })
  | .moveLayer idx fx fy tx ty, d => onLayer d idx (.moveLayer idx fx fy tx ty) (·.setOffset tx ty)
  | .setLayerSize idx _ _ tw th, d =>
    match d.layers[idx]? with
    | some l => .ok (.setLayerSize idx l.w l.h tw th, d.setLayer idx { l with w := tw, h := th })
    | none => .error .err
  | .resizeBuffer ow oh w h, d => .ok (.resizeBuffer ow oh w h, { d with w := w, h := h })
  | .layerChange i px py old new, d => onLayer d i (.layerChange i px py old new) (layerChangeApply · px py new)
  | .crop ow oh w h layers, d => .ok (.crop ow oh w h d.layers, { d with w := w, h := h, layers := layers })
  | .deleteRow i line _, d =>
    match d.layers[i]? with
    | none => .error .err
    | some l =>
      if line < 0 then .error .panic else
      let (row, l') := deleteRowRedo l line.toNat
      .ok (.deleteRow i line row, d.setLayer i l')
  | .insertRow i line row, d =>
    match d.layers[i]? with
    | none => .error .err
    | some l =>
      if line < 0 then .error .panic else
      .ok (.insertRow i line [], d.setLayer i (insertRowRedo l line.toNat row))
  | .deleteColumn i col _, d =>
    match d.layers[i]? with
    | none => .error .err
    | some l =>
      let (del, l') := deleteColumnRedo l col
      .ok (.deleteColumn i col del, d.setLayer i l')
  | .insertColumn i col, d => onLayer d i (.insertColumn i col) (insertColumnRedo · col)
  | .scrollUp i, d => onLayer d i (.scrollUp i) (scrollRows · true)
  | .scrollDown i, d => onLayer d i (.scrollDown i) (scrollRows · false)
  | .clearLayer idx lines, d =>
    match d.layers[idx]? with
    | some l => .ok (.clearLayer idx l.lines, d.setLayer idx { l with lines := lines })
    | none => .error .err
  | .setSelection old new, d => .ok (.setSelection old new, { d with sel := new })
  | .selectNothing sel, d => .ok (.selectNothing sel, { d with sel := none })
  | .deselect sel, d => .ok (.deselect sel, { d with sel := none })
  | .atomic ops, d =>
    match redoList ops d with
    | .ok (ops', d') => .ok (.atomic ops', d')
    | .error e => .error e
/-- `for op in stack.iter_mut() { op.redo()? }` -/
def redoList : List UndoOp → Doc → Except Err (List UndoOp × Doc)
  | [], d => .ok ([], d)
  | op :: rest, d =>
    match op.redo d with
    | .error e => .error e
    | .ok (op', d1) =>
      match redoList rest d1 with
      | .error e => .error e
      | .ok (rest', d2) => .ok (op' :: rest', d2)
end

mutual
/-- `UndoOperation::undo` -/
def UndoOp.undo : UndoOp → Doc → Res
  | .setChar x y i old new, d => onLayerIdx d i (.setChar x y i old new) (·.setChar x y old)
  | .swapChar i x1 y1 x2 y2, d => onLayerIdx d i (.swapChar i x1 y1 x2 y2) (·.swapChar x1 y1 x2 y2)
  | .addLayer idx _, d =>
    match d.layers[idx]? with
    | some l => .ok (.addLayer idx (some l), ({ d with layers := d.layers.eraseIdx idx }).clampCur)
    | none => .error .panic
  | .removeLayer idx layer, d =>
    match layer with
    | none => .ok (.removeLayer idx none, d)
    | some l => if idx ≤ d.layers.length then .ok (.removeLayer idx none, { d with layers := d.layers.insertIdx idx l }) else .error .panic
  | .raiseLayer idx, d =>
    match listSwap d.layers idx (idx + 1) with
    | some ls => .ok (.raiseLayer idx, { d with layers := ls })
    | none => .error .panic
  | .lowerLayer idx, d =>
    if idx = 0 then .error .panic else
    match listSwap d.layers idx (idx - 1) with
    | some ls => .ok (.lowerLayer idx, { d with layers := ls })
    | none => .error .panic
  | .toggleVisibility idx, d =>
    onLayer d idx (.toggleVisibility idx) (fun l => { l with props := { l.props with visible := !l.props.visible } })
  | .moveLayer idx fx fy tx ty, d => onLayer d idx (.moveLayer idx fx fy tx ty) (·.setOffset fx fy)
  | .setLayerSize idx fw fh tw th, d => onLayer d idx (.setLayerSize idx fw fh tw th) (fun l => { l with w := fw, h := fh })
  | .resizeBuffer ow oh w h, d => .ok (.resizeBuffer ow oh w h, { d with w := ow, h := oh })
  | .layerChange i px py old new, d => onLayer d i (.layerChange i px py old new) (layerChangeApply · px py old)
  | .crop ow oh w h layers, d => .ok (.crop ow oh w h d.layers, { d with w := ow, h := oh, layers := layers })
  | .deleteRow i line row, d =>
    match d.layers[i]? with
    | none => .error .err
    | some l =>
      if line < 0 then .error .panic else
      let lines := growTo l.lines line.toNat []
      .ok (.deleteRow i line [], d.setLayer i { l with lines := lines.insertIdx line.toNat row, h := l.h + 1 })
  | .insertRow i line row, d =>
    match d.layers[i]? with
    | none => .error .err
    | some l =>
      if line < 0 then .error .panic else
      if line.toNat < l.lines.length then
        .ok (.insertRow i line (l.lines.getD line.toNat []), d.setLayer i { l with lines := l.lines.eraseIdx line.toNat, h := l.h - 1 })
      else .ok (.insertRow i line row, d.setLayer i { l with h := l.h - 1 })
  | .deleteColumn i col del, d => onLayer d i (.deleteColumn i col del) (deleteColumnUndo · col del)
  | .insertColumn i col, d => onLayer d i (.insertColumn i col) (insertColumnUndo · col)
  | .scrollUp i, d => onLayer d i (.scrollUp i) (scrollRows · false)
  | .scrollDown i, d => onLayer d i (.scrollDown i) (scrollRows · true)
  | .clearLayer idx lines, d =>
    match d.layers[idx]? with
    | some l => .ok (.clearLayer idx l.lines, d.setLayer idx { l with lines := lines })
    | none => .error .err
  | .setSelection old new, d => .ok (.setSelection old new, { d with sel := old })
  | .selectNothing sel, d => .ok (.selectNothing sel, { d with sel := sel })
  | .deselect sel, d => .ok (.deselect sel, { d with sel := some sel })
  | .atomic ops, d =>
    match undoList ops d with
    | .ok (ops', d') => .ok (.atomic ops', d')
    | .error e => .error e
/-- `for op in stack.iter_mut().rev() { op.undo()? }`: the LAST element is undone first -/
def undoList : List UndoOp → Doc → Except Err (List UndoOp × Doc)
  | [], d => .ok ([], d)
  | op :: rest, d =>
    match undoList rest d with
    | .error e => .error e
    | .ok (rest', d1) =>
      match op.undo d1 with
      | .error e => .error e
      | .ok (op', d2) => .ok (op' :: rest', d2)
end

/-! ## the editor state and its stack discipline (`src/editor/mod.rs`) -/

structure Ed where
  doc : Doc
  /-- head = top of the stack -/
  undoStack : List UndoOp
  redoStack : List UndoOp
  /-- `base_count` of the open `AtomicUndoGuard`s, innermost first -/
  guards : List Nat

/-- `push_plain_undo` -/
def Ed.pushPlainUndo (ed : Ed) (op : UndoOp) : Ed := { ed with undoStack := op :: ed.undoStack, redoStack := [] }

/-- `push_undo_action`: `op.redo(self)?` then `push_plain_undo` -/
def Ed.pushUndoAction (ed : Ed) (op : UndoOp) : Except Err Ed :=
  match op.redo ed.doc with
  | .error e => .error e
  | .ok (op', d') => .ok (({ ed with doc := d' } : Ed).pushPlainUndo op')

/-- `begin_atomic_undo` -/
def Ed.beginAtomic (ed : Ed) : Ed := { ed with redoStack := [], guards := ed.undoStack.length :: ed.guards }

/-- `Drop for AtomicUndoGuard` / `end_action`: everything pushed since `base_count` becomes one `AtomicUndo`
    (in push order); nothing is pushed when nothing was recorded -/
def Ed.endAtomic (ed : Ed) : Ed :=
  match ed.guards with
  | [] => ed
  | base :: gs =>
    let count := ed.undoStack.length
    if base ≥ count then { ed with guards := gs }
    else
      let n := count - base
      { ed with undoStack := .atomic ((ed.undoStack.take n).reverse) :: ed.undoStack.drop n, guards := gs }

/-- `UndoState::undo` -/
def Ed.undo (ed : Ed) : Except Err Ed :=
  match ed.undoStack with
  | [] => .ok ed
  | op :: rest =>
    match op.undo ed.doc with
    | .error e => .error e
    | .ok (op', d') => .ok { ed with doc := d', undoStack := rest, redoStack := op' :: ed.redoStack }

/-- `UndoState::redo` -/
def Ed.redo (ed : Ed) : Except Err Ed :=
  match ed.redoStack with
  | [] => .ok ed
  | op :: rest =>
    match op.redo ed.doc with
    | .error e => .error e
    | .ok (op', d') => .ok { ed with doc := d', redoStack := rest, undoStack := op' :: ed.undoStack }

/-! ## histories: primitive steps over the editor state

The framework theorem (`Props/C08.lean`) is about `Ed.run`; the driver executes the modelled public operations through
the same function (`Call.steps` below), so what is tied to the implementation is what the theorem talks about. -/

/-- one primitive step of a history -/
inductive Step
  /-- the edit is applied directly and its record pushed with `push_plain_undo` (crop, area operations, …);
      `none` = the operation returns `Ok(())` without doing anything -/
  | edit (f : Doc → Except Err (Option (UndoOp × Doc)))
  /-- the record is built from the current state and the edit IS its `redo` (`push_undo_action`) -/
  | act (build : Doc → Except Err (Option UndoOp))
  /-- changes outside the document state: caret, current layer, mirror mode -/
  | touch (f : Doc → Doc)
  | beginAtomic
  | endAtomic
  | undo
  | redo

inductive RunErr
  | editFailed
  | undoFailed (e : Err)
  | redoFailed (e : Err)

/-- one step; `floor` is the height of the undo stack the history started from: undo steps *within the history* do not
    go below it (with `floor = 0` this is exactly `UndoState::undo`, a no-op on the empty stack) -/
def Ed.step (floor : Nat) (ed : Ed) : Step → Except RunErr Ed
  | .edit f =>
    match f ed.doc with
    | .ok (some (op, d')) => .ok (({ ed with doc := d' } : Ed).pushPlainUndo op)
    | .ok none => .ok ed
    | .error _ => .error .editFailed
  | .act build =>
    match build ed.doc with
    | .error _ => .error .editFailed
    | .ok none => .ok ed
    | .ok (some op) =>
      match ed.pushUndoAction op with
      | .ok ed' => .ok ed'
      | .error _ => .error .editFailed
  | .touch f => .ok { ed with doc := f ed.doc }
  | .beginAtomic => .ok ed.beginAtomic
  | .endAtomic => .ok ed.endAtomic
  | .undo =>
    if ed.undoStack.length ≤ floor then .ok ed else
    match ed.undo with
    | .ok ed' => .ok ed'
    | .error e => .error (.undoFailed e)
  | .redo =>
    match ed.redo with
    | .ok ed' => .ok ed'
    | .error e => .error (.redoFailed e)

def Ed.run (floor : Nat) (ed : Ed) : List Step → Except RunErr Ed
  | [] => .ok ed
  | s :: rest =>
    match ed.step floor s with
    | .ok ed' => ed'.run floor rest
    | .error e => .error e

/-! ## the public editing operations (each returns the new editor state or the failure of the edit) -/

def Ed.mapDoc (ed : Ed) (f : Doc → Doc) : Ed := { ed with doc := f ed.doc }

/-- runs `body` inside `let _undo = self.begin_atomic_undo(..)`; the guard is dropped on every exit path -/
def Ed.withGuard (ed : Ed) (body : Ed → Except Err Ed) : Except Err Ed :=
  match body ed.beginAtomic with
  | .ok ed' => .ok ed'.endAtomic
  | .error e => .error e

def Ed.curLayer (ed : Ed) : Option (Nat × LayerM) :=
  match ed.doc.currentLayer with
  | some i => match ed.doc.layers[i]? with
    | some l => some (i, l)
    | none => none
  | none => none

/-- `EditState::set_char` -/
def apiSetChar (ed : Ed) (x y : Int) (c : Cell) : Except Err Ed :=
  ed.withGuard fun ed =>
    match ed.curLayer with
    | none => .error .err
    | some (i, l) =>
      let old := l.getChar x y
      let step1 : Except Err Ed :=
        if ed.doc.mirror then
          let mx := l.w - x - 1
          ed.pushUndoAction (.setChar mx y i (l.getChar mx y) c)
        else .ok ed
      match step1 with
      | .error e => .error e
      | .ok ed1 => ed1.pushUndoAction (.setChar x y i old c)

/-- `EditState::swap_char` -/
def apiSwapChar (ed : Ed) (x1 y1 x2 y2 : Int) : Except Err Ed :=
  match ed.doc.currentLayer with
  | none => .error .err
  | some i => ed.pushUndoAction (.swapChar i x1 y1 x2 y2)

/-- the layer loop shared by `resize_buffer(true, ..)` and `crop_rect`; it reads the old layer at BUFFER coordinates
    (`old_layer.get_char((x + new_rectangle.left(), ..))`) and writes through `set_char` (so a locked layer comes out
    empty) — both copied as they are -/
def cropLayers (layers : List LayerM) (rect : Rect) : List LayerM :=
  layers.filterMap fun old =>
    let nr := old.rect.intersect rect
    if nr.isEmpty then none
    else
      let l0 : LayerM := { old with lines := [] }
      let l1 := l0.setOffset (nr.x - rect.x) (nr.y - rect.y)
      let l2 : LayerM := { l1 with w := nr.w, h := nr.h }
      some ((intRange 0 nr.h).foldl (fun l y =>
        (intRange 0 nr.w).foldl (fun l x => l.setChar x y (old.getChar (x + nr.x) (y + nr.y))) l) l2)


/-! ### the operations whose records obey the inverse law at every document, as step lists

Each public operation below is the list of primitive steps it performs (`push_undo_action` → `act`, `push_plain_undo`
→ `edit`, bookkeeping of `current_layer`/caret → `touch`); parameters are those of the Rust function.  -/

inductive Call
  | setCaret (x y : Int)
  | setCurrentLayer (i : Nat)
  | setMirror (b : Bool)
  | addLayer (layer : Nat)
  | removeLayer (layer : Nat)
  | raiseLayer (layer : Nat)
  | lowerLayer (layer : Nat)
  | duplicateLayer (layer : Nat)
  | clearLayer (layer : Nat)
  | toggleVisibility (layer : Nat)
  | moveLayer (x y : Int)
  | setLayerSize (layer : Nat) (w h : Int)
  | resizeBuffer (w h : Int)
  | resizeBufferLayers (w h : Int)
  | cropRect (r : Rect)
  | crop
  | deleteRow
  | insertRow
  | deleteColumn
  | insertColumn
  | setSelection (r : Rect)
  | clearSelection
  | deselect
  | beginAtomic
  | endAtomic
  | undo
  | redo

/-- record of an operation that needs the current layer (`get_current_layer()?`) -/
def onCurrent (d : Doc) (mk : Nat → UndoOp) : Except Err (Option UndoOp) :=
  match d.currentLayer with
  | none => .error .err
  | some i => .ok (some (mk i))

/-- record of an operation that first checks `layer >= layers.len()` -/
def onValid (d : Doc) (layer : Nat) (op : UndoOp) : Except Err (Option UndoOp) :=
  if layer ≥ d.layers.length then .error .err else .ok (some op)

def Call.steps : Call → List Step
  | .setCaret x y => [.touch fun d => { d with caretX := x, caretY := y }]
  | .setCurrentLayer i => [.touch fun d => { d with cur := min i (d.layers.length - 1) }]
  | .setMirror b => [.touch fun d => { d with mirror := b }]
  -- `add_new_layer`: a transparent layer of the buffer's size above `layer`, which becomes current
  | .addLayer layer =>
    [.act (fun d =>
        match newLayer d.w d.h with
        | .error e => .error e
        | .ok l => .ok (some (.addLayer (min (layer + 1) d.layers.length) (some { l with props := { l.props with hasAlpha := true } })))),
     .touch fun d => { d with cur := min (layer + 1) (d.layers.length - 1) }]
  | .removeLayer layer => [.act fun d => onValid d layer (.removeLayer layer none)]
  | .raiseLayer layer =>
    [.act (fun d => if layer + 1 ≥ d.layers.length then .error .err else .ok (some (.raiseLayer layer))),
     .touch fun d => { d with cur := layer + 1 }]
  -- `lower_layer(0)` returns Ok without doing anything
  | .lowerLayer layer =>
    if layer = 0 then [] else
    [.act (fun d => onValid d layer (.lowerLayer layer)), .touch fun d => { d with cur := layer - 1 }]
  | .duplicateLayer layer =>
    [.act (fun d => match d.layers[layer]? with
        | none => .error .err
        | some l => .ok (some (.addLayer (layer + 1) (some l)))),
     .touch fun d => { d with cur := layer + 1 }]
  -- `clear_layer` leaves `current_layer = layer + 1` (possibly past the end)
  | .clearLayer layer => [.act (fun d => onValid d layer (.clearLayer layer [])), .touch fun d => { d with cur := layer + 1 }]
  | .toggleVisibility layer => [.act fun d => onValid d layer (.toggleVisibility layer)]
  -- `move_layer`: the record carries the UNCLAMPED `current_layer` but the offset of the clamped one; Ok(()) without layers
  | .moveLayer x y =>
    [.act fun d =>
      match d.currentLayer with
      | none => .ok none
      | some i => match d.layers[i]? with
        | none => .ok none
        | some l => .ok (some (.moveLayer d.cur l.props.offX l.props.offY x y))]
  | .setLayerSize layer w h => [.act fun d => onValid d layer (.setLayerSize layer w h w h)]
  | .resizeBuffer w h => [.act fun d => .ok (some (.resizeBuffer d.w d.h w h))]
  -- `resize_buffer(true, ..)`; `layers[0]` panics when no layer is left
  | .resizeBufferLayers w h =>
    [.edit fun d =>
      match cropLayers d.layers ⟨0, 0, w, h⟩ with
      | [] => .error .panic
      | l0 :: rest =>
        let l0' := if l0.w = d.w ∧ l0.h = d.h then { l0 with w := w, h := h } else l0
        .ok (some (.crop d.w d.h w h d.layers, { d with w := w, h := h, layers := l0' :: rest }))]
  | .cropRect r =>
    [.edit fun d => .ok (some (.crop d.w d.h r.w r.h d.layers, { d with w := r.w, h := r.h, layers := cropLayers d.layers r }))]
  | .crop =>
    [.edit fun d =>
      match d.sel with
      | some s =>
        let r := s.asSelRect
        .ok (some (.crop d.w d.h r.w r.h d.layers, { d with w := r.w, h := r.h, layers := cropLayers d.layers r }))
      | none => .ok none]
  | .deleteRow => [.act fun d => onCurrent d fun i => .deleteRow i d.caretY []]
  | .insertRow => [.act fun d => onCurrent d fun i => .insertRow i d.caretY []]
  | .deleteColumn => [.act fun d => onCurrent d fun i => .deleteColumn i d.caretX []]
  | .insertColumn => [.act fun d => onCurrent d fun i => .insertColumn i d.caretX]
  -- selection (the selection mask is empty in the modelled fragment)
  | .setSelection r => [.act fun d => if d.sel = some r then .ok none else .ok (some (.setSelection d.sel (some r)))]
  | .clearSelection => [.act fun d => match d.sel with
      | some s => .ok (some (.selectNothing (some s)))
      | none => .ok none]
  | .deselect => [.act fun d => match d.sel with
      | some s => .ok (some (.deselect s))
      | none => .ok none]
  | .beginAtomic => [.beginAtomic]
  | .endAtomic => [.endAtomic]
  | .undo => [.undo]
  | .redo => [.redo]

/-- `get_area` of area_operations.rs -/
def getArea (sel : Option Rect) (layer : Rect) : Rect :=
  match sel with
  | some s => (s.asSelRect.intersect layer).shift (-layer.x) (-layer.y)
  | none => layer.shift (-layer.x) (-layer.y)

/-- skeleton shared by the `UndoLayerChange`-based area operations: snapshot, edit through `f`, snapshot, record -/
def areaOp (ed : Ed) (area : LayerM → Rect) (f : LayerM → Rect → LayerM) : Except Err Ed :=
  ed.withGuard fun ed =>
    match ed.curLayer with
    | none => .error .err
    | some (i, l) =>
      let a := area l
      match fromLayer l a with
      | .error e => .error e
      | .ok old =>
        let l' := f l a
        match fromLayer l' a with
        | .error e => .error e
        | .ok new => .ok (({ ed with doc := ed.doc.setLayer i l' } : Ed).pushPlainUndo (.layerChange i a.x a.y old new))

/-- `flip_x` (characters without a mirror glyph in the font stay as they are; the driver only uses such characters) -/
def apiFlipX (ed : Ed) : Except Err Ed :=
  areaOp ed (fun l => getArea ed.doc.sel l.rect) fun l a =>
    (intRange a.y a.bottom).foldl (fun l y =>
      (intRange 0 (a.w / 2)).foldl (fun l x =>
        let c1 := l.getChar (a.x + x) y
        let c2 := l.getChar (a.right - x - 1) y
        (l.setChar (a.x + x) y c2).setChar (a.right - x - 1) y c1) l) l

/-- `flip_y` -/
def apiFlipY (ed : Ed) : Except Err Ed :=
  areaOp ed (fun l => getArea ed.doc.sel l.rect) fun l a =>
    (intRange a.x a.right).foldl (fun l x =>
      (intRange 0 (a.h / 2)).foldl (fun l y =>
        let c1 := l.getChar x (a.y + y)
        let c2 := l.getChar x (a.bottom - 1 - y)
        (l.setChar x (a.y + y) c2).setChar x (a.bottom - 1 - y) c1) l) l

/-- `make_layer_transparent` (after `fix: make_layer_transparent/stamp_layer_down record the clamped current layer`) -/
def apiMakeTransparent (ed : Ed) : Except Err Ed :=
  areaOp ed (fun l => ⟨0, 0, l.w, l.h⟩) fun l _ =>
    (intRange 0 l.w).foldl (fun l x =>
      (intRange 0 l.h).foldl (fun l y => if (l.getChar x y).isTransparent then l.setChar x y Cell.invisible else l) l) l

/-- `scroll_area_up/down`, whole-layer case only (`area.width >= layer.width`); `none` = the partial case, not modelled -/
def apiScroll (ed : Ed) (up : Bool) : Option (Except Err Ed) :=
  match ed.curLayer with
  | none => some (.error .err)
  | some (i, l) =>
    let a := getArea ed.doc.sel l.rect
    if a.isEmpty then some (.ok ({ ed with redoStack := [] }))
    else if a.w ≥ l.w then some (ed.withGuard fun ed => ed.pushUndoAction (if up then .scrollUp i else .scrollDown i))
    else none

end IcyVerif.Undo
