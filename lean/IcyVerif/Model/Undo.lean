import IcyVerif.Gen.Undo
/-! # Model of the editor's undo machinery (C08)

Transcribed from `src/editor/mod.rs` (stacks, `push_undo_action`, `push_plain_undo`, `AtomicUndoGuard`),
`src/editor/undo_operations.rs` (one constructor of `UndoOp` per modelled record, with its `undo`/`redo`),
`src/layer.rs` (`get_char`, `set_char`, `swap_char`, `from_layer`, `stamp`) and the editing operations of
`edit_operations.rs`, `layer_operations.rs`, `area_operations.rs`, `selection_operations.rs` that produce the records.

A layer keeps its raw row storage `lines` next to its `size`: content beyond the size survives (hidden), rows and cells
that were never written are absent.  Everything is total; a Rust panic (index out of range, `usize` underflow,
`Vec::resize` with a negative length) is the explicit outcome `Err.panic`, an `Err(..)` return is `Err.err`.
The font table is a map slot → font identity (the glyph data is payload), the palette a list of 0xRRGGBB colours, the
SAUCE record an identity; the selection mask and the caret (position, font page) are editor state outside the document.
Not modelled: layer mode/colour/transparency, `default_font_page` (0), preview offsets, sixels, hyperlinks. -/
namespace IcyVerif.Undo
open IcyVerif.Gen.Undo

inductive Err
  | err
  | panic
deriving DecidableEq, Repr

/-! ## cells, rows, layers -/

structure Cell where
  ch : Nat
  attr : Nat
  fg : Nat
  bg : Nat
  page : Nat
deriving DecidableEq, Repr, Inhabited

/-- `AttributedChar::invisible()` -/
def Cell.invisible : Cell := ⟨invisibleCh, attrInvisible, defaultFg, defaultBg, defaultPage⟩
/-- `(attr & INVISIBLE) == 0` (`INVISIBLE` is a single bit, checked by the translator) -/
def Cell.isVisible (c : Cell) : Bool := (c.attr / attrInvisible) % 2 == 0
/-- `(ch == '\0' || ch == ' ') && background == 0` -/
def Cell.isTransparent (c : Cell) : Bool := (c.ch == 0 || c.ch == 32) && c.bg == 0

abbrev Row := List Cell

structure Props where
  visible : Bool
  locked : Bool
  posLocked : Bool
  hasAlpha : Bool
  alphaLocked : Bool
  offX : Int
  offY : Int
  /-- `properties.title` -/
  title : String
  /-- `Layer::role` (0 Normal, 1 PastePreview, 2 PasteImage, 3 Image); not part of the Rust `Properties`: the
      `UpdateLayerProperties` record leaves it alone -/
  role : Nat
deriving DecidableEq, Repr

structure LayerM where
  w : Int
  h : Int
  props : Props
  lines : List Row
deriving DecidableEq, Repr

structure Rect where
  x : Int
  y : Int
  w : Int
  h : Int
deriving DecidableEq, Repr

def Rect.right (r : Rect) : Int := r.x + r.w
def Rect.bottom (r : Rect) : Int := r.y + r.h
def Rect.isEmpty (r : Rect) : Bool := r.w ≤ 0 || r.h ≤ 0
def Rect.isInside (r : Rect) (x y : Int) : Bool := r.x ≤ x && r.y ≤ y && x < r.x + r.w && y < r.y + r.h
/-- `Rectangle::intersect` (sizes may come out negative) -/
def Rect.intersect (a b : Rect) : Rect :=
  let x0 := max a.x b.x
  let y0 := max a.y b.y
  let x1 := min a.right b.right
  let y1 := min a.bottom b.bottom
  ⟨x0, y0, x1 - x0, y1 - y0⟩
def Rect.shift (r : Rect) (dx dy : Int) : Rect := ⟨r.x + dx, r.y + dy, r.w, r.h⟩
/-- `Selection::as_rectangle` of a selection made from a rectangle (anchor = top-left, lead = bottom-right) -/
def Rect.asSelRect (r : Rect) : Rect := ⟨min r.x (r.x + r.w), min r.y (r.y + r.h), (r.w).natAbs, (r.h).natAbs⟩

/-- `a..b` over `i32` -/
def intRange (a b : Int) : List Int := (List.range (b - a).toNat).map (fun (i : Nat) => a + (i : Int))

/-- raw storage read; absent cells read as invisible -/
def rowsGet (ls : List Row) (x y : Nat) : Cell := (ls.getD y []).getD x Cell.invisible

/-- `Vec::resize(n, fill)` when it can only grow -/
def growTo {α : Type} (l : List α) (n : Nat) (fill : α) : List α := l ++ List.replicate (n - l.length) fill

/-- `Line::set_char` -/
def Row.setCell (r : Row) (x : Nat) (c : Cell) : Row := (growTo r (x + 1) Cell.invisible).set x c
/-- `Line::insert_char` -/
def Row.insertCell (r : Row) (x : Nat) (c : Cell) : Row := (growTo r x Cell.invisible).insertIdx x c

def LayerM.inside (l : LayerM) (x y : Int) : Bool := 0 ≤ x && 0 ≤ y && x < l.w && y < l.h

/-- `Layer::get_char` (default_font_page = 0) -/
def LayerM.getChar (l : LayerM) (x y : Int) : Cell :=
  if l.inside x y then rowsGet l.lines x.toNat y.toNat else Cell.invisible

/-- `Layer::set_char`: ignored outside the size, on locked or invisible layers; materialises the rows up to `y`
    BEFORE the alpha-lock test; alpha-locked layers do not accept writes onto invisible cells -/
def LayerM.setChar (l : LayerM) (x y : Int) (c : Cell) : LayerM :=
  if !l.inside x y then l
  else if l.props.locked || !l.props.visible then l
  else
    let lines := growTo l.lines (y.toNat + 1) (List.replicate l.w.toNat Cell.invisible)
    if l.props.hasAlpha && l.props.alphaLocked && !(rowsGet lines x.toNat y.toNat).isVisible then { l with lines := lines }
    else { l with lines := lines.set y.toNat ((lines.getD y.toNat []).setCell x.toNat c) }

/-- `Layer::restore_char` (`fix: undo restores recorded cells directly…`): `set_char` without the lock tests -/
def LayerM.restoreChar (l : LayerM) (x y : Int) (c : Cell) : LayerM :=
  if !l.inside x y then l
  else
    let lines := growTo l.lines (y.toNat + 1) (List.replicate l.w.toNat Cell.invisible)
    { l with lines := lines.set y.toNat ((lines.getD y.toNat []).setCell x.toNat c) }

/-- `Layer::swap_char` (after `fix: Layer::swap_char with a position outside the layer…` and `fix: Layer::swap_char on an
    alpha-locked layer swaps only two visible cells…`) -/
def LayerM.swapChar (l : LayerM) (x1 y1 x2 y2 : Int) : LayerM :=
  if !l.inside x1 y1 || !l.inside x2 y2 then l
  else if l.props.hasAlpha && l.props.alphaLocked && !((l.getChar x1 y1).isVisible && (l.getChar x2 y2).isVisible) then l
  else
    let tmp := l.getChar x1 y1
    (l.setChar x1 y1 (l.getChar x2 y2)).setChar x2 y2 tmp

def defaultProps : Props := ⟨true, false, false, false, false, 0, 0, "", 0⟩

/-- `Layer::new(_, (w, h))`; a negative size makes `Vec::resize`/`Line::create` panic (capacity overflow) -/
def newLayer (w h : Int) : Except Err LayerM :=
  if w < 0 || h < 0 then .error .panic
  else .ok ⟨w, h, defaultProps, List.replicate h.toNat (List.replicate w.toNat Cell.invisible)⟩

def LayerM.rect (l : LayerM) : Rect := ⟨l.props.offX, l.props.offY, l.w, l.h⟩

/-- `Layer::from_layer(layer, area)` -/
def fromLayer (l : LayerM) (area : Rect) : Except Err LayerM :=
  match newLayer area.w area.h with
  | .error e => .error e
  | .ok r => .ok ((intRange area.y area.bottom).foldl (fun r y =>
      (intRange area.x area.right).foldl (fun r x => r.setChar (x - area.x) (y - area.y) (l.getChar x y)) r) r)

/-- `Layer::stamp(target_pos, layer)` (writes with `restore_char`) -/
def LayerM.stamp (l : LayerM) (tx ty : Int) (src : LayerM) : LayerM :=
  (intRange src.rect.y src.rect.bottom).foldl (fun l y =>
    (intRange src.rect.x src.rect.right).foldl (fun l x => l.restoreChar (x + tx) (y + ty) (src.getChar x y)) l) l

/-- `Layer::set_offset` -/
def LayerM.setOffset (l : LayerM) (x y : Int) : LayerM :=
  if l.props.posLocked then l else { l with props := { l.props with offX := x, offY := y } }

/-! ## document -/

/-- `Selection` made from a rectangle: anchor = `(r.x, r.y)`, lead = `(r.x + r.w, r.y + r.h)` -/
structure Sel where
  r : Rect
  /-- `AddType`: 0 Default, 1 Add, 2 Subtract -/
  addType : Nat
  /-- `Shape::Lines` (otherwise `Shape::Rectangle`) -/
  lines : Bool
deriving DecidableEq, Repr

/-- `Selection::as_rectangle` -/
def Sel.asRect (s : Sel) : Rect := s.r.asSelRect

/-- `SelectionMask` / `OverlayMask` -/
structure Mask where
  w : Int
  h : Int
  lines : List (List Bool)
deriving DecidableEq, Repr

def Mask.inBounds (m : Mask) (x y : Int) : Bool := 0 ≤ x && x < m.w && 0 ≤ y && y < m.h
/-- `OverlayMask::get_is_selected` -/
def Mask.get (m : Mask) (x y : Int) : Bool :=
  if m.inBounds x y then (m.lines.getD y.toNat []).getD x.toNat false else false
/-- `OverlayMask::set_is_selected` -/
def Mask.set (m : Mask) (x y : Int) (b : Bool) : Mask :=
  if !m.inBounds x y then m
  else
    let lines := growTo m.lines (y.toNat + 1) []
    let row := growTo (lines.getD y.toNat []) (x.toNat + 1) false
    { m with lines := lines.set y.toNat (row.set x.toNat b) }
/-- `add_rectangle` / `remove_rectangle`.  The Rust loops run over the whole rectangle and `set_is_selected` ignores
    positions outside the mask; the model iterates over the part inside the mask only (same calls that have an effect, in
    the same order) -/
def Mask.fillRect (m : Mask) (r : Rect) (b : Bool) : Mask :=
  (intRange (max r.y 0) (min r.bottom m.h)).foldl (fun m y =>
    (intRange (max r.x 0) (min r.right m.w)).foldl (fun m x => m.set x y b) m) m
/-- `OverlayMask::is_empty` -/
def Mask.isEmpty (m : Mask) : Bool := m.lines.all fun l => !l.contains true
/-- `OverlayMask::clear` -/
def Mask.clear (m : Mask) : Mask := { m with lines := [] }

/-- the font table as an association list slot → font identity -/
def fmLookup (m : List (Nat × Nat)) (k : Nat) : Option Nat := (m.find? (·.1 == k)).map (·.2)
/-- `HashMap::remove` -/
def fmRemove (m : List (Nat × Nat)) (k : Nat) : List (Nat × Nat) := m.filter (·.1 != k)
/-- `HashMap::insert` -/
def fmInsert (m : List (Nat × Nat)) (k v : Nat) : List (Nat × Nat) := (k, v) :: fmRemove m k

/-- the parts of the `Buffer` besides size and layers -/
structure Extra where
  /-- `font_table` -/
  fonts : List (Nat × Nat)
  /-- `font_mode`: 0 Sauce, 1 Single, 2 Unlimited, 3 FixedSize -/
  fontMode : Nat
  /-- `palette.colors` as 0xRRGGBB -/
  palette : List Nat
  /-- `palette_mode`: 0 RGB, 1 Fixed16, 2 Free8, 3 Free16 -/
  paletteMode : Nat
  /-- `ice_mode`: 0 Unlimited, 1 Blink, 2 Ice -/
  iceMode : Nat
  /-- `sauce_data` (identity of the record) -/
  sauce : Option Nat
deriving DecidableEq, Repr

structure Doc where
  w : Int
  h : Int
  layers : List LayerM
  /-- `selection_opt` -/
  sel : Option Sel
  caretX : Int
  caretY : Int
  /-- `current_layer`, NOT clamped -/
  cur : Nat
  mirror : Bool
  x : Extra
  /-- `selection_mask` -/
  mask : Mask
  /-- `caret.font_page` -/
  fontPage : Nat
deriving Repr

def Doc.setLayer (d : Doc) (i : Nat) (l : LayerM) : Doc := { d with layers := d.layers.set i l }
/-- `clamp_current_layer` -/
def Doc.clampCur (d : Doc) : Doc := { d with cur := min d.cur (d.layers.length - 1) }
/-- `get_current_layer` -/
def Doc.currentLayer (d : Doc) : Option Nat := if d.layers.length > 0 then some (min d.cur (d.layers.length - 1)) else none
/-- `set_mask_size` -/
def Doc.setMaskSize (d : Doc) : Doc := { d with mask := { d.mask with w := d.w, h := d.h } }
def Doc.setFonts (d : Doc) (f : List (Nat × Nat)) : Doc := { d with x := { d.x with fonts := f } }
/-- `is_something_selected` -/
def Doc.somethingSelected (d : Doc) : Bool := d.sel.isSome || !d.mask.isEmpty
/-- `get_is_selected` -/
def Doc.isSelected (d : Doc) (x y : Int) : Bool :=
  match d.sel with
  | some s => if s.asRect.isInside x y then s.addType != 2 else d.mask.get x y
  | none => d.mask.get x y

/-! ## undo records -/

inductive UndoOp
  | setChar (x y : Int) (layer : Nat) (old new : Cell)
  | swapChar (layer : Nat) (x1 y1 x2 y2 : Int)
  | addLayer (index : Nat) (layer : Option LayerM)
  | removeLayer (index : Nat) (layer : Option LayerM)
  | raiseLayer (index : Nat)
  | lowerLayer (index : Nat)
  | toggleVisibility (index : Nat)
  | moveLayer (index : Nat) (fx fy tx ty : Int)
  | setLayerSize (index : Nat) (fw fh tw th : Int)
  | resizeBuffer (ow oh w h : Int)
  | layerChange (layer : Nat) (px py : Int) (old new : LayerM)
  | crop (ow oh w h : Int) (layers : List LayerM)
  | deleteRow (layer : Nat) (line : Int) (row : Row)
  | insertRow (layer : Nat) (line : Int) (row : Row)
  | deleteColumn (layer : Nat) (col : Int) (deleted : List (Option Cell))
  | insertColumn (layer : Nat) (col : Int)
  | scrollUp (layer : Nat)
  | scrollDown (layer : Nat)
  | clearLayer (index : Nat) (lines : List Row)
  | setSelection (old new : Option Sel)
  | selectNothing (sel : Option Sel) (mask : Mask)
  | deselect (sel : Sel)
  | mergeLayerDown (index : Nat) (merged : Option LayerM) (orig : Option (List LayerM))
  | paste (cur : Nat) (layer : Option LayerM)
  | addFloatingLayer (cur : Nat)
  | rotateLayer (layer : Nat) (old new : List Row)
  | updateLayerProps (index : Nat) (old new : Props)
  | setSelectionMask (old new : Mask)
  | addSelectionToMask (old : Mask) (sel : Sel)
  | inverseSelection (sel : Option Sel) (old new : Mask)
  | switchPalettte (pal : List Nat)
  | setSauceData (data : Option Nat)
  | switchToFontPage (old new : Nat)
  | setFont (page old new : Nat)
  | addFont (oldPage newPage font : Nat) (replaced : Option Nat)
  | removeFont (slot : Nat) (font : Option Nat)
  | changeFontSlot (src dst : Nat) (replaced : Option Nat)
  | replaceFontUsage (oldPage : Nat) (oldLayers : List LayerM) (newPage : Nat) (newLayers : List LayerM)
  | switchPalette (oldMode : Nat) (oldPal : List Nat) (oldLayers : List LayerM) (newMode : Nat) (newPal : List Nat) (newLayers : List LayerM)
  | setIceMode (oldMode : Nat) (oldLayers : List LayerM) (newMode : Nat) (newLayers : List LayerM)
  | reverseCaret (px py ox oy : Int)
  | reversed (op : UndoOp)
  | atomic (ops : List UndoOp)

abbrev Res := Except Err (UndoOp × Doc)

/-- `layers.get_mut(i)` then `f`, `Err(InvalidLayer)` otherwise -/
def onLayer (d : Doc) (i : Nat) (op : UndoOp) (f : LayerM → LayerM) : Res :=
  match d.layers[i]? with
  | some l => .ok (op, d.setLayer i (f l))
  | none => .error .err

/-- `layers[i]` then `f`: an index panic otherwise -/
def onLayerIdx (d : Doc) (i : Nat) (op : UndoOp) (f : LayerM → LayerM) : Res :=
  match d.layers[i]? with
  | some l => .ok (op, d.setLayer i (f l))
  | none => .error .panic

/-- `if let Some(layer) = layers.get_mut(i) { f }; Ok(())` -/
def onLayerOpt (d : Doc) (i : Nat) (op : UndoOp) (f : LayerM → LayerM) : Res :=
  match d.layers[i]? with
  | some l => .ok (op, d.setLayer i (f l))
  | none => .ok (op, d)

/-- `column as usize` of a negative `i32` is larger than any row -/
def colIdx (col : Int) : Option Nat := if col < 0 then none else some col.toNat

/-- whole-layer scroll (after `fix: whole-layer scroll up/down rotates the visible rows…`) -/
def scrollRows (l : LayerM) (up : Bool) : LayerM :=
  let h := l.h.toNat
  let lines := growTo l.lines h []
  let vis := lines.take h
  -- `[..h].rotate_left(k)` / `rotate_right(k)` with k = 1 (0 on an empty layer)
  let k := if h > 0 then 1 else 0
  let rot := if up then vis.drop k ++ vis.take k else vis.drop (vis.length - k) ++ vis.take (vis.length - k)
  { l with lines := rot ++ lines.drop h }

def deleteRowRedo (l : LayerM) (line : Nat) : Row × LayerM :=
  let lines := growTo l.lines (line + 1) []
  (lines.getD line [], { l with lines := lines.eraseIdx line, h := l.h - 1 })

def insertRowRedo (l : LayerM) (line : Nat) (row : Row) : LayerM :=
  let lines := growTo l.lines (line + 1) []
  { l with lines := lines.insertIdx line row, h := l.h + 1 }

def deleteColumnRedo (l : LayerM) (col : Int) : List (Option Cell) × LayerM :=
  match colIdx col with
  | none => (l.lines.map (fun _ => none), { l with w := l.w - 1 })
  | some o =>
    (l.lines.map (fun r => if o < r.length then some (r.getD o Cell.invisible) else none),
     { l with lines := l.lines.map (fun r => if o < r.length then r.eraseIdx o else r), w := l.w - 1 })

/-- (after `fix: DeleteRow/InsertRow/DeleteColumn undo panic…`) -/
def deleteColumnUndo (l : LayerM) (col : Int) (deleted : List (Option Cell)) : LayerM :=
  let o := col.toNat
  let rec go (i : Nat) (del : List (Option Cell)) (lines : List Row) : List Row :=
    match del with
    | [] => lines
    | none :: rest => go (i + 1) rest lines
    | some c :: rest =>
      let lines := growTo lines (i + 1) []
      go (i + 1) rest (lines.set i ((lines.getD i []).insertCell o c))
  { l with lines := go 0 deleted l.lines, w := l.w + 1 }

def insertColumnRedo (l : LayerM) (col : Int) : LayerM :=
  match colIdx col with
  | none => { l with w := l.w + 1 }
  | some o => { l with lines := l.lines.map (fun r => if r.length ≥ o then r.insertIdx o Cell.invisible else r), w := l.w + 1 }

def insertColumnUndo (l : LayerM) (col : Int) : LayerM :=
  match colIdx col with
  | none => { l with w := l.w - 1 }
  | some o => { l with lines := l.lines.map (fun r => if r.length > o then r.eraseIdx o else r), w := l.w - 1 }

/-- `UndoLayerChange::undo/redo` with the snapshot `chars` (after `fix: UndoLayerChange always stamps its snapshot…`) -/
def layerChangeApply (l : LayerM) (px py : Int) (chars : LayerM) : LayerM := l.stamp px py chars

def listSwap {α : Type} (l : List α) (i j : Nat) : Option (List α) :=
  match l[i]?, l[j]? with
  | some a, some b => some ((l.set i b).set j a)
  | _, _ => none

/-- `AddSelectionToMask::redo` for rectangle selections (`Shape::Lines` walks the positions between anchor and lead:
    not interpreted, the driver never sends such a history to the model) -/
def Mask.addSel (m : Mask) (s : Sel) : Mask := m.fillRect s.asRect (s.addType != 2)

/-- `AddFloatingLayer::redo` / `undo` on the layer -/
def floatRedo (l : LayerM) : LayerM :=
  { l with props := { l.props with role := if l.props.role = 2 then 3 else 0, title := layerNewName } }
def floatUndo (l : LayerM) : LayerM :=
  { l with props := { l.props with role := if l.props.role = 3 then 2 else 1, title := layerPastedName } }

mutual
/-- `UndoOperation::redo` -/
def UndoOp.redo : UndoOp → Doc → Res
  | .setChar x y i old new, d => onLayerIdx d i (.setChar x y i old new) (·.setChar x y new)
  | .swapChar i x1 y1 x2 y2, d => onLayerIdx d i (.swapChar i x1 y1 x2 y2) (·.swapChar x1 y1 x2 y2)
  | .addLayer idx layer, d =>
    match layer with
    | none => .ok (.addLayer idx none, d)
    | some l => if idx ≤ d.layers.length then .ok (.addLayer idx none, { d with layers := d.layers.insertIdx idx l }) else .error .panic
  | .removeLayer idx _, d =>
    match d.layers[idx]? with
    | some l => .ok (.removeLayer idx (some l), ({ d with layers := d.layers.eraseIdx idx }).clampCur)
    | none => .error .err
  | .raiseLayer idx, d =>
    match listSwap d.layers idx (idx + 1) with
    | some ls => .ok (.raiseLayer idx, { d with layers := ls })
    | none => .error .panic
  | .lowerLayer idx, d =>
    if idx = 0 then .error .panic else
    match listSwap d.layers idx (idx - 1) with
    | some ls => .ok (.lowerLayer idx, { d with layers := ls })
    | none => .error .panic
  | .toggleVisibility idx, d =>
    onLayer d idx (.toggleVisibility idx) (fun l => { l with props := { l.props with visible := !l.props.visible } })
  | .moveLayer idx fx fy tx ty, d => onLayer d idx (.moveLayer idx fx fy tx ty) (·.setOffset tx ty)
  | .setLayerSize idx _ _ tw th, d =>
    match d.layers[idx]? with
    | some l => .ok (.setLayerSize idx l.w l.h tw th, d.setLayer idx { l with w := tw, h := th })
    | none => .error .err
  | .resizeBuffer ow oh w h, d => .ok (.resizeBuffer ow oh w h, ({ d with w := w, h := h } : Doc).setMaskSize)
  | .layerChange i px py old new, d => onLayer d i (.layerChange i px py old new) (layerChangeApply · px py new)
  | .crop ow oh w h layers, d => .ok (.crop ow oh w h d.layers, ({ d with w := w, h := h, layers := layers } : Doc).setMaskSize)
  | .deleteRow i line _, d =>
    match d.layers[i]? with
    | none => .error .err
    | some l =>
      if line < 0 then .error .panic else
      let (row, l') := deleteRowRedo l line.toNat
      .ok (.deleteRow i line row, d.setLayer i l')
  | .insertRow i line row, d =>
    match d.layers[i]? with
    | none => .error .err
    | some l =>
      if line < 0 then .error .panic else
      .ok (.insertRow i line [], d.setLayer i (insertRowRedo l line.toNat row))
  | .deleteColumn i col _, d =>
    match d.layers[i]? with
    | none => .error .err
    | some l =>
      let (del, l') := deleteColumnRedo l col
      .ok (.deleteColumn i col del, d.setLayer i l')
  | .insertColumn i col, d => onLayer d i (.insertColumn i col) (insertColumnRedo · col)
  | .scrollUp i, d => onLayer d i (.scrollUp i) (scrollRows · true)
  | .scrollDown i, d => onLayer d i (.scrollDown i) (scrollRows · false)
  | .clearLayer idx lines, d =>
    match d.layers[idx]? with
    | some l => .ok (.clearLayer idx l.lines, d.setLayer idx { l with lines := lines })
    | none => .error .err
  | .setSelection old new, d => .ok (.setSelection old new, { d with sel := new })
  | .selectNothing sel mask, d => .ok (.selectNothing sel mask, { d with sel := none, mask := d.mask.clear })
  | .deselect sel, d => .ok (.deselect sel, { d with sel := none })
  -- `drain((index - 1)..=index)`: `index - 1` underflows for 0, the range must lie inside the vector
  | .mergeLayerDown idx merged _, d =>
    match merged with
    | none => .error .err
    | some m =>
      if idx = 0 ∨ idx ≥ d.layers.length then .error .panic
      else
        let orig := (d.layers.drop (idx - 1)).take 2
        let layers := d.layers.take (idx - 1) ++ m :: d.layers.drop (idx + 1)
        .ok (.mergeLayerDown idx none (some orig), { d with layers := layers, cur := min (idx - 1) (layers.length - 1) })
  | .paste cur layer, d =>
    match layer with
    | none => .error .err
    | some l => if cur + 1 ≤ d.layers.length then .ok (.paste cur none, { d with layers := d.layers.insertIdx (cur + 1) l }) else .error .panic
  | .addFloatingLayer cur, d => onLayerOpt d cur (.addFloatingLayer cur) floatRedo
  | .rotateLayer i old new, d => onLayerOpt d i (.rotateLayer i old new) (fun l => { l with w := l.h, h := l.w, lines := new })
  | .updateLayerProps idx old new, d =>
    onLayer d idx (.updateLayerProps idx old new) (fun l => { l with props := { new with role := l.props.role } })
  | .setSelectionMask old new, d => .ok (.setSelectionMask old new, { d with mask := new })
  | .addSelectionToMask old sel, d => .ok (.addSelectionToMask old sel, { d with mask := d.mask.addSel sel })
  | .inverseSelection sel old new, d => .ok (.inverseSelection sel old new, { d with sel := none, mask := new })
  | .switchPalettte pal, d => .ok (.switchPalettte d.x.palette, { d with x := { d.x with palette := pal } })
  | .setSauceData data, d => .ok (.setSauceData d.x.sauce, { d with x := { d.x with sauce := data } })
  | .switchToFontPage old new, d => .ok (.switchToFontPage old new, { d with fontPage := new })
  | .setFont page old new, d => .ok (.setFont page old new, d.setFonts (fmInsert d.x.fonts page new))
  | .addFont oldPage newPage font _, d =>
    .ok (.addFont oldPage newPage font (fmLookup d.x.fonts newPage),
      { d.setFonts (fmInsert (fmRemove d.x.fonts newPage) newPage font) with fontPage := newPage })
  | .removeFont slot _, d =>
    match fmLookup d.x.fonts slot with
    | some f => .ok (.removeFont slot (some f), d.setFonts (fmRemove d.x.fonts slot))
    | none => .error .err
  | .changeFontSlot src dst _, d =>
    match fmLookup d.x.fonts src with
    | none => .error .err
    | some f =>
      let f1 := fmRemove d.x.fonts src
      .ok (.changeFontSlot src dst (fmLookup f1 dst), d.setFonts (fmInsert (fmRemove f1 dst) dst f))
  | .replaceFontUsage op ol np nl, d => .ok (.replaceFontUsage op ol np nl, { d with layers := nl, fontPage := np })
  | .switchPalette om opal ol nm npal nl, d =>
    .ok (.switchPalette om opal ol nm npal nl, { d with layers := nl, x := { d.x with palette := npal, paletteMode := nm } })
  | .setIceMode om ol nm nl, d => .ok (.setIceMode om ol nm nl, { d with layers := nl, x := { d.x with iceMode := nm } })
  | .reverseCaret px py ox oy, d => .ok (.reverseCaret px py ox oy, { d with caretX := ox, caretY := oy })
  | .reversed op, d =>
    match op.undo d with
    | .ok (op', d') => .ok (.reversed op', d')
    | .error e => .error e
  | .atomic ops, d =>
    match redoList ops d with
    | .ok (ops', d') => .ok (.atomic ops', d')
    | .error e => .error e
/-- `for op in stack.iter_mut() { op.redo()? }` -/
def redoList : List UndoOp → Doc → Except Err (List UndoOp × Doc)
  | [], d => .ok ([], d)
  | op :: rest, d =>
    match op.redo d with
    | .error e => .error e
    | .ok (op', d1) =>
      match redoList rest d1 with
      | .error e => .error e
      | .ok (rest', d2) => .ok (op' :: rest', d2)
/-- `UndoOperation::undo` -/
def UndoOp.undo : UndoOp → Doc → Res
  | .setChar x y i old new, d => onLayerIdx d i (.setChar x y i old new) (·.restoreChar x y old)
  | .swapChar i x1 y1 x2 y2, d => onLayerIdx d i (.swapChar i x1 y1 x2 y2) (·.swapChar x1 y1 x2 y2)
  | .addLayer idx _, d =>
    match d.layers[idx]? with
    | some l => .ok (.addLayer idx (some l), ({ d with layers := d.layers.eraseIdx idx }).clampCur)
    | none => .error .panic
  | .removeLayer idx layer, d =>
    match layer with
    | none => .ok (.removeLayer idx none, d)
    | some l => if idx ≤ d.layers.length then .ok (.removeLayer idx none, { d with layers := d.layers.insertIdx idx l }) else .error .panic
  | .raiseLayer idx, d =>
    match listSwap d.layers idx (idx + 1) with
    | some ls => .ok (.raiseLayer idx, { d with layers := ls })
    | none => .error .panic
  | .lowerLayer idx, d =>
    if idx = 0 then .error .panic else
    match listSwap d.layers idx (idx - 1) with
    | some ls => .ok (.lowerLayer idx, { d with layers := ls })
    | none => .error .panic
  | .toggleVisibility idx, d =>
    onLayer d idx (.toggleVisibility idx) (fun l => { l with props := { l.props with visible := !l.props.visible } })
  | .moveLayer idx fx fy tx ty, d => onLayer d idx (.moveLayer idx fx fy tx ty) (·.setOffset fx fy)
  | .setLayerSize idx fw fh tw th, d => onLayer d idx (.setLayerSize idx fw fh tw th) (fun l => { l with w := fw, h := fh })
  | .resizeBuffer ow oh w h, d => .ok (.resizeBuffer ow oh w h, ({ d with w := ow, h := oh } : Doc).setMaskSize)
  | .layerChange i px py old new, d => onLayer d i (.layerChange i px py old new) (layerChangeApply · px py old)
  | .crop ow oh w h layers, d => .ok (.crop ow oh w h d.layers, ({ d with w := ow, h := oh, layers := layers } : Doc).setMaskSize)
  | .deleteRow i line row, d =>
    match d.layers[i]? with
    | none => .error .err
    | some l =>
      if line < 0 then .error .panic else
      let lines := growTo l.lines line.toNat []
      .ok (.deleteRow i line [], d.setLayer i { l with lines := lines.insertIdx line.toNat row, h := l.h + 1 })
  | .insertRow i line row, d =>
    match d.layers[i]? with
    | none => .error .err
    | some l =>
      if line < 0 then .error .panic else
      if line.toNat < l.lines.length then
        .ok (.insertRow i line (l.lines.getD line.toNat []), d.setLayer i { l with lines := l.lines.eraseIdx line.toNat, h := l.h - 1 })
      else .ok (.insertRow i line row, d.setLayer i { l with h := l.h - 1 })
  | .deleteColumn i col del, d => onLayer d i (.deleteColumn i col del) (deleteColumnUndo · col del)
  | .insertColumn i col, d => onLayer d i (.insertColumn i col) (insertColumnUndo · col)
  | .scrollUp i, d => onLayer d i (.scrollUp i) (scrollRows · false)
  | .scrollDown i, d => onLayer d i (.scrollDown i) (scrollRows · true)
  | .clearLayer idx lines, d =>
    match d.layers[idx]? with
    | some l => .ok (.clearLayer idx l.lines, d.setLayer idx { l with lines := lines })
    | none => .error .err
  | .setSelection old new, d => .ok (.setSelection old new, { d with sel := old })
  | .selectNothing sel mask, d => .ok (.selectNothing sel mask, { d with sel := sel, mask := mask })
  | .deselect sel, d => .ok (.deselect sel, { d with sel := some sel })
  -- `while let Some(layer) = orig.pop() { insert(index - 1, layer) }`, then `remove(index + 1)`
  | .mergeLayerDown idx _ orig, d =>
    match orig with
    | none => .error .err
    | some os =>
      if os ≠ [] ∧ (idx = 0 ∨ idx - 1 > d.layers.length) then .error .panic
      else
        let layers := d.layers.take (idx - 1) ++ os ++ d.layers.drop (idx - 1)
        match layers[idx + 1]? with
        | none => .error .panic
        | some m =>
          let layers' := layers.eraseIdx (idx + 1)
          .ok (.mergeLayerDown idx (some m) none, { d with layers := layers', cur := min idx (layers'.length - 1) })
  | .paste cur _, d =>
    match d.layers[cur + 1]? with
    | some l => .ok (.paste cur (some l), { d with layers := d.layers.eraseIdx (cur + 1) })
    | none => .error .panic
  | .addFloatingLayer cur, d => onLayerOpt d cur (.addFloatingLayer cur) floatUndo
  | .rotateLayer i old new, d => onLayerOpt d i (.rotateLayer i old new) (fun l => { l with w := l.h, h := l.w, lines := old })
  | .updateLayerProps idx old new, d =>
    onLayer d idx (.updateLayerProps idx old new) (fun l => { l with props := { old with role := l.props.role } })
  | .setSelectionMask old new, d => .ok (.setSelectionMask old new, { d with mask := old })
  | .addSelectionToMask old sel, d => .ok (.addSelectionToMask old sel, { d with mask := old })
  | .inverseSelection sel old new, d => .ok (.inverseSelection sel old new, { d with sel := sel, mask := old })
  | .switchPalettte pal, d => .ok (.switchPalettte d.x.palette, { d with x := { d.x with palette := pal } })
  | .setSauceData data, d => .ok (.setSauceData d.x.sauce, { d with x := { d.x with sauce := data } })
  | .switchToFontPage old new, d => .ok (.switchToFontPage old new, { d with fontPage := old })
  | .setFont page old new, d => .ok (.setFont page old new, d.setFonts (fmInsert d.x.fonts page old))
  | .addFont oldPage newPage font replaced, d =>
    let f1 := fmRemove d.x.fonts newPage
    let f2 := match replaced with
      | some f => fmInsert f1 newPage f
      | none => f1
    .ok (.addFont oldPage newPage font none, { d.setFonts f2 with fontPage := oldPage })
  | .removeFont slot font, d =>
    match font with
    | some f => .ok (.removeFont slot none, d.setFonts (fmInsert d.x.fonts slot f))
    | none => .error .err
  | .changeFontSlot src dst replaced, d =>
    match fmLookup d.x.fonts dst with
    | none => .error .err
    | some f =>
      let f1 := fmInsert (fmRemove d.x.fonts dst) src f
      let f2 := match replaced with
        | some g => fmInsert f1 dst g
        | none => f1
      .ok (.changeFontSlot src dst none, d.setFonts f2)
  | .replaceFontUsage op ol np nl, d => .ok (.replaceFontUsage op ol np nl, { d with layers := ol, fontPage := op })
  | .switchPalette om opal ol nm npal nl, d =>
    .ok (.switchPalette om opal ol nm npal nl, { d with layers := ol, x := { d.x with palette := opal, paletteMode := om } })
  | .setIceMode om ol nm nl, d => .ok (.setIceMode om ol nm nl, { d with layers := ol, x := { d.x with iceMode := om } })
  | .reverseCaret px py _ _, d => .ok (.reverseCaret px py d.caretX d.caretY, { d with caretX := px, caretY := py })
  | .reversed op, d =>
    match op.redo d with
    | .ok (op', d') => .ok (.reversed op', d')
    | .error e => .error e
  | .atomic ops, d =>
    match undoList ops d with
    | .ok (ops', d') => .ok (.atomic ops', d')
    | .error e => .error e
/-- `for op in stack.iter_mut().rev() { op.undo()? }`: the LAST element is undone first -/
def undoList : List UndoOp → Doc → Except Err (List UndoOp × Doc)
  | [], d => .ok ([], d)
  | op :: rest, d =>
    match undoList rest d with
    | .error e => .error e
    | .ok (rest', d1) =>
      match op.undo d1 with
      | .error e => .error e
      | .ok (op', d2) => .ok (op' :: rest', d2)
end

/-! ## the editor state and its stack discipline (`src/editor/mod.rs`) -/

structure Ed where
  doc : Doc
  /-- head = top of the stack -/
  undoStack : List UndoOp
  redoStack : List UndoOp
  /-- `base_count` of the open `AtomicUndoGuard`s, innermost first -/
  guards : List Nat

/-- `push_plain_undo` -/
def Ed.pushPlainUndo (ed : Ed) (op : UndoOp) : Ed := { ed with undoStack := op :: ed.undoStack, redoStack := [] }

/-- `push_undo_action`: `op.redo(self)?` then `push_plain_undo` -/
def Ed.pushUndoAction (ed : Ed) (op : UndoOp) : Except Err Ed :=
  match op.redo ed.doc with
  | .error e => .error e
  | .ok (op', d') => .ok (({ ed with doc := d' } : Ed).pushPlainUndo op')

/-- `begin_atomic_undo` -/
def Ed.beginAtomic (ed : Ed) : Ed := { ed with redoStack := [], guards := ed.undoStack.length :: ed.guards }

/-- `Drop for AtomicUndoGuard` / `end_action`: everything pushed since `base_count` becomes one `AtomicUndo`
    (in push order); nothing is pushed when nothing was recorded -/
def Ed.endAtomic (ed : Ed) : Ed :=
  match ed.guards with
  | [] => ed
  | base :: gs =>
    let count := ed.undoStack.length
    if base ≥ count then { ed with guards := gs }
    else
      let n := count - base
      { ed with undoStack := .atomic ((ed.undoStack.take n).reverse) :: ed.undoStack.drop n, guards := gs }

/-- `UndoState::undo` -/
def Ed.undo (ed : Ed) : Except Err Ed :=
  match ed.undoStack with
  | [] => .ok ed
  | op :: rest =>
    match op.undo ed.doc with
    | .error e => .error e
    | .ok (op', d') => .ok { ed with doc := d', undoStack := rest, redoStack := op' :: ed.redoStack }

/-- `UndoState::redo` -/
def Ed.redo (ed : Ed) : Except Err Ed :=
  match ed.redoStack with
  | [] => .ok ed
  | op :: rest =>
    match op.redo ed.doc with
    | .error e => .error e
    | .ok (op', d') => .ok { ed with doc := d', redoStack := rest, undoStack := op' :: ed.undoStack }

/-! ## histories: primitive steps over the editor state

The framework theorem (`Props/C08.lean`) is about `Ed.run`; the driver executes the modelled public operations through
the same function (`Call.steps` below), so what is tied to the implementation is what the theorem talks about. -/

/-- one primitive step of a history -/
inductive Step
  /-- the edit is applied directly and its record pushed with `push_plain_undo` (crop, area operations, …);
      `none` = the operation returns `Ok(())` without doing anything -/
  | edit (f : Doc → Except Err (Option (UndoOp × Doc)))
  /-- the record is built from the current state and the edit IS its `redo` (`push_undo_action`) -/
  | act (build : Doc → Except Err (Option UndoOp))
  /-- changes outside the document state: caret, current layer, mirror mode -/
  | touch (f : Doc → Doc)
  /-- `begin_atomic_undo` reached under a condition on the state, when nothing is recorded afterwards: the redo stack is
      cleared, the guard closes without an entry -/
  | clearRedo (p : Doc → Bool)
  | beginAtomic
  | endAtomic
  | undo
  | redo

inductive RunErr
  | editFailed
  | undoFailed (e : Err)
  | redoFailed (e : Err)

/-- one step; `floor` is the height of the undo stack the history started from: undo steps *within the history* do not
    go below it (with `floor = 0` this is exactly `UndoState::undo`, a no-op on the empty stack) -/
def Ed.step (floor : Nat) (ed : Ed) : Step → Except RunErr Ed
  | .edit f =>
    match f ed.doc with
    | .ok (some (op, d')) => .ok (({ ed with doc := d' } : Ed).pushPlainUndo op)
    | .ok none => .ok ed
    | .error _ => .error .editFailed
  | .act build =>
    match build ed.doc with
    | .error _ => .error .editFailed
    | .ok none => .ok ed
    | .ok (some op) =>
      match ed.pushUndoAction op with
      | .ok ed' => .ok ed'
      | .error _ => .error .editFailed
  | .touch f => .ok { ed with doc := f ed.doc }
  | .clearRedo p => .ok (if p ed.doc then { ed with redoStack := [] } else ed)
  | .beginAtomic => .ok ed.beginAtomic
  | .endAtomic => .ok ed.endAtomic
  | .undo =>
    if ed.undoStack.length ≤ floor then .ok ed else
    match ed.undo with
    | .ok ed' => .ok ed'
    | .error e => .error (.undoFailed e)
  | .redo =>
    match ed.redo with
    | .ok ed' => .ok ed'
    | .error e => .error (.redoFailed e)

def Ed.run (floor : Nat) (ed : Ed) : List Step → Except RunErr Ed
  | [] => .ok ed
  | s :: rest =>
    match ed.step floor s with
    | .ok ed' => ed'.run floor rest
    | .error e => .error e

end IcyVerif.Undo
