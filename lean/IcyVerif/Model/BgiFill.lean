import IcyVerif.Model.BgiLine
/-! `Bgi::flood_fill` of `src/parsers/rip/bgi/mod.rs` (as repaired: seed and rows clipped to viewport ∩ window with
exclusive right/bottom edge, one span list per screen row, `find_line` bounded by the window width) with its helpers
`find_line` and `already_drawn`, as the worklist / scan-line algorithm the code implements:

* `point_stack` is a `List FLI` (head = top of the stack), `fill_lines` an `Array (List LI)` (one list per screen
  row, newest span first; the final drawing pass reverses each row to get the insertion order of the `Vec`),
* the two `while` loops carry explicit fuel: running out of fuel is the outcome `stall` (= the real loop would not
  have ended within the bound), an index out of range or an i32 overflow is the outcome `panic`.  The theorems of
  `Lemmas/BgiFill*.lean` show that neither can happen on a complete canvas, and bound the step count `n`
  (loop iterations of `flood_fill` + pixels read by `find_line`) by the canvas size alone.

`pos += 1` / `pos -= 1` / `endx -= 1` / `startx += 1` / `cx += 1` act on values that a successful screen index or a
loop bound has already confined to ±2^18, so they are plain `Int` operations; `y * width + x` is checked. -/
namespace IcyVerif.Bgi

structure LI where
  x1 : Int
  x2 : Int
  y : Int
  deriving Repr, DecidableEq

structure FLI where
  dir : Int
  x1 : Int
  x2 : Int
  y : Int
  deriving Repr, DecidableEq

inductive Res (α : Type) where
  | ok (a : α)
  | panic
  | stall
  deriving Repr

/-- `self.screen[i as usize]` -/
def scrAt (scr : Array Nat) (i : Int) : Option Nat :=
  if inLen i scr.size then some (scr.getD i.toNat 0) else none

/-- `for ex in x..width { let col = screen[pos]; pos += 1; if col == border { endx = ex; break } }`:
`n` iterations left; answers (endx, pixels read), `endx = width` when no border was met -/
def scanRight (scr : Array Nat) (border : Nat) (width : Int) : Nat → Int → Int → Option (Int × Nat)
  | 0, _, _ => some (width, 0)
  | n + 1, pos, ex =>
    match scrAt scr pos with
    | none => none
    | some col =>
      if col = border then some (ex, 1)
      else (scanRight scr border width n (pos + 1) (ex + 1)).map fun r => (r.1, r.2 + 1)

/-- `for sx in (0..x).rev() { let col = screen[pos]; pos -= 1; if col == border { startx = sx; break } }`;
answers (startx, pixels read), `startx = -1` when no border was met -/
def scanLeft (scr : Array Nat) (border : Nat) : Nat → Int → Int → Option (Int × Nat)
  | 0, _, _ => some (-1, 0)
  | n + 1, pos, sx =>
    match scrAt scr pos with
    | none => none
    | some col =>
      if col = border then some (sx, 1)
      else (scanLeft scr border n (pos - 1) (sx - 1)).map fun r => (r.1, r.2 + 1)

/-- `Bgi::find_line(x, y, border)`: `none` = panic, `some (none, _)` = the "weird condition" answer `None` -/
def findLine (s : Bgi) (x y : Int) (border : Nat) : Option (Option LI × Nat) :=
  let width := min s.vp.w s.winW
  match chk (y * s.winW) with
  | none => none
  | some yw =>
    match chk (yw + x) with
    | none => none
    | some pos =>
      match scanRight s.screen border width (width - x).toNat pos x with
      | none => none
      | some (endx0, c1) =>
        let endx := endx0 - 1
        match chk (pos - 1) with
        | none => none
        | some posl =>
          match scanLeft s.screen border x.toNat posl (x - 1) with
          | none => none
          | some (startx0, c2) =>
            let startx := startx0 + 1
            match chk (s.winW - 1) with
            | none => none
            | some wm1 =>
              if (startx = 0 ∨ endx = wm1) ∧ endx = startx then some (none, c1 + c2)
              else some (some ⟨startx, endx, y⟩, c1 + c2)

/-- `&fill_lines[y as usize]` -/
def rowAt (fl : Array (List LI)) (y : Int) : Option (List LI) :=
  if 0 ≤ y then fl[y.toNat]? else none

def covers (row : List LI) (x y : Int) : Bool :=
  row.any fun li => y == li.y && decide (li.x1 ≤ x) && decide (x ≤ li.x2)

/-- `already_drawn(&fill_lines, x, y)` -/
def alreadyDrawn (fl : Array (List LI)) (x y : Int) : Option Bool :=
  (rowAt fl y).map fun row => covers row x y

/-- `fill_lines[li.y as usize].push(li)` -/
def pushLine (fl : Array (List LI)) (li : LI) : Option (Array (List LI)) :=
  (rowAt fl li.y).map fun row => fl.setIfInBounds li.y.toNat (li :: row)

/-- the pushes of one successful `find_line` inside the scan loop -/
def pushSpans (s : Bgi) (st : List FLI) (fli : FLI) (li : LI) : List FLI :=
  let st := (⟨fli.dir, li.x1, li.x2, li.y⟩ : FLI) :: st
  if s.fillColor ≠ 0 then
    let st := if li.x2 > fli.x2 then (⟨-fli.dir, fli.x2 + 1, li.x2, li.y⟩ : FLI) :: st else st
    if li.x1 < fli.x1 then (⟨-fli.dir, li.x1, fli.x1 - 1, li.y⟩ : FLI) :: st else st
  else st

/-- `while cx <= fli.x2 { … }` on row `cury` (`yoff = cury * width`) -/
def ffInner (s : Bgi) (border : Nat) (fli : FLI) (cury yoff : Int) :
    Nat → Int → Array (List LI) → List FLI → Nat → Res (Array (List LI) × List FLI × Nat)
  | fuel, cx, fl, st, n =>
    if cx > fli.x2 then .ok (fl, st, n) else
    match fuel with
    | 0 => .stall
    | f + 1 =>
      match chk (yoff + cx) with
      | none => .panic
      | some idx =>
        match scrAt s.screen idx with
        | none => .panic
        | some px =>
          if px = border ∨ (px = s.fillColor ∧ s.fillStyle = Gen.Bgi.fillStyleSolid) then
            ffInner s border fli cury yoff f (cx + 1) fl st (n + 1)
          else
            match alreadyDrawn fl cx cury with
            | none => .panic
            | some true => ffInner s border fli cury yoff f (cx + 1) fl st (n + 1)
            | some false =>
              match findLine s cx cury border with
              | none => .panic
              | some (none, c) => ffInner s border fli cury yoff f (cx + 1) fl st (n + 1 + c)
              | some (some li, c) =>
                match pushLine fl li with
                | none => .panic
                | some fl' => ffInner s border fli cury yoff f (li.x2 + 1) fl' (pushSpans s st fli li) (n + 1 + c)

/-- `while let Some(fli) = point_stack.pop() { … }`; `top`/`bottom` are `clip.top()` / `clip.bottom()` -/
def ffOuter (s : Bgi) (border : Nat) (top bottom : Int) :
    Nat → List FLI → Array (List LI) → Nat → Res (Array (List LI) × Nat)
  | _, [], fl, n => .ok (fl, n)
  | 0, _ :: _, _, _ => .stall
  | f + 1, fli :: st, fl, n =>
    match chk (fli.y + fli.dir) with
    | none => .panic
    | some cury =>
      if cury < bottom ∧ cury ≥ top then
        match chk (cury * s.winW) with
        | none => .panic
        | some yoff =>
          match ffInner s border fli cury yoff (fli.x2 - fli.x1 + 1).toNat fli.x1 fl st (n + 1) with
          | .ok (fl', st', n') => ffOuter s border top bottom f st' fl' n'
          | .panic => .panic
          | .stall => .stall
      else ffOuter s border top bottom f st fl (n + 1)

/-- `for li in fill_line { self.bar(li.x1, li.y, li.x2, li.y) }` -/
def drawSpans (s : Bgi) : List LI → Option Bgi
  | [] => some s
  | li :: rest =>
    match bar s li.x1 li.y li.x2 li.y with
    | none => none
    | some s' => drawSpans s' rest

/-- `for fill_line in &fill_lines { … }` (rows are stored newest first) -/
def drawRows (s : Bgi) : List (List LI) → Option Bgi
  | [] => some s
  | row :: rest =>
    match drawSpans s row.reverse with
    | none => none
    | some s' => drawRows s' rest

/-- fuel of the outer loop: three stack entries per collected span (one span per uncovered pixel at most) + the two
initial entries -/
def ffFuel (s : Bgi) : Nat := 3 * (s.winW.toNat * s.winH.toNat) + 2

/-- the collecting phase of `flood_fill` (everything before the final drawing pass): the span lists and the number of
steps (loop iterations + pixels read by `find_line`) -/
def ffCollect (s : Bgi) (x y : Int) (border : Nat) : Res (Array (List LI) × Nat) :=
  match s.vp.intersect ⟨0, 0, s.winW, s.winH⟩ with
  | none => .panic
  | some clip =>
    if x < clip.x then .ok (#[], 0) else
    match clip.bottomRight with
    | none => .panic
    | some (cr, cb) =>
      if x ≥ cr ∨ y < clip.y ∨ y ≥ cb then .ok (#[], 0) else
      -- `vec![Vec::new(); self.window.height as usize]`
      if s.winH < 0 then .panic else
      let fl0 : Array (List LI) := Array.replicate s.winH.toNat []
      match chk (y * s.winW) with
      | none => .panic
      | some yw =>
        match chk (yw + x) with
        | none => .panic
        | some pos =>
          match scrAt s.screen pos with
          | none => .panic
          | some px =>
            if px = border then .ok (fl0, 0) else
            match findLine s x y border with
            | none => .panic
            | some (none, c) => .ok (fl0, c)
            | some (some li, c) =>
              match pushLine fl0 li with
              | none => .panic
              | some fl1 =>
                ffOuter s border clip.y cb (ffFuel s) [⟨-1, li.x1, li.x2, li.y⟩, ⟨1, li.x1, li.x2, li.y⟩] fl1 c

/-- `Bgi::flood_fill(x, y, border)`: the new state, the steps of the collecting phase and the number of `bar` calls -/
def floodFill (s : Bgi) (x y : Int) (border : Nat) : Res (Bgi × Nat × Nat) :=
  match ffCollect s x y border with
  | .panic => .panic
  | .stall => .stall
  | .ok (fl, n) =>
    match drawRows s fl.toList with
    | none => .panic
    | some s' => .ok (s', n, (fl.toList.map List.length).sum)

end IcyVerif.Bgi
