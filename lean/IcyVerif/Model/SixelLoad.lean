import IcyVerif.Model.Sixel
import IcyVerif.Model.SixelQueue
/-! Model of the FILE-LOADING path of sixel images: `parse_with_parser` (src/formats/mod.rs) and the hand-off
    in `Parser::execute_dcs` (src/parsers/ansi/dcs.rs).

    * `classify`: what `execute_dcs` does with the recorded DCS string — custom font, macro definition, sixel
      (numeric parameters before `q`: the first selects `vertical_scale`, the second only the unused background
      colour), or `UnsupportedDCSSequence`.  A sixel sequence spawns one decode thread at the caret position and
      leaves the caret where it is.
    * `joinLoop`: `while !sixel_threads.is_empty() { sleep(50 ms); update_sixel_threads()?; }` under an arbitrary
      schedule of thread completions (`sched[j]` = the decodes that finish during the j-th sleep); the poll is
      `SixelQueue.poll`.
    * `toLayers`: `while !layers[0].sixels.is_empty() { if let Some(sixel) = layers[0].sixels.pop() { … } }` — every
      delivered sixel becomes one `Role::Image` layer, newest first, sized in character cells by
      `(pixels + font - 1) / font` (Rust `i32` division, `/ 0` panics).

    Not modelled: the text of the file between the sequences (the caret position of each sequence is an input),
    `crop_loaded_file` and the bold-to-bright pass (they touch `layers[0]` cells only), layer titles beyond their
    number, `i32` overflow of `pixels + font - 1`. -/
namespace IcyVerif.SixelLoad
open IcyVerif.SixelQueue

/-! ### `execute_dcs` -/

inductive Dcs
  /-- `CTerm:Font:` prefix → `load_custom_font` -/
  | font
  /-- numbers, then `!z` → `parse_macro` -/
  | macroDef (nums : List Nat)
  /-- numbers, then `q`: a decode thread is spawned with `Sixel::parse_from(caret, 1, vscale, bg, payload)` -/
  | sixel (vscale : Nat) (transparentBg : Bool) (payload : List Char)
  | unsupported
  deriving DecidableEq, Repr

/-- the `for ch in self.parse_string.chars()` loop: a digit extends the last number (or starts the first),
    `;` pushes a 0, anything else ends the parameters -/
def dcsNumbers : List Nat → List Char → List Nat × List Char
  | nums, [] => (nums, [])
  | nums, c :: cs =>
    if c.isDigit then dcsNumbers (IcyVerif.Sixel.pushDigit nums c) cs
    else if c = ';' then dcsNumbers (nums ++ [0]) cs
    else (nums, c :: cs)

/-- `match self.parsed_numbers.first() { Some(0|1|5|6) | None => 2, Some(2) => 5, Some(3|4) => 3, _ => 1 }` -/
def vscaleOf (nums : List Nat) : Nat :=
  match nums.head? with
  | none => 2
  | some 0 => 2
  | some 1 => 2
  | some 5 => 2
  | some 6 => 2
  | some 2 => 5
  | some 3 => 3
  | some 4 => 3
  | some _ => 1

/-- `"CTerm:Font:"` -/
def fontPrefix : List Char := ['C', 'T', 'e', 'r', 'm', ':', 'F', 'o', 'n', 't', ':']

def classify (s : List Char) : Dcs :=
  if fontPrefix.isPrefixOf s then .font
  else
    let r := dcsNumbers [] s
    match r.2 with
    | '!' :: 'z' :: _ => .macroDef r.1
    | 'q' :: payload => .sixel (vscaleOf r.1) (r.1[1]? == some 1) payload
    | _ => .unsupported

/-! ### the join loop of `parse_with_parser` -/

inductive JoinRet
  /-- `sixel_threads` is empty: the loop ended -/
  | done
  /-- `update_sixel_threads()?` returned the error of a decode: the load fails -/
  | err
  /-- a poll called `join` on a running thread (never happens: `load_never_blocks`) -/
  | blocked
  /-- the schedule ran out while decodes were still running (the real loop keeps sleeping) -/
  | waiting
  deriving DecidableEq, Repr

def finishAll (cfg : Cfg) (s : St) (ids : List Nat) : St := ids.foldl (fun s id => step cfg s (.finish id)) s

def joinLoop (cfg : Cfg) : List (List Nat) → St → St × JoinRet
  | [], s => if s.queue.isEmpty then (s, .done) else (s, .waiting)
  | fin :: rest, s =>
    if s.queue.isEmpty then (s, .done)
    else
      let r := poll cfg (finishAll cfg s fin)       -- sleep (the threads `fin` complete), then poll
      match r.2 with
      | .err => (r.1, .err)
      | .blocked => (r.1, .blocked)
      | .ok _ => joinLoop cfg rest r.1

/-! ### sixels to image layers -/

/-- an image layer as `parse_with_parser` creates it: `Layer::new("Sixel layer {num}", size)`, `role = Image`,
    offset = the sixel's cell position; it holds exactly one sixel (`id`, `pw × ph` pixels) whose position was
    reset to (0,0) -/
structure ImgLayer where
  num : Nat
  offX : Int
  offY : Int
  cw : Int
  ch : Int
  id : Nat
  pw : Int
  ph : Int
  deriving DecidableEq, Repr

/-- `(size + font - 1) / font` on `i32` (truncating division) -/
def cells (pixels font : Int) : Int := Int.tdiv (pixels + font - 1) font

def mkLayer (fw fh : Int) (num : Nat) (i : Img) : ImgLayer :=
  ⟨num, i.px, i.py, cells i.w fw, cells i.h fh, i.id, i.w, i.h⟩

/-- the conversion loop; `stack` is `layers[0].sixels` with its LAST element first (what `Vec::pop` takes),
    `acc` the image layers pushed onto `result.layers` so far -/
def convLoop (fw fh : Int) : List Img → Nat → List ImgLayer → List ImgLayer
  | [], _, acc => acc
  | i :: stack, num, acc => convLoop fw fh stack (num + 1) (acc ++ [mkLayer fw fh (num + 1) i])

def toLayers (fw fh : Int) (sixels : List Img) : List ImgLayer := convLoop fw fh sixels.reverse 0 []

inductive LoadOut
  | ok (layers : List ImgLayer)
  /-- the load returns `Err` (a decode returned an error) -/
  | err
  /-- `/ 0`: a font without width or height while at least one image was delivered -/
  | divZero
  | blocked
  | waiting
  deriving DecidableEq, Repr

/-- the state when the text has been parsed: one queued decode per sixel sequence, in arrival order -/
def arrived (cfg : Cfg) (ids : List Nat) : St := ids.foldl (fun s id => step cfg s (.arrive id)) {}

/-- the sixel part of `parse_with_parser` from the state `s0` the text left behind; completions follow `sched` -/
def loadFrom (cfg : Cfg) (s0 : St) (sched : List (List Nat)) : LoadOut :=
  let r := joinLoop cfg sched s0
  match r.2 with
  | .err => .err
  | .blocked => .blocked
  | .waiting => .waiting
  | .done =>
    if (cfg.fw = 0 ∨ cfg.fh = 0) ∧ r.1.layer ≠ [] then .divZero
    else .ok (toLayers cfg.fw cfg.fh r.1.layer)

/-- `ids` arrived in this order (and no clear-screen after them) -/
def loadSixels (cfg : Cfg) (ids : List Nat) (sched : List (List Nat)) : LoadOut := loadFrom cfg (arrived cfg ids) sched

/-- the text of the file as far as sixels are concerned: `arrive` per sixel sequence, `clear` per clear-screen
    (`ESC[2J`, `ESC[3J`, form feed); nothing is polled while the text is parsed -/
def loadText (cfg : Cfg) (text : List Ev) (sched : List (List Nat)) : LoadOut := loadFrom cfg (run cfg text) sched

end IcyVerif.SixelLoad
