import IcyVerif.Model.TermAnsi
/-! # Rows — what the content operations of a terminal buffer do with the ROW TABLE
Second model next to `TermGeo` (which abstracts cell contents away): the state here is the *shape* of layer 0 of a
terminal buffer — `rows : List Nat` = `chars.len()` of every `Line` of `Layer.lines` (rows appear lazily, every row
has its own length: `Line::create(w)` makes `w` cells, `Line::with_capacity(w)` makes 0 cells), and the layer size
`(lw, lh)`.  Terminal size, buffer size, margins and modes come from `Term.Scr`, the cursor from `Term.Car`.

Transcribed, function by function, from `src/line.rs`, `src/layer.rs` (`get_char`, `set_char`, `remove_line`,
`insert_line`, `clear`), `src/parsers/mod.rs` (`Caret::lf ff bs del ins erase_charcter`, the scroll checks of
`up/down/index/reverse_index/next_line`, `Buffer::print_char scroll_up scroll_down scroll_left scroll_right clear_screen
clear_buffer_down clear_buffer_up clear_line clear_line_end clear_line_start remove_terminal_line insert_terminal_line`),
`ansi_commands.rs` (`get_rect_area`, fill / erase / selective erase rectangular area), PETSCII `update_shift_mode`,
Viewdata / Mode 7 `fill_to_eol`.

Every Rust operation that can panic is an explicit `.error site`: `v[i]`, `v.insert(i, _)` (needs `i <= len`),
`v.remove(i)` (needs `i < len`), `v.resize(n as usize, _)` / `Vec::with_capacity(n as usize)` with a negative `n`
(capacity overflow), `x as usize + 1` for `x = -1`, `assert!`.  A negative `i32` cast to `usize` is a huge index: where the
code compares it (`i < len`, `lines.get(i)`) the comparison is false / `None`; where the code indexes with it, it panics.

Layer 0 of a terminal buffer is unlocked, visible and has no alpha channel (`Layer::new`); these flags are constant and
not part of the state. -/
namespace IcyVerif.Rows
open IcyVerif.Term

/-- result of a content operation: `.error site` is a Rust panic at `site` -/
abbrev RRes (α : Type) := Except String α

@[inline] def andThen {α β : Type} (r : RRes α) (f : α → RRes β) : RRes β :=
  match r with
  | .ok a => f a
  | .error e => .error e

/-- layer 0: `lines` (length of each row's `chars`) and `size` -/
structure Tab where
  rows : List Nat
  lw : Int
  lh : Int
deriving Repr, DecidableEq, Inhabited

/-! ## `Vec` primitives with their panics -/
/-- `v.insert(i as usize, a)`: panics when the index is past the end -/
def vecInsert {α : Type} (v : List α) (i : Int) (a : α) (site : String) : RRes (List α) :=
  if i < 0 ∨ i > v.length then .error site else .ok (v.insertIdx i.toNat a)
/-- `v.remove(i as usize)`: panics when the index is not inside -/
def vecRemove {α : Type} (v : List α) (i : Int) (site : String) : RRes (List α) :=
  if i < 0 ∨ i ≥ v.length then .error site else .ok (v.eraseIdx i.toNat)
/-- `v.resize(n as usize, a)`: a negative count is a capacity overflow -/
def vecResize {α : Type} (v : List α) (n : Int) (a : α) (site : String) : RRes (List α) :=
  if n < 0 then .error site
  else .ok (if n.toNat ≤ v.length then v.take n.toNat else v ++ List.replicate (n.toNat - v.length) a)
/-- `v[i as usize]` -/
def vecIndex {α : Type} (v : List α) (i : Int) (site : String) : RRes α :=
  if i < 0 then .error site else
  match v[i.toNat]? with
  | some a => .ok a
  | none => .error site
/-- `v.get(i as usize)` / `v.get_mut(i as usize)` -/
def vecGet? {α : Type} (v : List α) (i : Int) : Option α := if i < 0 then none else v[i.toNat]?

/-- `chars.insert(i as usize, _)` on a row of `n` cells -/
def lenInsert (n : Nat) (i : Int) (site : String) : RRes Nat := if i < 0 ∨ i > n then .error site else .ok (n + 1)
/-- `chars.remove(i as usize)` on a row of `n` cells -/
def lenRemove (n : Nat) (i : Int) (site : String) : RRes Nat := if i < 0 ∨ i ≥ n then .error site else .ok (n - 1)

/-! ## loops -/
/-- `n` iterations with the counter starting at `i` -/
def loopFrom {σ : Type} (f : Int → σ → RRes σ) : Nat → Int → σ → RRes σ
  | 0, _, s => .ok s
  | n+1, i, s =>
    match f i s with
    | .ok s' => loopFrom f n (i + 1) s'
    | .error e => .error e
/-- `n` iterations with the counter going down from `i` -/
def loopDown {σ : Type} (f : Int → σ → RRes σ) : Nat → Int → σ → RRes σ
  | 0, _, s => .ok s
  | n+1, i, s =>
    match f i s with
    | .ok s' => loopDown f n (i - 1) s'
    | .error e => .error e
/-- `for i in lo..hi` -/
def forRange {σ : Type} (lo hi : Int) (f : Int → σ → RRes σ) (s : σ) : RRes σ := loopFrom f (hi - lo).toNat lo s
/-- `for i in (lo..hi).rev()` -/
def forRangeRev {σ : Type} (lo hi : Int) (f : Int → σ → RRes σ) (s : σ) : RRes σ := loopDown f (hi - lo).toNat (hi - 1) s
/-- `for _ in 0..n` -/
def times {σ : Type} (n : Int) (f : σ → RRes σ) (s : σ) : RRes σ := loopFrom (fun _ => f) n.toNat 0 s

/-! ## `src/line.rs` (a row is the length of its `chars`) -/
def lineCreate (w : Int) : RRes Nat :=
  if w < 0 then .error "Line::create: chars.resize(width as usize)" else .ok w.toNat
def lineWithCapacity (w : Int) : RRes Nat :=
  if w < 0 then .error "Line::with_capacity: Vec::with_capacity(capacity as usize)" else .ok 0
/-- `if index >= len { resize(index as usize + 1) }; chars[index as usize] = ch` -/
def lineSetChar (n : Nat) (i : Int) : RRes Nat :=
  let n1 : Nat := if i ≥ n then i.toNat + 1 else n
  if i < 0 ∨ i ≥ n1 then .error "Line::set_char: chars[index as usize]" else .ok n1
/-- `if index > len { resize(index as usize) }; chars.insert(index as usize, ch)` -/
def lineInsertChar (n : Nat) (i : Int) : RRes Nat :=
  let n1 : Nat := if i > n then i.toNat else n
  lenInsert n1 i "Line::insert_char: chars.insert(index as usize)"

/-! ## `src/layer.rs` -/
/-- `Layer::get_char` on ragged rows; the value says whether a stored cell was read -/
def layerGetChar (t : Tab) (x y : Int) : RRes Bool :=
  if x < 0 ∨ y < 0 ∨ x ≥ t.lw ∨ y ≥ t.lh then .ok false
  else if y < t.rows.length then
    andThen (vecIndex t.rows y "Layer::get_char: lines[y as usize]") fun n =>
    if x < n then
      (if x < 0 then .error "Layer::get_char: chars[pos.x as usize]" else .ok true)
    else .ok false
  else .ok false

def layerSetChar (t : Tab) (x y : Int) : RRes Tab :=
  if x < 0 ∨ y < 0 ∨ x ≥ t.lw ∨ y ≥ t.lh then .ok t else
  andThen (if y ≥ t.rows.length then
      andThen (lineCreate t.lw) fun l => vecResize t.rows (y + 1) l "Layer::set_char: lines.resize(pos.y as usize + 1)"
    else .ok t.rows) fun rows =>
  andThen (vecIndex rows y "Layer::set_char: lines[pos.y as usize]") fun n =>
  andThen (lineSetChar n x) fun n' =>
  -- a write inside the row leaves every length as it is (the common case; spares the model a list update)
  .ok (if n' = n then { t with rows := rows } else { t with rows := rows.set y.toNat n' })

def layerRemoveLine (t : Tab) (i : Int) : RRes Tab :=
  if i < 0 ∨ i ≥ t.rows.length then .error "Layer::remove_line: assert!(line out of range)" else
  andThen (vecRemove t.rows i "Layer::remove_line: lines.remove(index as usize)") fun rows =>
  .ok { t with rows := rows }

def layerInsertLine (t : Tab) (i : Int) (l : Nat) : RRes Tab :=
  if i < 0 then .error "Layer::insert_line: assert!(index >= 0)" else
  andThen (if i > t.rows.length then
      andThen (lineCreate t.lw) fun c => vecResize t.rows i c "Layer::insert_line: lines.resize(index as usize)"
    else .ok t.rows) fun rows =>
  andThen (vecInsert rows i l "Layer::insert_line: lines.insert(index as usize)") fun rows =>
  .ok { t with rows := rows }

def layerClear (t : Tab) : Tab := { t with rows := [] }

/-! ## editable columns (`src/buffers.rs`) -/
def firstCol (s : Scr) : Int := match s.mlr with | some (l, _) => l | none => 0
def lastCol (s : Scr) : Int := match s.mlr with | some (_, r) => r | none => satSub s.bw 1

/-! ## `Buffer::scroll_*` (`src/parsers/mod.rs`) -/
def scrollUp (s : Scr) (t : Tab) : RRes Tab :=
  let sl := s.firstEditable
  let el := s.lastEditable
  forRange (firstCol s) (lastCol s + 1) (fun x t =>
    andThen (forRange sl el (fun y t =>
      andThen (layerGetChar t x (y + 1)) fun _ => layerSetChar t x y) t) fun t =>
    layerSetChar t x el) t

def scrollDown (s : Scr) (t : Tab) : RRes Tab :=
  let sl := s.firstEditable
  let el := s.lastEditable
  forRange (firstCol s) (lastCol s + 1) (fun x t =>
    andThen (forRangeRev (sl + 1) (el + 1) (fun y t =>
      andThen (layerGetChar t x (y - 1)) fun _ => layerSetChar t x y) t) fun t =>
    layerSetChar t x sl) t

/-- rows that are not allocated or too short are skipped; `start_column as usize` of a negative value is huge, so
    `len > start_column` is false -/
def scrollLeft (s : Scr) (t : Tab) : RRes Tab :=
  let sc := firstCol s
  let ec := lastCol s + 1
  forRange s.firstEditable (s.lastEditable + 1) (fun i t =>
    match vecGet? t.rows i with
    | none => .ok t
    | some n =>
      if sc ≥ 0 ∧ (n : Int) > sc then
        andThen (lineInsertChar n ec) fun n1 =>
        andThen (lenRemove n1 sc "Buffer::scroll_left: chars.remove(start_column)") fun n2 =>
        .ok { t with rows := t.rows.set i.toNat n2 }
      else .ok t) t

/-- `end_column = last_editable_column as usize`; `end_column + 1` overflows `usize` for `-1` -/
def scrollRight (s : Scr) (t : Tab) : RRes Tab :=
  let sc := firstCol s
  let ec := lastCol s
  forRange s.firstEditable (s.lastEditable + 1) (fun i t =>
    match vecGet? t.rows i with
    | none => .ok t
    | some n =>
      if sc ≥ 0 ∧ (n : Int) > sc then
        andThen (lenInsert n sc "Buffer::scroll_right: chars.insert(start_column)") fun n1 =>
        if ec = -1 then .error "Buffer::scroll_right: end_column + 1 (usize overflow)"
        else if ec ≥ 0 ∧ ec + 1 < (n1 : Int) then
          andThen (lenRemove n1 (ec + 1) "Buffer::scroll_right: chars.remove(end_column + 1)") fun n2 =>
          .ok { t with rows := t.rows.set i.toNat n2 }
        else .ok { t with rows := t.rows.set i.toNat n1 }
      else .ok t) t

/-! ## clearing -/
/-- `Buffer::clear_screen`: `layer.clear()` (the size of the layer is kept) -/
def clearScreenT (t : Tab) : Tab := layerClear t

/-- `for y in y0..y1 { for x in x0..x1 { layer.set_char((x, y)) } }` -/
def setRect (x0 x1 y0 y1 : Int) (t : Tab) : RRes Tab :=
  forRange y0 y1 (fun y t => forRange x0 x1 (fun x t => layerSetChar t x y) t) t

def clearBufferDown (s : Scr) (c : Car) (t : Tab) : RRes Tab := setRect 0 s.bw c.y s.lastVisible t
def clearBufferUp (s : Scr) (c : Car) (t : Tab) : RRes Tab := setRect 0 s.bw s.fv c.y t
def clearLine (s : Scr) (c : Car) (t : Tab) : RRes Tab := forRange 0 s.bw (fun x t => layerSetChar t x c.y) t
def clearLineEnd (s : Scr) (c : Car) (t : Tab) : RRes Tab := forRange c.x s.bw (fun x t => layerSetChar t x c.y) t
def clearLineStart (_s : Scr) (c : Car) (t : Tab) : RRes Tab := forRange 0 c.x (fun x t => layerSetChar t x c.y) t

/-! ## line insertion / deletion -/
/-- `Buffer::remove_terminal_line`; the re-inserted row goes to the *raw* bottom margin (not offset by the scrollback) -/
def removeTerminalLine (s : Scr) (line : Int) (t : Tab) : RRes Tab :=
  if line ≥ t.rows.length then .ok t else
  andThen (layerRemoveLine t line) fun t =>
  match s.mtb with
  | some (_, e) => andThen (lineWithCapacity t.lw) fun l => layerInsertLine t e l
  | none => .ok t

def insertTerminalLine (s : Scr) (line : Int) (t : Tab) : RRes Tab :=
  andThen (match s.mtb with
    | some (_, e) =>
      if e < t.rows.length then
        andThen (vecRemove t.rows e "Buffer::insert_terminal_line: lines.remove(end as usize)") fun rows =>
        .ok { t with rows := rows }
      else .ok t
    | none => .ok t) fun t =>
  andThen (lineWithCapacity t.lw) fun l => layerInsertLine t line l

/-! ## caret primitives -/
def checkScrollDownT (s : Scr) (c : Car) (force : Bool) (t : Tab) : RRes Tab :=
  if (s.needsScrolling = true ∨ force = true) ∧ c.y > s.lastEditable then scrollUp s t else .ok t

def checkScrollUpT (s : Scr) (c : Car) (force : Bool) (t : Tab) : RRes Tab :=
  if (s.needsScrolling = true ∨ force = true) ∧ c.y < s.firstEditable then
    times (min (satSub s.firstEditable c.y) s.th) (scrollDown s) t
  else .ok t

/-- `Caret::lf`: rows are appended (empty, `Line::with_capacity(terminal width)`) until the new cursor row exists -/
def lfT (s : Scr) (c : Car) (t : Tab) : RRes Tab :=
  let c1 : Car := { c with x := 0, y := c.y + 1 }
  andThen (if c1.y ≥ t.rows.length then
      andThen (lineWithCapacity s.tw) fun l =>
      .ok { t with rows := t.rows ++ List.replicate (c1.y + 1 - t.rows.length).toNat l }
    else .ok t) fun t =>
  let s1 : Scr := { s with bh := max s.bh (c1.y + 1) }
  if c.y > s.lastEditable then .ok t      -- was_ooe: only `limit_caret_pos`
  else checkScrollDownT s1 c1 false t

def ffT (t : Tab) : Tab := layerClear t
def bsT (c : Car) (t : Tab) : RRes Tab := layerSetChar t (max 0 (c.x - 1)) c.y

/-- `Caret::del`: `lines.get_mut(y as usize)`, `if (x as usize) < len { chars.remove(x as usize) }` -/
def delT (c : Car) (t : Tab) : RRes Tab :=
  match vecGet? t.rows c.y with
  | none => .ok t
  | some n =>
    if c.x ≥ 0 ∧ c.x < (n : Int) then
      andThen (lenRemove n c.x "Caret::del: chars.remove(i)") fun n' => .ok { t with rows := t.rows.set c.y.toNat n' }
    else .ok t

def insT (c : Car) (t : Tab) : RRes Tab :=
  match vecGet? t.rows c.y with
  | none => .ok t
  | some n =>
    if c.x ≥ 0 ∧ c.x < (n : Int) then
      andThen (lenInsert n c.x "Caret::ins: chars.insert(i)") fun n' => .ok { t with rows := t.rows.set c.y.toNat n' }
    else .ok t

/-- `Caret::erase_charcter(number)` -/
def echT (s : Scr) (c : Car) (number : Int) (t : Tab) : RRes Tab :=
  let number := min (s.tw - c.x) number
  if number ≤ 0 then .ok t else
  match vecGet? t.rows c.y with
  | none => .ok t
  | some n =>
    andThen (loopFrom (fun i n => lineSetChar n i) number.toNat c.x n) fun n' =>
    .ok { t with rows := t.rows.set c.y.toNat n' }

/-- `Buffer::print_char` on a terminal buffer (content part; the geometry part is `Term.printChar`) -/
def printCharT (s : Scr) (c : Car) (t : Tab) : RRes Tab :=
  andThen (if c.ins = true then
      -- `if lines.len() < y as usize + 1 { lines.resize(y as usize + 1, Line::with_capacity(width)) }`
      if c.y < 0 then .error "Buffer::print_char insert: caret.pos.y as usize + 1"
      else
        andThen (if (t.rows.length : Int) < c.y + 1 then
            andThen (lineWithCapacity t.lw) fun l =>
            vecResize t.rows (c.y + 1) l "Buffer::print_char insert: lines.resize"
          else .ok t.rows) fun rows =>
        andThen (vecIndex rows c.y "Buffer::print_char insert: lines[y as usize]") fun n =>
        andThen (lineInsertChar n c.x) fun n' =>
        .ok { t with rows := rows.set c.y.toNat n' }
    else .ok t) fun t =>
  let t : Tab := if c.y + 1 > t.lh then { t with lh := c.y + 1 } else t
  let s1 : Scr := { s with bh := max s.bh (c.y + 1) }
  andThen (layerSetChar t c.x c.y) fun t =>
  let c1 : Car := { c with x := c.x + 1 }
  if c1.x ≥ s1.tw then
    if s1.autowrap = true then lfT s1 c1 t else .ok t
  else .ok t

/-- `print_char` n times (REP): geometry by `Term.printChar`, the same guard as `Term.printN` -/
def printNT : Nat → Scr → Car → Tab → RRes Tab
  | 0, _, _, t => .ok t
  | n+1, s, c, t =>
    if ¬ RangeOk s c then .ok t else    -- the geometry model stops here with `overflow`
    match printChar s c with
    | .ok (s', c') => andThen (printCharT s c t) fun t' => printNT n s' c' t'
    | .error _ => .ok t

/-! ## rectangles (`ansi_commands.rs`) -/
/-- `get_rect_area(buf, offset)`; `buf.get_line_count()` is the number of rows of layer 0 -/
def rectArea (s : Scr) (t : Tab) (nums : List Int) (off : Nat) : RRes (Int × Int × Int × Int) :=
  let rowsMax : Int := max (t.rows.length : Int) s.th
  andThen (vecIndex nums off "get_rect_area: parsed_numbers[offset]") fun a =>
  andThen (vecIndex nums (off + 1 : Nat) "get_rect_area: parsed_numbers[offset + 1]") fun b =>
  andThen (vecIndex nums (off + 2 : Nat) "get_rect_area: parsed_numbers[offset + 2]") fun c =>
  andThen (vecIndex nums (off + 3 : Nat) "get_rect_area: parsed_numbers[offset + 3]") fun d =>
  .ok (min (max a 1) rowsMax - 1, min (max b 1) s.tw - 1, min (max c 1) rowsMax - 1, min (max d 1) s.tw - 1)

/-- `for y in top..=bottom { for x in left..=right { layers[0].set_char((x, y)) } }` -/
def fillArea (s : Scr) (t : Tab) (nums : List Int) (off : Nat) : RRes Tab :=
  andThen (rectArea s t nums off) fun (top, left, bottom, right) =>
  setRect left (right + 1) top (bottom + 1) t

/-! ## PETSCII `update_shift_mode`: repaint of the whole buffer -/
def repaintAll (s : Scr) (t : Tab) : RRes Tab := setRect 0 s.bw 0 s.bh t

/-! ## Viewdata / Mode 7 `fill_to_eol`
The loop runs over `x in sx..width` and stops at the first cell whose attribute differs from the one at the start;
how many cells it visits depends on cell *contents* — `cnt` is that number (an oracle argument, universally quantified
in the theorems; the first cell always matches itself, so `cnt >= 1` whenever the range is not empty). -/
def fillToEol (s : Scr) (c : Car) (cnt : Nat) (t : Tab) : RRes Tab :=
  if c.x ≤ 0 then .ok t else
  forRange c.x (min s.tw (c.x + cnt)) (fun x t => layerSetChar t x c.y) t

def initTab (w h : Int) : Tab := { rows := List.replicate h.toNat w.toNat, lw := w, lh := h }

end IcyVerif.Rows
