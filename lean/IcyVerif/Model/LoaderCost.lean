import IcyVerif.Model.Loaders
import IcyVerif.Gen.LoaderLoops
/-! # Cost-instrumented loader models (C03: "work per input is bounded … independent of declared image sizes")

`Model/Loaders.lean` (C02) follows every binary loader closely enough to decide panics and the geometry of the loaded
buffer.  Here every loop of those models is run again WITH COUNTERS, in the cost monad `RC`:

* `work`  — loop iterations: one `tick` at the head of every iteration of every loop of the loader (outer `while` /
            `loop` / `for` and the inner run loops).  Each iteration does a bounded amount of work besides the calls
            that are counted on their own (`rows`, `extra`).
* `rows`  — rows `Layer::set_char` adds to `lines` (`lines.resize(y + 1, Line::create(width))`): every one of them is a
            freshly allocated row of `layer width` cells, so `rows * layer width` is the number of cells allocated.
* `extra` — iterations of loops in callees that are proportional to accumulated state (the palette search of
            `Palette::insert_color_rgb` in the Tundra loader: worst case = colours inserted so far).

The counters are kept on EVERY outcome (`ok`, `err`, `panic`): a loader that fails after two billion iterations has run
two billion iterations.  The functions are copies of the C02 models with `tick` / `setCharC` added; the `_res` theorems of
`Lemmas/LoaderCost*.lean` prove that forgetting the counters gives back the C02 model exactly (so everything C02's
correspondence run ties down is tied down here too). -/
namespace IcyVerif.LoaderCost
open IcyVerif.Bytes IcyVerif.Loaders IcyVerif.Gen.Loaders
open IcyVerif.Gen

structure RC (α : Type) where
  res : Res α
  work : Nat
  rows : Nat
  extra : Nat

namespace RC
@[inline] def bind {α β : Type} (x : RC α) (f : α → RC β) : RC β :=
  match x.res with
  | .ok a => let y := f a; ⟨y.res, x.work + y.work, x.rows + y.rows, x.extra + y.extra⟩
  | .err => ⟨.err, x.work, x.rows, x.extra⟩
  | .panic s => ⟨.panic s, x.work, x.rows, x.extra⟩

instance : Monad RC where
  pure a := ⟨.ok a, 0, 0, 0⟩
  bind := RC.bind
end RC

/-- an operation of `Model/Bytes` / `Model/Loaders` that is not a loop -/
@[inline] def lift {α : Type} (r : Res α) : RC α := ⟨r, 0, 0, 0⟩
/-- head of a loop iteration -/
@[inline] def tick : RC Unit := ⟨.ok (), 1, 0, 0⟩
/-- `n` iterations inside a callee -/
@[inline] def spend (n : Nat) : RC Unit := ⟨.ok (), 0, 0, n⟩
/-- the loader's own error return -/
@[inline] def fail {α : Type} : RC α := ⟨.err, 0, 0, 0⟩

/-- `Layer::set_char`: the rows it adds are allocated (each `layer width` cells wide) -/
@[inline] def setCharC (g : Geo) (x y : Int) : RC Geo :=
  let g' := g.setChar x y
  ⟨.ok g', 0, g'.lines - g.lines, 0⟩

-- ================================================================================================ XBin
def xbOffRunC (d : Bytes) (bw : Int) : Nat → Nat → Pos → Geo → RC (Nat × Pos × Geo)
  | 0, o, p, g => pure (o, p, g)
  | n + 1, o, p, g => do
    tick
    if o + 2 > d.size then pure (o, p, g) else do
      let _ ← lift (rd sXbC d o)
      let _ ← lift (rd sXbC d (o + 1))
      let g' ← setCharC g p.x p.y
      let p' ← lift (advance sXbAdv bw p)
      xbOffRunC d bw n (o + 2) p' g'

def xbOneRunC (d : Bytes) (bw : Int) : Nat → Nat → Pos → Geo → RC (Nat × Pos × Geo)
  | 0, o, p, g => pure (o, p, g)
  | n + 1, o, p, g => do
    tick
    if o + 1 > d.size then pure (o, p, g) else do
      let _ ← lift (rd sXbC d o)
      let g' ← setCharC g p.x p.y
      let p' ← lift (advance sXbAdv bw p)
      xbOneRunC d bw n (o + 1) p' g'

def xbFullRunC (bw : Int) : Nat → Pos → Geo → RC (Pos × Geo)
  | 0, p, g => pure (p, g)
  | n + 1, p, g => do
    tick
    let g' ← setCharC g p.x p.y
    let p' ← lift (advance sXbAdv bw p)
    xbFullRunC bw n p' g'

def xbCompressedC (d : Bytes) (bw bh : Int) : Nat → Nat → Pos → Geo → RC Geo
  | fuel, o, p, g =>
    if ¬ (o < d.size ∧ p.y < bh) then pure g else
    match fuel with
    | 0 => lift (.panic sFuel)
    | fuel + 1 => do
      tick
      let c ← lift (rd sXbC d o)
      let o := o + 1
      let typ := c &&& Xb.readTypeMask
      let cnt := (c &&& Xb.readCountMask) + 1
      if typ = Xb.compOff then do
        let r ← xbOffRunC d bw cnt o p g
        xbCompressedC d bw bh fuel r.1 r.2.1 r.2.2
      else if typ = Xb.compChar ∨ typ = Xb.compAttr then
        if o ≥ d.size then pure g else do
          let _ ← lift (rd sXbC d o)
          let r ← xbOneRunC d bw cnt (o + 1) p g
          xbCompressedC d bw bh fuel r.1 r.2.1 r.2.2
      else
        if o ≥ d.size then pure g else do
          let _ ← lift (rd sXbC d o)
          let o := o + 1
          if o + 1 > d.size then pure g else do
            let _ ← lift (rd sXbC d o)
            let r ← xbFullRunC bw cnt p g
            xbCompressedC d bw bh fuel (o + 1) r.1 r.2

def xbUncompressedC (d : Bytes) (bw bh : Int) : Nat → Nat → Pos → Geo → RC Geo
  | fuel, o, p, g =>
    if ¬ (o < d.size ∧ p.y < bh) then pure g
    else if o + 1 ≥ d.size then pure g
    else
    match fuel with
    | 0 => lift (.panic sFuel)
    | fuel + 1 => do
      tick
      let _ ← lift (rd sXbU d o)
      let _ ← lift (rd sXbU d (o + 1))
      let g' ← setCharC g p.x p.y
      let p' ← lift (advance sXbAdv bw p)
      xbUncompressedC d bw bh fuel (o + 2) p' g'

/-- the palette block is copied (48 bytes), the font block(s) are copied glyph by glyph: bytes that are IN the file
    (the `FileTooShort` guards stand before the copies) -/
def loadXbC (d : Bytes) (sauce : Option (Nat × Nat)) : RC Geo :=
  let g := initGeo xbInitW xbInitH xbLinesCleared sauce
  if d.size < Xb.headerSize then fail else do
    lift (slice sXb d 0 4)
    if !matchAt d 0 xbId then fail else do
      let w ← lift (rdU16 sXb d 5)
      if w < xbMinWidth ∨ w > xbMaxWidth then fail else do
        let h ← lift (rdU16 sXb d 7)
        let fs ← lift (rd sXb d 9)
        let fs := if fs = 0 then xbDefaultFontSize else fs
        if fs > xbMaxFontSize then fail else do
          let flags ← lift (rd sXb d 10)
          -- 512-character mode without a font block is rejected (C05 repair; mirrors `Loaders.loadXb`)
          if hasFlag flags Xb.flag512 ∧ ¬ hasFlag flags Xb.flagFont then fail else do
          let o ← lift (xbPalette d Xb.headerSize (hasFlag flags Xb.flagPalette))
          let o2 ← lift (xbFonts d o fs (hasFlag flags Xb.flagFont) (hasFlag flags Xb.flag512))
          spend (o2 - Xb.headerSize)
          lift (slice sXb d o2 d.size)
          let data := d.extract o2 d.size
          let g : Geo := { g with bw := w, bh := h, lw := w, lh := h }
          let g ← if hasFlag flags Xb.flagCompress then xbCompressedC data w h (data.size + 1) 0 ⟨0, 0⟩ g
                   else xbUncompressedC data w h (data.size + 1) 0 ⟨0, 0⟩ g
          pure g.crop

-- ================================================================================================ BIN
def binRowC (d : Bytes) : Nat → Nat → Pos → Geo → RC (Option Geo × Nat × Pos × Geo)
  | 0, o, p, g => pure (none, o, p, g)
  | n + 1, o, p, g => do
    tick
    if o ≥ d.size then pure (some { g with bh := g.lh }, o, p, g)
    else if o + 1 ≥ d.size then pure (some { g with bh := g.lh }, o, p, g)
    else do
      let lh ← lift (chk32 sBin (p.y + 1))
      let g : Geo := { g with lh := lh }
      let _ ← lift (rd sBin d (o + 1))
      let _ ← lift (rd sBin d o)
      let g' ← setCharC g p.x p.y
      let x ← lift (chk32 sBin (p.x + 1))
      binRowC d n (o + 2) ⟨x, p.y⟩ g'

def binLoopC (d : Bytes) : Nat → Nat → Pos → Geo → RC Geo
  | fuel, o, p, g => do
    tick
    let r ← binRowC d g.bw.toNat o p g
    match r.1 with
    | some res => pure res
    | none =>
      match fuel with
      | 0 => lift (.panic sFuel)
      | fuel + 1 => do
        let y ← lift (chk32 sBin (r.2.2.1.y + 1))
        binLoopC d fuel r.2.1 ⟨0, y⟩ r.2.2.2

def loadBinC (d : Bytes) (sauce : Option (Nat × Nat)) : RC Geo :=
  binLoopC d (d.size + 1) 0 ⟨0, 0⟩ (initGeo binInitW binInitH binLinesCleared sauce)

-- ================================================================================================ ADF
def adfRowC (d : Bytes) : Nat → Nat → Pos → Geo → RC (Option Geo × Nat × Pos × Geo)
  | 0, o, p, g => pure (none, o, p, g)
  | n + 1, o, p, g => do
    tick
    if o + 2 > d.size then pure (some g.crop, o, p, g)
    else do
      let lh ← lift (chk32 sAdf (p.y + 1))
      let g : Geo := { g with lh := lh }
      let _ ← lift (rd sAdf d (o + 1))
      let _ ← lift (rd sAdf d o)
      let g' ← setCharC g p.x p.y
      let x ← lift (chk32 sAdf (p.x + 1))
      adfRowC d n (o + 2) ⟨x, p.y⟩ g'

def adfLoopC (d : Bytes) : Nat → Nat → Pos → Geo → RC Geo
  | fuel, o, p, g => do
    tick
    let r ← adfRowC d g.bw.toNat o p g
    match r.1 with
    | some res => pure res
    | none =>
      match fuel with
      | 0 => lift (.panic sFuel)
      | fuel + 1 => do
        let y ← lift (chk32 sAdf (r.2.2.1.y + 1))
        adfLoopC d fuel r.2.1 ⟨0, y⟩ r.2.2.2

/-- the palette (192 bytes) and the font (4096 bytes) are copied from bytes that are in the file (`FileTooShort` guard) -/
def loadAdfC (d : Bytes) (sauce : Option (Nat × Nat)) : RC Geo :=
  let g := initGeo 80 25 adfLinesCleared sauce
  let g : Geo := { g with bw := adfWidth }
  if d.size < adfHeaderLength then fail else do
    let v ← lift (rd sAdf d 0)
    if v ≠ adfVersion then fail else do
      let o := 1
      lift (slice sAdf d o (o + adfPaletteSize))
      let o := o + adfPaletteSize
      lift (slice sAdf d o (o + adfFontSize))
      let o := o + adfFontSize
      spend (adfPaletteSize + adfFontSize)
      adfLoopC d (d.size + 1) o ⟨0, 0⟩ g

-- ================================================================================================ IDF
def idfRunC (x1 x2 : Int) : Nat → Pos → Geo → RC (Pos × Geo)
  | 0, p, g => pure (p, g)
  | n + 1, p, g => do
    tick
    if p.y > 65535 then fail else do
      let h ← lift (chk32 sIdf (p.y + 1))
      let g : Geo := { g with lh := h, bh := h }
      let g' ← setCharC g p.x p.y
      let p' ← lift (idfAdvance x1 x2 p)
      idfRunC x1 x2 n p' g'

def idfLoopC (d : Bytes) (dataSize : Nat) (x1 x2 : Int) : Nat → Nat → Pos → Geo → RC (Nat × Geo)
  | fuel, o, p, g =>
    if ¬ (o + 1 < dataSize) then pure (o, g) else
    match fuel with
    | 0 => lift (.panic sFuel)
    | fuel + 1 => do
      tick
      let ch ← lift (rd sIdf d o)
      let attr ← lift (rd sIdf d (o + 1))
      let o := o + 2
      if ch = 1 ∧ attr = 0 then do
        let rle ← lift (rdU16 sIdf d o)
        if o + 3 ≥ dataSize then pure (o, g) else do
          let o := o + 2
          let _ ← lift (rd sIdf d o)
          let _ ← lift (rd sIdf d (o + 1))
          let r ← idfRunC x1 x2 rle p g
          idfLoopC d dataSize x1 x2 fuel (o + 2) r.1 r.2
      else do
        let r ← idfRunC x1 x2 1 p g
        idfLoopC d dataSize x1 x2 fuel o r.1 r.2

/-- the font (4096 bytes) and the palette (48 bytes) behind the data are copied from bytes that are in the file -/
def loadIdfC (d : Bytes) (sauce : Option (Nat × Nat)) : RC Geo :=
  let g := initGeo 80 25 idfLinesCleared (if idfResizeToSauce then sauce else none)
  if d.size < idfHeaderSize + idfFontSize + idfPaletteSize then fail else do
    lift (slice sIdf d 0 4)
    if !(matchAt d 0 idfV13 || matchAt d 0 idfV14) then fail else do
      let x1 ← lift (rdU16 sIdf d 4)
      let y1 ← lift (rdU16 sIdf d 6)
      let x2 ← lift (rdU16 sIdf d 8)
      let o := 12
      if x2 < x1 then fail else do
        let w ← lift (chk32 sIdf ((x2 : Int) - x1 + 1))
        let g : Geo := { g with bw := w }
        let ds ← lift (usub sIdf d.size idfFontSize)
        let ds ← lift (usub sIdf ds idfPaletteSize)
        let r ← idfLoopC d ds x1 x2 (d.size + 1) o ⟨x1, y1⟩ g
        let o := r.1
        lift (slice sIdf d o (o + idfFontSize))
        let o := o + idfFontSize
        lift (slice sIdf d o (o + idfPaletteSize))
        spend (idfFontSize + idfPaletteSize)
        pure r.2

-- ================================================================================================ Tundra
/-- a colour record: `Palette::insert_color_rgb` searches the palette built so far (`pal` = an upper bound of its length:
    1 + colour records seen); worst case `pal` comparisons, then one more colour -/
def tndColorC (d : Bytes) (o : Nat) (has : Bool) (pal : Nat) : RC (Nat × Nat) :=
  if !has then pure (o, pal)
  else if o + 4 > d.size then fail
  else do
    let _ ← lift (rd sTnd d (o + 1))
    let _ ← lift (rd sTnd d (o + 2))
    let _ ← lift (rd sTnd d (o + 3))
    spend pal
    pure (o + 4, pal + 1)

/-- the character and colour records behind a command byte 2..=6: `(new offset, new palette bound)` -/
def tndArgsC (d : Bytes) (o cmd pal : Nat) : RC (Nat × Nat) :=
  if cmd > tndCmdLo ∧ cmd ≤ tndCmdHi then
    if o ≥ d.size then fail else do
      let _ ← lift (rd sTnd d o)
      let op ← tndColorC d (o + 1) (cmd &&& tndColorFg != 0) pal
      tndColorC d op.1 (cmd &&& tndColorBg != 0) op.2
  else pure (o, pal)

def tndLoopC (d : Bytes) (bw : Int) : Nat → Nat → Pos → Geo → Nat → RC Geo
  | fuel, o, p, g, pal =>
    if ¬ (o < d.size) then pure { g with bw := g.lw, bh := g.lh } else
    match fuel with
    | 0 => lift (.panic sFuel)
    | fuel + 1 => do
      tick
      let cmd ← lift (rd sTnd d o)
      let o := o + 1
      if cmd = tndPosition then
        if o + 8 > d.size then fail else do
          let y ← lift (tndU32 d o)
          if y ≥ 65535 then fail else do
            let x ← lift (tndU32 d (o + 4))
            if x ≥ bw then fail else
              tndLoopC d bw fuel (o + 8) ⟨x, y⟩ g pal
      else do
        let op ← tndArgsC d o cmd pal
        let h ← lift (chk32 sTnd (p.y + 1))
        let g : Geo := { g with lh := h }
        let g' ← setCharC g p.x p.y
        let p' ← lift (advance sTndAdv bw p)
        tndLoopC d bw fuel op.1 p' g' op.2

def loadTndC (d : Bytes) (sauce : Option (Nat × Nat)) : RC Geo :=
  let g := tndGeo sauce          -- start buffer incl. the wide-SAUCE rule of the C05 repair (mirrors `Loaders.loadTnd`)
  if d.size < 1 + tndHeader.length then fail else do
    lift (slice sTnd d 1 (tndHeader.length + 1))
    if !matchAt d 1 tndHeader then fail else
      tndLoopC d g.bw (d.size + 1) (1 + tndHeader.length) ⟨0, 0⟩ g 1

-- ================================================================================================ IcyDraw LAYER chunks
/-- `Layer::set_char` on the layer being decoded -/
@[inline] def laySetCharC (l : Lay) (x y : Int) : RC Lay :=
  let l' := l.setChar x y
  ⟨.ok l', 0, l'.lines - l.lines, 0⟩

/-- `for x in 0..width` of one row -/
def icyRowC (d : Bytes) (y : Int) : Nat → Int → Nat → Lay → RC (Nat × Lay)
  | 0, _, o, l => pure (o, l)
  | n + 1, x, o, l => do
    tick
    if o + 2 > d.size then fail else do
      let attr ← lift (rdU16s sIcy d o)
      let o := o + 2
      if attr = attrInvisibleShort then pure (o, l)
      else
        let short := attr &&& attrShortData != 0
        let attr := if short then attr - attrShortData else attr
        if attr = attrInvisible then icyRowC d y n (x + 1) o l
        else do
          let o ← lift (icyCell d o short)
          let l' ← laySetCharC l x y
          icyRowC d y n (x + 1) o l'

/-- `for y in y0..height`: rows until the data runs out — or, since the repair, until the layer turns out to have no
    columns (`width <= 0`: such rows read nothing, the loop only counted up to the declared height).  Whether the source has
    that guard is the regenerated flag `Gen.LoaderLoops.icyNoColumnsGuard`; the budget theorems are proved FROM it. -/
def icyRowsC (d : Bytes) : Nat → Int → Nat → Lay → RC Lay
  | 0, _, _, l => pure l
  | n + 1, y, o, l => do
    tick
    if o ≥ d.size ∨ (LoaderLoops.icyNoColumnsGuard = true ∧ l.w ≤ 0) then pure l else do
      let r ← icyRowC d y l.w.toNat 0 o l
      icyRowsC d n (y + 1) r.1 r.2

/-- a new `LAYER_n` chunk: the title (`size` bytes) and an image layer's picture data are copied from the chunk -/
def icyNewLayerC (d : Bytes) (st : IcySt) : RC IcySt := do
  let size ← lift (icyString d 0)
  spend size
  let o := size
  if d.size < o + icyLayerHeaderLen then fail else do
    let role ← lift (rd sIcy d o)
    let o := o + 1 + 4
    let mode ← lift (rd sIcy d o)
    if mode > 2 then fail else do
      let o := o + 1
      let _ ← lift (rd sIcy d o)
      let _ ← lift (rd sIcy d (o + 1))
      let _ ← lift (rd sIcy d (o + 2))
      let _ ← lift (rd sIcy d (o + 3))
      let o := o + 4
      let flags ← lift (rdU32 sIcy d o)
      let o := o + 4
      let _ ← lift (rd sIcy d o)
      let o := o + 1
      let ox ← lift (rdU32 sIcy d o)
      let oy ← lift (rdU32 sIcy d (o + 4))
      let w ← lift (rdU32 sIcy d (o + 8))
      let h ← lift (rdU32 sIcy d (o + 12))
      let o := o + 16
      let _ ← lift (rdU16s sIcy d o)
      let o := o + 2
      let length ← lift (rdU64 sIcy d o)
      let o := o + 8
      let writable := !(flags &&& layerEditLock == layerEditLock) && (flags &&& layerVisible == layerVisible)
      if role = 1 then
        if d.size < o + icyImageHeaderLen then fail else do
          let _ ← lift (rdU32 sIcy d o)
          let _ ← lift (rdU32 sIcy d (o + 4))
          let _ ← lift (rdU32 sIcy d (o + 8))
          let _ ← lift (rdU32 sIcy d (o + 12))
          let o := o + 16
          lift (slice sIcy d o d.size)
          spend (d.size - o)
          pure { st with layers := st.layers.push ⟨1, asI32 w, asI32 h, 0, asI32 ox, asI32 oy, d.size - o, writable⟩ }
      else do
        let rest ← lift (usub sIcy d.size o)
        if rest < length then fail else do
          let l : Lay := ⟨0, asI32 w, asI32 h, 0, asI32 ox, asI32 oy, 0, true⟩
          let l ← icyRowsC d l.h.toNat 0 o l
          pure { st with layers := st.layers.push { l with writable := writable } }

/-- a `LAYER_n~k` chunk for layer number `n` (an image layer appends the chunk to its picture data) -/
def icyContinueC (d : Bytes) (st : IcySt) (n : Nat) : RC IcySt :=
  if h : n < st.layers.size then
    let l := st.layers[n]
    if l.role = 0 then do
      let l' ← icyRowsC d (l.h - (l.lines : Int)).toNat (l.lines : Int) 0 l
      pure { st with layers := st.layers.set n l' }
    else do
      spend d.size
      pure { st with layers := st.layers.set n { l with pic := l.pic + d.size } }
  else fail

def icyChunkC (kw : String) (d : Bytes) (f : Foreign) (st : IcySt) : RC (Option IcySt) :=
  if kw == "END" then pure none
  else if kw == "ICED" then lift (icyChunk kw d f st)
  else if kw == "PALETTE" ∨ kw == "SAUCE" then lift (icyChunk kw d f st)
  else
    let cs := kw.toList
    if "FONT_".toList.isPrefixOf cs then lift (icyChunk kw d f st)
    else if !"LAYER_".toList.isPrefixOf cs then pure (some st)
    else
      match layerContinue (cs.length + 1) cs with
      | some ds =>
        (match parseUsize ds with
         | none => fail
         | some n => do let st' ← icyContinueC d st n; pure (some st'))
      | none => do let st' ← icyNewLayerC d st; pure (some st')

/-- the chunk loop (one iteration per zTXt chunk; fonts / palette / SAUCE payloads are costed by their own models) -/
def icyChunksC : List (String × Bytes × Foreign) → IcySt → RC IcySt
  | [], st => pure st
  | (kw, d, f) :: rest, st => do
    tick
    let r ← icyChunkC kw d f st
    match r with
    | none => pure st
    | some st' => icyChunksC rest st'

def loadIcyC (chunks : List (String × Bytes × Foreign)) : RC IcySt :=
  icyChunksC chunks ⟨80, 25, #[]⟩

-- ================================================================================================ TheDraw fonts
def tdfNameC (d : Bytes) (o : Nat) : Nat → Nat → RC Nat
  | 0, i => pure i
  | k + 1, i => do
    tick
    let b ← lift (rd sTdf d (o + i))
    if b = 0 then pure i else tdfNameC d o k (i + 1)

/-- the `loop` reading one glyph's data up to its 0 terminator; every iteration pushes one or two bytes to the glyph -/
def tdfGlyphDataC (d : Bytes) (color : Bool) : Nat → Nat → RC Unit
  | fuel, off =>
    if off ≥ d.size then fail else
    match fuel with
    | 0 => lift (.panic sFuel)
    | fuel + 1 => do
      tick
      let ch ← lift (rd sTdf d off)
      let off := off + 1
      if ch = 0 then pure ()
      else if color then
        if ch = 13 then tdfGlyphDataC d color fuel off
        else if off ≥ d.size then fail
        else do
          let _ ← lift (rd sTdf d off)
          tdfGlyphDataC d color fuel (off + 1)
      else tdfGlyphDataC d color fuel off

def tdfGlyphsC (d : Bytes) (o blockSize : Nat) (color : Bool) : List Nat → Nat → Option Nat → RC (Nat × Option Nat)
  | [], n, fh => pure (n, fh)
  | co :: rest, n, fh => do
    tick
    if co = 65535 then tdfGlyphsC d o blockSize color rest n fh
    else if co ≥ blockSize then fail
    else
      let off := co + o
      if off + 2 > d.size then fail else do
        let _ ← lift (rd sTdf d off)
        let h ← lift (rd sTdf d (off + 1))
        tdfGlyphDataC d color (d.size + 1) (off + 2)
        tdfGlyphsC d o blockSize color rest (n + 1) (match fh with | some v => some v | none => some h)

def tdfTableC (d : Bytes) : Nat → Nat → List Nat → RC (List Nat)
  | 0, _, acc => pure acc.reverse
  | k + 1, o, acc => do
    tick
    let v ← lift (rdU16 sTdf d o)
    tdfTableC d k (o + 2) (v :: acc)

def tdfFontsC (d : Bytes) : Nat → Nat → List TdfFont → RC (List TdfFont)
  | fuel, o, acc =>
    if ¬ (o < d.size) then pure acc.reverse else
    match fuel with
    | 0 => lift (.panic sFuel)
    | fuel + 1 => do
      tick
      let b ← lift (rd sTdf d o)
      if b = 0 then pure acc.reverse
      else if d.size < o + tdfRecordLen then fail
      else do
        let ind ← lift (rdU32 sTdf d o)
        if ind ≠ tdfFontIndicator then fail else do
          let o := o + 4
          let nameLen ← lift (rd sTdf d o)
          let o := o + 1
          if nameLen > tdfFontNameLen then fail else do
            let nl ← tdfNameC d o nameLen 0
            lift (slice sTdf d o (o + nl))
            let o := o + tdfFontNameLen + 4
            let ty ← lift (rd sTdf d o)
            if ty > 2 then fail else do
              let o := o + 1
              let spaces ← lift (rd sTdf d o)
              if spaces > tdfMaxLetterSpace then fail else do
                let o := o + 1
                let blockSize ← lift (rdU16 sTdf d o)
                let o := o + 2
                let table ← tdfTableC d tdfCharTableSize o []
                let o := o + 2 * tdfCharTableSize
                let r ← tdfGlyphsC d o blockSize (ty == 2) table 0 none
                tdfFontsC d fuel (o + blockSize) (⟨ty, spaces, r.1, r.2.getD 0⟩ :: acc)

def loadTdfC (d : Bytes) : RC (List TdfFont) :=
  if d.size < tdfHeaderSize then fail else do
    let b ← lift (rd sTdf d 0)
    if b ≠ tdfId.length + 1 then fail else do
      lift (slice sTdf d 1 19)
      if !matchAt d 1 tdfId then fail else do
        let o := tdfId.length + 1
        let m ← lift (rd sTdf d o)
        if m ≠ tdfCtrlZ then fail else
          tdfFontsC d (d.size + 1) (o + 1) []

-- ================================================================================================ dispatch
/-- `Buffer::from_bytes` for the binary art formats, with counters (the SAUCE probe of the dispatch has no loop) -/
def fromBytesC (d : Bytes) (ext : String) (dateOk : Bool) : RC Obs := do
  let r ← lift (dispatchLen d dateOk)
  let data := d.extract 0 r.1
  let m := loaderFor ext
  if m == "xbinary" then do let g ← loadXbC data r.2; pure (Obs.geo g)
  else if m == "bin" then do let g ← loadBinC data r.2; pure (Obs.geo g)
  else if m == "artworx" then do let g ← loadAdfC data r.2; pure (Obs.geo g)
  else if m == "ice_draw" then do let g ← loadIdfC data r.2; pure (Obs.geo g)
  else if m == "tundra" then do let g ← loadTndC data r.2; pure (Obs.geo g)
  else pure Obs.text

end IcyVerif.LoaderCost
