import IcyVerif.Model.Comp
import IcyVerif.Gen.CompFonts
/-! # The half-block classifier — model of `HalfBlock::from` (src/paint/half_block.rs)

`Buffer::make_solid_color(t, u)` asks `HalfBlock::from(self, u, Position::default())` which colour the upper and the
lower half of the cell `u` "mostly" show: it looks the glyph of `u.ch` up in the buffer's font table (slot =
`u`'s font page), counts the set bits of the first and of the second half of the glyph rows and compares each count
with a quarter of the cell area.  `Model/Comp.lean` takes that classifier as a parameter `hb` (every law of C13 holds
for every classifier); here it is transcribed, so that `makeSolid (halfBlockOf fonts)` is `make_solid_color` with
nothing left outside the model but the font bitmaps, which the translator regenerates from `data/fonts`
(`Gen/CompFonts.lean`). -/
namespace IcyVerif.Comp
open IcyVerif.Gen.Comp

/-- a `BitFont` as far as `HalfBlock::from` reads it: `size`, and `glyphs[char i].data` for `i < n` -/
structure BFont where
  w : Nat
  h : Nat
  /-- glyph codes `0..n-1` exist (`glyphs_from_u8_data` numbers the glyphs consecutively) -/
  n : Nat
  /-- `n * h` bytes, one per glyph row -/
  rows : List Nat
deriving Repr

/-- `font.get_glyph(ch)` → `glyph.data` -/
def BFont.glyph (f : BFont) (ch : Nat) : Option (List Nat) :=
  if ch < f.n then some ((f.rows.drop (ch * f.h)).take f.h) else none

/-- `u8::count_ones` -/
def popcount8 (b : Nat) : Nat :=
  b % 2 + b / 2 % 2 + b / 4 % 2 + b / 8 % 2 + b / 16 % 2 + b / 32 % 2 + b / 64 % 2 + b / 128 % 2

def sumOnes (l : List Nat) : Nat := l.foldl (fun a b => a + popcount8 b) 0

/-- the two loops of `HalfBlock::from`: `upper += data[i].count_ones()`, `lower += data[len/2 + i].count_ones()` for
    `i < len / 2` (with an odd number of rows the last row is not counted) -/
def halfOnes (data : List Nat) : Nat × Nat :=
  let half := data.length / 2
  (sumOnes (data.take half), sumOnes ((data.drop half).take half))

/-- `HalfBlock::from(buf, c, _)` → `(upper_block_color, lower_block_color)`; `fonts` = `buf.get_font` -/
def halfBlockOf (fonts : Nat → Option BFont) (c : Cell) : Nat × Nat :=
  match fonts c.attr.page with
  | none => (c.attr.bg, c.attr.bg)
  | some f =>
    match f.glyph c.ch with
    | none => (c.attr.bg, c.attr.bg)
    | some data =>
      let o := halfOnes data
      let thr := f.w * f.h / IcyVerif.Gen.CompFonts.halfThresholdDiv
      (if o.1 > thr then c.attr.fg else c.attr.bg, if o.2 > thr then c.attr.fg else c.attr.bg)

/-- `Buffer::make_solid_color` of a buffer with font table `fonts` -/
def makeSolidF (fonts : Nat → Option BFont) (t u : Cell) : Cell := makeSolid (halfBlockOf fonts) t u

/-- a built-in font by ANSI slot (`BitFont::from_ansi_font_page`), from the regenerated bitmaps -/
def ansiFont (slot : Nat) : Option BFont :=
  match IcyVerif.Gen.CompFonts.fonts.lookup slot with
  | some (w, h, n, rows) => some ⟨w, h, n, rows⟩
  | none => none

/-- a font table given as `(buffer slot, ANSI slot)` pairs -/
def fontTable (slots : List (Nat × Nat)) (page : Nat) : Option BFont :=
  match slots.lookup page with
  | some a => ansiFont a
  | none => none

end IcyVerif.Comp
