import IcyVerif.Gen.IgsPaint
/-! Executable model of the integer part of the IGS `DrawExecutor` (`src/parsers/igs/paint.rs`, as repaired):
`execute_command` with the argument validation of every command (argument counts regenerated from the source, the
poly-line / poly-fill `points * 2 + 1` rule, the pen / colour index guards), and the painting primitives `set_pixel`,
`get_pixel`, `fill_pixel`, `draw_line`, `fill_rect`, `draw_poly`, `draw_polyline`, `fill_poly`, `round_rect`,
`draw_poly_maker`, `fill_ellipse`, `draw_circle`, `draw_ellipse`, `flood_fill`, the three blits, `set_resolution`,
`clear` and `get_picture_data`.

Rust `i32` / `i64` arithmetic is checked (debug profile): `chk` / `chk64` yield a panic outside the range, an index out
of range is a panic as well.  Loops whose end is not obvious from a counter (`draw_line`, the ellipse loops,
`flood_fill`) carry fuel; running out of fuel is the explicit outcome `stall`.  Not modelled (outcome `unmodelled`):
`write_text` (f32 glyph scaling).  Effects on the text buffer and the caret are outside the model. -/
namespace IcyVerif.IgsPaint

def i32Max : Int := 2147483647
def i32Min : Int := -2147483648
def i64Max : Int := 9223372036854775807
def i64Min : Int := -9223372036854775808

inductive Res (α : Type) where
  | ok (a : α)
  | panic
  | stall
  deriving Repr

def Res.bind {α β : Type} (r : Res α) (f : α → Res β) : Res β :=
  match r with
  | .ok a => f a
  | .panic => .panic
  | .stall => .stall

instance : Monad Res where
  pure := .ok
  bind := Res.bind

/-- a checked i32 result -/
def chk (v : Int) : Res Int := if i32Min ≤ v ∧ v ≤ i32Max then .ok v else .panic
/-- a checked i64 result -/
def chk64 (v : Int) : Res Int := if i64Min ≤ v ∧ v ≤ i64Max then .ok v else .panic

def ofOpt {α : Type} (o : Option α) : Res α :=
  match o with
  | some a => .ok a
  | none => .panic

/-- `v as i32` of an i64 / a shifted value: wraps -/
def toI32 (v : Int) : Int :=
  let m := v % 4294967296
  if m ≥ 2147483648 then m - 4294967296 else m

/-- `v as usize` of an i32 -/
def usize (v : Int) : Nat := if v < 0 then (v + 18446744073709551616).toNat else v.toNat

structure Paint where
  screen : Array Nat
  /-- 0 Low (320x200), 1 Medium (640x200), 2 High (640x400) -/
  res : Nat
  cur : Int × Int
  /-- 16 pen colours, packed r*65536 + g*256 + b -/
  pens : List Nat
  polymarkerColor : Nat
  lineColor : Nat
  fillColor : Nat
  textColor : Nat
  /-- 0 Point, 1 Plus, 2 Star, 3 Square, 4 DiagonalCross, 5 Diamond -/
  polymarkerType : Nat
  /-- `LineType::get_mask()` -/
  lineType : Nat
  fillPattern : List Nat
  drawBorder : Bool
  mem : Array Nat
  memSize : Int × Int
  /-- `double_step >= 0.0` -/
  doubleStepOn : Bool

def resW (p : Paint) : Int := ((Gen.IgsPaint.resolutions.getD p.res (320, 200)).1 : Int)
def resH (p : Paint) : Int := ((Gen.IgsPaint.resolutions.getD p.res (320, 200)).2 : Int)

def Paint.new : Paint :=
  { screen := Array.replicate (320 * 200) 1, res := 0, cur := (0, 0), pens := Gen.IgsPaint.systemPalette,
    polymarkerColor := 0, lineColor := 0, fillColor := 0, textColor := 0, polymarkerType := 0, lineType := 0,
    fillPattern := Gen.IgsPaint.solidPattern, drawBorder := false, mem := #[], memSize := (0, 0), doubleStepOn := false }

-- ------------------------------------------------------------------------------------------------ pixels
/-- `(y * width + x) as usize`, compared with `screen.len()` -/
def offsetOf (p : Paint) (x y : Int) : Res Int := do
  let yw ← chk (y * resW p)
  chk (yw + x)

/-- `DrawExecutor::set_pixel` -/
def setPixel (p : Paint) (x y : Int) (c : Nat) : Res Paint := do
  let off ← offsetOf p x y
  if 0 ≤ off ∧ off < (p.screen.size : Int) then pure { p with screen := p.screen.setIfInBounds off.toNat c } else pure p

/-- `DrawExecutor::get_pixel` -/
def getPixel (p : Paint) (x y : Int) : Res Nat := do
  let off ← offsetOf p x y
  if 0 ≤ off ∧ off < (p.screen.size : Int) then pure (p.screen.getD off.toNat 0) else pure 0

/-- `DrawExecutor::fill_pixel` -/
def fillPixel (p : Paint) (x y : Int) : Res Paint :=
  if p.fillPattern.length = 0 then .panic else
  let w := p.fillPattern.getD (usize y % p.fillPattern.length) 0
  if Nat.land w (2 ^ (usize x % 16)) ≠ 0 then setPixel p x y p.fillColor else .ok p

-- ------------------------------------------------------------------------------------------------ draw_line
/-- `u16::rotate_left(1)` -/
def rotl16 (m : Nat) : Nat := (m * 2 + m / 32768) % 65536

/-- the Bresenham loop of `draw_line` -/
def lineLoop (x1 y1 dx dy sx sy : Int) (color : Nat) : Nat → Paint → Int → Int → Int → Nat → Res Paint
  | 0, _, _, _, _, _ => .stall
  | f + 1, p, x, y, err, mask => do
    let p1 ← (if mask % 2 ≠ 0 then setPixel p x y color else pure p : Res Paint)
    if x = x1 ∧ y = y1 then pure p1 else
    let e2 ← chk (2 * err)
    let (err1, xn) ← (if e2 > -dy then do
        let e ← chk (err - dy)
        let xx ← chk (x + sx)
        pure (e, xx)
      else pure (err, x) : Res (Int × Int))
    let (err2, yn) ← (if e2 < dx then do
        let e ← chk (err1 + dx)
        let yy ← chk (y + sy)
        pure (e, yy)
      else pure (err1, y) : Res (Int × Int))
    lineLoop x1 y1 dx dy sx sy color f p1 xn yn err2 (rotl16 mask)

/-- `DrawExecutor::draw_line(x0, y0, x1, y1, color, mask)` (as repaired: a mask without table entry draws solid) -/
def drawLine (p : Paint) (x0 y0 x1 y1 : Int) (color : Nat) (mask : Nat) : Res Paint := do
  let lm := Gen.IgsPaint.lineStyle.getD mask (Gen.IgsPaint.lineStyle.getD 0 65535)
  let ddx ← chk (x0 - x1)
  let dx ← chk ddx.natAbs
  let ddy ← chk (y0 - y1)
  let dy ← chk ddy.natAbs
  let sx : Int := if x0 < x1 then 1 else -1
  let sy : Int := if y0 < y1 then 1 else -1
  let err ← chk (dx - dy)
  lineLoop x1 y1 dx dy sx sy color (dx + dy + 1).toNat p x0 y0 err lm

-- ------------------------------------------------------------------------------------------------ fill_rect
def fillRow (y : Int) : Nat → Paint → Int → Res Paint
  | 0, p, _ => .ok p
  | n + 1, p, x => do
    let p' ← fillPixel p x y
    fillRow y n p' (x + 1)

def fillRows (x0 : Int) (cols : Nat) : Nat → Paint → Int → Res Paint
  | 0, p, _ => .ok p
  | n + 1, p, y => do
    let p' ← fillRow y cols p x0
    fillRows x0 cols n p' (y + 1)

/-- `DrawExecutor::fill_rect` (clipped to the screen) -/
def fillRect (p : Paint) (x0 y0 x1 y1 : Int) : Res Paint :=
  let ya := max (min y0 y1) 0
  let yb := min (max y0 y1) (resH p - 1)
  let xa := max (min x0 x1) 0
  let xb := min (max x0 x1) (resW p - 1)
  fillRows xa (xb - xa + 1).toNat (yb - ya + 1).toNat p ya

-- ------------------------------------------------------------------------------------------------ polygons
/-- `while i < parameters.len() { nx = parameters[i]; ny = parameters[i + 1]; draw_line(..); i += 2 }` -/
def polySegs (color mask : Nat) : List Int → Paint → Int → Int → Res (Paint × Int × Int)
  | [], p, x, y => .ok (p, x, y)
  | [_], _, _, _ => .panic
  | nx :: ny :: rest, p, x, y => do
    let p' ← drawLine p x y nx ny color mask
    polySegs color mask rest p' nx ny

/-- `DrawExecutor::draw_polyline` -/
def drawPolyline (p : Paint) (ps : List Int) : Res Paint :=
  match ps with
  | x :: y :: rest => do
    let r ← polySegs p.fillColor p.lineType rest p x y
    pure r.1
  | _ => .panic

/-- `DrawExecutor::draw_poly` (closed) -/
def drawPoly (p : Paint) (ps : List Int) : Res Paint :=
  match ps with
  | x :: y :: rest => do
    let r ← polySegs p.fillColor p.lineType rest p x y
    drawLine r.1 r.2.1 r.2.2 x y r.1.fillColor r.1.lineType
  | _ => .panic

/-- the y coordinates at the odd positions 3, 5, … (`while i < points.len() { … i += 2 }` from `i = 3`) -/
def oddYs : List Int → List Int
  | _ :: y :: rest => y :: oddYs rest
  | _ => []

/-- the edge loop of one scan line: `i` runs over `0..point_cnt` -/
def edgeLoop (pts : Array Int) (cnt : Nat) (y : Int) : Nat → Nat → Nat → List Int → Res (Nat × List Int)
  | 0, _, inter, eb => .ok (inter, eb)
  | n + 1, i, inter, eb => do
    let nxt := if i + 1 ≥ cnt then 0 else i + 1
    let y1 ← ofOpt pts[i * 2 + 1]?
    let y2 ← ofOpt pts[nxt * 2 + 1]?
    let dy ← chk (y2 - y1)
    let dy1 ← chk (y - y1)
    let dy2 ← chk (y - y2)
    if (decide (dy1 < 0)) != (decide (dy2 < 0)) then
      let x1 ← ofOpt pts[i * 2]?
      let x2 ← ofOpt pts[nxt * 2]?
      let d ← chk (x2 - x1)
      let dx := toI32 (d * 2)
      if inter ≥ 512 then .ok (inter, eb) else
      if dy = 0 then .panic else
      if dx < 0 then do
        let m ← chk64 (dy2 * dx)
        let q ← chk64 (Int.tdiv m dy)
        let q1 ← chk64 (q + 1)
        let v ← chk (toI32 (q1 / 2) + x2)
        edgeLoop pts cnt y n (i + 1) (inter + 1) (eb ++ [v])
      else do
        let m ← chk64 (dy1 * dx)
        let q ← chk64 (Int.tdiv m dy)
        let q1 ← chk64 (q + 1)
        let v ← chk (toI32 (q1 / 2) + x1)
        edgeLoop pts cnt y n (i + 1) (inter + 1) (eb ++ [v])
    else edgeLoop pts cnt y n (i + 1) inter eb

/-- `for k in x1.max(0)..=x2.min(width - 1) { fill_pixel(k, y) }` for the pairs of the sorted edge buffer -/
def fillPairs (y : Int) : Nat → List Int → Paint → Res Paint
  | 0, _, p => .ok p
  | n + 1, x1 :: x2 :: rest, p => do
    let xa := max x1 0
    let xb := min x2 (resW p - 1)
    let p' ← fillRow y (xb - xa + 1).toNat p xa
    fillPairs y n rest p'
  | _ + 1, _, _ => .panic

/-- the scan lines of `fill_poly`, from the bottom one upwards -/
def scanLines (pts : Array Int) (cnt : Nat) : Nat → Int → Paint → Res Paint
  | 0, _, p => .ok p
  | n + 1, y, p => do
    let (inter, eb) ← edgeLoop pts cnt y cnt 0 0 []
    if inter < 2 then scanLines pts cnt n (y - 1) p else
    let sorted := eb.mergeSort (fun a b => decide (a ≤ b))
    let p' ← fillPairs y (inter / 2) sorted p
    scanLines pts cnt n (y - 1) p'

/-- `DrawExecutor::fill_poly(points)` (as repaired: the intersection is computed in i64) -/
def fillPoly (p : Paint) (pts : List Int) : Res Paint :=
  match pts with
  | _ :: y0 :: rest =>
    let ys := y0 :: oddYs rest
    let yMax := ys.foldl max y0
    let yMin := ys.foldl min y0
    let lo := max yMin 0
    let hi := min yMax (resH p - 1)
    scanLines pts.toArray (pts.length / 2) (hi - lo + 1).toNat hi p
  | _ => .panic

/-- `DrawExecutor::round_rect` (as repaired: corner offsets scaled in i64) -/
def roundRect (p : Paint) (x1 y1 x2 y2 par : Int) : Res Paint := do
  let dxx ← chk (x2 - x1)
  let xr := min (resW p / 64) (Int.tdiv dxx 2)
  let dyy ← chk (y2 - y1)
  let yr := min xr (Int.tdiv dyy 2)
  -- as repaired: `(k * r as i64 / 32767) as i32` — the product in i64 (|k * r| < 2^46), the quotient is smaller than `r`
  let sc (k r : Int) : Res Int := pure (Int.tdiv (k * r) 32767)
  let xo1 ← sc 12539 xr
  let xo2 ← sc 23170 xr
  let xo3 ← sc 30273 xr
  let xOff : List Int := [0, xo1, xo2, xo3, xr]
  let yo1 ← sc 30273 yr
  let yo2 ← sc 23170 yr
  let yo3 ← sc 12539 yr
  let yOff : List Int := [yr, yo1, yo2, yo3, 0]
  let quad (xc yc : Int) (sgx sgy : Int) (rev : Bool) : Res (List Int) :=
    (List.range 5).foldlM (fun (acc : List Int) i => do
      let k := if rev then 4 - i else i
      let a ← chk (xc + sgx * xOff.getD k 0)
      let b ← chk (yc + sgy * yOff.getD k 0)
      pure (acc ++ [a, b])) []
  let xcR ← chk (x2 - xr)
  let ycU ← chk (y2 - yr)
  let q1 ← quad xcR ycU 1 1 false
  let ycL ← chk (y1 + yr)
  let q2 ← quad xcR ycL 1 (-1) true
  let xcL ← chk (x1 + xr)
  let q3 ← quad xcL ycL (-1) (-1) false
  let ycU2 ← chk (y2 - yr)
  let q4 ← quad xcL ycU2 (-1) 1 true
  let pts := q1 ++ q2 ++ q3 ++ q4
  if par = 1 then fillPoly p pts else drawPoly p pts

/-- the strokes of `draw_poly_maker` (as repaired: `i += num_points * 2`) -/
def markerLines (tab : Array Int) (x0 y0 : Int) : Nat → Nat → Paint → Res Paint
  | 0, _, p => .ok p
  | n + 1, i, p => do
    let np ← ofOpt tab[i]?
    let cnt := usize np
    let i1 := i + 1
    let pts ← (List.range cnt).foldlM (fun (acc : List Int) x => do
      let a ← ofOpt tab[i1 + x * 2]?
      let b ← ofOpt tab[i1 + x * 2 + 1]?
      let ax ← chk (a + x0)
      let by' ← chk (b + y0)
      pure (acc ++ [ax, by'])) [x0, y0]
    let p' ← drawPolyline p pts
    markerLines tab x0 y0 n (i1 + cnt * 2) p'

/-- `DrawExecutor::draw_poly_maker` -/
def drawPolyMarker (p : Paint) (x0 y0 : Int) : Res Paint := do
  let tab := (Gen.IgsPaint.markerTables.getD p.polymarkerType []).toArray
  let nl ← ofOpt tab[0]?
  let saved := (p.fillColor, p.lineType)
  let p1 := { p with lineType := 0, fillColor := p.lineColor }
  -- `for _ in 0..num_lines` (a negative count is an empty range)
  let p2 ← markerLines tab x0 y0 nl.toNat 1 p1
  pure { p2 with lineType := saved.2, fillColor := saved.1 }

-- ------------------------------------------------------------------------------------------------ circles and ellipses
/-- `while x <= 0 { … }` of `fill_ellipse` (`fill = true`: two `fill_rect` rows) / `draw_ellipse` (four pixels) -/
def ellipseLoop (xm ym a2 b2 : Int) (fill : Bool) : Nat → Paint → Int → Int → Int → Res (Paint × Int)
  | 0, p, x, y, _ => if x ≤ 0 then .stall else .ok (p, y)
  | f + 1, p, x, y, err =>
    if ¬ x ≤ 0 then .ok (p, y) else do
    let xmx ← chk (xm - x)
    let ymy ← chk (ym + y)
    let xpx ← chk (xm + x)
    let p2 ← (if fill then do
        let p1 ← fillRect p xmx ymy xpx ymy
        let ymy2 ← chk (ym - y)
        fillRect p1 xpx ymy2 xmx ymy2
      else do
        let c := p.lineColor
        let p1 ← setPixel p xmx ymy c
        let p1 ← setPixel p1 xpx ymy c
        let ymy2 ← chk (ym - y)
        let p1 ← setPixel p1 xpx ymy2 c
        setPixel p1 xmx ymy2 c : Res Paint)
    let e2 ← chk64 (2 * err)
    let tx ← chk64 ((x * 2 + 1) * b2)
    let (x1, err1) ← (if e2 ≥ tx then do
        let xx ← chk (x + 1)
        let t ← chk64 ((xx * 2 + 1) * b2)
        let e ← chk64 (err + t)
        pure (xx, e)
      else pure (x, err) : Res (Int × Int))
    let ty ← chk64 ((y * 2 + 1) * a2)
    let (y1, err2) ← (if e2 ≤ ty then do
        let yy ← chk (y + 1)
        let t ← chk64 ((yy * 2 + 1) * a2)
        let e ← chk64 (err1 + t)
        pure (yy, e)
      else pure (y, err1) : Res (Int × Int))
    ellipseLoop xm ym a2 b2 fill f p2 x1 y1 err2

/-- `while y < b { y += 1; set_pixel(xm, ym + y); set_pixel(xm, ym - y) }` -/
def tipLoop (xm ym b : Int) : Nat → Paint → Int → Res Paint
  | 0, p, _ => .ok p
  | n + 1, p, y =>
    if ¬ y < b then .ok p else do
    let y1 ← chk (y + 1)
    let a ← chk (ym + y1)
    let p1 ← setPixel p xm a p.lineColor
    let c ← chk (ym - y1)
    let p2 ← setPixel p1 xm c p.lineColor
    tipLoop xm ym b n p2 y1

/-- `fill_ellipse` / `draw_ellipse` (as repaired: error terms in i64) -/
def ellipse (p : Paint) (xm ym a b : Int) (fill : Bool) : Res Paint := do
  let x ← chk (-a)
  let a2 := a * a
  let b2 := b * b
  let t1 ← chk64 (2 * b2)
  let t2 ← chk64 (t1 + x)
  let t3 ← chk64 (x * t2)
  let err ← chk64 (t3 + b2)
  let r ← ellipseLoop xm ym a2 b2 fill (2 * (a.natAbs + b.natAbs) + 4) p x 0 err
  tipLoop xm ym b (b - r.2).toNat r.1 r.2

/-- `while x < 0 { … }` of `draw_circle` -/
def circleLoop (xm ym : Int) : Nat → Paint → Int → Int → Int → Res Paint
  | 0, p, x, _, _ => if x < 0 then .stall else .ok p
  | f + 1, p, x, y, err =>
    if ¬ x < 0 then .ok p else do
    let c := p.lineColor
    let a1 ← chk (xm - x)
    let b1 ← chk (ym + y)
    let p1 ← setPixel p a1 b1 c
    let a2 ← chk (xm - y)
    let b2 ← chk (ym - x)
    let p1 ← setPixel p1 a2 b2 c
    let a3 ← chk (xm + x)
    let b3 ← chk (ym - y)
    let p1 ← setPixel p1 a3 b3 c
    let a4 ← chk (xm + y)
    let b4 ← chk (ym + x)
    let p1 ← setPixel p1 a4 b4 c
    let r := err
    let (y1, err1) ← (if r ≤ y then do
        let yy ← chk (y + 1)
        let t ← chk (yy * 2)
        let t ← chk (t + 1)
        let e ← chk (err + t)
        pure (yy, e)
      else pure (y, err) : Res (Int × Int))
    let (x1, err2) ← (if r > x ∨ err1 > y1 then do
        let xx ← chk (x + 1)
        let t ← chk (xx * 2)
        let t ← chk (t + 1)
        let e ← chk (err1 + t)
        pure (xx, e)
      else pure (x, err1) : Res (Int × Int))
    circleLoop xm ym f p1 x1 y1 err2

/-- `DrawExecutor::draw_circle` -/
def drawCircle (p : Paint) (xm ym r : Int) : Res Paint := do
  let x ← chk (-r)
  let t ← chk (2 * r)
  let err ← chk (2 - t)
  circleLoop xm ym (2 * r.natAbs + 4) p x 0 err

-- ------------------------------------------------------------------------------------------------ flood fill
/-- `while let Some(pos) = vec.pop() { … }` -/
def floodLoop (old col : Nat) : Nat → List (Int × Int) → Paint → Res Paint
  | _, [], p => .ok p
  | 0, _ :: _, _ => .stall
  | f + 1, (x, y) :: st, p =>
    if x < 0 ∨ y < 0 ∨ x ≥ resW p ∨ y ≥ resH p then floodLoop old col f st p else do
    let cp ← getPixel p x y
    if cp ≠ old then floodLoop old col f st p else do
    let p1 ← setPixel p x y col
    let xl ← chk (x - 1)
    let xr ← chk (x + 1)
    let yu ← chk (y - 1)
    let yd ← chk (y + 1)
    floodLoop old col f ((x, yd) :: (x, yu) :: (xr, y) :: (xl, y) :: st) p1

/-- `DrawExecutor::flood_fill` -/
def floodFill (p : Paint) (x0 y0 : Int) : Res Paint :=
  if x0 < 0 ∨ y0 < 0 ∨ x0 ≥ resW p ∨ y0 ≥ resH p then .ok p else do
  let old ← getPixel p x0 y0
  if old = p.fillColor then pure p else
  floodLoop old p.fillColor (4 * (resW p * resH p).toNat + 2) [(x0, y0)] p

-- ------------------------------------------------------------------------------------------------ blits
def blitSSRow (fx fy dx dy : Int) (y : Int) : Nat → Paint → Int → Res Paint
  | 0, p, _ => .ok p
  | n + 1, p, x => do
    let sx ← chk (fx + x)
    let sy ← chk (fy + y)
    let c ← getPixel p sx sy
    let tx ← chk (dx + x)
    let ty ← chk (dy + y)
    let p' ← setPixel p tx ty c
    blitSSRow fx fy dx dy y n p' (x + 1)

def blitSSRows (fx fy dx dy : Int) (cols : Nat) : Nat → Paint → Int → Res Paint
  | 0, p, _ => .ok p
  | n + 1, p, y => do
    let p' ← blitSSRow fx fy dx dy y cols p 0
    blitSSRows fx fy dx dy cols n p' (y + 1)

/-- `blit_screen_to_screen(from, to, dest)` -/
def blitScreenToScreen (p : Paint) (fx fy tx ty dx dy : Int) : Res Paint := do
  let w0 ← chk (tx - fx)
  let h0 ← chk (ty - fy)
  let width := min w0 (resW p)
  let height := min h0 (resH p)
  blitSSRows fx fy dx dy width.toNat height.toNat p 0

def blitMSRow (fx dx dy yp width : Int) (y : Int) : Nat → Paint → Int → Res Paint
  | 0, p, _ => .ok p
  | n + 1, p, x => do
    let xp ← chk (x + fx)
    let tx ← chk (dx + x)
    if tx ≥ resW p then pure p else
    let off := yp * width + xp
    let p' ← (if 0 ≤ off ∧ off < (p.mem.size : Int) then do
        let ty ← chk (dy + y)
        setPixel p tx ty (p.mem.getD off.toNat 0)
      else pure p : Res Paint)
    blitMSRow fx dx dy yp width y n p' (x + 1)

def blitMSRows (fx fy dx dy width : Int) (cols : Nat) : Nat → Paint → Int → Res Paint
  | 0, p, _ => .ok p
  | n + 1, p, y => do
    let yp ← chk (y + fy)
    let ty ← chk (dy + y)
    if ty ≥ resH p then pure p else
    let p' ← blitMSRow fx dx dy yp width y cols p 0
    blitMSRows fx fy dx dy width cols n p' (y + 1)

/-- `blit_memory_to_screen(from, to, dest)` (as repaired: source pixels outside the saved block are skipped) -/
def blitMemoryToScreen (p : Paint) (fx fy tx ty dx dy : Int) : Res Paint := do
  let width ← chk (tx - fx)
  let height ← chk (ty - fy)
  blitMSRows fx fy dx dy width width.toNat height.toNat p 0

def grabRow (y : Int) : Nat → Paint → Int → Array Nat → Res (Array Nat)
  | 0, _, _, m => .ok m
  | n + 1, p, x, m => do
    let c ← getPixel p x y
    grabRow y n p (x + 1) (m.push c)

def grabRows (fx : Int) (cols : Nat) : Nat → Paint → Int → Array Nat → Res (Array Nat)
  | 0, _, _, m => .ok m
  | n + 1, p, y, m => do
    let m' ← grabRow y cols p fx m
    grabRows fx cols n p (y + 1) m'

/-- `blit_screen_to_memory(from, to)` -/
def blitScreenToMemory (p : Paint) (fx fy tx ty : Int) : Res Paint := do
  let w0 ← chk (tx - fx)
  let h0 ← chk (ty - fy)
  let width := min w0 (resW p)
  let height := min h0 (resH p)
  -- `from.y..from.y + height` / `from.x..from.x + width`
  let _ ← chk (fy + height)
  let _ ← (if height > 0 then chk (fx + width) else pure 0 : Res Int)
  let m ← grabRows fx width.toNat height.toNat p fy #[]
  pure { p with mem := m, memSize := (width, height) }

-- ------------------------------------------------------------------------------------------------ resolution, picture
/-- `set_resolution` / `clear`: `screen = vec![1; width * height]` -/
def resetScreen (p : Paint) : Paint := { p with screen := Array.replicate (resW p * resH p).toNat 1 }

/-- `screen.resize(width * height, 1)` -/
def resizeScreen (p : Paint) : Paint :=
  let n := (resW p * resH p).toNat
  { p with screen := if p.screen.size ≥ n then p.screen.extract 0 n else p.screen ++ Array.replicate (n - p.screen.size) 1 }

/-- the four bytes of one cell: `pen_colors[px]` (an index out of range panics), alpha 0 for black -/
def pixelBytes (pens : List Nat) (px : Nat) : Option (List Nat) :=
  match pens[px]? with
  | none => none
  | some c =>
    let r := c / 65536 % 256
    let g := c / 256 % 256
    let b := c % 256
    some [r, g, b, if r = 0 ∧ g = 0 ∧ b = 0 then 0 else 255]

/-- `DrawExecutor::get_picture_data`: `none` = index panic -/
def pictureData (p : Paint) : Option (List Nat) :=
  p.screen.toList.foldr (fun px acc =>
    match pixelBytes p.pens px, acc with
    | some b, some rest => some (b ++ rest)
    | _, _ => none) (some [])

-- ------------------------------------------------------------------------------------------------ execute_command
/-- what `execute_command` answers -/
inductive XOut where
  /-- `Ok(action)`: letter n (NoUpdate), u (Update), s (SendString), z (Pause) -/
  | ok (p : Paint) (letter : Char)
  | err (p : Paint)
  | panic
  | stall
  | unmodelled

def lift (r : Res Paint) (letter : Char) : XOut :=
  match r with
  | .ok p => .ok p letter
  | .panic => .panic
  | .stall => .stall

/-- `(v as u8) << 5 | v as u8` -/
def penByte (v : Int) : Nat :=
  let b := (v % 256).toNat
  Nat.lor (b * 32 % 256) b

/-- the `points < 1 || points * 2 + 1 != parameters.len() as i32` test of PolyFill / PolyLine: `none` = the
multiplication overflowed (panic), `some true` = rejected -/
def polyReject (ps : List Int) : Option Bool :=
  match ps with
  | [] => some true
  | points :: _ =>
    if points < 1 then some true else
    if points * 2 > i32Max then none else
    if points * 2 + 1 > i32Max then none else
    some (points * 2 + 1 ≠ (ps.length : Int))

/-- `DrawExecutor::execute_command(command, parameters, _)`; `name` is the `IgsCommands` variant -/
def exec (p : Paint) (name : String) (ps : List Int) : XOut :=
  let g (i : Nat) : Int := ps.getD i 0
  -- the uniform `if parameters.len() != N { return Err }` guard of the regenerated table
  match Gen.IgsPaint.argCount.find? (fun e => e.1 == name) with
  | some (_, n) =>
    if ps.length ≠ n then .err p else
    match name with
    | "Initialize" =>
      if g 0 = 0 ∨ g 0 = 1 then .ok { resetScreen p with pens := Gen.IgsPaint.systemPalette } 'u'
      else if g 0 = 2 then .ok p 'u'
      else if g 0 = 3 then .ok { resetScreen p with pens := Gen.IgsPaint.igsPalette } 'u'
      else .err p
    | "AskIG" => if g 0 = 0 ∨ g 0 = 3 then .ok p 's' else .err p
    | "Cursor" => if 0 ≤ g 0 ∧ g 0 ≤ 3 then .ok p 'u' else .err p
    | "ColorSet" =>
      if ¬ (0 ≤ g 1 ∧ g 1 ≤ 15) then .err p
      else if g 0 = 0 then .ok { p with polymarkerColor := (g 1).toNat } 'n'
      else if g 0 = 1 then .ok { p with lineColor := (g 1).toNat } 'n'
      else if g 0 = 2 then .ok { p with fillColor := (g 1).toNat } 'n'
      else if g 0 = 3 then .ok { p with textColor := (g 1).toNat } 'n'
      else .err p
    | "SetPenColor" =>
      if ¬ (0 ≤ g 0 ∧ g 0 ≤ 15) then .err p
      else if (g 0).toNat < p.pens.length then
        .ok { p with pens := p.pens.set (g 0).toNat (penByte (g 1) * 65536 + penByte (g 2) * 256 + penByte (g 3)) } 'n'
      else .panic
    | "DrawLine" =>
      lift ((drawLine p (g 0) (g 1) (g 2) (g 3) p.lineColor p.lineType).bind fun p' => .ok { p' with cur := (g 2, g 3) }) 'u'
    | "LineDrawTo" =>
      lift ((drawLine p p.cur.1 p.cur.2 (g 0) (g 1) p.lineColor p.lineType).bind fun p' => .ok { p' with cur := (g 0, g 1) }) 'u'
    | "Box" =>
      let x0 := min (g 0) (g 2)
      let x1 := max (g 0) (g 2)
      let y0 := min (g 1) (g 3)
      let y1 := max (g 1) (g 3)
      lift (do
        let p1 ← fillRect p x0 y0 x1 y1
        if p1.drawBorder then
          let c := p1.fillColor
          let p2 ← drawLine p1 x0 y0 x0 y1 c 0
          let p3 ← drawLine p2 x1 y0 x1 y1 c 0
          let p4 ← drawLine p3 x0 y0 x1 y0 c 0
          drawLine p4 x0 y1 x1 y1 c 0
        else pure p1) 'u'
    | "RoundedRectangles" => lift (roundRect p (g 0) (g 1) (g 2) (g 3) (g 4)) 'u'
    | "HollowSet" => if g 0 = 0 ∨ g 0 = 1 then .ok p 'n' else .err p
    | "Pieslice" => .ok p 'u'
    | "Circle" =>
      lift (do
        let p1 ← ellipse p (g 0) (g 1) (g 2) (g 2) true
        if p1.drawBorder then drawCircle p1 (g 0) (g 1) (g 2) else pure p1) 'u'
    | "Ellipse" =>
      lift (do
        let p1 ← ellipse p (g 0) (g 1) (g 2) (g 3) true
        if p1.drawBorder then ellipse p1 (g 0) (g 1) (g 2) (g 3) false else pure p1) 'u'
    | "EllipticalArc" => .ok p 'u'
    | "QuickPause" =>
      if 9995 ≤ g 0 ∧ g 0 ≤ 9998 then .ok { p with doubleStepOn := true } 'n'
      else if g 0 = 9999 then .ok { p with doubleStepOn := false } 'n'
      else if g 0 < 180 then .ok p 'z'
      else .err p
    | "AttributeForFills" =>
      let pat : Option (List Nat) :=
        if g 0 = 0 then some Gen.IgsPaint.hollowPattern
        else if g 0 = 1 then some Gen.IgsPaint.solidPattern
        else if g 0 = 2 then
          if g 1 = 0 then some Gen.IgsPaint.randomPattern
          else if 1 ≤ g 1 ∧ g 1 ≤ 24 then some ((Gen.IgsPaint.typePatternFlat.drop (((g 1).toNat - 1) * 8)).take 8)
          else some Gen.IgsPaint.solidPattern
        else if g 0 = 3 then
          if 1 ≤ g 1 ∧ g 1 ≤ 12 then
            if g 1 ≤ 6 then some ((Gen.IgsPaint.hatchPatternFlat.drop (((g 1).toNat - 1) * 8)).take 8)
            else some ((Gen.IgsPaint.hatchWidePatternFlat.drop (((g 1).toNat - 7) * 16)).take 16)
          else some Gen.IgsPaint.solidPattern
        else if g 0 = 4 then some Gen.IgsPaint.solidPattern
        else none
      match pat with
      | none => .err p
      | some pt =>
        let p1 := { p with fillPattern := pt }
        if g 2 = 0 then .ok { p1 with drawBorder := false } 'n'
        else if g 2 = 1 then .ok { p1 with drawBorder := true } 'n'
        else .err p1
    | "FilledRectangle" => lift (fillRect p (g 0) (g 1) (g 2) (g 3)) 'u'
    | "TimeAPause" =>
      -- `1000u32.saturating_mul(parameters[0].max(0) as u32)` (repaired: the plain `1000 * parameters[0] as u32` overflowed
      -- u32 for a negative count, which loop arithmetic can produce); the pause length is not part of the observation
      .ok p 'z'
    | "PolymarkerPlot" => lift (drawPolyMarker p (g 0) (g 1)) 'u'
    | "TextEffects" =>
      if ¬ (g 0 = 0 ∨ g 0 = 1 ∨ g 0 = 2 ∨ g 0 = 4 ∨ g 0 = 8 ∨ g 0 = 16) then .err p
      else if ¬ (g 1 = 8 ∨ g 1 = 9 ∨ g 1 = 10 ∨ g 1 = 16 ∨ g 1 = 18 ∨ g 1 = 20) then .err p
      else if ¬ (0 ≤ g 2 ∧ g 2 ≤ 4) then .err p
      else .ok p 'u'
    | "LineMarkerTypes" =>
      if g 0 = 1 then
        if 1 ≤ g 1 ∧ g 1 ≤ 6 then .ok { p with polymarkerType := (g 1).toNat - 1 } 'n' else .err p
      else if g 0 = 2 then
        if 1 ≤ g 1 ∧ g 1 ≤ 7 then .ok { p with lineType := (g 1).toNat - 1 } 'n' else .err p
      else .err p
    | "DrawingMode" => if 1 ≤ g 0 ∧ g 0 ≤ 4 then .ok p 'n' else .err p
    | "SetResolution" =>
      if g 0 = 0 ∨ g 0 = 1 then
        let p1 := resizeScreen { p with res := (g 0).toNat }
        if g 1 = 0 then .ok p1 'n'
        else if g 1 = 1 then .ok { p1 with pens := Gen.IgsPaint.systemPalette } 'n'
        else if g 1 = 2 then .ok { p1 with pens := Gen.IgsPaint.igsPalette } 'n'
        else .err p1
      else .err p
    | "WriteText" => .unmodelled
    | "FloodFill" => lift (floodFill p (g 0) (g 1)) 'z'
    | "VTColor" =>
      match Gen.IgsPaint.registerToPen[usize (g 1)]? with
      | some pen =>
        if pen < p.pens.length then (if g 0 = 0 ∨ g 0 = 1 then .ok p 'n' else .err p) else .panic
      | none => .err p
    | "VTPosition" => .ok p 'n'
    | _ => .unmodelled
  | none =>
    match name with
    | "ScreenClear" => .ok (resetScreen p) 'u'
    | "PolyFill" =>
      match polyReject ps with
      | none => .panic
      | some true => .err p
      | some false =>
        lift (do
          let p1 ← fillPoly p ps.tail
          if p1.drawBorder then drawPoly p1 ps.tail else pure p1) 'u'
    | "PolyLine" =>
      match polyReject ps with
      | none => .panic
      | some true => .err p
      | some false =>
        lift ((drawPolyline p ps.tail).bind fun p' =>
          .ok { p' with cur := (ps.getD (ps.length - 2) 0, ps.getD (ps.length - 1) 0) }) 'u'
    | "GrabScreen" =>
      if ps.length < 2 then .err p else
      let fin : Char := if p.doubleStepOn then 'z' else 'u'
      if g 0 = 0 then
        if ps.length ≠ 8 then .err p else lift (blitScreenToScreen p (g 2) (g 3) (g 4) (g 5) (g 6) (g 7)) fin
      else if g 0 = 1 then
        if ps.length ≠ 6 then .err p else lift (blitScreenToMemory p (g 2) (g 3) (g 4) (g 5)) fin
      else if g 0 = 2 then
        if ps.length ≠ 4 then .err p else lift (blitMemoryToScreen p 0 0 p.memSize.1 p.memSize.2 (g 2) (g 3)) fin
      else if g 0 = 3 then
        if ps.length ≠ 8 then .err p else lift (blitMemoryToScreen p (g 2) (g 3) (g 4) (g 5) (g 6) (g 7)) fin
      else .err p
    | _ => .err p  -- `_ => Err("Unimplemented IGS command")`

end IcyVerif.IgsPaint

namespace IcyVerif.IgsPaint

/-- one step of `picFold`: the four bytes of one cell folded into the accumulator, `none` = index panic -/
def picStep {β : Type} (f : β → Nat → β) (pens : List Nat) (acc : Option β) (px : Nat) : Option β :=
  match acc with
  | none => none
  | some a =>
    match pixelBytes pens px with
    | none => none
    | some bs => some (bs.foldl f a)

/-- a left fold over the bytes of the picture that does not build the byte list (what the driver hashes with);
`picFold_eq` in `Lemmas/IgsPaint.lean` shows it is the fold over `pictureData` -/
def picFold {β : Type} (f : β → Nat → β) (init : β) (p : Paint) : Option β :=
  p.screen.foldl (picStep f p.pens) (some init)

end IcyVerif.IgsPaint
