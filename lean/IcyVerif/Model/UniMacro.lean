import IcyVerif.Model.Unicode
import IcyVerif.Gen.UniMacro
/-! # The macro table of the ANSI parser as a store of `String`s (C10)

"Every string the engine builds (… macro bodies) is valid UTF-8, whatever bytes arrived from a terminal stream."
Macro bodies are built in `src/parsers/ansi/dcs.rs`:

* `parse_macro_sequence`  — text macros (`DCS Pid;Pdt;0 !z text ST`): the body is the tail of `parse_string`;
* `parse_hex_macro_sequence` — hex macros (`Penc = 1`): `Model/Unicode.hexMacro`;

and they get into `Parser::macros` only through `parse_macro` (called by `execute_dcs`).  This file models the way of
the characters from the stream into the table: the DCS recorder of `print_char` (`RecordDCS`, `RecordDCSEscape`), the
number loop and dispatch of `execute_dcs`, `parse_macro`, and `ESC c` (RIS clears the table).

Characters are code points (`Nat`); a stored body is a list of code points and the BYTES of the stored `String` are
`encodeAll body` — the observation the correspondence run compares with the real table (hook `verif_dcs_view`), so a
body that is cut or patched byte-wise on its way into the table shows as a difference and as invalid UTF-8.

Outside this model (the generator does not produce them, the driver answers `out`): a macro invocation inside a DCS
(`ESC [` in `RecordDCSEscape`), the custom-font DCS and sixels (other properties' models). -/
namespace IcyVerif.UniMacro
open IcyVerif.Uni IcyVerif.Gen.UniMacro IcyVerif.Gen.Unsafe

def ESC : Nat := 27

/-- what `RecordDCS` / `RecordDCSEscape` make of the characters after `ESC P` -/
inductive Rec where
  | done (str : List Nat) (rest : List Nat)   -- `ESC \` seen: `execute_dcs` runs on `str`; `rest` follows in state Default
  | unterminated                             -- the stream ended inside the DCS
  | invoke                                   -- `ESC [` (possible macro invocation inside the DCS): outside this model
deriving Repr, DecidableEq

/-- `esc` = state `RecordDCSEscape` (else `RecordDCS`); `acc` is `parse_string` so far -/
def record (esc : Bool) (acc : List Nat) : List Nat → Rec
  | [] => .unterminated
  | c :: rest =>
    if esc then
      if c = 92 then .done acc rest
      else if c = 91 then .invoke
      else record false (acc ++ [ESC, c]) rest    -- `push('\x1b'); push(ch)`
    else if c = ESC then record true acc rest
    else record false (acc ++ [c]) rest

def isDigit (c : Nat) : Bool := 48 ≤ c && c ≤ 57

/-- the number loop of `execute_dcs`; `numsRev` is `parsed_numbers` REVERSED (`pop`/`push` at the head);
    returns the numbers and the rest of the string from the first other character on -/
def takeNums : List Int → List Nat → List Int × List Nat
  | numsRev, [] => (numsRev.reverse, [])
  | numsRev, c :: cs =>
    if isDigit c then
      match numsRev with
      | d :: t => takeNums (parseNextNumber d c :: t) cs
      | [] => takeNums [parseNextNumber 0 c] cs
    else if c = 59 then takeNums (0 :: numsRev) cs
    else (numsRev.reverse, c :: cs)

/-- `HashMap<usize, String>` as an association list sorted by id (the hook sorts) -/
abbrev Table := List (Nat × List Nat)

def tblInsert (id : Nat) (b : List Nat) : Table → Table
  | [] => [(id, b)]
  | (k, v) :: t =>
    if id < k then (id, b) :: (k, v) :: t
    else if id = k then (id, b) :: t
    else (k, v) :: tblInsert id b t

def tblGet (id : Nat) : Table → Option (List Nat)
  | [] => none
  | (k, v) :: t => if k = id then some v else tblGet id t

inductive Out where
  | ok | err
  | other          -- font / sixel DCS: not this model's business
deriving Repr, DecidableEq

/-- `parse_macro(start_index)` with `body = parse_string[start_index..]` -/
def parseMacro (tbl : Table) (nums : List Int) (body : List Nat) : Table × Out :=
  match nums with
  | [] => (tbl, .err)
  | pid :: more =>
    let tbl := if more.head? = some pdtClear then [] else tbl
    match more.drop 1 with
    | [] => (tbl, .err)
    | enc :: _ =>
      if enc = encText then (tblInsert pid.toNat body tbl, .ok)
      else if enc = encHex then
        match hexMacro hexTable body with
        | some m => (tblInsert pid.toNat m tbl, .ok)
        | none => (tbl, .err)
      else (tbl, .err)

/-- `execute_dcs` on `parse_string = s` -/
def executeDcs (tbl : Table) (s : List Nat) : Table × Out :=
  if fontPrefix.isPrefixOf s then (tbl, .other)
  else
    let (nums, rest) := takeNums [] s
    if macroIntro.isPrefixOf rest then parseMacro tbl nums (rest.drop macroIntro.length)
    else if rest.head? = some sixelIntro then (tbl, .other)
    else (tbl, .err)

/-- one item of a history -/
inductive Op where
  | dcs (chars : List Nat)    -- the characters that follow `ESC P`, up to and including the terminating `ESC \`
  | ris                       -- `ESC c`
deriving Repr, DecidableEq

inductive StepOut where
  | ok | err | other | out    -- `out`: the item leaves the modelled part of the parser
deriving Repr, DecidableEq

def step (tbl : Table) : Op → Table × StepOut
  | .ris => ([], .ok)
  | .dcs chars =>
    match record false [] chars with
    | .done s [] =>
      match executeDcs tbl s with
      | (t, .ok) => (t, .ok)
      | (t, .err) => (t, .err)
      | (t, .other) => (t, .other)
    | _ => (tbl, .out)

def run : Table → List Op → Table × List StepOut
  | tbl, [] => (tbl, [])
  | tbl, op :: ops =>
    let (t, o) := step tbl op
    let (t', os) := run t ops
    (t', o :: os)

/-- the bytes of the `String` stored for a body -/
def storedBytes (body : List Nat) : List Nat := encodeAll body

end IcyVerif.UniMacro
