import IcyVerif.Model.Bytes
import IcyVerif.Model.Palette
import IcyVerif.Model.Unicode
import IcyVerif.Gen.FontPal
/-! # `Palette::load_palette` / `Palette::import_palette` on ARBITRARY bytes (C02)

The five text importers as far as their OUTCOME is concerned: `ok <colours>` | `Err` | panic.
* `String::from_utf8(bytes.to_vec())`: `Uni.validUtf8` / `Uni.lossy` (exact decoder on valid input) — not UTF-8 = `Err`;
* Hex, Ice, Txt: the hand-written matchers of C16 (`Model/Palette.lean`) are reused unchanged — their numeric conversions
  are `u32::from_str_radix(<two hex digits>, 16)?`, which cannot fail;
* Pal (JASC) and Gpl: the colour lines match `(\d+)\s+(\d+)\s+(\d+)`, and `\d` of the `regex` crate is the UNICODE class Nd
  (regenerated table `ndRanges`), so on arbitrary text a run of e.g. Arabic-Indic digits matches and then fails
  `.parse::<u32>()?` — an `Err`, like a decimal number of 2^32 or more.  C16 only ever feeds ASCII digits and models
  `\d` as `[0-9]`; here the same matchers are written over a digit class (`rgbAtWith`), instantiated with Nd, and
  `rgbAtWith_ascii` states that the ASCII instance IS C16's matcher.
* every number found in the file is converted by `parseU32` (explicit failure = `Err`, what `?` propagates) and truncated
  by `as u8`; NOTHING is allocated from, indexed by or multiplied with such a number (the translator's site inventory
  `loaderSites` pins that: a `reserve(count)`, an index or an `unwrap` in `load_palette` is a new site).
Metadata (title / author / description / colour names) is C16's subject and not part of the outcome here. -/
namespace IcyVerif.PalLoad
open IcyVerif.Bytes IcyVerif.Palette IcyVerif.Gen.FontPal IcyVerif.Gen.Palette

/-- `\d` in the regex crate's Unicode mode -/
def isNd (c : Nat) : Bool := ndRanges.any fun r => r.1 ≤ c && c ≤ r.2

/-- `\d+` (greedy) over a digit class -/
def digits1With (isD : Nat → Bool) (s : List Nat) : Option (List Nat × List Nat) :=
  if (s.takeWhile isD).isEmpty then none else some (s.takeWhile isD, s.dropWhile isD)

/-- `(\d+)\s+(\d+)\s+(\d+)` anchored here, over a digit class (same shape as `Palette.rgbAt`) -/
def rgbAtWith (isD : Nat → Bool) (s : List Nat) : Option ((List Nat × List Nat × List Nat) × List Nat) :=
  match digits1With isD s with
  | none => none
  | some (r, s1) =>
    match ws1 s1 with
    | none => none
    | some s2 =>
      match digits1With isD s2 with
      | none => none
      | some (g, s3) =>
        match ws1 s3 with
        | none => none
        | some s4 =>
          match digits1With isD s4 with
          | none => none
          | some (b, s5) => some ((r, g, b), s5)

/-- `str::parse::<u32>()?`: `Err` on a digit outside `0..9` (Nd matches more than `parse` accepts) and on 2^32 and
    more; the value otherwise.  Never a panic. -/
def parseU32 (ds : List Nat) : Res Nat :=
  if ds.all Palette.isDigit ∧ decVal ds < 4294967296 then .ok (decVal ds) else .err

/-- `Color::new(r as u8, g as u8, b as u8)` after the three conversions (in source order) -/
def rgbOfDec (t : List Nat × List Nat × List Nat) : Res Rgb := do
  let r ← parseU32 t.1
  let g ← parseU32 t.2.1
  let b ← parseU32 t.2.2
  pure ⟨r % 256, g % 256, b % 256⟩

def mapRes {α β : Type} (f : α → Res β) : List α → Res (List β)
  | [] => .ok []
  | a :: as => do
    let b ← f a
    let bs ← mapRes f as
    pure (b :: bs)

/-- one colour line of a JASC file: every match of the line, converted -/
def palLineColors (line : List Nat) : Res (List Rgb) := mapRes rgbOfDec (scanWith (rgbAtWith isNd) line 0)

/-- `for (i, line) in data.lines().enumerate()` of the JASC importer -/
def palLoop : List (List Nat) → Nat → List Rgb → Res (List Rgb)
  | [], _, acc => .ok acc
  | l :: ls, i, acc =>
    if i = 0 then (if l = palMagicLine then palLoop ls 1 acc else .err)
    else if i ∈ palIgnoredLines then palLoop ls (i + 1) acc
    else do
      let cs ← palLineColors l
      palLoop ls (i + 1) (acc ++ cs)

/-- one line of a GIMP palette after the magic line: comment lines carry metadata only; otherwise the FIRST match -/
def gplLine (acc : List Rgb) (line : List Nat) : Res (List Rgb) :=
  if line.head? = some gplComment then .ok acc
  else
    match findFirst (rgbAtWith isNd) line with
    | none => .ok acc
    | some (t, _) => do
      let c ← rgbOfDec t
      pure (acc ++ [c])

def foldRes {σ α : Type} (f : σ → α → Res σ) : σ → List α → Res σ
  | s, [] => .ok s
  | s, a :: as => do
    let s' ← f s a
    foldRes f s' as

def gplLoad (s : List Nat) : Res (List Rgb) :=
  match splitLines s with
  | [] => .ok []
  | l0 :: rest => if l0 = gplMagicLine then foldRes gplLine [] rest else .err

def ofOption (o : Option Pal) : Res (List Rgb) :=
  match o with
  | some p => .ok p.rgbs
  | none => .err

/-- `load_palette` on decoded text -/
def loadText : Fmt → List Nat → Res (List Rgb)
  | .pal, s => palLoop (splitLines s) 0 []
  | .gpl, s => gplLoad s
  | .hex, s => ofOption (importHex s)
  | .ice, s => ofOption (importIce s)
  | .txt, s => ofOption (importTxt s)

/-- `Palette::load_palette(format, bytes)` -/
def palLoad (f : Fmt) (bytes : List Nat) : Res (List Rgb) :=
  if IcyVerif.Uni.validUtf8 bytes then loadText f (IcyVerif.Uni.lossy bytes) else .err

def fmtOfName : String → Option Fmt
  | "hex" => some .hex
  | "pal" => some .pal
  | "gpl" => some .gpl
  | "ice" => some .ice
  | "txt" => some .txt
  | _ => none

def lookupExt (e : String) : List (String × String) → Option String
  | [] => none
  | (k, v) :: rest => if k = e then some v else lookupExt e rest

/-- `Palette::import_palette(file_name, bytes)` for a file name with extension `ext` (`none`: no extension) -/
def palImport (ext : Option String) (bytes : List Nat) : Res (List Rgb) :=
  match ext with
  | none => .err
  | some e =>
    match (lookupExt e.toLower palExtTable).bind fmtOfName with
    | some f => palLoad f bytes
    | none => .err

end IcyVerif.PalLoad
