import IcyVerif.Model.Comp
/-! # Where a layer is shown — model of the offset state machine of `Layer` (src/layer.rs)

A `Layer` has a *base* offset (`properties.offset`, a public field), an optional *preview* offset (`preview_offset`,
private: set while a layer is dragged) and a position lock (`properties.is_position_locked`).  The compositor
(`Buffer::get_char`) never reads the fields: it calls `Layer::get_offset()`, which prefers a pending preview.

    pub fn get_offset(&self) -> Position { if let Some(offset) = self.preview_offset { return offset; } self.properties.offset }
    pub fn get_base_offset(&self) -> Position { self.properties.offset }
    pub fn set_offset(&mut self, pos) { if self.properties.is_position_locked { return; }
                                        self.preview_offset = None; self.properties.offset = pos.into(); }
    pub fn get_preview_offset(&self) -> Option<Position> { self.preview_offset }
    pub fn set_preview_offset(&mut self, pos: Option<Position>) { self.preview_offset = pos; }   // NOT guarded by the lock

`LayerS` is a layer with that state; `LayerS.view` is the layer as the compositor sees it (`Layer` of Model/Comp.lean,
whose `offX/offY` are what `get_offset()` answers); `getCharS` is `Buffer::get_char` for a stack of such layers. -/
namespace IcyVerif.Comp

structure LayerS where
  /-- everything but the position state; `body.offX / body.offY` = `properties.offset` (the base offset) -/
  body : Layer
  /-- `preview_offset` -/
  preview : Option (Int × Int)
  /-- `properties.is_position_locked` -/
  posLocked : Bool
deriving Repr, Inhabited

/-- a layer as `Layer::new` + assignments to its public fields leave it: no preview pending, not locked -/
def LayerS.fresh (l : Layer) : LayerS := ⟨l, none, false⟩

/-- `Layer::get_base_offset` -/
def LayerS.getBaseOffset (l : LayerS) : Int × Int := (l.body.offX, l.body.offY)

/-- `Layer::get_offset` -/
def LayerS.getOffset (l : LayerS) : Int × Int :=
  match l.preview with
  | some p => p
  | none => (l.body.offX, l.body.offY)

/-- `Layer::get_preview_offset` -/
def LayerS.getPreviewOffset (l : LayerS) : Option (Int × Int) := l.preview

/-- `Layer::set_offset` -/
def LayerS.setOffset (l : LayerS) (q : Int × Int) : LayerS :=
  if l.posLocked then l
  else { l with preview := none, body := { l.body with offX := q.1, offY := q.2 } }

/-- `Layer::set_preview_offset` -/
def LayerS.setPreviewOffset (l : LayerS) (p : Option (Int × Int)) : LayerS := { l with preview := p }

/-- `layer.properties.is_position_locked = b` (public field) -/
def LayerS.setLocked (l : LayerS) (b : Bool) : LayerS := { l with posLocked := b }

/-- `layer.properties.offset = q` (public field: loaders, `LayerSpec::build` and the editor's undo records write it
    directly; neither the lock nor a pending preview is touched) -/
def LayerS.assignOffset (l : LayerS) (q : Int × Int) : LayerS :=
  { l with body := { l.body with offX := q.1, offY := q.2 } }

/-- the layer the compositor sees: `pos - cur_layer.get_offset()` -/
def LayerS.view (l : LayerS) : Layer := { l.body with offX := l.getOffset.1, offY := l.getOffset.2 }

/-- `l`'s content placed at `q` (a layer built from scratch with `properties.offset = q`) -/
def Layer.placedAt (l : Layer) (q : Int × Int) : Layer := { l with offX := q.1, offY := q.2 }

/-- the operations on the position state of one layer -/
inductive LOp
  | setOffset (q : Int × Int)
  | setPreview (p : Option (Int × Int))
  | setLocked (b : Bool)
  | assignOffset (q : Int × Int)
deriving DecidableEq, Repr, Inhabited

def LayerS.apply (l : LayerS) : LOp → LayerS
  | .setOffset q => l.setOffset q
  | .setPreview p => l.setPreviewOffset p
  | .setLocked b => l.setLocked b
  | .assignOffset q => l.assignOffset q

/-- a history of operations on one layer, oldest first -/
def LayerS.run (l : LayerS) (ops : List LOp) : LayerS := ops.foldl LayerS.apply l

/-- an operation on layer `i` of a stack (`buf.layers[i].…`); an index outside the stack is ignored by the model (the
    harness never produces one: in Rust it is an index panic) -/
def applyAt (S : List LayerS) (i : Nat) (op : LOp) : List LayerS :=
  match S[i]? with
  | some l => S.set i (l.apply op)
  | none => S

def runStack (S : List LayerS) (ops : List (Nat × LOp)) : List LayerS :=
  ops.foldl (fun S o => applyAt S o.1 o.2) S

/-- `Buffer::get_char` for a stack of layers with position state (bottom layer first) -/
def getCharS (hb : Cell → Nat × Nat) (isTerm : Bool) (S : List LayerS) (px py : Int) : Cell :=
  getChar hb isTerm (S.map LayerS.view) px py

/-- the same with the checked `i32` subtraction `pos - cur_layer.get_offset()` -/
def getCharSC (hb : Cell → Nat × Nat) (isTerm : Bool) (S : List LayerS) (px py : Int) : Option Cell :=
  getCharC hb isTerm (S.map LayerS.view) px py

end IcyVerif.Comp
