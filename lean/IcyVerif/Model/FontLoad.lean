import IcyVerif.Model.Bytes
import IcyVerif.Gen.FontPal
/-! # `BitFont::from_bytes` on ARBITRARY bytes (C02 totality, C03 cost)

Model of `src/fonts.rs`: `from_bytes` (length guard, PSF1 / PSF2 magic sniffing, raw fonts recognised by their length),
`load_psf1`, `load_psf2`, `load_plain_font`, `glyphs_from_u8_data` and the loop bound of `calculate_checksum`, over the
byte cursors of `Model/Bytes.lean`: every `data[i]`, `data[a..b]`, `data[a..b].try_into().unwrap()` is `rd` / `slice` /
`rdU32` (can return `.panic <fn>`), the `i64` / `u64` products of the PSF2 consistency check are range-checked
(`chkI64`, `chkU64`: the debug profile panics on overflow), the `while data.len() >= font_height` loop runs on fuel and
RUNNING OUT OF FUEL IS A PANIC (`…::diverge`: the real loop would not terminate).

The glyph bytes themselves are not kept (C17's `Model/Font.lean` models the content and the round trip on well-formed
fonts); what is kept is what C02/C03 observe: size, declared length, number of glyphs stored (`glyphs.len()`), and the two
COST counters — iterations of the glyph loop and of `calculate_checksum`'s `for ch in 0..self.length`.

`glyphZeroGuard` is regenerated from the source: it says whether `if font_height == 0 { return glyphs; }` stands before
the loop.  The model consults it exactly where the source has the guard. -/
namespace IcyVerif.FontLoad
open IcyVerif.Bytes IcyVerif.Gen.FontPal

def sGlyphs : String := "fonts.rs::glyphs_from_u8_data"
def sDiverge : String := "fonts.rs::glyphs_from_u8_data::diverge"
def sPsf1 : String := "fonts.rs::load_psf1"
def sPsf2 : String := "fonts.rs::load_psf2"
def sFrom : String := "fonts.rs::from_bytes"

/-- an `i64` / `u64` result in the debug profile -/
@[inline] def chkI64 (site : String) (v : Int) : Res Int :=
  if -9223372036854775808 ≤ v ∧ v ≤ 9223372036854775807 then .ok v else .panic site
@[inline] def chkU64 (site : String) (v : Nat) : Res Nat :=
  if v < 18446744073709551616 then .ok v else .panic site

structure Font where
  w : Int
  h : Int
  length : Int
  /-- `font.glyphs.len()` -/
  glyphs : Nat
  /-- cost: iterations of the `while` loop of `glyphs_from_u8_data` -/
  iters : Nat
  /-- cost: iterations of `for ch in 0..self.length` in `calculate_checksum` -/
  cksum : Nat
  deriving Repr, DecidableEq

/-- the loop of `glyphs_from_u8_data(h, &d[o..])` after `n` iterations (`data = &d[o..]`, `ch = n`):
    `while data.len() >= font_height { data[..font_height]; data = &data[font_height..]; ch += 1 }`;
    the result is the number of iterations -/
def glyphLoop (h : Nat) (d : Bytes) : Nat → Nat → Nat → Res Nat
  | 0, _, _ => .panic sDiverge
  | fuel + 1, o, n =>
    if h ≤ d.size - o then do
      slice sGlyphs d o (o + h)              -- data[..font_height]
      slice sGlyphs d (o + h) d.size         -- &data[font_height..]
      glyphLoop h d fuel (o + h) (n + 1)
    else .ok n

/-- `glyphs_from_u8_data(h, &d[o..])`: iterations of the loop (height 0: none, IF the guard is in the source) -/
def glyphsFrom (h : Nat) (d : Bytes) (o : Nat) : Res Nat :=
  if glyphZeroGuard && h == 0 then .ok 0 else glyphLoop h d (d.size - o + 1) o 0

/-- how many of `0..n` are `char`s (`char::from_u32(ch as u32)` is `Some`): these are the keys that reach the map -/
def scalarsBelow (n : Nat) : Nat := min n 0xD800 + (min n 0x110000 - min n 0xE000)

/-- `for ch in 0..self.length` -/
def cksumIters (length : Int) : Nat := length.toNat

def mkFont (w h length : Int) (iters : Nat) : Font :=
  { w := w, h := h, length := length, glyphs := scalarsBelow iters, iters := iters, cksum := cksumIters length }

/-- `load_psf1` -/
def loadPsf1 (d : Bytes) : Res Font := do
  let mode ← rd sPsf1 d 2
  let charsize ← rd sPsf1 d 3
  let length : Int := if mode &&& psf1Mode512 = psf1Mode512 then 512 else 256
  slice sPsf1 d 4 d.size                      -- &data[4..]
  let n ← glyphsFrom charsize d 4
  pure (mkFont 8 charsize length n)

/-- `load_plain_font` -/
def loadPlain (d : Bytes) : Res Font :=
  if d.size % plainGlyphs ≠ 0 then .err
  else do
    let ch := d.size / plainGlyphs
    let n ← glyphsFrom ch d 0
    pure (mkFont 8 (asI32 ch) 256 n)

/-- `load_psf2` -/
def loadPsf2 (d : Bytes) : Res Font :=
  if d.size < psf2HeaderLen then .err
  else do
    let version ← rdU32 sPsf2 d 4
    if version > psf2MaxVersion then .err
    else do
      let headersize ← rdU32 sPsf2 d 8
      let len ← rdU32 sPsf2 d 16
      let cs ← rdU32 sPsf2 d 20
      let height ← rdU32 sPsf2 d 24
      let width ← rdU32 sPsf2 d 28
      let length := asI32 len
      let charsize := asI32 cs
      let prod ← chkI64 sPsf2 (length * charsize)
      let expected ← chkI64 sPsf2 (prod + (headersize : Int))
      let w7 ← chkU64 sPsf2 (width + 7)
      let rowBytes ← chkU64 sPsf2 (height * (w7 / 8))
      if length < 0 ∨ charsize ≤ 0 ∨ expected ≠ (d.size : Int) ∨ charsize ≠ (rowBytes : Int) then .err
      else do
        slice sPsf2 d headersize d.size          -- &data[headersize..]
        let n ← glyphsFrom height d headersize
        pure (mkFont (asI32 width) (asI32 height) length n)

/-- `BitFont::from_bytes` -/
def fontFromBytes (d : Bytes) : Res Font :=
  if d.size < fontMinLen then .err
  else do
    let magic16 ← rdU16s sFrom d 0
    if magic16 = psf1Magic then do
      -- `if data[3] == 0 { return Err(..) }` (regenerated flag: is the guard in the source?)
      let cs ← rd sFrom d 3
      if psf1ZeroRejected && cs == 0 then .err else loadPsf1 d
    else do
      let magic32 ← rdU32 sFrom d 0
      if magic32 = psf2Magic then loadPsf2 d
      else loadPlain d

/-- the whole work of one `from_bytes`: loop iterations of glyph extraction and of the checksum -/
def Font.cost (f : Font) : Nat := f.iters + f.cksum

end IcyVerif.FontLoad
