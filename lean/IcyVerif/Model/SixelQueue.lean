/-! Model of the sixel decode queue: `execute_dcs` pushes one `JoinHandle` per sixel sequence onto
    `Buffer::sixel_threads`; `Buffer::update_sixel_threads` ("poll") pops finished handles from the FRONT
    only and places their images on `layers[0].sixels`, removing older images the new one fully covers.

    A handle is `Option Res`: `none` while the decode thread is still running, `some r` once it finished
    with result `r`.  What a decode returns is a function of its payload, not of the schedule, so the
    results are a parameter (`Cfg.res`) and the event `finish id` only makes `res id` available.
    `join` of an unfinished handle is the explicit outcome `blocks`.

    `clear` is what a clear-screen does (`ESC[2J`, form feed): the layer's sixels are wiped and the queued handles
    dropped, so a decode that was in flight can never show up on the cleared screen.

    Not modelled: the OS scheduler and the memory ordering of `JoinHandle::is_finished` (the harness hook
    serialises real thread completions into this event alphabet); `i32` overflow of pixel coordinates. -/
namespace IcyVerif.SixelQueue

/-- a decoded sixel as far as the queue is concerned: `position` (cells) and pixel size -/
structure Img where
  id : Nat
  px : Int
  py : Int
  w : Int
  h : Int
  deriving DecidableEq, Repr

structure Rect where
  x : Int
  y : Int
  w : Int
  h : Int
  deriving DecidableEq, Repr

/-- `Sixel::get_screen_rect(font_dims)` -/
def screenRect (fw fh : Int) (i : Img) : Rect := ⟨i.px * fw, i.py * fh, i.w, i.h⟩

/-- `Rectangle::contains_pt` (inclusive on both ends) -/
def containsPt (r : Rect) (x y : Int) : Bool :=
  decide (r.x ≤ x) && decide (x ≤ r.x + r.w) && decide (r.y ≤ y) && decide (y ≤ r.y + r.h)

/-- `Rectangle::contains_rect`: start and bottom-right corner inside -/
def containsRect (r o : Rect) : Bool :=
  containsPt r o.x o.y && containsPt r (o.x + o.w) (o.y + o.h)

/-- result of a decode thread: `Ok(sixel)`, `Err(_)`, or the thread panicked (`join()` is `Err`) -/
inductive Res
  | ok (img : Img)
  | err
  | panicked
  deriving DecidableEq, Repr

structure Cfg where
  fw : Int
  fh : Int
  res : Nat → Res

structure St where
  /-- `sixel_threads`, front first -/
  queue : List (Nat × Option Res) := []
  /-- `layers[0].sixels` -/
  layer : List Img := []
  /-- ghost: ids pushed onto the layer, in push order (never read by the code) -/
  log : List Nat := []
  deriving Repr

/-- the `while i < sixel_count { if screen_rect.contains_rect(old) { vec.remove(i) } else { i += 1 } }` loop -/
def removeShadowed (cfg : Cfg) (new : Img) : List Img → List Img
  | [] => []
  | old :: rest =>
    if containsRect (screenRect cfg.fw cfg.fh new) (screenRect cfg.fw cfg.fh old) then removeShadowed cfg new rest
    else old :: removeShadowed cfg new rest

/-- shadow removal, then `vec.push(sixel)` -/
def place (cfg : Cfg) (layer : List Img) (img : Img) : List Img := removeShadowed cfg img layer ++ [img]

/-- `JoinHandle::is_finished` -/
def isFinished (h : Option Res) : Bool := h.isSome

inductive Join
  | done (r : Res)
  | blocks

/-- `JoinHandle::join`: returns at once for a finished thread, otherwise waits -/
def join : Option Res → Join
  | some r => .done r
  | none => .blocks

/-- return value of `update_sixel_threads` (`blocked`: it called `join` on a running thread) -/
inductive Ret
  | ok (updated : Bool)
  | err
  | blocked
  deriving DecidableEq, Repr

/-- the `while let Some(handle) = self.sixel_threads.front()` loop -/
def pollLoop (cfg : Cfg) : List (Nat × Option Res) → List Img → List Nat → Bool → St × Ret
  | [], layer, log, upd => (⟨[], layer, log⟩, .ok upd)
  | (id, h) :: q, layer, log, upd =>
    if !isFinished h then (⟨(id, h) :: q, layer, log⟩, .ok false)       -- `return Ok(false)`
    else
      -- `pop_front()`, then `handle.join()`
      match join h with
      | .blocks => (⟨q, layer, log⟩, .blocked)
      | .done .panicked => pollLoop cfg q layer log upd                   -- `let Ok(result) = … else { continue }`
      | .done .err => (⟨q, layer, log⟩, .err)                             -- `result?`
      | .done (.ok img) => pollLoop cfg q (place cfg layer img) (log ++ [id]) true

/-- `Buffer::update_sixel_threads` -/
def poll (cfg : Cfg) (s : St) : St × Ret := pollLoop cfg s.queue s.layer s.log false

inductive Ev
  | arrive (id : Nat)    -- `execute_dcs`: spawn + `push_back`
  | finish (id : Nat)    -- the decode thread of `id` returned
  | poll
  | clear                -- `Buffer::clear_screen` / `Caret::ff`: `layers[0].clear()` + `stop_sixel_threads()`
  deriving DecidableEq, Repr

def step (cfg : Cfg) (s : St) : Ev → St
  | .arrive id => { s with queue := s.queue ++ [(id, none)] }
  | .finish id => { s with queue := s.queue.map fun e => if e.1 = id then (e.1, some (cfg.res id)) else e }
  | .poll => (poll cfg s).1
  -- the screen is wiped and the queued handles are dropped (their threads run on, nobody reads the results);
  -- the ghost log restarts: it lists what was pushed since the last clear
  | .clear => { queue := [], layer := [], log := [] }

def run (cfg : Cfg) (evs : List Ev) : St := evs.foldl (step cfg) {}

/-- run that also records what each poll returned and the layer after it (what the harness observes) -/
def runObs (cfg : Cfg) : St → List Ev → List (Ret × List Img)
  | _, [] => []
  | s, .poll :: evs => let r := poll cfg s; (r.2, r.1.layer) :: runObs cfg r.1 evs
  | s, e :: evs => runObs cfg (step cfg s e) evs

/-- ids in arrival order, since the last clear -/
def arrStep (arr : List Nat) : Ev → List Nat
  | .arrive id => arr ++ [id]
  | .clear => []
  | _ => arr

def arrivals (evs : List Ev) : List Nat := evs.foldl arrStep []

/-- the images among `ids` whose decode succeeded, in that order -/
def okImgs (cfg : Cfg) : List Nat → List Img
  | [] => []
  | id :: ids => match cfg.res id with
    | .ok img => img :: okImgs cfg ids
    | _ => okImgs cfg ids

def okIds (cfg : Cfg) : List Nat → List Nat
  | [] => []
  | id :: ids => match cfg.res id with
    | .ok _ => id :: okIds cfg ids
    | _ => okIds cfg ids

/-- the reference: place the images one after the other -/
def placeAll (cfg : Cfg) (imgs : List Img) : List Img := imgs.foldl (place cfg) []

def pollN (cfg : Cfg) : Nat → St → St
  | 0, s => s
  | n + 1, s => pollN cfg n (poll cfg s).1

end IcyVerif.SixelQueue
