import IcyVerif.Model.Font
import IcyVerif.Model.BinFormats
import IcyVerif.Model.IcyDraw
/-! # Fonts inside containers (C17): XBin, ArtWorx ADF, iCE Draw IDF, IcyDraw

The byte-exact container writers and loaders are C05's `Model/BinFormats.lean` and C07's `Model/IcyDraw.lean`; this file
only adds what C17 needs on top of them:

* `boxFont` / `unboxFont` — how a `BitFont` of `Model/Font.lean` enters a container (`name`, height,
  `convert_to_u8_data()`) and what the loaders make of a font block (`BitFont::create_8("", 8, height, data)`);
* `fontBlocks` — WHERE in the written file the font block(s) are: behind the 11-byte header and the optional 48-byte
  palette block (XBin, second font of the 512-character mode right behind the first), behind version byte and 192-byte
  palette (ADF), behind the image data and in front of the 48-byte palette (IDF).  `Lemmas/FontBox.lean` proves that the
  bytes at these positions are the font data for EVERY picture the writers accept; the harness checks the same positions in
  the files the real crate writes;
* `icyCodecs` — the `FONT_n` payload codec of C07's document model instantiated with the PSF2 writer / `from_bytes`
  of `Model/Font.lean` (name as an IcyDraw string field, then the PSF2 bytes). -/
namespace IcyVerif.FontBox
open IcyVerif.Font IcyVerif.BinFormats IcyVerif.XbCompress IcyVerif.Gen IcyVerif.Uni

/-- what the XBin / ADF / IDF writers take from a `BitFont`: its name, its height and `convert_to_u8_data()` -/
def boxFont (name : List Nat) (f : BitFont) : Option BinFormats.Font :=
  match f.toU8 with
  | .ok d => some ⟨name, f.h.toNat, d⟩
  | _ => none

/-- what the loaders install from a font block: `BitFont::create_8("", 8, height, data)` -/
def unboxFont (F : BinFormats.Font) : BitFont := fromBasic 8 F.height F.data

/-- XBin: the font block starts behind the 11-byte header and the 48-byte palette block (when there is one) -/
def xbFontOffset (p : Pic) : Nat := 11 + (if palIsDefault p.pal then 0 else Xb.paletteLength)

/-- (font slot of the picture, offset in the file, length) of every font block `save f o _ p` writes -/
def fontBlocks (f : Fmt) (o : Opts) (p : Pic) : List (Nat × Nat × Nat) :=
  let pages := analyzeFontUsage p.rows.flatten
  match lookupFont p.fonts (pages.headD 0) with
  | none => []
  | some font =>
    match f with
    | .xb =>
      if !font.isDefault || pages.length > 1 then
        (pages.headD 0, xbFontOffset p, font.data.length) ::
          (if pages.length == 2 then [(pages.getD 1 0, xbFontOffset p + font.data.length, font.data.length)] else [])
      else []
    | .adf => [(pages.headD 0, 1 + BinFmt.adfPaletteSize, font.data.length)]
    | .idf =>
      match idfRows o.compress p.rows with
      | some img => [(pages.headD 0, BinFmt.idfHeaderSize + img.length, font.data.length)]
      | none => []
    | _ => []

/-! ## IcyDraw `FONT_n` -/

/-- a font slot of an IcyDraw document: `BitFont::name` (UTF-8 bytes) and the font -/
structure IcyFont where
  name : List Nat
  font : BitFont
deriving DecidableEq

/-- C07's codec record with the real `FONT_n` payload: `write_utf8_encoded_string(name)` is part of C07's `fontPayload`,
    the data behind it is `to_psf2_bytes().unwrap()` (a font with a missing glyph panics in the writer; such fonts are
    outside `WfFont`, the model writes nothing for them), read back by `read_utf8_encoded_string` (lossy) +
    `BitFont::from_bytes`.  Palette and SAUCE codecs stay parameters (C16 / C11). -/
def icyCodecs {S : Type} (palEnc : List IcyDraw.RGB → List Nat) (palDec : List Nat → IcyDraw.Res (List IcyDraw.RGB))
    (sauceDec : List Nat → IcyDraw.Res (Option S)) (dflt : IcyFont) : IcyDraw.Codecs IcyFont S :=
  { palEnc := palEnc, palDec := palDec,
    fontName := fun f => f.name,
    fontData := fun f => match f.font.toPsf2 with | .ok d => d | _ => [],
    fontDec := fun name data =>
      match fromBytes data with
      | .ok f => .ok ⟨lossyBytes name, f⟩
      | .err => .fail .errCodec
      | .panic => .fail .panic,
    sauceDec := sauceDec, defaultFont := dflt }

end IcyVerif.FontBox
