/-! Schema of the regenerated RIPscrip command table (`Gen/Rip.lean`): what `tools/gens/rip.py` reads off
`Command::parse` / `to_rip_string` in `src/parsers/rip/commands.rs` and the `ReadCommand` arms of
`src/parsers/rip/mod.rs`.  No imports. -/
namespace IcyVerif.RipSpec

/-- what one `parse` arm does with the character -/
inductive Act where
  /-- `parse_base_36(&mut self.<int field i>, ch)?` -/
  | digit (i : Nat)
  /-- `self.<field i> = ch.to_digit(36).unwrap() as i32` (panics on a non-digit) -/
  | digitUnwrap (i : Nat)
  /-- `self.<bool field i> = ch == '1'` -/
  | flag (i : Nat)
  /-- `self.<string field s>.push(ch)` -/
  | push (s : Nat)
  /-- `self.<char field s> = ch` -/
  | setc (s : Nat)
  /-- `if *state % 2 == 0 { v.push(0) }; let mut p = v.pop().unwrap(); parse_base_36(&mut p, ch)?; v.push(p)` -/
  | vdigit
  /-- `if ch == '$' { return Ok(false) }; self.<string s>.push(ch)` -/
  | dollar (s : Nat)
  deriving Repr, DecidableEq

/-- the `Ok(..)` an arm ends with -/
inductive Ret where
  | t
  | f
  /-- `Ok(*state < n)` -/
  | lt (n : Nat)
  /-- `Ok(*state < (self.<int field i> + 1) * 4)` -/
  | ltPoly (i : Nat)
  deriving Repr, DecidableEq

structure Arm where
  lo : Nat
  hi : Nat
  act : Act
  ret : Ret
  deriving Repr, DecidableEq

/-- one piece of `to_rip_string` -/
inductive Piece where
  | lit (s : String)
  /-- `to_base_36(width, self.<int field i>)` -/
  | b36 (width : Nat) (i : Nat)
  /-- `i32::from(self.<bool field i>)` -/
  | boolf (i : Nat)
  | str (s : Nat)
  /-- `to_base_36(2, v.len() / 2)` -/
  | vecHalfLen
  /-- every element of the vector as `to_base_36(2, _)` -/
  | vec
  deriving Repr, DecidableEq

structure CmdSpec where
  name : String
  nInts : Nat
  nStrs : Nat
  /-- string slots that are a Rust `char` field (default `'\0'`, printed as one character) -/
  charSlots : List Nat
  arms : List Arm
  /-- the `_ =>` arm; `none` = `Err("Invalid state")` -/
  dflt : Option (Act × Ret)
  fmt : List Piece
  deriving Repr

structure Dispatch where
  level : Nat
  ch : Nat
  /-- `push_command`: the command has no parameters and runs at once -/
  immediate : Bool
  cmd : Nat
  deriving Repr, DecidableEq

end IcyVerif.RipSpec
