import IcyVerif.Model.TermAnsi
import IcyVerif.Gen.TextLoad
/-! # TermFile — the ANSI parser driving a FILE buffer (`is_terminal_buffer = false`)
What `Buffer::from_bytes` → `parse_with_parser` (src/formats/mod.rs) runs for `.ans/.ice/.diz` and unknown
extensions, and — wrapped (`Model/TermFileWrap.lean`) — for `.pcb/.avt/.msg/.an1-9`.  The parser state machine is
the one of `Model/TermAnsi.lean` (its geometry-free parts — `csiCmd`, `csiReq`, `devAttr`, `musicStep`, `executeDcs`,
`sgrOk`, `hexMacro`, tab stops, margin setters — are reused as they are); what differs on a file buffer is
transcribed here from `src/parsers/mod.rs`, `src/terminal_state.rs`, `src/buffers.rs`, `src/layer.rs`, `src/line.rs`:

* `limit_caret_pos` clamps the row to `0 ..= MAX_FILE_BUFFER_HEIGHT - 1` (no screen to clamp to), the first visible
  line is 0, margins are ignored by the editable-region getters, `needs_scrolling` is false;
* `Caret::lf` grows the ROW TABLE instead of the buffer height and returns early; `Buffer::print_char` wraps at the
  LAYER width and grows the layer height; `get_last_editable_line = max(lines.len(), height - 1)` reads the row table,
  so the row table is part of the state: `Rows` = layer size + `chars.len()` of every row (`Line::create(w)` rows
  have `w` cells, `Line::with_capacity(w)` rows have none).  Every content operation is transcribed as its effect
  on `Rows` (cells themselves carry no geometry);
* open hyperlinks (`OSC 8`) are kept with their start position because closing one multiplies a row distance by
  the width with a plain `i32` `*`;
* sixel sequences are queued with the caret position (`sixq`), form feed / clear screen drop the queue.

`i32` arithmetic: every plain `+`/`-`/`*` whose operands are not constant-bounded is an explicit check (`add1`,
`hyperLen`) that yields `Panic.overflow <site>`; there is no conservative guard in this model. -/
namespace IcyVerif.TermFile
open IcyVerif.Term

/-- `MAX_FILE_BUFFER_HEIGHT` (src/terminal_state.rs), regenerated -/
def maxRows : Int := IcyVerif.Gen.TextLoad.maxFileRows
/-- the last row a cursor can be on -/
def capY : Int := maxRows - 1
def limitRowClamped : Bool := IcyVerif.Gen.TextLoad.limitRowClamped
def lfClamped : Bool := IcyVerif.Gen.TextLoad.lfClamped

/-! ## the row table of layer 0 -/
structure Rows where
  lw : Int            -- `Layer::size.width` (never changes during a load)
  lh : Int            -- `Layer::size.height`
  lens : Array Nat    -- `lines[i].chars.len()`
deriving Repr, DecidableEq, Inhabited

def Rows.nl (r : Rows) : Int := (r.lens.size : Int)

/-- `lines.resize(n, Line::create(w))` when `n > lines.len()` -/
def growFull (l : Array Nat) (n w : Nat) : Array Nat := l ++ Array.replicate (n - l.size) w
/-- `lines.resize(n, Line::with_capacity(_))` / pushing empty lines up to `n` -/
def growEmpty (l : Array Nat) (n : Nat) : Array Nat := l ++ Array.replicate (n - l.size) 0

/-- `Layer::set_char((x, y), _)` on the unlocked, visible layer 0 without alpha channel -/
def Rows.setChar (r : Rows) (x y : Int) : Rows :=
  if x < 0 ∨ y < 0 ∨ x ≥ r.lw ∨ y ≥ r.lh then r
  else { r with lens := (growFull r.lens (y.toNat + 1) r.lw.toNat).modify y.toNat (fun n => max n (x.toNat + 1)) }

/-- `Layer::set_char` for every cell of `x0..=x1` × `y0..=y1`, in any order (rows created on the way are `lw` wide) -/
def Rows.touchRect (r : Rows) (x0 x1 y0 y1 : Int) : Rows :=
  let xa := max x0 0
  let xb := min x1 (r.lw - 1)
  let ya := max y0 0
  let yb := min y1 (r.lh - 1)
  if xa > xb ∨ ya > yb then r
  else
    let l := growFull r.lens (yb.toNat + 1) r.lw.toNat
    { r with lens := l.mapIdx (fun i n => if ya.toNat ≤ i ∧ i ≤ yb.toNat then max n (xb.toNat + 1) else n) }

/-- `chars.len()` of row `y` (0 when the row does not exist) -/
def Rows.rowLen (r : Rows) (y : Int) : Int := if y < 0 then 0 else ((r.lens[y.toNat]?.getD 0 : Nat) : Int)

/-- `Layer::insert_line(idx, Line::with_capacity(_))` for `idx ≥ 0` (a negative index asserts: guarded by the callers) -/
def Rows.insertLine (r : Rows) (idx : Int) : Rows :=
  { r with lens := (growFull r.lens idx.toNat r.lw.toNat).insertIdxIfInBounds idx.toNat 0 }

/-- `Caret::del`: `if let Some(line) = lines.get_mut(y as usize) { if (x as usize) < len { chars.remove(x) } }` -/
def Rows.del (r : Rows) (x y : Int) : Rows :=
  if y < 0 ∨ y ≥ r.nl ∨ x < 0 then r
  else { r with lens := r.lens.modify y.toNat (fun len => if x.toNat < len then len - 1 else len) }
/-- `Caret::ins` -/
def Rows.ins (r : Rows) (x y : Int) : Rows :=
  if y < 0 ∨ y ≥ r.nl ∨ x < 0 then r
  else { r with lens := r.lens.modify y.toNat (fun len => if x.toNat < len then len + 1 else len) }

def iterN {α : Type} (f : α → α) : Nat → α → α
  | 0, a => a
  | n+1, a => iterN f n (f a)

/-- `Caret::erase_charcter(n)` for `x ≥ 0`: `Line::set_char(i)` for `i` in `x .. x + min(width - x, n)` on an existing row
    (directly on the line: not limited by the layer width) -/
def Rows.ech (r : Rows) (tw x y n : Int) : Rows :=
  let k := min (tw - x) n
  if k ≤ 0 ∨ y < 0 ∨ y ≥ r.nl then r
  else { r with lens := r.lens.modify y.toNat (fun len => max len (x + k).toNat) }

/-! ## getters of a file buffer (`src/buffers.rs`) -/
/-- `get_last_editable_line`: `max(layers[0].lines.len() as i32, height.saturating_sub(1))` -/
def lastEditableF (s : Scr) (r : Rows) : Int := max r.nl (satSub s.bh 1)
/-- `get_last_editable_column`: `width.saturating_sub(1)` (margins are ignored on a file buffer) -/
def lastColF (s : Scr) : Int := satSub s.bw 1

/-- `Buffer::scroll_up` / `scroll_down`: both visit every cell of columns `0..=last column`, rows `0..=last editable line` -/
def scrollUpF (s : Scr) (r : Rows) : Rows := r.touchRect 0 (lastColF s) 0 (lastEditableF s r)
def scrollDownF (s : Scr) (r : Rows) : Rows := r.touchRect 0 (lastColF s) 0 (lastEditableF s r)
/-- `Buffer::scroll_left`: every existing non-empty row gets `insert_char(last column + 1)` then `remove(0)` -/
def scrollLeftF (s : Scr) (r : Rows) : Rows :=
  { r with lens := r.lens.map (fun len => if len > 0 then max len (lastColF s + 1).toNat else len) }
/-- `Buffer::scroll_right`: `insert(0)`, then `remove(last column + 1)` when the row got longer than that -/
def scrollRightF (s : Scr) (r : Rows) : Rows :=
  { r with lens := r.lens.map (fun len => if len > 0 then (if (lastColF s).toNat + 1 < len + 1 then len else len + 1) else len) }

/-- `Buffer::remove_terminal_line(y)` for `y ≥ 0` -/
def removeTermLine (s : Scr) (r : Rows) (y : Int) : Rows :=
  if y ≥ r.nl then r else
  let r1 : Rows := { r with lens := r.lens.eraseIdxIfInBounds y.toNat }
  match s.mtb with
  | some (_, e) => r1.insertLine e
  | none => r1
/-- `for _ in 0..k { remove_terminal_line(y) }` (DL): without top/bottom margins every iteration removes row `y` while
    there is one, i.e. the rows `y .. y + k` disappear (closed form: the loop itself is quadratic in the row count);
    with margins a row is re-inserted at the bottom margin after each removal — iterated as the code does -/
def removeTermLines (s : Scr) (r : Rows) (y : Int) (k : Nat) : Rows :=
  match s.mtb with
  | none =>
    if y < 0 then r
    else { r with lens := r.lens.extract 0 y.toNat ++ r.lens.extract (y.toNat + k) r.lens.size }
  | some _ => iterN (fun r => removeTermLine s r y) k r

/-- `Buffer::insert_terminal_line(y)` for `y ≥ 0` and a non-negative bottom margin -/
def insertTermLine (s : Scr) (r : Rows) (y : Int) : Rows :=
  let r1 : Rows := match s.mtb with
    | some (_, e) => if e < r.nl then { r with lens := r.lens.eraseIdxIfInBounds e.toNat } else r
    | none => r
  r1.insertLine y

/-- `get_rect_area(offset)` + the nested `set_char` loops of DECFRA / DECERA / DECSERA -/
def rectF (s : Scr) (r : Rows) (pt pl pb pr : Int) : Rows :=
  let m := max r.nl s.th
  let top := min (max pt 1) m - 1
  let left := min (max pl 1) s.tw - 1
  let bottom := min (max pb 1) m - 1
  let right := min (max pr 1) s.tw - 1
  if top > bottom ∨ left > right then r else r.touchRect left right top bottom

/-! ## `i32` checks -/
/-- plain `v + 1` -/
def add1 (site : String) (v : Int) : Res Int :=
  if v + 1 ≤ 2147483647 then .ok (v + 1) else .error (.overflow site)

/-! ## `TerminalState::limit_caret_pos` on a file buffer -/
def limitF (s : Scr) (c : Car) : Res Car :=
  if limitRowClamped then
    if 0 > capY then .error .clampMinMax        -- `clamp(0, MAX_FILE_BUFFER_HEIGHT - 1)` asserts min <= max
    else .ok { c with y := clampI c.y 0 capY, x := clampI c.x 0 (max (s.tw - 1) 0) }
  else .ok { c with y := max c.y 0, x := clampI c.x 0 (max (s.tw - 1) 0) }

/-! ## caret primitives on a file buffer -/
/-- `Caret::lf`: `x = 0; y += 1; [limit_caret_pos;] while y >= lines.len() { push Line::with_capacity }; return` -/
def lfF (s : Scr) (c : Car) (r : Rows) : Res (Car × Rows) :=
  match add1 "parsers/mod.rs::lf: self.pos.y += 1" c.y with
  | .error e => .error e
  | .ok y1 =>
    match (if lfClamped then limitF s { c with x := 0, y := y1 } else .ok { c with x := 0, y := y1 }) with
    | .error e => .error e
    | .ok c1 => .ok (c1, { r with lens := growEmpty r.lens (c1.y.toNat + 1) })

/-- `check_scrolling_on_caret_down(force = true)` (with `force = false` nothing happens: `needs_scrolling` is false) -/
def scrollDownForce (s : Scr) (c : Car) (r : Rows) : Car × Rows :=
  if c.y > lastEditableF s r then ({ c with y := c.y - 1 }, scrollUpF s r) else (c, r)
/-- `check_scrolling_on_caret_up(force = true)`: the first editable line is 0 -/
def scrollUpForce (s : Scr) (c : Car) (r : Rows) : Car × Rows :=
  if c.y < 0 then ({ c with y := 0 }, iterN (scrollDownF s) (min (satSub 0 c.y) s.th).toNat r) else (c, r)

def leftF (s : Scr) (c : Car) (n : Int) : Res Car := limitF s { c with x := satSub c.x n }
def rightF (s : Scr) (c : Car) (n : Int) : Res Car := limitF s { c with x := satAdd c.x n }
def upF (s : Scr) (c : Car) (n : Int) : Res Car := limitF s { c with y := satSub c.y n }
def downF (s : Scr) (c : Car) (n : Int) : Res Car := limitF s { c with y := satAdd c.y n }

def liftLim (r : Res Car) (rows : Rows) : Res (Car × Rows) :=
  match r with
  | .ok c => .ok (c, rows)
  | .error e => .error e

def indexF (s : Scr) (c : Car) (r : Rows) : Res (Car × Rows) :=
  match add1 "parsers/mod.rs::index: self.pos.y += 1" c.y with
  | .error e => .error e
  | .ok y1 =>
    let (c1, r1) := scrollDownForce s { c with y := y1 } r
    liftLim (limitF s c1) r1
def nextLineF (s : Scr) (c : Car) (r : Rows) : Res (Car × Rows) :=
  match add1 "parsers/mod.rs::next_line: self.pos.y += 1" c.y with
  | .error e => .error e
  | .ok y1 =>
    let (c1, r1) := scrollDownForce s { c with y := y1, x := 0 } r
    liftLim (limitF s c1) r1
/-- `self.pos.y -= 1` cannot overflow for `y ≥ 0`; for a negative row it is checked too -/
def reverseIndexF (s : Scr) (c : Car) (r : Rows) : Res (Car × Rows) :=
  if c.y - 1 < -2147483648 then .error (.overflow "parsers/mod.rs::reverse_index: self.pos.y -= 1") else
  let (c1, r1) := scrollUpForce s { c with y := c.y - 1 } r
  liftLim (limitF s c1) r1

/-- `Buffer::print_char` on a file buffer -/
def printCharF (s : Scr) (c : Car) (r : Rows) : Res (Car × Rows) :=
  if c.ins = true ∧ c.y < 0 then .error (.negIndex "print_char insert: lines.resize(y as usize + 1)")
  else if c.ins = true ∧ c.x < 0 then .error (.negIndex "print_char insert: Line::insert_char(x): chars.insert(x as usize)")
  else
    -- insert mode: missing rows are created EMPTY, then `insert_char(x)`: `len = max(len, x) + 1`
    let r1 : Rows := if c.ins then
        { r with lens := (growEmpty r.lens (c.y.toNat + 1)).modify c.y.toNat (fun len => max len c.x.toNat + 1) }
      else r
    match add1 "parsers/mod.rs::print_char: caret.pos.y + 1" c.y with
    | .error e => .error e
    | .ok y1 =>
      let r2 : Rows := if y1 > r1.lh then { r1 with lh := y1 } else r1    -- `layers[layer].set_height(y + 1)`
      let r3 := r2.setChar c.x c.y
      match add1 "parsers/mod.rs::print_char: caret.pos.x += 1" c.x with
      | .error e => .error e
      | .ok x1 =>
        if x1 ≥ r.lw then
          if s.autowrap = true then lfF s { c with x := x1 } r3 else .ok ({ c with x := x1 - 1 }, r3)
        else .ok ({ c with x := x1 }, r3)

def printNF : Nat → Scr → Car → Rows → Res (Car × Rows)
  | 0, _, c, r => .ok (c, r)
  | n+1, s, c, r =>
    match printCharF s c r with
    | .ok (c, r) => printNF n s c r
    | .error e => .error e

/-! ## state -/
structure FSt where
  s : Scr
  c : Car
  p : Par
  r : Rows
  hl : List (Int × Int) := []                  -- `Parser::hyper_links`: start positions (x, y) of the open hyperlinks
  sixq : List (Int × Int × List Char) := []     -- `Buffer::sixel_threads`: caret position and DCS string of every queued decode
  hlDone : List Int := []                       -- `layers[0].hyperlinks`: lengths of the closed hyperlinks
deriving Repr, Inhabited

abbrev FR := Res (FSt × Out)
@[inline] def fret (st : FSt) (o : Out) : FR := .ok (st, o)
@[inline] def fsetSt (st : FSt) (ps : PSt) : FSt := { st with p := { st.p with st := ps } }
@[inline] def fdflt (st : FSt) : FSt := fsetSt st .dflt
@[inline] def toSt (st : FSt) : St := { s := st.s, c := st.c, p := st.p }
/-- run one of the geometry-free state functions of `TermAnsi` (`csiCmd`, `csiReq`, `devAttr`) -/
def viaSt (st : FSt) (r : R) : FR :=
  match r with
  | .ok (t, o) => .ok ({ st with s := t.s, c := t.c, p := t.p }, o)
  | .error e => .error e
def fliftC (st : FSt) (r : Res Car) (o : Out) : FR :=
  match r with
  | .ok c => fret { st with c := c } o
  | .error e => .error e
def fliftCR (st : FSt) (r : Res (Car × Rows)) (o : Out) : FR :=
  match r with
  | .ok (c, rows) => fret { st with c := c, r := rows } o
  | .error e => .error e

/-- `Caret::ff` on a file buffer: `reset_terminal`, `layer.clear()`, `stop_sixel_threads`, cursor home (the buffer size stays) -/
def ffF (st : FSt) : FSt :=
  { st with s := resetTerminal st.s, c := { st.c with x := 0, y := 0 }, r := { st.r with lens := #[] }, sixq := [], hlDone := [] }
/-- `Buffer::clear_screen` on a file buffer -/
def clearScreenF (st : FSt) : FSt :=
  { st with c := { st.c with x := 0, y := 0 }, r := { st.r with lens := #[] }, sixq := [], hlDone := [] }

/-- closing a hyperlink: `width - p.x + (cp.y - p.y) * width + p.x` with plain `i32` operators, evaluated left to right -/
def hyperLen (tw cx cy px py : Int) : Res Int :=
  if cy = py then
    if InI32 (cx - px) then .ok (cx - px) else .error (.overflow "parsers/ansi/osc.rs::handle_osc_hyperlinks: cp.x - p.position.x")
  else if ¬ InI32 (tw - px) then .error (.overflow "parsers/ansi/osc.rs::handle_osc_hyperlinks: width - p.position.x")
  else if ¬ InI32 (cy - py) then .error (.overflow "parsers/ansi/osc.rs::handle_osc_hyperlinks: cp.y - p.position.y")
  else if ¬ InI32 ((cy - py) * tw) then .error (.overflow "parsers/ansi/osc.rs::handle_osc_hyperlinks: (cp.y - p.position.y) * width")
  else if ¬ InI32 (tw - px + (cy - py) * tw) then .error (.overflow "parsers/ansi/osc.rs::handle_osc_hyperlinks: … + …")
  else if ¬ InI32 (tw - px + (cy - py) * tw + px) then .error (.overflow "parsers/ansi/osc.rs::handle_osc_hyperlinks: … + p.position.x")
  else .ok (tw - px + (cy - py) * tw + px)

/-- number of leading digit / `;` characters of the OSC string (`i` of `parse_osc`) -/
def oscPrefixLen : List Char → Nat
  | [] => 0
  | ch :: rest => if isDigit ch ∨ ch = ';' then oscPrefixLen rest + 1 else 0

/-- `parse_osc`: palette (`4;…`, Ok/Err from the oracle), hyperlinks (`8;;url` opens, `8;;` closes), else Err -/
def parseOscF (st : FSt) (o : Orc) : FR :=
  let nums := (takeNums st.p.str st.p.nums).1
  let st1 : FSt := { st with p := { st.p with st := .dflt, nums := nums } }
  if firstOr nums 0 = 4 ∧ ¬ nums.isEmpty then fret st1 (if o.extOk then .ok else .err)
  else if oscPrefixLen st.p.str = 3 ∧ firstOr nums 0 = 8 then
    if (st.p.str.drop 3).isEmpty then
      match st.hl with
      | [] => fret st1 .ok
      | (px, py) :: rest =>
        match hyperLen st.s.tw st.c.x st.c.y px py with
        | .ok len => fret { st1 with hl := rest, hlDone := st.hlDone ++ [len] } .ok
        | .error e => .error e
    else fret { st1 with hl := (st.c.x, st.c.y) :: st.hl } .ok
  else fret st1 .err

/-- the sixel branch of `execute_dcs`: the recorded string is a sixel sequence (numbers, then `q`) -/
def dcsIsSixel (str : List Char) : Bool :=
  if startsWith str "CTerm:Font:".toList then false
  else match (takeNums str []).2 with
    | '!' :: 'z' :: _ => false
    | 'q' :: _ => true
    | _ => false

/-- `execute_dcs`: as on a terminal; a sixel sequence additionally queues a decode at the caret position -/
def executeDcsF (st : FSt) (o : Orc) : FR :=
  let (p, out) := executeDcs { st.p with st := .dflt } o
  if dcsIsSixel st.p.str then fret { st with p := p, sixq := st.sixq ++ [(st.c.x, st.c.y, st.p.str)] } out
  else fret { st with p := p } out

/-! ## `CSI … <final>` on a file buffer (`ReadCSISequence`) -/
def csiFinalF (cfg : Cfg) (o : Orc) (st : FSt) (isStart : Bool) (ch : Char) : FR :=
  let nums := st.p.nums
  let s := st.s
  let c := st.c
  let r := st.r
  let d := fdflt st
  if ch = 'm' then fret d (if sgrOk nums then .ok else .err)
  else if ch = 'H' ∨ ch = 'f' then
    match nums with
    | [] => fliftC d (limitF s { c with x := 0, y := 0 }) .ok
    | n0 :: rest =>
      let c := if n0 ≥ 0 then { c with y := satAdd 0 (max 0 (n0 - 1)) } else c
      let c := match rest with
        | n1 :: _ => if n1 ≥ 0 then { c with x := max 0 (n1 - 1) } else c
        | [] => { c with x := 0 }
      fliftC d (limitF s c) .ok
  else if ch = 'C' then fliftC d (rightF s c (firstOr nums 1)) .ok
  else if ch = 'j' ∨ ch = 'D' then fliftC d (leftF s c (firstOr nums 1)) .ok
  else if ch = 'k' ∨ ch = 'A' then fliftC d (upF s c (firstOr nums 1)) .ok
  else if ch = 'B' then fliftC d (downF s c (firstOr nums 1)) .ok
  else if ch = 's' then
    if s.declrmm then
      match nums with
      | [a, b] => fret { d with s := setMarginsLR s (a - 1) (b - 1) } .ok
      | [a] => fret { d with s := setMarginsLR s 0 (a - 1) } .ok
      | [] => fret { d with s := setMarginsLR s 0 s.th } .ok
      | _ => fret d .err
    else fret { d with p := { d.p with savedPos := (c.x, c.y) } } .ok
  else if ch = 'u' then fliftC d (limitF s { c with x := st.p.savedPos.1, y := st.p.savedPos.2 }) .ok
  else if ch = 'd' then
    let num := match nums with | n :: _ => n - 1 | [] => 0
    fliftC d (limitF s { c with y := satAdd 0 num }) .ok
  else if ch = 'e' then fliftC d (limitF s { c with y := satAdd (satAdd 0 c.y) (firstOr nums 1) }) .ok
  else if ch = '\'' then
    let num := match nums with | n :: _ => n - 1 | [] => 0
    if o.lineLen ≥ 0 then fliftC d (limitF s { c with x := clampI num 0 o.lineLen }) .ok else fret d .ok
  else if ch = 'a' then
    if o.lineLen ≥ 0 then fliftC d (limitF s { c with x := min o.lineLen (satAdd c.x (firstOr nums 1)) }) .ok
    else fret d .ok
  else if ch = 'G' then
    let num := match nums with | n :: _ => n - 1 | [] => 0
    fliftC d (limitF s { c with x := num }) .ok
  else if ch = 'E' then fliftC d (limitF s { c with y := satAdd (satAdd 0 c.y) (firstOr nums 1), x := 0 }) .ok
  else if ch = 'F' then fliftC d (limitF s { c with y := satSub (satAdd 0 c.y) (firstOr nums 1), x := 0 }) .ok
  else if ch = 'n' then
    match nums with
    | [n] =>
      if n = 6 then
        -- cursor position report: `caret.pos.y + 1`, `caret.pos.x + 1`
        match add1 "parsers/ansi/mod.rs::print_char: DSR 6 caret.pos.y + 1" c.y, add1 "parsers/ansi/mod.rs::print_char: DSR 6 caret.pos.x + 1" c.x with
        | .ok _, .ok _ => fret d .ok
        | .error e, _ => .error e
        | _, .error e => .error e
      else fret d (if n = 5 ∨ n = 255 then .ok else .err)
    | _ => fret d .err
  else if ch = 'X' then
    if EchPanics s c (firstOr nums 1) then .error (.negIndex "erase_charcter: Line::set_char(x)")
    else fret { d with r := r.ech s.tw c.x c.y (firstOr nums 1) } (if nums.isEmpty then .err else .ok)
  else if ch = '@' then
    match nums with
    | [] => fret { d with r := r.ins c.x c.y } .err
    | n :: _ => fret { d with r := iterN (fun r => r.ins c.x c.y) (min n s.tw).toNat r } .ok
  else if ch = 'M' then
    if cfg.musicOpt = 1 ∨ cfg.musicOpt = 3 then fret { st with p := { st.p with st := .music .style, mus := musicEnter st.p.mus } } .ok
    else if nums.isEmpty then
      if c.y < r.nl then
        if LineOpPanics s c.y then .error (.negIndex "remove_terminal_line: Layer::remove_line(y) / insert_line(end)")
        else fret { d with r := removeTermLine s r c.y } .ok
      else fret d .ok
    else if nums.length ≠ 1 then fret d .err
    else
      let k := min (firstOr nums 1) (r.nl - c.y)
      if k > 0 ∧ LineOpPanics s c.y then .error (.negIndex "remove_terminal_line: Layer::remove_line(y) / insert_line(end)")
      else fret { d with r := removeTermLines s r c.y k.toNat } .ok
  else if ch = 'N' then
    if cfg.musicOpt = 2 ∨ cfg.musicOpt = 3 then fret { st with p := { st.p with st := .music .style, mus := musicEnter st.p.mus } } .ok else fret st .ok
  else if ch = '|' then
    if cfg.musicOpt ≠ 0 then fret { st with p := { st.p with st := .music .style, mus := musicEnter st.p.mus } } .ok else fret st .ok
  else if ch = 'P' then
    match nums with
    | [] => fret { d with r := r.del c.x c.y } .ok
    | [n] => fret { d with r := iterN (fun r => r.del c.x c.y) (min n (r.rowLen c.y)).toNat r } .ok
    | _ => fret d .err
  else if ch = 'L' then
    if nums.isEmpty then
      if LineOpPanics s c.y then .error (.negIndex "insert_terminal_line: lines.remove(end) / Layer::insert_line(y)")
      else fret { d with r := insertTermLine s r c.y } .ok
    else if nums.length ≠ 1 then fret d .err
    else
      let k := min (firstOr nums 1) s.th
      if k > 0 ∧ LineOpPanics s c.y then .error (.negIndex "insert_terminal_line: lines.remove(end) / Layer::insert_line(y)")
      else fret { d with r := iterN (fun r => insertTermLine s r c.y) k.toNat r } .ok
  else if ch = 'J' then
    match nums with
    | [] => fret { d with r := r.touchRect 0 (s.bw - 1) c.y (s.bh - 1) } .ok
    | n :: _ =>
      if n = 0 then fret { d with r := r.touchRect 0 (s.bw - 1) c.y (s.bh - 1) } .ok
      else if n = 1 then fret { d with r := r.touchRect 0 (s.bw - 1) 0 (c.y - 1) } .ok
      else if n = 2 ∨ n = 3 then fret (clearScreenF d) .ok
      else fret { d with r := r.touchRect 0 (s.bw - 1) c.y (s.bh - 1) } .err
  else if ch = '?' then if !isStart then fret st .err else fret (fsetSt st .csiCmd) .ok
  else if ch = '=' then if !isStart then fret st .err else fret (fsetSt st .csiReq) .ok
  else if ch = '!' then if !isStart then fret st .err else fret (fsetSt st .rip) .ok
  else if ch = '<' then if !isStart then fret st .err else fret (fsetSt st .devAttr) .ok
  else if ch = '*' ∨ ch = '$' ∨ ch = ' ' then fret (fsetSt st (.endCsi ch)) .ok
  else if ch = 'K' then
    match nums with
    | [] => fret { d with r := r.touchRect c.x (s.bw - 1) c.y c.y } .ok
    | n :: _ =>
      if n = 0 then fret { d with r := r.touchRect c.x (s.bw - 1) c.y c.y } .ok
      else if n = 1 then fret { d with r := r.touchRect 0 (c.x - 1) c.y c.y } .ok
      else if n = 2 then fret { d with r := r.touchRect 0 (s.bw - 1) c.y c.y } .ok
      else fret d .err
  else if ch = 'c' then fret d .ok
  else if ch = 'r' then
    if nums.length > 2 then
      match nums with
      | [a, b, l] =>
        fret { d with s := setMarginsLR (setMarginsTB s (a - 1) (b - 1)) (l - 1) s.tw, c := { c with x := 0, y := 0 } } .ok
      | [a, b, l, rr] =>
        fret { d with s := setMarginsLR (setMarginsTB s (a - 1) (b - 1)) (l - 1) (rr - 1), c := { c with x := 0, y := 0 } } .ok
      | _ => fret d .err
    else
      let s' := match nums with
        | [a, b] => setMarginsTB s (a - 1) (b - 1)
        | [a] => setMarginsTB s 0 (a - 1)
        | _ => setMarginsTB s 0 s.th
      fret { d with s := s', c := { c with x := 0, y := 0 } } .ok
  else if ch = 'h' ∨ ch = 'l' then
    match nums with
    | [n] => if n = 4 then fret { d with c := { c with ins := (ch = 'h') } } .ok else fret d .err
    | _ => fret d .err
  else if ch = '~' then
    match nums with
    | [n] =>
      if n = 1 then fret { d with c := { c with x := 0 } } .ok
      else if n = 2 then fret { d with r := r.ins c.x c.y } .ok
      else if n = 3 then fret { d with r := r.del c.x c.y } .ok
      else if n = 4 then fret { d with c := { c with x := s.tw - 1 } } .ok
      else if n = 5 ∨ n = 6 then fret d .ok
      else fret d .err
    | _ => fret d .err
  else if ch = 't' then
    match nums with
    | [a, h, w] =>
      if a = 8 then
        let w := max (min w 132) 1
        let h := max (min h 60) 1
        let d := { d with p := { d.p with resized := true } }
        fret { d with s := { s with tw := w, th := h, tabs := resetTabs w, mtb := none, mlr := none } } .resize
      else fret d .err
    | [a, _, _, _] => fret d (if a = 0 ∨ a = 1 then .ok else .err)
    | _ => fret d .err
  else if ch = 'S' then fret { d with r := iterN (scrollUpF s) (min (firstOr nums 1) s.th).toNat r } .ok
  else if ch = 'T' then fret { d with r := iterN (scrollDownF s) (min (firstOr nums 1) s.th).toNat r } .ok
  else if ch = 'b' then fliftCR d (printNF (repCount nums s) s c r) .ok
  else if ch = 'g' then
    if nums.length > 1 then fret d .err
    else
      let num := firstOr nums 0
      if num = 0 then fret { d with s := { s with tabs := s.tabs.filter (fun t => t ≠ c.x) } } .ok
      else if num = 3 ∨ num = 5 then fret { d with s := { s with tabs := [] } } .ok
      else fret d .err
  else if ch = 'Y' then
    if nums.length > 1 then fret d .err
    else fliftC d (limitF s { c with x := iterTab (nextTabStop s.tabs s.tw) (tabCount nums s) c.x }) .ok
  else if ch = 'Z' then
    if nums.length > 1 then fret d .err
    else fliftC d (limitF s { c with x := iterTab (prevTabStop s.tabs) (tabCount nums s) c.x }) .ok
  else
    let st1 := fsetSt st (.csi false)
    if '@' ≤ ch ∧ ch ≤ '~' then fret d .err
    else if isDigit ch then fret { st1 with p := { st1.p with nums := pushDigit nums ch } } .ok
    else if ch = ';' then fret { st1 with p := { st1.p with nums := nums ++ [0] } } .ok
    else fret d .err

/-- `EndCSI(f)` on a file buffer -/
def endCsiF (o : Orc) (inv : Int → FSt → Res FSt) (st : FSt) (f ch : Char) : FR :=
  let nums := st.p.nums
  let d := fdflt st
  if f = '*' then
    if ch = 'z' then
      match nums with
      | id :: _ => match inv id d with
        | .ok st' => fret st' .ok
        | .error e => .error e
      | [] => fret d .ok
    else if ch = 'r' then fret d .ok
    else if ch = 'y' then
      match nums with
      | [_, _, pt, pl, pb, pr] =>
        fret d (if pt > pb ∨ pl > pr ∨ pr > st.s.tw ∨ pb > st.s.th ∨ pl < 0 ∨ pt < 0 then .err else .ok)
      | _ => fret d .err
    else fret st .ok
  else if f = '$' then
    if ch = 'w' then fret d .ok
    else if ch = 'x' then
      match nums with
      | [v, pt, pl, pb, pr] =>
        if v < 55296 ∨ (57344 ≤ v ∧ v ≤ 1114111) then fret { d with r := rectF st.s st.r pt pl pb pr } .ok else fret d .err
      | _ => fret d .err
    else if ch = 'z' ∨ ch = '{' then
      match nums with
      | [pt, pl, pb, pr] => fret { d with r := rectF st.s st.r pt pl pb pr } .ok
      | _ => fret d .err
    else fret st .ok
  else if f = ' ' then
    if ch = 'D' then fret d (if nums.length ≠ 2 then .err else if o.extOk then .ok else .err)
    else if ch = 'A' then fret { d with r := iterN (scrollRightF st.s) (min (firstOr nums 1) st.s.tw).toNat st.r } .ok
    else if ch = '@' then fret { d with r := iterN (scrollLeftF st.s) (min (firstOr nums 1) st.s.tw).toNat st.r } .ok
    else if ch = 'd' then
      match nums with
      | [n] => fret { d with s := { st.s with tabs := st.s.tabs.filter (fun t => t ≠ n - 1) } } .ok
      | _ => fret d .err
    else fret d .err
  else fret d .err

def escCharF (st : FSt) (ch : Char) : FR :=
  let d := fdflt st
  let s := st.s
  let c := st.c
  if ch = '[' then fret { st with p := { st.p with st := .csi true, nums := [] } } .ok
  else if ch = ']' then fret { st with p := { st.p with st := .osc, nums := [], str := [] } } .ok
  else if ch = '7' then fret { d with p := { d.p with savedCar := some c } } .ok
  else if ch = '8' then
    match st.p.savedCar with
    | some sc => fliftC d (limitF s sc) .ok
    | none => fret d .ok
  else if ch = 'c' then
    let f := ffF d
    fret { f with s := resetTerminal f.s, c := { x := 0, y := 0, ins := false }, p := { f.p with macros := [] } } .ok
  else if ch = 'D' then fliftCR d (indexF s c st.r) .ok
  else if ch = 'M' then fliftCR d (reverseIndexF s c st.r) .ok
  else if ch = 'E' then fliftCR d (nextLineF s c st.r) .ok
  else if ch = 'P' then fret { st with p := { st.p with st := .dcs, nums := [], str := [] } } .ok
  else if ch = 'H' then fret { d with s := { s with tabs := setTabAt s.tabs c.x } } .ok
  else if ch = '_' then fret { st with p := { st.p with st := .aps, str := [] } } .ok
  else if '0' ≤ ch ∧ ch ≤ '~' then fret d .ok
  else if ch = '\x0c' ∨ ch = '\x07' ∨ ch = '\x08' ∨ ch = '\x09' ∨ ch = '\x7f' ∨ ch = '\x1b' ∨ ch = '\n' ∨ ch = '\r' then
    fliftCR d (printCharF s c st.r) .ok
  else fret d .err

def dfltCharF (cfg : Cfg) (st : FSt) (ch : Char) : FR :=
  let s := st.s
  let c := st.c
  if ch = '\x1b' then fret (fsetSt st .esc) .ok
  else if ch = '\n' then fliftCR st (lfF s c st.r) .ok
  else if ch = '\x0c' then fret (ffF st) .ok
  else if ch = '\r' then fret { st with c := { c with x := 0 } } .ok
  else if ch = '\x07' then fret st .ok
  else if ch = '\x7f' then fret { st with r := st.r.del c.x c.y } .ok
  else if ch = '\x08' ∧ cfg.bsCtrl then
    -- `Caret::bs`: `x = max(0, x - 1)`, then `set_char(pos, ' ')`
    fret { st with c := { c with x := max 0 (c.x - 1) }, r := st.r.setChar (max 0 (c.x - 1)) c.y } .ok
  else if (ch = '\x00' ∨ ch = '\xff') ∧ cfg.bsCtrl then fret st .ok
  else fliftCR st (printCharF s c st.r) .ok

def faddStr (st : FSt) (cs : List Char) : FSt := { st with p := { st.p with str := st.p.str ++ cs } }

/-- one character on a file buffer; `inv` invokes a macro by id -/
def stepCoreF (cfg : Cfg) (o : Orc) (inv : Int → FSt → Res FSt) (st : FSt) (ch : Char) : FR :=
  if ¬ MusicSafe st.p.st st.p.mus ch then .error (.overflow "sound.rs: cur_tempo * pause")
  else
  match st.p.st with
  | .music m =>
    fret { st with p := { st.p with st := (musicStep m st.p.mus ch).1, mus := (musicStep m st.p.mus ch).2.1 } } (musicStep m st.p.mus ch).2.2
  | .esc => escCharF st ch
  | .aps => if ch = '\x1b' then fret (fsetSt st .apsEsc) .ok else fret (faddStr st [ch]) .ok
  | .apsEsc =>
    if ch = '\\' then fret (fdflt st) .ok else fret (faddStr (fsetSt st .aps) ['\x1b', ch]) .ok
  | .dcsMacro i =>
    let st := { st with p := { st.p with mdcs := st.p.mdcs ++ [ch] } }
    if isDigit ch then
      if i ≠ 1 then fret (fdflt st) .err
      else fret { st with p := { st.p with nums := pushDigit st.p.nums ch } } .ok
    else if ch = '[' then (if i ≠ 0 then fret (fdflt st) .err else fret (fsetSt st (.dcsMacro 1)) .ok)
    else if ch = '*' then (if i ≠ 1 then fret (fdflt st) .err else fret (fsetSt st (.dcsMacro 2)) .ok)
    else if ch = 'z' then
      if i ≠ 2 then fret (fdflt st) .err
      else match st.p.nums with
        | [id] => match inv id (fsetSt st .dcs) with
          | .ok st' => fret st' .ok
          | .error e => .error e
        | _ => fret (fdflt st) .err
    else fret (faddStr (fsetSt st .dcs) (['\x1b', '['] ++ st.p.mdcs)) .ok
  | .dcs => if ch = '\x1b' then fret (fsetSt st .dcsEsc) .ok else fret (faddStr st [ch]) .ok
  | .dcsEsc =>
    if ch = '\\' then executeDcsF st o
    else if ch = '[' then fret { st with p := { st.p with st := .dcsMacro 1, mdcs := [] } } .ok
    else fret (faddStr (fsetSt st .dcs) ['\x1b', ch]) .ok
  | .osc => if ch = '\x1b' then fret (fsetSt st .oscEsc) .ok else fret (faddStr st [ch]) .ok
  | .oscEsc =>
    if ch = '\\' then parseOscF st o
    else fret (faddStr (fsetSt st .osc) ['\x1b', ch]) .ok
  | .csiCmd => viaSt st (csiCmd (toSt st) ch)
  | .csiReq => viaSt st (csiReq (toSt st) ch)
  | .rip =>
    if ch = 'p' then
      -- `soft_terminal_reset`: `reset_terminal`, `caret.reset()`, `caret.home` (row 0 on a file buffer)
      fret { fdflt st with s := resetTerminal st.s, c := { x := 0, y := 0, ins := false } } .ok
    else dfltCharF cfg (fdflt st) ch
  | .devAttr => viaSt st (devAttr (toSt st) ch)
  | .endCsi f => endCsiF o inv st f ch
  | .csi isStart => csiFinalF cfg o st isStart ch
  | .dflt => dfltCharF cfg st ch

def replayF (stepf : FSt → Char → FR) : List Char → FSt → Res FSt
  | [], st => .ok st
  | ch :: rest, st =>
    if st.p.budget = 0 then .ok st else
    let st := { st with p := { st.p with budget := st.p.budget - 1 } }
    match stepf st ch with
    | .ok (st', _) => replayF stepf rest st'
    | .error e => .error e

def invokerF (stepf : FSt → Char → FR) (top : Bool) (id : Int) (st : FSt) : Res FSt :=
  match macroGet st.p.macros id.toNat with
  | none => .ok st
  | some body =>
    replayF stepf body (if top then { st with p := { st.p with budget := MAX_MACRO_EXPANSION } } else st)

def ftick (st : FSt) : FSt := { st with p := { st.p with tick := st.p.tick + 1 } }

def stepDF : Nat → Cfg → (Nat → Orc) → FSt → Char → FR
  | 0, cfg, o, st, ch => stepCoreF cfg (o st.p.tick) (fun _ st => .ok st) (ftick st) ch
  | d+1, cfg, o, st, ch =>
    stepCoreF cfg (o st.p.tick) (invokerF (stepDF d cfg o) (decide (d + 1 = MAX_MACRO_DEPTH))) (ftick st) ch

def stepF (cfg : Cfg) (o : Nat → Orc) (st : FSt) (ch : Char) : FR := stepDF MAX_MACRO_DEPTH cfg o st ch

/-- the whole text; an `Err` of a character does not stop the load (`skip_errors = true`).  `o i` is the oracle value
    observed before the `i`-th character of the text; it is held while that character is processed (also through a
    macro replay it starts). -/
def runFI (cfg : Cfg) (o : Nat → Orc) : Nat → FSt → List Char → Res FSt
  | _, st, [] => .ok st
  | i, st, ch :: rest =>
    match stepF cfg (fun _ => o i) st ch with
    | .ok (st', _) => runFI cfg o (i + 1) st' rest
    | .error e => .error e
def runF (cfg : Cfg) (o : Nat → Orc) (st : FSt) (text : List Char) : Res FSt := runFI cfg o 0 st text

/-- `Buffer::new((w0, h0))` + `set_sauce` (buffer, terminal state and layer 0 get the size `w × h`): the state at the start
    of the character loop.  `set_sauce` resizes with `TerminalState::set_size`, which does NOT recompute the tab stops:
    they stay those of the `tabW = w0` columns the buffer was created with.  `rows` = the row table (`[]` after
    `parse_with_parser` cleared it). -/
def initScrF (w h tabW : Int) : Scr :=
  { tw := w, th := h, bw := w, bh := h, mtb := none, mlr := none, declrmm := false, autowrap := true, tabs := resetTabs tabW }
def initF (w h tabW : Int) (rows : Array Nat) : FSt :=
  { s := initScrF w h tabW, c := { x := 0, y := 0, ins := false }, p := {}, r := { lw := w, lh := h, lens := rows } }

/-- the file loaders' ANSI parser: `ansi::Parser::default()` + `bs_is_ctrl_char = false`, music off -/
def fileCfg : Cfg := { musicOpt := 0, bsCtrl := false }

end IcyVerif.TermFile
