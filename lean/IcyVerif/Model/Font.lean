import IcyVerif.Model.Unicode
/-! Model of `src/fonts.rs` (after the `fix:` commits of C10/C17): `BitFont`, `glyphs_from_u8_data`,
    `from_bytes` (PSF1 / PSF2 / raw by length), `calculate_checksum`, `convert_to_u8_data`, `to_psf2_bytes`,
    `create_8`/`from_basic`, and the `CTerm:Font:` DCS payload (`encode_as_ansi` / `load_custom_font`) with
    base64 and decimal formatting as abstract inverse pairs.  Panics that remain are modelled as `.panic`.

    The glyph table `HashMap<char, Glyph>` is a list indexed by code point: entry `k` is `get_glyph(k)`.
    Only scalar-value indices can hold a glyph (a `char` key cannot be anything else). -/
namespace IcyVerif.Font
open IcyVerif.Uni

inductive Res (α : Type) where
  | ok (a : α)
  | err          -- the function returned `Err(..)`
  | panic        -- a Rust panic (index/slice out of range, arithmetic overflow, capacity overflow)
deriving Repr, DecidableEq

abbrev Glyph := List Nat

structure BitFont where
  w : Int
  h : Int
  length : Int
  glyphs : List (Option Glyph)
deriving Repr, DecidableEq

/-- `self.get_glyph(char)` for a code `k` -/
def BitFont.get (f : BitFont) (k : Nat) : Option Glyph := (f.glyphs[k]?).join

/-- split off exactly `n` elements; `none` when fewer are left (Rust: `data[..n]` panics) -/
def splitExact : Nat → List Nat → Option (List Nat × List Nat)
  | 0, l => some ([], l)
  | _+1, [] => none
  | n+1, x :: l => (splitExact n l).map fun p => (x :: p.1, p.2)

/-- the `while data.len() >= font_height` loop of `glyphs_from_u8_data` from glyph index `ch` on
    (fuel ≥ data.length; a trailing partial glyph is ignored) -/
def glyphLoop (h : Nat) : Nat → Nat → List Nat → List (Option Glyph)
  | 0, _, _ => []
  | fuel+1, ch, data =>
    match splitExact h data with
    | none => []
    | some (g, rest) => (if isScalar ch then some g else none) :: glyphLoop h fuel (ch + 1) rest

/-- `glyphs_from_u8_data(font_height, data)` (height 0: no glyphs) -/
def glyphsFromU8 (h : Nat) (data : List Nat) : List (Option Glyph) :=
  if h = 0 then [] else glyphLoop h data.length 0 data

/-- `(0..n).map(|ch| char::from_u32(ch).and_then(|c| self.get_glyph(c)))`, walking the table once -/
def lookups : Nat → List (Option Glyph) → List (Option Glyph)
  | 0, _ => []
  | n+1, [] => none :: lookups n []
  | n+1, g :: gs => g :: lookups n gs

def BitFont.loop (f : BitFont) : List (Option Glyph) := lookups f.length.toNat f.glyphs

/-- `calculate_checksum`: CRC-32 register (initial 0, no final inversion) over the glyph bytes of 0..length -/
def BitFont.checksum (f : BitFont) : Nat :=
  (f.loop.foldl (fun crc g => match g with
      | some g => g.foldl (fun c b => IcyVerif.Crc.updateCrc32 c (BitVec.ofNat 8 b)) crc
      | none => crc) (0 : BitVec 32)).toNat

/-- `convert_to_u8_data`: missing glyphs become `height` zero bytes (`vec![0; height as usize]`: a negative height is a
    capacity-overflow panic) -/
def convertAux (h : Int) : List (Option Glyph) → Res (List Nat)
  | [] => .ok []
  | g :: gs =>
    match g with
    | some g => (match convertAux h gs with | .ok r => .ok (g ++ r) | e => e)
    | none => if h < 0 then .panic else (match convertAux h gs with | .ok r => .ok (List.replicate h.toNat 0 ++ r) | e => e)
def BitFont.toU8 (f : BitFont) : Res (List Nat) := convertAux f.h f.loop

def u32le (n : Nat) : List Nat := [n % 256, n / 256 % 256, n / 65536 % 256, n / 16777216 % 256]
def psf2Magic : Nat := 0x864ab572
def psf2Header (f : BitFont) : List Nat :=
  u32le psf2Magic ++ u32le 0 ++ u32le 32 ++ u32le 0 ++ u32le (asU32 f.length) ++ u32le (asU32 f.h) ++ u32le (asU32 f.h) ++ u32le (asU32 f.w)

/-- glyph bytes of 0..length, `none` when one is missing -/
def allGlyphs : List (Option Glyph) → Option (List Nat)
  | [] => some []
  | some g :: gs => (allGlyphs gs).map (g ++ ·)
  | none :: _ => none

/-- `to_psf2_bytes` -/
def BitFont.toPsf2 (f : BitFont) : Res (List Nat) :=
  match allGlyphs f.loop with
  | some d => .ok (psf2Header f ++ d)
  | none => .err

/-! ### `from_bytes` -/
def asI32 (n : Nat) : Int := let m := n % 4294967296; if m < 2147483648 then (m : Int) else (m : Int) - 4294967296
def inI32 (x : Int) : Bool := decide (-2147483648 ≤ x) && decide (x < 2147483648)

/-- `u32::from_le_bytes(data[o..o+4])`; `none` = slice out of range -/
def rd32 (data : List Nat) (o : Nat) : Option Nat :=
  match data.drop o with
  | a :: b :: c :: d :: _ => some (le32 a b c d)
  | _ => none

def loadPsf1 (data : List Nat) : Res BitFont :=
  match data with
  | _ :: _ :: mode :: charsize :: rest =>
    .ok { w := 8, h := charsize, length := if mode % 2 = 1 then 512 else 256, glyphs := glyphsFromU8 charsize rest }
  | _ => .panic

def loadPlain (data : List Nat) : Res BitFont :=
  if data.length % 256 ≠ 0 then .err
  else
    let ch := data.length / 256
    .ok { w := 8, h := ch, length := 256, glyphs := glyphsFromU8 ch data }

/-- `load_psf2`: header checks in 64-bit arithmetic (no overflow possible), then the glyph data after `headersize` -/
def loadPsf2 (data : List Nat) : Res BitFont :=
  if data.length < 32 then .err else
  match rd32 data 4, rd32 data 8, rd32 data 16, rd32 data 20, rd32 data 24, rd32 data 28 with
  | some version, some hs, some len, some cs, some height, some width =>
    if version > 0 then .err else
    let length := asI32 len
    let charsize := asI32 cs
    if length < 0 ∨ charsize ≤ 0 ∨ length * charsize + (hs : Int) ≠ (data.length : Int) ∨
        charsize ≠ ((height * ((width + 7) / 8) : Nat) : Int) then .err
    else .ok { w := asI32 width, h := asI32 height, length := length, glyphs := glyphsFromU8 height (data.drop hs) }
  | _, _, _, _, _, _ => .panic

/-- `BitFont::from_bytes` -/
def fromBytes (data : List Nat) : Res BitFont :=
  match data with
  | a :: b :: c :: d :: _ =>
    if a = 0x36 ∧ b = 0x04 then (if d = 0 then .err else loadPsf1 data)     -- a PSF1 character size of 0 is rejected
    else if le32 a b c d = psf2Magic then loadPsf2 data
    else loadPlain data
  | _ => .err

/-- `create_8` / `from_basic` (XBin, ADF, IDF loaders): 256 glyphs of `h` rows from raw data -/
def fromBasic (w h : Nat) (data : List Nat) : BitFont :=
  { w := w, h := h, length := 256, glyphs := glyphsFromU8 h data }

/-- raw glyph data is only recognised as such when it does not start with a PSF1 / PSF2 magic number -/
def noMagic (d : List Nat) : Bool :=
  match d with
  | a :: b :: c :: e :: _ => !(a == 0x36 && b == 0x04) && !(le32 a b c e == psf2Magic)
  | _ => true

/-- the first 32 bytes read as a PSF2 header that describes the very font the data is the raw form of -/
def psf2Overlay (d : List Nat) (h : Nat) : Bool :=
  rd32 d 4 == some 0 && rd32 d 8 == some 0 && rd32 d 16 == some 256 && rd32 d 20 == some h && rd32 d 24 == some h &&
    rd32 d 28 == some 8

/-- the exact guard of the raw round trip of a 256-glyph font of height `h` -/
def rawGuard (d : List Nat) (h : Nat) : Bool :=
  match d with
  | a :: b :: c :: e :: _ =>
    if a == 0x36 && b == 0x04 then false
    else if le32 a b c e == psf2Magic then psf2Overlay d h
    else true
  | _ => true

/-! ### one glyph on the clipboard: `get_clipboard_data` / `Glyph::from_clipbard_data` -/
def clip16 (n : Nat) : List Nat := [n % 256, n / 256 % 256]

/-- `get_clipboard_data(ch)`: `size.width as u16`, `size.height as u16` (little endian), then the glyph rows -/
def BitFont.clipData (f : BitFont) (k : Nat) : Option (List Nat) :=
  (f.get k).map fun g => clip16 (asU32 f.w % 65536) ++ clip16 (asU32 f.h % 65536) ++ g

/-- `Glyph::from_clipbard_data`: ((width, height), rows); fewer than four bytes: slice out of range -/
def fromClip (data : List Nat) : Res ((Nat × Nat) × Glyph) :=
  match data with
  | a :: b :: c :: d :: rest => .ok ((a + 256 * b, c + 256 * d), rest)
  | _ => .panic

/-- IcyDraw `write_utf8_encoded_string` / `read_utf8_encoded_string` (font names, layer titles) -/
def writeString (s : List Nat) : List Nat := u32le s.length ++ s
def readString (data : List Nat) : Res (List Nat × Nat) :=
  match rd32 data 0 with
  | none => .panic
  | some size => if data.length < 4 + size then .panic else .ok (lossyBytes ((data.drop 4).take size), size + 4)

/-! ### `CTerm:Font:` — `encode_as_ansi` / `load_custom_font` on the DCS payload (`parse_string`)
    `b64e/b64d` (crate `base64`) and `fmt/parse` (`{}` formatting / `str::parse::<usize>`) are parameters. -/
structure Codec where
  b64e : List Nat → List Nat
  b64d : List Nat → Option (List Nat)
  fmt : Nat → List Nat
  parse : List Nat → Option Nat

def prefixCTerm : List Nat := "CTerm:Font:".toList.map Char.toNat

/-- the text between `ESC P` and `ESC \` written by `encode_as_ansi(slot)` -/
def encodeAnsi (c : Codec) (f : BitFont) (slot : Nat) : Res (List Nat) :=
  match f.toU8 with
  | .ok d => .ok (prefixCTerm ++ c.fmt slot ++ [58] ++ c.b64e d)
  | .err => .err
  | .panic => .panic

def splitColon : List Nat → Option (List Nat × List Nat)
  | [] => none
  | x :: xs => if x = 58 then some ([], xs) else (splitColon xs).map fun p => (x :: p.1, p.2)

/-- `load_custom_font`: `(slot, font)` stored with `buf.set_font`, or an error -/
def loadCustomFont (c : Codec) (s : List Nat) : Res (Nat × BitFont) :=
  match splitColon (s.drop prefixCTerm.length) with
  | none => .err
  | some (num, payload) =>
    match c.parse num with
    | none => .err
    | some slot =>
      match c.b64d payload with
      | none => .err
      | some data =>
        match fromBytes data with
        | .ok f => .ok (slot, f)
        | .err => .err
        | .panic => .panic

end IcyVerif.Font
