import IcyVerif.Model.Bgi
/-! `Bgi::line` with its two span primitives `fill_x` / `fill_y` (run-slice Bresenham, `src/parsers/rip/bgi/mod.rs`).
Arithmetic is unbounded `Int` here (no overflow modelling): the correspondence run keeps the coordinates within
±4000, where none of the i32 operations of these functions can overflow.  `put_pixel` is the checked one of
`Model/Bgi.lean`.  Every function also counts its `put_pixel` calls (the cost the theorems bound). -/
namespace IcyVerif.Bgi

/-- Rust `/` on i32 (truncation towards zero) -/
def divI (a b : Int) : Int := Int.tdiv a b

/-- `line_pattern[*offset as usize % 16]` -/
def patBit (s : Bgi) (offset : Int) : Bool := (s.linePat / 2 ^ (offset % 16).toNat) % 2 = 1

/-- `for c in lo..=hi { put_pixel(..) }` along one axis: `n` pixels starting at `lo` -/
def pixelRun (s : Bgi) (horizontal : Bool) (fixed lo : Int) : Nat → Option Bgi
  | 0 => some s
  | n + 1 =>
    match (if horizontal then putPixel s lo fixed s.color else putPixel s fixed lo s.color) with
    | none => none
    | some s' => pixelRun s' horizontal fixed (lo + 1) n

/-- number of integers in `lo..=hi` -/
def spanLen (lo hi : Int) : Nat := (hi - lo + 1).toNat

/-- the pattern-driven outer loop of `fill_x` / `fill_y`: `n` positions from `pos`, each drawing a run of `runLen`
pixels across (from `runLo`) when the pattern bit is set; returns state, offset and number of `put_pixel` calls -/
def spanLoop (s : Bgi) (isX : Bool) (pos : Int) (runLo : Int) (runLen : Nat) (inc : Int) : Nat → Int → Nat → Option (Bgi × Int × Nat)
  | 0, offset, cost => some (s, offset, cost)
  | n + 1, offset, cost =>
    if patBit s offset then
      -- fill_x draws a vertical run at column `pos`; fill_y a horizontal run at row `pos`
      match pixelRun s (!isX) pos runLo runLen with
      | none => none
      | some s' => spanLoop s' isX (pos + 1) runLo runLen inc n (offset + inc) (cost + runLen)
    else spanLoop s isX (pos + 1) runLo runLen inc n (offset + inc) cost

/-- last coordinate of a span of `count` cells from `start` (`count <= 0` runs backwards, as in the source) -/
def spanEnd (start count : Int) : Int := if count > 0 then start + count - 1 else start + count + 1
/-- `if count <= 0 { *offset -= count }` at the start of `fill_x` / `fill_y` -/
def spanOff (count offset : Int) : Int := if count > 0 then offset else offset - count

/-- `Bgi::fill_x(y, startx, count, &mut offset)`.  (`if startx > end_x { swap }` is `min` / `max`.) -/
def fillX (s : Bgi) (y startx count offset : Int) : Option (Bgi × Int × Nat) :=
  if min startx (spanEnd startx count) ≥ s.vp.x + s.vp.w then some (s, spanOff count offset, 0) else
  (spanLoop s true (max (min startx (spanEnd startx count)) 0) (max (y - divI s.thickness 2) 0)
      (spanLen (max (y - divI s.thickness 2) 0) (min (y - divI s.thickness 2 + s.thickness - 1) (s.vp.y + s.vp.h - 1)))
      (if count ≥ 0 then 1 else -1)
      (spanLen (max (min startx (spanEnd startx count)) 0) (min (max startx (spanEnd startx count)) (s.vp.x + s.vp.w - 1)))
      (spanOff count offset) 0).map
    fun r => (r.1, (if count < 0 then r.2.1 - count else r.2.1), r.2.2)

/-- `Bgi::fill_y(x, start_y, count, &mut offset)` -/
def fillY (s : Bgi) (x startY count offset : Int) : Option (Bgi × Int × Nat) :=
  if min startY (spanEnd startY count) ≥ s.vp.y + s.vp.h then some (s, spanOff count offset, 0) else
  (spanLoop s false (max (min startY (spanEnd startY count)) 0) (max (x - divI s.thickness 2) 0)
      (spanLen (max (x - divI s.thickness 2) 0) (min (x - divI s.thickness 2 + s.thickness - 1) (s.vp.x + s.vp.w - 1)))
      1
      (spanLen (max (min startY (spanEnd startY count)) 0) (min (max startY (spanEnd startY count)) (s.vp.y + s.vp.h - 1)))
      (spanOff count offset) 0).map
    fun r => (r.1, (if count < 0 then r.2.1 + count else r.2.1), r.2.2)

/-- the middle runs of the x-major case -/
def xRuns (s : Bgi) (whole step adjUp adjDown : Int) : Nat → Int → Int → Int → Int → Nat → Option (Bgi × Int × Int × Int × Int × Nat)
  | 0, px, py, err, offset, cost => some (s, px, py, err, offset, cost)
  | n + 1, px, py, err, offset, cost =>
    let err := err + adjUp
    let (run, err) := if err > 0 then (whole + step, err - adjDown) else (whole, err)
    match fillX s py px run offset with
    | none => none
    | some (s', off, c) => xRuns s' whole step adjUp adjDown n (px + run) (py + 1) err off (cost + c)

/-- the middle runs of the y-major case -/
def yRuns (s : Bgi) (whole adv adjUp adjDown : Int) : Nat → Int → Int → Int → Int → Nat → Option (Bgi × Int × Int × Int × Int × Nat)
  | 0, px, py, err, offset, cost => some (s, px, py, err, offset, cost)
  | n + 1, px, py, err, offset, cost =>
    let err := err + adjUp
    let (run, err) := if err > 0 then (whole + 1, err - adjDown) else (whole, err)
    match fillY s px py run offset with
    | none => none
    | some (s', off, c) => yRuns s' whole adv adjUp adjDown n (px + adv) (py + run) err off (cost + c)

/-- start point and direction: the end with the smaller y comes first (`if y1 < y2 {(x1,y1), ..} else {(x2,y2), ..}`) -/
def lineStartX (x1 y1 x2 y2 : Int) : Int := if y1 < y2 then x1 else x2
def lineStartY (y1 y2 : Int) : Int := if y1 < y2 then y1 else y2
/-- `l_step` / `l_advance`: -1 when the line runs to the left -/
def lineDir (x1 y1 x2 y2 : Int) : Int := if y1 < y2 then (if x1 > x2 then -1 else 1) else (if x2 > x1 then -1 else 1)

/-- `(whole & 1) != 0` on the two's complement value -/
def isOdd (v : Int) : Bool := v % 2 ≠ 0
/-- first and last run: `whole / 2 + step`, minus `step` for the first one when the slope is an even integer -/
def endLen (whole step : Int) : Int := divI whole 2 + step
def startLen (whole step adjUp : Int) : Int := if adjUp = 0 ∧ !isOdd whole then endLen whole step - step else endLen whole step
/-- initial error term -/
def startErr (whole : Int) (adjUp0 adjDown : Int) (minor : Nat) : Int :=
  if isOdd whole then adjUp0 - adjDown + minor else adjUp0 - adjDown

/-- the x-major case (`lx_delta2 >= ly_delta`): first run, `dy - 1` middle runs, last run -/
def lineX (s : Bgi) (px py step : Int) (dx dy : Nat) : Option (Bgi × Nat) :=
  let whole : Int := ((dx / dy : Nat) : Int) * step
  let adjUp0 : Int := ((dx % dy : Nat) : Int)
  let adjDown : Int := (dy : Int) * 2
  match fillX s py px (startLen whole step (adjUp0 * 2)) 0 with
  | none => none
  | some r1 =>
    match xRuns r1.1 whole step (adjUp0 * 2) adjDown (dy - 1) (px + startLen whole step (adjUp0 * 2)) (py + 1)
        (startErr whole adjUp0 adjDown dy) r1.2.1 r1.2.2 with
    | none => none
    | some r2 =>
      match fillX r2.1 r2.2.2.1 r2.2.1 (endLen whole step) r2.2.2.2.2.1 with
      | none => none
      | some r3 => some (r3.1, r2.2.2.2.2.2 + r3.2.2)

/-- the y-major case -/
def lineY (s : Bgi) (px py adv : Int) (dx dy : Nat) : Option (Bgi × Nat) :=
  let whole : Int := ((dy / dx : Nat) : Int)
  let adjUp0 : Int := ((dy % dx : Nat) : Int)
  let adjDown : Int := (dx : Int) * 2
  match fillY s px py (startLen whole 1 (adjUp0 * 2)) 0 with
  | none => none
  | some r1 =>
    match yRuns r1.1 whole adv (adjUp0 * 2) adjDown (dx - 1) (px + adv) (py + startLen whole 1 (adjUp0 * 2))
        (startErr whole adjUp0 adjDown dx) r1.2.1 r1.2.2 with
    | none => none
    | some r2 =>
      match fillY r2.1 r2.2.1 r2.2.2.1 (endLen whole 1) r2.2.2.2.2.1 with
      | none => none
      | some r3 => some (r3.1, r2.2.2.2.2.2 + r3.2.2)

/-- `Bgi::line(x1, y1, x2, y2)`; returns the state and the number of `put_pixel` calls -/
def lineCost (s : Bgi) (x1 y1 x2 y2 : Int) : Option (Bgi × Nat) :=
  let dy := (y2 - y1).natAbs
  let dx := (x2 - x1).natAbs
  if dx = 0 then
    (fillY s x1 (min y1 y2) (dy + 1) 0).map fun r => (r.1, r.2.2)
  else if dy = 0 then
    (fillX s y1 (min x1 x2) (dx + 1) 0).map fun r => (r.1, r.2.2)
  else if dx ≥ dy then
    lineX s (lineStartX x1 y1 x2 y2) (lineStartY y1 y2) (lineDir x1 y1 x2 y2) dx dy
  else
    lineY s (lineStartX x1 y1 x2 y2) (lineStartY y1 y2) (lineDir x1 y1 x2 y2) dx dy

def line (s : Bgi) (x1 y1 x2 y2 : Int) : Option Bgi := (lineCost s x1 y1 x2 y2).map (·.1)

end IcyVerif.Bgi
