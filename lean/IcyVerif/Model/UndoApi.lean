import IcyVerif.Model.Undo
/-! # The public `EditState` operations as lists of primitive history steps (C08)

Transcribed from `edit_operations.rs`, `layer_operations.rs`, `area_operations.rs`, `selection_operations.rs`,
`font_operations.rs`.  `push_undo_action` → `Step.act`, `push_plain_undo` → `Step.edit`, bookkeeping of caret / current
layer / selection outside a record → `Step.touch`, `let _undo = self.begin_atomic_undo(..)` around the body →
`Step.beginAtomic … Step.endAtomic`.  Where the records of a group depend on each other through values read before the
first of them is applied (mirrored `set_char`) or the guard is opened only under a condition on the state
(`erase_selection`, `anchor_layer`) the operation is one `Step.edit` that returns the already folded `atomic` record: the
stacks end up exactly as in the Rust code.  The driver executes `Call.steps` through `Ed.run`, the function the history
theorems are about. -/
namespace IcyVerif.Undo
open IcyVerif.Gen.Undo

/-- `get_cur_layer` with the clamped index -/
def Doc.curLayer (d : Doc) : Option (Nat × LayerM) :=
  match d.currentLayer with
  | some i => match d.layers[i]? with
    | some l => some (i, l)
    | none => none
  | none => none

abbrev EditFn := Doc → Except Err (Option (UndoOp × Doc))
abbrev BuildFn := Doc → Except Err (Option UndoOp)

/-- the layer loop shared by `resize_buffer(true, ..)` and `crop_rect`; it reads the old layer at BUFFER coordinates
    (`old_layer.get_char((x + new_rectangle.left(), ..))`) and writes through `set_char` (so a locked layer comes out
    empty) — both copied as they are -/
def cropLayers (layers : List LayerM) (rect : Rect) : List LayerM :=
  layers.filterMap fun old =>
    let nr := old.rect.intersect rect
    if nr.isEmpty then none
    else
      let l0 : LayerM := { old with lines := [] }
      let l1 := l0.setOffset (nr.x - rect.x) (nr.y - rect.y)
      let l2 : LayerM := { l1 with w := nr.w, h := nr.h }
      some ((intRange 0 nr.h).foldl (fun l y =>
        (intRange 0 nr.w).foldl (fun l x => l.setChar x y (old.getChar (x + nr.x) (y + nr.y))) l) l2)

/-- record of an operation that needs the current layer (`get_current_layer()?`) -/
def onCurrent (d : Doc) (mk : Nat → UndoOp) : Except Err (Option UndoOp) :=
  match d.currentLayer with
  | none => .error .err
  | some i => .ok (some (mk i))

/-- record of an operation that first checks `layer >= layers.len()` -/
def onValid (d : Doc) (layer : Nat) (op : UndoOp) : Except Err (Option UndoOp) :=
  if layer ≥ d.layers.length then .error .err else .ok (some op)

/-! ## area operations (`UndoLayerChange`) -/

/-- `get_area` of area_operations.rs -/
def getArea (sel : Option Sel) (layer : Rect) : Rect :=
  match sel with
  | some s => (s.asRect.intersect layer).shift (-layer.x) (-layer.y)
  | none => layer.shift (-layer.x) (-layer.y)

/-- snapshot, edit, snapshot, record: what every `UndoLayerChange`-based operation does to layer `i` -/
def layerEdit (d : Doc) (i : Nat) (l : LayerM) (a : Rect) (l' : Except Err LayerM) : Except Err (Option (UndoOp × Doc)) :=
  match fromLayer l a with
  | .error e => .error e
  | .ok old =>
    match l' with
    | .error e => .error e
    | .ok l' =>
      match fromLayer l' a with
      | .error e => .error e
      | .ok new => .ok (some (.layerChange i a.x a.y old new, d.setLayer i l'))

/-- an area operation on the current layer over `get_area(selection, layer rectangle)` -/
def areaOp (f : Doc → LayerM → Rect → Except Err LayerM) : EditFn := fun d =>
  match d.curLayer with
  | none => .error .err
  | some (i, l) =>
    let a := getArea d.sel l.rect
    layerEdit d i l a (f d l a)

/-- `ch.is_visible() && !ch.is_transparent()` -/
def Cell.solid (c : Cell) : Bool := c.isVisible && !c.isTransparent

/-- `while removed_chars < len { if solid(get(removed_chars)) break; removed_chars += 1 }` -/
def countBlank (get : Nat → Cell) : Nat → Nat → Nat
  | _, 0 => 0
  | k, fuel + 1 => if (get k).solid then 0 else 1 + countBlank get (k + 1) fuel

/-- `justify_left` -/
def justifyLeftF (_ : Doc) (l : LayerM) (a : Rect) : Except Err LayerM :=
  .ok ((intRange a.y a.bottom).foldl (fun l y =>
    let removed : Int := countBlank (fun k => l.getChar (a.x + k) y) 0 a.w.toNat
    if a.w ≤ removed then l
    else (intRange a.x a.right).foldl (fun l x =>
      l.setChar x y (if x + removed < a.right then l.getChar (x + removed) y else Cell.invisible)) l) l)

/-- `justify_right` -/
def justifyRightF (_ : Doc) (l : LayerM) (a : Rect) : Except Err LayerM :=
  .ok ((intRange a.y a.bottom).foldl (fun l y =>
    let removed : Int := countBlank (fun k => l.getChar (a.right - k - 1) y) 0 a.w.toNat
    if a.w = removed then l
    else (intRange a.x a.right).reverse.foldl (fun l x =>
      l.setChar x y (if x - removed ≥ a.x then l.getChar (x - removed) y else Cell.invisible)) l) l)

/-- the second half of `center` (after its `justify_left`); `(removed as f32 / 2.0).ceil()` is `(removed + 1) / 2` -/
def centerF (_ : Doc) (l : LayerM) (a : Rect) : Except Err LayerM :=
  .ok ((intRange a.y a.bottom).foldl (fun l y =>
    let removed0 : Nat := countBlank (fun k => l.getChar (a.right - k - 1) y) 0 a.w.toNat
    if a.w = removed0 then l
    else
      let removed : Int := ((removed0 + 1) / 2 : Nat)
      (intRange 0 a.w).foldl (fun l x =>
        l.setChar (a.right - x - 1) y
          (if a.right - x - removed ≥ a.x then l.getChar (a.right - x - removed) y else Cell.invisible)) l) l)

/-- `flip_tables.get(&ch.get_font_page()).unwrap()`: every cell the flip reads needs a font in the table -/
def hasFont (d : Doc) (c : Cell) : Bool := (fmLookup d.x.fonts c.page).isSome

/-- `flip_x` (characters without a mirror glyph in the font stay as they are; the driver only sends histories whose fonts
    have no mirror pairs) -/
def flipXF (d : Doc) (l : LayerM) (a : Rect) : Except Err LayerM :=
  if (intRange a.y a.bottom).any (fun y => (intRange 0 (a.w / 2)).any fun x =>
      !(hasFont d (l.getChar (a.x + x) y) && hasFont d (l.getChar (a.right - x - 1) y))) then .error .panic
  else
  .ok ((intRange a.y a.bottom).foldl (fun l y =>
    (intRange 0 (a.w / 2)).foldl (fun l x =>
      let c1 := l.getChar (a.x + x) y
      let c2 := l.getChar (a.right - x - 1) y
      (l.setChar (a.x + x) y c2).setChar (a.right - x - 1) y c1) l) l)

/-- `flip_y` -/
def flipYF (d : Doc) (l : LayerM) (a : Rect) : Except Err LayerM :=
  if (intRange a.x a.right).any (fun x => (intRange 0 (a.h / 2)).any fun y =>
      !(hasFont d (l.getChar x (a.y + y)) && hasFont d (l.getChar x (a.bottom - 1 - y)))) then .error .panic
  else
  .ok ((intRange a.x a.right).foldl (fun l x =>
    (intRange 0 (a.h / 2)).foldl (fun l y =>
      let c1 := l.getChar x (a.y + y)
      let c2 := l.getChar x (a.bottom - 1 - y)
      (l.setChar x (a.y + y) c2).setChar x (a.bottom - 1 - y) c1) l) l)

/-- `layer.lines[y as usize]` for every row of the area: an index panic when a row is not materialised -/
def rowsPresent (l : LayerM) (a : Rect) : Bool := a.y ≥ 0 && a.bottom.toNat ≤ l.lines.length

/-- rewrites the rows `a.y .. a.bottom` of the raw storage, each first grown to `a.right` cells -/
def mapAreaRows (l : LayerM) (a : Rect) (f : Nat → Row → Row) : LayerM :=
  { l with lines := l.lines.mapIdx fun y r =>
      if a.y.toNat ≤ y ∧ y < a.bottom.toNat then f y (growTo r a.right.toNat Cell.invisible) else r }

/-- `scroll_area_left`: per row `ch = chars.remove(left); chars.insert(right - 1, ch)` on the raw storage -/
def scrollLeftF (_ : Doc) (l : LayerM) (a : Rect) : Except Err LayerM :=
  if a.isEmpty then .ok l
  else if !rowsPresent l a then .error .panic
  else .ok (mapAreaRows l a fun _ r => (r.eraseIdx a.x.toNat).insertIdx (a.right.toNat - 1) (r.getD a.x.toNat Cell.invisible))

/-- `scroll_area_right`: per row `ch = chars.remove(right - 1); chars.insert(left, ch)` -/
def scrollRightF (_ : Doc) (l : LayerM) (a : Rect) : Except Err LayerM :=
  if a.isEmpty then .ok l
  else if !rowsPresent l a then .error .panic
  else .ok (mapAreaRows l a fun _ r => (r.eraseIdx (a.right.toNat - 1)).insertIdx a.x.toNat (r.getD (a.right.toNat - 1) Cell.invisible))

/-- the cells `left..right` of row `y` after growing it -/
def areaCells (l : LayerM) (a : Rect) (y : Nat) : Row :=
  ((growTo (l.lines.getD y []) a.right.toNat Cell.invisible).drop a.x.toNat).take a.w.toNat

/-- replaces the cells `left..right` of an (already grown) row -/
def putAreaCells (a : Rect) (r : Row) (cells : Row) : Row := r.take a.x.toNat ++ cells ++ r.drop a.right.toNat

/-- partial `scroll_area_up`/`down` (area narrower than the layer, at least two rows): the drain/splice sequence moves
    the area cells of every row one row up (down), the first (last) row's cells wrap around -/
def scrollPartialF (up : Bool) (l : LayerM) (a : Rect) : Except Err LayerM :=
  if !rowsPresent l a then .error .panic
  else .ok (mapAreaRows l a fun y r =>
    let src : Nat :=
      if up then (if y + 1 < a.bottom.toNat then y + 1 else a.y.toNat)
      else (if y > a.y.toNat then y - 1 else a.bottom.toNat - 1)
    putAreaCells a r (areaCells l a src))

/-- `scroll_area_up` / `scroll_area_down` inside their guard -/
def scrollEdit (up : Bool) : EditFn := fun d =>
  match d.curLayer with
  | none => .error .err
  | some (i, l) =>
    let a := getArea d.sel l.rect
    if a.isEmpty then .ok none
    else if a.w ≥ l.w then
      -- `push_undo_action(UndoScrollWholeLayerUp/Down)`: the edit is the record's `redo`
      .ok (some (if up then .scrollUp i else .scrollDown i, d.setLayer i (scrollRows l up)))
    else if a.h < 2 then .ok none
    else layerEdit d i l a (scrollPartialF up l a)

/-- `make_layer_transparent` (area = the whole layer, whatever is selected) -/
def makeTransparentEdit : EditFn := fun d =>
  match d.curLayer with
  | none => .error .err
  | some (i, l) =>
    layerEdit d i l ⟨0, 0, l.w, l.h⟩ (.ok ((intRange 0 l.w).foldl (fun l x =>
      (intRange 0 l.h).foldl (fun l y => if (l.getChar x y).isTransparent then l.setChar x y Cell.invisible else l) l) l))

/-- `stamp_layer_down`: the visible cells of the current layer are written into the layer below it; the area is
    `layer.get_rectangle() + base_layer.get_offset()` (copied as it is) -/
def stampDownEdit : EditFn := fun d =>
  match d.curLayer with
  | none => .error .err
  | some (i, l) =>
    if i = 0 then .error .err
    else match d.layers[i - 1]? with
      | none => .error .panic
      | some base =>
        let a : Rect := ⟨l.props.offX + base.props.offX, l.props.offY + base.props.offY, l.w, l.h⟩
        layerEdit d (i - 1) base a (.ok ((intRange 0 l.w).foldl (fun b x =>
          (intRange 0 l.h).foldl (fun b y =>
            let ch := l.getChar x y
            if ch.isVisible then b.setChar (x + a.x) (y + a.y) ch else b) b) base))

/-- `erase_selection`: nothing at all without a selection; otherwise the guard, the `UndoLayerChange` of the whole layer
    and the `SelectNothing` of `clear_selection()` -/
def eraseEdit : EditFn := fun d =>
  if !d.somethingSelected then .ok none
  else match d.curLayer with
    | none => .error .err
    | some (i, l) =>
      let l' := (intRange 0 l.h).foldl (fun l y =>
        (intRange 0 l.w).foldl (fun l x =>
          if d.isSelected (x + l.props.offX) (y + l.props.offY) then l.setChar x y Cell.invisible else l) l) l
      match layerEdit d i l ⟨0, 0, l.w, l.h⟩ (.ok l') with
      | .error e => .error e
      | .ok none => .ok none
      | .ok (some (lc, d1)) =>
        .ok (some (.atomic [lc, .selectNothing d.sel d.mask], { d1 with sel := none, mask := d1.mask.clear }))

/-! ## single cells -/

/-- `EditState::set_char`: one `UndoSetChar`, in mirror mode one more for the mirrored column first; both `old`
    characters are read before anything is written; the guard folds them into one `AtomicUndo` -/
def setCharEdit (x y : Int) (c : Cell) : EditFn := fun d =>
  match d.curLayer with
  | none => .error .err
  | some (i, l) =>
    let r2 : UndoOp := .setChar x y i (l.getChar x y) c
    if d.mirror then
      let mx := l.w - x - 1
      let r1 : UndoOp := .setChar mx y i (l.getChar mx y) c
      .ok (some (.atomic [r1, r2], d.setLayer i ((l.setChar mx y c).setChar x y c)))
    else .ok (some (.atomic [r2], d.setLayer i (l.setChar x y c)))

/-! ## layers -/

/-- `map_char_u8(ch, &ROTATE_TABLE)`: the table is keyed by `ch as u8` -/
def rotateCh (c : Cell) : Cell :=
  match rotateTable.find? (·.1 == c.ch % 256) with
  | some p => { c with ch := p.2 }
  | none => c

/-- `rotate_layer`: uses the UNCLAMPED `current_layer` -/
def rotateBuild : BuildFn := fun d =>
  match d.layers[d.cur]? with
  | none => .error .err
  | some l =>
    match newLayer l.h l.w with
    | .error e => .error e
    | .ok nl =>
      let nl := (intRange 0 l.w).foldl (fun nl y =>
        (intRange 0 l.h).foldl (fun nl x => nl.setChar x y (rotateCh (l.getChar y (l.h - 1 - x)))) nl) nl
      .ok (some (.rotateLayer d.cur l.lines nl.lines))

/-- `merge_layer_down(layer)`; cells with `TextAttribute::TRANSPARENT_COLOR` would go through `make_solid_color`,
    which is not modelled (`none` = such a cell was met) -/
def mergeLayers (base cur : LayerM) : Option (Option LayerM) :=
  let sx := min base.props.offX cur.props.offX
  let sy := min base.props.offY cur.props.offY
  let m0 : LayerM := ({ base with lines := [] } : LayerM).setOffset sx sy
  let width := max (base.props.offX + base.w) (cur.props.offX + cur.w) - sx
  let height := max (base.props.offY + base.h) (cur.props.offY + cur.h) - sy
  if width < 0 ∨ height < 0 then some none
  else
    let m1 : LayerM := { m0 with w := width, h := height }
    let m2 := (intRange 0 base.h).foldl (fun m y =>
      (intRange 0 base.w).foldl (fun m x =>
        m.setChar (x - m.props.offX + base.props.offX) (y - m.props.offY + base.props.offY) (base.getChar x y)) m) m1
    let transparent := (intRange 0 cur.h).any fun y => (intRange 0 cur.w).any fun x =>
      let ch := cur.getChar x y
      ch.isVisible && (ch.fg == transparentColor || ch.bg == transparentColor)
    if transparent then none
    else some (some ((intRange 0 cur.h).foldl (fun m y =>
      (intRange 0 cur.w).foldl (fun m x =>
        let ch := cur.getChar x y
        if ch.isVisible then m.setChar (x - m.props.offX + cur.props.offX) (y - m.props.offY + cur.props.offY) ch else m) m) m2))

def mergeBuild (layer : Nat) : BuildFn := fun d =>
  if layer = 0 ∨ layer ≥ d.layers.length then .error .err
  else match d.curLayer with
    | none => .error .err
    | some (_, c) =>
      if c.props.role = 2 then .ok none
      else match d.layers[layer - 1]?, d.layers[layer]? with
        | some base, some cur =>
          match mergeLayers base cur with
          | some (some m) => .ok (some (.mergeLayerDown layer (some m) none))
          | some none => .ok none
          | none => .error .panic   -- not modelled: see `mergeLayers`
        | _, _ => .error .panic

/-- `merge_layer_down`: the record is applied (`push_undo_action`), then `clamp_current_layer()` — nothing of this when
    the operation returns early -/
def mergeEdit (layer : Nat) : EditFn := fun d =>
  match mergeBuild layer d with
  | .error e => .error e
  | .ok none => .ok none
  | .ok (some op) =>
    match op.redo d with
    | .error e => .error e
    | .ok (op', d') => .ok (some (op', d'.clampCur))

/-- `anchor_layer`: only a paste preview is anchored; then guard + `merge_layer_down(current layer)` -/
def anchorEdit : EditFn := fun d =>
  match d.curLayer with
  | none => .error .err
  | some (i, c) =>
    if c.props.role ≠ 1 then .ok none
    else match mergeBuild i d with
      | .error e => .error e
      | .ok none => .ok none
      | .ok (some op) =>
        match op.redo d with
        | .error e => .error e
        | .ok (op', d') => .ok (some (.atomic [op'], d'.clampCur))

/-- `Layer::from_clipboard_data` for the clipboard the harness builds: `w x h` cells `cell x y` at offset `(px, py)` -/
def pasteLayer (w h : Nat) (px py : Int) (cell : Nat → Nat → Cell) : Option LayerM :=
  if w * h = 0 then none
  else
    let l0 : LayerM := ⟨w, h, { defaultProps with title := layerPastedName, hasAlpha := true, role := 1, offX := px, offY := py },
      List.replicate h (List.replicate w Cell.invisible)⟩
    some ((List.range h).foldl (fun l (y : Nat) => (List.range w).foldl (fun l (x : Nat) => l.setChar (x : Int) (y : Int) (cell x y)) l) l0)

/-- `paste_clipboard_data` -/
def pasteBuild (layer : Option LayerM) : BuildFn := fun d =>
  match layer with
  | none => .ok none
  | some l => onCurrent d fun i => .paste i (some l)

/-- `add_floating_layer`.  The record is its own inverse only on a freshly pasted layer (role PastePreview / PasteImage,
    title "pasted"), which is how the operation is used (and what the harness checks before calling it) -/
def floatBuild : BuildFn := fun d =>
  match d.curLayer with
  | none => .error .err
  | some (i, l) =>
    if (l.props.role = 1 ∨ l.props.role = 2) ∧ l.props.title = layerPastedName then .ok (some (.addFloatingLayer i)) else .error .err

/-- the title `duplicate_layer` gives the copy (Fluent wraps the argument in U+2068 … U+2069) -/
def dupTitle (t : String) : String := layerDuplicatePrefix ++ "⁨" ++ t ++ "⁩" ++ layerDuplicateSuffix

/-- properties from the flag bits of the replay syntax (`ulp`) -/
def propsOfFlags (p : Props) (f : Nat) : Props :=
  { p with visible := f % 2 == 0, locked := f / 2 % 2 == 1, posLocked := f / 4 % 2 == 1, hasAlpha := f / 8 % 2 == 1,
           alphaLocked := f / 16 % 2 == 1, title := if f / 32 % 2 == 1 then "t" ++ toString f else p.title }

/-! ## fonts, palette, ice mode, SAUCE -/

/-- first slot `>= 100` without a font (`add_font`) -/
def firstFreeSlot (fonts : List (Nat × Nat)) : Nat → Nat → Nat
  | i, 0 => i
  | i, fuel + 1 => if (fmLookup fonts i).isSome then firstFreeSlot fonts (i + 1) fuel else i

/-- `set_font` / `set_ansi_font` / `set_sauce_font` in `Unlimited | FixedSize` (after `fix: set_font/… record the old
    font of the slot they write`) and in `Single` (slot 0) -/
def setFontInSlot (d : Doc) (page font : Nat) (addIfMissing : Bool) : Except Err (Option UndoOp) :=
  match fmLookup d.x.fonts page with
  | some f => .ok (some (.setFont page f font))
  | none => if addIfMissing then .ok (some (.addFont page page font none)) else .error .err

/-- `kind`: 0 `set_ansi_font`, 1 `set_sauce_font`, 2 `set_font`; `font = none`: the font does not exist -/
def setFontBuild (kind : Nat) (font : Option Nat) : BuildFn := fun d =>
  let m := d.x.fontMode
  if m = 0 ∧ kind ≠ 1 then .error .err
  else match font with
    | none => .error .err
    | some f => if m = 0 ∨ m = 1 then setFontInSlot d 0 f false else setFontInSlot d d.fontPage f true

/-- `add_ansi_font(page)` (`slot = some page`) / `add_font` (`slot = none`: first free slot from 100) -/
def addFontBuild (slot : Option Nat) (font : Option Nat) : BuildFn := fun d =>
  if d.x.fontMode ≠ 2 then .error .err
  else match font with
    | none => .error .err
    | some f =>
      let page := match slot with
        | some p => p
        | none => firstFreeSlot d.x.fonts 100 (d.x.fonts.length + 1)
      .ok (some (.addFont d.fontPage page f none))

/-- `replace_font_usage(from, to)` — layers whose `default_font_page` is `from` are outside the model (the driver does
    not send such histories) -/
def replaceFontUsageEdit (src dst : Nat) : EditFn := fun d =>
  let page := if d.fontPage = src then dst else d.fontPage
  let layers := d.layers.map fun l =>
    (intRange 0 l.h).foldl (fun l y => (intRange 0 l.w).foldl (fun l x =>
      let ch := l.getChar x y
      if ch.page = src then l.setChar x y { ch with page := dst } else l) l) l
  .ok (some (.replaceFontUsage d.fontPage d.layers page layers, { d with layers := layers, fontPage := page }))

/-- `remove_ice_color` of font_operations.rs -/
def removeIceColor (c : Cell) : Cell :=
  if c.fg = c.bg then { c with ch := 219, bg := 0 }
  else if c.ch = 0 ∨ c.ch = 32 ∨ c.ch = 255 then { c with ch := 219, fg := c.bg, bg := 0 }
  else if c.ch = 219 then { c with bg := 0 }
  else
    let swapped (ch : Nat) : Cell := { c with ch := ch, fg := c.bg, bg := c.fg }
    if c.fg < 8 ∧ c.ch = 176 then swapped 178
    else if c.fg < 8 ∧ c.ch = 177 then swapped 177
    else if c.fg < 8 ∧ c.ch = 178 then swapped 176
    else if c.fg < 8 ∧ c.ch = 220 then swapped 223
    else if c.fg < 8 ∧ c.ch = 221 then swapped 222
    else if c.fg < 8 ∧ c.ch = 222 then swapped 221
    else if c.fg < 8 ∧ c.ch = 223 then swapped 220
    else { c with attr := if c.attr / attrBlink % 2 = 1 then c.attr else c.attr + attrBlink, bg := c.bg - 8 }

/-- `set_ice_mode`: every stored cell (hidden ones too) is converted -/
def iceCell (mode : Nat) (c : Cell) : Cell :=
  if mode = 1 then (if 8 ≤ c.bg ∧ c.bg < 16 then removeIceColor c else c)
  else if mode = 2 then
    (if c.attr / attrBlink % 2 = 1 then { c with attr := c.attr - attrBlink, bg := if c.bg < 8 then c.bg + 8 else c.bg } else c)
  else c

def iceBuild (mode : Nat) : BuildFn := fun d =>
  let layers := d.layers.map fun l => { l with lines := l.lines.map fun r => r.map (iceCell mode) }
  .ok (some (.setIceMode d.x.iceMode d.layers mode layers))

/-! ## set_palette_mode -/

/-- `Palette::get_rgb` / `get_color`: bit 31 marks a directly encoded colour, an index past the end is black -/
def palRgb (pal : List Nat) (c : Nat) : Nat := if c / 2147483648 % 2 = 1 then c % 16777216 else pal.getD c 0

def absDiff (a b : Nat) : Nat := if a ≤ b then b - a else a - b

/-- `(o_r - r).abs() + (o_g - g).abs() + (o_b - b).abs()` -/
def rgbDelta (a b : Nat) : Nat :=
  absDiff (a / 65536 % 256) (b / 65536 % 256) + absDiff (a / 256 % 256) (b / 256 % 256) + absDiff (a % 256) (b % 256)

/-- `find_new_color`: the first colour of the new palette with the smallest distance (`delta` starts at `i32::MAX`) -/
def findNewColor (old new : List Nat) (color : Nat) : Nat :=
  ((List.range new.length).foldl (fun (acc : Nat × Nat) i =>
    let nd := rgbDelta (palRgb old color) (palRgb new i)
    if nd < acc.2 ∨ i = 0 then (i, nd) else acc) (0, 2147483647)).1

/-- `color_count` of `get_palette`: visible cells count their foreground and background; an index past the table panics -/
def countColors (layers : List LayerM) (n : Nat) : Except Err (List Int) :=
  layers.foldl (fun acc l => l.lines.foldl (fun acc r => r.foldl (fun acc c =>
    match acc with
    | .error e => .error e
    | .ok cnt =>
      if !c.isVisible then .ok cnt
      else if c.fg < n ∧ c.bg < n then
        let cnt := cnt.set c.fg (cnt.getD c.fg 0 + 1)
        .ok (cnt.set c.bg (cnt.getD c.bg 0 + 1))
      else .error .panic) acc) acc) (.ok (List.replicate n 0))

/-- the `while new_colors.len() < palette_size` loop: repeatedly the most used colour index `>= 1` not taken yet -/
def pickColors (cnt : List Int) (taken : List Nat) : Nat → List Nat
  | 0 => taken
  | fuel + 1 =>
    let best := (List.range cnt.length).foldl (fun (acc : Int × Nat) i =>
      if i ≥ 1 ∧ cnt.getD i 0 > acc.1 then (cnt.getD i 0, i) else acc) (-1, 0)
    if best.1 < 0 then taken else pickColors (cnt.set best.2 (-1)) (taken ++ [best.2]) fuel

/-- `Palette::insert_color` for every colour in turn (a colour already present is not added again) -/
def insertColors (cols : List Nat) : List Nat := cols.foldl (fun p c => if p.contains c then p else p ++ [c]) []

/-- `Palette::resize` -/
def palResize (p : List Nat) (size : Nat) : List Nat :=
  let p1 := if size > p.length then
      let q := if p.length < 16 then p ++ dosDefaultPalette.drop p.length else p
      (q ++ List.replicate (size - q.length) 0).take size
    else p
  if size < p1.length then p1.take size else p1

/-- insertion sort of the chosen colour indices (`sort_by` on the index) -/
def sortNats (l : List Nat) : List Nat := l.foldl (fun acc x => acc.filter (· ≤ x) ++ x :: acc.filter (· > x)) []

/-- `get_palette` -/
def getPalette (layers : List LayerM) (old : List Nat) (size : Nat) : Except Err (List Nat) :=
  match countColors layers old.length with
  | .error e => .error e
  | .ok cnt =>
    let idxs := sortNats (pickColors cnt [0] (size - 1))
    .ok (palResize (insertColors (idxs.map (palRgb old))) size)

/-- `set_palette_mode`: the new palette, the table old colour → nearest new colour, every stored cell remapped (a colour
    index past the table panics) -/
def paletteModeBuild (mode : Nat) : BuildFn := fun d =>
  let old := d.x.palette
  let newPal : Except Err (List Nat) :=
    if mode = 0 then .ok old
    else if mode = 1 then .ok dosDefaultPalette
    else getPalette d.layers old (if mode = 2 then 8 else 16)
  match newPal with
  | .error e => .error e
  | .ok np =>
    let table := (List.range old.length).map (findNewColor old np)
    if d.layers.any (fun l => l.lines.any fun r => r.any fun c => !(c.fg < table.length ∧ c.bg < table.length)) then .error .panic
    else
      let layers := d.layers.map fun l => { l with lines := l.lines.map fun r => r.map fun c =>
        { c with fg := table.getD c.fg 0, bg := table.getD c.bg 0 } }
      .ok (some (.switchPalette d.x.paletteMode old d.layers mode np layers))

/-! ## copy and paste -/

/-- `OverlayMask::get_rectangle`: bounding box of the selected cells of the raw storage (empty rectangle without any) -/
def Mask.boundingRect (m : Mask) : Rect :=
  let pts : List (Nat × Nat) := (m.lines.zipIdx).flatMap fun (row, y) => (row.zipIdx).filterMap fun (b, x) => if b then some (x, y) else none
  match pts with
  | [] => ⟨0, 0, 0, 0⟩
  | p :: rest =>
    let xmin := rest.foldl (fun a q => min a q.1) p.1
    let xmax := rest.foldl (fun a q => max a q.1) p.1
    let ymin := rest.foldl (fun a q => min a q.2) p.2
    let ymax := rest.foldl (fun a q => max a q.2) p.2
    ⟨xmin, ymin, (xmax - xmin + 1 : Nat), (ymax - ymin + 1 : Nat)⟩

/-- `Rectangle::union` -/
def Rect.union (a b : Rect) : Rect :=
  if a.isEmpty then b else if b.isEmpty then a
  else
    let x0 := min a.x b.x
    let y0 := min a.y b.y
    ⟨x0, y0, max a.right b.right - x0, max a.bottom b.bottom - y0⟩

/-- `get_selected_rectangle` -/
def Doc.selectedRect (d : Doc) : Rect :=
  let r := d.mask.boundingRect
  match d.sel with
  | some s => if r.isEmpty then s.asRect else r.union s.asRect
  | none => r

/-- `get_clipboard_data` followed by `Layer::from_clipboard_data`: the selected cells of the current layer as a new
    paste layer at the selection's place (`none`: nothing selected or no layer — `get_clipboard_data` returns `None`) -/
def copyLayer (d : Doc) : Option (Option LayerM) :=
  if !d.somethingSelected then none
  else match d.curLayer with
    | none => none
    | some (_, l) =>
      let r := d.selectedRect
      if r.w ≤ 0 ∨ r.h ≤ 0 then some none
      else some (pasteLayer r.w.toNat r.h.toNat r.x r.y fun x y =>
        if d.isSelected (x + r.x) (y + r.y) then l.getChar (x + r.x - l.props.offX) (y + r.y - l.props.offY) else Cell.invisible)

/-- the closures the harness passes to `enumerate_selections`: 0 selects the cells of the current layer whose character
    code is even, 1 toggles the selection state in the even columns and leaves the odd ones alone -/
def enumClosure (kind : Nat) (x : Int) (ch : Cell) (selected : Bool) : Option Bool :=
  if kind = 0 then some (ch.ch % 2 == 0)
  else if x % 2 = 0 then some (!selected) else none

/-- `enumerate_selections(f)`: nothing without a current layer; every buffer position is offered to `f`; a
    `SetSelectionMask` record is pushed when the mask changed -/
def enumerateEdit (kind : Nat) : EditFn := fun d =>
  match d.curLayer with
  | none => .ok none
  | some (_, l) =>
    let m := (intRange 0 d.h).foldl (fun m y => (intRange 0 d.w).foldl (fun m x =>
      let sel := ({ d with mask := m } : Doc).isSelected x y
      match enumClosure kind x (l.getChar (x - l.props.offX) (y - l.props.offY)) sel with
      | some b => m.set x y b
      | none => m) m) d.mask
    if m = d.mask then .ok none else .ok (some (.setSelectionMask d.mask m, { d with mask := m }))

/-! ## the operations as step lists -/

inductive Call
  | setCaret (x y : Int)
  | setCurrentLayer (i : Nat)
  /-- `set_current_layer(index of the first layer with a paste role)` — what the UI does after a paste -/
  | selectPasteLayer
  | setMirror (b : Bool)
  | setChar (x y : Int) (c : Cell)
  | swapChar (x1 y1 x2 y2 : Int)
  | addLayer (layer : Nat)
  | removeLayer (layer : Nat)
  | raiseLayer (layer : Nat)
  | lowerLayer (layer : Nat)
  | duplicateLayer (layer : Nat)
  | clearLayer (layer : Nat)
  | mergeLayerDown (layer : Nat)
  | anchorLayer
  | toggleVisibility (layer : Nat)
  | moveLayer (x y : Int)
  | setLayerSize (layer : Nat) (w h : Int)
  | updateLayerProps (layer : Nat) (flags : Nat)
  | rotateLayer
  | makeTransparent
  | stampDown
  | paste (layer : Option LayerM)
  | addFloatingLayer
  | resizeBuffer (w h : Int)
  | resizeBufferLayers (w h : Int)
  | cropRect (r : Rect)
  | crop
  | deleteRow
  | insertRow
  | deleteColumn
  | insertColumn
  | setSelection (s : Sel)
  | clearSelection
  | deselect
  | addSelectionToMask
  | inverseSelection
  | enumerateSelections (kind : Nat)
  | eraseSelection
  /-- `erase_row` 0, `erase_row_to_start` 1, `erase_row_to_end` 2, `erase_column` 3, `…_to_start` 4, `…_to_end` 5 -/
  | eraseLine (kind : Nat)
  | flipX
  | flipY
  | justifyLeft
  | justifyRight
  | center
  /-- `justify_line_left` 0, `justify_line_right` 1, `center_line` 2 -/
  | lineOp (kind : Nat)
  | scrollUp
  | scrollDown
  | scrollLeft
  | scrollRight
  | switchToFontPage (page : Nat)
  | setFont (kind : Nat) (font : Option Nat)
  | addFont (slot : Option Nat) (font : Option Nat)
  | replaceFontUsage (src dst : Nat)
  | changeFontSlot (src dst : Nat)
  | removeFont (slot : Nat)
  | setIceMode (mode : Nat)
  | setPaletteMode (mode : Nat)
  /-- `get_clipboard_data()` and, when it returns data, `paste_clipboard_data(&data)` -/
  | copyPaste
  | switchToPalette (pal : List Nat)
  | updateSauce (data : Option Nat)
  | undoCaretPosition
  /-- `push_reverse_undo` of a size record: the reversed record's `redo` (the inner `undo`) sets the buffer size to `w x h` -/
  | pushReverseResize (w h : Int)
  | beginAtomic
  | endAtomic
  | undo
  | redo

/-- `Rectangle::from_coords` asserts `x1 <= x2 && y1 <= y2` -/
def fromCoords (x1 y1 x2 y2 : Int) : Except Err Sel :=
  if x1 ≤ x2 ∧ y1 ≤ y2 then .ok ⟨⟨x1, y1, x2 - x1, y2 - y1⟩, 0, false⟩ else .error .panic

/-- `set_selection` -/
def setSelectionBuild (s : Except Err Sel) : BuildFn := fun d =>
  match s with
  | .error e => .error e
  | .ok s => if d.sel = some s then .ok none else .ok (some (.setSelection d.sel (some s)))

/-- `clear_selection` -/
def clearSelectionBuild : BuildFn := fun d =>
  if d.somethingSelected then .ok (some (.selectNothing d.sel d.mask)) else .ok none

/-- offset of the current layer (`(0, 0)` without layers) -/
def Doc.curOffset (d : Doc) : Int × Int :=
  match d.curLayer with
  | some (_, l) => (l.props.offX, l.props.offY)
  | none => (0, 0)

/-- the selection `erase_row` … `erase_column_to_end` make first -/
def eraseLineSel (kind : Nat) (d : Doc) : Except Err Sel :=
  let (ox, oy) := d.curOffset
  let x := d.caretX + ox
  let y := d.caretY + oy
  match kind with
  | 0 => fromCoords (-1000000) y 1000000 (y + 1)
  | 1 => fromCoords (-1000000) y x (y + 1)
  | 2 => fromCoords x y 1000000 (y + 1)
  | 3 => fromCoords x (-1000000) x 1000000
  | 4 => fromCoords x (-1000000) x y
  | _ => fromCoords x y x 1000000

/-- the selection of `justify_line_left/right`, `center_line` -/
def lineSel (d : Doc) : Except Err Sel :=
  let y := d.caretY + d.curOffset.2
  fromCoords (-1000000) y 1000000 (y + 1)

def areaSteps (f : Doc → LayerM → Rect → Except Err LayerM) : List Step := [.beginAtomic, .edit (areaOp f), .endAtomic]

def centerSteps : List Step := [.beginAtomic] ++ areaSteps justifyLeftF ++ [.edit (areaOp centerF), .endAtomic]

def Call.steps : Call → List Step
  | .setCaret x y => [.touch fun d => { d with caretX := x, caretY := y }]
  | .setCurrentLayer i => [.touch fun d => { d with cur := min i (d.layers.length - 1) }]
  | .selectPasteLayer => [.touch fun d => match d.layers.findIdx? (fun l => l.props.role == 1 || l.props.role == 2) with
      | some i => { d with cur := min i (d.layers.length - 1) }
      | none => d]
  | .setMirror b => [.touch fun d => { d with mirror := b }]
  | .setChar x y c => [.edit (setCharEdit x y c)]
  | .swapChar x1 y1 x2 y2 => [.act fun d => onCurrent d fun i => .swapChar i x1 y1 x2 y2]
  -- `add_new_layer`: a transparent layer of the buffer's size above `layer`, which becomes current
  | .addLayer layer =>
    [.act (fun d =>
        match newLayer d.w d.h with
        | .error e => .error e
        | .ok l => .ok (some (.addLayer (min (layer + 1) d.layers.length)
            (some { l with props := { l.props with hasAlpha := true, title := layerNewName } })))),
     .touch fun d => { d with cur := min (layer + 1) (d.layers.length - 1) }]
  | .removeLayer layer => [.act fun d => onValid d layer (.removeLayer layer none)]
  | .raiseLayer layer =>
    [.act (fun d => if layer + 1 ≥ d.layers.length then .error .err else .ok (some (.raiseLayer layer))),
     .touch fun d => { d with cur := layer + 1 }]
  -- `lower_layer(0)` returns Ok without doing anything
  | .lowerLayer layer =>
    if layer = 0 then [] else
    [.act (fun d => onValid d layer (.lowerLayer layer)), .touch fun d => { d with cur := layer - 1 }]
  | .duplicateLayer layer =>
    [.act (fun d => match d.layers[layer]? with
        | none => .error .err
        | some l => .ok (some (.addLayer (layer + 1) (some { l with props := { l.props with title := dupTitle l.props.title } })))),
     .touch fun d => { d with cur := layer + 1 }]
  -- `clear_layer` leaves `current_layer = layer + 1` (possibly past the end)
  | .clearLayer layer => [.act (fun d => onValid d layer (.clearLayer layer [])), .touch fun d => { d with cur := layer + 1 }]
  | .mergeLayerDown layer => [.edit (mergeEdit layer)]
  | .anchorLayer =>
    [.clearRedo (fun d => match d.curLayer with
        | some (_, c) => c.props.role = 1
        | none => false),
     .edit anchorEdit]
  | .toggleVisibility layer => [.act fun d => onValid d layer (.toggleVisibility layer)]
  -- `move_layer`: the record carries the UNCLAMPED `current_layer` but the offset of the clamped one; Ok(()) without layers
  | .moveLayer x y =>
    [.act fun d =>
      match d.curLayer with
      | none => .ok none
      | some (_, l) => .ok (some (.moveLayer d.cur l.props.offX l.props.offY x y))]
  | .setLayerSize layer w h => [.act fun d => onValid d layer (.setLayerSize layer w h w h)]
  -- `update_layer_properties`: `self.buffer.layers[layer]` panics past the end
  | .updateLayerProps layer flags =>
    [.act fun d => match d.layers[layer]? with
      | none => .error .panic
      | some l => .ok (some (.updateLayerProps layer l.props (propsOfFlags l.props flags)))]
  | .rotateLayer => [.act rotateBuild]
  | .makeTransparent => [.beginAtomic, .edit makeTransparentEdit, .endAtomic]
  | .stampDown => [.beginAtomic, .edit stampDownEdit, .endAtomic]
  | .paste layer => [.act (pasteBuild layer), .touch fun d => { d with sel := none }]
  | .addFloatingLayer => [.act floatBuild]
  | .resizeBuffer w h => [.act fun d => .ok (some (.resizeBuffer d.w d.h w h))]
  -- `resize_buffer(true, ..)`; `layers[0]` panics when no layer is left
  | .resizeBufferLayers w h =>
    [.edit fun d =>
      match cropLayers d.layers ⟨0, 0, w, h⟩ with
      | [] => .error .panic
      | l0 :: rest =>
        let l0' := if l0.w = d.w ∧ l0.h = d.h then { l0 with w := w, h := h } else l0
        .ok (some (.crop d.w d.h w h d.layers, { d with w := w, h := h, layers := l0' :: rest }))]
  | .cropRect r =>
    [.edit fun d => .ok (some (.crop d.w d.h r.w r.h d.layers, { d with w := r.w, h := r.h, layers := cropLayers d.layers r }))]
  | .crop =>
    [.edit fun d =>
      match d.sel with
      | some s =>
        let r := s.asRect
        .ok (some (.crop d.w d.h r.w r.h d.layers, { d with w := r.w, h := r.h, layers := cropLayers d.layers r }))
      | none => .ok none]
  | .deleteRow => [.act fun d => onCurrent d fun i => .deleteRow i d.caretY []]
  | .insertRow => [.act fun d => onCurrent d fun i => .insertRow i d.caretY []]
  | .deleteColumn => [.act fun d => onCurrent d fun i => .deleteColumn i d.caretX []]
  | .insertColumn => [.act fun d => onCurrent d fun i => .insertColumn i d.caretX]
  | .setSelection s => [.act (setSelectionBuild (.ok s))]
  | .clearSelection => [.act clearSelectionBuild]
  | .deselect => [.act fun d => match d.sel with
      | some s => .ok (some (.deselect s))
      | none => .ok none]
  | .addSelectionToMask => [.act fun d => match d.sel with
      | some s => .ok (some (.addSelectionToMask d.mask s))
      | none => .ok none]
  -- `inverse_selection`: the selection is added to (removed from) the mask as a rectangle, then every cell of the buffer flips
  | .inverseSelection =>
    [.edit fun d =>
      let m1 := match d.sel with
        | some s => d.mask.fillRect s.asRect (s.addType != 2)
        | none => d.mask
      let m2 := (intRange 0 d.h).foldl (fun m y => (intRange 0 d.w).foldl (fun m x => m.set x y (!m.get x y)) m) m1
      .ok (some (.inverseSelection d.sel d.mask m2, { d with sel := none, mask := m2 }))]
  | .enumerateSelections kind => [.edit (enumerateEdit kind)]
  | .eraseSelection => [.edit eraseEdit]
  | .eraseLine kind => [.beginAtomic, .act (fun d => setSelectionBuild (eraseLineSel kind d) d), .edit eraseEdit, .endAtomic]
  | .flipX => areaSteps flipXF
  | .flipY => areaSteps flipYF
  | .justifyLeft => areaSteps justifyLeftF
  | .justifyRight => areaSteps justifyRightF
  | .center => centerSteps
  | .lineOp kind =>
    [.beginAtomic, .act (fun d => setSelectionBuild (lineSel d) d)]
      ++ (if kind = 0 then areaSteps justifyLeftF else if kind = 1 then areaSteps justifyRightF else centerSteps)
      ++ [.act clearSelectionBuild, .endAtomic]
  | .scrollUp => [.beginAtomic, .edit (scrollEdit true), .endAtomic]
  | .scrollDown => [.beginAtomic, .edit (scrollEdit false), .endAtomic]
  | .scrollLeft => [.beginAtomic, .edit (fun d => match d.curLayer with
      | none => .error .err
      | some (i, l) => let a := getArea d.sel l.rect; if a.isEmpty then .ok none else layerEdit d i l a (scrollLeftF d l a)), .endAtomic]
  | .scrollRight => [.beginAtomic, .edit (fun d => match d.curLayer with
      | none => .error .err
      | some (i, l) => let a := getArea d.sel l.rect; if a.isEmpty then .ok none else layerEdit d i l a (scrollRightF d l a)), .endAtomic]
  | .switchToFontPage page => [.act fun d => .ok (some (.switchToFontPage d.fontPage page))]
  | .setFont kind font => [.act (setFontBuild kind font)]
  | .addFont slot font => [.act (addFontBuild slot font)]
  | .replaceFontUsage src dst => [.edit (replaceFontUsageEdit src dst)]
  -- `change_font_slot`: the failure of the `ChangeFontSlot` record (empty source slot) is ignored
  | .changeFontSlot src dst =>
    [.beginAtomic,
     .act (fun d => if (fmLookup d.x.fonts src).isSome then .ok (some (.changeFontSlot src dst none)) else .ok none),
     .edit (replaceFontUsageEdit src dst), .endAtomic]
  | .removeFont slot => [.beginAtomic, .edit (replaceFontUsageEdit slot 0), .act (fun _ => .ok (some (.removeFont slot none))), .endAtomic]
  | .setIceMode mode => [.act (iceBuild mode)]
  | .setPaletteMode mode => [.act (paletteModeBuild mode)]
  | .copyPaste =>
    [.act (fun d => match copyLayer d with
      | none => .error .err
      | some layer => pasteBuild layer d),
     .touch fun d => { d with sel := none }]
  | .switchToPalette pal => [.act fun _ => .ok (some (.switchPalettte pal))]
  | .updateSauce data => [.act fun _ => .ok (some (.setSauceData data))]
  -- `undo_caret_position` pushes its record without applying it
  | .undoCaretPosition => [.edit fun d => .ok (some (.reverseCaret d.caretX d.caretY d.caretX d.caretY, d))]
  | .pushReverseResize w h => [.act fun d => .ok (some (.reversed (.resizeBuffer w h d.w d.h)))]
  | .beginAtomic => [.beginAtomic]
  | .endAtomic => [.endAtomic]
  | .undo => [.undo]
  | .redo => [.redo]

end IcyVerif.Undo
