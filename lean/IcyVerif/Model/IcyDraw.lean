import IcyVerif.Gen.Icy
/-! # Model of the native IcyDraw (`.icy`) format — `src/formats/icy_draw.rs`

Byte-level writer and reader of the `LAYER_n` chunk payload (with its continuation chunks
`LAYER_n~k`), the `ICED` header record and the chunk sequence of a whole document.

Parameters (not modelled, chunks in = chunks out): the PNG container, zTXt compression, base64,
the preview image, the `format!`/`parse` of chunk keywords (a keyword is a `Key` here), and the
payload codecs of `PALETTE` (C16), `FONT_n` (C17) and `SAUCE` (C11), which appear as a `Codecs`
record with round-trip hypotheses in the document theorem.

Every `bytes[o]`, `bytes[a..b]`, `try_into().unwrap()` of the reader is a `rd…` operation on the
*remaining suffix* of the payload (`o >= bytes.len()` ⇔ suffix empty, `o + k > bytes.len()` ⇔
suffix shorter than `k`), returning an explicit `Fail` when the Rust code would return `Err` or panic.
The loader checks every length before it indexes (title, 41-byte layer header, announced data length, each
cell record, in the first chunk and in continuation chunks alike), so on the reader's paths the `panic`
outcomes of the `rd…` operations are guarded by an `Err` outcome in front of them.
All constants come from `Gen/Icy.lean` (regenerated from the source on every run). -/
namespace IcyVerif.IcyDraw
open IcyVerif.Gen.Icy

abbrev Bytes := List Nat

/-- how a load can end other than with a buffer -/
inductive Fail where
  | errLength      -- `Err("data length out ouf bounds {} data lenth: {}")`
  | errOob         -- `Err("data length out ouf bounds")`
  | errMode        -- `Err(IcyDrawUnsupportedLayerMode)`
  | errHeader      -- `Err("unsupported header size")`
  | errCodec       -- any other `Err`: `LoadingError::FileTooShort` (title / layer header too short),
                   -- "invalid character {ch:#x}" (`char::from_u32` = `None`), "continuation chunk … for a layer that
                   -- was not defined", the palette / font / sauce payload decoder, a key that does not parse
  | panic          -- index / slice out of range, `unwrap` on `None`
  | imageLayer     -- (unused since the image branch is modelled; kept so that driver output stays stable)
  | negSize        -- a size field ≥ 2^31 (negative `i32`), not modelled
  deriving DecidableEq, Repr

inductive Res (α : Type) where
  | ok : α → Res α
  | fail : Fail → Res α
  deriving Repr, DecidableEq

namespace Res
def bind {α β : Type} : Res α → (α → Res β) → Res β
  | ok a, f => f a
  | fail e, _ => fail e
def map {α β : Type} (f : α → β) : Res α → Res β
  | ok a => ok (f a)
  | fail e => fail e
instance : Monad Res where
  pure := ok
  bind := bind
end Res

/-! ## little-endian integers -/

/-- `n` little-endian bytes of `v` (`uN::to_le_bytes` of `v as uN`) -/
def leBytes : Nat → Nat → Bytes
  | 0, _ => []
  | n+1, v => v % 256 :: leBytes n (v / 256)

def leVal : Bytes → Nat
  | [] => 0
  | b :: r => b + 256 * leVal r

/-- `i32::to_le_bytes` -/
def leI32 (x : Int) : Bytes := leBytes 4 (x % 4294967296).toNat

/-- `u32 as i32` -/
def toI32 (v : Nat) : Int := if v < 2147483648 then (v : Int) else (v : Int) - 4294967296

/-- `bytes[o]` -/
def rdU8 : Bytes → Res (Nat × Bytes)
  | [] => .fail .panic
  | b :: r => .ok (b, r)

/-- `bs.length < n`, looking at no more than `n` elements -/
def lenLt : Bytes → Nat → Bool
  | _, 0 => false
  | [], _+1 => true
  | _ :: r, n+1 => lenLt r n

/-- `bytes[o..o+n]` -/
def rdSlice (n : Nat) (bs : Bytes) : Res (Bytes × Bytes) :=
  if lenLt bs n then .fail .panic else .ok (bs.take n, bs.drop n)

/-- `uN::from_le_bytes(bytes[o..o+n].try_into().unwrap())` -/
def rdLE (n : Nat) (bs : Bytes) : Res (Nat × Bytes) :=
  match rdSlice n bs with
  | .ok (s, r) => .ok (leVal s, r)
  | .fail e => .fail e

/-! ## cells -/

structure Cell where
  ch : Nat
  fg : Nat
  bg : Nat
  page : Nat
  attr : Nat
  deriving DecidableEq, Repr

/-- `AttributedChar::invisible().with_font_page(page)` -/
def invisibleCell (page : Nat) : Cell := ⟨32, 7, 0, page, attrInvisible⟩

/-- `AttributedChar::is_visible` -/
def Cell.visible (c : Cell) : Bool := c.attr &&& attrInvisible == 0

/-- a Unicode scalar value (what a Rust `char` can hold) -/
def isScalar (n : Nat) : Bool := n < 0xD800 || (0xE000 ≤ n && n < 0x110000)

/-- `!attribute::SHORT_DATA` on `u16` -/
def notShort : Nat := 65535 - attrShortData

def Cell.isShort (c : Cell) : Bool :=
  c.visible && c.ch ≤ shortMax.1 && c.fg ≤ shortMax.2.1 && c.bg ≤ shortMax.2.2.1 && c.page ≤ shortMax.2.2.2

/-- one cell record as written by `to_bytes` (an invisible cell is the bare marker
    `attribute::INVISIBLE`, whatever other attribute bits it carries) -/
def encodeCell (c : Cell) : Bytes :=
  if c.visible then
    if c.isShort then
      leBytes 2 (c.attr ||| attrShortData) ++ [c.ch % 256, c.fg % 256, c.bg % 256, c.page % 256]
    else
      leBytes 2 c.attr ++ leBytes 4 c.ch ++ leBytes 4 c.fg ++ leBytes 4 c.bg ++ leBytes 2 c.page
  else leBytes 2 attrInvisible

/-- the row without its trailing invisible cells (`get_invisible_line_length`) -/
def stripInv : List Cell → List Cell
  | [] => []
  | c :: cs =>
    match stripInv cs with
    | [] => if c.visible then [c] else []
    | r => c :: r

/-- one row of `w` cells: the cells up to the last visible one, then the end-of-row marker unless the
    row is full -/
def encodeRow (w : Nat) (cells : List Cell) : Bytes :=
  let vis := stripInv cells
  vis.flatMap encodeCell ++ (if w > vis.length then leBytes 2 attrInvisibleShort else [])

/-! ## layers -/

structure Layer where
  title : Bytes                      -- UTF-8 bytes of `properties.title`
  role : Nat                         -- 0 Normal, 1 PastePreview, 2 PasteImage, 3 Image
  mode : Nat                         -- 0 Normal, 1 Chars, 2 Attributes
  color : Option (Nat × Nat × Nat)
  isVisible : Bool
  isLocked : Bool
  isPosLocked : Bool
  hasAlpha : Bool
  isAlphaLocked : Bool
  transparency : Nat
  offX : Int
  offY : Int
  width : Nat
  height : Nat
  defaultPage : Nat
  lines : List (List Cell)           -- `Layer::lines[y].chars`
  deriving DecidableEq, Repr

/-- `Layer::get_char` for non-negative positions -/
def getChar (l : Layer) (x y : Nat) : Cell :=
  if x < l.width ∧ y < l.height then
    match l.lines[y]? with
    | some line =>
      match line[x]? with
      | some c => c
      | none => invisibleCell l.defaultPage
    | none => invisibleCell l.defaultPage
  else invisibleCell l.defaultPage

/-- row `y` as the writer sees it: `get_char((x, y))` for `x` in `0..width` -/
def rowView (l : Layer) (y : Nat) : List Cell := (List.range l.width).map fun x => getChar l x y

def allRows (l : Layer) : List (List Cell) := (List.range l.height).map (rowView l)

def encodeFlags (l : Layer) : Nat :=
  (if l.isVisible then flagIsVisible else 0) ||| (if l.isLocked then flagEditLock else 0) |||
  (if l.isPosLocked then flagPosLock else 0) ||| (if l.hasAlpha then flagHasAlpha else 0) |||
  (if l.isAlphaLocked then flagAlphaLocked else 0)

/-- everything of the `LAYER_n` payload before the 8-byte data length -/
def encodeLayerHeader (l : Layer) : Bytes :=
  leBytes 4 l.title.length ++ l.title ++
  [if l.role = 3 then roleImageByte else roleNormalByte] ++ [0, 0, 0, 0] ++ [modeBytes.getD l.mode 0] ++
  (match l.color with
   | some (r, g, b) => [r % 256, g % 256, b % 256, colorAlphaByte]
   | none => [0, 0, 0, 0]) ++
  leBytes 4 (encodeFlags l) ++ [l.transparency % 256] ++ leI32 l.offX ++ leI32 l.offY ++
  leBytes 4 l.width ++ leBytes 4 l.height ++ leBytes 2 l.defaultPage

/-- the inner `while y < height` loop: rows are appended while `result.len() + width*16 <= MAX`;
    returns the bytes and the rows left for the next chunk -/
def encodeRowsBudget (w : Nat) : Nat → List (List Cell) → Bytes × List (List Cell)
  | _, [] => ([], [])
  | len, r :: rs =>
    if len + w * rowBudgetFactor > maxChunk then ([], r :: rs) else
    let b := encodeRow w r
    let rest := encodeRowsBudget w (len + b.length) rs
    (b ++ rest.1, rest.2)

/-- the continuation chunks `LAYER_n~1`, `~2`, …; `none` = the Rust loop never terminates
    (`width*16 > MAX`: no row ever fits) -/
def encodeCont (w : Nat) : Nat → List (List Cell) → Option (List Bytes)
  | _, [] => some []
  | 0, _ :: _ => none
  | fuel+1, r :: rs =>
    let out := encodeRowsBudget w 0 (r :: rs)
    (encodeCont w fuel out.2).map (out.1 :: ·)

/-- payloads of `LAYER_n`, `LAYER_n~1`, …  (`none`: image layer — not modelled — or divergence) -/
def encodeLayer (l : Layer) : Option (List Bytes) :=
  if l.role = 3 then none else
  let hdr := encodeLayerHeader l
  let out := encodeRowsBudget l.width (hdr.length + 8) (allRows l)
  (encodeCont l.width out.2.length out.2).map ((hdr ++ leBytes 8 out.1.length ++ out.1) :: ·)

/-! ### reader -/

/-- the payload of one visible cell (the decoders of the first chunk and of a continuation chunk make the
    same length checks, both returning `Err("data length out ouf bounds")`) -/
def readCellBody (isShort : Bool) (attr : Nat) (bs : Bytes) : Res (Cell × Bytes) :=
  if isShort then
    -- `if o + 4 > bytes.len()`
    if lenLt bs 4 then .fail .errOob else
    match bs with
    | ch :: fg :: bg :: page :: r => .ok (⟨ch, fg, bg, page, attr⟩, r)
    | _ => .fail .panic
  else
    -- `if o + 14 > bytes.len()`
    if lenLt bs 14 then .fail .errOob else
    match rdLE 4 bs with
    | .fail e => .fail e
    | .ok (ch, r1) =>
    match rdLE 4 r1 with
    | .fail e => .fail e
    | .ok (fg, r2) =>
    match rdLE 4 r2 with
    | .fail e => .fail e
    | .ok (bg, r3) =>
    match rdLE 2 r3 with
    | .fail e => .fail e
    | .ok (page, r4) => .ok (⟨ch, fg, bg, page, attr⟩, r4)

/-- `for x in 0..width`: `some c` = `set_char((x, y), c)`, `none` = `continue`; the list ends early at
    the end-of-row marker -/
def readRow : Nat → Bytes → Res (List (Option Cell) × Bytes)
  | 0, bs => .ok ([], bs)
  | w+1, bs =>
    match bs with
    | b0 :: b1 :: r =>
      let attr := b0 + 256 * b1
      if attr = attrInvisibleShort then .ok ([], r) else
      let isShort := attr &&& attrShortData != 0
      let attr' := if isShort then attr &&& notShort else attr
      if attr' = attrInvisible then
        match readRow w r with
        | .ok (cs, r') => .ok (none :: cs, r')
        | .fail e => .fail e
      else
        match readCellBody isShort attr' r with
        | .fail e => .fail e
        | .ok (c, r1) =>
          -- `let Some(ch) = char::from_u32(ch) else { return Err("invalid character …") }`
          if !isScalar c.ch then .fail .errCodec else
          match readRow w r1 with
          | .ok (cs, r') => .ok (some c :: cs, r')
          | .fail e => .fail e
    | _ => .fail .errOob                                   -- `if o + 2 > bytes.len()`

/-- `for y in …`: stops silently when the payload is used up ("continued in a later chunk") -/
def readRows (w : Nat) : Nat → Bytes → Res (List (List (Option Cell)))
  | 0, _ => .ok []
  | h+1, bs =>
    if bs.isEmpty then .ok [] else
    match readRow w bs with
    | .fail e => .fail e
    | .ok (row, r) =>
      match readRows w h r with
      | .ok rows => .ok (row :: rows)
      | .fail e => .fail e

/-- `Line::create(width)` -/
def lineCreate (w : Nat) : List Cell := List.replicate w (invisibleCell 0)

/-- `Line::set_char` -/
def lineSet (line : List Cell) (x : Nat) (c : Cell) : List Cell :=
  (if x ≥ line.length then line ++ List.replicate (x + 1 - line.length) (invisibleCell 0) else line).set x c

/-- `Layer::set_char` for non-negative positions (no sixels) -/
def setChar (l : Layer) (x y : Nat) (c : Cell) : Layer :=
  if ¬ (x < l.width ∧ y < l.height) then l else
  if l.isLocked ∨ ¬ l.isVisible then l else
  let lines := if y ≥ l.lines.length then l.lines ++ List.replicate (y + 1 - l.lines.length) (lineCreate l.width) else l.lines
  let l1 := { l with lines := lines }
  if l.hasAlpha ∧ l.isAlphaLocked ∧ ¬ (getChar l1 x y).visible then l1 else
  { l with lines := lines.set y (lineSet (lines.getD y []) x c) }

def applyRow (l : Layer) (y : Nat) : Nat → List (Option Cell) → Layer
  | _, [] => l
  | x, none :: cs => applyRow l y (x + 1) cs
  | x, some c :: cs => applyRow (setChar l x y c) y (x + 1) cs

def applyRows (l : Layer) : Nat → List (List (Option Cell)) → Layer
  | _, [] => l
  | y, r :: rs => applyRows (applyRow l y 0 r) (y + 1) rs

/-- `read_utf8_encoded_string`: both length checks return `Err(LoadingError::FileTooShort)` -/
def rdString (bs : Bytes) : Res (Bytes × Bytes) :=
  if lenLt bs 4 then .fail .errCodec else                  -- `if data.len() < 4`
  match rdLE 4 bs with
  | .fail e => .fail e
  | .ok (n, r) =>
    if lenLt r n then .fail .errCodec else                 -- `if data.len() - 4 < size`
    rdSlice n r

def decodeFlags (l : Layer) (flags : Nat) : Layer :=
  { l with
    isVisible := flags &&& flagIsVisible == flagIsVisible
    isLocked := flags &&& flagEditLock == flagEditLock
    isPosLocked := flags &&& flagPosLock == flagPosLock
    hasAlpha := flags &&& flagHasAlpha == flagHasAlpha
    isAlphaLocked := flags &&& flagAlphaLocked == flagAlphaLocked }

/-- the fixed-size part after the title, as read: (role, mode, colour, flags, transparency, x, y, w, h,
    default page, data length) -/
structure LayerFields where
  roleByte : Nat
  modeByte : Nat
  r : Nat
  g : Nat
  b : Nat
  a : Nat
  flags : Nat
  transparency : Nat
  offX : Nat
  offY : Nat
  width : Nat
  height : Nat
  defaultPage : Nat
  length : Nat
  deriving Repr

def rdFields (bs : Bytes) : Res (LayerFields × Bytes) := do
  -- `if bytes.len() < o + 41 { return Err(LoadingError::FileTooShort) }`: role, 4 spare, mode, colour, flags,
  -- transparency, offset, size, default font page, data length
  if lenLt bs 41 then Res.fail Fail.errCodec else
  let (role, bs) ← rdU8 bs
  let (mode, bs) ← rdU8 (bs.drop 4)          -- `o += 4; // skip unused`
  if mode > 2 then Res.fail Fail.errMode else
  let (r, bs) ← rdU8 bs
  let (g, bs) ← rdU8 bs
  let (b, bs) ← rdU8 bs
  let (a, bs) ← rdU8 bs
  let (flags, bs) ← rdLE 4 bs
  let (tr, bs) ← rdU8 bs
  let (ox, bs) ← rdLE 4 bs
  let (oy, bs) ← rdLE 4 bs
  let (w, bs) ← rdLE 4 bs
  let (h, bs) ← rdLE 4 bs
  let (dp, bs) ← rdLE 2 bs
  let (len, bs) ← rdLE 8 bs
  pure (⟨role, mode, r, g, b, a, flags, tr, ox, oy, w, h, dp, len⟩, bs)

/-- the layer as `Layer::new(title, (0, 0))` + the setters leave it before any cell is read:
    visible, unlocked (the flags are applied after the cells "because of the way the parser works") -/
def freshLayer (title : Bytes) (f : LayerFields) : Layer :=
  { title := title
    role := if f.roleByte = 1 then 3 else 0
    mode := f.modeByte
    color := if f.a ≠ 0 then some (f.r, f.g, f.b) else none
    isVisible := true, isLocked := false, isPosLocked := false, hasAlpha := false, isAlphaLocked := false
    transparency := f.transparency
    offX := toI32 f.offX, offY := toI32 f.offY
    width := f.width, height := f.height
    defaultPage := f.defaultPage
    lines := [] }

/-- the `LAYER_n` chunk -/
def decodeLayerMain (bytes : Bytes) : Res Layer :=
  match rdString bytes with
  | .fail e => .fail e
  | .ok (title, r0) =>
  match rdFields r0 with
  | .fail e => .fail e
  | .ok (f, data) =>
  if f.roleByte = 1 then
    -- image layer: `if bytes.len() < o + 16 { FileTooShort }`, four u32 (sixel size and scales), the rest is the
    -- picture data of `layer.sixels[0]` (not part of the layer observation); no cells are read, flags are applied
    (if lenLt data 16 then .fail .errCodec else
     if f.width ≥ 2147483648 ∨ f.height ≥ 2147483648 then .fail .negSize else
     .ok (decodeFlags (freshLayer title f) f.flags)) else
  if lenLt data f.length then .fail .errLength else          -- `if bytes.len() - o < length`
  if f.width ≥ 2147483648 ∨ f.height ≥ 2147483648 then .fail .negSize else
  match readRows f.width f.height data with
  | .fail e => .fail e
  | .ok rows => .ok (decodeFlags (applyRows (freshLayer title f) 0 rows) f.flags)

/-- a `LAYER_n~k` chunk applied to the already loaded layer `n` -/
def decodeLayerCont (l : Layer) (bytes : Bytes) : Res Layer :=
  if l.role = 3 then .ok l else    -- `Role::Image => layer.sixels[0].picture_data.extend(&bytes)`: the layer itself is unchanged
  match readRows l.width (l.height - l.lines.length) bytes with
  | .fail e => .fail e
  | .ok rows => .ok (applyRows l l.lines.length rows)

def decodeConts : Layer → List Bytes → Res Layer
  | l, [] => .ok l
  | l, c :: cs =>
    match decodeLayerCont l c with
    | .fail e => .fail e
    | .ok l' => decodeConts l' cs

/-- all chunks of one layer -/
def decodeLayer : List Bytes → Res Layer
  | [] => .fail .panic
  | c :: cs =>
    match decodeLayerMain c with
    | .fail e => .fail e
    | .ok l => decodeConts l cs

/-! ## the `ICED` header record -/

/-- the four mode fields hold the VARIANT (index in declaration order: `Gen.Icy.bufferTypeVariants`, …), not its byte -/
structure Header where
  bufferType : Nat     -- BufferType: Unicode, CP437, Petscii, Atascii, Viewdata
  iceMode : Nat        -- IceMode: Unlimited, Blink, Ice
  paletteMode : Nat    -- PaletteMode: RGB, Fixed16, Free8, Free16
  fontMode : Nat       -- FontMode: Unlimited, Sauce, Single, FixedSize
  width : Nat
  height : Nat
  deriving DecidableEq, Repr

/-- `X::to_byte(self)`: the `match self` table regenerated from src/buffers.rs, indexed by variant -/
def toByteTbl (tbl : List Nat) (v : Nat) : Nat := tbl.getD v 0
/-- `X::from_byte(b)`: the `match b` of src/buffers.rs — the first explicit arm naming `b`, else the `_` arm -/
def fromByteTbl (arms : List (Nat × Nat)) (dflt b : Nat) : Nat := (arms.lookup b).getD dflt

def bufferTypeByte (v : Nat) : Nat := toByteTbl bufferTypeToByte v
def iceModeByte (v : Nat) : Nat := toByteTbl iceModeToByte v
def paletteModeByte (v : Nat) : Nat := toByteTbl paletteModeToByte v
def fontModeByte (v : Nat) : Nat := toByteTbl fontModeToByte v
def bufferTypeOfByte (b : Nat) : Nat := fromByteTbl bufferTypeFromArms bufferTypeFromDefault b
def iceModeOfByte (b : Nat) : Nat := fromByteTbl iceModeFromArms iceModeFromDefault b
def paletteModeOfByte (b : Nat) : Nat := fromByteTbl paletteModeFromArms paletteModeFromDefault b
def fontModeOfByte (b : Nat) : Nat := fromByteTbl fontModeFromArms fontModeFromDefault b

/-- the buffer type is stored as `to_byte() as u16` (two bytes), the other modes as one byte each -/
def encodeHeader (h : Header) : Bytes :=
  [icdVersion % 256, icdVersion / 256 % 256] ++ leBytes 4 0 ++ leBytes 2 (bufferTypeByte h.bufferType) ++
  [iceModeByte h.iceMode % 256, paletteModeByte h.paletteMode % 256, fontModeByte h.fontMode % 256] ++
  leBytes 4 h.width ++ leBytes 4 h.height

def decodeHeader (bytes : Bytes) : Res Header :=
  if bytes.length ≠ icedHeaderSize then .fail .errHeader else
  match rdLE 2 (bytes.drop 6) with       -- `o += 2; o += 4;`
  | .fail e => .fail e
  | .ok (bt, r) =>
  match rdU8 r with
  | .fail e => .fail e
  | .ok (ice, r) =>
  match rdU8 r with
  | .fail e => .fail e
  | .ok (pal, r) =>
  match rdU8 r with
  | .fail e => .fail e
  | .ok (font, r) =>
  match rdLE 4 r with
  | .fail e => .fail e
  | .ok (w, r) =>
  match rdLE 4 r with
  | .fail e => .fail e
  | .ok (h, _) =>
  if w ≥ 2147483648 ∨ h ≥ 2147483648 then .fail .negSize else
  -- `BufferType::from_byte(buffer_type as u8)`: the high byte of the u16 is dropped
  .ok ⟨bufferTypeOfByte (bt % 256), iceModeOfByte ice, paletteModeOfByte pal, fontModeOfByte font, w, h⟩

/-! ## whole documents: the chunk sequence -/

/-- a chunk keyword after `format!` / the reader's keyword dispatch -/
inductive Key where
  | iced | sauce | palette
  | font (slot : Nat)
  | fontBad                  -- `FONT_…` whose slot does not parse: `Err(ErrorParsingFontSlot)`
  | layer (n : Nat)          -- `LAYER_n` (the reader ignores `n`: layers are pushed in file order)
  | layerCont (n k : Nat)    -- `LAYER_n~k`
  | end_
  | other                    -- anything else: skipped with a warning
  deriving DecidableEq, Repr

abbrev RGB := Nat × Nat × Nat

/-- payload codecs that are parameters of the document model -/
structure Codecs (F S : Type) where
  palEnc : List RGB → Bytes
  palDec : Bytes → Res (List RGB)
  fontName : F → Bytes
  fontData : F → Bytes
  fontDec : Bytes → Bytes → Res F          -- `BitFont::from_bytes(name, data)`
  sauceDec : Bytes → Res (Option S)        -- `SauceData::extract`
  defaultFont : F                          -- `BitFont::default()` in slot 0 of `Buffer::new`

structure Doc (F S : Type) where
  hdr : Header
  sauce : Option (S × Bytes)               -- the record and what `write_sauce_info` emits for it
  palette : List RGB
  fonts : List (Nat × F)                   -- `font_iter()` (hash-map order)
  layers : List Layer

def fontPayload {F S : Type} (cd : Codecs F S) (f : F) : Bytes :=
  leBytes 4 (cd.fontName f).length ++ cd.fontName f ++ cd.fontData f

def layerChunks (n : Nat) (cs : List Bytes) : List (Key × Bytes) :=
  match cs with
  | [] => []
  | c :: rest => (Key.layer n, c) :: (List.range rest.length).zipWith (fun k b => (Key.layerCont n (k + 1), b)) rest

/-- `LAYER_n`, `LAYER_n~1`, … for the layers `n`, `n+1`, … -/
def numberLayers : Nat → List (List Bytes) → List (Key × Bytes)
  | _, [] => []
  | n, cs :: rest => layerChunks n cs ++ numberLayers (n + 1) rest

def encodeAllLayers : List Layer → Option (List (List Bytes))
  | [] => some []
  | l :: ls =>
    match encodeLayer l, encodeAllLayers ls with
    | some cs, some rest => some (cs :: rest)
    | _, _ => none

/-- `if buf.has_sauce()` -/
def sauceChunks {F S : Type} (d : Doc F S) : List (Key × Bytes) :=
  match d.sauce with
  | some (_, b) => [(Key.sauce, b)]
  | none => []

/-- `if !buf.palette.is_default()` -/
def paletteChunks {F S : Type} (cd : Codecs F S) (d : Doc F S) : List (Key × Bytes) :=
  if d.palette = dosDefaultPalette then [] else [(Key.palette, cd.palEnc d.palette)]

/-- the zTXt chunks in file order, given the payloads of every layer -/
def assemble {F S : Type} (cd : Codecs F S) (d : Doc F S) (ls : List (List Bytes)) : List (Key × Bytes) :=
  [(Key.iced, encodeHeader d.hdr)] ++ sauceChunks d ++ paletteChunks cd d ++
  d.fonts.map (fun kf => (Key.font kf.1, fontPayload cd kf.2)) ++ numberLayers 0 ls ++ [(Key.end_, [])]

def encodeDoc {F S : Type} (cd : Codecs F S) (d : Doc F S) : Option (List (Key × Bytes)) :=
  (encodeAllLayers d.layers).map (assemble cd d)

/-- the buffer under construction in `load_buffer` -/
structure Loaded (F S : Type) where
  hdr : Header
  sauce : Option S
  palette : List RGB
  fontAt : Nat → Option F
  layers : List Layer

/-- the modes `Buffer::new` sets (variant names regenerated from src/buffers.rs) and the size (80, 25) `load_buffer` passes -/
def initialHeader : Header :=
  ⟨bufferTypeVariants.idxOf (initialModes.getD 0 ""), iceModeVariants.idxOf (initialModes.getD 1 ""),
   paletteModeVariants.idxOf (initialModes.getD 2 ""), fontModeVariants.idxOf (initialModes.getD 3 ""), 80, 25⟩

/-- `Buffer::new((80, 25))` with `layers.clear()` -/
def initLoaded {F S : Type} (cd : Codecs F S) : Loaded F S :=
  { hdr := initialHeader, sauce := none, palette := dosDefaultPalette,
    fontAt := fun k => if k = 0 then some cd.defaultFont else none, layers := [] }

/-- one chunk other than `END` -/
def stepChunk {F S : Type} (cd : Codecs F S) (st : Loaded F S) (k : Key) (b : Bytes) : Res (Loaded F S) :=
  match k with
  | .iced => match decodeHeader b with
    | .ok h => .ok { st with hdr := h }
    | .fail e => .fail e
  | .palette => match cd.palDec b with
    | .ok p => .ok { st with palette := p }
    | .fail e => .fail e
  | .sauce => match cd.sauceDec b with
    | .ok (some s) => .ok { st with sauce := some s }
    | .ok none => .ok st
    | .fail e => .fail e
  | .font slot => match rdString b with
    | .fail e => .fail e
    | .ok (name, data) => match cd.fontDec name data with
      | .ok f => .ok { st with fontAt := fun k => if k = slot then some f else st.fontAt k }
      | .fail e => .fail e
  | .fontBad => .fail .errCodec
  | .layer _ => match decodeLayerMain b with
    | .ok l => .ok { st with layers := st.layers ++ [l] }
    | .fail e => .fail e
  | .layerCont n _ => match st.layers[n]? with
    | none => .fail .errCodec                               -- `let Some(layer) = result.layers.get_mut(layer_num) else { return Err(…) }`
    | some l => match decodeLayerCont l b with
      | .ok l' => .ok { st with layers := st.layers.set n l' }
      | .fail e => .fail e
  | .end_ => .ok st
  | .other => .ok st

def runChunks {F S : Type} (cd : Codecs F S) : Loaded F S → List (Key × Bytes) → Res (Loaded F S)
  | st, [] => .ok st
  | st, (k, b) :: rest =>
    if k = Key.end_ then .ok st else
    match stepChunk cd st k b with
    | .ok st' => runChunks cd st' rest
    | .fail e => .fail e

def decodeDoc {F S : Type} (cd : Codecs F S) (chunks : List (Key × Bytes)) : Res (Loaded F S) :=
  runChunks cd (initLoaded cd) chunks

/-! ## what "reproduced" means -/

/-- the visible content of a position: `none` for an invisible cell -/
def visAt (l : Layer) (x y : Nat) : Option Cell :=
  let c := getChar l x y
  if c.visible then some c else none

/-- every listed field equal; cells equal where visible, invisible where invisible -/
def Layer.docEq (a b : Layer) : Prop :=
  a.title = b.title ∧ a.role = b.role ∧ a.mode = b.mode ∧ a.color = b.color ∧
  a.isVisible = b.isVisible ∧ a.isLocked = b.isLocked ∧ a.isPosLocked = b.isPosLocked ∧
  a.hasAlpha = b.hasAlpha ∧ a.isAlphaLocked = b.isAlphaLocked ∧ a.transparency = b.transparency ∧
  a.offX = b.offX ∧ a.offY = b.offY ∧ a.width = b.width ∧ a.height = b.height ∧
  a.defaultPage = b.defaultPage ∧
  ∀ x y, x < b.width → y < b.height → visAt a x y = visAt b x y

infix:50 " ≈doc " => Layer.docEq

/-! ## well-formed inputs (decidable) -/

/-- a cell a Rust `AttributedChar` can hold in a document of the property's quantifier: `char` is a scalar
    value, colours are `u32`, the font page fits the `u16` of the format, `attr` is a `u16`; the
    `SHORT_DATA` marker ("for loading & saving only") is not an attribute of a visible cell -/
def Cell.wf (c : Cell) : Bool :=
  isScalar c.ch && c.fg < 4294967296 && c.bg < 4294967296 && c.page < 65536 && c.attr < 65536 &&
  (!c.visible || c.attr &&& attrShortData == 0)

/-- the whole layer fits the first chunk: title + 37 header bytes + 8 length bytes + `height` rows of at most
    `16*width` bytes (the writer starts a new chunk when `len + 16*width > MAX`); every layer of the
    property's quantifier (≤ 200 x 120, i.e. ≤ 384 000 bytes of cells) fits -/
def Layer.fits (l : Layer) : Bool := l.title.length + 45 + 16 * l.width * l.height ≤ maxChunk

def Layer.wf (l : Layer) : Bool :=
  l.title.all (· < 256) && l.role == 0 && l.mode < 3 &&
  (match l.color with | some (r, g, b) => r < 256 && g < 256 && b < 256 | none => true) &&
  l.transparency < 256 &&
  decide (-2147483648 ≤ l.offX) && decide (l.offX < 2147483648) &&
  decide (-2147483648 ≤ l.offY) && decide (l.offY < 2147483648) &&
  l.width < 2147483648 && l.height < 2147483648 && l.defaultPage < 65536 && l.fits &&
  (allRows l).all (·.all Cell.wf)

/-- decidable well-formedness predicate of the layer theorem -/
def WfLayer (l : Layer) : Prop := l.wf = true
instance (l : Layer) : Decidable (WfLayer l) := inferInstanceAs (Decidable (l.wf = true))

/-- every mode field is one of the enum's variants; the size is a non-negative `i32` -/
def Header.wf (h : Header) : Bool :=
  h.bufferType < bufferTypeVariants.length && h.iceMode < iceModeVariants.length &&
  h.paletteMode < paletteModeVariants.length && h.fontMode < fontModeVariants.length &&
  h.width < 2147483648 && h.height < 2147483648

def WfHeader (h : Header) : Prop := h.wf = true
instance (h : Header) : Decidable (WfHeader h) := inferInstanceAs (Decidable (h.wf = true))

end IcyVerif.IcyDraw
