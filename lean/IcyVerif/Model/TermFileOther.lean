import IcyVerif.Model.TermFile
import IcyVerif.Model.TermOther
/-! # ASCII, ATASCII and PETSCII on a FILE buffer (`.asc`, `.ata`, `.seq`)
`src/parsers/{ascii,atascii,petscii}/mod.rs` with the file-buffer primitives and row-table effects of
`Model/TermFile.lean`.  (Viewdata and Mode 7 have no file format: `Buffer::from_bytes` never runs them.) -/
namespace IcyVerif.TermFile
open IcyVerif.Term

structure FOSt where
  s : Scr
  c : Car
  r : Rows
  esc : Bool := false        -- ATASCII got_escape / PETSCII got_esc
  shift : Bool := false      -- PETSCII shift_mode
deriving Repr, Inhabited

abbrev FOR := Res (FOSt × Out)

def foret (st : FOSt) (o : Out) : FOR := .ok (st, o)
def foliftC (st : FOSt) (r : Res Car) : FOR :=
  match r with
  | .ok c => .ok ({ st with c := c }, .ok)
  | .error e => .error e
def foliftCR (st : FOSt) (r : Res (Car × Rows)) : FOR :=
  match r with
  | .ok (c, rows) => .ok ({ st with c := c, r := rows }, .ok)
  | .error e => .error e

/-- `Buffer::print_value(ch as u16)`: prints unless the 16-bit value is a surrogate -/
def printValueF (st : FOSt) (v : Nat) : FOR :=
  if 55296 ≤ v ∧ v ≤ 57343 then foret st .ok else foliftCR st (printCharF st.s st.c st.r)

/-- `Caret::bs` -/
def bsF (st : FOSt) : FOSt :=
  { st with c := { st.c with x := max 0 (st.c.x - 1) }, r := st.r.setChar (max 0 (st.c.x - 1)) st.c.y }
def clearScreenO (st : FOSt) : FOSt := { st with c := { st.c with x := 0, y := 0 }, r := { st.r with lens := #[] } }

def asciiStepF (st : FOSt) (ch : Char) : FOR :=
  let s := st.s; let c := st.c
  if ch = '\x00' ∨ ch = '\xff' then foret st .ok
  else if ch = '\x07' then foret st .ok
  else if ch = '\n' then foliftCR st (lfF s c st.r)
  else if ch = '\x0c' then foret { st with s := resetTerminal s, c := { c with x := 0, y := 0 }, r := { st.r with lens := #[] } } .ok
  else if ch = '\r' then foret { st with c := { c with x := 0 } } .ok
  else if ch = '\x08' then foret (bsF st) .ok
  else if ch = '\x7f' then foret { st with r := st.r.del c.x c.y } .ok
  else printValueF st (ch.toNat % 65536)

def atasciiStepF (st : FOSt) (ch : Char) : FOR :=
  let s := st.s; let c := st.c
  if st.esc then printValueF { st with esc := false } (ch.toNat % 65536)
  else if ch = '\x1b' then foret { st with esc := true } .ok
  else if ch = '\x1c' then foliftC st (upF s c 1)
  else if ch = '\x1d' then foliftC st (downF s c 1)
  else if ch = '\x1e' then foliftC st (leftF s c 1)
  else if ch = '\x1f' then foliftC st (rightF s c 1)
  else if ch = '\x7d' then foret (clearScreenO st) .ok
  else if ch = '\x7e' then foret (bsF st) .ok
  else if ch = '\x7f' ∨ ch = '\x9e' ∨ ch = '\x9f' then foret st .ok
  else if ch = '\x9b' then foliftCR st (lfF s c st.r)
  else if ch = '\x9c' then
    if LineOpPanics s c.y then .error (.negIndex "atascii: remove_terminal_line(y)") else foret { st with r := removeTermLine s st.r c.y } .ok
  else if ch = '\x9d' then
    if LineOpPanics s c.y then .error (.negIndex "atascii: insert_terminal_line(y)") else foret { st with r := insertTermLine s st.r c.y } .ok
  else if ch = '\xfd' then foret st .ok
  else if ch = '\xfe' then foret { st with r := st.r.del c.x c.y } .ok
  else if ch = '\xff' then foret { st with r := st.r.ins c.x c.y } .ok
  else
    let v := ch.toNat % 65536
    printValueF st (if v > 127 then v - 128 else v)

/-- `update_shift_mode`: when the mode changes every cell of the buffer rectangle is rewritten -/
def shiftModeF (st : FOSt) (m : Bool) : FOSt :=
  if st.shift = m then st else { st with shift := m, r := st.r.touchRect 0 (st.s.bw - 1) 0 (st.s.bh - 1) }

def petsciiStepF (st : FOSt) (ch : Char) : FOR :=
  let s := st.s; let c := st.c
  let b := ch.toNat % 256
  if st.esc then
    let st := { st with esc := false }
    if b = 81 then foret { st with r := st.r.touchRect c.x (s.bw - 1) c.y c.y } .ok          -- 'Q' clear_line_end
    else if b = 80 then foret { st with r := st.r.touchRect 0 (c.x - 1) c.y c.y } .ok         -- 'P' clear_line_start
    else if b = 64 then foret { st with r := st.r.touchRect 0 (s.bw - 1) c.y (s.bh - 1) } .ok -- '@' clear_buffer_down
    else if b = 74 then foret { st with c := { c with x := 0 } } .ok                          -- 'J'
    else if b = 75 then foret { st with c := { c with x := s.tw - 1 } } .ok                   -- 'K'
    else if b = 68 then                                                                        -- 'D' delete line
      if LineOpPanics s c.y then .error (.negIndex "petscii: remove_terminal_line(y)") else foret { st with r := removeTermLine s st.r c.y } .ok
    else if b = 73 then                                                                        -- 'I' insert line
      if LineOpPanics s c.y then .error (.negIndex "petscii: insert_terminal_line(y)") else foret { st with r := insertTermLine s st.r c.y } .ok
    else foret st .ok
  else if b = 0x0A then foret { st with c := { c with x := 0 } } .ok
  else if b = 0x0D ∨ b = 0x8D then foliftCR st (lfF s c st.r)
  else if b = 0x0E then foret (shiftModeF st false) .ok
  else if b = 0x8E then foret (shiftModeF st true) .ok
  else if b = 0x11 then foliftC st (downF s c 1)
  else if b = 0x13 then foret { st with c := { c with x := 0, y := 0 } } .ok
  else if b = 0x14 then foret (bsF st) .ok
  else if b = 0x1B then foret { st with esc := true } .ok
  else if b = 0x1D then foliftC st (rightF s c 1)
  else if b = 0x91 then foliftC st (upF s c 1)
  else if b = 0x93 then foret (clearScreenO st) .ok
  else if b = 0x9D then foliftC st (leftF s c 1)
  else if b = 0xFF then foliftCR st (printCharF s c st.r)
  else if petsciiControls.contains b then foret st .ok
  else match petsciiTch b with
    | some _ => foliftCR st (printCharF s c st.r)
    | none => foret st .err

inductive FEmu2 where
  | ascii | atascii | petscii
deriving Repr, DecidableEq, Inhabited

def fostep (e : FEmu2) (st : FOSt) (ch : Char) : FOR :=
  match e with
  | .ascii => asciiStepF st ch
  | .atascii => atasciiStepF st ch
  | .petscii => petsciiStepF st ch

def forun (e : FEmu2) : FOSt → List Char → Res FOSt
  | st, [] => .ok st
  | st, ch :: rest =>
    match fostep e st ch with
    | .ok (st', _) => forun e st' rest
    | .error e => .error e

def initFO (w h tabW : Int) (rows : Array Nat) : FOSt :=
  { s := initScrF w h tabW, c := { x := 0, y := 0, ins := false }, r := { lw := w, lh := h, lens := rows } }

end IcyVerif.TermFile
