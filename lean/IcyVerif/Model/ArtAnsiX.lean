import IcyVerif.Model.ArtWriters
/-! # ArtAnsiX — the whole ANSI writer (`Ansi::to_bytes`, C04): output line length, skipped rows, font pages

`Model/ArtWriters.lean` part 2 transcribes `StringGenerator` for `output_line_length = None`, `skip_lines = None` and a
single font page, as a function into bytes.  This file transcribes the same code with these three features, at the level
at which `push_result` works:

* `generate` collects bytes in a local vector `result` and hands it to `push_result` at fixed places; `push_result`
  appends it to `self.output`, and writes `ESC [ s CR LF ESC [ u` first when
  `output.len() + result.len() - last_line_break > max_output_line_length`.  The writer is therefore a list of events
  (`Ev`): extend `result`, `push_result`, `self.last_line_break = result.len()` (the end-of-row code sets the field from
  the LOCAL vector's length — copied as it is), and the end of `result`'s scope.  The event list does not depend on the
  line length; `WSt.step` interprets it for a given `max_output_line_length`.
  The `usize` subtraction in `push_result` panics on underflow in the debug profile: explicit outcome (`underflow`).
* `skip_lines` (only together with `longer_terminal_output`): `generate_cells` leaves the row empty WITHOUT running
  `get_color` over it (the rendition state skips the row), `generate` `continue`s before the row's `CSI y H`.
* font pages: every cell carries `font_map[ch.get_font_page()]` (`unwrap`: a page without a font in the buffer panics);
  `generate` switches with `ESC [ 0 ; n SP D` when the page differs from `cur_font_page` (which lives across rows), and
  the RLE scan stops at a font change.  `font_map` (`generate_ansi_font_map`) sends a slot to the first ANSI font page
  with the same checksum, or to itself; checksums are not modelled, the model is handed `slot ↦ first matching page`.
  NOT modelled: fonts in slots `>= 100` (`encode_as_ansi` uploads them with the file), sixels, `modern_terminal_output`.
* `to_bytes` puts `ESC [ 0 m` in front of output that would start with `EF BB BF` (the loader's UTF-8 indicator). -/
namespace IcyVerif.ArtIO
open IcyVerif.Gen.Art

inductive Ev
  /-- `result.extend_from_slice(bs)` / `result.push(b)` -/
  | ext (bs : List Nat)
  /-- `self.push_result(&mut result)` -/
  | push
  /-- `self.last_line_break = result.len()` -/
  | eol
  /-- `result` goes out of scope (end of `generate`) -/
  | drop
deriving DecidableEq, Repr, Inhabited

/-- `self.output`, `self.last_line_break`, the local `result` -/
structure WSt where
  out : List Nat := []
  llb : Nat := 0
  res : List Nat := []
  /-- `output.len() + result.len() - last_line_break` went below zero (debug profile: panic) -/
  underflow : Bool := false
deriving DecidableEq, Repr, Inhabited

/-- `n > max_output_line_length`; `None` is `usize::MAX` -/
def overMax : Option Nat → Nat → Bool
  | none, _ => false
  | some m, n => decide (m < n)

def WSt.step (max : Option Nat) (s : WSt) : Ev → WSt
  | .ext bs => { s with res := s.res ++ bs }
  | .push =>
    if s.out.length + s.res.length < s.llb then { s with underflow := true, out := s.out ++ s.res, res := [] }
    else if overMax max (s.out.length + s.res.length - s.llb) then
      { s with out := s.out ++ ansiSplitPre ++ ansiSplitPost ++ s.res, llb := s.out.length + ansiSplitPre.length, res := [] }
    else { s with out := s.out ++ s.res, res := [] }
  | .eol => { s with llb := s.res.length }
  | .drop => { s with res := [] }

def WSt.run (max : Option Nat) (s : WSt) (evs : List Ev) : WSt := evs.foldl (WSt.step max) s

/-- `ESC [ 0 ; n SP D` -/
def fontSeq (n : Nat) : List Nat := ansiFontSeqHead ++ digits n ++ ansiFontSeqTail

/-- the 24-bit colour commands of a cell, each pushed on its own -/
def tcEvs : Nat → List Nat → List Ev
  | 0, _ => []
  | _, [] => []
  | fuel + 1, a :: b :: c :: d :: rest => [.ext (csi [a, b, c, d] 116), .push] ++ tcEvs fuel rest
  | _, _ => []

/-- the SGR sequence and the 24-bit colour commands of a cell -/
def sgrEvs (cell : CharCell) : List Ev :=
  (if cell.sgr.isEmpty then [] else [.ext (csi cell.sgr 109), .push]) ++ tcEvs cell.sgrTc.length cell.sgrTc

/-- the RLE scan with font pages: `fs` are the font pages of `rest` -/
def rleCountF (first : CharCell) (f : Nat) : List CharCell → List Nat → Nat
  | [], _ => 0
  | c :: rest, fs =>
    if c.ch ≠ first.ch ∨ !c.sgr.isEmpty ∨ !c.sgrTc.isEmpty ∨ fs.headD 0 ≠ f then 0 else rleCountF first f rest fs.tail + 1

/-- the cell loop of `generate` for one line: `cur` = `cur_font_page`, `fonts` = the font pages of the cells; returns the
    events and `cur_font_page` after the line -/
def genLineEv (o : AnsiOpts) (w : Nat) : Nat → Nat → Nat → List CharCell → List Nat → List Ev × Nat
  | 0, _, cur, _, _ => ([], cur)
  | _, _, cur, [], _ => ([], cur)
  | fuel + 1, x, cur, cell :: rest, fonts =>
    let f := fonts.headD 0
    let pre := (if cur ≠ f then [.ext (fontSeq f), .push] else []) ++ sgrEvs cell
    let cc := cellChar o cell.ch
    let rle := rleCountF cell f rest fonts.tail
    if o.compress then
      let cuf := csi [rle + 1] 67
      if o.useCursorForward ∧ cell.ch = 32 ∧ cell.cur.bgIdx = 0 ∧ cell.cur.bg = (0, 0, 0) ∧ !cell.cur.isBlink ∧ x + rle + 1 < w ∧ cuf.length ≤ rle then
        let r := genLineEv o w fuel (x + rle + 1) f (rest.drop rle) (fonts.tail.drop rle)
        (pre ++ [.push, .ext cuf, .push] ++ r.1, r.2)
      else
        let rp := csi [rle] 98
        if o.useRepeatSequences ∧ rp.length ≤ rle then
          let r := genLineEv o w fuel (x + rle + 1) f (rest.drop rle) (fonts.tail.drop rle)
          (pre ++ [.push, .ext cc, .ext rp, .push] ++ r.1, r.2)
        else
          let r := genLineEv o w fuel (x + 1) f rest fonts.tail
          (pre ++ [.ext cc, .push] ++ r.1, r.2)
    else
      let r := genLineEv o w fuel (x + 1) f rest fonts.tail
      (pre ++ [.ext cc, .push] ++ r.1, r.2)

/-- the row loop of `generate`; `skip y` = the row is in `skip_lines`; `frows` = the font pages of the lines -/
def genLinesEv (o : AnsiOpts) (skip : Nat → Bool) (w h : Nat) : List (List CharCell) → List (List Nat) → Nat → Bool → Nat → List Ev
  | [], _, _, _, _ => []
  | line :: rest, frows, y, first, cur =>
    if o.longerTerminalOutput ∧ skip y then genLinesEv o skip w h rest frows.tail (y + 1) first cur
    else
      let head : List Ev := if o.longerTerminalOutput then
          (if first then [.ext (csi [0] 109)] else []) ++ [.ext (csi [y + 1] 72), .push]
        else []
      let body := genLineEv o w line.length 0 cur line (frows.headD [])
      let x := line.length
      let eol : List Ev := if !o.longerTerminalOutput ∧ x < w ∧ y + 1 < h then
          [.ext (if o.compress ∧ w ≤ x + 1 then [32] else [13, 10]), .eol]
        else []
      head ++ body.1 ++ eol ++ genLinesEv o skip w h rest frows.tail (y + 1) false body.2

/-- `generate_cells` with `skip_lines`: a skipped row is an empty line and the rendition state passes it by -/
def genCellsS (o : AnsiOpts) (skip : Nat → Bool) (pal : List Rgb) (im : IceMode) (w : Nat) :
    List (List Cell) → Nat → AnsiState → List (List CharCell)
  | [], _, _ => []
  | row :: rest, y, st =>
    if o.longerTerminalOutput ∧ skip y then [] :: genCellsS o skip pal im w rest (y + 1) st
    else
      let (line, st1) := genCellsRow o pal im row (ansiRowLen o pal w row) 0 st
      line :: genCellsS o skip pal im w rest (y + 1) st1

/-- the buffer's fonts as the writer sees them -/
structure FontInfo where
  /-- `buf.font_iter()`: the occupied slots, each with the first ANSI font page of equal checksum (if any) -/
  slots : List (Nat × Option Nat) := [(0, some 0)]
  /-- `ch.get_font_page()` of every cell, `pages[y][x]`; a missing entry is page 0 -/
  pages : List (List Nat) := []
deriving Repr, Inhabited

/-- `font_map.get(&page)`: `None` makes the `unwrap` in `generate_cells` panic -/
def fontMap (slots : List (Nat × Option Nat)) (page : Nat) : Option Nat :=
  match slots.find? (·.1 == page) with
  | some (_, some i) => some i
  | some (s, none) => some s
  | none => none

/-- the mapped font page of every cell `generate_cells` looks at: the cells `0 .. len` of the rows that are not skipped -/
def fontRows (slots : List (Nat × Option Nat)) (pages : List (List Nat)) : List (List CharCell) → Nat → Option (List (List Nat))
  | [], _ => some []
  | line :: rest, y =>
    match (List.range line.length).mapM (fun x => fontMap slots ((pages.getD y []).getD x 0)),
          fontRows slots pages rest (y + 1) with
    | some r, some rs => some (r :: rs)
    | _, _ => none

def prepEvs (o : AnsiOpts) (im : IceMode) : List Ev :=
  (if im = .ice then [.ext [27, 91, 63, 51, 51, 104], .push] else []) ++
  (match o.prep with
   | .none => []
   | .clear => [.ext [27, 91, 50, 74], .push]
   | .home => [.ext [27, 91, 49, 59, 49, 72], .push])

def endEvs (im : IceMode) : List Ev := if im = .ice then [.ext [27, 91, 63, 51, 51, 108], .push] else []

/-- all events of `screen_prep`, `generate`, `screen_end` -/
def ansiEvs (o : AnsiOpts) (skip : Nat → Bool) (frows : List (List Nat)) (p : Pic) : List Ev :=
  let rows := p.rows.map fun r => r ++ List.replicate (p.w - r.length) defaultCell
  prepEvs o p.ice ++ genLinesEv o skip p.w p.rows.length (genCellsS o skip p.pal p.ice p.w rows 0 ansiState0) frows 0 true 0 ++
    [.drop] ++ endEvs p.ice

def skipFn (skip : Option (List Nat)) (y : Nat) : Bool :=
  match skip with
  | some l => l.contains y
  | none => false

/-- the guard in `to_bytes`: output that starts with the UTF-8 indicator gets a rendition reset in front -/
def bomGuard (bytes : List Nat) : List Nat := if bytes.take ansiBomBytes.length == ansiBomBytes then ansiBomGuard ++ bytes else bytes

/-- `StringGenerator`'s output for the events, `none` = the subtraction in `push_result` underflowed -/
def runEvs (max : Option Nat) (evs : List Ev) : Option (List Nat) :=
  let s := WSt.run max {} evs
  if s.underflow then none else some s.out

/-- `Ansi::to_bytes` without SAUCE: `max` = `output_line_length`, `skip` = `skip_lines` -/
def writeAnsiX (o : AnsiOpts) (max : Option Nat) (skip : Option (List Nat)) (fi : FontInfo) (p : Pic) : WOut :=
  let rows := p.rows.map fun r => r ++ List.replicate (p.w - r.length) defaultCell
  let sk := skipFn skip
  match fontRows fi.slots fi.pages (genCellsS o sk p.pal p.ice p.w rows 0 ansiState0) 0 with
  | none => .panic
  | some frows =>
    match runEvs max (ansiEvs o sk frows p) with
    | none => .panic
    | some bytes => .ok (bomGuard bytes)

end IcyVerif.ArtIO
