import IcyVerif.Model.Palette
import IcyVerif.Gen.PalStream
import IcyVerif.Gen.BinFmt
/-! # The palette as byte streams see it (C16): the CALL SITES of `Palette::insert_color / set_color_rgb`

State = (palette, caret foreground index, caret background index).  Every palette-relevant thing a byte stream can
do is decoded into a list of primitive operations `Op`; `exec` runs one of them with the index functions of
`Model/Palette.lean` (`insertColor`, `setColor`):

* `sgrOps`  – `select_graphic_rendition` + `parse_extended_colors` (src/parsers/ansi/ansi_commands.rs) over the parsed
  parameter list: 30–37 / 40–47 / 90–97 / 100–107 / 39 / 49 (index select through `COLOR_OFFSETS`), 38;5;n / 48;5;n
  (`XTERM_256_PALETTE[n]` then `insert_color`), 38;2;r;g;b / 48;2;r;g;b, 0 and the empty list (reset), 7 (swap),
  attribute-only parameters, and the error exits (what was done before the error stays done).  The arm table
  `sgrArms` is regenerated from the `match n` of the source.
* `tOps`    – `CSI … t`: 3 parameters = window manipulation, 4 parameters = `select_24bit_color` (`r as u8`; the colour
  is inserted BEFORE the selector is checked, so `CSI 5;r;g;b t` grows the palette and then fails).
* `oscOps`  – `parse_osc` (osc.rs): the number loop deciding the selector (quirk: `;4;…` also selects 4), OSC 4 =
  every non-overlapping match of `(\d+)?;[rR][gG][bB]:hh/hh/hh` in the WHOLE string, missing index = skipped,
  index > 255 = skipped, index ≥ 2^32 = `Err` (earlier pairs stay applied), `set_color_rgb` (grows with black).
* `tndOps`  – the command loop of `TundraDraw::load_buffer` (src/formats/tundra.rs): 24-bit colour records are
  `insert_color_rgb`, every character is a `put` tagged with its cell position.
* `parseSeq` – which of these a byte sequence is (`ESC [ params m|t`, `ESC ] payload ESC \`, `ESC c`, FF, a printable
  character), with the parameter loop of the CSI state (`parse_next_number`, saturating).

Text is a list of code points.  `\d` of the OSC regex is read as `[0-9]` (the generator avoids other decimal digits). -/
namespace IcyVerif.PalStream
open IcyVerif.Palette IcyVerif.Gen.PalStream

structure St where
  pal : List Rgb
  fg : Nat
  bg : Nat
  deriving DecidableEq, Repr

inductive Op where
  /-- `caret.attribute.set_foreground(i)` with a fixed index -/
  | selFg (i : Nat)
  | selBg (i : Nat)
  /-- `set_foreground(palette.insert_color(c))` -/
  | insFg (c : Rgb)
  | insBg (c : Rgb)
  /-- `palette.insert_color(c)`, result dropped -/
  | ins (c : Rgb)
  | swap
  /-- `reset_color_attribute` / `Caret::reset` -/
  | reset
  /-- `palette.set_color_rgb(k, c)` -/
  | set (k : Nat) (c : Rgb)
  /-- a cell is written with the current caret colours; `tag` says which one (no effect on the state) -/
  | put (tag : Nat)
  deriving DecidableEq, Repr

def exec (s : St) : Op → St
  | .selFg i => { s with fg := i }
  | .selBg i => { s with bg := i }
  | .insFg c => { s with pal := (insertColor s.pal c).1, fg := (insertColor s.pal c).2 }
  | .insBg c => { s with pal := (insertColor s.pal c).1, bg := (insertColor s.pal c).2 }
  | .ins c => { s with pal := (insertColor s.pal c).1 }
  | .swap => { s with fg := s.bg, bg := s.fg }
  | .reset => { s with fg := defaultFg, bg := defaultBg }
  | .set k c => { s with pal := setColor s.pal k c }
  | .put _ => s

def run (s : St) (ops : List Op) : St := ops.foldl exec s

/-- the cells written along a history: (tag, foreground index, background index) per `put` -/
def cells : St → List Op → List (Nat × Nat × Nat)
  | _, [] => []
  | s, .put t :: ops => (t, s.fg, s.bg) :: cells s ops
  | s, op :: ops => cells (exec s op) ops

/-! ## decoding: SGR -/

def xterm (n : Nat) : Rgb := (triples xtermFlat).getD n black
def dosDefault : List Rgb := triples dosFlat

def inArm (n : Nat) (a : Nat × Nat × Nat × Nat × Nat) : Bool := a.1 ≤ n && n ≤ a.2.1
def sgrArm (n : Nat) : Option (Nat × Nat × Nat × Nat × Nat) := sgrArms.find? (inArm n)

/-- `parse_extended_colors` on the parameters after the 38 / 48: the colour and the parameters left -/
def extColor : List Nat → Option (Rgb × List Nat)
  | sel :: n :: rest =>
    if sel = extIndexed then (if n ≤ extMax then some (xterm n, rest) else none)
    else if sel = extRgb then
      match rest with
      | g :: b :: rest' => if n ≤ extMax ∧ g ≤ extMax ∧ b ≤ extMax then some (⟨n, g, b⟩, rest') else none
      | _ => none
    else none
  | _ => none

/-- the operations a caret-colour sequence can consist of: everything except a redefinition of a palette entry -/
inductive COp where
  | selFg (i : Nat)
  | selBg (i : Nat)
  | insFg (c : Rgb)
  | insBg (c : Rgb)
  | ins (c : Rgb)
  | swap
  | reset
  | put (tag : Nat)
  deriving DecidableEq, Repr

def COp.toOp : COp → Op
  | .selFg i => .selFg i
  | .selBg i => .selBg i
  | .insFg c => .insFg c
  | .insBg c => .insBg c
  | .ins c => .ins c
  | .swap => .swap
  | .reset => .reset
  | .put t => .put t

/-- one SGR parameter `n` (an arm of `match n`) with the parameters after it: what it does and the parameters left;
    `none` = `Err` -/
def sgrOne (n : Nat) (rest : List Nat) : Option (List COp × List Nat) :=
  match sgrArm n with
  | none => none
  | some (_, _, kind, a, b) =>
    match kind with
    | 0 => some ([], rest)
    | 1 => some ([.reset], rest)
    | 2 => some ([.swap], rest)
    | 3 => some ([.selFg (a + colorOffsets.getD (n - b) 0)], rest)
    | 4 => some ([.selBg (a + colorOffsets.getD (n - b) 0)], rest)
    | 5 => (extColor rest).map fun r => ([.insFg r.1], r.2)
    | 6 => (extColor rest).map fun r => ([.insBg r.1], r.2)
    | 7 => some ([.selFg a], rest)
    | 8 => some ([.selBg a], rest)
    | _ => none

/-- the `while i < parsed_numbers.len()` loop; the flag is `Ok(_)` / `Err(_)` (what was done before an error stays) -/
def sgrGo : Nat → List Nat → List COp × Bool
  | _, [] => ([], true)
  | 0, _ :: _ => ([], true)
  | f + 1, n :: rest =>
    match sgrOne n rest with
    | none => ([], false)
    | some (ops, rest') => (ops ++ (sgrGo f rest').1, (sgrGo f rest').2)

def sgrOpsC (nums : List Nat) : List COp × Bool :=
  if nums.isEmpty then ([.reset], true) else sgrGo (nums.length + 1) nums

/-- `select_graphic_rendition` -/
def sgrOps (nums : List Nat) : List Op × Bool := ((sgrOpsC nums).1.map COp.toOp, (sgrOpsC nums).2)

/-! ## decoding: `CSI … t` -/

def tOpsC (nums : List Nat) : List COp × Bool :=
  if nums.length = tWindowParams then ([], nums.head? = some tWindowResize)
  else if nums.length = t24Params then
    let c : Rgb := ⟨nums.getD 1 0 % 256, nums.getD 2 0 % 256, nums.getD 3 0 % 256⟩
    let k := nums.getD 0 0
    if k = t24Bg then ([.insBg c], true) else if k = t24Fg then ([.insFg c], true) else ([.ins c], false)
  else ([], false)

def tOps (nums : List Nat) : List Op × Bool := ((tOpsC nums).1.map COp.toOp, (tOpsC nums).2)

/-! ## decoding: parameters -/

/-- `parse_next_number(x, ch)`: `x.saturating_mul(10).saturating_add(ch).saturating_sub(b'0')` on `i32` -/
def nextNumber (x ch : Nat) : Nat := min (min (x * 10) i32Max + ch) i32Max - 48

/-- the digit / `;` loop over `parsed_numbers` (kept REVERSED: head = last number); stops at any other character.
    Returns the numbers and how many characters were consumed -/
def numsGo : List Nat → List Nat → Nat → List Nat × Nat
  | [], acc, k => (acc, k)
  | c :: cs, acc, k =>
    if isDigit c then
      match acc with
      | top :: r => numsGo cs (nextNumber top c :: r) (k + 1)
      | [] => numsGo cs [nextNumber 0 c] (k + 1)
    else if c = 59 then numsGo cs (0 :: acc) (k + 1)
    else (acc, k)

/-- parameters of a CSI sequence whose parameter bytes are all digits or `;` -/
def csiNums (params : List Nat) : List Nat := (numsGo params [] 0).1.reverse

/-! ## decoding: OSC -/

def eat (alts : List Nat) : List Nat → Option (List Nat)
  | c :: cs => if c ∈ alts then some cs else none
  | [] => none

def hexByte : List Nat → Nat
  | [a, b] => parseHex2 a b
  | _ => 0

/-- `;[rR][gG][bB]:hh/hh/hh` anchored here -/
def oscBody (s : List Nat) : Option (Rgb × List Nat) :=
  (eat [59] s).bind fun s => (eat [114, 82] s).bind fun s => (eat [103, 71] s).bind fun s => (eat [98, 66] s).bind fun s =>
  (eat [58] s).bind fun s => (hexRun 2 s).bind fun r => (eat [47] r.2).bind fun s => (hexRun 2 s).bind fun g =>
  (eat [47] g.2).bind fun s => (hexRun 2 s).bind fun b => some (⟨hexByte r.1, hexByte g.1, hexByte b.1⟩, b.2)

/-- `(\d+)?;[rR][gG][bB]:hh/hh/hh` anchored here: group 1 (empty = did not participate) and the colour.  The greedy
    digit run is exact: a shorter run, or none, would have to be followed by `;` but is followed by a digit. -/
def oscAt (s : List Nat) : Option ((List Nat × Rgb) × List Nat) :=
  match oscBody (s.dropWhile isDigit) with
  | some (c, rest) => some ((s.takeWhile isDigit, c), rest)
  | none => none

/-- the loop over `captures_iter`: the (index, colour) pairs handed to `set_color_rgb`, and `Ok` / `Err` -/
def oscSets : List (List Nat × Rgb) → List (Nat × Rgb) × Bool
  | [] => ([], true)
  | (ds, c) :: rest =>
    if ds.isEmpty then oscSets rest
    else if decVal ds ≥ 4294967296 then ([], false)
    else if decVal ds > oscMaxIndex then oscSets rest
    else ((decVal ds, c) :: (oscSets rest).1, (oscSets rest).2)

def setOps (r : List (Nat × Rgb) × Bool) : List Op × Bool := (r.1.map fun kc => Op.set kc.1 kc.2, r.2)

/-- `parse_osc` -/
def oscOps (payload : List Nat) : List Op × Bool :=
  let ns := numsGo payload [] 0
  let first := ns.1.reverse.head?
  if first = some oscPaletteSelector then setOps (oscSets (scanWith oscAt payload 0))
  else if ns.2 = 3 ∧ first = some oscHyperlinkSelector then ([], true)
  else ([], false)

/-! ## which sequence a byte string is -/

inductive Seq where
  | sgr (nums : List Nat)
  | t (nums : List Nat)
  | osc (payload : List Nat)
  /-- `ESC c` (RIS) and FF: the caret colours are reset, the palette stays -/
  | reset
  | char (c : Nat)
  /-- not a sequence of the model -/
  | other
  deriving Repr, DecidableEq

def isParam (c : Nat) : Bool := isDigit c || c = 59

def parseSeq : List Nat → Seq
  | [27, 99] => .reset
  | [12] => .reset
  | 27 :: 91 :: rest =>
    if rest.dropLast.all isParam then
      match rest.getLast? with
      | some 109 => .sgr (csiNums rest.dropLast)
      | some 116 => .t (csiNums rest.dropLast)
      | _ => .other
    else .other
  | 27 :: 93 :: rest =>
    if 2 ≤ rest.length ∧ rest.drop (rest.length - 2) = [27, 92] ∧ ¬ (27 ∈ rest.take (rest.length - 2)) then
      .osc (rest.take (rest.length - 2))
    else .other
  | [c] => if 32 ≤ c ∧ c < 127 then .char c else .other
  | _ => .other

/-- the operations of one sequence; `tag` numbers the cell a character goes to; `none` = outside the model -/
def seqOps (tag : Nat) : Seq → Option (List Op × Bool)
  | .sgr nums => some (sgrOps nums)
  | .t nums => some (tOps nums)
  | .osc p => some (oscOps p)
  | .reset => some ([.reset], true)
  | .char _ => some ([.put tag], true)
  | .other => none

/-! ## Tundra: the command loop of `load_buffer` -/

/-- big-endian `i32` of `to_u32`; `none` = negative -/
def be32 (b0 b1 b2 b3 : Nat) : Option Nat :=
  let v := b0 * 16777216 + b1 * 65536 + b2 * 256 + b3
  if v ≥ 2147483648 then none else some v

inductive End where
  | ok
  /-- `Err(_)` -/
  | err
  /-- a negative jump target: outside the model -/
  | out
  deriving DecidableEq, Repr

def tndW : Nat := Gen.BinFmt.tndStartW

def consT (o : List COp) (r : List COp × End) : List COp × End := (o ++ r.1, r.2)

/-- colour record `xx rr gg bb` when the command has `bit`; `none` = the file ends inside the record -/
def tndColor (cmd bit : Nat) (rest : List Nat) : Option (Option Rgb × List Nat) :=
  if cmd &&& bit ≠ 0 then
    if rest.length < 4 then none else some (some ⟨rest.getD 1 0, rest.getD 2 0, rest.getD 3 0⟩, rest.drop 4)
  else some (none, rest)

def optOp (f : Rgb → COp) : Option Rgb → List COp
  | some c => [f c]
  | none => []

/-- position after `advance_pos` -/
def tndAdvance (x y : Nat) : Nat × Nat := if x + 1 ≥ tndW then (0, y + 1) else (x + 1, y)

/-- the jump command: `none` = `Err` (file too short, target outside), `some none` = negative target (outside the model) -/
def tndJump (rest : List Nat) : Option (Option (Nat × Nat)) :=
  if rest.length < 8 then none
  else
    match be32 (rest.getD 0 0) (rest.getD 1 0) (rest.getD 2 0) (rest.getD 3 0) with
    | none => some none
    | some ny =>
      if ny ≥ Gen.BinFmt.tndMaxY then none
      else
        match be32 (rest.getD 4 0) (rest.getD 5 0) (rest.getD 6 0) (rest.getD 7 0) with
        | none => some none
        | some nx => if nx ≥ tndW then none else some (some (nx, ny))

/-- a colour command `cmd ch [fg record] [bg record]`: the operations and the bytes left; `none` = `Err` -/
def tndCmd (cmd : Nat) (rest : List Nat) (tag : Nat) : Option (List COp × List Nat) :=
  match rest with
  | [] => none
  | _ :: rest1 =>
    match tndColor cmd Gen.BinFmt.tndColorFg rest1 with
    | none => none
    | some (fgc, rest2) =>
      match tndColor cmd Gen.BinFmt.tndColorBg rest2 with
      | none => none
      | some (bgc, rest3) => some (optOp .insFg fgc ++ optOp .insBg bgc ++ [.put tag], rest3)

def tndGo : Nat → List Nat → Nat → Nat → List COp × End
  | 0, _, _, _ => ([], .ok)
  | _, [], _, _ => ([], .ok)
  | f + 1, cmd :: rest, x, y =>
    if cmd = Gen.BinFmt.tndPosition then
      match tndJump rest with
      | none => ([], .err)
      | some none => ([], .out)
      | some (some (nx, ny)) => tndGo f (rest.drop 8) nx ny
    else if cmd > Gen.BinFmt.tndCmdAbove ∧ cmd ≤ Gen.BinFmt.tndCmdUpTo then
      match tndCmd cmd rest (y * tndW + x) with
      | none => ([], .err)
      | some (ops, rest') => consT ops (tndGo f rest' (tndAdvance x y).1 (tndAdvance x y).2)
    else consT [.put (y * tndW + x)] (tndGo f rest (tndAdvance x y).1 (tndAdvance x y).2)

/-- the state `load_buffer` starts the loop with: palette = [black], `TextAttribute::default()` -/
def tndStart : St := ⟨[black], defaultFg, defaultBg⟩

/-- `TundraDraw::load_buffer` on a file without SAUCE: `none` = `Err` before the loop (short file / wrong header) -/
def tndOps (data : List Nat) : Option (List Op × End) :=
  if data.length < 1 + Gen.BinFmt.tndHeader.length then none
  else if (data.drop 1).take Gen.BinFmt.tndHeader.length ≠ Gen.BinFmt.tndHeader then none
  else
    let rest := data.drop (1 + Gen.BinFmt.tndHeader.length)
    let r := tndGo (rest.length + 1) rest 0 0
    some (r.1.map COp.toOp, r.2)

/-! ## the rest of `Palette` that belongs to the index story (src/palette_handling.rs) -/

/-- `Palette::fill_to_16` -/
def fillTo16 (p : List Rgb) : List Rgb := p ++ dosDefault.drop p.length

/-- `Palette::is_default` -/
def isDefault (p : List Rgb) : Bool := p == dosDefault

/-- `Palette::resize`: growing first fills up to the 16 DOS colours, then pads with black; a size below 16 asked of a
    shorter palette therefore grows to 16 and is cut back -/
def resize (p : List Rgb) (n : Nat) : List Rgb :=
  let q := if n > p.length then (fillTo16 p) ++ List.replicate (n - (fillTo16 p).length) black else p
  if n < q.length then q.take n else q

end IcyVerif.PalStream
