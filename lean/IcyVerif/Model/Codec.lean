import IcyVerif.Gen.Codec
/-! Model of the 8-bit attribute codec (`TextAttribute::from_u8 / as_u8`, src/text_attribute.rs) and of the five
    `UnicodeConverter`s (CP437, ATASCII, PETSCII, Viewdata, Mode 7).  Bit constants, masks and all tables come
    from the generated `Gen/Codec.lean`; the control structure below is hand-written and tied to the code by the
    exhaustive correspondence run of `harness/src/c18.rs`. -/
namespace IcyVerif.Codec
open IcyVerif.Gen.Codec

/-! ## attributes -/

/-- `IceMode` (src/buffers.rs); numbering of `IceMode::from_byte` -/
inductive IceMode where
  | unlimited | blink | ice
  deriving DecidableEq, Repr

def IceMode.ofByte : Nat → IceMode
  | 0 => .unlimited
  | 1 => .blink
  | _ => .ice

def IceMode.all : List IceMode := [.unlimited, .blink, .ice]

/-- `TextAttribute`: colours are `u32`, `flags` is the `u16` field `attr` -/
structure Attr where
  fg : Nat
  bg : Nat
  flags : Nat
  page : Nat
  deriving DecidableEq, Repr

def Attr.default : Attr := ⟨defaultFg, defaultBg, defaultAttr, defaultPage⟩

def Attr.isBold (a : Attr) : Bool := a.flags &&& attrBold == attrBold
def Attr.isBlink (a : Attr) : Bool := a.flags &&& attrBlink == attrBlink

/-- `set_is_blinking`: `attr |= BLINK` / `attr &= !BLINK` on a `u16` -/
def Attr.setBlink (a : Attr) (b : Bool) : Attr :=
  if b then { a with flags := a.flags ||| attrBlink } else { a with flags := a.flags &&& (0xFFFF ^^^ attrBlink) }

/-- `TextAttribute::from_u8(attr, ice_mode)` -/
def fromU8 (m : IceMode) (b : Nat) : Attr :=
  let blink := match m with
    | .ice => false
    | _ => b &&& decBlinkBit != 0
  let bg := match m with
    | .ice => b >>> decIceShift
    | _ => (b >>> decShift) &&& decBgMask
  let fg := b &&& decFgMask
  ({ Attr.default with fg := fg, bg := bg }).setBlink blink

/-- body of `TextAttribute::as_u8(self, ice_mode)` on the four things it reads: the two colours, `is_bold()`,
    `is_blinking()`; the final `as u8` is the `% 256` -/
def encByte (m : IceMode) (fg bg : Nat) (bold blink : Bool) : Nat :=
  let fg0 := fg &&& encFgMask
  let fg1 := if bold then fg0 ||| encBoldBit else fg0
  let bg1 := match m with
    | .blink => (bg &&& 7) ||| (if blink then 8 else 0)
    | .unlimited => (bg &&& 15) ||| (if blink then 8 else 0)
    | .ice => bg &&& 15
  (fg1 ||| (bg1 <<< encShift)) % 256

/-- `TextAttribute::as_u8(self, ice_mode)` -/
def asU8 (m : IceMode) (a : Attr) : Nat := encByte m a.fg a.bg a.isBold a.isBlink

/-- `as_u8` as it was on the pinned tree (cdb5b60): `Unlimited` shared the `Ice` arm and so ignored blink.
    Kept only to state the defect (`Props/C18.lean: pinned_unlimited_defect`). -/
def encBytePinned (m : IceMode) (fg bg : Nat) (bold blink : Bool) : Nat :=
  let fg0 := fg &&& encFgMask
  let fg1 := if bold then fg0 ||| encBoldBit else fg0
  let bg1 := match m with
    | .blink => (bg &&& 7) ||| (if blink then 8 else 0)
    | .unlimited | .ice => bg &&& 15
  (fg1 ||| (bg1 <<< encShift)) % 256
def asU8Pinned (m : IceMode) (a : Attr) : Nat := encBytePinned m a.fg a.bg a.isBold a.isBlink

/-- what the property compares after encode/decode: foreground, background, blink -/
def Attr.sameColours (a b : Attr) : Prop := a.fg = b.fg ∧ a.bg = b.bg ∧ a.isBlink = b.isBlink
instance (a b : Attr) : Decidable (a.sameColours b) := by unfold Attr.sameColours; exact inferInstance

/-- `Expressible` on the four observed components -/
def ExpressibleT (m : IceMode) (fg bg : Nat) (bold blink : Bool) : Prop :=
  fg < 16 ∧ bold = false ∧
  match m with
  | .ice => bg < 16 ∧ blink = false
  | .blink | .unlimited => bg < 8
instance (m : IceMode) (fg bg : Nat) (bold blink : Bool) : Decidable (ExpressibleT m fg bg bold blink) := by
  unfold ExpressibleT; cases m <;> exact inferInstance

/-- an attribute a DOS attribute byte can carry under the mode's reading of bit 7: 16 foregrounds, not bold
    (bold is not a bit of the byte), and 16 backgrounds without blink (iCE) or 8 backgrounds with or without
    blink (Blink, Unlimited) -/
def Expressible (m : IceMode) (a : Attr) : Prop := ExpressibleT m a.fg a.bg a.isBold a.isBlink
instance (m : IceMode) (a : Attr) : Decidable (Expressible m a) := by unfold Expressible; exact inferInstance

/-! ## code pages

A reverse map is a Rust `HashMap` filled by inserting `(table[i], i)` for `i` in `0..n` in order, so for a
duplicated key the LAST index wins.  `lastIdx` is that lookup. -/

def lastIdxFrom (ch : Nat) : Nat → List Nat → Option Nat → Option Nat
  | _, [], acc => acc
  | i, v :: vs, acc => lastIdxFrom ch (i+1) vs (if v = ch then some i else acc)

/-- index of the last occurrence of `ch` among the first `n` entries of `tbl` -/
def lastIdx (tbl : List Nat) (n : Nat) (ch : Nat) : Option Nat := lastIdxFrom ch 0 (tbl.take n) none

/-- last pair of an association list whose key is `k` (HashMap built by `collect` from a list of pairs) -/
def lastAssoc (k : Nat) : List (Nat × Nat) → Option Nat → Option Nat
  | [], acc => acc
  | (a, b) :: rest, acc => lastAssoc k rest (if a = k then some b else acc)

inductive Conv where
  | cp437 | atascii | petscii | viewdata | mode7
  deriving DecidableEq, Repr

def Conv.all : List Conv := [.cp437, .atascii, .petscii, .viewdata, .mode7]

/-- table-based `convert_to_unicode`: `TABLE.get(ch as usize)` else the character itself -/
def tableToUni (tbl : List Nat) (code : Nat) : Nat := tbl.getD code code
/-- table-based `convert_from_unicode`: reverse `HashMap` lookup else the character itself -/
def tableFromUni (tbl : List Nat) (n : Nat) (ch : Nat) : Nat := (lastIdx tbl n ch).getD ch

/-- `convert_to_unicode(AttributedChar{ch: code, ..})` as a code point.  PETSCII looks up `ch as u8` (so the
    code is truncated to 8 bits for the lookup) in the map of swapped `CHAR_TABLE` pairs. -/
def toUni : Conv → Nat → Nat
  | .cp437, c => tableToUni cp437 c
  | .atascii, c => tableToUni atari c
  | .viewdata, c => tableToUni viewdata c
  | .mode7, c => tableToUni mode7 c
  | .petscii, c => (lastAssoc (c % 256) (petscii.map fun p => (p.2, p.1)) none).getD c

/-- `convert_from_unicode(ch, _)` as a code point -/
def fromUni : Conv → Nat → Nat
  | .cp437, ch => tableFromUni cp437 cp437Rev ch
  | .atascii, ch => tableFromUni atari atariRev ch
  | .viewdata, ch => if ch = viewdataSpecial.1 then viewdataSpecial.2 else tableFromUni viewdata viewdataRev ch
  | .mode7, ch => if ch = mode7Special.1 then mode7Special.2 else tableFromUni mode7 mode7Rev ch
  | .petscii, ch => (lastAssoc (ch % 256) petscii none).getD ch

/-- the characters a user types: ASCII letters, digits, space (63 code points) -/
def typedChars : List Nat :=
  32 :: ((List.range 10).map (· + 48) ++ (List.range 26).map (· + 65) ++ (List.range 26).map (· + 97))

/-- the same set as a predicate: space, `0-9`, `A-Z`, `a-z` -/
def IsTyped (ch : Nat) : Prop :=
  ch = 32 ∨ (48 ≤ ch ∧ ch ≤ 57) ∨ (65 ≤ ch ∧ ch ≤ 90) ∨ (97 ≤ ch ∧ ch ≤ 122)
instance (ch : Nat) : Decidable (IsTyped ch) := by unfold IsTyped; exact inferInstance

end IcyVerif.Codec
