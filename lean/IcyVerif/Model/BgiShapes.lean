import IcyVerif.Model.BgiLine
/-! `Bgi::rectangle`, `draw_poly`, `draw_poly_line` of `src/parsers/rip/bgi/mod.rs`: compositions of `line`. -/
namespace IcyVerif.Bgi

/-- `Bgi::rectangle(left, top, right, bottom)`: four lines -/
def rectangle (s : Bgi) (l t r b : Int) : Option Bgi :=
  match line s l t r t with
  | none => none
  | some s1 =>
    match line s1 l b r b with
    | none => none
    | some s2 =>
      match line s2 r t r b with
      | none => none
      | some s3 => line s3 l t l b

/-- `for point in points { self.line(last.x, last.y, point.x, point.y); last = *point }`; answers the state and the
last point -/
def polySegs (s : Bgi) (last : Int × Int) : List (Int × Int) → Option (Bgi × (Int × Int))
  | [] => some (s, last)
  | p :: rest =>
    match line s last.1 last.2 p.1 p.2 with
    | none => none
    | some s' => polySegs s' p rest

/-- `Bgi::draw_poly_line(points)` (as repaired: nothing for an empty list) -/
def drawPolyLine (s : Bgi) (pts : List (Int × Int)) : Option Bgi :=
  match pts with
  | [] => some s
  | p0 :: _ => (polySegs s p0 pts).map (·.1)

/-- `Bgi::draw_poly(points)`: the poly-line and the closing segment -/
def drawPoly (s : Bgi) (pts : List (Int × Int)) : Option Bgi :=
  match pts with
  | [] => some s
  | p0 :: _ =>
    match polySegs s p0 pts with
    | none => none
    | some (s', last) => line s' last.1 last.2 p0.1 p0.2

end IcyVerif.Bgi
