import IcyVerif.Gen.Unsafe
import IcyVerif.Model.Crc
/-! Model of the data flow into every place where the engine turns input-derived NUMBERS into `char`s
    and input BYTES into `String`s (C10).  Code points and bytes are `Nat`; `Option`/`Except` are explicit
    rejections; `none` in `Clip.panic` style outcomes are Rust panics (index out of range).

    After the `fix:` commits the unchecked conversions are `char::from_u32` (+ error / skip / U+FFFD) and
    `String::from_utf8_lossy`; the two remaining unchecked sites (`parse_hex_macro_sequence`,
    XBin `read_data_compressed`) are modelled with the constants regenerated in `Gen/Unsafe.lean`. -/
namespace IcyVerif.Uni
open IcyVerif.Gen.Unsafe

/-- Unicode scalar value: what a Rust `char` may hold -/
def isScalar (v : Nat) : Bool := v ≤ 0xD7FF || (0xE000 ≤ v && v ≤ 0x10FFFF)

/-- `x as u32` for an `i32` (or any integer): two's complement reinterpretation -/
def asU32 (x : Int) : Nat := (x % 4294967296).toNat

/-- `char::from_u32` -/
def charFromU32 (v : Nat) : Option Nat := if isScalar v then some v else none

/-! ### `fill_rectangular_area` (ansi_commands.rs): `char::from_u32(parsed_numbers[0] as u32)` else Err -/
def fillChar (pn1 : Int) : Option Nat := charFromU32 (asU32 pn1)

/-! ### `Layer::from_clipboard_data` (layer.rs) -/
/-- the character of one 14-byte cell record: 16-bit little endian, surrogates replaced by U+FFFD -/
def clipChar (lo hi : Nat) : Nat := (charFromU32 (lo + 256 * hi)).getD 0xFFFD

inductive Clip where
  | none                                   -- `return None` (first byte not 0)
  | panic                                  -- slice/index out of range
  | ok (w h : Nat) (chars : List Nat)      -- row-major characters of the pasted layer
deriving Repr, DecidableEq

/-- `n` cell records; `none` = index panic (fewer than 14 bytes left) -/
def clipCells : Nat → List Nat → Option (List Nat)
  | 0, _ => some []
  | n+1, data =>
    match data with
    | lo :: hi :: _ =>
      if data.length < 14 then none
      else (clipCells n (data.drop 14)).map (clipChar lo hi :: ·)
    | _ => none

def le32 (a b c d : Nat) : Nat := a + 256 * b + 65536 * c + 16777216 * d

def fromClipboard (data : List Nat) : Clip :=
  match data with
  | [] => .none                            -- `data.len() < 17`
  | t :: _ =>
    if data.length < 17 ∨ t ≠ 0 then .none
    else match data.drop 9 with
      | w0 :: w1 :: w2 :: w3 :: h0 :: h1 :: h2 :: h3 :: cells =>
        let w := le32 w0 w1 w2 w3
        let h := le32 h0 h1 h2 h3
        -- sizes the data cannot back are rejected before the layer is allocated (`checked_mul` cannot fail for
        -- two 32-bit factors on a 64-bit `usize`)
        if w * h = 0 ∨ w * h > 2147483647 ∨ cells.length / 14 < w * h then .none
        else match clipCells (w * h) cells with
          | some cs => .ok w h cs
          | none => .panic
      | _ => .none

/-! ### IcyDraw `load_buffer` (icy_draw.rs), both cell decoders: 8-bit cells are bytes, 32-bit cells go through
    `char::from_u32` and fail the load when rejected -/
def icyChar (short : Bool) (v : Nat) : Option Nat :=
  if short then some (v % 256) else charFromU32 v

/-! ### UTF-8: encoder, `String::from_utf8_lossy` (`Utf8Chunks`), validity -/
def encodeUtf8 (c : Nat) : List Nat :=
  if c < 0x80 then [c]
  else if c < 0x800 then [0xC0 + c / 64, 0x80 + c % 64]
  else if c < 0x10000 then [0xE0 + c / 4096, 0x80 + c / 64 % 64, 0x80 + c % 64]
  else [0xF0 + c / 262144, 0x80 + c / 4096 % 64, 0x80 + c / 64 % 64, 0x80 + c % 64]

def encodeAll (cs : List Nat) : List Nat := cs.flatMap encodeUtf8

def isCont (b : Nat) : Bool := 0x80 ≤ b && b ≤ 0xBF

/-- second-byte ranges of three-byte sequences (rejects overlong forms and surrogates) -/
def ok3 (b c1 : Nat) : Bool :=
  (b == 0xE0 && 0xA0 ≤ c1 && c1 ≤ 0xBF) || (0xE1 ≤ b && b ≤ 0xEC && isCont c1) ||
  (b == 0xED && 0x80 ≤ c1 && c1 ≤ 0x9F) || (0xEE ≤ b && b ≤ 0xEF && isCont c1)

/-- second-byte ranges of four-byte sequences (rejects overlong forms and values above U+10FFFF) -/
def ok4 (b c1 : Nat) : Bool :=
  (b == 0xF0 && 0x90 ≤ c1 && c1 ≤ 0xBF) || (0xF1 ≤ b && b ≤ 0xF3 && isCont c1) ||
  (b == 0xF4 && 0x80 ≤ c1 && c1 ≤ 0x8F)

inductive Step where
  | ch (cp : Nat) (consumed : Nat)     -- a complete well-formed sequence
  | bad (consumed : Nat)               -- maximal invalid prefix: becomes one U+FFFD
deriving Repr, DecidableEq

/-- one iteration of `Utf8Chunks::next`'s scanning loop at the head of a non-empty input -/
def step (b : Nat) (rest : List Nat) : Step :=
  if b < 0x80 then .ch b 1
  else if 0xC2 ≤ b && b ≤ 0xDF then
    match rest with
    | c1 :: _ => if isCont c1 then .ch ((b - 0xC0) * 64 + (c1 - 0x80)) 2 else .bad 1
    | [] => .bad 1
  else if 0xE0 ≤ b && b ≤ 0xEF then
    match rest with
    | c1 :: rest2 =>
      if ok3 b c1 then
        match rest2 with
        | c2 :: _ => if isCont c2 then .ch ((b - 0xE0) * 4096 + (c1 - 0x80) * 64 + (c2 - 0x80)) 3 else .bad 2
        | [] => .bad 2
      else .bad 1
    | [] => .bad 1
  else if 0xF0 ≤ b && b ≤ 0xF4 then
    match rest with
    | c1 :: rest2 =>
      if ok4 b c1 then
        match rest2 with
        | c2 :: rest3 =>
          if isCont c2 then
            match rest3 with
            | c3 :: _ =>
              if isCont c3 then .ch ((b - 0xF0) * 262144 + (c1 - 0x80) * 4096 + (c2 - 0x80) * 64 + (c3 - 0x80)) 4
              else .bad 3
            | [] => .bad 3
          else .bad 2
        | [] => .bad 2
      else .bad 1
    | [] => .bad 1
  else .bad 1

/-- code points of `String::from_utf8_lossy(bytes)`; fuel ≥ length -/
def lossyAux : Nat → List Nat → List Nat
  | 0, _ => []
  | _, [] => []
  | fuel+1, b :: rest =>
    match step b rest with
    | .ch cp n => cp :: lossyAux fuel (rest.drop (n - 1))
    | .bad n => 0xFFFD :: lossyAux fuel (rest.drop (n - 1))

def lossy (bs : List Nat) : List Nat := lossyAux bs.length bs

/-- the bytes of the `String` built by `from_utf8_lossy` -/
def lossyBytes (bs : List Nat) : List Nat := encodeAll (lossy bs)

/-- `std::str::from_utf8(bytes).is_ok()` -/
def validAux : Nat → List Nat → Bool
  | 0, l => l.isEmpty
  | _, [] => true
  | fuel+1, b :: rest =>
    match step b rest with
    | .ch _ n => validAux fuel (rest.drop (n - 1))
    | .bad _ => false
def validUtf8 (bs : List Nat) : Bool := validAux bs.length bs

/-- well-formed UTF-8 = the encoding of a sequence of scalar values -/
def ValidUtf8 (bs : List Nat) : Prop := ∃ cs : List Nat, (∀ c ∈ cs, isScalar c = true) ∧ bs = encodeAll cs

/-! ### hex macros (dcs.rs `parse_hex_macro_sequence`) -/
def i32Max : Int := 2147483647
def i32Min : Int := -2147483648
def sat (x : Int) : Int := if x > i32Max then i32Max else if x < i32Min then i32Min else x
/-- `parse_next_number(x, ch)` -/
def parseNextNumber (x : Int) (ch : Nat) : Int := sat (sat (sat (x * 10) + (ch % 256 : Nat)) - 48)

def toAsciiUpper (c : Nat) : Nat := if 97 ≤ c && c ≤ 122 then c - 32 else c

/-- `table.iter().position(|&x| x == v)` -/
def position (v : Nat) : List Nat → Option Nat
  | [] => none
  | x :: xs => if x == v then some 0 else (position v xs).map (· + 1)

inductive HexState where
  | firstHex
  | secondHex (first : Nat)
  | repeatNumber (n : Int)
deriving Repr, DecidableEq

structure HexM where
  state : HexState := .firstHex
  readRepeat : Bool := false
  repeatRec : List Nat := []
  repeatNumber : Int := 0
  macroRec : List Nat := []
deriving Repr, DecidableEq

/-- `MAX_MACRO_LEN` of dcs.rs (`Props/C10.maxMacroLen_synced` compares it with the regenerated constant) -/
def maxMacroLen : Nat := 32767

/-- `push_repeated(dst, rec, n)`: whole records only, never beyond the macro space; `String::len` counts UTF-8 bytes -/
def repeatAppend (m : List Nat) (n : Int) (r : List Nat) : List Nat :=
  if r.isEmpty then m else
  m ++ (List.replicate (min n.toNat ((maxMacroLen - (encodeAll m).length) / (encodeAll r).length)) r).flatten

/-- one character of the macro body; `none` = `Err("Invalid hex number…" / "Invalid end of repeat number")` -/
def hexStep (table : List Nat) (s : HexM) (ch : Nat) : Option HexM :=
  match s.state with
  | .firstHex =>
    if ch == 59 && s.readRepeat then
      some { s with readRepeat := false, macroRec := repeatAppend s.macroRec s.repeatNumber s.repeatRec }
    else if ch == 33 then some { s with state := .repeatNumber 0 }
    else some { s with state := .secondHex ch }
  | .secondHex first =>
    let cc := toAsciiUpper ch
    match position (first % 256) table, position (cc % 256) table with
    | some f, some sec =>
      let c := f * 16 + sec           -- the value passed to `char::from_u32_unchecked`
      if s.readRepeat then some { s with repeatRec := s.repeatRec ++ [c], state := .firstHex }
      else some { s with macroRec := s.macroRec ++ [c], state := .firstHex }
    | _, _ => none
  | .repeatNumber n =>
    if 48 ≤ ch && ch ≤ 57 then some { s with state := .repeatNumber (parseNextNumber n ch) }
    else if ch == 59 then some { s with repeatNumber := n, repeatRec := [], readRepeat := true, state := .firstHex }
    else none

def hexRun (table : List Nat) : HexM → List Nat → Option HexM
  | s, [] => some s
  | s, c :: cs => match hexStep table s c with
    | some s' => hexRun table s' cs
    | none => none

/-- the macro body stored by `parse_hex_macro_sequence` for the characters after `!z`, or `none` (error, nothing stored) -/
def hexMacro (table : List Nat) (body : List Nat) : Option (List Nat) :=
  match hexRun table {} body with
  | some s => some (if s.readRepeat then repeatAppend s.macroRec s.repeatNumber s.repeatRec else s.macroRec)
  | none => none

/-- DECCKSR (`CSI ? 63 ; id n`) with exactly macro 1 defined: CRC-16 over macro slots 0..64, each followed by a 0 byte -/
def macroChecksum (body : List Nat) : Nat :=
  let bytes := [0] ++ encodeAll body ++ List.replicate 63 0
  (IcyVerif.Crc.getCrc16 (bytes.map (BitVec.ofNat 8))).toNat

/-! ### XBin `read_data_compressed`: `transmute::<u8, Compression>(b & mask)` -/
def xbinTag (mask b : Nat) : Nat := b &&& mask

end IcyVerif.Uni
