import IcyVerif.Model.Crc
import IcyVerif.Gen.CrcSites
/-! Models of the three places where the engine itself feeds bytes through the incremental CRC functions:

* `Parser::request_checksum_of_rectangular_area` (DECRQCRA, `src/parsers/ansi/ansi_commands.rs`),
* `BitFont::calculate_checksum` (`src/fonts.rs`),
* `Palette::get_checksum` with its cache `old_checksum` / `checksum` and every `Palette` method that writes the colour vector
  (`src/palette_handling.rs`).

Each one is transcribed as the loop that exists (nested folds over `update_crc16` / `update_crc32`); the per-cell and per-colour
byte order, loop bounds and initial values come from the generated `Gen/CrcSites.lean`. -/
namespace IcyVerif.CrcSites
open IcyVerif.Crc IcyVerif.Gen.CrcSites

abbrev Byte := BitVec 8

/-! ## DECRQCRA -/

/-- what `Buffer::get_char` shows of one cell: `ch as u32`, `attribute.attr`, `get_foreground()`, `get_background()` -/
structure Cell where
  ch : Nat
  attr : Nat
  fg : Nat
  bg : Nat
deriving Repr, DecidableEq, Inhabited

/-- `AttributedChar::is_visible` -/
def Cell.visible (c : Cell) : Bool := (c.attr &&& attrInvisible) == 0

/-- the `w` low bytes of `v`, most significant first (`to_be_bytes` of a `w`-byte word; `v as u8` for `w = 1`) -/
def beBytes : Nat → Nat → List Byte
  | 0, _ => []
  | w+1, v => BitVec.ofNat 8 (v >>> (8 * w)) :: beBytes w v
def leBytes (w v : Nat) : List Byte := (beBytes w v).reverse

def Cell.field (c : Cell) : Nat → Nat
  | 0 => c.ch
  | 1 => c.attr
  | 2 => c.fg
  | _ => c.bg

def fieldBytes (c : Cell) (f : Nat × Nat × Nat) : List Byte :=
  if f.2.2 = 0 then beBytes f.2.1 (c.field f.1) else leBytes f.2.1 (c.field f.1)

/-- the bytes one visible cell contributes, in feeding order -/
def Cell.serial (c : Cell) : List Byte := rectFields.flatMap (fieldBytes c)

/-- the statements inside `if ch.is_visible() { … }`: one `update_crc16` per byte, field after field -/
def cellFold (crc : BitVec 16) (c : Cell) : BitVec 16 :=
  rectFields.foldl (fun crc f => (fieldBytes c f).foldl updateCrc16 crc) crc

abbrev Grid := List (List Cell)
/-- `buf.get_char((x, y))` as observed through the public API (rows of the terminal area) -/
def getCell (g : Grid) (x y : Nat) : Cell := (g.getD y []).getD x default

/-- `lo..hi` or `lo..=hi` -/
def loopRange (incl : Bool) (lo hi : Nat) : List Nat :=
  List.range' lo ((if incl then hi + 1 else hi) - lo)

/-- the two nested `for` loops of DECRQCRA with the register threaded through -/
def rectChecksum (g : Grid) (pt pl pb pr : Nat) : BitVec 16 :=
  (loopRange rectIncl_y pt pb).foldl (fun crc y =>
    (loopRange rectIncl_x pl pr).foldl (fun crc x =>
      let c := getCell g x y
      if c.visible then cellFold crc c else crc) crc) 0

/-- the visible cells of the area in feeding order, and their byte string -/
def rectCells (g : Grid) (pt pl pb pr : Nat) : List Cell :=
  (loopRange rectIncl_y pt pb).flatMap fun y =>
    (loopRange rectIncl_x pl pr).filterMap fun x =>
      if (getCell g x y).visible then some (getCell g x y) else none
def rectSerial (g : Grid) (pt pl pb pr : Nat) : List Byte := (rectCells g pt pl pb pr).flatMap Cell.serial

def hexDigitU (n : Nat) : Char := if n < 10 then Char.ofNat (48 + n) else Char.ofNat (55 + n)
/-- `{crc16:04X}` -/
def hex4 (v : BitVec 16) : String :=
  String.ofList [hexDigitU (v.toNat / 4096 % 16), hexDigitU (v.toNat / 256 % 16), hexDigitU (v.toNat / 16 % 16), hexDigitU (v.toNat % 16)]
/-- `format!("\x1BP{}!~{crc16:04X}\x1B\\", id)` -/
def rectReply (id : Int) (crc : BitVec 16) : String :=
  String.ofList [Char.ofNat 27, 'P'] ++ toString id ++ "!~" ++ hex4 crc ++ String.ofList [Char.ofNat 27, '\\']

inductive RectOut where
  /-- `Ok(CallbackAction::SendString(s))` -/
  | send (s : String)
  /-- wrong number of parameters: `UnsupportedEscapeSequence(current sequence)` -/
  | seqError
  /-- `UnsupportedEscapeSequence("invalid area for requesting checksum …")` -/
  | areaError (pt pl pb pr : Int)
deriving Repr, DecidableEq

def areaBad (pt pl pb pr tw th : Int) : Bool :=
  pt > pb || pl > pr || pr > tw || pb > th || pl < 0 || pt < 0

/-- `request_checksum_of_rectangular_area`: `nums` = `parsed_numbers`, `tw`/`th` = terminal width/height -/
def decrqcra (nums : List Int) (tw th : Int) (g : Grid) : RectOut :=
  if nums.length ≠ rectNumCount then .seqError else
  let pt := nums.getD rectIdx_pt 0
  let pl := nums.getD rectIdx_pl 0
  let pb := nums.getD rectIdx_pb 0
  let pr := nums.getD rectIdx_pr 0
  if areaBad pt pl pb pr tw th then .areaError pt pl pb pr else
  .send (rectReply (nums.getD rectIdx_id 0) (rectChecksum g pt.toNat pl.toNat pb.toNat pr.toNat))

/-! ## `BitFont::calculate_checksum` -/

/-- `char::from_u32` has a value -/
def isScalar (n : Nat) : Bool := n < 0xD800 || (0xDFFF < n && n ≤ 0x10FFFF)

/-- the glyph map as `char::from_u32(i).and_then(|c| font.get_glyph(c))` shows it, index by index -/
abbrev GlyphTable := List (Option (List Byte))
def glyphAt (t : GlyphTable) (ch : Nat) : Option (List Byte) := if isScalar ch then t.getD ch none else none

/-- the indices `0..self.length` (`length : i32`; an empty range when it is not positive) -/
def fontLoop (length : Int) : List Nat := loopRange fontLoopIncl fontLoopFrom length.toNat

/-- the loop of `calculate_checksum`: register starts at `fontInit`, no final inversion; absent glyphs are skipped -/
def fontChecksum (length : Int) (t : GlyphTable) : BitVec 32 :=
  (fontLoop length).foldl (fun crc ch =>
    match glyphAt t ch with
    | some g => g.foldl updateCrc32 crc
    | none => crc) (BitVec.ofNat 32 fontInit)

/-- the bytes of every glyph with an index below `length`, in index order -/
def fontBytes (length : Int) (t : GlyphTable) : List Byte := ((fontLoop length).filterMap (glyphAt t)).flatten

/-! ## `Palette::get_checksum` and the methods that write `Palette::colors` -/

structure Rgb where
  r : Nat
  g : Nat
  b : Nat
deriving Repr, DecidableEq, Inhabited

def Rgb.field (c : Rgb) : Nat → Nat
  | 0 => c.r
  | 1 => c.g
  | _ => c.b
/-- the bytes one colour contributes, in feeding order -/
def Rgb.serial (c : Rgb) : List Byte := palFields.map fun f => BitVec.ofNat 8 (c.field f)
/-- the body of the `for i in …` loop: one `update_crc32` per component -/
def colorFold (reg : BitVec 32) (c : Rgb) : BitVec 32 :=
  palFields.foldl (fun reg f => updateCrc32 reg (BitVec.ofNat 8 (c.field f))) reg
def palBytes (cs : List Rgb) : List Byte := cs.flatMap Rgb.serial

def triples : List Nat → List Rgb
  | r :: g :: b :: rest => ⟨r, g, b⟩ :: triples rest
  | _ => []
def dosDefault : List Rgb := triples dosDefaultFlat
def colorDefaultRgb : Rgb := ⟨colorDefault.getD 0 0, colorDefault.getD 1 0, colorDefault.getD 2 0⟩

/-- `colors`, `old_checksum` (number of colours already fed), `checksum` (the raw register) -/
structure Pal where
  colors : List Rgb
  old : Nat
  reg : BitVec 32
deriving Repr, DecidableEq

/-- every constructor initialises the cache the same way -/
def Pal.fresh (cs : List Rgb) : Pal := ⟨cs, palInitOld, BitVec.ofNat 32 palInitReg⟩

def Pal.invalidate (p : Pal) : Pal := { p with old := 0, reg := 0 }

/-- `Vec::resize(n, Color::default())` -/
def resizeVec (cs : List Rgb) (n : Nat) : List Rgb := cs.take n ++ List.replicate (n - cs.length) colorDefaultRgb
def fillTo16 (cs : List Rgb) : List Rgb := if cs.length < dosDefault.length then cs ++ dosDefault.drop cs.length else cs

/-- `get_checksum`: feeds `colors[old..]`, remembers the new count, returns the raw register -/
def Pal.getChecksum (p : Pal) : Pal × BitVec 32 :=
  let reg := (p.colors.drop p.old).foldl colorFold p.reg
  ({ p with old := p.colors.length, reg := reg }, reg)

def Pal.push (p : Pal) (c : Rgb) : Pal := { p with colors := p.colors ++ [c] }
/-- `set_color` / `set_color_rgb` / `set_color_hsl` (the latter with the colour its float arithmetic produced) -/
def Pal.setColor (p : Pal) (i : Nat) (c : Rgb) : Pal :=
  let cs := if p.colors.length ≤ i then resizeVec p.colors (i + 1) else p.colors
  ({ p with colors := cs.set i c }).invalidate
def Pal.clear (p : Pal) : Pal := ({ p with colors := [] }).invalidate
def Pal.fill16 (p : Pal) : Pal := { p with colors := fillTo16 p.colors }
def Pal.resize (p : Pal) (n : Nat) : Pal :=
  let p1 : Pal := if n > p.colors.length then { p with colors := resizeVec (fillTo16 p.colors) n } else p
  if n < p1.colors.length then ({ p1 with colors := resizeVec p1.colors n }).invalidate else p1
def firstIdx (c : Rgb) : List Rgb → Nat → Option Nat
  | [], _ => none
  | x :: xs, i => if x.r = c.r ∧ x.g = c.g ∧ x.b = c.b then some i else firstIdx c xs (i + 1)
def Pal.insertColor (p : Pal) (c : Rgb) : Pal × Nat :=
  match firstIdx c p.colors 0 with
  | some i => (p, i)
  | none => (p.push c, p.colors.length)

inductive PalOp where
  | push (c : Rgb)
  | setColor (i : Nat) (c : Rgb)
  | clear
  | resize (n : Nat)
  | fill16
  | insertColor (c : Rgb)
  | getChecksum
  | clone
deriving Repr, DecidableEq

/-- one operation: new state and what the caller gets back (an index or a checksum) -/
def Pal.step (p : Pal) : PalOp → Pal × Option Nat
  | .push c => (p.push c, none)
  | .setColor i c => (p.setColor i c, none)
  | .clear => (p.clear, none)
  | .resize n => (p.resize n, none)
  | .fill16 => (p.fill16, none)
  | .insertColor c => let r := p.insertColor c; (r.1, some r.2)
  | .getChecksum => let r := p.getChecksum; (r.1, some r.2.toNat)
  | .clone => (p, none)

def Pal.run (p : Pal) (ops : List PalOp) : Pal := ops.foldl (fun p op => (p.step op).1) p

/-- state after a history together with everything it returned, in order -/
def Pal.trace : Pal → List PalOp → Pal × List Nat
  | p, [] => (p, [])
  | p, op :: ops =>
    let r := p.step op
    let t := Pal.trace r.1 ops
    (t.1, (match r.2 with | some v => [v] | none => []) ++ t.2)

end IcyVerif.CrcSites
