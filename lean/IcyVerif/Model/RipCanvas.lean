import IcyVerif.Model.Rip
import IcyVerif.Model.BgiFill
import IcyVerif.Model.BgiShapes
import IcyVerif.Model.BgiPic
import IcyVerif.Gen.RipRun
/-! The RIP lexer model and the BGI canvas model put together: what `Parser::print_char` does to the canvas for the
commands whose `run` bodies are thin wrappers around modelled `Bgi` calls (`Gen/RipRun.lean` is regenerated from
`commands.rs`; a changed `run` body makes the translator fail).  A command outside that list is the explicit outcome
`unmodelled`. -/
namespace IcyVerif.RipCanvas
open IcyVerif.Rip IcyVerif.Bgi

inductive RunOut where
  /-- `Ok(Update)` / `Ok(NoUpdate)` -/
  | ok (b : Bgi) (update : Bool)
  | err (b : Bgi)
  | panic
  | stall
  | unmodelled

def kindOf (T : Table) (c : CmdSt) : Option Nat :=
  match T.cmds[c.idx]? with
  | some spec => (Gen.RipRun.runKind.find? (fun p => p.1 == spec.name)).map (·.2)
  | none => none

/-- `v as u8` for an i32 -/
def u8 (v : Int) : Nat := (v % 256).toNat

/-- `for i in 0..points.len() / 2 { Position::new(points[i * 2], points[i * 2 + 1]) }` -/
def pairs : List Int → List (Int × Int)
  | a :: b :: rest => (a, b) :: pairs rest
  | _ => []

def lift (r : Option Bgi) (update : Bool) : RunOut :=
  match r with
  | some b => .ok b update
  | none => .panic

/-- `Command::run` of the modelled commands -/
def execCmd (b : Bgi) (kind : Nat) (c : CmdSt) : RunOut :=
  let g (i : Nat) : Int := getInt c i
  match kind with
  | 1 => lift (setViewport b (g 0) (g 1) (g 2) (g 3)) false
  | 2 => lift (clearViewport b) true
  | 3 => .ok (setColor b (u8 (g 0))) false
  | 4 =>
    if c.vec.any (fun v => !(decide (0 ≤ v) && decide (v < 64))) then .err b
    else lift (setPalette b c.vec) true
  | 5 =>
    if !(decide (0 ≤ g 1) && decide (g 1 < 64)) then .err b
    else if g 0 < 0 then .panic  -- `index as u32` of a negative number: 2^32 palette entries (never produced by the lexer)
    else lift (setPaletteColor b (g 0).toNat (u8 (g 1))) true
  | 6 => .ok (setWriteMode b (u8 (g 0))) false
  | 7 => .ok { b with cur := (g 0, g 1) } false
  | 8 => lift (putPixel b (g 0) (g 1) b.color) true
  | 9 => lift (line b (g 0) (g 1) (g 2) (g 3)) true
  | 10 => lift (rectangle b (g 0) (g 1) (g 2) (g 3)) true
  | 11 =>
    let l := if g 0 < g 2 then g 0 else g 2
    let r := if g 0 < g 2 then g 2 else g 0
    let t := if g 1 < g 3 then g 1 else g 3
    let bt := if g 1 < g 3 then g 3 else g 1
    lift (bar b l t r bt) true
  | 12 => lift (drawPoly b (pairs c.vec)) true
  | 13 => lift (drawPolyLine b (pairs c.vec)) true
  | 14 =>
    match floodFill b (g 0) (g 1) (u8 (g 2)) with
    | .ok (b', _, _) => .ok b' true
    | .panic => .panic
    | .stall => .stall
  | 15 =>
    let b1 := setLineStyle b (u8 (g 0))
    let b2 := if g 0 = 4 then setLinePattern b1 (g 1) else b1
    .ok (setLineThickness b2 (g 2)) false
  | 16 => .ok (setFillColor (setFillStyle b (u8 (g 0))) (u8 (g 1))) false
  | 17 =>
    let b1 := setUserFillPattern b ((List.range 8).map fun i => u8 (g i))
    .ok (setFillColor { b1 with fillStyle := Gen.Bgi.fillStyleUser } (u8 (g 8))) false
  | _ => .unmodelled

structure St where
  lex : Lex
  bgi : Bgi

def St.init : St := ⟨Lex.init, Bgi.new⟩

/-- what one character yields -/
inductive COut where
  /-- the lexer's own answer -/
  | lexer (o : Out)
  /-- a modelled command ran: `Ok(Update)` / `Ok(NoUpdate)` / `Err` -/
  | ran (update : Bool)
  | ranErr
  deriving Repr

inductive CRes where
  | ok (s : St) (o : COut)
  | panic
  | stall
  | unmodelled

/-- one character through `print_char`, with the effect of a command that runs on the canvas -/
def step (T : Table) (s : St) (ch : Nat) (fb : Fb) : CRes :=
  match Rip.step T s.lex ch fb with
  | .panic _ => .panic
  | .ok lex' (.run c) =>
    match kindOf T c with
    | none => .unmodelled
    | some k =>
      match execCmd s.bgi k c with
      | .ok b u => .ok ⟨lex', b⟩ (.ran u)
      | .err b => .ok ⟨lex', b⟩ .ranErr
      | .panic => .panic
      | .stall => .stall
      | .unmodelled => .unmodelled
  | .ok lex' o => .ok ⟨lex', s.bgi⟩ (.lexer o)

end IcyVerif.RipCanvas
