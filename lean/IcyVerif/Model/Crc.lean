import IcyVerif.Gen.Crc
/-! Model of `src/crc.rs`: table-driven CRC-16/XMODEM and sliced CRC-32, plus the
    bitwise reference definitions.  Tables and the shape of the XOR chain come
    from the generated `Gen/Crc.lean`. -/
namespace IcyVerif.Crc
open IcyVerif.Gen.Crc

def iter (f : α → α) : Nat → α → α
  | 0, x => x
  | n+1, x => iter f n (f x)

/-! ### bitwise reference -/
def P16 : BitVec 16 := 0x1021#16
def step16 (x : BitVec 16) : BitVec 16 := if x.msb then (x <<< 1) ^^^ P16 else x <<< 1
def bitUpd16 (c : BitVec 16) (b : BitVec 8) : BitVec 16 := iter step16 8 (c ^^^ (b.setWidth 16 <<< 8))
def bitCrc16 (bs : List (BitVec 8)) : BitVec 16 := bs.foldl bitUpd16 0

def P32 : BitVec 32 := 0xEDB88320#32
def step32 (x : BitVec 32) : BitVec 32 := if x.getLsbD 0 then (x >>> 1) ^^^ P32 else x >>> 1
def bitUpd32 (c : BitVec 32) (b : BitVec 8) : BitVec 32 := iter step32 8 (c ^^^ b.setWidth 32)
def bitCrc32 (bs : List (BitVec 8)) : BitVec 32 := ~~~ (bs.foldl bitUpd32 0xFFFFFFFF#32)

/-! ### the code: `update_crc16`, `get_crc16` -/
def tab16 (i : Nat) : BitVec 16 := BitVec.ofNat 16 (t16.getD i 0)
def updateCrc16 (crc : BitVec 16) (b : BitVec 8) : BitVec 16 :=
  (crc <<< 8) ^^^ tab16 (((crc >>> 8).setWidth 8) ^^^ b).toNat
def getCrc16 (bs : List (BitVec 8)) : BitVec 16 := bs.foldl updateCrc16 0

/-! ### the code: `update_crc32`, `update_slow`, `get_crc32` -/
def tab32 (k i : Nat) : BitVec 32 := BitVec.ofNat 32 ((t32.getD k []).getD i 0)
def updateCrc32 (crc : BitVec 32) (b : BitVec 8) : BitVec 32 :=
  (crc >>> 8) ^^^ tab32 0 (b ^^^ crc.setWidth 8).toNat
def slowStep (crc : BitVec 32) (byte : BitVec 8) : BitVec 32 :=
  tab32 0 ((crc.setWidth 8) ^^^ byte).toNat ^^^ (crc >>> 8)
def updateSlow (prev : BitVec 32) (buf : List (BitVec 8)) : BitVec 32 :=
  ~~~ (buf.foldl slowStep (~~~ prev))

/-- one `CRC32_TABLE[row][buf[idx] as usize (^ ((result >> sh) & 0xFF) as usize)?]` term -/
def chainTerm (buf : List (BitVec 8)) (result : BitVec 32) (e : Nat × Nat × Nat × Nat) : BitVec 32 :=
  let byte := (buf.getD e.2.1 0).toNat
  let ix := if e.2.2.1 = 1 then byte ^^^ ((result >>> e.2.2.2) &&& 0xFF#32).toNat else byte
  tab32 e.1 ix
def sliceStep (result : BitVec 32) (buf : List (BitVec 8)) : BitVec 32 :=
  crc32Chain.foldl (fun acc e => acc ^^^ chainTerm buf result e) 0
/-- the `while buf.len() >= 16` loop followed by `update_slow(!result, buf)`; fuel = buf.length -/
def crc32Loop : Nat → BitVec 32 → List (BitVec 8) → BitVec 32
  | 0, result, buf => updateSlow (if crc32TailNot then ~~~ result else result) buf
  | fuel+1, result, buf =>
    if buf.length ≥ crc32Block then crc32Loop fuel (sliceStep result buf) (buf.drop crc32Advance)
    else updateSlow (if crc32TailNot then ~~~ result else result) buf
def getCrc32 (buf : List (BitVec 8)) : BitVec 32 :=
  crc32Loop buf.length (BitVec.ofNat 32 crc32Init) buf

end IcyVerif.Crc
