import IcyVerif.Gen.Sauce
/-! Model of `src/sauce_mod/mod.rs` (`SauceString`, `SauceData::extract`, `Buffer::write_sauce_info`) and of
    the SAUCE part of `Buffer::from_bytes` / `Buffer::set_sauce` (`src/buffers.rs`).

    Bytes are `Nat`s, byte strings are `List Nat`.  Every Rust operation that can panic
    (`data[i]`, `data[a..b]`, `data[a..]`, `usize - usize`, `assert_eq!`) is an explicit operation returning
    `Res.panic`; "the code cannot panic" is literally "the model never returns `.panic`".
    All constants, the per-variant writer/reader arms and the comment-block arithmetic come from the generated
    `Gen/Sauce.lean`.  chrono (date parsing, `Utc::now()`) is outside the model: the reader takes the
    verdict of the date parser as a parameter `dateOk`, the writer takes the 8 date bytes as an input. -/
namespace IcyVerif.Sauce
open IcyVerif.Gen.Sauce

/-- `SauceError` variants -/
inductive Err
  | unsupportedVersion | unsupportedDate | invalidCommentBlock | invalidCommentId | commentLimit | binWidth
  deriving DecidableEq, Repr

/-- outcome of a Rust function returning `EngineResult<α>` that may also panic -/
inductive Res (α : Type)
  | ok (a : α)
  | err (e : Err)
  | panic (site : String)
  deriving Repr

def Res.bind {α β : Type} : Res α → (α → Res β) → Res β
  | .ok a, f => f a
  | .err e, _ => .err e
  | .panic s, _ => .panic s

instance : Monad Res where
  pure := Res.ok
  bind := Res.bind

def Res.isPanic {α : Type} : Res α → Bool
  | .panic _ => true
  | _ => false

/-! ### checked primitives -/

/-- `a - b` on `usize` (debug profile: underflow panics) -/
def usub (a b : Nat) : Res Nat := if b ≤ a then .ok (a - b) else .panic "usize subtraction underflow"
/-- `data[a..b]` -/
def slice (d : List Nat) (a b : Nat) : Res (List Nat) :=
  if a ≤ b ∧ b ≤ d.length then .ok ((d.drop a).take (b - a)) else .panic "slice index out of range"
/-- `data[a..]` -/
def sliceFrom (d : List Nat) (a : Nat) : Res (List Nat) :=
  if a ≤ d.length then .ok (d.drop a) else .panic "slice start out of range"
/-- `data[i]` -/
def idx (d : List Nat) (i : Nat) : Res Nat :=
  match d[i]? with
  | some b => .ok b
  | none => .panic "index out of bounds"

/-! ### `SauceString<LEN, EMPTY>` (contents = the private `Vec<u8>`) -/

/-- the `for i in 0..LEN` loop of `SauceString::read`: `n` iterations left, next index `i`, unread input `rest`,
    bytes pushed so far `acc`, `last_non_empty`.  `data[i]` panics when the input is exhausted. -/
def readLoop (pad : Nat) : Nat → Nat → List Nat → List Nat → Nat → Res (List Nat × Nat)
  | 0, _, _, acc, last => .ok (acc, last)
  | _+1, _, [], _, _ => .panic "SauceString::read index out of bounds"
  | n+1, i, b :: rest, acc, last =>
    if pad = 0 ∧ b = 0 then .ok (acc, last)
    else readLoop pad n (i+1) rest (acc ++ [b]) (if b ≠ pad then i+1 else last)

/-- `SauceString::<LEN, EMPTY>::new().read(data)`: the resulting contents (the function returns `LEN`) -/
def strRead (len pad : Nat) (data : List Nat) : Res (List Nat) :=
  match readLoop pad len 0 data [] len with
  | .ok (acc, last) => .ok (if last < len then acc.take last else acc)
  | .err e => .err e
  | .panic s => .panic s

/-- `append_to`: contents, then padding up to `LEN` -/
def strAppend (len pad : Nat) (s : List Nat) (vec : List Nat) : List Nat :=
  if s.length < len then vec ++ s ++ List.replicate (len - s.length) pad else vec ++ s

/-- `SauceString::from` on a string all of whose characters are CP437 (given as its CP437 bytes) -/
def strFrom (len : Nat) (s : List Nat) : List Nat := s.take len

/-- `len()`: length without trailing NULs and blanks -/
def strLen (s : List Nat) : Nat := (s.reverse.dropWhile (fun c => stripSet.contains c)).length
/-- `to_string()` as CP437 bytes (the table `CP437_TO_UNICODE` is injective) -/
def strText (s : List Nat) : List Nat := s.take (strLen s)
/-- `PartialEq` -/
def strEq (a b : List Nat) : Bool := strLen a == strLen b && a.take (strLen a) == b.take (strLen b)

/-! ### the writer: `Buffer::write_sauce_info` -/

/-- the part of `SauceData` the writer reads -/
structure Meta where
  title : List Nat := []
  author : List Nat := []
  group : List Nat := []
  comments : List (List Nat) := []
  ar : Bool := false
  ls : Bool := false
  deriving DecidableEq, Repr

/-- the part of `Buffer` the writer reads -/
structure BufInfo where
  sauce : Option Meta := none
  width : Nat := 80
  height : Nat := 25
  ice : Bool := false
  /-- `get_font(0).name` as CP437 bytes -/
  fontName : List Nat := []
  deriving DecidableEq, Repr

def le16 (n : Nat) : List Nat := [n % 256, n / 256 % 256]
def le32 (n : Nat) : List Nat := [n % 256, n / 256 % 256, n / 65536 % 256, n / 16777216 % 256]

instance : Inhabited WArm :=
  ⟨{ kinds := [], dataType := 0, fileType := some 0, w1 := false, h2 := false, ice := false, ar := false, ls := false, font := false }⟩

/-- the arm of `match sauce_file_type` taken for kind `k` (index into `kindNames`) -/
def writerArm (k : Nat) : WArm := (writerArms.find? (fun a => a.kinds.contains k)).getD default

def flagBits (a : WArm) (b : BufInfo) : Nat :=
  let m := b.sauce.getD {}
  (if a.ice ∧ b.ice then flagNonBlink else 0) |||
  (if a.ar ∧ m.ar then arStretch else 0) |||
  (if a.ls ∧ m.ls then ls9px else 0)

/-- COMNT block (empty when there are no comments) -/
def commentBlock (cs : List (List Nat)) : List Nat :=
  if cs.isEmpty then [] else cs.foldl (fun v c => strAppend commentLen commentPad c v) commentId

/-- the 128-byte record -/
def recordBytes (a : WArm) (fileType : Nat) (b : BufInfo) (date : List Nat) (fileSize nComments : Nat) : List Nat :=
  let m := b.sauce.getD {}
  sauceId ++ versionWrite ++
  strAppend titleLen titlePad m.title [] ++ strAppend authorLen authorPad m.author [] ++ strAppend groupLen groupPad m.group [] ++
  date ++ le32 fileSize ++
  [a.dataType, fileType] ++ le16 (if a.w1 then b.width % 65536 else 0) ++ le16 (if a.h2 then b.height % 65536 else 0) ++
  le16 0 ++ le16 0 ++ [nComments, flagBits a b] ++
  strAppend tinfoLen tinfoPad (strFrom tinfoLen (if a.font then b.fontName else [])) []

/-- what `write_sauce_info` appends after the EOF byte, given the value of the `file_size` field -/
def writeSauce (k : Nat) (b : BufInfo) (date : List Nat) (fileSize : Nat) : Res (List Nat) :=
  let cs := (b.sauce.getD {}).comments
  if cs.length > commentLimit then .err .commentLimit else
  let a := writerArm k
  match a.fileType with
  | some ft => .ok (commentBlock cs ++ recordBytes a ft b date fileSize cs.length)
  | none =>
    let w := b.width / 2
    if w > 255 then .err .binWidth else .ok (commentBlock cs ++ recordBytes a w b date fileSize cs.length)

/-- `write_sauce_info(kind, vec)`: the new contents of `vec` -/
def writeSauceInfo (k : Nat) (b : BufInfo) (date : List Nat) (vec : List Nat) : Res (List Nat) :=
  let vec := vec ++ [eofByte]
  (writeSauce k b date (vec.length % 4294967296)).bind fun tail => .ok (vec ++ tail)

/-! ### the reader: `SauceData::extract` -/

/-- observable part of `SauceData` (creation time is chrono's; `data_type` after `SauceDataType::from`) -/
structure Sauce where
  title : List Nat
  author : List Nat
  group : List Nat
  comments : List (List Nat)
  dataType : Nat
  width : Nat
  height : Nat
  font : Option (List Nat)
  ice : Bool
  ls : Bool
  ar : Bool
  headerLen : Nat
  kind : Nat
  deriving DecidableEq, Repr

/-- raw fields of the 128-byte record -/
structure Header where
  title : List Nat
  author : List Nat
  group : List Nat
  dataType : Nat
  fileType : Nat
  t1 : Nat
  t2 : Nat
  nComments : Nat
  flags : Nat
  tinfo : List Nat
  deriving DecidableEq, Repr

/-- `s.read(&data[o..])` -/
def readAt (len pad : Nat) (data : List Nat) (o : Nat) : Res (List Nat) :=
  (sliceFrom data o).bind fun d => strRead len pad d

/-- `data[o] as i32 + ((data[o + 1] as i32) << 8)` -/
def rd16 (data : List Nat) (o : Nat) : Res Nat :=
  (idx data o).bind fun lo => (idx data (o + 1)).bind fun hi => .ok (lo + hi * 256)

/-- the record part of `extract`, `o0 = data.len() - SAUCE_LEN`.  `ok none` is `Ok(None)`. -/
def parseHeader (dateOk : List Nat → Bool) (data : List Nat) (o0 : Nat) : Res (Option Header) :=
  (slice data o0 (o0 + sauceIdSlice)).bind fun id =>
  if sauceId ≠ id then .ok none else
  let o := o0 + sauceIdSkip
  (slice data o (o + versionRead.length)).bind fun ver =>
  if versionRead ≠ ver then .err .unsupportedVersion else
  let o := o + versionRead.length
  (readAt titleLen titlePad data o).bind fun title =>
  let o := o + titleLen
  (readAt authorLen authorPad data o).bind fun author =>
  let o := o + authorLen
  (readAt groupLen groupPad data o).bind fun group =>
  let o := o + groupLen
  (slice data o (o + dateLen)).bind fun date =>
  if dateOk date = false then .err .unsupportedDate else
  let o := o + dateLen
  let o := o + fileSizeLen
  (idx data o).bind fun dataType =>
  let o := o + 1
  (idx data o).bind fun fileType =>
  let o := o + 1
  (rd16 data o).bind fun t1 =>
  let o := o + 2
  (rd16 data o).bind fun t2 =>
  let o := o + 2
  let o := o + 2
  let o := o + 2
  (idx data o).bind fun nComments =>
  let o := o + 1
  (idx data o).bind fun flags =>
  let o := o + 1
  (readAt tinfoLen tinfoPad data o).bind fun tinfo =>
  let o := o + tinfoLen
  if data.length ≠ o then .panic "assert_eq!(data.len(), o)" else
  .ok (some { title, author, group, dataType, fileType, t1, t2, nComments, flags, tinfo })

/-- the reader arm for (data type after `SauceDataType::from`, file type) -/
def readerArm (dt ft : Nat) : Option RArm :=
  readerArms.find? (fun a => a.dataType == dt && (a.fileType == none || a.fileType == some ft))

/-- the loop `for _ in 0..num_comments { comment.read(&data[o..]) }` -/
def readComments (data : List Nat) : Nat → Nat → List (List Nat) → Res (List (List Nat))
  | 0, _, acc => .ok acc
  | n+1, o, acc =>
    (readAt commentLen commentPad data o).bind fun c => readComments data n (o + commentLen) (acc ++ [c])

/-- comments and `len` (offset where the SAUCE data starts, not counting the EOF byte) -/
def commentPart (data : List Nat) (nc : Nat) : Res (List (List Nat) × Nat) :=
  if nc > 0 then
    (usub data.length sauceLen).bind fun avail =>
    if avail < nc * checkLine + checkId then .err .invalidCommentBlock else
    (usub avail (nc * startLine)).bind fun x =>
    (usub x startId).bind fun commentStart =>
    (slice data commentStart (commentStart + commentIdSlice)).bind fun id =>
    if commentId ≠ id then .err .invalidCommentId else
    (readComments data nc (commentStart + commentIdSkip) []).bind fun cs => .ok (cs, commentStart)
  else
    (usub data.length sauceLen).bind fun len => .ok ([], len)

/-- the pure part of `extract`: interpretation of the record fields by data/file type -/
def interpret (h : Header) (comments : List (List Nat)) (headerLen : Nat) : Sauce :=
  let dt := if h.dataType ≤ dataTypeMax then h.dataType else 0
  let arm := readerArm dt h.fileType
  let sizeInfo := arm.any (·.sizeInfo)
  let widthFt := arm.any (·.widthFt)
  { title := h.title, author := h.author, group := h.group, comments := comments, dataType := dt,
    width := if sizeInfo then h.t1 else if widthFt then h.fileType * 2 % 65536 else readerDefaultWidth,
    height := if sizeInfo then h.t2 else readerDefaultHeight,
    font := if arm.any (·.font) then some (strText h.tinfo) else none,
    ice := arm.any (·.ice) && (h.flags &&& flagNonBlink == flagNonBlink),
    ls := arm.any (·.ls) && (h.flags &&& maskLetterSpacing == ls9px),
    ar := arm.any (·.ar) && (h.flags &&& maskAspectRatio == arStretch),
    headerLen := headerLen,
    kind := (arm.map (·.kind)).getD 0 }

/-- `SauceData::extract(data)` -/
def extract (dateOk : List Nat → Bool) (data : List Nat) : Res (Option Sauce) :=
  if data.length < sauceLen then .ok none else
  (usub data.length sauceLen).bind fun o0 =>
  (parseHeader dateOk data o0).bind fun oh =>
  match oh with
  | none => .ok none
  | some h =>
    (commentPart data h.nComments).bind fun (cs, len) =>
    let offset := len - eofLen          -- `len.saturating_sub(1)`
    (usub data.length offset).bind fun headerLen =>
    .ok (some (interpret h cs headerLen))

/-! ### `Buffer::from_bytes`: what is handed to the format loader -/

/-- `(bytes[..len], sauce_data)` as computed by `from_bytes` -/
def fromBytesSplit (dateOk : List Nat → Bool) (bytes : List Nat) : Res (List Nat × Option Sauce) :=
  match extract dateOk bytes with
  | .ok (some s) =>
    (usub bytes.length s.headerLen).bind fun len => (slice bytes 0 len).bind fun c => .ok (c, some s)
  | .ok none => (slice bytes 0 bytes.length).bind fun c => .ok (c, none)
  | .err _ => (slice bytes 0 bytes.length).bind fun c => .ok (c, none)
  | .panic s => .panic s

/-- the settings of a freshly created loader buffer that `set_sauce(.., resize_to_sauce)` may change -/
structure LoaderState where
  width : Nat
  height : Nat
  ice : Bool
  fontName : List Nat
  deriving DecidableEq, Repr

/-- `Buffer::set_sauce(Some(s), resize)`; `knownFont` = `BitFont::from_sauce_name(..).is_ok()` -/
def setSauce (knownFont : List Nat → Bool) (st : LoaderState) (s : Sauce) (resize : Bool) : LoaderState :=
  if resize then
    { width := if s.width = 0 ∨ s.width > widthMax then widthFallback else s.width,
      height := s.height,
      ice := st.ice || s.ice,
      fontName := match s.font with
        | some f => if knownFont f then f else st.fontName
        | none => st.fontName }
  else st

/-! ### specification side: what a SAUCE variant can carry -/

/-- a blank-padded field after write + read: trailing pad bytes are gone — unless the whole field is pad, then
    all `len` pad bytes are kept (quirk of `read`: `last_non_empty` starts at `LEN`) -/
def carryPad (len pad : Nat) (s : List Nat) : List Nat :=
  let p := strAppend len pad s []
  if p.all (· == pad) then p else (p.reverse.dropWhile (· == pad)).reverse

/-- a NUL-padded field after write + read: cut at the first NUL -/
def carryNul (s : List Nat) : List Nat := s.takeWhile (· != 0)

/-- the `SauceData` a file written by `write_sauce_info k` yields on `extract`, header length given -/
def carry (k : Nat) (b : BufInfo) (headerLen : Nat) : Sauce :=
  let a := writerArm k
  let m := b.sauce.getD {}
  let ft := match a.fileType with | some ft => ft | none => b.width / 2
  let r := readerArm a.dataType ft
  { title := carryPad titleLen titlePad m.title,
    author := carryPad authorLen authorPad m.author,
    group := carryPad groupLen groupPad m.group,
    comments := m.comments.map carryNul,
    dataType := a.dataType,
    width := match a.fileType with
      | none => b.width / 2 * 2
      | some _ => if a.w1 then b.width % 65536 else 0,
    height := match a.fileType with
      | none => readerDefaultHeight
      | some _ => if a.h2 then b.height % 65536 else 0,
    font := if r.any (·.font) then some (strText (carryNul (strFrom tinfoLen (if a.font then b.fontName else [])))) else none,
    ice := r.any (·.ice) && a.ice && b.ice,
    ls := r.any (·.ls) && a.ls && m.ls,
    ar := r.any (·.ar) && a.ar && m.ar,
    headerLen := headerLen,
    kind := (r.map (·.kind)).getD 0 }

end IcyVerif.Sauce
