import IcyVerif.Model.Rows
import IcyVerif.Model.TermWrap
/-! # Rows x TermGeo: the content operations each character of the ANSI parser (and of its four wrappers) executes
`ansiRows` says which content operations of `Model/Rows` one character runs, in the order and with the arguments the
code uses (`src/parsers/ansi/mod.rs`, `ansi_commands.rs`); cursor, margins and sizes are those of the `TermGeo` state
*before* the character (intermediate geometry inside one character — REP, line feed after a print — is recomputed
with the `TermGeo` primitives).  `stepJ` is the composition: `Term.step` for the geometry and the parser state, the
rows effect next to it, and macro replay (`invoke_macro_by_id`) threading both. -/
namespace IcyVerif.Rows
open IcyVerif.Term

/-- a joint run stops either because the geometry model raised a panic or because a content operation did -/
inductive JErr where
  | geo (p : Panic)
  | rows (site : String)
deriving Repr, DecidableEq

abbrev JRes (α : Type) := Except JErr α

/-- `CSI … <final>` -/
def csiRows (cfg : Cfg) (st : St) (ch : Char) (t : Tab) : RRes Tab :=
  let nums := st.p.nums
  let s := st.s
  let c := st.c
  if ch = 'k' ∨ ch = 'A' then checkScrollUpT s { c with y := satSub c.y (firstOr nums 1) } false t
  else if ch = 'B' then checkScrollDownT s { c with y := satAdd c.y (firstOr nums 1) } false t
  else if ch = 'X' then echT s c (firstOr nums 1) t
  else if ch = '@' then
    match nums with
    | n :: _ => times (min n s.tw) (insT c) t
    | [] => insT c t
  else if ch = 'M' then
    if cfg.musicOpt = 1 ∨ cfg.musicOpt = 3 then .ok t
    else if nums.isEmpty then
      if c.y < t.rows.length then removeTerminalLine s c.y t else .ok t
    else if nums.length ≠ 1 then .ok t
    else times (min (firstOr nums 1) ((t.rows.length : Int) - c.y)) (removeTerminalLine s c.y) t
  else if ch = 'P' then
    if nums.isEmpty then delT c t
    else if nums.length ≠ 1 then .ok t
    else
      let lineLen : Int := match vecGet? t.rows c.y with | some n => n | none => 0
      times (min (firstOr nums 1) lineLen) (delT c) t
  else if ch = 'L' then
    if nums.isEmpty then insertTerminalLine s c.y t
    else if nums.length ≠ 1 then .ok t
    else times (min (firstOr nums 1) s.th) (insertTerminalLine s c.y) t
  else if ch = 'J' then
    match nums with
    | [] => clearBufferDown s c t
    | n :: _ =>
      if n = 0 then clearBufferDown s c t
      else if n = 1 then clearBufferUp s c t
      else if n = 2 ∨ n = 3 then .ok (clearScreenT t)
      else clearBufferDown s c t          -- runs before the error is reported
  else if ch = 'K' then
    match nums with
    | [] => clearLineEnd s c t
    | n :: _ =>
      if n = 0 then clearLineEnd s c t
      else if n = 1 then clearLineStart s c t
      else if n = 2 then clearLine s c t
      else .ok t
  else if ch = '~' then
    match nums with
    | [n] => if n = 2 then insT c t else if n = 3 then delT c t else .ok t
    | _ => .ok t
  else if ch = 'S' then times (min (firstOr nums 1) s.th) (scrollUp s) t
  else if ch = 'T' then times (min (firstOr nums 1) s.th) (scrollDown s) t
  else if ch = 'b' then printNT (repCount nums s) s c t
  else .ok t

/-- `ESC <ch>` -/
def escRows (st : St) (ch : Char) (t : Tab) : RRes Tab :=
  let s := st.s
  let c := st.c
  if ch = '[' ∨ ch = ']' ∨ ch = '7' ∨ ch = '8' then .ok t
  else if ch = 'c' then .ok (ffT t)
  else if ch = 'D' then checkScrollDownT s { c with y := c.y + 1 } true t
  else if ch = 'M' then checkScrollUpT s { c with y := c.y - 1 } true t
  else if ch = 'E' then checkScrollDownT s { c with y := c.y + 1, x := 0 } true t
  else if ch = 'P' ∨ ch = 'H' ∨ ch = '_' then .ok t
  else if '0' ≤ ch ∧ ch ≤ '~' then .ok t
  else if ch = '\x0c' ∨ ch = '\x07' ∨ ch = '\x08' ∨ ch = '\x09' ∨ ch = '\x7f' ∨ ch = '\x1b' ∨ ch = '\n' ∨ ch = '\r' then
    printCharT s c t
  else .ok t

/-- a character in the default state -/
def dfltRows (cfg : Cfg) (st : St) (ch : Char) (t : Tab) : RRes Tab :=
  let s := st.s
  let c := st.c
  if ch = '\x1b' then .ok t
  else if ch = '\n' then lfT s c t
  else if ch = '\x0c' then .ok (ffT t)
  else if ch = '\r' then .ok t
  else if ch = '\x07' then .ok t
  else if ch = '\x7f' then delT c t
  else if ch = '\x08' ∧ cfg.bsCtrl then bsT c t
  else if (ch = '\x00' ∨ ch = '\xff') ∧ cfg.bsCtrl then .ok t
  else printCharT s c t

/-- `CSI … <f> <ch>` with `f` one of `*`, `$`, space (macro invocation `* z` is handled by `stepCoreJ`) -/
def endCsiRows (st : St) (f ch : Char) (t : Tab) : RRes Tab :=
  let nums := st.p.nums
  let s := st.s
  if f = '$' then
    if ch = 'x' then
      let v := firstOr nums 0
      if nums.length ≠ 5 then .ok t
      else if v < 55296 ∨ (57344 ≤ v ∧ v ≤ 1114111) then fillArea s t nums 1 else .ok t
    else if ch = 'z' ∨ ch = '{' then
      if nums.length ≠ 4 then .ok t else fillArea s t nums 0
    else .ok t
  else if f = ' ' then
    if ch = 'A' then times (min (firstOr nums 1) s.tw) (scrollRight s) t
    else if ch = '@' then times (min (firstOr nums 1) s.tw) (scrollLeft s) t
    else .ok t
  else .ok t

/-- the content operations of one character that does not invoke a macro -/
def ansiRows (cfg : Cfg) (st : St) (ch : Char) (t : Tab) : RRes Tab :=
  match st.p.st with
  | .esc => escRows st ch t
  | .rip => if ch = 'p' then .ok t else dfltRows cfg (dflt st) ch t
  | .endCsi f => endCsiRows st f ch t
  | .csi _ => csiRows cfg st ch t
  | .dflt => dfltRows cfg st ch t
  | _ => .ok t

/-- does this character, in this parser state, invoke a macro?  (`CSI Pn * z`, or the same inside a DCS);
    the value is the macro id and the state the replay starts from — as in `Term.endCsi` / `Term.stepCore` -/
def invokes (st : St) (ch : Char) : Option (Int × St) :=
  match st.p.st with
  | .endCsi f =>
    if f = '*' ∧ ch = 'z' then
      match st.p.nums with
      | id :: _ => some (id, dflt st)
      | [] => none
    else none
  | .dcsMacro i =>
    let st := { st with p := { st.p with mdcs := st.p.mdcs ++ [ch] } }
    if isDigit ch then none
    else if ch = '[' then none
    else if ch = '*' then none
    else if ch = 'z' then
      if i ≠ 2 then none
      else match st.p.nums with
        | [id] => some (id, setSt st .dcs)
        | _ => none
    else none
  | _ => none

abbrev JSt := St × Tab
abbrev JR := JRes (JSt × Out)

/-- one character on the pair (TermGeo state, row table); `invJ` replays a macro -/
def stepCoreJ (cfg : Cfg) (o : Orc) (invJ : Int → JSt → JRes JSt) (x : JSt) (ch : Char) : JR :=
  match (if RangeOk x.1.s x.1.c ∧ MusicSafe x.1.p.st x.1.p.mus ch then invokes x.1 ch else none) with
  | some (id, d) =>
    match invJ id (d, x.2) with
    | .ok x' => .ok (x', .ok)
    | .error e => .error e
  | none =>
    match stepCore cfg o (fun _ s => .ok s) x.1 ch with
    | .error e => .error (.geo e)
    | .ok (st', out) =>
      match ansiRows cfg x.1 ch x.2 with
      | .ok t' => .ok ((st', t'), out)
      | .error site => .error (.rows site)

def replayJ (stepf : JSt → Char → JR) : List Char → JSt → JRes JSt
  | [], x => .ok x
  | ch :: rest, x =>
    if x.1.p.budget = 0 then .ok x else
    let st := { x.1 with p := { x.1.p with budget := x.1.p.budget - 1 } }
    match stepf (st, x.2) ch with
    | .ok (x', _) => replayJ stepf rest x'
    | .error e => .error e

def invokerJ (stepf : JSt → Char → JR) (top : Bool) (id : Int) (x : JSt) : JRes JSt :=
  match macroGet x.1.p.macros id.toNat with
  | none => .ok x
  | some body =>
    replayJ stepf body (if top then ({ x.1 with p := { x.1.p with budget := MAX_MACRO_EXPANSION } }, x.2) else x)

def stepDJ : Nat → Cfg → (Nat → Orc) → JSt → Char → JR
  | 0, cfg, o, x, ch => stepCoreJ cfg (o x.1.p.tick) (fun _ x => .ok x) (tickSt x.1, x.2) ch
  | d+1, cfg, o, x, ch =>
    stepCoreJ cfg (o x.1.p.tick) (invokerJ (stepDJ d cfg o) (decide (d + 1 = MAX_MACRO_DEPTH))) (tickSt x.1, x.2) ch

def stepJ (cfg : Cfg) (o : Nat → Orc) (x : JSt) (ch : Char) : JR := stepDJ MAX_MACRO_DEPTH cfg o x ch

def runJ (cfg : Cfg) (o : Nat → Orc) : JSt → List Char → JRes JSt
  | x, [] => .ok x
  | x, ch :: rest =>
    match stepJ cfg o x ch with
    | .ok (x', _) => runJ cfg o x' rest
    | .error e => .error e

/-! ## Avatar, PCBoard, Ctrl-A, Renegade -/
abbrev WJ := WSt × Tab
abbrev WJR := JRes (WJ × Out)

/-- a wrapper arm that does not reach the ANSI parser: geometry from `Term`, rows effect given -/
def geoW (r : WR) (t : RRes Tab) : WJR :=
  match r with
  | .error e => .error (.geo e)
  | .ok (w', out) =>
    match t with
    | .ok t' => .ok ((w', t'), out)
    | .error site => .error (.rows site)

def innerJ (x : WJ) (o : Nat → Orc) (ch : Char) : WJR :=
  match stepJ wcfg o (x.1.inner, x.2) ch with
  | .ok ((st, t), out) => .ok (({ x.1 with inner := st }, t), out)
  | .error e => .error e

def avtRepeatJ (o : Nat → Orc) (ch : Char) : Nat → WJ → WJR
  | 0, x => .ok (x, .ok)
  | n+1, x =>
    match stepJ wcfg o (x.1.inner, x.2) ch with
    | .ok ((st, t), .err) => .ok (({ x.1 with inner := st }, t), .err)
    | .ok ((st, t), _) => avtRepeatJ o ch n ({ x.1 with inner := st }, t)
    | .error e => .error e

def avatarJ (x : WJ) (o : Nat → Orc) (ch : Char) : WJR :=
  let w := x.1
  match w.avt with
  | .chars =>
    if ch = '\x0c' then geoW (avatarStep w o ch) (.ok (ffT x.2))
    else if ch = '\x19' ∨ ch = '\x16' then geoW (avatarStep w o ch) (.ok x.2)
    else innerJ x o ch
  | .repeatChars k =>
    if k = 2 then
      match avtRepeatJ o w.avtChar (min ch.toNat 255) ({ w with avt := .repeatChars 3 }, x.2) with
      | .ok ((w', t'), .err) => .ok ((w', t'), .err)
      | .ok ((w', t'), _) => .ok (({ w' with avt := .chars }, t'), .ok)
      | .error e => .error e
    else geoW (avatarStep w o ch) (.ok x.2)
  | _ => geoW (avatarStep w o ch) (.ok x.2)

def pcboardJ (x : WJ) (o : Nat → Orc) (ch : Char) : WJR :=
  let w := x.1
  if w.pcbColor = true ∨ w.pcbCode = true ∨ ch = '@' then geoW (pcboardStep w o ch) (.ok x.2) else innerJ x o ch

def renegadeJ (x : WJ) (o : Nat → Orc) (ch : Char) : WJR :=
  let w := x.1
  if w.rng = 0 ∧ ch ≠ '|' then innerJ x o ch else geoW (renegadeStep w o ch) (.ok x.2)

def ctrlaJ (x : WJ) (o : Nat → Orc) (ch : Char) : WJR :=
  let w := x.1
  let s := w.inner.s
  let c := w.inner.c
  let t := x.2
  if w.ctrlA then
    if ch = 'A' then
      match stepJ wcfg o (w.inner, t) '\x01' with
      | .ok ((st, t'), _) => .ok (({ w with ctrlA := false, inner := st }, t'), .ok)
      | .error e => .error e
    else geoW (ctrlaStep w o ch)
      (if ch = 'L' then .ok (clearScreenT t)
       else if ch = 'J' then clearBufferDown s c t
       else if ch = '>' then clearLineEnd s c t
       else if ch = ']' then checkScrollDownT s { c with y := satAdd c.y 1 } false t
       else .ok t)
  else if ch = '\x01' then geoW (ctrlaStep w o ch) (.ok t)
  else innerJ x o ch

def wstepJ (e : Emu) (o : Nat → Orc) (x : WJ) (ch : Char) : WJR :=
  if ¬ RangeOk x.1.inner.s x.1.inner.c then .error (.geo (.overflow "i32 arithmetic on the cursor / buffer height")) else
  match e with
  | .avatar => avatarJ x o ch
  | .pcboard => pcboardJ x o ch
  | .ctrla => ctrlaJ x o ch
  | .renegade => renegadeJ x o ch

def wrunJ (e : Emu) (o : Nat → Orc) : WJ → List Char → JRes WJ
  | x, [] => .ok x
  | x, ch :: rest =>
    match wstepJ e o x ch with
    | .ok (x', _) => wrunJ e o x' rest
    | .error e => .error e

end IcyVerif.Rows
