import IcyVerif.Model.Palette
import IcyVerif.Gen.PalColor
/-! Index operations of `Palette` on colours AS STORED: `Color { name: Option<String>, r, g, b }` (src/palette_handling.rs).

  `Model/Palette.lean` runs `insert_color` / `set_color` / `push` / `get_rgb` on RGB triples; that is only right if colour
  NAMES play no role in them.  Here the same operations run on `Color` (name + RGB), comparing exactly the fields the source
  compares: `Gen/PalColor.lean` lists the fields of `impl PartialEq for Color` and of the search in `insert_color`
  (regenerated every run).  `Lemmas/PaletteNamed.lean` proves that this model is the RGB model once names are erased
  (for every palette, every colour, every history), which is the property's "adding a colour that is already present
  returns its existing index" for palettes whose entries carry names (loaded from ICE / GPL files, or built through the API). -/
namespace IcyVerif.Palette
open IcyVerif.Gen.PalColor

/-- one field of two colours compared (codes of `Gen/PalColor.lean`: 0 r, 1 g, 2 b, 3 name) -/
def fieldEq (a b : Color) : Nat → Bool
  | 0 => a.rgb.r == b.rgb.r
  | 1 => a.rgb.g == b.rgb.g
  | 2 => a.rgb.b == b.rgb.b
  | 3 => a.name == b.name
  | _ => false

/-- a conjunction of field comparisons -/
def eqOn (fs : List Nat) (a b : Color) : Bool := fs.all (fieldEq a b)

/-- `impl PartialEq for Color` -/
def colorEq (a b : Color) : Bool := eqOn colorEqFields a b

/-- `Color::default()` -/
def blackC : Color := ⟨none, black⟩

/-- the search loop of `insert_color`: position of the first entry that compares equal to `c`, the length if none does -/
def firstIdxN (c : Color) : List Color → Nat
  | [] => 0
  | x :: xs => if eqOn insertEqFields x c then 0 else firstIdxN c xs + 1

/-- `Palette::insert_color(color)`: the colour is pushed AS GIVEN (with its name) when no entry compares equal -/
def insertColorN (p : List Color) (c : Color) : List Color × Nat :=
  if firstIdxN c p < p.length then (p, firstIdxN c p) else (p ++ [c], p.length)

/-- `Palette::set_color(i, color)` (`set_color_rgb` = the same with `name: None`) -/
def setColorN (p : List Color) (i : Nat) (c : Color) : List Color :=
  (if p.length ≤ i then p ++ List.replicate (i + 1 - p.length) blackC else p).set i c

def rgbsOf (p : List Color) : List Rgb := p.map (·.rgb)

/-- `Palette::get_rgb` -/
def getRgbN (p : List Color) (i : Nat) : Rgb := getRgb (rgbsOf p) i

/-- `DOS_DEFAULT_PALETTE` (every name `None`) as colours; the RGB values come from the generated EGA/DOS tables through
    the argument -/
def unnamed (p : List Rgb) : List Color := p.map fun c => ⟨none, c⟩

/-- `Palette::is_default` against a 16-colour table `dos`: same length and every entry `==` (Color's `PartialEq`) -/
def isDefaultN (dos : List Rgb) (p : List Color) : Bool :=
  p.length == dos.length && (p.zip (unnamed dos)).all fun e => colorEq e.1 e.2

/-- `Palette::are_colors_equal`: `Vec<Color> == Vec<Color>` -/
def colorsEqual (p q : List Color) : Bool :=
  p.length == q.length && (p.zip q).all fun e => colorEq e.1 e.2

inductive NOp where
  | insert (c : Color)
  | set (i : Nat) (c : Color)
  | lookup (i : Nat)
  | push (c : Color)
  | isDefault
  deriving Repr

inductive NOut where
  | idx (i : Nat)
  | rgb (c : Rgb)
  | flag (b : Bool)
  deriving Repr, DecidableEq

/-- one operation on a named palette; `dos` = the table `is_default` compares with -/
def stepN (dos : List Rgb) (p : List Color) : NOp → List Color × Option NOut
  | .insert c => ((insertColorN p c).1, some (.idx (insertColorN p c).2))
  | .set i c => (setColorN p i c, none)
  | .lookup i => (p, some (.rgb (getRgbN p i)))
  | .push c => (p ++ [c], none)
  | .isDefault => (p, some (.flag (isDefaultN dos p)))

/-- all answers of a history and the final palette (names included) -/
def traceN (dos : List Rgb) : List Color → List NOp → List NOut × List Color
  | p, [] => ([], p)
  | p, op :: ops =>
    let r := stepN dos p op
    let t := traceN dos r.1 ops
    (match r.2 with
      | some o => o :: t.1
      | none => t.1, t.2)

/-- forgetting the names: the operation of the RGB model (`is_default` has no counterpart there) -/
def NOp.erase : NOp → List Op
  | .insert c => [.insert c.rgb]
  | .set i c => [.set i c.rgb]
  | .lookup i => [.lookup i]
  | .push c => [.push c.rgb]
  | .isDefault => []

def NOut.erase : NOut → List Out
  | .idx i => [.idx i]
  | .rgb c => [.rgb c]
  | .flag _ => []

end IcyVerif.Palette
