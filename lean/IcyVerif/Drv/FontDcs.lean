import IcyVerif.Model.FontDcs
import IcyVerif.Drv.Util
/-! Line protocol for `Model/FontDcs.lean`: `fontdcs run <hex of the UTF-8 stream>` — the stream is fed to a fresh parser
    next to a buffer with an EMPTY font table; the answer is a digest of the final state, a rolling hash over the
    per-character observations (result, state, lengths of `parse_string` / `macro_dcs`, `parsed_numbers`) and the list of
    font installations (character index, slot, font digest). -/
namespace IcyVerif.Drv.FontDcs
open IcyVerif.FontDcs IcyVerif.Font IcyVerif.Drv

/-- UTF-8 bytes → code points (the harness sends valid UTF-8 only); `none` on malformed input -/
def utf8Decode : List Nat → List Nat → Option (List Nat)
  | [], acc => some acc.reverse
  | b :: rest, acc =>
    if b < 0x80 then utf8Decode rest (b :: acc)
    else if 0xC0 ≤ b ∧ b < 0xE0 then
      match rest with
      | c :: rest => utf8Decode rest (((b - 0xC0) * 64 + (c - 0x80)) :: acc)
      | _ => none
    else if 0xE0 ≤ b ∧ b < 0xF0 then
      match rest with
      | c :: d :: rest => utf8Decode rest (((b - 0xE0) * 4096 + (c - 0x80) * 64 + (d - 0x80)) :: acc)
      | _ => none
    else if 0xF0 ≤ b ∧ b < 0xF8 then
      match rest with
      | c :: d :: e :: rest => utf8Decode rest (((b - 0xF0) * 262144 + (c - 0x80) * 4096 + (d - 0x80) * 64 + (e - 0x80)) :: acc)
      | _ => none
    else none

def stTag : FSt → String
  | .dflt => "Default"
  | .esc => "ReadEscapeSequence"
  | .dcs => "RecordDCS"
  | .dcsEsc => "RecordDCSEscape"
  | .dcsMacro i => s!"ReadPossibleMacroInDCS({i})"
  | .out => "out"

def stNum : FSt → Nat
  | .dflt => 1 | .esc => 2 | .dcs => 3 | .dcsEsc => 4 | .dcsMacro i => 10 + i | .out => 0

def outNum : Out → Nat
  | .ok => 0 | .err => 1 | .panic => 2

/-- digest of a `BitFont`: size, length, and every glyph with its code -/
def fontDigest (f : BitFont) : UInt64 :=
  fnv ([f.w.toNat, f.h.toNat, f.length.toNat] ++
    (f.glyphs.zipIdx.flatMap fun p => match p.1 with | some g => p.2 :: g.length :: g | none => []))

def intNat (x : Int) : Nat := if x < 0 then (4294967296 + x).toNat else x.toNat

def sortedFonts (fs : List (Nat × BitFont)) : List (Nat × BitFont) :=
  (fs.toArray.qsort (fun a b => a.1 < b.1)).toList

def tableDigest (fs : List (Nat × BitFont)) : UInt64 :=
  fnv ((sortedFonts fs).flatMap fun e => [e.1, (fontDigest e.2).toNat])

structure Acc where
  p : P
  roll : UInt64 := 14695981039346656037
  idx : Nat := 0
  events : List String := []

def feed (a : Acc) (ch : Nat) : Acc :=
  let (p', o) := step a.p ch
  let roll := [outNum o, stNum p'.st, p'.strRev.length, p'.mdcsRev.length, p'.nums.length].foldl fnvStep a.roll
  let roll := (p'.nums.map intNat).foldl fnvStep roll
  let ev := if p'.installs = a.p.installs then a.events else s!"{a.idx}:{tableDigest p'.fonts}" :: a.events
  { p := p', roll := roll, idx := a.idx + 1, events := ev }

def sortedMacros (ms : List (Nat × List Char)) : List (Nat × List Char) :=
  (ms.toArray.qsort (fun a b => a.1 < b.1)).toList

def summary (a : Acc) : String :=
  let p := a.p
  if p.st = .out then "out" else
  let fonts := ",".intercalate ((sortedFonts p.fonts).map fun e => s!"{e.1}:{fontDigest e.2}")
  let macros := fnv ((sortedMacros p.macros).flatMap fun e => e.1 :: e.2.length :: e.2.map Char.toNat)
  let nums := ",".intercalate (p.nums.map toString)
  let ev := ",".intercalate a.events.reverse
  s!"st={stTag p.st} str={p.strRev.length}:{fnv p.str} mdcs={p.mdcsRev.length}:{fnv p.mdcsRev.reverse} nums=[{nums}] " ++
  s!"macros={p.macros.length}:{macros} fonts=[{fonts}] roll={a.roll} events=[{ev}]"

def handle : List String → String
  | ["run", hx] => match parseHex hx with
    | some bs => (match utf8Decode bs [] with
      | some cs => summary (cs.foldl feed { p := {} })
      | none => "bad-utf8")
    | none => "bad-op"
  | _ => "bad-op"

end IcyVerif.Drv.FontDcs
