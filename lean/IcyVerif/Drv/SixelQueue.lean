import IcyVerif.Model.Sixel
import IcyVerif.Model.SixelQueue
import IcyVerif.Drv.Sixel
namespace IcyVerif.Drv.SixelQueue
open IcyVerif.SixelQueue IcyVerif.Drv

/-- payload marker of the harness: the decode thread of this sequence is made to panic (through the gate hook) -/
def panicMarker : String := "ff50414e4943ff"

/-- `px,py,hexpayload` → what the decode thread of image `id` returns (sizes from the sixel model) -/
def parseSpec (id : Nat) (s : String) : Option Res :=
  match s.splitOn "," with
  | [x, y, h] =>
    if h == panicMarker then some .panicked else
    match x.toNat?, y.toNat?, parseHex h with
    | some px, some py, some bs =>
      match IcyVerif.Sixel.parse (Sixel.chars bs) with
      | .ok img => some (.ok ⟨id, px, py, img.w, img.h⟩)
      | .err _ => some .err
      | .panic _ => some .panicked
      | .huge => none
    | _, _, _ => none
  | _ => none

def parseEv (s : String) : Option Ev :=
  match s.toList with
  | ['p'] => some .poll
  | ['c'] => some .clear
  | 'a' :: ds => (String.ofList ds).toNat?.map .arrive
  | 'f' :: ds => (String.ofList ds).toNat?.map .finish
  | _ => none

def showRet : Ret → String
  | .ok true => "T"
  | .ok false => "F"
  | .err => "E"
  | .blocked => "B"

def showImg (i : Img) : String := s!"{i.id}/{i.px}/{i.py}/{i.w}/{i.h}"

def showObs (o : Ret × List Img) : String :=
  showRet o.1 ++ ":[" ++ ";".intercalate (o.2.map showImg) ++ "]"

def allSome : List (Option α) → Option (List α)
  | [] => some []
  | none :: _ => none
  | some a :: rest => (allSome rest).map (a :: ·)

/-- `run <fw> <fh> <n> <spec_0> … <spec_{n-1}> <ev> …` → one observation per poll -/
def handle : List String → String
  | "run" :: fw :: fh :: n :: rest =>
    match fw.toNat?, fh.toNat?, n.toNat? with
    | some fw, some fh, some n =>
      let specs := rest.take n
      let evs := rest.drop n
      match allSome ((List.range specs.length).zip specs |>.map fun (i, s) => parseSpec i s), allSome (evs.map parseEv) with
      | some rs, some evs =>
        let cfg : Cfg := { fw := fw, fh := fh, res := fun id => rs.getD id .err }
        let obs := runObs cfg {} evs
        if obs.isEmpty then "-" else " ".intercalate (obs.map showObs)
      | _, _ => "bad-op"
    | _, _, _ => "bad-op"
  | _ => "bad-op"

end IcyVerif.Drv.SixelQueue
