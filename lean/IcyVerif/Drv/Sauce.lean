import IcyVerif.Model.SauceLoad
import IcyVerif.Drv.Util
/-! Line protocol for the SAUCE model (`sauce <op> …`), see harness/src/c11.rs -/
namespace IcyVerif.Drv.Sauce
open IcyVerif.Sauce IcyVerif.Gen.Sauce IcyVerif.Drv

def errName : Err → String
  | .unsupportedVersion => "version"
  | .unsupportedDate => "date"
  | .invalidCommentBlock => "comment-block"
  | .invalidCommentId => "comment-id"
  | .commentLimit => "comment-limit"
  | .binWidth => "bin-width"

def b01 (b : Bool) : String := if b then "1" else "0"
def flag? (s : String) : Option Bool := if s == "1" then some true else if s == "0" then some false else none

def hexList? : List String → Option (List (List Nat))
  | [] => some []
  | h :: t => match parseHex h, hexList? t with
    | some a, some r => some (a :: r)
    | _, _ => none

/-- bytes up to the first NUL (what a NUL-padded field holds), as hex -/
def nulHex (s : List Nat) : String := toHex (s.takeWhile (· != 0))

def showSauce (s : Sauce) (contentLen : Nat) : String :=
  "ok t=" ++ toHex (strAppend titleLen titlePad s.title []) ++ " " ++ b01 s.title.isEmpty ++
  " a=" ++ toHex (strAppend authorLen authorPad s.author []) ++ " " ++ b01 s.author.isEmpty ++
  " g=" ++ toHex (strAppend groupLen groupPad s.group []) ++ " " ++ b01 s.group.isEmpty ++
  " tt=" ++ toHex (strText s.title) ++ " at=" ++ toHex (strText s.author) ++ " gt=" ++ toHex (strText s.group) ++
  " c=" ++ toString s.comments.length ++ ":" ++ ",".intercalate (s.comments.map nulHex) ++
  " dt=" ++ toString s.dataType ++ " w=" ++ toString s.width ++ " h=" ++ toString s.height ++
  " f=" ++ (match s.font with | none => "none" | some f => toHex f) ++
  " i=" ++ b01 s.ice ++ " l=" ++ b01 s.ls ++ " r=" ++ b01 s.ar ++
  " hl=" ++ toString s.headerLen ++ " k=" ++ toString s.kind ++ " cl=" ++ toString contentLen

def doExtract (dateOk : Bool) (data : List Nat) : String :=
  match extract (fun _ => dateOk) data, fromBytesSplit (fun _ => dateOk) data with
  | .panic _, _ => "panic"
  | _, .panic _ => "panic"
  | .err e, _ => "err:" ++ errName e
  | .ok none, _ => "none"
  | .ok (some s), .ok (c, _) => showSauce s c.length
  | .ok (some _), .err e => "err:" ++ errName e

/-- `Buffer::from_bytes("….asc", file)` as far as the probe of c11load.rs can see it: when the content handed to the
    loader lies inside the probe-alphabet prefix of the file, the content itself and the number of comment lines of the
    record the loader receives (`-` = none); `beyond` otherwise (the .asc loader is not modelled here) -/
def doSplit (dateOk : Bool) (file : List Nat) : String :=
  match fromBytesSplit (fun _ => dateOk) file with
  | .ok (c, s) =>
    if c.length ≤ IcyVerif.SauceLoad.dPrefix file then
      "text " ++ toHex c ++ " s=" ++ (match s with | none => "-" | some s => toString s.comments.length)
    else "beyond"
  | .err e => "err:" ++ errName e
  | .panic _ => "panic"

def doWrite (k : Nat) (b : BufInfo) (date : List Nat) (vecLen : Nat) : String :=
  match writeSauceInfo k b date (List.replicate vecLen 0) with
  | .ok v => "ok " ++ toHex (v.drop vecLen)
  | .err e => "err:" ++ errName e
  | .panic _ => "panic"

def doStr (len pad : Nat) (d : List Nat) : String :=
  match strRead len pad d with
  | .ok r => "ok " ++ toHex (strAppend len pad r []) ++ " " ++ toHex (strText r) ++ " " ++ toString (strLen r) ++ " " ++ b01 r.isEmpty
  | .err e => "err:" ++ errName e
  | .panic _ => "panic"

def doRt (len pad : Nat) (s : List Nat) : String :=
  let s0 := strFrom len s
  let out := strAppend len pad s0 []
  match strRead len pad out with
  | .ok r => toHex out ++ " " ++ toHex (strText s0) ++ " " ++ toHex (strText r) ++ " " ++ b01 (strEq r s0) ++ " " ++ b01 r.isEmpty
  | .err e => "err:" ++ errName e
  | .panic _ => "panic"

def handle : List String → String
  | "write" :: k :: hasS :: w :: h :: ice :: ar :: ls :: font :: date :: title :: author :: group :: vecLen :: nc :: cs =>
    match k.toNat?, flag? hasS, w.toNat?, h.toNat?, flag? ice, flag? ar, flag? ls, parseHex font, parseHex date,
          parseHex title, parseHex author, parseHex group, vecLen.toNat?, nc.toNat?, hexList? cs with
    | some k, some hasS, some w, some h, some ice, some ar, some ls, some font, some date, some title, some author,
      some group, some vecLen, some nc, some cs =>
      if nc ≠ cs.length then "bad-op" else
      let m : Meta := { title, author, group, comments := cs, ar, ls }
      doWrite k { sauce := if hasS then some m else none, width := w, height := h, ice, fontName := font } date vecLen
    | _, _, _, _, _, _, _, _, _, _, _, _, _, _, _ => "bad-op"
  | ["extract", ok, h] => match flag? ok, parseHex h with
    | some ok, some d => doExtract ok d
    | _, _ => "bad-op"
  | ["split", ok, h] => match flag? ok, parseHex h with
    | some ok, some d => doSplit ok d
    | _, _ => "bad-op"
  | ["str", len, pad, h] => match len.toNat?, pad.toNat?, parseHex h with
    | some len, some pad, some d => doStr len pad d
    | _, _, _ => "bad-op"
  | ["rt", len, pad, h] => match len.toNat?, pad.toNat?, parseHex h with
    | some len, some pad, some d => doRt len pad d
    | _, _, _ => "bad-op"
  | ["eq", a, b] => match parseHex a, parseHex b with
    | some a, some b => b01 (strEq a b)
    | _, _ => "bad-op"
  | ["setw", w] => match w.toNat? with
    | some w => toString (setSauce (fun _ => false) { width := 0, height := 0, ice := false, fontName := [] }
        { title := [], author := [], group := [], comments := [], dataType := 0, width := w, height := 25, font := none,
          ice := false, ls := false, ar := false, headerLen := 0, kind := 0 } true).width
    | none => "bad-op"
  | ["loader", ext] => match loaders.find? (fun l => l.1 == ext) with
    | some (_, w, _, _, k) => toString k ++ " " ++ toString w
    | none => "bad-op"
  | ["consts"] =>
    natsToString [sauceLen, eofByte, titleLen, titlePad, authorLen, authorPad, groupLen, groupPad, commentLen, commentPad,
                  tinfoLen, tinfoPad, commentLimit, widthMax, widthFallback]
  | _ => "bad-op"

end IcyVerif.Drv.Sauce
