import IcyVerif.Model.SixelLoad
import IcyVerif.Drv.Sixel
import IcyVerif.Drv.SixelQueue
namespace IcyVerif.Drv.SixelLoad
open IcyVerif.SixelQueue IcyVerif.SixelLoad IcyVerif.Drv

/-- what one DCS string at caret `(px,py)` does: `none` = outside the modelled range (huge numbers) -/
inductive Seq
  | noSixel
  | clear
  | thread (res : Res) (scales : Nat × Nat)

def seqOf (id : Nat) (px py : Int) (dcs : List Char) : Option Seq :=
  match classify dcs with
  | .sixel vs _ payload =>
    match IcyVerif.Sixel.decode 1 vs payload with
    | .ok d => some (Seq.thread (.ok ⟨id, px, py, d.img.w, d.img.h⟩) (d.vscale, d.hscale))
    | .err _ => some (Seq.thread .err (0, 0))
    | .panic _ => some (Seq.thread .panicked (0, 0))
    | .huge => none
  | _ => some .noSixel

def parseSpec (id : Nat) (s : String) : Option Seq :=
  if s == "c" then some .clear else
  match s.splitOn "," with
  | [x, y, h] =>
    match x.toInt?, y.toInt?, parseHex h with
    | some px, some py, some bs => seqOf id px py (Sixel.chars bs)
    | _, _, _ => none
  | _ => none

/-- `a.b/c` → [[a,b],[c]]; `-` → [] -/
def parseSched (s : String) : Option (List (List Nat)) :=
  if s == "-" then some [] else
  SixelQueue.allSome ((s.splitOn "/").map fun g =>
    if g == "" then some [] else SixelQueue.allSome ((g.splitOn ".").map String.toNat?))

def showLayer (scales : Nat → Nat × Nat) (l : ImgLayer) : String :=
  s!"{l.num}:{l.id}@{l.offX},{l.offY}:{l.cw}x{l.ch}:{l.pw}x{l.ph}:{(scales l.id).1},{(scales l.id).2}"

def showOut (scales : Nat → Nat × Nat) : LoadOut → String
  | .ok ls => s!"ok {ls.length}" ++ String.join (ls.map fun l => " " ++ showLayer scales l)
  | .err => "err"
  | .divZero => "panic div-zero"
  | .blocked => "blocked"
  | .waiting => "waiting"

def showDcs (px py : Int) (dcs : List Char) : String :=
  match classify dcs with
  | .sixel vs _ payload =>
    match IcyVerif.Sixel.decode 1 vs payload with
    | .ok d => s!"sixel ok {d.img.w} {d.img.h} {d.img.dataLen} scale={d.vscale},{d.hscale} at={px},{py} caret={px},{py}"
    | .err e => "sixel err " ++ Sixel.errName e
    | .panic _ => "sixel panic"
    | .huge => "sixel huge"
  | _ => "nosixel"

/-- `load <fw> <fh> <sched> <n> <px,py,dcshex | c>…` (`c` = a clear-screen sequence) — the image layers `parse_with_parser` creates;
    `dcs <px> <py> <dcshex>` — what `execute_dcs` does with one DCS string at caret (px,py) -/
def handle : List String → String
  | "load" :: fw :: fh :: sched :: n :: rest =>
    match fw.toNat?, fh.toNat?, parseSched sched, n.toNat? with
    | some fw, some fh, some sched, some n =>
      if rest.length ≠ n then "bad-op" else
      match SixelQueue.allSome ((List.range rest.length).zip rest |>.map fun (i, s) => parseSpec i s) with
      | some (seqs : List Seq) =>
        let res : Nat → Res := fun id => match seqs[id]? with
          | some (Seq.thread r _) => r
          | _ => .err
        let scales : Nat → Nat × Nat := fun id => match seqs[id]? with
          | some (Seq.thread _ sc) => sc
          | _ => (0, 0)
        let text : List Ev := (List.range seqs.length).filterMap fun id => match seqs[id]? with
          | some (Seq.thread _ _) => some (.arrive id)
          | some Seq.clear => some .clear
          | _ => none
        let cfg : Cfg := { fw := fw, fh := fh, res := res }
        showOut scales (loadText cfg text sched)
      | none => "huge"
    | _, _, _, _ => "bad-op"
  | ["geom", fw, fh, px, py, w, h] =>
    match fw.toInt?, fh.toInt?, px.toInt?, py.toInt?, w.toInt?, h.toInt? with
    | some fw, some fh, some px, some py, some w, some h =>
      let i : Img := ⟨0, px, py, w, h⟩
      let r := screenRect fw fh i
      -- `Sixel::as_rectangle`: the cell rectangle (float ceiling, equal to `cells` in the modelled range)
      s!"screen={r.x},{r.y},{r.w},{r.h} cells={px},{py},{cells w fw},{cells h fh}"
    | _, _, _, _, _, _ => "bad-op"
  | ["covers", fw, fh, ax, ay, aw, ah, bx, b_y, bw, bh] =>
    match fw.toInt?, fh.toInt?, ax.toInt?, ay.toInt?, aw.toInt?, ah.toInt?, bx.toInt?, b_y.toInt?, bw.toInt?, bh.toInt? with
    | some fw, some fh, some ax, some ay, some aw, some ah, some bx, some b_y, some bw, some bh =>
      if containsRect (screenRect fw fh ⟨0, ax, ay, aw, ah⟩) (screenRect fw fh ⟨1, bx, b_y, bw, bh⟩) then "T" else "F"
    | _, _, _, _, _, _, _, _, _, _ => "bad-op"
  | ["dcs", x, y, h] =>
    match x.toInt?, y.toInt?, parseHex h with
    | some px, some py, some bs => showDcs px py (Sixel.chars bs)
    | _, _, _ => "bad-op"
  | _ => "bad-op"

end IcyVerif.Drv.SixelLoad
