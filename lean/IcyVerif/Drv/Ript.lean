import IcyVerif.Model.RipText
import IcyVerif.Drv.Igs
/-! Line protocol for the RIP text path model: `ript style <font> <dir> <size> <hex text>` →
`<FontType variant> <direction> <size> ok|panic` — the style `|Y` leaves (observed through `get_font_type`,
`get_text_direction`, `get_font_size`) and whether drawing the text in that style stays inside every table. -/
namespace IcyVerif.Drv.Ript
open IcyVerif.RipText IcyVerif.Drv

def handle : List String → String
  | ["style", f, d, s, hx] =>
    match f.toNat?, d.toNat?, s.toInt?, (if hx == "-" then some [] else parseHex hx) with
    | some f, some d, some s, some text =>
      let st := setTextStyle f d s
      let v := match textLookups st text with | some _ => "ok" | none => "panic"
      s!"{Gen.RipText.fontVariants.getD st.font "?"} {st.dir} {st.size} {v}"
    | _, _, _, _ => "bad-op"
  | _ => "bad-op"

end IcyVerif.Drv.Ript
