import IcyVerif.Model.PalStream
import IcyVerif.Model.BinFormats
import IcyVerif.Drv.Util
import IcyVerif.Drv.BinFormats
/-! Line protocol of the stream-level palette model (`palstream …`, C16).

  run <init> <seq,seq,…>     init = `d` (DOS default palette) | hex of RGB triples | `-`; every seq = hex of the bytes of ONE
                             sequence (`ESC[…m`, `ESC[…t`, `ESC]…ESC\`, `ESC c`, FF, one printable character).  Answer: per
                             sequence `<o|e> <fg> <bg> <palette length> <rgb of fg> <rgb of bg>`, joined by ` | `, then
                             ` # <fnv of the final palette>`; a sequence outside the model answers `?` and stops the run
  tnd <hex>                  `TundraDraw::load_buffer`: `rej` | `out` | `ok <#pal> <palette hex> <tag.fg.bg,…> x=<1|0>` (cells
                             by position, the last write of a position counts; x = the palette equals the one of the C05 model)
  filepal <fmt> <hex>        palette of `Buffer::from_bytes` (C05 model of the loaders): `ok <palette hex>` | `rej`
  resavepal <fmt> <hex>      load -> save (no SAUCE, no compression) -> load: `ok <palette hex>` | `rej` | `save-err` | `save-panic` | `rej2:rej`
  savepal <case> <date>      a whole picture (case token of `binformats`, Drv/BinFormats.lean) WRITTEN by the model and read
                             back: `ok <file length> <fnv of the file> <palette hex>` | `save-err` | `save-panic` | `rej`
  resize <hex> <n> | fill16 <hex> | isdefault <hex>
-/
namespace IcyVerif.Drv.PalStream
open IcyVerif.Palette IcyVerif.PalStream IcyVerif.Drv

def hex6 (c : Rgb) : String := toHex [c.r, c.g, c.b]

def init? (s : String) : Option (List Rgb) :=
  if s == "d" then some dosDefault else (parseHex s).map triples

def showSt (ok : Bool) (s : St) : String :=
  (if ok then "o " else "e ") ++ toString s.fg ++ " " ++ toString s.bg ++ " " ++ toString s.pal.length ++ " " ++
    hex6 (getRgb s.pal s.fg) ++ " " ++ hex6 (getRgb s.pal s.bg)

def runSeqs : List (List Nat) → Nat → St → List String → List String × St
  | [], _, s, acc => (acc.reverse, s)
  | q :: qs, k, s, acc =>
    match seqOps k (parseSeq q) with
    | none => (("?" :: acc).reverse, s)
    | some (ops, ok) =>
      let s' := run s ops
      runSeqs qs (k + 1) s' (showSt ok s' :: acc)

def insertCell (e : Nat × Nat × Nat) : List (Nat × Nat × Nat) → List (Nat × Nat × Nat)
  | [] => [e]
  | q :: qs => if e.1 < q.1 then e :: q :: qs else if e.1 = q.1 then e :: qs else q :: insertCell e qs

def showCells (cs : List (Nat × Nat × Nat)) : String :=
  let m := cs.foldl (fun acc e => insertCell e acc) []
  if m.isEmpty then "-" else ",".intercalate (m.map fun e => s!"{e.1}.{e.2.1}.{e.2.2}")

def fmt? : String → Option BinFormats.Fmt
  | "xb" => some .xb
  | "adf" => some .adf
  | "idf" => some .idf
  | "tnd" => some .tnd
  | "bin" => some .bin
  | _ => none

def palHex (p : List BinFormats.Rgb) : String := toHex (p.flatMap fun c => [c.1, c.2.1, c.2.2])

def handle : List String → String
  | ["filepal", f, h] =>
    match fmt? f, parseHex h with
    | some f, some bs =>
      (match BinFormats.fromBytes f bs with
       | .ok g => "ok " ++ palHex g.pal
       | _ => "rej")
    | _, _ => "bad-op"
  | ["resavepal", f, h] =>
    match fmt? f, parseHex h with
    | some f, some bs =>
      (match BinFormats.fromBytes f bs with
       | .ok g1 =>
         (match BinFormats.save f ⟨false, false⟩ [] g1.toPic with
          | .ok b2 =>
            (match BinFormats.fromBytes f b2 with
             | .ok g2 => "ok " ++ palHex g2.pal
             | _ => "rej2:rej")
          | .err => "save-err"
          | .panic => "save-panic")
       | _ => "rej")
    | _, _ => "bad-op"
  | ["savepal", t, date] =>
    match Drv.BinFormats.parseCase t with
    | none => "bad-op"
    | some (f, o, p) =>
      match BinFormats.save f o (Drv.BinFormats.asciiBytes date) p with
      | .ok bs =>
        (match BinFormats.fromBytes f bs with
         | .ok g => s!"ok {bs.length} {fnv bs} {palHex g.pal}"
         | _ => "rej")
      | .err => "save-err"
      | .panic => "save-panic"
  | ["run", init, seqs] =>
    match init? init, (if seqs == "-" then some [] else (seqs.splitOn ",").mapM parseHex) with
    | some p, some qs =>
      let r := runSeqs qs 0 ⟨p, Gen.PalStream.defaultFg, Gen.PalStream.defaultBg⟩ []
      (if r.1.isEmpty then "-" else " | ".intercalate r.1) ++ " # " ++ toString (fnv (asVec r.2.pal))
    | _, _ => "bad-op"
  | ["tnd", h] =>
    match parseHex h with
    | none => "bad-op"
    | some data =>
      match tndOps data with
      | none => "rej"
      | some (_, .err) => "rej"
      | some (_, .out) => "out"
      | some (ops, .ok) =>
        let s := run tndStart ops
        let x : Bool := match BinFormats.tndLoad data none with
          | .ok b => b.pal == s.pal.map fun c => (c.r, c.g, c.b)
          | _ => false
        s!"ok {s.pal.length} {toHex (asVec s.pal)} {showCells (cells tndStart ops)} x={if x then "1" else "0"}"
  | ["resize", h, n] =>
    match parseHex h, n.toNat? with
    | some bs, some n => toHex (asVec (resize (triples bs) n))
    | _, _ => "bad-op"
  | ["fill16", h] =>
    match parseHex h with
    | some bs => toHex (asVec (fillTo16 (triples bs)))
    | none => "bad-op"
  | ["isdefault", h] =>
    match parseHex h with
    | some bs => if isDefault (triples bs) then "1" else "0"
    | none => "bad-op"
  | _ => "bad-op"

end IcyVerif.Drv.PalStream
