import IcyVerif.Model.BinFormats
import IcyVerif.Drv.Util
/-! Line protocol for C05 (`binformats …`).

  save  <case> <date>                 the file `Buffer::to_bytes` writes, as hex; `err` / `panic`
  saveh <case> <date>                 the same as `<length> <fnv>`
  load  <fmt> <hex>                   `Buffer::from_bytes`: `ok <bw> <bh> <lw> <lh> <rows> <ice> <fnv cells> <#pal> <fnv pal> <fonts>` / `rej`
  rt    <case> <date>                 `rep=<Representable> save=ok|err|panic load=ok|rej|- same=<picSame>`
  resave <fmt> <opts> <date> <hex>    load -> save -> load: `rej` | `big` | `save-err` | `save-panic` | `<len> <fnv of the re-saved file>` + (`rej2` | `<digest of 2nd load> same=<0|1>`)

  fontname <height> <hex>             `guess_font_name` of a font block, as SAUCE bytes (hex)
  saucefont <hex name>                `BitFont::from_sauce_name`: `<height> <fnv data>` / `none`

  <case> = `<fmt>:<ice>:<w>:<opts>:<palette>:<fonts>:<alphabet>:<symbols>[:<meta>]`; palette = `d` | `p<rrggbb…>`; fonts = `-` |
  `<slot>.d` | `<slot>.g<height>.<seed>` | `<slot>.s<index into SAUCE_FONT_NAMES>` (comma separated, a later entry of a slot
  wins); alphabet = `ch.fg.bg.flags.page,…`; symbols = one base-36 digit per cell, or `*`; meta = the buffer's SAUCE data
  `<title>/<author>/<group>/<comment,comment,…>/<ar><ls>` (hex, `-` = empty).
  The digest of a loaded buffer ends in the font names (`slot.height.fnv(data).fnv(name)`) and the SAUCE data it keeps. -/
namespace IcyVerif.Drv.BinFormats
open IcyVerif.XbCompress IcyVerif.BinFormats IcyVerif.Drv IcyVerif.Gen

def parseFmt : String → Option Fmt
  | "xb" => some .xb
  | "bin" => some .bin
  | "adf" => some .adf
  | "idf" => some .idf
  | "tnd" => some .tnd
  | _ => none

def parseCell (s : String) : Option Cell :=
  match (s.splitOn ".").map String.toNat? with
  | [some ch, some fg, some bg, some fl, some pg] => some ⟨ch, ⟨fg, bg, fl, pg⟩⟩
  | _ => none

def b36 (c : Char) : Option Nat :=
  if '0' ≤ c ∧ c ≤ '9' then some (c.toNat - '0'.toNat)
  else if 'a' ≤ c ∧ c ≤ 'z' then some (c.toNat - 'a'.toNat + 10)
  else none

def chunk (w : Nat) : Nat → List Cell → List (List Cell)
  | 0, _ => []
  | _, [] => []
  | fuel + 1, cs => cs.take w :: chunk w fuel (cs.drop w)

def iceOf : Nat → IceMode
  | 0 => .unlimited
  | 1 => .blink
  | _ => .ice

def iceNum : IceMode → Nat
  | .unlimited => 0
  | .blink => 1
  | .ice => 2

/-- synthetic glyph data, the same formula as `gen_font_data` in harness/src/c05.rs -/
def genFontData (h seed : Nat) : List Nat :=
  (List.range (256 * h)).map fun i => (i * 7 + (i / (max h 1)) * 31 + seed * 13 + (i % 5) * seed) % 256

def asciiBytes (s : String) : List Nat := s.toList.map Char.toNat

def sauceFontAt (i : Nat) : Option Font :=
  (BinFonts.sauceFonts[i]?).map fun e => ⟨e.1, e.2.1, e.2.2⟩

def parseFont (s : String) : Option (Nat × Font) :=
  match s.splitOn "." with
  | [slot, "d"] => slot.toNat?.map fun n => (n, defaultFont)
  | [slot, g] =>
    if g.startsWith "s" then
      match slot.toNat?, (g.drop 1).toString.toNat? with
      | some n, some i => (sauceFontAt i).map fun f => (n, f)
      | _, _ => none
    else none
  | [slot, g, seed] =>
    if g.startsWith "g" then
      match slot.toNat?, (g.drop 1).toString.toNat?, seed.toNat? with
      | some n, some h, some sd => some (n, ⟨asciiBytes s!"G{h}x{sd}", h, genFontData h sd⟩)
      | _, _, _ => none
    else none
  | _ => none

def parsePal (s : String) : Option (List Rgb) :=
  if s == "d" then some dosPalette
  else if s.startsWith "p" then
    let hx := (s.drop 1).toString
    (parseHex (if hx.isEmpty then "-" else hx)).map triples
  else none

/-- `Buffer::get_char` on the layer cell the harness set: an invisible cell of the opaque layer shows as the default cell -/
def viewCell (c : Cell) : Cell := if isVisible c then c else Cell.dflt

def parseMeta (s : String) : Option Sauce.Meta :=
  match s.splitOn "/" with
  | [t, a, g, c, f] =>
    let cs : Option (List (List Nat)) := if c == "-" then some [] else (c.splitOn ",").mapM parseHex
    match parseHex t, parseHex a, parseHex g, cs with
    | some t, some a, some g, some cs =>
      some { title := t, author := a, group := g, comments := cs, ar := f.toList.getD 0 '0' == '1', ls := f.toList.getD 1 '0' == '1' }
    | _, _, _, _ => none
  | _ => none

def parseCase8 (fmt ice w opts pal fonts alpha syms : String) (m : Option Sauce.Meta) : Option (Fmt × Opts × Pic) :=
    match parseFmt fmt, ice.toNat?, w.toNat?, opts.toNat?, parsePal pal, (alpha.splitOn ",").mapM parseCell with
    | some fmt, some ice, some w, some opts, some pal, some alpha =>
      if w = 0 then none else
      let fontList : Option (List (Nat × Font)) := if fonts == "-" then some [] else (fonts.splitOn ",").mapM parseFont
      let arr := alpha.toArray
      let cells : Option (List Cell) :=
        if syms == "*" then some alpha
        else syms.toList.mapM fun c => (b36 c).bind fun i => arr[i]?
      match fontList, cells with
      | some fl, some cs =>
        let cs := cs.map viewCell
        some (fmt, ⟨opts % 2 == 1, (opts / 2) % 2 == 1⟩,
          { w := w, h := cs.length / w, rows := chunk w cs.length cs, ice := iceOf ice, pal := pal, fonts := fl.reverse, sauce := m })
      | _, _ => none
    | _, _, _, _, _, _ => none

def parseCase (t : String) : Option (Fmt × Opts × Pic) :=
  match t.splitOn ":" with
  | [fmt, ice, w, opts, pal, fonts, alpha, syms] => parseCase8 fmt ice w opts pal fonts alpha syms none
  | [fmt, ice, w, opts, pal, fonts, alpha, syms, m] =>
    match parseMeta m with
    | some m => parseCase8 fmt ice w opts pal fonts alpha syms (some m)
    | none => none
  | _ => none

def maxArea : Nat := 60000

def maxRows : Nat := 4000

def isBig (b : LBuf) : Bool := b.bh < 0 || b.bw * b.bh.toNat > maxArea || b.bh.toNat > maxRows

def insertSortedFonts (e : Nat × Font) : List (Nat × Font) → List (Nat × Font)
  | [] => [e]
  | q :: qs => if e.1 < q.1 then e :: q :: qs else if e.1 = q.1 then q :: qs else q :: insertSortedFonts e qs

def digest (b : LBuf) : String :=
  let cells : String :=
    if isBig b then "big"
    else
      let h := (List.range b.bh.toNat).foldl
        (fun h y => (b.rowCells y).foldl (fun h c => [c.ch, c.attr.fg, c.attr.bg, c.attr.flags, c.attr.page].foldl fnvStep h) h)
        14695981039346656037
      toString h
  let pal := fnv (b.pal.flatMap fun c => [c.1, c.2.1, c.2.2])
  -- the font table is a map: first entry of a slot counts, printed by slot
  let fonts := b.fonts.foldl (fun acc e => insertSortedFonts e acc) []
  let fs := fonts.map fun e => s!"{e.1}.{e.2.height}.{fnv e.2.data}.{fnv e.2.name}"
  let sauce := match b.sauce with
    | none => "-"
    | some m =>
      toString (fnv (Sauce.strAppend Gen.Sauce.titleLen Gen.Sauce.titlePad m.title [] ++
        Sauce.strAppend Gen.Sauce.authorLen Gen.Sauce.authorPad m.author [] ++
        Sauce.strAppend Gen.Sauce.groupLen Gen.Sauce.groupPad m.group [] ++ [m.comments.length] ++
        m.comments.flatMap (fun c => Sauce.strAppend Gen.Sauce.commentLen Gen.Sauce.commentPad c []) ++
        [if m.ar then 1 else 0, if m.ls then 1 else 0]))
  s!"ok {b.bw} {b.bh} {b.lw} {b.lh} {b.lines.length} {iceNum b.ice} {cells} {b.pal.length} {pal} {if fs.isEmpty then "-" else ",".intercalate fs} {sauce}"

def bit (b : Bool) : String := if b then "1" else "0"

def optsOf (n : Nat) : Opts := ⟨n % 2 == 1, (n / 2) % 2 == 1⟩

def handle : List String → String
  | ["save", t, date] =>
    match parseCase t with
    | none => "bad-op"
    | some (f, o, p) =>
      match save f o (asciiBytes date) p with
      | .ok bs => toHex bs
      | .err => "err"
      | .panic => "panic"
  | ["saveh", t, date] =>
    match parseCase t with
    | none => "bad-op"
    | some (f, o, p) =>
      match save f o (asciiBytes date) p with
      | .ok bs => s!"{bs.length} {fnv bs}"
      | .err => "err"
      | .panic => "panic"
  | ["load", fmt, hx] =>
    match parseFmt fmt, parseHex hx with
    | some f, some bs =>
      (match fromBytes f bs with
       | .ok g => digest g
       | _ => "rej")
    | _, _ => "bad-op"
  | ["rt", t, date] =>
    match parseCase t with
    | none => "bad-op"
    | some (f, o, p) =>
      let rep := Representable f o p
      match save f o (asciiBytes date) p with
      | .ok bs =>
        (match fromBytes f bs with
         | .ok g => s!"rep={bit rep} save=ok load=ok same={bit (picSame true f p g)}"
         | _ => s!"rep={bit rep} save=ok load=rej same=0")
      | .err => s!"rep={bit rep} save=err load=- same=0"
      | .panic => s!"rep={bit rep} save=panic load=- same=0"
  | ["resave", fmt, opts, date, hx] =>
    match parseFmt fmt, opts.toNat?, parseHex hx with
    | some f, some o, some bs =>
      (match fromBytes f bs with
       | .ok g1 =>
         if isBig g1 then "big" else
         let p1 := g1.toPic
         (match save f (optsOf o) (asciiBytes date) p1 with
          | .ok b2 =>
            (match fromBytes f b2 with
             | .ok g2 => s!"{b2.length} {fnv b2} {digest g2} same={bit (picSame false f p1 g2)}"
             | _ => s!"{b2.length} {fnv b2} rej2")
          | .err => "save-err"
          | .panic => "save-panic")
       | _ => "rej")
    | _, _, _ => "bad-op"
  | ["fontname", h, hx] =>
    match h.toNat?, parseHex hx with
    | some h, some d => toHex (guessedName h d)
    | _, _ => "bad-op"
  | ["saucefont", hx] =>
    match parseHex hx with
    | some n => (match sauceFontByName n with
      | some f => s!"{f.height} {fnv f.data}"
      | none => "none")
    | none => "bad-op"
  | _ => "bad-op"

end IcyVerif.Drv.BinFormats
