import IcyVerif.Model.Igs
import IcyVerif.Drv.Util
/-! Line protocol for the IGS lexer model.
`igs lex <hex stream> <observed outcome letters>` → `<hash of per-character digests> <final digest> ok|bad@<i>`;
after every character up to `drainSteps` pending loop steps are taken, exactly as the harness does. -/
namespace IcyVerif.Drv.Igs
open IcyVerif.Igs IcyVerif.Drv

/-- must equal `IGS_DRAIN` in harness/src/c20.rs -/
def drainSteps : Nat := 24

def hInt (h : UInt64) (x : Int) : UInt64 := fnvStep h (x % 18446744073709551616).toNat
def hStr (h : UInt64) (s : List Nat) : UInt64 := s.foldl (fun h (c : Nat) => hInt h (c : Int)) (hInt h (s.length : Int))
def codes (s : String) : List Nat := s.toList.map Char.toNat

def stName : IState → String
  | .dflt => "Default"
  | .gotIgsStart => "GotIgsStart"
  | .readCommandStart => "ReadCommandStart"
  | .skipNewLine => "SkipNewLine"
  | .readCommand c => s!"ReadCommand({Gen.Igs.commandNames.getD c "?"})"

def loopName : LoopSt → String
  | .start => "Start"
  | .readCommand => "ReadCommand"
  | .readCount => "ReadCount"
  | .readParameter => "ReadParameter"

def digest (h : UInt64) (s : Igs) : UInt64 :=
  let h := hStr h (codes (stName s.st))
  let h := s.nums.foldl hInt (hInt h s.nums.length)
  let h := hStr h s.str
  let h := hStr h (codes (loopName s.loopSt))
  let h := hInt h s.loopCmd
  let h := s.loopParams.foldl (fun h g => g.foldl hStr (hInt h g.length)) (hInt h s.loopParams.length)
  let h := hInt h (if s.dc then 1 else 0)
  match s.cur with
  | some l => [1, l.i, l.from_, l.to, l.step, l.delay, (l.params.length : Int)].foldl hInt h
  | none => hInt h 0

def hex2 (n : Nat) : String := String.ofList [hexChar (n / 16 % 16), hexChar (n % 16)]
def strHex (s : List Nat) : String := if s.isEmpty then "-" else String.join (s.map hex2)

def digestText (s : Igs) : String :=
  let nums := "[" ++ ",".intercalate (s.nums.map toString) ++ "]"
  let lp := ":".intercalate (s.loopParams.map fun g => ",".intercalate (g.map strHex))
  let cur := match s.cur with
    | some l => s!"Some(({l.i},{l.from_},{l.to},{l.step},{l.delay},{l.params.length}))"
    | none => "None"
  s!"{stName s.st}/{nums}/{strHex s.str}/{loopName s.loopSt}/{s.loopCmd}/[{lp}]/{if s.dc then 1 else 0}/{cur}"

def agrees (o : Out) (c : Char) : Bool :=
  match o with
  | .noUpdate => c == 'n'
  | .update => c == 'u'
  | .err => c == 'e'
  | .exec _ _ _ => true
  | .fallback _ => true

def lexLoop : Igs → List (Nat × Char) → UInt64 → Nat → Option Nat → (UInt64 × Igs × Option Nat × Option String)
  | s, [], h, _, bad => (h, s, bad, none)
  | s, (ch, oc) :: rest, h, i, bad =>
    match step s ch with
    | .panic site => (h, s, bad, some s!"panic@{i}")
    | .ok s1 o =>
      let bad := match bad with | some b => some b | none => if agrees o oc then none else some i
      match drain drainSteps s1 with
      | .panic site => (h, s, bad, some s!"panic@{i}")
      | .ok s2 _ => lexLoop s2 rest (digest h s2) (i + 1) bad

def handle : List String → String
  | ["lex", hx, outs] =>
    match parseHex hx with
    | none => "bad-op"
    | some bs =>
      let os : List Char := if outs == "-" then [] else outs.toList
      if os.length ≠ bs.length then "bad-op" else
      let (h, s, bad, pan) := lexLoop Igs.init (bs.zip os) 14695981039346656037 0 none
      match pan with
      | some p => p
      | none =>
        let last := if bs.isEmpty then "-" else digestText s
        let verdict := match bad with | none => "ok" | some i => s!"bad@{i}"
        s!"{h} {last} {verdict}"
  | _ => "bad-op"

end IcyVerif.Drv.Igs
