import IcyVerif.Model.Crc
import IcyVerif.Model.CrcSites
import IcyVerif.Drv.Util
namespace IcyVerif.Drv.Crc
open IcyVerif.Crc IcyVerif.CrcSites IcyVerif.Drv

def bytes8 (bs : List Nat) : List (BitVec 8) := bs.map (BitVec.ofNat 8)

/-! ### call sites -/
def be (bs : List Nat) : Nat := bs.foldl (fun a b => a * 256 + b) 0

/-- 14 bytes per cell: ch (4, big endian), attr (2), fg (4), bg (4) -/
def cellsOf : Nat → List Nat → List Cell
  | 0, _ => []
  | fuel+1, bs =>
    if bs.length < 14 then [] else
    ⟨be (bs.take 4), be ((bs.drop 4).take 2), be ((bs.drop 6).take 4), be ((bs.drop 10).take 4)⟩ :: cellsOf fuel (bs.drop 14)
def rowsOf (w : Nat) : Nat → List Cell → Grid
  | 0, _ => []
  | fuel+1, cs => if cs.isEmpty || w = 0 then [] else cs.take w :: rowsOf w fuel (cs.drop w)

def csvInts (s : String) : Option (List Int) :=
  if s == "-" then some [] else (s.splitOn ",").mapM String.toInt?

def strHex (s : String) : String := toHex (s.toList.map Char.toNat)

def showRect : RectOut → String
  | .send s => "S" ++ strHex s
  | .seqError => "E seq"
  | .areaError pt pl pb pr => s!"E area pt:{pt} pl:{pl} pb:{pb} pr:{pr}"

def glyphTable (s : String) : Option GlyphTable :=
  (s.splitOn ",").mapM fun e =>
    if e == "_" then some none
    else if e == "=" then some (some [])
    else (parseHex e).map fun bs => some (bytes8 bs)

def hexVal (s : String) : Option Nat :=
  s.toList.foldl (fun acc c => match acc, hexDigit? c with | some a, some d => some (a * 16 + d) | _, _ => none) (some 0)
def rgbOf (s : String) : Option Rgb :=
  if s.length ≠ 6 then none else (hexVal s).map fun v => ⟨v / 65536 % 256, v / 256 % 256, v % 256⟩
def idxRgb (s : String) : Option (Nat × Rgb) :=
  match s.splitOn "." with
  | [i, c] => match i.toNat?, rgbOf c with
    | some i, some c => some (i, c)
    | _, _ => none
  | _ => none

def palStart (t : String) : Option Pal :=
  if t == "n" then some (Pal.fresh [])
  else if t == "d" then some (Pal.fresh dosDefault)
  else if t.startsWith "v" then (parseHex (t.drop 1).toString).map fun bs => Pal.fresh (triples bs)
  else none
def palOp (t : String) : Option PalOp :=
  let arg := (t.drop 1).toString
  if t == "c" then some .clear
  else if t == "f" then some .fill16
  else if t == "g" then some .getChecksum
  else if t == "k" then some .clone
  else if t.startsWith "p" then (rgbOf arg).map .push
  else if t.startsWith "i" then (rgbOf arg).map .insertColor
  else if t.startsWith "s" || t.startsWith "r" then (idxRgb arg).map fun x => .setColor x.1 x.2
  else if t.startsWith "z" then arg.toNat?.map .resize
  else none

def handle : List String → String
  | ["rect", tw, th, nums, cells] =>
    match tw.toInt?, th.toInt?, csvInts nums, parseHex cells with
    | some tw, some th, some nums, some bs =>
      let cs := cellsOf (bs.length / 14 + 1) bs
      showRect (decrqcra nums tw th (rowsOf tw.toNat (th.toNat + 1) cs))
    | _, _, _, _ => "bad-op"
  | ["font", len, table] =>
    match len.toInt?, glyphTable table with
    | some len, some t =>
      let bytes := fontBytes len t
      s!"{(fontChecksum len t).toNat} {(getCrc32 bytes ^^^ getCrc32 (List.replicate bytes.length 0)).toNat}"
    | _, _ => "bad-op"
  | ["pal", hist] =>
    match hist.splitOn "," with
    | [] => "bad-op"
    | start :: toks =>
      match palStart start, toks.mapM palOp with
      | some p, some ops =>
        let r := Pal.trace p ops
        let flat := r.1.colors.flatMap fun c => [c.r, c.g, c.b]
        " ".intercalate (r.2.map toString ++ [s!"|{r.1.colors.length}:{fnv flat}"])
      | _, _ => "bad-op"
  | ["16", h] => match parseHex h with
    | some bs => toString (getCrc16 (bytes8 bs)).toNat | none => "bad-op"
  | ["32", h] => match parseHex h with
    | some bs => toString (getCrc32 (bytes8 bs)).toNat | none => "bad-op"
  | ["b16", h] => match parseHex h with
    | some bs => toString (bitCrc16 (bytes8 bs)).toNat | none => "bad-op"
  | ["b32", h] => match parseHex h with
    | some bs => toString (bitCrc32 (bytes8 bs)).toNat | none => "bad-op"
  | ["inc16", h] => match parseHex h with
    | some bs => toString ((bytes8 bs).foldl updateCrc16 0).toNat | none => "bad-op"
  | ["inc32", h] => match parseHex h with
    | some bs => toString (~~~ ((bytes8 bs).foldl updateCrc32 0xFFFFFFFF#32)).toNat | none => "bad-op"
  | ["u16", c, b] => match c.toNat?, b.toNat? with
    | some c, some b => toString (updateCrc16 (BitVec.ofNat 16 c) (BitVec.ofNat 8 b)).toNat
    | _, _ => "bad-op"
  | ["u32", c, b] => match c.toNat?, b.toNat? with
    | some c, some b => toString (updateCrc32 (BitVec.ofNat 32 c) (BitVec.ofNat 8 b)).toNat
    | _, _ => "bad-op"
  -- all 256 bytes from one CRC-16 state, hashed
  | ["u16row", c] => match c.toNat? with
    | some c => toString (fnv ((List.range 256).map fun b => (updateCrc16 (BitVec.ofNat 16 c) (BitVec.ofNat 8 b)).toNat))
    | none => "bad-op"
  | _ => "bad-op"

end IcyVerif.Drv.Crc
