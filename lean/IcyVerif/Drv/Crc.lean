import IcyVerif.Model.Crc
import IcyVerif.Drv.Util
namespace IcyVerif.Drv.Crc
open IcyVerif.Crc IcyVerif.Drv

def bytes8 (bs : List Nat) : List (BitVec 8) := bs.map (BitVec.ofNat 8)

def handle : List String → String
  | ["16", h] => match parseHex h with
    | some bs => toString (getCrc16 (bytes8 bs)).toNat | none => "bad-op"
  | ["32", h] => match parseHex h with
    | some bs => toString (getCrc32 (bytes8 bs)).toNat | none => "bad-op"
  | ["b16", h] => match parseHex h with
    | some bs => toString (bitCrc16 (bytes8 bs)).toNat | none => "bad-op"
  | ["b32", h] => match parseHex h with
    | some bs => toString (bitCrc32 (bytes8 bs)).toNat | none => "bad-op"
  | ["inc16", h] => match parseHex h with
    | some bs => toString ((bytes8 bs).foldl updateCrc16 0).toNat | none => "bad-op"
  | ["inc32", h] => match parseHex h with
    | some bs => toString (~~~ ((bytes8 bs).foldl updateCrc32 0xFFFFFFFF#32)).toNat | none => "bad-op"
  | ["u16", c, b] => match c.toNat?, b.toNat? with
    | some c, some b => toString (updateCrc16 (BitVec.ofNat 16 c) (BitVec.ofNat 8 b)).toNat
    | _, _ => "bad-op"
  | ["u32", c, b] => match c.toNat?, b.toNat? with
    | some c, some b => toString (updateCrc32 (BitVec.ofNat 32 c) (BitVec.ofNat 8 b)).toNat
    | _, _ => "bad-op"
  -- all 256 bytes from one CRC-16 state, hashed
  | ["u16row", c] => match c.toNat? with
    | some c => toString (fnv ((List.range 256).map fun b => (updateCrc16 (BitVec.ofNat 16 c) (BitVec.ofNat 8 b)).toNat))
    | none => "bad-op"
  | _ => "bad-op"

end IcyVerif.Drv.Crc
