import IcyVerif.Model.FontLoad
import IcyVerif.Model.PalLoad
import IcyVerif.Drv.Util
/-! Line protocol for the font / palette loaders on arbitrary bytes (C02, C03) — requests start with `fontload`.

  font <hexr>            `BitFont::from_bytes`: `ok <w> <h> <length> <glyphs>` | `err` | `panic:<fn>`
  dcs <slot> <hexr>      the same bytes sent as `ESC P CTerm:Font:<slot>:<base64> ESC \` through the ANSI parser:
                         `ok <slot> <w> <h> <length> <glyphs>` | `err` | `panic:<fn>` (base64 / slot parsing: C17)
  cost <hexr>            loop counters of the model: `ok <glyph-loop iterations> <checksum iterations>` | `err` | `panic:<fn>`
  pal <fmt> <hexr>       `Palette::load_palette`: `ok <n> <fnv of r g b …>` | `err` | `panic:<fn>`
  imp <ext|-> <hexr>     `Palette::import_palette` of `p.<ext>` (`-`: a name without extension)

  hexr = hex pairs, a run is `xx(n)`, the empty string is `-`. -/
namespace IcyVerif.Drv.FontLoad
open IcyVerif.Bytes IcyVerif.FontLoad IcyVerif.PalLoad IcyVerif.Drv

def parseHexRGo : Nat → List Char → Array Nat → Option (Array Nat)
  | 0, _, _ => none
  | _, [], acc => some acc
  | _, [_], _ => none
  | fuel + 1, a :: b :: rest, acc =>
    match hexDigit? a, hexDigit? b with
    | some x, some y =>
      let v := x * 16 + y
      (match rest with
       | '(' :: r =>
         let ds := r.takeWhile (· != ')')
         let r' := (r.dropWhile (· != ')')).drop 1
         let n := ds.foldl (fun a c => a * 10 + (c.toNat - 48)) 0
         if ds.isEmpty ∨ !ds.all (fun c => '0' ≤ c ∧ c ≤ '9') ∨ n > 100000000 then none
         else parseHexRGo fuel r' (acc ++ Array.replicate n v)
       | _ => parseHexRGo fuel rest (acc.push v))
    | _, _ => none

def parseHexR (s : String) : Option Bytes :=
  if s == "-" then some #[] else parseHexRGo (s.length + 1) s.toList #[]

def showRes {α : Type} (f : α → String) : Res α → String
  | .ok a => f a
  | .err => "err"
  | .panic s => "panic:" ++ s

def showFont (f : Font) : String := s!"{f.w} {f.h} {f.length} {f.glyphs}"

def showColors (cs : List IcyVerif.Palette.Rgb) : String :=
  s!"ok {cs.length} {fnv (IcyVerif.Palette.asVec cs)}"

def handle : List String → String
  | ["font", hx] =>
    match parseHexR hx with
    | some d => showRes (fun f => "ok " ++ showFont f) (fontFromBytes d)
    | none => "bad-op"
  | ["dcs", slot, hx] =>
    match parseHexR hx with
    | some d => showRes (fun f => s!"ok {slot} " ++ showFont f) (fontFromBytes d)
    | none => "bad-op"
  | ["cost", hx] =>
    match parseHexR hx with
    | some d => showRes (fun f => s!"ok {f.iters} {f.cksum}") (fontFromBytes d)
    | none => "bad-op"
  | ["pal", fmt, hx] =>
    match fmtOfName fmt, parseHexR hx with
    | some f, some d => showRes showColors (palLoad f d.toList)
    | _, _ => "bad-op"
  | ["imp", ext, hx] =>
    match parseHexR hx with
    | some d => showRes showColors (palImport (if ext == "-" then none else some ext) d.toList)
    | none => "bad-op"
  | _ => "bad-op"

end IcyVerif.Drv.FontLoad
