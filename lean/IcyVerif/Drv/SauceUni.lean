import IcyVerif.Model.SauceUni
import IcyVerif.Drv.Util
/-! Line protocol for `Model/SauceUni.lean`: strings travel as hex of their UTF-8 bytes.
    `sauceuni from <len> <utf8>`  → bytes of `SauceString::<len, _>::from(s)`
    `sauceuni text <bytes>`       → UTF-8 of `to_string()` of a string holding these bytes
    `sauceuni rt <len> <pad> <utf8>` → UTF-8 of `to_string()` after `from` → `append_to` → `read` -/
namespace IcyVerif.Drv.SauceUni
open IcyVerif.Sauce IcyVerif.Drv

def utf8Decode : List Nat → List Nat → Option (List Nat)
  | [], acc => some acc.reverse
  | b :: rest, acc =>
    if b < 0x80 then utf8Decode rest (b :: acc)
    else if 0xC0 ≤ b ∧ b < 0xE0 then
      match rest with
      | c :: rest => utf8Decode rest (((b - 0xC0) * 64 + (c - 0x80)) :: acc)
      | _ => none
    else if 0xE0 ≤ b ∧ b < 0xF0 then
      match rest with
      | c :: d :: rest => utf8Decode rest (((b - 0xE0) * 4096 + (c - 0x80) * 64 + (d - 0x80)) :: acc)
      | _ => none
    else if 0xF0 ≤ b ∧ b < 0xF8 then
      match rest with
      | c :: d :: e :: rest => utf8Decode rest (((b - 0xF0) * 262144 + (c - 0x80) * 4096 + (d - 0x80) * 64 + (e - 0x80)) :: acc)
      | _ => none
    else none

def utf8Encode (c : Nat) : List Nat :=
  if c < 0x80 then [c]
  else if c < 0x800 then [0xC0 + c / 64, 0x80 + c % 64]
  else if c < 0x10000 then [0xE0 + c / 4096, 0x80 + c / 64 % 64, 0x80 + c % 64]
  else [0xF0 + c / 262144, 0x80 + c / 4096 % 64, 0x80 + c / 64 % 64, 0x80 + c % 64]

def encAll (cs : List Nat) : String := toHex (cs.flatMap utf8Encode)

def handle : List String → String
  | ["from", len, hx] => match len.toNat?, parseHex hx with
    | some len, some bs => (match utf8Decode bs [] with
      | some t => toHex (strFromUni len t)
      | none => "bad-utf8")
    | _, _ => "bad-op"
  | ["text", hx] => match parseHex hx with
    | some s => encAll (strTextUni s)
    | none => "bad-op"
  | ["rt", len, pad, hx] => match len.toNat?, pad.toNat?, parseHex hx with
    | some len, some pad, some bs => (match utf8Decode bs [] with
      | some t => (match strRead len pad (strAppend len pad (strFromUni len t) []) with
        | .ok r => encAll (strTextUni r)
        | .err _ => "err"
        | .panic _ => "panic")
      | none => "bad-utf8")
    | _, _, _ => "bad-op"
  | _ => "bad-op"

end IcyVerif.Drv.SauceUni
