import IcyVerif.Model.Comp
import IcyVerif.Drv.Util
/-! Line protocol of the compositing model (C13).

`comp get <isTerm> <x0> <y0> <x1> <y1> <nhb> {page ch upperIsFg lowerIsFg}* <nlayers> {layer}*`
  layer = `vis alpha mode offx offy w h dfltPage nrows {len {cell}*}*`, layers bottom first (Rust order)
  cell  = `-1` (AttributedChar::invisible()) | `ch fg bg flags page`
answers the cells of `getCharC` at every position of the rectangle, row by row, as `ch,fg,bg,flags,page`
(or `panic`), separated by blanks.  The half-block classifier is the table sampled from the implementation. -/
namespace IcyVerif.Drv.Comp
open IcyVerif.Comp IcyVerif.Drv

abbrev P (α : Type) := List Int → Option (α × List Int)

def int : P Int
  | [] => none
  | x :: xs => some (x, xs)

def nat : P Nat
  | [] => none
  | x :: xs => if x < 0 then none else some (x.toNat, xs)

def many {α : Type} (p : P α) : Nat → P (List α)
  | 0, xs => some ([], xs)
  | n+1, xs => match p xs with
    | none => none
    | some (a, xs) => match many p n xs with
      | none => none
      | some (as, xs) => some (a :: as, xs)

def cell : P Cell
  | [] => none
  | x :: xs =>
    if x == -1 then some (invisibleCell, xs) else
    match xs with
    | fg :: bg :: fl :: pg :: rest =>
      if x < 0 || fg < 0 || bg < 0 || fl < 0 || pg < 0 then none
      else some (⟨x.toNat, ⟨fg.toNat, bg.toNat, fl.toNat, pg.toNat⟩⟩, rest)
    | _ => none

def row : P (List Cell) := fun xs =>
  match nat xs with
  | none => none
  | some (n, xs) => many cell n xs

def mode? : Int → Option Mode
  | 0 => some .normal
  | 1 => some .chars
  | 2 => some .attributes
  | _ => none

def layer : P Layer
  | vis :: al :: m :: ox :: oy :: w :: h :: dp :: nr :: xs =>
    match mode? m with
    | none => none
    | some md =>
      if dp < 0 || nr < 0 then none else
      match many row nr.toNat xs with
      | none => none
      | some (rows, xs) => some (⟨vis != 0, al != 0, md, ox, oy, w, h, dp.toNat, rows⟩, xs)
  | _ => none

def hbEntry : P ((Nat × Nat) × (Bool × Bool))
  | pg :: ch :: u :: l :: xs =>
    if pg < 0 || ch < 0 then none else some (((pg.toNat, ch.toNat), (u != 0, l != 0)), xs)
  | _ => none

/-- classifier sampled from the implementation: per (font page, char) whether the upper / lower half is
    "mostly set" (then the half takes the foreground colour, else the background colour) -/
def hbOf (tbl : List ((Nat × Nat) × (Bool × Bool))) (c : Cell) : Nat × Nat :=
  match tbl.lookup (c.attr.page, c.ch) with
  | some (u, l) => (if u then c.attr.fg else c.attr.bg, if l then c.attr.fg else c.attr.bg)
  | none => (999999999, 999999999)

def showCell (c : Cell) : String :=
  toString c.ch ++ "," ++ toString c.attr.fg ++ "," ++ toString c.attr.bg ++ "," ++ toString c.attr.flags
    ++ "," ++ toString c.attr.page

def showRes : Option Cell → String
  | some c => showCell c
  | none => "panic"

def range (a b : Int) : List Int := (List.range (b - a + 1).toNat).map fun (i : Nat) => a + (i : Int)

def get (xs : List Int) : Option String :=
  match xs with
  | t :: x0 :: y0 :: x1 :: y1 :: nhb :: xs =>
    if nhb < 0 then none else
    match many hbEntry nhb.toNat xs with
    | none => none
    | some (tbl, xs) =>
      match nat xs with
      | none => none
      | some (nl, xs) =>
        match many layer nl xs with
        | some (stack, []) =>
          let hb := hbOf tbl
          let cells := (range y0 y1).flatMap fun y => (range x0 x1).map fun x =>
            showRes (getCharC hb (t != 0) stack x y)
          some (" ".intercalate cells)
        | _ => none
  | _ => none

def ints (ss : List String) : Option (List Int) := ss.mapM String.toInt?

def handle : List String → String
  | "get" :: rest => match ints rest with
    | some xs => (get xs).getD "bad-op"
    | none => "bad-op"
  | _ => "bad-op"

end IcyVerif.Drv.Comp
