import IcyVerif.Model.Comp
import IcyVerif.Model.CompHalf
import IcyVerif.Model.CompLayer
import IcyVerif.Drv.Util
/-! Line protocol of the compositing model (C13).

`comp get <isTerm> <x0> <y0> <x1> <y1> <nfonts> {bufferSlot ansiSlot}* <nlayers> {layer}*`
  layer = `vis alpha mode offx offy w h dfltPage nrows {len {cell}*}*`, layers bottom first (Rust order)
  cell  = `-1` (AttributedChar::invisible()) | `ch fg bg flags page`
answers the cells of `getCharC` at every position of the rectangle, row by row, as `ch,fg,bg,flags,page`
(or `panic`), separated by blanks.  The half-block classifier is the model of `HalfBlock::from` over the regenerated
bitmaps of the built-in fonts in the buffer's font table (`Model/CompHalf.lean`).

`comp ops <isTerm> <x0> <y0> <x1> <y1> <nfonts> {…}* <nlayers> {layer}* <nops> {layerIndex code a b}*`
  the layers start fresh (no preview, unlocked); code 0 = set_offset((a, b)), 1 = set_preview_offset(Some((a, b))),
  2 = set_preview_offset(None), 3 = properties.is_position_locked = (a != 0), 4 = properties.offset = (a, b);
answers the cells as above, then ` |` and per layer ` gx,gy;bx,by;(none|px,py)` = get_offset, get_base_offset,
get_preview_offset.

`comp solid <nfonts> {…}* <n> {t u}*` (full 5-integer cells) answers `make_solid_color(t, u)` per pair.
`comp pred <n> {cell}*` answers `is_visible is_transparent` (0/1) per cell.
`comp lget <layer> <x0> <y0> <x1> <y1>` answers `Layer::get_char` at every LAYER position of the rectangle.

(`hbEntry` / `hbOf`: the classifier as a table sampled from the implementation — used by C12's driver.) -/
namespace IcyVerif.Drv.Comp
open IcyVerif.Comp IcyVerif.Drv

abbrev P (α : Type) := List Int → Option (α × List Int)

def int : P Int
  | [] => none
  | x :: xs => some (x, xs)

def nat : P Nat
  | [] => none
  | x :: xs => if x < 0 then none else some (x.toNat, xs)

def many {α : Type} (p : P α) : Nat → P (List α)
  | 0, xs => some ([], xs)
  | n+1, xs => match p xs with
    | none => none
    | some (a, xs) => match many p n xs with
      | none => none
      | some (as, xs) => some (a :: as, xs)

def cell : P Cell
  | [] => none
  | x :: xs =>
    if x == -1 then some (invisibleCell, xs) else
    match xs with
    | fg :: bg :: fl :: pg :: rest =>
      if x < 0 || fg < 0 || bg < 0 || fl < 0 || pg < 0 then none
      else some (⟨x.toNat, ⟨fg.toNat, bg.toNat, fl.toNat, pg.toNat⟩⟩, rest)
    | _ => none

def row : P (List Cell) := fun xs =>
  match nat xs with
  | none => none
  | some (n, xs) => many cell n xs

def mode? : Int → Option Mode
  | 0 => some .normal
  | 1 => some .chars
  | 2 => some .attributes
  | _ => none

def layer : P Layer
  | vis :: al :: m :: ox :: oy :: w :: h :: dp :: nr :: xs =>
    match mode? m with
    | none => none
    | some md =>
      if dp < 0 || nr < 0 then none else
      match many row nr.toNat xs with
      | none => none
      | some (rows, xs) => some (⟨vis != 0, al != 0, md, ox, oy, w, h, dp.toNat, rows⟩, xs)
  | _ => none

def hbEntry : P ((Nat × Nat) × (Bool × Bool))
  | pg :: ch :: u :: l :: xs =>
    if pg < 0 || ch < 0 then none else some (((pg.toNat, ch.toNat), (u != 0, l != 0)), xs)
  | _ => none

/-- classifier sampled from the implementation: per (font page, char) whether the upper / lower half is
    "mostly set" (then the half takes the foreground colour, else the background colour) -/
def hbOf (tbl : List ((Nat × Nat) × (Bool × Bool))) (c : Cell) : Nat × Nat :=
  match tbl.lookup (c.attr.page, c.ch) with
  | some (u, l) => (if u then c.attr.fg else c.attr.bg, if l then c.attr.fg else c.attr.bg)
  | none => (999999999, 999999999)

def showCell (c : Cell) : String :=
  toString c.ch ++ "," ++ toString c.attr.fg ++ "," ++ toString c.attr.bg ++ "," ++ toString c.attr.flags
    ++ "," ++ toString c.attr.page

def showRes : Option Cell → String
  | some c => showCell c
  | none => "panic"

def range (a b : Int) : List Int := (List.range (b - a + 1).toNat).map fun (i : Nat) => a + (i : Int)

def slotPair : P (Nat × Nat)
  | a :: b :: xs => if a < 0 || b < 0 then none else some ((a.toNat, b.toNat), xs)
  | _ => none

/-- `<n> {item}*` -/
def countedOf {α : Type} (p : P α) : P (List α) := fun xs =>
  match nat xs with
  | none => none
  | some (n, xs) => many p n xs

/-- the font table of the buffer: every ANSI slot named must be one the translator regenerated -/
def fontsOk (slots : List (Nat × Nat)) : Bool := slots.all fun s => (ansiFont s.2).isSome

def get (xs : List Int) : Option String :=
  match xs with
  | t :: x0 :: y0 :: x1 :: y1 :: xs =>
    match countedOf slotPair xs with
    | none => none
    | some (slots, xs) =>
      if !fontsOk slots then none else
      match countedOf layer xs with
      | some (stack, []) =>
        let hb := halfBlockOf (fontTable slots)
        let cells := (range y0 y1).flatMap fun y => (range x0 x1).map fun x =>
          showRes (getCharC hb (t != 0) stack x y)
        some (" ".intercalate cells)
      | _ => none
  | _ => none

def lop : P (Nat × LOp)
  | i :: c :: a :: b :: xs =>
    if i < 0 then none else
    match c with
    | 0 => some ((i.toNat, .setOffset (a, b)), xs)
    | 1 => some ((i.toNat, .setPreview (some (a, b))), xs)
    | 2 => some ((i.toNat, .setPreview none), xs)
    | 3 => some ((i.toNat, .setLocked (a != 0)), xs)
    | 4 => some ((i.toNat, .assignOffset (a, b)), xs)
    | _ => none
  | _ => none

def showPos (p : Int × Int) : String := toString p.1 ++ "," ++ toString p.2

def showState (l : LayerS) : String :=
  showPos l.getOffset ++ ";" ++ showPos l.getBaseOffset ++ ";" ++
    (match l.getPreviewOffset with | some p => showPos p | none => "none")

def ops (xs : List Int) : Option String :=
  match xs with
  | t :: x0 :: y0 :: x1 :: y1 :: xs =>
    match countedOf slotPair xs with
    | none => none
    | some (slots, xs) =>
      if !fontsOk slots then none else
      match countedOf layer xs with
      | none => none
      | some (stack, xs) =>
        match countedOf lop xs with
        | some (os, []) =>
          if os.any (fun o => o.1 ≥ stack.length) then none else
          let hb := halfBlockOf (fontTable slots)
          let S := runStack (stack.map LayerS.fresh) os
          let cells := (range y0 y1).flatMap fun y => (range x0 x1).map fun x =>
            showRes (getCharSC hb (t != 0) S x y)
          some (" ".intercalate cells ++ " |" ++ String.join (S.map fun l => " " ++ showState l))
        | _ => none
  | _ => none

def fullCell : P Cell
  | ch :: fg :: bg :: fl :: pg :: rest =>
    if ch < 0 || fg < 0 || bg < 0 || fl < 0 || pg < 0 then none
    else some (⟨ch.toNat, ⟨fg.toNat, bg.toNat, fl.toNat, pg.toNat⟩⟩, rest)
  | _ => none

def cellPair : P (Cell × Cell) := fun xs =>
  match fullCell xs with
  | none => none
  | some (a, xs) => match fullCell xs with
    | none => none
    | some (b, xs) => some ((a, b), xs)

def solid (xs : List Int) : Option String :=
  match countedOf slotPair xs with
  | none => none
  | some (slots, xs) =>
    if !fontsOk slots then none else
    match countedOf cellPair xs with
    | some (ps, []) => some (" ".intercalate (ps.map fun p => showCell (makeSolidF (fontTable slots) p.1 p.2)))
    | _ => none

def bit (b : Bool) : String := if b then "1" else "0"

def pred (xs : List Int) : Option String :=
  match countedOf fullCell xs with
  | some (cs, []) => some (" ".intercalate (cs.map fun c => bit c.isVisible ++ bit c.isTransparent))
  | _ => none

def lget (xs : List Int) : Option String :=
  match layer xs with
  | some (l, [x0, y0, x1, y1]) =>
    some (" ".intercalate ((range y0 y1).flatMap fun y => (range x0 x1).map fun x => showCell (l.getChar x y)))
  | _ => none

def ints (ss : List String) : Option (List Int) := ss.mapM String.toInt?

def dispatch (f : List Int → Option String) (rest : List String) : String :=
  match ints rest with
  | some xs => (f xs).getD "bad-op"
  | none => "bad-op"

def handle : List String → String
  | "get" :: rest => dispatch get rest
  | "ops" :: rest => dispatch ops rest
  | "solid" :: rest => dispatch solid rest
  | "pred" :: rest => dispatch pred rest
  | "lget" :: rest => dispatch lget rest
  | _ => "bad-op"

end IcyVerif.Drv.Comp
