import IcyVerif.Model.UniMacro
import IcyVerif.Drv.Util
namespace IcyVerif.Drv.UniMacro
open IcyVerif.Uni IcyVerif.UniMacro IcyVerif.Drv

def parseItem (s : String) : Option Op :=
  if s == "ris" then some .ris
  else if s == "-" then some (.dcs [])
  else ((s.splitOn ",").mapM String.toNat?).map Op.dcs

def outName : StepOut → String
  | .ok => "ok" | .err => "err" | .other => "other" | .out => "out"

/-- `unimacro run <item>/<item>/…` → `<outcome>,<outcome>,… <id>=<hex of the stored bytes> …` (table sorted by id) -/
def handle : List String → String
  | ["run", items] =>
    match (items.splitOn "/").mapM parseItem with
    | some ops =>
      let (tbl, outs) := run [] ops
      ",".intercalate (outs.map outName) ++
        String.join (tbl.map fun (id, body) => s!" {id}={toHex (storedBytes body)}")
    | none => "bad-op"
  | _ => "bad-op"

end IcyVerif.Drv.UniMacro
