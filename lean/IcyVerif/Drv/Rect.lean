import IcyVerif.Model.RectCost
import IcyVerif.Drv.Util
/-! Line protocol for the rectangle-area control functions (C03) — requests start with `rect`.

  crc <tw> <th> <cellhex> <p1,…,pn>      DECRQCRA on a screen whose every cell is visible and contributes the bytes `cellhex`:
                                         `ok <pid> <crc as 4 hex digits>` | `err`
  fill <off> <lines> <tw> <th> <p1,…,pn> DECERA / DECSERA (`off` = 0) and DECFRA (`off` = 1): `ok <cells written>` | `err`

  parameters are the digit strings as sent (converted by the model of `parse_next_number`). -/
namespace IcyVerif.Drv.Rect
open IcyVerif.RectCost IcyVerif.Drv

def params? (s : String) : Option (List Int) :=
  if s == "-" then some [] else
  (s.splitOn ",").mapM fun t =>
    if t.isEmpty ∨ !t.toList.all (fun c => '0' ≤ c ∧ c ≤ '9') then none
    else some (paramOf (t.toList.map Char.toNat))

def hex4 (n : Nat) : String :=
  String.ofList ([n / 4096 % 16, n / 256 % 16, n / 16 % 16, n % 16].map fun d =>
    if d < 10 then Char.ofNat (48 + d) else Char.ofNat (55 + d))

def handle : List String → String
  | ["crc", tw, th, cell, ps] =>
    match tw.toInt?, th.toInt?, parseHex cell, params? ps with
    | some tw, some th, some cell, some nums =>
      if rqcraOk nums tw th then
        let n := rqcraCount nums tw th
        s!"ok {num nums 0} {hex4 (crcOfCells cell n 0).toNat}"
      else "err"
    | _, _, _, _ => "bad-op"
  | ["fill", off, lines, tw, th, ps] =>
    match off.toNat?, lines.toInt?, tw.toInt?, th.toInt?, params? ps with
    | some off, some lines, some tw, some th, some nums =>
      if nums.length == off + 4 && (off == 0 || fraCharOk nums) then s!"ok {rectCount nums off lines tw th}" else "err"
    | _, _, _, _, _ => "bad-op"
  | _ => "bad-op"

end IcyVerif.Drv.Rect
