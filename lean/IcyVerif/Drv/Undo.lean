import IcyVerif.Model.UndoApi
import IcyVerif.Drv.Util
/-! Line protocol for the editor/undo model (C08).

`undo run <spec>`   → the FNV hash of the model state before the first and after every step of the history
                      (`E`/`P` and stop when an undo/redo step returns Err/panics, `F` and stop when an edit fails,
                      `U` and stop at a step outside the modelled fragment)
`undo fails <spec>` → `F` when the LAST op of the history is an edit that does not succeed, `ok` otherwise

`<spec>` is the replay syntax of `harness/src/c08.rs`: `D,bw,bh,fontmode,fullfont,initfont;L,w,h,ox,oy,flags,rw,rh,seed;…;op,args;…`
(font operations carry the identity of the font as their last argument, `-1` = no such font).
Every public operation runs through `Call.steps` and `Ed.run` — the function the history theorems are about. -/
namespace IcyVerif.Drv.Undo
open IcyVerif.Undo IcyVerif.Drv IcyVerif.Gen.Undo

/-- the cell pattern of `c08.rs::pat` -/
def pat (seed : Nat) (x y : Nat) : Cell :=
  let v := (seed * 31 + x * 7 + y * 13) % 11
  if v < 3 then Cell.invisible else ⟨65 + (v + x + y) % 20, 0, (x + seed) % 16, (y + seed) % 8, 0⟩

def mkLayer (idx : Nat) (a : List Int) : LayerM :=
  let g (i : Nat) : Int := a.getD i 0
  let flags := (g 4).toNat
  let rw := (g 5).toNat
  let rh := (g 6).toNat
  let seed := (g 7).toNat
  { w := g 0, h := g 1,
    props := ⟨flags % 2 == 0, flags / 2 % 2 == 1, flags / 4 % 2 == 1, flags / 8 % 2 == 1, flags / 16 % 2 == 1, g 2, g 3,
      "L" ++ toString idx, 0⟩,
    lines := (List.range rh).map fun y => (List.range rw).map fun x => pat seed x y }

def parseTok (t : String) : String × List Int :=
  match t.splitOn "," with
  | [] => ("", [])
  | n :: rest => (n, rest.map fun s => (s.toInt?).getD 0)

def enc (v : Int) : Nat := (v % 4294967296).toNat

def layerFlags (l : LayerM) : Nat :=
  (if l.props.visible then 0 else 1) + (if l.props.locked then 2 else 0) + (if l.props.posLocked then 4 else 0)
    + (if l.props.hasAlpha then 8 else 0) + (if l.props.alphaLocked then 16 else 0)

/-- insertion sort of the font table by slot -/
def sortFonts (m : List (Nat × Nat)) : List (Nat × Nat) :=
  m.foldl (fun acc p => (acc.filter (·.1 < p.1)) ++ p :: (acc.filter (·.1 > p.1))) []

/-- the integers of `c08.rs::model_snap` -/
def snap (ed : Ed) : List Nat :=
  let d := ed.doc
  let head := [enc d.w, enc d.h, ed.undoStack.length, if ed.redoStack.isEmpty then 0 else 1, d.layers.length, enc d.caretX, enc d.caretY,
    d.fontPage, d.x.fontMode, d.x.iceMode, d.x.paletteMode, match d.x.sauce with
      | some k => k + 1
      | none => 0]
  let pal := d.x.palette.length :: d.x.palette
  let fonts := let f := sortFonts d.x.fonts; f.length :: f.foldr (fun p acc => p.1 :: p.2 :: acc) []
  let sel := match d.sel with
    | some s => [1, enc s.r.x, enc s.r.y, enc (s.r.x + s.r.w), enc (s.r.y + s.r.h), s.addType, if s.lines then 1 else 0]
    | none => [0]
  -- the selection mask as `get_is_mask_selected` shows it on the buffer plus a margin
  let mw := (min (max d.w 0) 40).toNat + 2
  let mh := (min (max d.h 0) 40).toNat + 2
  let mask := (List.range mh).foldr (fun (y : Nat) acc => (List.range mw).foldr (fun (x : Nat) acc => (if d.mask.get (x : Int) (y : Int) then 1 else 0) :: acc) acc) []
  let layers := d.layers.foldr (fun l acc =>
    [enc l.w, enc l.h, enc l.props.offX, enc l.props.offY, layerFlags l, l.props.role, l.props.title.utf8ByteSize]
      ++ l.props.title.toUTF8.toList.map (·.toNat) ++ [l.lines.length]
      ++ l.lines.foldr (fun r acc => r.length :: r.foldr (fun c acc => c.ch :: c.attr :: c.fg :: c.bg :: c.page :: acc) acc) acc) []
  head ++ pal ++ fonts ++ sel ++ mask ++ layers

def hash (ed : Ed) : String := toString (fnv (snap ed)).toNat

inductive Out
  | ok (ed : Ed)
  | editFail
  | stepFail (e : Err)
  | unmodelled

/-- runs the step list of a public operation through `Ed.run` — the function the framework theorem is about -/
def viaSteps (ed : Ed) (c : Call) : Out :=
  match ed.run 0 c.steps with
  | .ok ed' => .ok ed'
  | .error .editFailed => .editFail
  | .error (.undoFailed e) => .stepFail e
  | .error (.redoFailed e) => .stepFail e

/-- font identity argument: negative = the font does not exist -/
def fontArg (v : Int) : Option Nat := if v < 0 then none else some v.toNat

def step (ed : Ed) (name : String) (a : List Int) : Out :=
  let g (i : Nat) : Int := a.getD i 0
  let n (i : Nat) : Nat := (g i).toNat
  match name with
  | "u" => viaSteps ed .undo
  | "r" => viaSteps ed .redo
  | "ga" => viaSteps ed .beginAtomic
  | "ge" => viaSteps ed .endAtomic
  | "cl" => viaSteps ed (.setCurrentLayer (n 0))
  | "clp" => viaSteps ed .selectPasteLayer
  | "cp" => viaSteps ed (.setCaret (g 0) (g 1))
  | "ca" => .ok ed   -- the caret attribute is editor state the model does not carry
  | "mm" => viaSteps ed (.setMirror (g 0 != 0))
  | "al" => viaSteps ed (.addLayer (n 0))
  | "rl" => viaSteps ed (.removeLayer (n 0))
  | "ra" => viaSteps ed (.raiseLayer (n 0))
  | "lo" => viaSteps ed (.lowerLayer (n 0))
  | "du" => viaSteps ed (.duplicateLayer (n 0))
  | "cll" => viaSteps ed (.clearLayer (n 0))
  | "mg" => viaSteps ed (.mergeLayerDown (n 0))
  | "an" => viaSteps ed .anchorLayer
  | "tv" => viaSteps ed (.toggleVisibility (n 0))
  | "mv" => viaSteps ed (.moveLayer (g 0) (g 1))
  | "sls" => viaSteps ed (.setLayerSize (n 0) (g 1) (g 2))
  | "ulp" => viaSteps ed (.updateLayerProps (n 0) (n 1))
  | "rot" => viaSteps ed .rotateLayer
  | "mt" => viaSteps ed .makeTransparent
  | "st" => viaSteps ed .stampDown
  | "pa" => viaSteps ed (.paste (pasteLayer (n 0) (n 1) (g 2) (g 3) (pat (n 4))))
  | "afl" => viaSteps ed .addFloatingLayer
  | "rb" => viaSteps ed (.resizeBuffer (g 0) (g 1))
  | "rbl" => viaSteps ed (.resizeBufferLayers (g 0) (g 1))
  | "cr" => viaSteps ed .crop
  | "crr" => viaSteps ed (.cropRect ⟨g 0, g 1, g 2, g 3⟩)
  | "ss" => viaSteps ed (.setSelection ⟨⟨g 0, g 1, g 2, g 3⟩, 0, false⟩)
  | "ssa" => viaSteps ed (.setSelection ⟨⟨g 0, g 1, g 2, g 3⟩, if g 4 = 1 then 1 else if g 4 = 2 then 2 else 0, g 5 != 0⟩)
  | "cs" => viaSteps ed .clearSelection
  | "ds" => viaSteps ed .deselect
  | "asm" =>
    -- `Shape::Lines` selections are not interpreted by the model
    match ed.doc.sel with
    | some s => if s.lines then .unmodelled else viaSteps ed .addSelectionToMask
    | none => viaSteps ed .addSelectionToMask
  | "inv" => viaSteps ed .inverseSelection
  | "es" => viaSteps ed (.enumerateSelections (n 0))
  | "er" => viaSteps ed .eraseSelection
  | "erow" => viaSteps ed (.eraseLine 0)
  | "erows" => viaSteps ed (.eraseLine 1)
  | "erowe" => viaSteps ed (.eraseLine 2)
  | "ecol" => viaSteps ed (.eraseLine 3)
  | "ecols" => viaSteps ed (.eraseLine 4)
  | "ecole" => viaSteps ed (.eraseLine 5)
  | "dr" => viaSteps ed .deleteRow
  | "ir" => viaSteps ed .insertRow
  | "dc" => viaSteps ed .deleteColumn
  | "ic" => viaSteps ed .insertColumn
  | "sc" => viaSteps ed (.setChar (g 0) (g 1) ⟨n 2, n 6, n 3, n 4, n 5⟩)
  | "sci" => viaSteps ed (.setChar (g 0) (g 1) Cell.invisible)
  | "sw" => viaSteps ed (.swapChar (g 0) (g 1) (g 2) (g 3))
  | "fx" => viaSteps ed .flipX
  | "fy" => viaSteps ed .flipY
  | "jl" => viaSteps ed .justifyLeft
  | "jr" => viaSteps ed .justifyRight
  | "ce" => viaSteps ed .center
  | "jll" => viaSteps ed (.lineOp 0)
  | "jlr" => viaSteps ed (.lineOp 1)
  | "cel" => viaSteps ed (.lineOp 2)
  | "su" => viaSteps ed .scrollUp
  | "sd" => viaSteps ed .scrollDown
  | "sl" => viaSteps ed .scrollLeft
  | "sr" => viaSteps ed .scrollRight
  | "sfp" => viaSteps ed (.switchToFontPage (n 0))
  | "saf" => viaSteps ed (.setFont 0 (fontArg (a.getD 1 (-1))))
  | "ssf" => viaSteps ed (.setFont 1 (fontArg (a.getD 1 (-1))))
  | "sf" => viaSteps ed (.setFont 2 (fontArg (a.getD 1 (-1))))
  | "aaf" => viaSteps ed (.addFont (some (n 0)) (fontArg (a.getD 1 (-1))))
  | "af" => viaSteps ed (.addFont none (fontArg (a.getD 1 (-1))))
  | "rfu" => viaSteps ed (.replaceFontUsage (n 0) (n 1))
  | "cfs" => viaSteps ed (.changeFontSlot (n 0) (n 1))
  | "rmf" => viaSteps ed (.removeFont (n 0))
  | "ice" => viaSteps ed (.setIceMode (if g 0 = 1 then 1 else if g 0 = 2 then 2 else 0))
  | "pm" => viaSteps ed (.setPaletteMode (if g 0 = 1 then 1 else if g 0 = 2 then 2 else if g 0 = 3 then 3 else 0))
  | "cpd" => viaSteps ed .copyPaste
  | "spal" => viaSteps ed (.switchToPalette (dosDefaultPalette.set 1 ((n 0 % 256) * 65536 + 7 * 256 + 9)))
  | "usd" => viaSteps ed (.updateSauce (if g 0 = 0 then none else some (n 0)))
  | "ucp" => viaSteps ed .undoCaretPosition
  | "prv" => viaSteps ed (.pushReverseResize (g 0) (g 1))
  | _ => .unmodelled

def build (toks : List (String × List Int)) : Ed × List (String × List Int) :=
  let docTok := (toks.find? (·.1 == "D")).getD ("D", [])
  let layers := ((toks.filter (·.1 == "L")).zipIdx).map fun t => mkLayer t.2 t.1.2
  let ops := toks.filter fun t => t.1 != "D" && t.1 != "L" && t.1 != ""
  let bw : Int := max (docTok.2.getD 0 0) 0
  let bh : Int := max (docTok.2.getD 1 0) 0
  let fm := (docTok.2.getD 2 0).toNat
  ({ doc := { w := bw, h := bh, layers := layers, sel := none, caretX := 0, caretY := 0, cur := 0, mirror := false,
              x := { fonts := [(0, (docTok.2.getD 4 5000).toNat)], fontMode := if fm ≤ 3 then fm else 0, palette := dosDefaultPalette,
                     paletteMode := 1, iceMode := 0, sauce := none },
              mask := ⟨bw, bh, []⟩, fontPage := 0 },
     undoStack := [], redoStack := [], guards := [] }, ops)

def runOps (ed : Ed) (ops : List (String × List Int)) (acc : List String) : List String :=
  match ops with
  | [] => acc.reverse
  | (name, a) :: rest =>
    match step ed name a with
    | .ok ed' => runOps ed' rest (hash ed' :: acc)
    | .editFail => ("F" :: acc).reverse
    | .stepFail .err => ("E" :: acc).reverse
    | .stepFail .panic => ("P" :: acc).reverse
    | .unmodelled => ("U" :: acc).reverse

def lastFails (ed : Ed) (ops : List (String × List Int)) : String :=
  match ops with
  | [] => "ok"
  | [(name, a)] => match step ed name a with
    | .editFail => "F"
    | _ => "ok"
  | (name, a) :: rest => match step ed name a with
    | .ok ed' => lastFails ed' rest
    | _ => "prefix-failed"

def handle : List String → String
  | ["run", spec] =>
    let (ed, ops) := build ((spec.splitOn ";").map parseTok)
    " ".intercalate (runOps ed ops [hash ed])
  | ["fails", spec] =>
    let (ed, ops) := build ((spec.splitOn ";").map parseTok)
    lastFails ed ops
  | ["dump", spec] =>
    -- debugging aid: the snapshot integers after the last step that succeeded
    let (ed, ops) := build ((spec.splitOn ";").map parseTok)
    let rec go (ed : Ed) : List (String × List Int) → Ed
      | [] => ed
      | (name, a) :: rest => match step ed name a with
        | .ok ed' => go ed' rest
        | _ => ed
    natsToString (snap (go ed ops))
  | _ => "bad-op"

end IcyVerif.Drv.Undo
