import IcyVerif.Model.Undo
import IcyVerif.Drv.Util
/-! Line protocol for the editor/undo model (C08).

`undo run <spec>`   → the FNV hash of the model state before the first and after every step of the history
                      (`E`/`P` and stop when an undo/redo step returns Err/panics, `F` and stop when an edit fails,
                      `U` and stop at a step outside the modelled fragment)
`undo fails <spec>` → `F` when the LAST op of the history is an edit that does not succeed, `ok` otherwise

`<spec>` is the replay syntax of `harness/src/c08.rs`: `D,bw,bh,fontmode,fullfont;L,w,h,ox,oy,flags,rw,rh,seed;…;op,args;…`. -/
namespace IcyVerif.Drv.Undo
open IcyVerif.Undo IcyVerif.Drv

/-- the cell pattern of `c08.rs::pat` -/
def pat (seed : Nat) (x y : Nat) : Cell :=
  let v := (seed * 31 + x * 7 + y * 13) % 11
  if v < 3 then Cell.invisible else ⟨65 + (v + x + y) % 20, 0, (x + seed) % 16, (y + seed) % 8, 0⟩

def mkLayer (a : List Int) : LayerM :=
  let g (i : Nat) : Int := a.getD i 0
  let flags := (g 4).toNat
  let rw := (g 5).toNat
  let rh := (g 6).toNat
  let seed := (g 7).toNat
  { w := g 0, h := g 1,
    props := ⟨flags % 2 == 0, flags / 2 % 2 == 1, flags / 4 % 2 == 1, flags / 8 % 2 == 1, flags / 16 % 2 == 1, g 2, g 3⟩,
    lines := (List.range rh).map fun y => (List.range rw).map fun x => pat seed x y }

def parseTok (t : String) : String × List Int :=
  match t.splitOn "," with
  | [] => ("", [])
  | n :: rest => (n, rest.map fun s => (s.toInt?).getD 0)

def enc (v : Int) : Nat := (v % 4294967296).toNat

def layerFlags (l : LayerM) : Nat :=
  (if l.props.visible then 0 else 1) + (if l.props.locked then 2 else 0) + (if l.props.posLocked then 4 else 0)
    + (if l.props.hasAlpha then 8 else 0) + (if l.props.alphaLocked then 16 else 0)

/-- the integers of `c08.rs::model_snap` -/
def snap (ed : Ed) : List Nat :=
  let d := ed.doc
  let head := [enc d.w, enc d.h, ed.undoStack.length, if ed.redoStack.isEmpty then 0 else 1, d.layers.length, enc d.caretX, enc d.caretY]
  let sel := match d.sel with
    | some s => let r := s.asSelRect; [1, enc r.x, enc r.y, enc r.w, enc r.h]
    | none => [0]
  let layers := d.layers.foldr (fun l acc =>
    [enc l.w, enc l.h, enc l.props.offX, enc l.props.offY, layerFlags l, l.lines.length]
      ++ l.lines.foldr (fun r acc => r.length :: r.foldr (fun c acc => c.ch :: c.attr :: c.fg :: c.bg :: c.page :: acc) acc) acc) []
  head ++ sel ++ layers

def hash (ed : Ed) : String := toString (fnv (snap ed)).toNat

inductive Out
  | ok (ed : Ed)
  | editFail
  | stepFail (e : Err)
  | unmodelled

def ofEdit (r : Except Err Ed) : Out :=
  match r with
  | .ok ed => .ok ed
  | .error _ => .editFail

/-- runs the step list of a modelled public operation through `Ed.run` — the function the framework theorem is about -/
def viaSteps (ed : Ed) (c : Call) : Out :=
  match ed.run 0 c.steps with
  | .ok ed' => .ok ed'
  | .error .editFailed => .editFail
  | .error (.undoFailed e) => .stepFail e
  | .error (.redoFailed e) => .stepFail e

def step (ed : Ed) (name : String) (a : List Int) : Out :=
  let g (i : Nat) : Int := a.getD i 0
  let n (i : Nat) : Nat := (g i).toNat
  match name with
  | "u" => viaSteps ed .undo
  | "r" => viaSteps ed .redo
  | "ga" => viaSteps ed .beginAtomic
  | "ge" => viaSteps ed .endAtomic
  | "cl" => viaSteps ed (.setCurrentLayer (n 0))
  | "cp" => viaSteps ed (.setCaret (g 0) (g 1))
  | "mm" => viaSteps ed (.setMirror (g 0 != 0))
  | "al" => viaSteps ed (.addLayer (n 0))
  | "rl" => viaSteps ed (.removeLayer (n 0))
  | "ra" => viaSteps ed (.raiseLayer (n 0))
  | "lo" => viaSteps ed (.lowerLayer (n 0))
  | "du" => viaSteps ed (.duplicateLayer (n 0))
  | "cll" => viaSteps ed (.clearLayer (n 0))
  | "tv" => viaSteps ed (.toggleVisibility (n 0))
  | "mv" => viaSteps ed (.moveLayer (g 0) (g 1))
  | "sls" => viaSteps ed (.setLayerSize (n 0) (g 1) (g 2))
  | "rb" => viaSteps ed (.resizeBuffer (g 0) (g 1))
  | "rbl" => viaSteps ed (.resizeBufferLayers (g 0) (g 1))
  | "cr" => viaSteps ed .crop
  | "crr" => viaSteps ed (.cropRect ⟨g 0, g 1, g 2, g 3⟩)
  | "ss" => viaSteps ed (.setSelection ⟨g 0, g 1, g 2, g 3⟩)
  | "cs" => viaSteps ed .clearSelection
  | "ds" => viaSteps ed .deselect
  | "dr" => viaSteps ed .deleteRow
  | "ir" => viaSteps ed .insertRow
  | "dc" => viaSteps ed .deleteColumn
  | "ic" => viaSteps ed .insertColumn
  -- operations outside the always-good fragment: direct transcriptions
  | "sc" => ofEdit (apiSetChar ed (g 0) (g 1) ⟨n 2, 0, n 3, n 4, 0⟩)
  | "sci" => ofEdit (apiSetChar ed (g 0) (g 1) Cell.invisible)
  | "sw" => ofEdit (apiSwapChar ed (g 0) (g 1) (g 2) (g 3))
  | "fx" => ofEdit (apiFlipX ed)
  | "fy" => ofEdit (apiFlipY ed)
  | "mt" => ofEdit (apiMakeTransparent ed)
  | "su" => match apiScroll ed true with
    | some r => ofEdit r
    | none => .unmodelled
  | "sd" => match apiScroll ed false with
    | some r => ofEdit r
    | none => .unmodelled
  | _ => .unmodelled

def build (toks : List (String × List Int)) : Ed × List (String × List Int) :=
  let docTok := (toks.find? (·.1 == "D")).getD ("D", [])
  let layers := (toks.filter (·.1 == "L")).map fun t => mkLayer t.2
  let ops := toks.filter fun t => t.1 != "D" && t.1 != "L" && t.1 != ""
  ({ doc := { w := docTok.2.getD 0 0, h := docTok.2.getD 1 0, layers := layers, sel := none, caretX := 0, caretY := 0, cur := 0, mirror := false },
     undoStack := [], redoStack := [], guards := [] }, ops)

def runOps (ed : Ed) (ops : List (String × List Int)) (acc : List String) : List String :=
  match ops with
  | [] => acc.reverse
  | (name, a) :: rest =>
    match step ed name a with
    | .ok ed' => runOps ed' rest (hash ed' :: acc)
    | .editFail => ("F" :: acc).reverse
    | .stepFail .err => ("E" :: acc).reverse
    | .stepFail .panic => ("P" :: acc).reverse
    | .unmodelled => ("U" :: acc).reverse

def lastFails (ed : Ed) (ops : List (String × List Int)) : String :=
  match ops with
  | [] => "ok"
  | [(name, a)] => match step ed name a with
    | .editFail => "F"
    | _ => "ok"
  | (name, a) :: rest => match step ed name a with
    | .ok ed' => lastFails ed' rest
    | _ => "prefix-failed"

def handle : List String → String
  | ["run", spec] =>
    let (ed, ops) := build ((spec.splitOn ";").map parseTok)
    " ".intercalate (runOps ed ops [hash ed])
  | ["fails", spec] =>
    let (ed, ops) := build ((spec.splitOn ";").map parseTok)
    lastFails ed ops
  | _ => "bad-op"

end IcyVerif.Drv.Undo
