import IcyVerif.Model.BgiOps
import IcyVerif.Model.BgiFill
import IcyVerif.Model.BgiShapes
import IcyVerif.Drv.Util
/-! Line protocol for the BGI core model: `bgi run <op;op;…>` with `op = name,arg,…` replays the calls on
`Bgi.new` and answers the values read by `gp` and the final state (canvas hash first), or `panic@<n>`. -/
namespace IcyVerif.Drv.Bgi
open IcyVerif.Bgi IcyVerif.Drv

/-- one multiply per pixel (the 8-bytes-per-value `fnv` of Util is too slow for 224000 pixels per case) -/
def canvasHash (a : Array Nat) : UInt64 :=
  a.foldl (fun h v => (h ^^^ UInt64.ofNat (v % 256)) * 1099511628211) 14695981039346656037

def stateLine (s : Bgi) : String :=
  s!"{canvasHash s.screen} vp={s.vp.x},{s.vp.y},{s.vp.w},{s.vp.h} cp={s.cur.1},{s.cur.2} c={s.color} bk={s.bk} " ++
  s!"fc={s.fillColor} fs={s.fillStyle} wm={s.writeMode} lt={s.thickness} lp={s.linePat} pal={s.palLen}"

/-- an i64 argument reduced to i32 the way `as i32` does -/
def toI32 (v : Int) : Int :=
  let m := v % 4294967296
  if m ≥ 2147483648 then m - 4294967296 else m

def u8 (v : Int) : Nat := (v % 256).toNat

inductive R where
  | st (s : Bgi)
  | val (s : Bgi) (v : Nat)
  | panic
  | stall

/-- request name and arguments → a call of the model (`gp` reads a pixel, everything else is an `Op`) -/
def toOp (name : String) (a : List Int) : Option Op :=
  let g (i : Nat) : Int := a.getD i 0
  match name with
  | "vp" => some (.setViewport (g 0) (g 1) (g 2) (g 3))
  | "wm" => some (.setWriteMode (u8 (g 0)))
  | "fs" => some (.setFillStyle (u8 (g 0)))
  | "fc" => some (.setFillColor (u8 (g 0)))
  | "co" => some (.setColor (u8 (g 0)))
  | "bk" => some (.setBkColor (u8 (g 0)))
  | "up" => some (.setUserFillPattern (a.map u8))
  | "ls" => some (.setLineStyle (u8 (g 0)))
  | "lt" => some (.setLineThickness (g 0))
  | "lp" => some (.setLinePattern (g 0))
  | "pp" => some (.putPixel (g 0) (g 1) (u8 (g 2)))
  | "bar" => some (.bar (g 0) (g 1) (g 2) (g 3))
  | "br" => some (.barRect ⟨g 0, g 1, g 2, g 3⟩)
  | "cv" => some .clearViewport
  | "pal" => some (.setPalette a)
  | "pc" => if g 0 < 0 then none else some (.setPaletteColor (g 0).toNat (u8 (g 1)))
  | "gd" => some .graphDefaults
  | "ln" => some (.line (g 0) (g 1) (g 2) (g 3))
  | _ => none

def exec (s : Bgi) (name : String) (a : List Int) : R :=
  if name == "gp" then
    match getPixel s (a.getD 0 0) (a.getD 1 0) with | some v => .val s v | none => .panic
  else if name == "pc" && a.getD 0 0 < 0 then .panic
  else if name == "rc" then
    match rectangle s (a.getD 0 0) (a.getD 1 0) (a.getD 2 0) (a.getD 3 0) with | some s' => .st s' | none => .panic
  else if name == "ff" then
    match floodFill s (a.getD 0 0) (a.getD 1 0) (u8 (a.getD 2 0)) with
    | .ok (s', _, _) => .st s'
    | .panic => .panic
    | .stall => .stall
  else match toOp name a with
    | none => .st s
    | some op => match applyOp s op with | some s' => .st s' | none => .panic

def parseOp (op : String) : String × List Int :=
  match op.splitOn "," with
  | [] => ("", [])
  | n :: rest => (n, rest.map fun t => toI32 (t.toInt?.getD 0))

def runOps : Bgi → List String → Nat → List String → List String
  | s, [], _, acc => (stateLine s :: acc).reverse
  | s, op :: rest, n, acc =>
    if op.isEmpty then runOps s rest (n + 1) acc else
    let (name, a) := parseOp op
    match exec s name a with
    | .st s' => runOps s' rest (n + 1) acc
    | .val s' v => runOps s' rest (n + 1) (toString v :: acc)
    | .panic => (s!"panic@{n}" :: acc).reverse
    | .stall => (s!"stall@{n}" :: acc).reverse

def handle : List String → String
  | ["run", ops] => " | ".intercalate (runOps Bgi.new (ops.splitOn ";") 0 [])
  | _ => "bad-op"

end IcyVerif.Drv.Bgi
