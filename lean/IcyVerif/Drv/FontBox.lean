import IcyVerif.Model.FontBox
import IcyVerif.Drv.BinFormats
import IcyVerif.Drv.Font
/-! Line protocol for the container cases of C17 (`fontbox …`).

  file <fmt> <opts> <date> <ice> <pal> <w> <cells> <fonts>
      fmt = xb | adf | idf; opts bit0 = SAUCE, bit1 = compress; date = the 8 date characters of the SAUCE record (`-` without);
      ice = 0 | 1 | 2; pal = `d` | 48 hex bytes (16 colours); cells = `ch.fg.bg.flags.page,…` (row-major);
      fonts = `slot.<name hex>.<glyphs>.<height>.<glyph bytes hex>,…`
      answer: `save=<len>:<fnv> blocks=?` (ADF / IDF file with a font block that is not 4096 bytes long) or
              `save=<len>:<fnv> blocks=<slot>@<offset>+<len>,… at=<1|0 per block: the bytes there are the font data>
               load=<slot>.<height>.<fnv of data>,… rt=<1|0 per block: block i comes back as loaded font i, glyph for glyph>`
              or `save=err|panic`, `… load=rej`
  icy <sauce> <pal> <layers> <fonts>
      the chunk keywords of the document in file order (FONT_n by slot), length and hash of every FONT_n payload, and
      whether each slot is read back (C07's `decodeDoc` with the PSF2 codec) as the font that was written -/
namespace IcyVerif.Drv.FontBox
open IcyVerif.Font IcyVerif.FontBox IcyVerif.BinFormats IcyVerif.XbCompress IcyVerif.Drv IcyVerif.Gen

structure InFont where
  slot : Nat
  name : List Nat
  n : Nat
  h : Nat
  data : List Nat

def parseInFont (s : String) : Option InFont :=
  match s.splitOn "." with
  | [slot, name, n, h, hx] =>
    match slot.toNat?, parseHex name, n.toNat?, h.toNat?, parseHex hx with
    | some slot, some name, some n, some h, some d => some ⟨slot, name, n, h, d⟩
    | _, _, _, _, _ => none
  | _ => none

def parseFonts (s : String) : Option (List InFont) :=
  if s == "-" then some [] else (s.splitOn ",").mapM parseInFont

/-- the font as `Model/Font.lean` sees it (`BitFont::create_8(name, 8, h, data)`) -/
def InFont.bit (f : InFont) : BitFont := IcyVerif.Drv.Font.mkFontHex f.n f.h f.data

def bits (l : List Bool) : String := if l.isEmpty then "-" else String.ofList (l.map fun b => if b then '1' else '0')

def blockStr (bs : List (Nat × Nat × Nat)) : String :=
  if bs.isEmpty then "-" else ",".intercalate (bs.map fun b => s!"{b.1}@{b.2.1}+{b.2.2}")

def sortedFonts (fs : List (Nat × BinFormats.Font)) : List (Nat × BinFormats.Font) :=
  fs.foldl (fun acc e => IcyVerif.Drv.BinFormats.insertSortedFonts e acc) []

def fileCase (fmt opts date ice pal w cells fonts : String) : String :=
  match IcyVerif.Drv.BinFormats.parseFmt fmt, opts.toNat?, ice.toNat?, IcyVerif.Drv.BinFormats.parsePal pal, w.toNat?,
      (cells.splitOn ",").mapM IcyVerif.Drv.BinFormats.parseCell, parseFonts fonts with
  | some f, some o, some ice, some pal, some w, some cs, some fs =>
    if w = 0 then "bad-op" else
    let o : Opts := IcyVerif.Drv.BinFormats.optsOf o
    let boxed := fs.filterMap fun i => (boxFont i.name i.bit).map fun b => (i.slot, b)
    let cs := cs.map IcyVerif.Drv.BinFormats.viewCell
    let p : Pic := { w := w, h := cs.length / w, rows := IcyVerif.Drv.BinFormats.chunk w cs.length cs,
                     ice := IcyVerif.Drv.BinFormats.iceOf ice, pal := pal, fonts := boxed.reverse }
    let d := if date == "-" then [] else IcyVerif.Drv.BinFormats.asciiBytes date
    match save f o d p with
    | .err => "save=err"
    | .panic => "save=panic"
    | .ok bytes =>
      let blocks := fontBlocks f o p
      -- ADF / IDF: the format's font block has 4096 bytes; a writer that embedded something else (findings
      -- `adf_font_height_of_slot0` / `idf_font_height_of_slot0`) wrote no file of the format: only length and hash are compared
      let fixedBlock := match f with
        | .adf => true
        | .idf => true
        | _ => false
      if fixedBlock && blocks.any (fun b => b.2.2 != BinFmt.adfFontSize) then s!"save={bytes.length}:{fnv bytes} blocks=?" else
      let at_ := blocks.map fun b =>
        match lookupFont p.fonts b.1 with
        | some font => (bytes.drop b.2.1).take b.2.2 == font.data
        | none => false
      let head := s!"save={bytes.length}:{fnv bytes} blocks={blockStr blocks} at={bits at_}"
      match fromBytes f bytes with
      | .ok g =>
        let lf := sortedFonts g.fonts
        let ls := lf.map fun e => s!"{e.1}.{e.2.height}.{fnv e.2.data}"
        let rt := blocks.zipIdx.map fun bi =>
          match (fs.find? fun i => i.slot == bi.1.1), lf[bi.2]? with
          | some i, some e => decide (unboxFont e.2 = i.bit)
          | _, _ => false
        s!"{head} load={if ls.isEmpty then "-" else ",".intercalate ls} rt={bits rt}"
      | _ => s!"{head} load=rej"
  | _, _, _, _, _, _, _ => "bad-op"

def keyStr : IcyDraw.Key → String
  | .iced => "ICED"
  | .sauce => "SAUCE"
  | .palette => "PALETTE"
  | .font n => s!"FONT_{n}"
  | .fontBad => "FONT_?"
  | .layer n => s!"LAYER_{n}"
  | .layerCont n k => s!"LAYER_{n}~{k}"
  | .end_ => "END"
  | .other => "?"

def isLayerKey : IcyDraw.Key → Bool
  | .layer _ => true
  | .layerCont _ _ => true
  | _ => false

def drvCodecs : IcyDraw.Codecs IcyFont Unit :=
  icyCodecs (fun _ => []) (fun _ => .ok []) (fun _ => .ok none) ⟨[], IcyVerif.Drv.Font.mkFontHex 256 0 []⟩

def icyCase (sauce pal layers fonts : String) : String :=
  match sauce.toNat?, layers.toNat?, parseFonts fonts with
  | some sauce, some nl, some fs =>
    let d : IcyDraw.Doc IcyFont Unit :=
      { hdr := ⟨1, 0, 1, 1, 80, 25⟩, sauce := if sauce = 1 then some ((), []) else none,
        palette := if pal == "d" then IcyVerif.Gen.Icy.dosDefaultPalette else [(1, 2, 3)],
        fonts := fs.map fun (i : InFont) => (i.slot, (⟨i.name, i.bit⟩ : IcyFont)), layers := [] }
    let chunks := IcyDraw.assemble drvCodecs d (List.replicate nl [[]])
    let keys := ",".intercalate (chunks.map fun c => keyStr c.1)
    let fstr := chunks.filterMap fun c => match c.1 with
      | .font n => some s!"{n}:{c.2.length}:{fnv c.2}"
      | _ => none
    let back := match IcyDraw.decodeDoc drvCodecs (chunks.filter fun c => !isLayerKey c.1) with
      | .ok st => bits (fs.map fun (i : InFont) => decide (st.fontAt i.slot = some (⟨i.name, i.bit⟩ : IcyFont)))
      | .fail _ => "rej"
    s!"keys={keys} fonts={if fstr.isEmpty then "-" else ",".intercalate fstr} load={back}"
  | _, _, _ => "bad-op"

def handle : List String → String
  | ["file", fmt, opts, date, ice, pal, w, cells, fonts] => fileCase fmt opts date ice pal w cells fonts
  | ["icy", sauce, pal, layers, fonts] => icyCase sauce pal layers fonts
  | _ => "bad-op"

end IcyVerif.Drv.FontBox
