import IcyVerif.Model.ArtWriters
import IcyVerif.Model.ArtAnsiX
import IcyVerif.Drv.Util
/-! Line protocol of the art reader / writer models (C15, C04).

`artio write <fmt> <prep> <pic>`            bytes the writer model produces (hex), or `err` / `panic`
`artio writex ans <opts> <maxlen> <skip> <slots> <pages> <pic>`   the whole ANSI writer (`writeAnsiX`): maxlen = `-` | n
   (`output_line_length`); skip = `-` | `e` | `y,y,…` (`skip_lines`); slots = `-` | `slot=page,slot=x,…` (the occupied font
   slots with the first ANSI font page of equal checksum, `x` = none); pages = `-` | rows joined by `/`, a row is `e` or
   `n*page,page,…` (font page of every cell)
`artio load <fmt> <sauce> <hex>`            the picture the reader model loads
   fmt   = asc | pcb | an1 | msg | avt | ata | ans
   prep  = 0 none | 1 clear screen | 2 home
   pic   = `w h ice nextra {r g b}* nrows {len {ch fg bg flags}*}*` (ice: 0 blink, 1 ice, 2 unlimited;
           nextra = 100000 + n: the n colours are the whole palette)
   sauce = `-` | `w,h,ice`
answer of `load`: `<w> <h> <ice> <stuck> <rows> <palette tail>`; rows = `h;row;row…`, each row trimmed of trailing
cells that are blank, default-coloured and flag-free, cells `ch.fg.bg.flags` (INVISIBLE bit cleared), runs `n*cell`;
palette tail = colours from index 16 on as `rrggbb` joined by `.` (or `-`). -/
namespace IcyVerif.Drv.ArtIO
open IcyVerif.ArtIO IcyVerif.Drv IcyVerif.Gen.Art

def flagsOfNat (n : Nat) : Flags :=
  { bold := n / bitBold % 2 == 1, faint := n / bitFaint % 2 == 1, italic := n / bitItalic % 2 == 1,
    blink := n / bitBlink % 2 == 1, underline := n / bitUnderline % 2 == 1,
    dunderline := n / bitDoubleUnderline % 2 == 1, conceal := n / bitConceal % 2 == 1,
    crossed := n / bitCrossedOut % 2 == 1, overline := n / bitOverline % 2 == 1,
    invisible := n / bitInvisible % 2 == 1 }

def flagsToNat (f : Flags) : Nat :=
  (if f.bold then bitBold else 0) + (if f.faint then bitFaint else 0) + (if f.italic then bitItalic else 0) +
  (if f.blink then bitBlink else 0) + (if f.underline then bitUnderline else 0) +
  (if f.dunderline then bitDoubleUnderline else 0) + (if f.conceal then bitConceal else 0) +
  (if f.crossed then bitCrossedOut else 0) + (if f.overline then bitOverline else 0) +
  (if f.invisible then bitInvisible else 0)

def iceOfNat : Nat → IceMode
  | 0 => .blink
  | 1 => .ice
  | _ => .unlimited

def iceToNat : IceMode → Nat
  | .blink => 0
  | .ice => 1
  | .unlimited => 2

def fmtOf : String → Option Fmt
  | "asc" => some .ascii
  | "pcb" => some .pcboard
  | "an1" => some .renegade
  | "msg" => some .ctrla
  | "avt" => some .avatar
  | "ata" => some .atascii
  | "ans" => some .ansi
  | _ => none

def prepOf : Nat → Prep
  | 1 => .clear
  | 2 => .home
  | _ => .none

abbrev P (α : Type) := List Nat → Option (α × List Nat)

def nat : P Nat
  | [] => none
  | x :: xs => some (x, xs)

def many {α : Type} (p : P α) : Nat → P (List α)
  | 0, xs => some ([], xs)
  | n + 1, xs => match p xs with
    | none => none
    | some (a, xs) => match many p n xs with
      | none => none
      | some (as, xs) => some (a :: as, xs)

def cell : P Cell
  | ch :: fg :: bg :: fl :: xs => some (⟨ch, ⟨fg, bg, flagsOfNat fl⟩⟩, xs)
  | _ => none

def rgb : P Rgb
  | r :: g :: b :: xs => some ((r, g, b), xs)
  | _ => none

def row : P (List Cell) := fun xs =>
  match nat xs with
  | none => none
  | some (n, xs) => many cell n xs

/-- `w h ice nextra {r g b}* nrows {len {cell}*}*`; rows are padded with empty rows up to `h` and cut at `w` cells.
    `nextra = 100000 + n`: the `n` colours are the WHOLE palette (a custom base palette), not an extension of the DOS one -/
def pic : P Pic
  | w :: h :: ice :: nex :: xs =>
    match many rgb (if 100000 ≤ nex then nex - 100000 else nex) xs with
    | none => none
    | some (extra, xs) =>
      match nat xs with
      | none => none
      | some (nr, xs) =>
        match many row nr xs with
        | none => none
        | some (rows, xs) =>
          let rows := (rows.map (·.take w)).take h
          let rows := rows ++ List.replicate (h - rows.length) []
          some ({ w := w, rows := rows, ice := iceOfNat ice, pal := if 100000 ≤ nex then extra else dosPalette ++ extra }, xs)
  | _ => none

def showOut : WOut → String
  | .ok b => toHex b
  | .err => "err"
  | .panic => "panic"

def writeFmt (f : Fmt) (prep : Prep) (p : Pic) : WOut :=
  match f with
  | .ascii => writeAscii p
  | .pcboard => writePcb prep p
  | .renegade => writeRenegade p
  | .ctrla => writeCtrlA prep p
  | .avatar => writeAvatar prep p
  | .atascii => writeAtascii true p
  | .ansi => .err

/-- ANSI save options packed by the harness: `prep + 3*ctrl + 9*(compress | cuf<<1 | rep<<2 | preserve<<3 | longer<<4 | ext<<5)` -/
def ansiOptsOf (n : Nat) : AnsiOpts :=
  let bits := n / 9
  { prep := prepOf (n % 3),
    ctrl := (match n / 3 % 3 with | 1 => .icyTerm | 2 => .filterOut | _ => .ignore),
    compress := bits % 2 == 1, useCursorForward := bits / 2 % 2 == 1, useRepeatSequences := bits / 4 % 2 == 1,
    preserveLineLength := bits / 8 % 2 == 1, longerTerminalOutput := bits / 16 % 2 == 1, useExtendedColors := bits / 32 % 2 == 1 }

def hex2 (n : Nat) : String := String.ofList [hexChar (n / 16 % 16), hexChar (n % 16)]

def showCell (c : Cell) : String :=
  toString c.ch ++ "." ++ toString c.attr.fg ++ "." ++ toString c.attr.bg ++ "." ++
    toString (flagsToNat { c.attr.fl with invisible := false })

def isPlain (c : Cell) : Bool :=
  (c.ch == 32 || c.ch == 0) && c.attr.bg == 0 && c.attr.fg == 7 && flagsToNat { c.attr.fl with invisible := false } == 0

/-- run-length groups of equal cells (fuel = length) -/
def groups : Nat → List Cell → List (Nat × Cell)
  | 0, _ => []
  | _, [] => []
  | fuel + 1, c :: cs =>
    let n := (cs.takeWhile (· == c)).length
    (n + 1, c) :: groups fuel (cs.drop n)

def showRow (cells : List Cell) : String :=
  let cells := cells.map fun c => { c with attr := { c.attr with fl := { c.attr.fl with invisible := false } } }
  let cells := (cells.reverse.dropWhile isPlain).reverse
  if cells.isEmpty then "e" else
  ",".intercalate ((groups cells.length cells).map fun (n, c) => if n > 1 then toString n ++ "*" ++ showCell c else showCell c)

def showLoaded (f : Fmt) (l : Loaded) : String :=
  let rows := (List.range l.h).map fun y => showRow ((List.range l.w).map fun x => l.cellAt x y)
  let tail := l.pal.drop 16
  let pal := if f = .atascii ∨ tail.isEmpty then "-" else ".".intercalate (tail.map fun (r, g, b) => hex2 r ++ hex2 g ++ hex2 b)
  toString l.w ++ " " ++ toString l.h ++ " " ++ toString (iceToNat l.ice) ++ " " ++ (if l.stuck then "1" else "0") ++ " " ++
    ";".intercalate (toString l.h :: rows) ++ " " ++ pal

def sauceOf (s : String) : Option (Option Sauce) :=
  if s == "-" then some none else
  match (s.splitOn ",").map String.toNat? with
  | [some w, some h, some i] => some (some ⟨w, h, i != 0⟩)
  | _ => none

def nats (ss : List String) : Option (List Nat) := ss.mapM String.toNat?

def optNat (s : String) : Option (Option Nat) := if s == "-" then some none else (s.toNat?).map some

def skipOf (s : String) : Option (Option (List Nat)) :=
  if s == "-" then some none else if s == "e" then some (some []) else ((s.splitOn ",").mapM String.toNat?).map some

def slotsOf (s : String) : Option (List (Nat × Option Nat)) :=
  if s == "-" then some [(0, some 0)] else
  (s.splitOn ",").mapM fun (e : String) =>
    match e.splitOn "=" with
    | [a, b] => match String.toNat? a with
      | some a => if b == "x" then some (a, none) else (String.toNat? b).map fun b => (a, some b)
      | none => none
    | _ => none

def pagesOf (s : String) : Option (List (List Nat)) :=
  if s == "-" then some [] else
  (s.splitOn "/").mapM fun (r : String) =>
    if r == "e" then some [] else
    ((r.splitOn ",").mapM fun (e : String) =>
      match e.splitOn "*" with
      | [a] => (String.toNat? a).map fun a => [a]
      | [n, a] => match String.toNat? n, String.toNat? a with
        | some n, some a => some (List.replicate n a)
        | _, _ => none
      | _ => none).map List.flatten

def handle : List String → String
  | "writex" :: "ans" :: opts :: maxlen :: skip :: slots :: pages :: rest =>
    match opts.toNat?, optNat maxlen, skipOf skip, slotsOf slots, pagesOf pages, nats rest with
    | some opts, some maxlen, some skip, some slots, some pages, some xs =>
      match pic xs with
      | some (p, []) =>
        if pages.any (·.any (ansiFontUploadMin ≤ ·)) then "unmodelled"
        else showOut (writeAnsiX (ansiOptsOf opts) maxlen skip { slots := slots, pages := pages } p)
      | _ => "bad-op"
    | _, _, _, _, _, _ => "bad-op"
  | "write" :: f :: prep :: rest =>
    match fmtOf f, prep.toNat?, nats rest with
    | some f, some prep, some xs =>
      match pic xs with
      | some (p, []) => if f = .ansi then toHex (writeAnsi (ansiOptsOf prep) p) else showOut (writeFmt f (prepOf prep) p)
      | _ => "bad-op"
    | _, _, _ => "bad-op"
  | ["load", f, sauce, h] =>
    match fmtOf f, sauceOf sauce, parseHex h with
    | some f, some s, some bytes => showLoaded f (load f s bytes)
    | _, _, _ => "bad-op"
  | _ => "bad-op"

end IcyVerif.Drv.ArtIO
