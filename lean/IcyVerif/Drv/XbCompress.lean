import IcyVerif.Model.XbCompress
import IcyVerif.Drv.Util
/-! Line protocol for C06 (`xbcompress …`).

  comp  <case>   image data of the compressed save as hex, `err` if the save is refused
  comph <case>   the same as `<length> <fnv>` (large buffers)
  raw / rawh     the uncompressed image data
  dec <w> <h> <hex>   the specification decoder: `ok <runs> <fnv of the cells> <bytes left>` or `invalid`
  load <flags> <w> <h> <hex>   the crate's loader on image data (flags = XBin header flags: 4 compressed, 8 ice,
                      16 512-character mode): `cells <fnv of ch fg bg flags page …>`, `count <n>`, `panic`

  <case> = `<ice>:<w>:<opts>:<alphabet>:<symbols>`, alphabet = `ch.fg.bg.flags.page,…`, symbols = one base-36
  digit per cell, or `*` (the alphabet is the cell list). -/
namespace IcyVerif.Drv.XbCompress
open IcyVerif.XbCompress IcyVerif.Drv

def parseCell (s : String) : Option Cell :=
  match (s.splitOn ".").map String.toNat? with
  | [some ch, some fg, some bg, some fl, some pg] => some ⟨ch, ⟨fg, bg, fl, pg⟩⟩
  | _ => none

def b36 (c : Char) : Option Nat :=
  if '0' ≤ c ∧ c ≤ '9' then some (c.toNat - '0'.toNat)
  else if 'a' ≤ c ∧ c ≤ 'z' then some (c.toNat - 'a'.toNat + 10)
  else none

def chunk (w : Nat) : Nat → List Cell → List (List Cell)
  | 0, _ => []
  | _, [] => []
  | fuel + 1, cs => cs.take w :: chunk w fuel (cs.drop w)

def iceOf : Nat → IceMode
  | 0 => .unlimited
  | 1 => .blink
  | _ => .ice

def parseCase (t : String) : Option (IceMode × List (List Cell)) :=
  match t.splitOn ":" with
  | [ice, w, _opts, alpha, syms] =>
    match ice.toNat?, w.toNat?, (alpha.splitOn ",").mapM parseCell with
    | some ice, some w, some alpha =>
      if w = 0 then none else
      let arr := alpha.toArray
      let cells : Option (List Cell) :=
        if syms == "*" then some alpha
        else syms.toList.mapM fun c => (b36 c).bind fun i => arr[i]?
      cells.map fun cs => (iceOf ice, chunk w cs.length cs)
    | _, _, _ => none
  | _ => none

def image (compress hashed : Bool) (t : String) : String :=
  match parseCase t with
  | none => "bad-op"
  | some (im, rows) =>
    match imageData im compress rows with
    | none => "err"
    | some bs => if hashed then s!"{bs.length} {fnv bs}" else toHex bs

def handle : List String → String
  | ["comp", t] => image true false t
  | ["comph", t] => image true true t
  | ["raw", t] => image false false t
  | ["rawh", t] => image false true t
  | ["dec", w, h, hx] =>
    match w.toNat?, h.toNat?, parseHex hx with
    | some w, some h, some bs =>
      (match parseImage w h bs with
       | some (rows, rest) =>
         let cells := rows.flatMap expand
         s!"ok {(rows.map List.length).sum} {fnv (cells.map fun p => p.1 * 256 + p.2)} {rest.length}"
       | none => "invalid")
    | _, _, _ => "bad-op"
  | ["load", fl, w, h, hx] =>
    match fl.toNat?, w.toNat?, h.toNat?, parseHex hx with
    | some fl, some w, some h, some bs =>
      let ice := fl &&& IcyVerif.Gen.Xb.flagNonBlink != 0
      let ext := fl &&& IcyVerif.Gen.Xb.flag512 != 0
      let pairs := if fl &&& IcyVerif.Gen.Xb.flagCompress != 0 then readCompressed bs else some (readUncompressed bs)
      (match pairs with
       | none => "panic"
       | some ps =>
         if ps.length != w * h then s!"count {ps.length}"
         else
           let cells := ps.map (decodeChar ice ext)
           s!"cells {fnv (cells.flatMap fun c => [c.ch, c.attr.fg, c.attr.bg, c.attr.flags, c.attr.page])}")
    | _, _, _, _ => "bad-op"
  | _ => "bad-op"

end IcyVerif.Drv.XbCompress
