import IcyVerif.Model.Rip
import IcyVerif.Drv.Util
/-! Line protocol for the RIPscrip lexer model.
`rip lex <hex stream> <fallback classes, comma separated> <observed outcome letters>` →
`<hash of the per-character lexer digests> <final digest> ok|bad@<i>` -/
namespace IcyVerif.Drv.Rip
open IcyVerif.Rip IcyVerif.RipSpec IcyVerif.Drv

def hInt (h : UInt64) (x : Int) : UInt64 := fnvStep h (x % 18446744073709551616).toNat
def hStr (h : UInt64) (s : List Nat) : UInt64 := s.foldl (fun h (c : Nat) => hInt h (c : Int)) (hInt h (s.length : Int))

def stCode : LState → Int × Int
  | .dflt => (0, 0)
  | .gotRipStart => (1, 0)
  | .readCommand l => (2, l)
  | .readParams => (3, 0)
  | .skipEol => (4, 0)
  | .endRip => (5, 0)

def stName : LState → String
  | .dflt => "D"
  | .gotRipStart => "G"
  | .readCommand l => s!"C{l}"
  | .readParams => "P"
  | .skipEol => "S"
  | .endRip => "E"

def cmdString (T : Table) (c : CmdSt) : List Nat :=
  match T.cmds[c.idx]? with
  | some spec => toRipString spec c
  | none => []

def digest (T : Table) (h : UInt64) (s : Lex) : UInt64 :=
  let (sc, lv) := stCode s.st
  let h := hInt (hInt (hInt (hInt (hInt (hInt h sc) lv) s.pstate) s.counter) (if s.enable then 1 else 0)) (if s.suspend then 1 else 0)
  match s.cmd with
  | some c => hStr (hInt h 1) (cmdString T c)
  | none => hInt h 0

def hex2 (n : Nat) : String := String.ofList [hexChar (n / 16 % 16), hexChar (n % 16)]

def strHex (s : List Nat) : String := if s.isEmpty then "-" else String.join (s.map hex2)

def digestText (T : Table) (s : Lex) : String :=
  let b (x : Bool) := if x then "1" else "0"
  s!"{stName s.st}/{s.pstate}/{s.counter}/{b s.enable}/{b s.suspend}/" ++
    (match s.cmd with | some c => strHex (cmdString T c) | none => "none")

def parseFb (t : String) : Option Fb :=
  if t == "d" then some .dflt
  else if t == "o" then some .other
  else if t == "c-" then some (.csi none)
  else if t.startsWith "c" then (t.drop 1).toString.toInt?.map (fun v => Fb.csi (some v))
  else none

/-- does the observed outcome letter agree with what the lexer itself decides? (`run`/`fallback` results are opaque) -/
def agrees (o : Out) (c : Char) : Bool :=
  match o with
  | .noUpdate => c == 'n'
  | .update => c == 'u'
  | .send => c == 's'
  | .err => c == 'e'
  | .run _ => true
  | .fallback _ => true

def lexLoop (T : Table) : Lex → List (Nat × Fb × Char) → UInt64 → Nat → Option Nat → (UInt64 × Lex × Option Nat × Option String)
  | s, [], h, _, bad => (h, s, bad, none)
  | s, (ch, fb, oc) :: rest, h, i, bad =>
    match step T s ch fb with
    | .panic site => (h, s, bad, some s!"panic@{i}")
    | .ok s' o =>
      let bad := match bad with | some b => some b | none => if agrees o oc then none else some i
      lexLoop T s' rest (digest T h s') (i + 1) bad

def handle : List String → String
  | ["lex", hx, cls, outs] =>
    match parseHex hx with
    | none => "bad-op"
    | some bs =>
      let cl : List String := if cls == "-" then [] else cls.splitOn ","
      let os : List Char := if outs == "-" then [] else outs.toList
      match cl.mapM parseFb with
      | none => "bad-op"
      | some fbs =>
        if fbs.length ≠ bs.length ∨ os.length ≠ bs.length then "bad-op" else
        let items := (bs.zip (fbs.zip os))
        let (h, s, bad, pan) := lexLoop genTable Lex.init items 14695981039346656037 0 none
        match pan with
        | some p => p
        | none =>
          let last := if bs.isEmpty then "-" else digestText genTable s
          let verdict := match bad with | none => "ok" | some i => s!"bad@{i}"
          s!"{h} {last} {verdict}"
  | _ => "bad-op"

end IcyVerif.Drv.Rip
