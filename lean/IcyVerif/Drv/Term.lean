import IcyVerif.Model.TermWrap
import IcyVerif.Model.TermOther
import IcyVerif.Drv.Util
namespace IcyVerif.Drv.Term
open IcyVerif.Term IcyVerif.Drv

def outStr : Out → String
  | .ok => "ok" | .err => "err" | .resize => "resize"

def digest (st : St) : List Int :=
  let s := st.s
  let m (o : Option (Int × Int)) : List Int := match o with | some (a, b) => [a, b] | none => [-7, -7]
  [st.c.x, st.c.y, s.fv, s.tw, s.th, s.bw, s.bh, if st.c.ins then 1 else 0, if s.autowrap then 1 else 0]
    ++ m s.mtb ++ m s.mlr ++ [if s.declrmm then 1 else 0]

def i2n (i : Int) : Nat := if i < 0 then (18446744073709551616 - (-i).toNat % 18446744073709551616) % 18446744073709551616 else i.toNat
/-- the payload of the last `PlayMusic` action (note index into `FREQ`, duration, dotted; pause; style) and how many
    tunes were handed out — the harness hashes the real `AnsiMusic` the same way -/
def mactEnc : MAct → List Nat
  | .note i l d => [1, i, i2n l, if d then 1 else 0]
  | .pause v => [2, i2n v]
  | .style s => [3, s]
def musHash (last : List MAct) (tunes : Nat) : UInt64 := fnv ((last.map mactEnc).flatten ++ [tunes])
def digestHash (st : St) (out : String) (mh : UInt64 := musHash [] 0) : UInt64 :=
  fnv ((digest st).map i2n ++ [(fnv (st.s.tabs.map i2n)).toNat, mh.toNat] ++ out.toList.map Char.toNat)

structure Acc where
  st : St
  h : UInt64 := 14695981039346656037
  n : Nat := 0
  checkpoints : List UInt64 := []
  panic : Option String := none
  tune : List MAct := []     -- payload of the last PlayMusic action handed to the caller
  tunes : Nat := 0

/-- items: `cp:lineLen:ext` -/
def runItems (cfg : Cfg) (items : List String) (acc : Acc) : Acc :=
  items.foldl (fun acc it =>
    if acc.panic.isSome then acc else
    match it.splitOn ":" with
    | [cp, ll, ext] =>
      match cp.toNat?, ll.toInt? with
      | some cp, some ll =>
        let o : Orc := { lineLen := ll, extOk := ext == "1" }
        match step cfg (fun _ => o) acc.st (Char.ofNat cp) with
        | .ok (st', out) =>
          let (tune, tunes) := match playMusicOf acc.st (Char.ofNat cp) st' with
            | some l => (l, acc.tunes + 1)
            | none => (acc.tune, acc.tunes)
          let h := fnvStep acc.h (digestHash st' (outStr out) (musHash tune tunes)).toNat
          let n := acc.n + 1
          { acc with st := st', h := h, n := n, tune := tune, tunes := tunes,
                     checkpoints := if n % 32 == 0 then h :: acc.checkpoints else acc.checkpoints }
        | .error e => { acc with panic := some (reprStr e) }
      | _, _ => { acc with panic := some "bad-item" }
    | _ => { acc with panic := some "bad-item" }) acc

structure WAcc where
  w : WSt
  h : UInt64 := 14695981039346656037
  n : Nat := 0
  checkpoints : List UInt64 := []
  panic : Option String := none

def runWItems (e : Emu) (items : List String) (acc : WAcc) : WAcc :=
  items.foldl (fun acc it =>
    if acc.panic.isSome then acc else
    match it.splitOn ":" with
    | [cp, ll, ext] =>
      match cp.toNat?, ll.toInt? with
      | some cp, some ll =>
        let o : Orc := { lineLen := ll, extOk := ext == "1" }
        match wstep e (fun _ => o) acc.w (Char.ofNat cp) with
        | .ok (w', out) =>
          let h := fnvStep acc.h (digestHash w'.inner (outStr out)).toNat
          let n := acc.n + 1
          { acc with w := w', h := h, n := n, checkpoints := if n % 32 == 0 then h :: acc.checkpoints else acc.checkpoints }
        | .error e => { acc with panic := some (reprStr e) }
      | _, _ => { acc with panic := some "bad-item" }
    | _ => { acc with panic := some "bad-item" }) acc

def emuOf : String → Option Emu
  | "avatar" => some .avatar | "pcboard" => some .pcboard | "ctrla" => some .ctrla | "renegade" => some .renegade
  | _ => none

structure OAcc where
  st : OSt
  h : UInt64 := 14695981039346656037
  n : Nat := 0
  checkpoints : List UInt64 := []
  panic : Option String := none

def runOItems (e : Emu2) (items : List String) (acc : OAcc) : OAcc :=
  items.foldl (fun acc it =>
    if acc.panic.isSome then acc else
    match it.splitOn ":" with
    | cp :: _ =>
      match cp.toNat? with
      | some cp =>
        match ostep e acc.st (Char.ofNat cp) with
        | .ok (st', out) =>
          let g : St := { s := st'.s, c := st'.c, p := {} }
          let h := fnvStep acc.h (digestHash g (outStr out)).toNat
          let n := acc.n + 1
          { acc with st := st', h := h, n := n, checkpoints := if n % 32 == 0 then h :: acc.checkpoints else acc.checkpoints }
        | .error e => { acc with panic := some (reprStr e) }
      | none => { acc with panic := some "bad-item" }
    | _ => { acc with panic := some "bad-item" }) acc

def emu2Of : String → Option Emu2
  | "ascii" => some .ascii | "atascii" => some .atascii | "petscii" => some .petscii
  | "viewdata" => some .viewdata | "mode7" => some .mode7
  | _ => none

def handle : List String → String
  | ["runo", emu, w, h, items] =>
    match emu2Of emu, w.toInt?, h.toInt? with
    | some e, some w, some h =>
      let (w, h) := if e = .viewdata ∨ e = .mode7 then ((40 : Int), (24 : Int)) else (w, h)
      let acc := runOItems e (if items == "-" then [] else items.splitOn ",") { st := initO w h }
      match acc.panic with
      | some p => s!"panic after {acc.n}: {p}"
      | none =>
        let g : St := { s := acc.st.s, c := acc.st.c, p := {} }
        let base := s!"{acc.n} {acc.h} [{intsToString (digest g)}]"
        if acc.checkpoints.isEmpty then base else base ++ " " ++ " ".intercalate (acc.checkpoints.reverse.map toString)
    | _, _, _ => "bad-op"
  | ["runw", emu, w, h, items] =>
    match emuOf emu, w.toInt?, h.toInt? with
    | some e, some w, some h =>
      let acc := runWItems e (if items == "-" then [] else items.splitOn ",") { w := initW w h }
      match acc.panic with
      | some p => s!"panic after {acc.n}: {p}"
      | none =>
        let base := s!"{acc.n} {acc.h} [{intsToString (digest acc.w.inner)}]"
        if acc.checkpoints.isEmpty then base else base ++ " " ++ " ".intercalate (acc.checkpoints.reverse.map toString)
    | _, _, _ => "bad-op"
  | ["run", music, bs, w, h, items] =>
    match music.toNat?, w.toInt?, h.toInt? with
    | some m, some w, some h =>
      let cfg : Cfg := { musicOpt := m, bsCtrl := bs == "1" }
      let acc := runItems cfg (if items == "-" then [] else items.splitOn ",") { st := initSt w h }
      match acc.panic with
      | some p => s!"panic after {acc.n}: {p}"
      | none =>
        let base := s!"{acc.n} {acc.h} [{intsToString (digest acc.st)}]"
        if acc.checkpoints.isEmpty then base else base ++ " " ++ " ".intercalate (acc.checkpoints.reverse.map toString)
    | _, _, _ => "bad-op"
  | _ => "bad-op"

end IcyVerif.Drv.Term
