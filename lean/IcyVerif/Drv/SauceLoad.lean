import IcyVerif.Model.SauceLoad
import IcyVerif.Drv.BinFormats
/-! Line protocol for the composed loader model (`sauceload load <ext> <dateOk> <hex>`), see harness/src/c11load.rs.
    Answer: the `digest` line of Drv/BinFormats.lean, `rej` (loader `Err` or loader panic), `panic` (SAUCE code). -/
namespace IcyVerif.Drv.SauceLoad
open IcyVerif.Sauce IcyVerif.SauceLoad IcyVerif.Drv

def flag? (s : String) : Option Bool := if s == "1" then some true else if s == "0" then some false else none

def handle : List String → String
  | ["load", fmt, ok, hx] =>
    match BinFormats.parseFmt fmt, flag? ok, parseHex hx with
    | some f, some ok, some bs =>
      (match fromBytes (fun _ => ok) f bs with
       | .ok (.ok g) => BinFormats.digest g
       | .ok _ => "rej"
       | .err _ => "rej"
       | .panic _ => "panic")
    | _, _, _ => "bad-op"
  | _ => "bad-op"

end IcyVerif.Drv.SauceLoad
