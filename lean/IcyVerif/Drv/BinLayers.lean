import IcyVerif.Model.BinLayers
import IcyVerif.Drv.BinFormats
import IcyVerif.Drv.Comp
/-! Line protocol for C05 on buffers with a layer stack (`binlayers …`).

  save layers:<fmt>:<ice>:<w>:<h>:<opts>:<palette>:<fonts>:<meta|->:<ints> <date>   `<length> <fnv>` of the file / `err` / `panic`
  rt   <same> <date>                                                        `rep=… save=… load=… same=…` on the flattened picture

  `<ints>` = `<nlayers>,{layer}*` in the encoding of `Drv/Comp.lean` (comma separated):
  layer = `vis alpha mode offx offy w h dfltPage nrows {len {cell}*}*`, cell = `-1` | `ch fg bg flags page`, bottom layer first.
  The half-block classifier is not modelled here (the generator uses no transparent colours; C13 owns that path). -/
namespace IcyVerif.Drv.BinLayers
open IcyVerif.XbCompress IcyVerif.BinFormats IcyVerif.Drv IcyVerif.Gen

def parseLayered (t : String) : Option (Fmt × Opts × Layered) :=
  match t.splitOn ":" with
  | ["layers", fmt, ice, w, h, opts, pal, fonts, m, ints] =>
    match IcyVerif.Drv.BinFormats.parseFmt fmt, ice.toNat?, w.toNat?, h.toNat?, opts.toNat?, IcyVerif.Drv.BinFormats.parsePal pal,
        (ints.splitOn ",").mapM String.toInt? with
    | some fmt, some ice, some w, some h, some opts, some pal, some xs =>
      let fontList : Option (List (Nat × Font)) :=
        if fonts == "-" then some [] else (fonts.splitOn ",").mapM IcyVerif.Drv.BinFormats.parseFont
      let smeta : Option (Option Sauce.Meta) := if m == "-" then some none else (IcyVerif.Drv.BinFormats.parseMeta m).map some
      match fontList, smeta, IcyVerif.Drv.Comp.countedOf IcyVerif.Drv.Comp.layer xs with
      | some fl, some sm, some (stack, []) =>
        some (fmt, IcyVerif.Drv.BinFormats.optsOf opts,
          { w := w, h := h, isTerm := false, layers := stack, ice := IcyVerif.Drv.BinFormats.iceOf ice, pal := pal, fonts := fl.reverse, sauce := sm })
      | _, _, _ => none
    | _, _, _, _, _, _, _ => none
  | _ => none

def noHb : Comp.Cell → Nat × Nat := fun _ => (0, 0)

def handle : List String → String
  | ["save", t, date] =>
    match parseLayered t with
    | none => "bad-op"
    | some (f, o, B) =>
      match saveLayered noHb f o (IcyVerif.Drv.BinFormats.asciiBytes date) B with
      | .ok bs => s!"{bs.length} {fnv bs}"
      | .err => "err"
      | .panic => "panic"
  | ["rt", t, date] =>
    match parseLayered t with
    | none => "bad-op"
    | some (f, o, B) =>
      let p := B.flatten noHb
      let rep := Representable f o p
      match save f o (IcyVerif.Drv.BinFormats.asciiBytes date) p with
      | .ok bs =>
        (match fromBytes f bs with
         | .ok g => s!"rep={IcyVerif.Drv.BinFormats.bit rep} save=ok load=ok same={IcyVerif.Drv.BinFormats.bit (picSame true f p g)}"
         | _ => s!"rep={IcyVerif.Drv.BinFormats.bit rep} save=ok load=rej same=0")
      | .err => s!"rep={IcyVerif.Drv.BinFormats.bit rep} save=err load=- same=0"
      | .panic => s!"rep={IcyVerif.Drv.BinFormats.bit rep} save=panic load=- same=0"
  | _ => "bad-op"

end IcyVerif.Drv.BinLayers
