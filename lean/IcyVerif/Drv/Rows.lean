import IcyVerif.Model.RowsOther
import IcyVerif.Drv.Util
/-! Line protocol of the row-table model (`rows …`): the same streams and per-character oracle items as `term …`;
after every character the digest of layer 0's shape — number of rows, layer size, every row's `chars.len()`. -/
namespace IcyVerif.Drv.Rows
open IcyVerif.Term IcyVerif.Rows IcyVerif.Drv

def tabDigest (t : Tab) : UInt64 := fnv ([t.rows.length, t.lw.toNat, t.lh.toNat] ++ t.rows)

def tabSummary (t : Tab) : String := s!"[{t.rows.length} {t.lw} {t.lh} {tabDigest t}]"

def errStr : JErr → String
  | .geo p => "geo " ++ reprStr p
  | .rows site => "rows " ++ site

structure Acc (σ : Type) where
  x : σ
  h : UInt64 := 14695981039346656037
  n : Nat := 0
  checkpoints : List UInt64 := []
  panic : Option String := none
  trace : List String := []

/-- items: `cp:lineLen:ext[:cnt]` -/
def parseItem (it : String) : Option (Nat × Orc × Nat) :=
  match it.splitOn ":" with
  | [cp, ll, ext] =>
    match cp.toNat?, ll.toInt? with
    | some cp, some ll => some (cp, { lineLen := ll, extOk := ext == "1" }, 1)
    | _, _ => none
  | [cp, ll, ext, cnt] =>
    match cp.toNat?, ll.toInt?, cnt.toNat? with
    | some cp, some ll, some cnt => some (cp, { lineLen := ll, extOk := ext == "1" }, cnt)
    | _, _, _ => none
  | _ => none

def runGen {σ : Type} (stepf : σ → Char → Orc → Nat → JRes σ) (tabOf : σ → Tab) (dump : Bool) (items : List String) (acc : Acc σ) : Acc σ :=
  items.foldl (fun acc it =>
    if acc.panic.isSome then acc else
    match parseItem it with
    | none => { acc with panic := some "bad-item" }
    | some (cp, o, cnt) =>
      match stepf acc.x (Char.ofNat cp) o cnt with
      | .ok x' =>
        let h := fnvStep acc.h (tabDigest (tabOf x')).toNat
        let n := acc.n + 1
        { acc with x := x', h := h, n := n,
                   checkpoints := if n % 32 == 0 then h :: acc.checkpoints else acc.checkpoints,
                   trace := if dump then s!"{n}:{(tabOf x').lh}:{natsToString (tabOf x').rows}" :: acc.trace else acc.trace }
      | .error e => { acc with panic := some (errStr e) }) acc

def report {σ : Type} (tabOf : σ → Tab) (dump : Bool) (acc : Acc σ) : String :=
  if dump then "|".intercalate acc.trace.reverse ++ (match acc.panic with | some p => s!"|panic after {acc.n}: {p}" | none => "") else
  match acc.panic with
  | some p => s!"panic after {acc.n}: {p}"
  | none =>
    let base := s!"{acc.n} {acc.h} {tabSummary (tabOf acc.x)}"
    if acc.checkpoints.isEmpty then base else base ++ " " ++ " ".intercalate (acc.checkpoints.reverse.map toString)

def emuOf : String → Option Emu
  | "avatar" => some .avatar | "pcboard" => some .pcboard | "ctrla" => some .ctrla | "renegade" => some .renegade
  | _ => none
def emu2Of : String → Option Emu2
  | "ascii" => some .ascii | "atascii" => some .atascii | "petscii" => some .petscii
  | "viewdata" => some .viewdata | "mode7" => some .mode7
  | _ => none

def itemsOf (s : String) : List String := if s == "-" then [] else s.splitOn ","

def handleRun (dump : Bool) : List String → String
  | ["runo", emu, w, h, items] =>
    match emu2Of emu, w.toInt?, h.toInt? with
    | some e, some w, some h =>
      let (w, h) := if e = .viewdata ∨ e = .mode7 then ((40 : Int), (24 : Int)) else (w, h)
      let stepf : OJ → Char → Orc → Nat → JRes OJ := fun x ch _ cnt =>
        match ostepJ e x ch cnt with | .ok (x', _) => .ok x' | .error e => .error e
      report (fun x => x.2.2) dump (runGen stepf (fun x => x.2.2) dump (itemsOf items) { x := (initO w h, {}, initTab w h) })
    | _, _, _ => "bad-op"
  | ["runw", emu, w, h, items] =>
    match emuOf emu, w.toInt?, h.toInt? with
    | some e, some w, some h =>
      let stepf : WJ → Char → Orc → Nat → JRes WJ := fun x ch o _ =>
        match wstepJ e (fun _ => o) x ch with | .ok (x', _) => .ok x' | .error e => .error e
      report (fun x => x.2) dump (runGen stepf (fun x => x.2) dump (itemsOf items) { x := (initW w h, initTab w h) })
    | _, _, _ => "bad-op"
  | ["run", music, bs, w, h, items] =>
    match music.toNat?, w.toInt?, h.toInt? with
    | some m, some w, some h =>
      let cfg : Cfg := { musicOpt := m, bsCtrl := bs == "1" }
      let stepf : JSt → Char → Orc → Nat → JRes JSt := fun x ch o _ =>
        match stepJ cfg (fun _ => o) x ch with | .ok (x', _) => .ok x' | .error e => .error e
      report (fun x => x.2) dump (runGen stepf (fun x => x.2) dump (itemsOf items) { x := (initSt w h, initTab w h) })
    | _, _, _ => "bad-op"
  | _ => "bad-op"

def handle : List String → String
  | "dump" :: rest => handleRun true rest
  | rest => handleRun false rest

end IcyVerif.Drv.Rows
