import IcyVerif.Model.IgsCost
import IcyVerif.Drv.Igs
/-! Line protocol for the IGS canvas model (lexer + DrawExecutor + exposed picture):
`igsx run <hex stream> <observed outcome letters>` → `<picture length> <picture hash> <final lexer digest> ok|bad@<i>`,
or `panic@<i>` / `stall@<i>` / `unmodelled@<i>` / `picpanic`.  After every character up to `drainSteps` pending loop
steps are taken, exactly as the harness does. -/
namespace IcyVerif.Drv.Igsx
open IcyVerif.Igs IcyVerif.IgsCanvas IcyVerif.Drv

def bytesHash (l : List Nat) : UInt64 :=
  l.foldl (fun h v => (h ^^^ UInt64.ofNat (v % 256)) * 1099511628211) 14695981039346656037

def agrees (o : COut) (c : Char) : Bool :=
  match o with
  | .lexer o => Drv.Igs.agrees o c
  | .ran l => c == l
  | .ranErr => c == 'e'

inductive LoopRes where
  | done (s : St) (bad : Option Nat)
  | stop (msg : String)

def loop : St → List (Nat × Char) → Nat → Option Nat → LoopRes
  | s, [], _, bad => .done s bad
  | s, (ch, oc) :: rest, i, bad =>
    match IgsCanvas.step s ch with
    | .panic => .stop s!"panic@{i}"
    | .stall => .stop s!"stall@{i}"
    | .unmodelled => .stop s!"unmodelled@{i}"
    | .ok s1 o =>
      let bad := match bad with | some b => some b | none => if agrees o oc then none else some i
      match IgsCanvas.drain Drv.Igs.drainSteps s1 with
      | .panic => .stop s!"panic@{i}"
      | .stall => .stop s!"stall@{i}"
      | .unmodelled => .stop s!"unmodelled@{i}"
      | .ok s2 _ => loop s2 rest (i + 1) bad

/-- `igsx cost <hex stream>` → `<pixel accesses of the whole stream> <largest number for one character> ok`: the
cost functions of `Model/IgsCost.lean` summed along the stream (what the hook counter `VERIF_PIXEL_OPS` of the real
code shows); `nocount@<i>` when character i runs a command without cost function or leaves a loop running -/
def costLoop : St → List Nat → Nat → Nat → Nat → String
  | _, [], _, total, mx => s!"{total} {mx} ok"
  | s, ch :: rest, i, total, mx =>
    match IgsCanvas.stepCost s ch with
    | none => s!"nocount@{i}"
    | some c =>
      match IgsCanvas.step s ch with
      | .panic => s!"panic@{i}"
      | .stall => s!"stall@{i}"
      | .unmodelled => s!"unmodelled@{i}"
      | .ok s1 _ =>
        match s1.lex.cur with
        | some _ => s!"nocount@{i}"
        | none => costLoop s1 rest (i + 1) (total + c) (max mx c)

def handle : List String → String
  | ["cost", hx] =>
    match parseHex hx with
    | none => "bad-op"
    | some bs => costLoop St.init bs 0 0 0
  | ["run", hx, outs] =>
    match parseHex hx with
    | none => "bad-op"
    | some bs =>
      let os : List Char := if outs == "-" then [] else outs.toList
      if os.length ≠ bs.length then "bad-op" else
      match loop St.init (bs.zip os) 0 none with
      | .stop msg => msg
      | .done s bad =>
        let verdict := match bad with | none => "ok" | some i => s!"bad@{i}"
        -- length and hash of `pictureData s.paint`, folded without building the list (`IgsPaint.picFold_eq`)
        match IgsPaint.picFold (fun (a : Nat × UInt64) v => (a.1 + 1, (a.2 ^^^ UInt64.ofNat (v % 256)) * 1099511628211))
            (0, 14695981039346656037) s.paint with
        | none => "picpanic"
        | some r =>
          s!"{IgsPaint.resW s.paint}x{IgsPaint.resH s.paint} {r.1} {r.2} {if bs.isEmpty then "-" else Drv.Igs.digestText s.lex} {verdict}"
  | _ => "bad-op"

end IcyVerif.Drv.Igsx
