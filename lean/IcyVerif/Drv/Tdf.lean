import IcyVerif.Model.Tdf
import IcyVerif.Drv.Util
namespace IcyVerif.Drv.Tdf
open IcyVerif.Tdf IcyVerif.Font IcyVerif.Uni IcyVerif.Drv

/-- glyph entry: `_` (undefined) or `w.h.hex` -/
def parseGlyph (s : String) : Option (Option TGlyph) :=
  if s == "_" then some none else
  match s.splitOn "." with
  | [w, h, d] => match w.toInt?, h.toInt?, parseHex d with
    | some w, some h, some d => some (some { w := w, h := h, data := d })
    | _, _, _ => none
  | _ => none

def parseFont : List String → Option TdfFont
  | [ty, sp, nm, gl] => match ty.toNat?, sp.toInt?, parseHex nm, (if gl == "-" then some [] else (gl.splitOn ",").mapM parseGlyph) with
    | some ty, some sp, some nm, some gl => some { name := nm, ftype := ty, spaces := sp, table := gl }
    | _, _, _, _ => none
  | _ => none

def parseFonts : List String → Option (List TdfFont)
  | [] => some []
  | a :: b :: c :: d :: rest => match parseFont [a, b, c, d], parseFonts rest with
    | some f, some fs => some (f :: fs)
    | _, _ => none
  | _ => none

def hashRes : Res (List Nat) → String
  | .ok d => s!"ok:{d.length}:{fnv d}"
  | .err => "err"
  | .panic => "panic"

def fontObs (f : TdfFont) : String :=
  let has := String.ofList (f.table.map fun g => if g.isSome then '1' else '0')
  let height := match f.table.filterMap id with | g :: _ => g.h | [] => 0
  let gl := (f.table.take 94).flatMap fun g => match g with
    | some g => [1, g.w.toNat, g.h.toNat, g.data.length] ++ g.data
    | none => [0]
  s!"name={toHex f.name} type={f.ftype} spaces={f.spaces} has={has} height={height} glyphs={fnv gl} re={hashRes (asTdf f)}"

def handle : List String → String
  | "enc" :: rest => match parseFont rest with
    | some f => hashRes (asTdf f)
    | none => "bad-op"
  | "wf" :: rest => match parseFont rest with
    | some f => toString (wfTdfB f)
    | none => "bad-op"
  | "bundle" :: rest => match parseFonts rest with
    | some fs => hashRes (bundle fs)
    | none => "bad-op"
  | "has" :: codes :: rest => match parseFont rest, (codes.splitOn ",").mapM (·.toNat?) with
    | some f, some cs => " ".intercalate (cs.map fun c => match hasChar f c with
        | .ok b => toString b | .err => "err" | .panic => "panic") ++ s!" height={fontHeight f}"
    | _, _ => "bad-op"
  | ["dec", hx] => match parseHex hx with
    | some bs => (match fromTdf bs with
      | .ok fs => s!"ok {fs.length}" ++ String.join (fs.map fun f => " ; " ++ fontObs f)
      | .err => "err"
      | .panic => "panic")
    | none => "bad-op"
  | _ => "bad-op"

end IcyVerif.Drv.Tdf
