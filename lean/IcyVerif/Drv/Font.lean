import IcyVerif.Model.Font
import IcyVerif.Model.Base64
import IcyVerif.Drv.Util
namespace IcyVerif.Drv.Font
open IcyVerif.Font IcyVerif.Uni IcyVerif.Drv

/-- the harness' deterministic filler (`fontgen.rs: fill_byte`) -/
def fillBytes (n seed : Nat) : List Nat :=
  (List.range n).map fun i => (i * 131 + (i / 256) * 17 + i / 7 + seed * 29) % 256

def psf2Hdr (version hs length cs height width : Nat) : List Nat :=
  u32le psf2Magic ++ u32le version ++ u32le hs ++ u32le 0 ++ u32le length ++ u32le cs ++ u32le height ++ u32le width

def caseBytes : String → List Nat → Option (List Nat)
  | "psf1", [mode, cs, n, seed] => some ([0x36, 0x04, mode % 256, cs % 256] ++ fillBytes n seed)
  | "psf2", [v, hs, len, cs, h, w, n, seed] => some (psf2Hdr v hs len cs h w ++ fillBytes n seed)
  | "raw", [n, seed] => some (fillBytes n seed)
  | _, _ => none

def keysOf (gs : List (Option Glyph)) : List Nat :=
  (gs.zipIdx).filterMap fun p => match p.1 with | some _ => some p.2 | none => none

def hashBytes (bs : List Nat) : UInt64 := fnv bs

def fontObs (f : BitFont) (wantCk : Bool) : String :=
  let keys := keysOf f.glyphs
  let ck := if wantCk then f.checksum else 0
  let u8 := match f.toU8 with
    | .ok d => s!"{d.length}:{hashBytes d}"
    | _ => "panic"
  let psf2 := match f.toPsf2 with
    | .ok d => s!"ok:{d.length}:{hashBytes d}"
    | .err => "err"
    | .panic => "panic"
  s!"ok {f.w} {f.h} {f.length} {keys.length} {fnv keys} {ck} u8={u8} psf2={psf2}"

def shape (bytes : List Nat) : String :=
  match fromBytes bytes with
  | .ok f => fontObs f (bytes.length ≤ 20000)
  | .err => "err"
  | .panic => "panic"

def realCodec : Codec := IcyVerif.B64.stdCodec

/-- the font a C17 case talks about: `n` glyphs of `h` rows, rows from the filler -/
def mkFont (n h seed : Nat) : BitFont :=
  { w := 8, h := h, length := n, glyphs := (glyphsFromU8 h (fillBytes (n * h) seed)) }
def mkFontHex (n h : Nat) (bs : List Nat) : BitFont :=
  { w := 8, h := h, length := n, glyphs := (glyphsFromU8 h bs) }

def hashRes : Res (List Nat) → String
  | .ok d => s!"ok:{d.length}:{hashBytes d}"
  | .err => "err"
  | .panic => "panic"

def glyphHash (f : BitFont) : UInt64 :=
  fnv (f.loop.flatMap fun g => match g with | some r => 1 :: r | none => [0])

/-- decidable well-formedness of the round-trip theorems (`Props/C17.lean: WfFont`) -/
def wfFontB (f : BitFont) : Bool :=
  decide (f.w = 8) && decide (1 ≤ f.h) && decide (f.glyphs.length ≤ 55296) && decide ((f.glyphs.length : Int) = f.length) &&
  f.glyphs.all (fun g => match g with | some r => decide ((r.length : Int) = f.h) && r.all (· < 256) | none => false)

def noMagicB (d : List Nat) : Bool := noMagic d

def fontOps (f : BitFont) (op : String) (extra : List String) : String :=
  match op, extra with
  | "psf2", [] => hashRes f.toPsf2
  | "u8", [] => hashRes f.toU8
  | "glyphs", [] => s!"{f.w} {f.h} {f.length} {glyphHash f}"
  | "wf", [] => s!"{wfFontB f} {match f.toU8 with | .ok d => noMagicB d | _ => true}"
  | "dcs", [slot] => (match slot.toNat? with
    | some slot => hashRes (match encodeAnsi realCodec f slot with
        | .ok d => .ok ([27, 80] ++ d ++ [27, 92]) | .err => .err | .panic => .panic)
    | none => "bad-op")
  | "guard", [] => (match f.toU8 with
    | .ok d => s!"{rawGuard d f.h.toNat}"
    | _ => "panic")
  | "clip", [k] => (match k.toNat? with
    | some k => (match f.clipData k with
      | some d => (match fromClip d with
        | .ok ((w, h), g) => s!"{d.length}:{hashBytes d} {w} {h} {hashBytes g}"
        | _ => "panic")
      | none => "none")
    | none => "bad-op")
  | "rtpsf2", [] => (match f.toPsf2 with
    | .ok d => (match fromBytes d with | .ok f' => s!"{decide (f' = f)}" | _ => "fail")
    | _ => "fail")
  | _, _ => "bad-op"

def handle : List String → String
  | "shape" :: "font" :: [h] => match parseHex h with
    | some bs => shape bs
    | none => "bad-op"
  | "shape" :: "dcsfont" :: kind :: rest => match rest.mapM (·.toNat?) with
    | some ns => (match caseBytes kind ns with | some bs => shape bs | none => "bad-op")
    | none => "bad-op"
  | "shape" :: kind :: rest => match rest.mapM (·.toNat?) with
    | some ns => (match caseBytes kind ns with | some bs => shape bs | none => "bad-op")
    | none => "bad-op"
  | ["fontlen", l, h, which] => match l.toInt?, h.toNat? with
    | some l, some h => (match (Res.ok (fromBasic 8 h (fillBytes (256 * h) 5)) : Res BitFont) with
      | .ok f =>
        let f := { f with length := l }
        if which == "ck" then s!"ck {f.checksum}"
        else if which == "u8" then (match f.toU8 with | .ok d => s!"u8={d.length}:{hashBytes d}" | _ => "panic")
        else if which == "psf2" then (match f.toPsf2 with
          | .ok d => s!"psf2=ok:{d.length}:{hashBytes d}" | .err => "psf2=err" | .panic => "panic")
        else fontObs f false
      | _ => "panic")
    | _, _ => "bad-op"
  | "mk" :: n :: h :: seed :: op :: extra => match n.toNat?, h.toNat?, seed.toNat? with
    | some n, some h, some seed => fontOps (mkFont n h seed) op extra
    | _, _, _ => "bad-op"
  | "mkx" :: n :: h :: hx :: op :: extra => match n.toNat?, h.toNat?, parseHex hx with
    | some n, some h, some bs => fontOps (mkFontHex n h bs) op extra
    | _, _, _ => "bad-op"
  | ["dcsload", hx] => match parseHex hx with
    | some s => (match loadCustomFont realCodec s with
      | .ok (slot, f) => s!"slot {slot} " ++ fontObs f (s.length ≤ 30000)
      | .err => "err"
      | .panic => "panic")
    | none => "bad-op"
  | ["basic", h, hx] => match h.toNat?, parseHex hx with
    | some h, some bs => fontObs (fromBasic 8 h bs) true
    | _, _ => "bad-op"
  | ["b64", hx] => match parseHex hx with
    | some bs => toHex (IcyVerif.B64.encode bs) ++ " " ++ (match IcyVerif.B64.decode (IcyVerif.B64.encode bs) with
        | some r => toString (decide (r = bs)) | none => "none")
    | none => "bad-op"
  | _ => "bad-op"

end IcyVerif.Drv.Font
