/-! Helpers for the line-protocol driver (import-free). -/
namespace IcyVerif.Drv

def hexDigit? (c : Char) : Option Nat :=
  if '0' ≤ c ∧ c ≤ '9' then some (c.toNat - '0'.toNat)
  else if 'a' ≤ c ∧ c ≤ 'f' then some (c.toNat - 'a'.toNat + 10)
  else if 'A' ≤ c ∧ c ≤ 'F' then some (c.toNat - 'A'.toNat + 10)
  else none

/-- "0a ff" style hex (no separators) → bytes; "-" is the empty string -/
def parseHex (s : String) : Option (List Nat) :=
  if s == "-" then some [] else
  let rec go : List Char → List Nat → Option (List Nat)
    | [], acc => some acc.reverse
    | [_], _ => none
    | a :: b :: rest, acc =>
      match hexDigit? a, hexDigit? b with
      | some x, some y => go rest ((x * 16 + y) :: acc)
      | _, _ => none
  go s.toList []

def hexChar (n : Nat) : Char :=
  if n < 10 then Char.ofNat ('0'.toNat + n) else Char.ofNat ('a'.toNat + n - 10)

def toHex (bs : List Nat) : String :=
  if bs.isEmpty then "-" else
  String.ofList (bs.foldr (fun b acc => hexChar (b / 16 % 16) :: hexChar (b % 16) :: acc) [])

def natsToString (xs : List Nat) : String := " ".intercalate (xs.map toString)
def intsToString (xs : List Int) : String := " ".intercalate (xs.map toString)

/-- 64-bit FNV-1a over a list of naturals (each folded in as 8 little-endian bytes) -/
def fnvStep (h : UInt64) (x : Nat) : UInt64 :=
  let rec go (k : Nat) (h : UInt64) (x : Nat) : UInt64 :=
    match k with
    | 0 => h
    | k+1 => go k ((h ^^^ (UInt64.ofNat (x % 256))) * 1099511628211) (x / 256)
  go 8 h x
def fnv (xs : List Nat) : UInt64 := xs.foldl fnvStep 14695981039346656037

end IcyVerif.Drv
