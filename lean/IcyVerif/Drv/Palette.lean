import IcyVerif.Model.Palette
import IcyVerif.Model.PaletteNamed
import IcyVerif.Model.PalStream
import IcyVerif.Drv.Util
/-! Line protocol of the palette model (`palette …`, C16).  Besides the RGB operations (`ops`), the codecs and the five text
    formats:

  nops <colours> <nops>        operations on STORED colours (with names): colours = `rrggbb[:namehex],…` | `-`;
                               nops = `i<rgb>[:name]` insert_color, `p<rgb>[:name]` push, `s<i>:<rgb>[:name]` set_color,
                               `l<i>` get_rgb, `d` is_default.  Answer: the answers (`t`/`f` for `d`), ` | `, length, final
                               colours with names (hashed when there are more than 20)
  nfile <fmt> <hex> <nops>     the same on the palette `load_palette(fmt, bytes)` returns; `err` when it does not load -/
namespace IcyVerif.Drv.Palette
open IcyVerif.Palette IcyVerif.Drv

def fmt? : String → Option Fmt
  | "hex" => some .hex
  | "pal" => some .pal
  | "gpl" => some .gpl
  | "ice" => some .ice
  | "txt" => some .txt
  | _ => none

def hex6 (c : Rgb) : String := toHex [c.r, c.g, c.b]

def rgb? (h : String) : Option Rgb :=
  match parseHex h with
  | some [r, g, b] => some ⟨r, g, b⟩
  | _ => none

/-- UTF-8 bytes (hex) -> code points; `none` when the bytes are not UTF-8 -/
def text? (h : String) : Option (List Nat) :=
  match parseHex h with
  | none => none
  | some bs =>
    match String.fromUTF8? (ByteArray.mk (bs.map UInt8.ofNat).toArray) with
    | some s => some (s.toList.map Char.toNat)
    | none => none

def utf8 (t : List Nat) : List Nat :=
  (String.ofList (t.map Char.ofNat)).toUTF8.toList.map UInt8.toNat

def textHex (t : List Nat) : String := toHex (utf8 t)

def op? (t : String) : Option Op :=
  match t.toList with
  | 'i' :: rest => (rgb? (String.ofList rest)).map Op.insert
  | 'p' :: rest => (rgb? (String.ofList rest)).map Op.push
  | 'l' :: rest => (String.ofList rest).toNat?.map Op.lookup
  | 's' :: rest =>
    match (String.ofList rest).splitOn ":" with
    | [i, c] => match i.toNat?, rgb? c with
      | some i, some c => some (Op.set i c)
      | _, _ => none
    | _ => none
  | _ => none

def ops? (s : String) : Option (List Op) :=
  if s == "-" then some [] else (s.splitOn ",").mapM op?

def showOut : Out → String
  | .idx i => toString i
  | .rgb c => hex6 c

def color? (t : String) : Option Color :=
  match t.splitOn ":" with
  | [c] => (rgb? c).map fun c => ⟨none, c⟩
  | [c, n] => match rgb? c, text? n with
    | some c, some n => some ⟨some n, c⟩
    | _, _ => none
  | _ => none

def colors? (s : String) : Option (List Color) :=
  if s == "-" then some [] else (s.splitOn ",").mapM color?

def showColors (cs : List Color) : String :=
  if cs.isEmpty then "-" else
  ",".intercalate (cs.map fun c => match c.name with
    | some n => hex6 c.rgb ++ ":" ++ textHex n
    | none => hex6 c.rgb)

def namedColor? (parts : List String) : Option Color :=
  match parts with
  | [c] => (rgb? c).map fun c => ⟨none, c⟩
  | [c, n] => match rgb? c, text? n with
    | some c, some n => some ⟨some n, c⟩
    | _, _ => none
  | _ => none

def nop? (t : String) : Option NOp :=
  match t.toList with
  | ['d'] => some NOp.isDefault
  | 'i' :: rest => (namedColor? ((String.ofList rest).splitOn ":")).map NOp.insert
  | 'p' :: rest => (namedColor? ((String.ofList rest).splitOn ":")).map NOp.push
  | 'l' :: rest => (String.ofList rest).toNat?.map NOp.lookup
  | 's' :: rest =>
    match (String.ofList rest).splitOn ":" with
    | i :: col => match i.toNat?, namedColor? col with
      | some i, some c => some (NOp.set i c)
      | _, _ => none
    | _ => none
  | _ => none

def nops? (s : String) : Option (List NOp) :=
  if s == "-" then some [] else (s.splitOn ",").mapM nop?

def showNOut : NOut → String
  | .idx i => toString i
  | .rgb c => hex6 c
  | .flag b => if b then "t" else "f"

def showNamed (start : List Color) (ops : List NOp) : String :=
  let t := traceN PalStream.dosDefault start ops
  let cols := showColors t.2
  (if t.1.isEmpty then "-" else " ".intercalate (t.1.map showNOut)) ++ " | " ++ toString t.2.length ++ " " ++
    (if t.2.length ≤ 20 then cols else "#" ++ toString (fnv (cols.toUTF8.toList.map UInt8.toNat)))

def showRes : Except String (List Rgb) → String
  | .ok p => toHex (asVec p)
  | .error site => "panic:" ++ site

def handle : List String → String
  | ["ops", init, ops] => match parseHex init, ops? ops with
    | some bs, some ops =>
      let t := trace (triples bs) ops
      (if t.1.isEmpty then "-" else " ".intercalate (t.1.map showOut)) ++ " | " ++ toString t.2.length ++ " " ++
        toString (fnv (asVec t.2))
    | _, _ => "bad-op"
  | ["nops", init, ops] => match colors? init, nops? ops with
    | some cs, some ops => showNamed cs ops
    | _, _ => "bad-op"
  | ["nfile", f, h, ops] => match fmt? f, nops? ops with
    | some f, some ops => match text? h with
      | none => "err"
      | some s => match importM f s with
        | none => "err"
        | some p => showNamed p.colors ops
    | _, _ => "bad-op"
  | ["from63", h] => match parseHex h with
    | some bs => showRes (from63 bs)
    | none => "bad-op"
  | ["asvec63", h] => match parseHex h with
    | some bs => toHex (asVec63 (triples bs))
    | none => "bad-op"
  | ["egafrom", h] => match parseHex h with
    | some bs => showRes (fromEga bs)
    | none => "bad-op"
  | ["egato", h] => match parseHex h with
    | some bs => toHex (toEga (triples bs))
    | none => "bad-op"
  | ["export", f, t, a, d, cs] => match fmt? f, text? t, text? a, text? d, colors? cs with
    | some f, some t, some a, some d, some cs =>
      let bytes := utf8 (exportM f ⟨t, a, d, cs⟩)
      toString bytes.length ++ " " ++ toString (fnv bytes)
    | _, _, _, _, _ => "bad-op"
  | ["import", f, h] => match fmt? f with
    | none => "bad-op"
    | some f => match text? h with
      | none => "err"
      | some s => match importM f s with
        | none => "err"
        | some p => "ok " ++ textHex p.title ++ " " ++ textHex p.author ++ " " ++ textHex p.description ++ " " ++
            showColors p.colors
  | ["importext", e, h] => match text? e with
    | none => "bad-op"
    | some ext => match text? h with
      | none => "err"
      | some s => match importByExt ext s with
        | none => "err"
        | some p => "ok " ++ textHex p.title ++ " " ++ textHex p.author ++ " " ++ textHex p.description ++ " " ++
            showColors p.colors
  | ["tohex", c] => match rgb? c with
    | some c => textHex (colorToHex c)
    | none => "bad-op"
  | ["fromhex", h] => match text? h with
    | none => "bad-op"
    | some s => match colorFromHex s with
      | some c => hex6 c
      | none => "err"
  | _ => "bad-op"

end IcyVerif.Drv.Palette
