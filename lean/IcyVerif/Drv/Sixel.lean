import IcyVerif.Model.Sixel
import IcyVerif.Drv.Util
namespace IcyVerif.Drv.Sixel
open IcyVerif.Sixel IcyVerif.Drv

/-- the enclosing Rust function and the panic class of a site (what the harness derives from the panic
    location and message) -/
def siteFn : Site → String
  | .rowIndex | .pixelIndex => "sixel_mod.rs::translate_sixel_to_pixel:index"
  | .paletteMod => "sixel_mod.rs::translate_sixel_to_pixel:rem-zero"
  | .numIndex => "sixel_mod.rs::parse_char:index"

def errName : Err → String
  | .invalidSixelChar => "InvalidSixelChar"
  | .invalidColor => "InvalidColorInSixelSequence"
  | .unsupportedColorFormat => "UnsupportedSixelColorformat"
  | .invalidPictureSize => "InvalidPictureSize"
  | .numberMissing => "NumberMissingInSixelRepeat"

def showImg : Out Img → String
  | .ok i => s!"ok {i.w} {i.h} {i.dataLen}"
  | .err e => "err " ++ errName e
  | .panic p => "panic " ++ siteFn p
  | .huge => "huge"

/-- payload bytes are code points 0..255 -/
def chars (bs : List Nat) : List Char := bs.map Char.ofNat

def handle : List String → String
  | ["parse", h] => match parseHex h with
    | some bs => showImg (parse (chars bs))
    | none => "bad-op"
  -- the pinned (pre-fix) concatenation, for documentation of the defect
  | ["pinned", h] => match parseHex h with
    | some bs => showImg (parsePinned (chars bs))
    | none => "bad-op"
  | _ => "bad-op"

end IcyVerif.Drv.Sixel
