import IcyVerif.Model.LoaderCost
import IcyVerif.Model.Sixel
import IcyVerif.Drv.Loaders
/-! Line protocol for the loader cost models of C03 (`loadercost …`).

  fb <ext> <dateOk> <hexr>     `Buffer::from_bytes` of `f.<ext>` with counters: `ok <lines> <cells>` (cells = rows allocated by
                               `Layer::set_char` x layer width) | `err` | `panic:<fn>` | `text` (not a binary art format)
  icy <kw>=<hexr>@<f>,…        IcyDraw chunk payloads in order: `ok <layers> <rows> <cells>` (rows = the counter, cells = sum over
                               the layers of lines x declared width) | `err` | `panic:<fn>`
  sixel <hex>                  `Sixel::parse_from` on the payload (bytes = code points): `ok <w> <h> <bytes>` | `err` | `panic` | `huge`
  cost fb|icy|tdf …            the same inputs, answered with the counters `work rows extra` (not observable on the real code;
                               used by the harness only to print the model's numbers into the evidence) -/
namespace IcyVerif.Drv.LoaderCost
open IcyVerif.Bytes IcyVerif.Loaders IcyVerif.LoaderCost IcyVerif.Drv IcyVerif.Drv.Loaders

def showFb (x : RC Obs) : String :=
  match x.res with
  | .ok (.geo g) => s!"ok {g.lines} {x.rows * g.lw.toNat}"
  | .ok .text => "text"
  | .err => "err"
  | .panic s => "panic:" ++ s

def showIcyC (x : RC IcySt) : String :=
  match x.res with
  | .ok st => s!"ok {st.layers.size} {x.rows} {st.layers.foldl (fun acc l => acc + l.lines * l.w.toNat) 0}"
  | .err => "err"
  | .panic s => "panic:" ++ s

def showCost {α : Type} (x : RC α) : String :=
  let cls := match x.res with | .ok _ => "ok" | .err => "err" | .panic _ => "panic"
  s!"{cls} {x.work} {x.rows} {x.extra}"

def parseChunks (cs : String) : Option (List (String × Bytes × Foreign)) :=
  if cs.isEmpty then some [] else (cs.splitOn ",").mapM parseChunk

def showSixel : IcyVerif.Sixel.Out IcyVerif.Sixel.Img → String
  | .ok i => s!"ok {i.w} {i.h} {i.dataLen}"
  | .err _ => "err"
  | .panic _ => "panic"
  | .huge => "huge"

def handle : List String → String
  | ["sixel", hx] =>
    match parseHex hx with
    | some bs => showSixel (IcyVerif.Sixel.parse (bs.map Char.ofNat))
    | none => "bad-op"
  | ["fb", ext, df, hx] =>
    match parseHexR hx with
    | some d => showFb (fromBytesC d ext (df != "0"))
    | none => "bad-op"
  | ["icy", cs] =>
    match parseChunks cs with
    | some chunks => showIcyC (loadIcyC chunks)
    | none => "bad-op"
  | ["cost", "fb", ext, df, hx] =>
    match parseHexR hx with
    | some d => showCost (fromBytesC d ext (df != "0"))
    | none => "bad-op"
  | ["cost", "icy", cs] =>
    match parseChunks cs with
    | some chunks => showCost (loadIcyC chunks)
    | none => "bad-op"
  | ["cost", "tdf", hx] =>
    match parseHexR hx with
    | some d => showCost (loadTdfC d)
    | none => "bad-op"
  | _ => "bad-op"

end IcyVerif.Drv.LoaderCost
