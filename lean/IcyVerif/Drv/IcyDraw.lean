import IcyVerif.Model.IcyDraw
import IcyVerif.Model.IcyDrawFont
import IcyVerif.Model.Unicode
import IcyVerif.Drv.Util
/-! Line-protocol handler for the IcyDraw model (C07).  Request lines start with `icydraw`. -/
namespace IcyVerif.Drv.IcyDraw
open IcyVerif.IcyDraw IcyVerif.Drv

def failName : Fail → String
  | .errLength => "errLength" | .errOob => "errOob" | .errMode => "errMode" | .errHeader => "errHeader"
  | .errCodec => "errCodec" | .panic => "panic" | .imageLayer => "imageLayer"
  | .negSize => "negSize"

def nat? (s : String) : Option Nat := s.toNat?
def int? (s : String) : Option Int := s.toInt?

/-- `n` cells of five numbers each -/
def parseCells : Nat → List String → List Cell → Option (List Cell × List String)
  | 0, ts, acc => some (acc.reverse, ts)
  | n+1, a :: b :: c :: d :: e :: ts, acc =>
    match nat? a, nat? b, nat? c, nat? d, nat? e with
    | some a, some b, some c, some d, some e => parseCells n ts (⟨a, b, c, d, e⟩ :: acc)
    | _, _, _, _, _ => none
  | _, _, _ => none

def parseLines : Nat → List String → List (List Cell) → Option (List (List Cell) × List String)
  | 0, ts, acc => some (acc.reverse, ts)
  | n+1, len :: ts, acc =>
    match nat? len with
    | some len => match parseCells len ts [] with
      | some (cs, ts') => parseLines n ts' (cs :: acc)
      | none => none
    | none => none
  | _, _, _ => none

def parseColor (s : String) : Option (Option (Nat × Nat × Nat)) :=
  if s == "-" then some none else
  match parseHex s with
  | some [r, g, b] => some (some (r, g, b))
  | _ => none

def parseLayer : List String → Option (Layer × List String)
  | t :: role :: mode :: color :: flags :: tr :: ox :: oy :: w :: h :: dp :: nl :: rest =>
    match parseHex (t.drop 1).toString, nat? role, nat? mode, parseColor color, nat? tr, int? ox, int? oy, nat? w, nat? h, nat? dp, nat? nl with
    | some title, some role, some mode, some color, some tr, some ox, some oy, some w, some h, some dp, some nl =>
      match flags.toList, parseLines nl rest [] with
      | [a, b, c, d, e], some (lines, rest') =>
        some ({ title := title, role := role, mode := mode, color := color,
                isVisible := a == '1', isLocked := b == '1', isPosLocked := c == '1', hasAlpha := d == '1',
                isAlphaLocked := e == '1', transparency := tr, offX := ox, offY := oy, width := w, height := h,
                defaultPage := dp, lines := lines }, rest')
      | _, _ => none
    | _, _, _, _, _, _, _, _, _, _, _ => none
  | _ => none

def hex2 (n : Nat) : String := String.ofList [hexChar (n / 16 % 16), hexChar (n % 16)]

def b01 (b : Bool) : String := if b then "1" else "0"

def layerFields (l : Layer) : String :=
  "T" ++ toHex (IcyVerif.Uni.lossyBytes l.title) ++ " " ++ toString l.role ++ " " ++ toString l.mode ++ " " ++
  (match l.color with | some (r, g, b) => hex2 r ++ hex2 g ++ hex2 b | none => "-") ++ " " ++
  b01 l.isVisible ++ b01 l.isLocked ++ b01 l.isPosLocked ++ b01 l.hasAlpha ++ b01 l.isAlphaLocked ++ " " ++
  toString l.transparency ++ " " ++ toString l.offX ++ " " ++ toString l.offY ++ " " ++
  toString l.width ++ " " ++ toString l.height ++ " " ++ toString l.defaultPage

def cellNums (c : Cell) : List Nat := [c.ch, c.fg, c.bg, c.page, c.attr]

def lineNums (l : Layer) : List Nat :=
  l.lines.length :: l.lines.flatMap fun ln => ln.length :: ln.flatMap cellNums

def layerDigest (l : Layer) : String :=
  let total := (l.lines.map List.length).sum
  if total ≤ 400 then layerFields l ++ " " ++ natsToString (lineNums l)
  else layerFields l ++ " " ++ toString l.lines.length ++ " H" ++ toString (fnv (lineNums l))

def payloadDigest (p : Bytes) : String :=
  if p.length ≤ 256 then toString p.length ++ ":" ++ toHex p
  else toString p.length ++ ":H" ++ toString (fnv p)

def parseHexAll : List String → Option (List Bytes)
  | [] => some []
  | h :: t => match parseHex h, parseHexAll t with
    | some b, some r => some (b :: r)
    | _, _ => none

def keyOfString (s : String) : Key :=
  if s == "ICED" then .iced else if s == "SAUCE" then .sauce else if s == "PALETTE" then .palette
  else if s == "END" then .end_
  else if s.startsWith "FONT_" then
    match (s.drop 5).toString.toNat? with
    | some n => .font n
    | none => .fontBad
  else if s.startsWith "LAYER_" then
    match (s.drop 6).toString.splitOn "~" with
    | [n] => match n.toNat? with | some n => .layer n | none => .layer 0
    | [n, k] => match n.toNat?, k.toNat? with
      | some n, some k => .layerCont n k
      | _, _ => .layer 0
    | _ => .layer 0
  else .other

def keyToString : Key → String
  | .iced => "ICED" | .sauce => "SAUCE" | .palette => "PALETTE" | .font n => "FONT_" ++ toString n
  | .fontBad => "FONT_?" | .layer n => "LAYER_" ++ toString n
  | .layerCont n k => "LAYER_" ++ toString n ++ "~" ++ toString k | .end_ => "END" | .other => "?"

/-- opaque payload codecs for the dispatch tie: fonts, sauce and palette contents are not looked at -/
def drvCodecs : Codecs Unit Unit :=
  { palEnc := fun _ => [], palDec := fun _ => .ok [], fontName := fun _ => [], fontData := fun _ => [],
    fontDec := fun _ _ => .ok (), sauceDec := fun _ => .ok (some ()), defaultFont := () }

def rgbOfBytes : Bytes → List RGB
  | r :: g :: b :: rest => (r, g, b) :: rgbOfBytes rest
  | _ => []

def insertSorted (x : Nat) : List Nat → List Nat
  | [] => [x]
  | y :: ys => if x ≤ y then x :: y :: ys else y :: insertSorted x ys
def sortNats (xs : List Nat) : List Nat := xs.foldr insertSorted []

def parseKV (t : String) : Option (String × Bytes) :=
  match t.splitOn "=" with
  | [k, v] => (parseHex v).map fun b => (k, b)
  | _ => none

def parseKVs : List String → Option (List (String × Bytes))
  | [] => some []
  | t :: ts => match parseKV t, parseKVs ts with
    | some kv, some r => some (kv :: r)
    | _, _ => none

/-- a slot font as the harness describes it: `BitFont::create_8(name, w, h, data)` with `length` set afterwards
    (`glyphs_from_u8_data` cuts all of `data`, so 512-glyph fonts are built the same way) -/
def mkSlotFont (name : Bytes) (w h length : Nat) (data : Bytes) : SlotFont :=
  ⟨name, { w := w, h := h, length := length, glyphs := Font.glyphsFromU8 h data }⟩

/-- name, width, height, length, number of glyphs, hash of their codes, hash of (row count, rows) per glyph in code order -/
def slotFontObs (f : SlotFont) : String :=
  let keyed := (f.font.glyphs.zipIdx).filterMap fun p => match p.1 with | some g => some (p.2, g) | none => none
  "ok " ++ toHex f.name ++ " " ++ toString f.font.w ++ " " ++ toString f.font.h ++ " " ++ toString f.font.length ++ " " ++
  toString keyed.length ++ " " ++ toString (fnv (keyed.map (·.1))) ++ " " ++
  toString (fnv (keyed.flatMap fun kg => kg.2.length :: kg.2))

def handle : List String → String
  | ["encfont", name, w, h, len, data] =>
    match parseHex name, nat? w, nat? h, nat? len, parseHex data with
    | some name, some w, some h, some len, some data =>
      match encodeFontChunk (mkSlotFont name w h len data) with
      | some p => "ok " ++ payloadDigest p
      | none => "none"
    | _, _, _, _, _ => "bad-op"
  | ["decfont", hx] =>
    match parseHex hx with
    | some b => match decodeFontChunk b with
      | .ok f => slotFontObs f
      | .fail e => "fail:" ++ failName e
    | none => "bad-op"
  | ["enchdr", bt, ice, pal, font, w, h] =>
    match nat? bt, nat? ice, nat? pal, nat? font, nat? w, nat? h with
    | some bt, some ice, some pal, some font, some w, some h => toHex (encodeHeader ⟨bt, ice, pal, font, w, h⟩)
    | _, _, _, _, _, _ => "bad-op"
  | ["dechdr", hx] =>
    match parseHex hx with
    | some b => match decodeHeader b with
      | .ok h => "ok " ++ natsToString [h.bufferType, h.iceMode, h.paletteMode, h.fontMode, h.width, h.height]
      | .fail e => "fail:" ++ failName e
    | none => "bad-op"
  | "enc" :: rest =>
    match parseLayer rest with
    | some (l, []) => match encodeLayer l with
      | some cs => "ok " ++ " ".intercalate (cs.map payloadDigest)
      | none => "none"
    | _ => "bad-op"
  | "dec" :: rest =>
    match parseHexAll rest with
    | some cs => match decodeLayer cs with
      | .ok l => "ok " ++ layerDigest l
      | .fail e => "fail:" ++ failName e
    | none => "bad-op"
  | "keys" :: bt :: ice :: pal :: font :: w :: h :: sauce :: p :: f :: counts =>
    match nat? bt, nat? ice, nat? pal, nat? font, nat? w, nat? h, parseHex (let q := (p.drop 1).toString; if q.isEmpty then "-" else q) with
    | some bt, some ice, some pal, some font, some w, some h, some pb =>
      let slots := ((f.drop 1).toString.splitOn ",").filterMap String.toNat?
      let d : Doc Unit Unit :=
        { hdr := ⟨bt, ice, pal, font, w, h⟩, sauce := if sauce == "1" then some ((), []) else none,
          palette := rgbOfBytes pb, fonts := slots.map fun s => (s, ()), layers := [] }
      let ls := (counts.filterMap String.toNat?).map fun n => List.replicate n ([] : Bytes)
      " ".intercalate ((assemble drvCodecs d ls).map fun kb => keyToString kb.1)
    | _, _, _, _, _, _, _ => "bad-op"
  | "load" :: rest =>
    match parseKVs rest with
    | some kvs =>
      let chunks := kvs.map fun kv => (keyOfString kv.1, kv.2)
      match decodeDoc drvCodecs chunks with
      | .ok st =>
        let cand := sortNats ((0 :: chunks.filterMap fun kb => match kb.1 with | .font n => some n | _ => none).eraseDups)
        let slots := cand.filter fun k => (st.fontAt k).isSome
        "ok " ++ natsToString [st.hdr.bufferType, st.hdr.iceMode, st.hdr.paletteMode, st.hdr.fontMode, st.hdr.width, st.hdr.height] ++
        " sauce=" ++ b01 st.sauce.isSome ++ " pal=" ++ b01 (st.palette != Gen.Icy.dosDefaultPalette) ++
        " fonts=" ++ ",".intercalate (slots.map toString) ++ " layers=" ++ toString st.layers.length
      | .fail e => "fail:" ++ failName e
    | none => "bad-op"
  | _ => "bad-op"

end IcyVerif.Drv.IcyDraw
