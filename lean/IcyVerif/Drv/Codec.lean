import IcyVerif.Model.Codec
import IcyVerif.Drv.Util
namespace IcyVerif.Drv.Codec
open IcyVerif.Codec IcyVerif.Drv

def conv? : String → Option Conv
  | "cp437" => some .cp437
  | "atascii" => some .atascii
  | "petscii" => some .petscii
  | "viewdata" => some .viewdata
  | "mode7" => some .mode7
  | _ => none

def showAttr (a : Attr) : String := natsToString [a.fg, a.bg, a.flags, a.page]

def handle : List String → String
  | ["dec", m, b] => match m.toNat?, b.toNat? with
    | some m, some b => showAttr (fromU8 (IceMode.ofByte m) b)
    | _, _ => "bad-op"
  | ["rt", m, b] => match m.toNat?, b.toNat? with
    | some m, some b => toString (asU8 (IceMode.ofByte m) (fromU8 (IceMode.ofByte m) b))
    | _, _ => "bad-op"
  | ["enc", m, fg, bg, fl] => match m.toNat?, fg.toNat?, bg.toNat?, fl.toNat? with
    | some m, some fg, some bg, some fl => toString (asU8 (IceMode.ofByte m) ⟨fg, bg, fl, 0⟩)
    | _, _, _, _ => "bad-op"
  | ["touni", c, code] => match conv? c, code.toNat? with
    | some c, some code => toString (toUni c code)
    | _, _ => "bad-op"
  | ["fromuni", c, cp] => match conv? c, cp.toNat? with
    | some c, some cp => toString (fromUni c cp)
    | _, _ => "bad-op"
  | _ => "bad-op"

end IcyVerif.Drv.Codec
