import IcyVerif.Model.RipCanvas
import IcyVerif.Drv.Rip
/-! Line protocol for the RIP canvas model (lexer + BGI canvas + exposed picture):
`ripc run <hex stream> <fallback classes> <observed outcome letters>` →
`<canvas hash> <picture length | none> <picture hash> <final lexer digest> ok|bad@<i>` or `panic@<i>` / `stall@<i>` /
`unmodelled@<i>`. -/
namespace IcyVerif.Drv.Ripc
open IcyVerif.Rip IcyVerif.RipCanvas IcyVerif.Drv

def canvasHash (a : Array Nat) : UInt64 :=
  a.foldl (fun h v => (h ^^^ UInt64.ofNat (v % 256)) * 1099511628211) 14695981039346656037

def bytesHash (l : List Nat) : UInt64 :=
  l.foldl (fun h v => (h ^^^ UInt64.ofNat (v % 256)) * 1099511628211) 14695981039346656037

def agrees (o : COut) (c : Char) : Bool :=
  match o with
  | .lexer o => Drv.Rip.agrees o c
  | .ran true => c == 'u'
  | .ran false => c == 'n'
  | .ranErr => c == 'e'

inductive LoopRes where
  | done (s : St) (bad : Option Nat)
  | stop (msg : String)

def loop (T : Table) : St → List (Nat × Fb × Char) → Nat → Option Nat → LoopRes
  | s, [], _, bad => .done s bad
  | s, (ch, fb, oc) :: rest, i, bad =>
    match RipCanvas.step T s ch fb with
    | .panic => .stop s!"panic@{i}"
    | .stall => .stop s!"stall@{i}"
    | .unmodelled => .stop s!"unmodelled@{i}"
    | .ok s' o =>
      let bad := match bad with | some b => some b | none => if agrees o oc then none else some i
      loop T s' rest (i + 1) bad

def handle : List String → String
  | ["run", hx, cls, outs] =>
    match parseHex hx with
    | none => "bad-op"
    | some bs =>
      let cl : List String := if cls == "-" then [] else cls.splitOn ","
      let os : List Char := if outs == "-" then [] else outs.toList
      match cl.mapM Drv.Rip.parseFb with
      | none => "bad-op"
      | some fbs =>
        if fbs.length ≠ bs.length ∨ os.length ≠ bs.length then "bad-op" else
        match loop genTable St.init (bs.zip (fbs.zip os)) 0 none with
        | .stop msg => msg
        | .done s bad =>
          let verdict := match bad with | none => "ok" | some i => s!"bad@{i}"
          -- `get_picture_data`: `None` while no command has run since the last call
          let pic :=
            if s.lex.counter = 0 then "none 0"
            else
              -- length and hash of `pictureData s.bgi`, folded without building the list (`Bgi.picFold_eq`)
              let r := Bgi.picFold (fun (a : Nat × UInt64) v => (a.1 + 1, (a.2 ^^^ UInt64.ofNat (v % 256)) * 1099511628211))
                (0, 14695981039346656037) s.bgi
              s!"{r.1} {r.2}"
          s!"{canvasHash s.bgi.screen} {pic} {Drv.Rip.digestText genTable s.lex} {verdict}"
  | _ => "bad-op"

end IcyVerif.Drv.Ripc
