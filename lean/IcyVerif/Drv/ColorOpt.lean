import IcyVerif.Model.ColorOpt
import IcyVerif.Drv.Comp
/-! Line protocol of the colour-optimiser model (C12).

`coloropt doc <norm> <isTerm> <W> <H> <nfonts> {page w h}* <nglyphs> {page ch nrows row*}* <npal> {colour r g b}*
              <nhb> {page ch upperIsFg lowerIsFg}* <nlayers> {layer}*`   (layer / cell syntax of `comp get`)
  → `<cells of optimize(buf).layers[0], row by row>|<fnv of render_to_rgba(buf)> <fnv of render_to_rgba(optimize(buf))>`
  (`panic` in place of a part whose computation panics)
`coloropt fontsum ansi <slot> | sauce <index> | other <index>` → `w h n fnv(lens) fnv(ones) fnv(full)` of the
  regenerated summary of that built-in font. -/
namespace IcyVerif.Drv.ColorOpt
open IcyVerif.Comp IcyVerif.ColorOpt IcyVerif.Drv IcyVerif.Drv.Comp IcyVerif.Gen.Fonts

def fontEntry : P (Nat × Nat × Nat)
  | p :: w :: h :: xs => if p < 0 || w < 0 || h < 0 then none else some ((p.toNat, w.toNat, h.toNat), xs)
  | _ => none

def glyphEntry : P ((Nat × Nat) × List Nat)
  | p :: ch :: n :: xs =>
    if p < 0 || ch < 0 || n < 0 then none else
    match many nat n.toNat xs with
    | none => none
    | some (rows, xs) => some (((p.toNat, ch.toNat), rows), xs)
  | _ => none

def palEntry : P (Nat × Rgb)
  | c :: r :: g :: b :: xs =>
    if c < 0 || r < 0 || g < 0 || b < 0 then none else some ((c.toNat, (r.toNat, g.toNat, b.toNat)), xs)
  | _ => none

def counted {α : Type} (p : P α) : P (List α) := fun xs =>
  match nat xs with
  | none => none
  | some (n, xs) => many p n xs

def mkFonts (sizes : List (Nat × Nat × Nat)) (glyphs : List ((Nat × Nat) × List Nat)) : Nat → Option Font :=
  fun page => match sizes.lookup page with
    | none => none
    | some (w, h) => some ⟨w, h, fun ch => glyphs.lookup (page, ch)⟩

def mkPal (tbl : List (Nat × Rgb)) : Nat → Rgb := fun c => (tbl.lookup c).getD (999, 999, 999)

def showRows (rows : List (List Cell)) : String :=
  " ".intercalate (rows.flatMap fun r => r.map showCell)

def imageHash (blocks : List (List (List (List Px)))) (h0 : Nat) : String :=
  if hasPanic blocks then "panic" else toString (fnv (imageBytes blocks h0))

def doc (xs : List Int) : Option String :=
  match xs with
  | norm :: t :: w :: h :: xs =>
    if w < 0 || h < 0 then none else
    match counted fontEntry xs with
    | none => none
    | some (sizes, xs) =>
    match counted glyphEntry xs with
    | none => none
    | some (glyphs, xs) =>
    match counted palEntry xs with
    | none => none
    | some (pal, xs) =>
    match counted hbEntry xs with
    | none => none
    | some (hbt, xs) =>
    match counted layer xs with
    | some (stack, []) =>
      let fonts := mkFonts sizes glyphs
      let palf := mkPal pal
      let hb := hbOf hbt
      let W := w.toNat
      let H := h.toNat
      let isTerm := t != 0
      match fonts 0 with
      | none => some "panic"          -- get_font(0).unwrap() (render) — optimise itself needs no font 0
      | some f0 =>
        let orig := renderDoc fonts palf f0.w f0.h (fun x y => getChar hb isTerm stack x y) W H
        match optimizeDoc fonts (norm != 0) hb isTerm stack W H with
        | none => some ("panic|" ++ imageHash orig f0.h ++ " panic")
        | some cells =>
          let opt := renderDoc fonts palf f0.w f0.h (fun x y => getChar hb isTerm [flatLayer W H cells] x y) W H
          some (showRows cells ++ "|" ++ imageHash orig f0.h ++ " " ++ imageHash opt f0.h)
    | _ => none
  | _ => none

def showSum (s : FontSum) : String :=
  toString s.w ++ " " ++ toString s.h ++ " " ++ toString s.lens.length ++ " " ++ toString (fnv s.lens) ++ " "
    ++ toString (fnv s.ones) ++ " " ++ toString (fnv s.full)

def handle : List String → String
  | "doc" :: rest => match ints rest with
    | some xs => (doc xs).getD "bad-op"
    | none => "bad-op"
  | ["fontsum", "ansi", n] => match n.toNat? with
    | some n => match ansiFonts.lookup n with
      | some s => showSum s
      | none => "none"
    | none => "bad-op"
  | ["fontsum", "sauce", n] => match n.toNat? with
    | some n => match sauceFonts[n]? with
      | some s => showSum s
      | none => "none"
    | none => "bad-op"
  | ["fontsum", "other", n] => match n.toNat? with
    | some n => match otherFonts[n]? with
      | some s => showSum s
      | none => "none"
    | none => "bad-op"
  | _ => "bad-op"

end IcyVerif.Drv.ColorOpt
