import IcyVerif.Model.ColorOpt
import IcyVerif.Model.ColorOptSixel
import IcyVerif.Drv.Comp
/-! Line protocol of the colour-optimiser model (C12).

`coloropt doc <norm> <isTerm> <W> <H> <nfonts> {page w h}* <nglyphs> {page ch nrows row*}* <npal> {colour r g b}*
              <nhb> {page ch upperIsFg lowerIsFg}* <nlayers> {layer}*`   (layer / cell syntax of `comp get`)
  → `<cells of optimize(buf).layers[0], row by row>|<fnv of render_to_rgba(buf)> <fnv of render_to_rgba(optimize(buf))>`
  (`panic` in place of a part whose computation panics)
`coloropt sdoc <as doc> <nsixels> {layer px py w h a b len}*`
  → `<cells>|<fnv of the full render_to_rgba(buf)> <… of buf without its sixels> <… of optimize(buf)> sixels=0`
`coloropt fontsum ansi <slot> | sauce <index> | other <index>` → `w h n fnv(lens) fnv(ones) fnv(full)` of the
  regenerated summary of that built-in font. -/
namespace IcyVerif.Drv.ColorOpt
open IcyVerif.Comp IcyVerif.ColorOpt IcyVerif.Drv IcyVerif.Drv.Comp IcyVerif.Gen.Fonts

def fontEntry : P (Nat × Nat × Nat)
  | p :: w :: h :: xs => if p < 0 || w < 0 || h < 0 then none else some ((p.toNat, w.toNat, h.toNat), xs)
  | _ => none

def glyphEntry : P ((Nat × Nat) × List Nat)
  | p :: ch :: n :: xs =>
    if p < 0 || ch < 0 || n < 0 then none else
    match many nat n.toNat xs with
    | none => none
    | some (rows, xs) => some (((p.toNat, ch.toNat), rows), xs)
  | _ => none

def palEntry : P (Nat × Rgb)
  | c :: r :: g :: b :: xs =>
    if c < 0 || r < 0 || g < 0 || b < 0 then none else some ((c.toNat, (r.toNat, g.toNat, b.toNat)), xs)
  | _ => none

def counted {α : Type} (p : P α) : P (List α) := fun xs =>
  match nat xs with
  | none => none
  | some (n, xs) => many p n xs

def mkFonts (sizes : List (Nat × Nat × Nat)) (glyphs : List ((Nat × Nat) × List Nat)) : Nat → Option Font :=
  fun page => match sizes.lookup page with
    | none => none
    | some (w, h) => some ⟨w, h, fun ch => glyphs.lookup (page, ch)⟩

def mkPal (tbl : List (Nat × Rgb)) : Nat → Rgb := fun c => (tbl.lookup c).getD (999, 999, 999)

def showRows (rows : List (List Cell)) : String :=
  " ".intercalate (rows.flatMap fun r => r.map showCell)

def imageHash (blocks : List (List (List (List Px)))) (h0 : Nat) : String :=
  if hasPanic blocks then "panic" else toString (fnv (imageBytes blocks h0))

structure Parsed where
  norm : Bool
  isTerm : Bool
  W : Nat
  H : Nat
  fonts : Nat → Option Font
  pal : Nat → Rgb
  hb : Cell → Nat × Nat
  stack : List Layer

def parseDoc (xs : List Int) : Option (Parsed × List Int) :=
  match xs with
  | norm :: t :: w :: h :: xs =>
    if w < 0 || h < 0 then none else
    match counted fontEntry xs with
    | none => none
    | some (sizes, xs) =>
    match counted glyphEntry xs with
    | none => none
    | some (glyphs, xs) =>
    match counted palEntry xs with
    | none => none
    | some (pal, xs) =>
    match counted hbEntry xs with
    | none => none
    | some (hbt, xs) =>
    match counted layer xs with
    | some (stack, rest) =>
      some (⟨norm != 0, t != 0, w.toNat, h.toNat, mkFonts sizes glyphs, mkPal pal, hbOf hbt, stack⟩, rest)
    | none => none
  | _ => none

def doc (xs : List Int) : Option String :=
  match parseDoc xs with
  | some (d, []) =>
      match d.fonts 0 with
      | none => some "panic"          -- get_font(0).unwrap() (render) — optimise itself needs no font 0
      | some f0 =>
        let orig := renderDoc d.fonts d.pal f0.w f0.h (fun x y => getChar d.hb d.isTerm d.stack x y) d.W d.H
        match optimizeDoc d.fonts d.norm d.hb d.isTerm d.stack d.W d.H with
        | none => some ("panic|" ++ imageHash orig f0.h ++ " panic")
        | some cells =>
          let opt := renderDoc d.fonts d.pal f0.w f0.h (fun x y => getChar d.hb d.isTerm [flatLayer d.W d.H cells] x y) d.W d.H
          some (showRows cells ++ "|" ++ imageHash orig f0.h ++ " " ++ imageHash opt f0.h)
  | _ => none

/-- `<layer index> <px> <py> <w> <h> <a> <b> <len>`: a sixel on that layer, `picture_data[i] = (a·i + b) % 256` -/
def sixelEntry (stack : List Layer) : P SixelImg
  | li :: px :: py :: w :: h :: a :: b :: len :: xs =>
    if li < 0 || w < 0 || h < 0 || a < 0 || b < 0 || len < 0 then none else
    match stack[li.toNat]? with
    | none => none
    | some l =>
      some (⟨l.offX, l.offY, px, py, w.toNat, h.toNat,
             (List.range len.toNat).map fun i => (a.toNat * i + b.toNat) % 256⟩, xs)
  | _ => none

def fullHash : Option (List Nat) → String
  | none => "panic"
  | some bytes => toString (fnv bytes)

/-- documents with sixels: the complete `render_to_rgba` (both loops) of the original, of the original without its
    sixels, and of the optimised buffer, which has no sixels -/
def sdoc (xs : List Int) : Option String :=
  match parseDoc xs with
  | some (d, rest) =>
    match counted (sixelEntry d.stack) rest with
    | some (sixels, []) =>
      match d.fonts 0 with
      | none => some "panic"
      | some f0 =>
        let cellAt := fun (x y : Int) => getChar d.hb d.isTerm d.stack x y
        let full := renderFull d.fonts d.pal f0.w f0.h cellAt d.W d.H sixels
        let text := renderFull d.fonts d.pal f0.w f0.h cellAt d.W d.H []
        match optimizeDoc d.fonts d.norm d.hb d.isTerm d.stack d.W d.H with
        | none => some ("panic|" ++ fullHash full ++ " " ++ fullHash text ++ " panic sixels=0")
        | some cells =>
          let opt := renderFull d.fonts d.pal f0.w f0.h (fun x y => getChar d.hb d.isTerm [flatLayer d.W d.H cells] x y) d.W d.H []
          some (showRows cells ++ "|" ++ fullHash full ++ " " ++ fullHash text ++ " " ++ fullHash opt ++ " sixels=0")
    | _ => none
  | none => none

def showSum (s : FontSum) : String :=
  toString s.w ++ " " ++ toString s.h ++ " " ++ toString s.lens.length ++ " " ++ toString (fnv s.lens) ++ " "
    ++ toString (fnv s.ones) ++ " " ++ toString (fnv s.full)

def handle : List String → String
  | "doc" :: rest => match ints rest with
    | some xs => (doc xs).getD "bad-op"
    | none => "bad-op"
  | "sdoc" :: rest => match ints rest with
    | some xs => (sdoc xs).getD "bad-op"
    | none => "bad-op"
  | ["fontsum", "ansi", n] => match n.toNat? with
    | some n => match ansiFonts.lookup n with
      | some s => showSum s
      | none => "none"
    | none => "bad-op"
  | ["fontsum", "sauce", n] => match n.toNat? with
    | some n => match sauceFonts[n]? with
      | some s => showSum s
      | none => "none"
    | none => "bad-op"
  | ["fontsum", "other", n] => match n.toNat? with
    | some n => match otherFonts[n]? with
      | some s => showSum s
      | none => "none"
    | none => "bad-op"
  | _ => "bad-op"

end IcyVerif.Drv.ColorOpt
