import IcyVerif.Model.Unicode
import IcyVerif.Drv.Util
namespace IcyVerif.Drv.Uni
open IcyVerif.Uni IcyVerif.Drv IcyVerif.Gen.Unsafe

def hex4 (n : Nat) : String :=
  let d (k : Nat) : Char := (hexChar (n / k % 16)).toUpper
  String.ofList [d 4096, d 256, d 16, d 1]

def parseCps (s : String) : Option (List Nat) :=
  if s == "-" then some [] else (s.splitOn ",").mapM (·.toNat?)

def handle : List String → String
  | ["fill", n] => match n.toInt? with
    | some n => (match fillChar n with | some c => s!"ok {c}" | none => "err")
    | none => "bad-op"
  | ["hexmacro", cps] => match parseCps cps with
    | some cs => (match hexMacro hexTable cs with
      | some body => s!"ok {hex4 (macroChecksum body)}"
      | none => "err")
    | none => "bad-op"
  | ["clip", h] => match parseHex h with
    | some bs => (match fromClipboard bs with
      | .none => "none"
      | .panic => "panic"
      | .ok w h cs => s!"ok {w} {h}" ++ String.join (cs.map fun c => s!" {c}"))
    | none => "bad-op"
  | ["icyc", short, _cont, v] => match v.toNat? with
    | some v => (match icyChar (short == "1") v with | some c => s!"ok {c}" | none => "err")
    | none => "bad-op"
  | ["lossy", h] => match parseHex h with
    | some bs => let o := toHex (lossyBytes bs); s!"t={o} f={o}"
    | none => "bad-op"
  | ["valid", h] => match parseHex h with
    | some bs => if validUtf8 bs then "valid" else "invalid"
    | none => "bad-op"
  | ["xbintag", b] => match b.toNat? with
    | some b => toString (xbinCompressionMasks.map fun m => xbinTag m b)
    | none => "bad-op"
  | _ => "bad-op"

end IcyVerif.Drv.Uni
