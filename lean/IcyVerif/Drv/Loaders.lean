import IcyVerif.Model.Loaders
import IcyVerif.Drv.Util
/-! Line protocol for C02 (`loaders …`).

  fb <ext> <dateOk> <hexr>     `Buffer::from_bytes` of `f.<ext>`: `ok <bw> <bh> <lw> <lh> <lines>` | `err` |
                               `panic:<fn>` | `text` (stream formats and the .icy container: not this model)
  tdf <hexr>                   `TheDrawFont::from_tdf_bytes`: `ok <n> {<type> <spaces> <glyphs> <height>}` | `err`
  clip <hexr>                  `Layer::from_clipboard_data`: `some <w> <h> <lines> <x> <y>` | `none`
  icy <kw>=<hexr>@<f>,…        IcyDraw chunk payloads in order (f = o|e|p: what the font/palette/SAUCE loader
                               answered): `ok <bw> <bh> <n> {<role> <w> <h> <lines> <ox> <oy> <pic>}` | `err`

  hexr = hex pairs, a run is `xx(n)`, the empty string is `-`. -/
namespace IcyVerif.Drv.Loaders
open IcyVerif.Bytes IcyVerif.Loaders IcyVerif.Drv

def parseHexRGo : Nat → List Char → Array Nat → Option (Array Nat)
  | 0, _, _ => none
  | _, [], acc => some acc
  | _, [_], _ => none
  | fuel + 1, a :: b :: rest, acc =>
    match hexDigit? a, hexDigit? b with
    | some x, some y =>
      let v := x * 16 + y
      (match rest with
       | '(' :: r =>
         let ds := r.takeWhile (· != ')')
         let r' := (r.dropWhile (· != ')')).drop 1
         let n := ds.foldl (fun a c => a * 10 + (c.toNat - 48)) 0
         if ds.isEmpty ∨ !ds.all (fun c => '0' ≤ c ∧ c ≤ '9') ∨ n > 100000000 then none
         else parseHexRGo fuel r' (acc ++ Array.replicate n v)
       | _ => parseHexRGo fuel rest (acc.push v))
    | _, _ => none

def parseHexR (s : String) : Option Bytes :=
  if s == "-" then some #[] else parseHexRGo (s.length + 1) s.toList #[]

def showRes {α : Type} (f : α → String) (errWord : String) : Res α → String
  | .ok a => f a
  | .err => errWord
  | .panic s => "panic:" ++ s

def showGeo (g : Geo) : String := s!"ok {g.bw} {g.bh} {g.lw} {g.lh} {g.lines}"

def showObs : Obs → String
  | .geo g => showGeo g
  | .text => "text"

def parseForeign : String → Foreign
  | "e" => .err
  | "p" => .panic
  | _ => .ok

def parseChunk (s : String) : Option (String × Bytes × Foreign) :=
  match s.splitOn "=" with
  | [kw, rest] =>
    (match rest.splitOn "@" with
     | [hx, f] => (parseHexR hx).map fun b => (kw, b, parseForeign f)
     | [hx] => (parseHexR hx).map fun b => (kw, b, Foreign.ok)
     | _ => none)
  | _ => none

def showIcy (st : IcySt) : String :=
  st.layers.foldl (fun acc l => acc ++ s!" {l.role} {l.w} {l.h} {l.lines} {l.ox} {l.oy} {l.pic}") s!"ok {st.bw} {st.bh} {st.layers.size}"

def handle : List String → String
  | ["fb", ext, df, hx] =>
    match parseHexR hx with
    | some d => showRes showObs "err" (fromBytes d ext (df != "0"))
    | none => "bad-op"
  | ["tdf", hx] =>
    match parseHexR hx with
    | some d => showRes (fun fs => fs.foldl (fun acc f => acc ++ s!" {f.ty} {f.spaces} {f.present} {f.height}") s!"ok {fs.length}") "err" (loadTdf d)
    | none => "bad-op"
  | ["clip", hx] =>
    match parseHexR hx with
    | some d => showRes (fun c => s!"some {c.w} {c.h} {c.lines} {c.x} {c.y}") "none" (loadClip d)
    | none => "bad-op"
  | ["icy", cs] =>
    match (if cs.isEmpty then some [] else (cs.splitOn ",").mapM parseChunk) with
    | some chunks => showRes showIcy "err" (loadIcy chunks)
    | none => "bad-op"
  | ["icy"] => showRes showIcy "err" (loadIcy [])
  | _ => "bad-op"

end IcyVerif.Drv.Loaders
