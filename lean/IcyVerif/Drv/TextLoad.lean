import IcyVerif.Model.TextLoad
import IcyVerif.Drv.Util
import IcyVerif.Drv.Loaders
import IcyVerif.Drv.Sixel
/-! Line protocol for the text-format loaders of C02 (`textload …`).

  run <kind> <w> <h> <tabw> <rows0> <items>    one parser on a FILE buffer of size w x h (tab stops of a tabw-column screen), character by character.
        kind  = `ansi<music><bs>` (e.g. `ansi00`: what the loaders use) | avatar | pcboard | ctrla | renegade | ascii | atascii | petscii
        rows0 = `-` (row table cleared, as `parse_with_parser` does) | `<n>x<w>` (n rows of w cells, as `Layer::new` makes them)
        items = `cp:lineLen:ext` per character (`-` = none); answer: `<n> <hash> [<digest>] <checkpoints…>` | `panic after <n>: …`
  fb <ext> <dateOk> <fw> <fh> <hexr> <orc>   `Buffer::from_bytes` of `f.<ext>`; fw x fh = font 0 at the end of the text;
        orc = `-` | `i:lineLen:ext,…` (oracle values of the top-level characters that read one; default `-1:1`)
        answer: `ok <bw> <bh> <lw> <lh> <nl> <rowsHash> <layers> {<offX> <offY> <cw> <ch>}` | `err` | `panic:<what>` | `huge` | `nottext` -/
namespace IcyVerif.Drv.TextLoad
open IcyVerif.Term IcyVerif.TermFile IcyVerif.TextLoad IcyVerif.Drv

def i2n (i : Int) : Nat := if i < 0 then (18446744073709551616 - (-i).toNat % 18446744073709551616) % 18446744073709551616 else i.toNat

def outStr : Term.Out → String
  | .ok => "ok" | .err => "err" | .resize => "resize"

def mInts (o : Option (Int × Int)) : List Int := match o with | some (a, b) => [a, b] | none => [-7, -7]

def digestF (s : Scr) (c : Car) (r : Rows) (nsix : Nat) (hl : List Int) : List Int :=
  [c.x, c.y, s.tw, s.th, s.bw, s.bh, r.lw, r.lh, r.nl, if c.ins then 1 else 0, if s.autowrap then 1 else 0]
    ++ mInts s.mtb ++ mInts s.mlr ++ [if s.declrmm then 1 else 0, (nsix : Int), (hl.length : Int)]

/-- what the per-character hash sees of the row table: `chars.len()` of the caret row, of the first and of the last row
    (-1: no such row); the whole table is hashed every 32 characters and at the end -/
def rowSig (r : Rows) (y : Int) : List Int :=
  let lenAt (i : Int) : Int := if 0 ≤ i ∧ i < r.nl then r.rowLen i else -1
  [lenAt y, lenAt 0, lenAt (r.nl - 1)]

def digestHashF (s : Scr) (c : Car) (r : Rows) (nsix : Nat) (hl : List Int) (out : String) : UInt64 :=
  fnv ((digestF s c r nsix hl).map i2n ++ (rowSig r c.y).map i2n ++ [(fnv (s.tabs.map i2n)).toNat, (fnv (hl.map i2n)).toNat] ++ out.toList.map Char.toNat)

/-- a uniform view of the three state types -/
inductive Any where
  | a (st : FSt) | w (e : Emu) (st : FWSt) | o (e : FEmu2) (st : FOSt)

def Any.view : Any → Scr × Car × Rows × Nat × List Int
  | .a st => (st.s, st.c, st.r, st.sixq.length, st.hlDone)
  | .w _ st => (st.inner.s, st.inner.c, st.inner.r, st.inner.sixq.length, st.inner.hlDone)
  | .o _ st => (st.s, st.c, st.r, 0, [])

def Any.step (cfg : Cfg) (orc : Orc) (ch : Char) : Any → Res (Any × Term.Out)
  | .a st => match stepF cfg (fun _ => orc) st ch with
    | .ok (st', out) => .ok (.a st', out)
    | .error e => .error e
  | .w e st => match fwstep e (fun _ => orc) st ch with
    | .ok (st', out) => .ok (.w e st', out)
    | .error e => .error e
  | .o e st => match fostep e st ch with
    | .ok (st', out) => .ok (.o e st', out)
    | .error e => .error e

structure Acc where
  st : Any
  h : UInt64 := 14695981039346656037
  n : Nat := 0
  checkpoints : List UInt64 := []
  panic : Option String := none

def runItems (cfg : Cfg) (items : List String) (acc : Acc) : Acc :=
  items.foldl (fun acc it =>
    if acc.panic.isSome then acc else
    match it.splitOn ":" with
    | [cp, ll, ext] =>
      match cp.toNat?, ll.toInt? with
      | some cp, some ll =>
        -- driver-side guard (not part of the model): on a tree WITHOUT the row clamps the model follows the cursor to row
        -- 2^31 and would allocate that many row lengths; stop instead
        if acc.st.view.2.1.y > 1000000 then { acc with panic := some "row beyond the driver's range (row clamps missing?)" } else
        match acc.st.step cfg { lineLen := ll, extOk := ext == "1" } (Char.ofNat cp) with
        | .ok (st', out) =>
          let (s, c, r, nsix, hl) := st'.view
          let h := fnvStep acc.h (digestHashF s c r nsix hl (outStr out)).toNat
          let n := acc.n + 1
          let h := if n % 32 == 0 then fnvStep h (fnv r.lens.toList).toNat else h
          { acc with st := st', h := h, n := n, checkpoints := if n % 32 == 0 then h :: acc.checkpoints else acc.checkpoints }
        | .error e => { acc with panic := some (reprStr e) }
      | _, _ => { acc with panic := some "bad-item" }
    | _ => { acc with panic := some "bad-item" }) acc

def parseRows0 (s : String) : Option (Array Nat) :=
  if s == "-" then some #[] else
  match s.splitOn "x" with
  | [n, w] => match n.toNat?, w.toNat? with
    | some n, some w => some (Array.replicate n w)
    | _, _ => none
  | _ => none

def startOf (kind : String) (w h tw : Int) (rows : Array Nat) : Option (Cfg × Any) :=
  match kind with
  | "avatar" => some (wcfg, .w .avatar (initFW w h tw rows))
  | "pcboard" => some (wcfg, .w .pcboard (initFW w h tw rows))
  | "ctrla" => some (wcfg, .w .ctrla (initFW w h tw rows))
  | "renegade" => some (wcfg, .w .renegade (initFW w h tw rows))
  | "ascii" => some (wcfg, .o .ascii (initFO w h tw rows))
  | "atascii" => some (wcfg, .o .atascii (initFO w h tw rows))
  | "petscii" => some (wcfg, .o .petscii (initFO w h tw rows))
  | _ =>
    match kind.toList with
    | ['a', 'n', 's', 'i', m, b] =>
      if '0' ≤ m ∧ m ≤ '3' then some ({ musicOpt := m.toNat - 48, bsCtrl := b == '1' }, .a (initF w h tw rows)) else none
    | _ => none

/-- the oracle of a whole-file load: entries for the top-level characters that read one -/
def parseOrc (s : String) : Option (List (Nat × Int × Bool)) :=
  if s == "-" then some [] else
  (s.splitOn ",").mapM fun e =>
    match e.splitOn ":" with
    | [i, ll, ext] => match i.toNat?, ll.toInt? with
      | some i, some ll => some (i, ll, ext == "1")
      | _, _ => none
    | _ => none

def orcAt (tbl : List (Nat × Int × Bool)) (i : Nat) : Orc :=
  match tbl.find? (fun e => e.1 == i) with
  | some (_, ll, ext) => { lineLen := ll, extOk := ext }
  | none => { lineLen := -1, extOk := true }

/-- the decode thread of a queued sequence, by the C14 decoder model; `none` = outside its modelled range -/
def decodeOne (id : Nat) (px py : Int) (dcs : List Char) : Option IcyVerif.SixelQueue.Res :=
  match IcyVerif.SixelLoad.classify dcs with
  | .sixel vs _ payload =>
    match IcyVerif.Sixel.decode 1 vs payload with
    | .ok d => some (IcyVerif.SixelQueue.Res.ok ⟨id, px, py, d.img.w, d.img.h⟩)
    | .err _ => some .err
    | .panic _ => some .panicked
    | .huge => none
  | _ => some .err

def decoder : Decoder := fun id px py dcs => (decodeOne id px py dcs).getD .err

def showLoaded (l : Loaded) : String :=
  l.images.foldl (fun acc i => acc ++ s!" {i.offX} {i.offY} {i.cw} {i.ch}")
    s!"ok {l.bw} {l.bh} {l.lw} {l.lh} {l.rows.size} {fnv l.rows.toList} {l.images.length + 1}"

def handle : List String → String
  | ["run", kind, w, h, tabw, rows0, items] =>
    match w.toInt?, h.toInt?, tabw.toInt?, parseRows0 rows0 with
    | some w, some h, some tabw, some rows =>
      match startOf kind w h tabw rows with
      | some (cfg, st) =>
        let acc := runItems cfg (if items == "-" then [] else items.splitOn ",") { st := st }
        match acc.panic with
        | some p => s!"panic after {acc.n}: {p}"
        | none =>
          let (s, c, r, nsix, hl) := acc.st.view
          let base := s!"{acc.n} {acc.h} [{intsToString (digestF s c r nsix hl)}] R{fnv r.lens.toList}"
          if acc.checkpoints.isEmpty then base else base ++ " " ++ " ".intercalate (acc.checkpoints.reverse.map toString)
      | none => "bad-op"
    | _, _, _, _ => "bad-op"
  | ["fb", ext, df, fw, fh, hx, orc] =>
    -- driver-side guard (see `runItems`): without the row clamp of `limit_caret_pos` the model would follow a cursor to row 2^31
    if !TermFile.limitRowClamped then "row-clamp-missing" else
    match Loaders.parseHexR hx, fw.toInt?, fh.toInt?, parseOrc orc with
    | some d, some fw, some fh, some tbl =>
      match fromBytesParse d ext (df != "0") (orcAt tbl) with
      | none => "nottext"
      | some stage =>
        let huge := match stage with
          | .parsed p true => ((List.range p.sixq.length).zip p.sixq).any (fun (id, (px, py, dcs)) => (decodeOne id px py dcs).isNone)
          | _ => false
        if huge then "huge" else
        match finishStage stage fw fh decoder with
        | .ok l => showLoaded l
        | .err => "err"
        | .panic p => "panic:" ++ p
    | _, _, _, _ => "bad-op"
  | _ => "bad-op"

end IcyVerif.Drv.TextLoad
