import IcyVerif.Lemmas.BinFormatsTndRt
set_option linter.unusedSimpArgs false
set_option linter.unusedVariables false
/-!
# C05 — binary art formats reproduce what was saved

Property (properties.jsonl): for every buffer representable in a binary format (XBin, BIN, ArtWorx ADF, iCE Draw IDF,
Tundra), saving it and loading the result yields the same width and height, the same character in every cell, the same
displayed foreground/background colours and blink state, the same blink/ice mode and, where the format embeds them,
identical font glyphs and palette.  Loading any file these loaders accept, saving it again in the same format and loading
that gives the same picture as the first load.

Model: `Model/BinFormats.lean` — `save fmt opts date pic` (= `Buffer::to_bytes(ext, lossless options)`), `fromBytes fmt bytes`
(= `Buffer::from_bytes`, incl. SAUCE detection, `set_sauce(resize)`, `Layer::set_char`, `crop_loaded_file`); XBin image data,
`encode_attr`, `decode_char` come from the C06 model.  The model follows the tree AFTER the C05 `fix:` commits; the
witnesses of the defects of the pinned tree are in `known_findings.txt` (`fixed:` lines) and replayed on every run.

`Representable fmt opts pic` is the decidable domain of the quantifier; `SamePicture fmt pic g` is the conclusion: width,
height, no allocated rows outside the picture, ice mode, and for EVERY cell character / displayed fg and bg colour through the
two palettes / blink / font page, plus embedded fonts and palette.  All round-trip theorems hold for ALL representable
pictures (induction over rows and cells; `decide` only for the 256-entry attribute-byte tables).

Statements that are `_partial`, and exactly what they exclude:
* `*_rt_nosauce_partial` — a file saved WITHOUT a SAUCE record whose last 128 bytes (picture content) begin with `SAUCE`
  is taken for a SAUCE record by `from_bytes` (finding `<fmt>:content-reads-as-sauce`, witness `fake_sauce_violates`).
  With `save_sauce = true` there is no exclusion (`xb_rt`, `bin_rt`, `adf_rt`, `idf_rt`).
* `tnd_rt_partial` — Tundra pictures wider than 1000 columns: `Buffer::set_sauce` replaces a SAUCE width above 1000 by 80
  (finding `tnd:sauce-width>1000`, witness `tnd_wide_violates`).
* `resave_stable_partial` — re-save stability is proved for every accepted file whose loaded picture is representable;
  the full statement is kept as a comment below with what is missing.
-/
namespace IcyVerif.C05
open IcyVerif.XbCompress IcyVerif.BinFormats IcyVerif.Gen

/-! ## save → load, with a SAUCE record: full strength -/

/-- **XBin** (width 1..=4096, one or two 256-glyph fonts of height 1..=32, 16 six-bit colours, blink or ice, compressed or
    not): every representable picture comes back as the same picture. -/
theorem xb_rt (o : Opts) (date : List Nat) (p : Pic) (hs : o.sauce = true) (hrep : Representable .xb o p = true)
    (hdate : dateOk date = true) :
    ∃ bytes g, save .xb o date p = .ok bytes ∧ fromBytes .xb bytes = .ok g ∧ SamePicture .xb p g := by
  obtain ⟨bytes, h1, h2⟩ := xb_roundtrip o date p hrep hdate
  obtain ⟨g, h3, h4⟩ := h2 (Or.inl hs)
  exact ⟨bytes, g, h1, h3, h4⟩

/-- **BIN** (even widths 2..=510, SAUCE, any height). -/
theorem bin_rt (o : Opts) (date : List Nat) (p : Pic) (hrep : Representable .bin o p = true) (hdate : dateOk date = true) :
    ∃ bytes g, save .bin o date p = .ok bytes ∧ fromBytes .bin bytes = .ok g ∧ SamePicture .bin p g :=
  bin_roundtrip o date p hrep hdate

/-- **ArtWorx ADF** (width 80, ice colours, 8x16 font, 16 six-bit colours). -/
theorem adf_rt (o : Opts) (date : List Nat) (p : Pic) (hs : o.sauce = true) (hrep : Representable .adf o p = true)
    (hdate : dateOk date = true) :
    ∃ bytes g, save .adf o date p = .ok bytes ∧ fromBytes .adf bytes = .ok g ∧ SamePicture .adf p g := by
  obtain ⟨bytes, h1, h2⟩ := adf_roundtrip o date p hrep hdate
  obtain ⟨g, h3, h4⟩ := h2 (Or.inl hs)
  exact ⟨bytes, g, h1, h3, h4⟩

/-- **iCE Draw IDF** (width 1..=80, height <= 200, ice colours, 8x16 font), raw and run-length coded. -/
theorem idf_rt (o : Opts) (date : List Nat) (p : Pic) (hs : o.sauce = true) (hrep : Representable .idf o p = true)
    (hdate : dateOk date = true) :
    ∃ bytes g, save .idf o date p = .ok bytes ∧ fromBytes .idf bytes = .ok g ∧ SamePicture .idf p g := by
  obtain ⟨bytes, h1, h2⟩ := idf_roundtrip o date p hrep hdate
  obtain ⟨g, h3, h4⟩ := h2 (Or.inl hs)
  exact ⟨bytes, g, h1, h3, h4⟩

/-- **Tundra** (any width with SAUCE, arbitrary 24-bit colours) — PARTIAL: widths above 1000 are excluded
    (`tnd_wide_violates`).  Full statement: the same without `hw`. -/
theorem tnd_rt_partial (o : Opts) (date : List Nat) (p : Pic) (hs : o.sauce = true) (hrep : Representable .tnd o p = true)
    (hdate : dateOk date = true) (hw : p.w ≤ 1000) :
    ∃ bytes g, save .tnd o date p = .ok bytes ∧ fromBytes .tnd bytes = .ok g ∧ SamePicture .tnd p g := by
  obtain ⟨bytes, h1, h2⟩ := tnd_roundtrip o date p hrep hdate hw
  obtain ⟨g, h3, h4⟩ := h2 (Or.inl hs)
  exact ⟨bytes, g, h1, h3, h4⟩

/-! ## save → load, without a SAUCE record: PARTIAL (file content that reads as a SAUCE record is excluded) -/

/-- XBin / ADF / IDF / Tundra (80 columns) saved without SAUCE.  Full statement: the same without `hns`. -/
theorem rt_nosauce_partial (f : Fmt) (o : Opts) (date : List Nat) (p : Pic) (hf : f ≠ .bin) (hrep : Representable f o p = true)
    (hdate : dateOk date = true) (hw : f = .tnd → p.w ≤ 1000) :
    ∃ bytes, save f o date p = .ok bytes ∧
      (looksLikeSauce bytes = false → ∃ g, fromBytes f bytes = .ok g ∧ SamePicture f p g) := by
  cases f with
  | xb => obtain ⟨b, h1, h2⟩ := xb_roundtrip o date p hrep hdate; exact ⟨b, h1, fun h => h2 (Or.inr h)⟩
  | bin => exact absurd rfl hf
  | adf => obtain ⟨b, h1, h2⟩ := adf_roundtrip o date p hrep hdate; exact ⟨b, h1, fun h => h2 (Or.inr h)⟩
  | idf => obtain ⟨b, h1, h2⟩ := idf_roundtrip o date p hrep hdate; exact ⟨b, h1, fun h => h2 (Or.inr h)⟩
  | tnd => obtain ⟨b, h1, h2⟩ := tnd_roundtrip o date p hrep hdate (hw rfl); exact ⟨b, h1, fun h => h2 (Or.inr h)⟩

/-- the conclusion in the form the driver evaluates (`picSame`), so that the check `binformats rt` of the correspondence
    run and the theorems speak about the same predicate -/
theorem samePicture_checks (f : Fmt) (p : Pic) (g : LBuf) (h : SamePicture f p g) : picSame true f p g = true :=
  picSame_of_same f p g h

/-! ## re-save stability -/

/-- **PARTIAL.**  For every byte string the loader accepts whose loaded picture is representable, saving the loaded
    picture again and loading that gives the same picture as the first load.

    Full statement (not proved): `fromBytes f b = .ok g → ∃ b₂ g₂, save f o date g.toPic = .ok b₂ ∧ fromBytes f b₂ = .ok g₂ ∧
    picSame false f g.toPic g₂ = true` for ALL accepted `b`.  What is missing is a characterisation of the loaders' range:
    "every accepted file loads to a representable picture" is FALSE as it stands (an XBin whose header says height 0 loads
    as a picture without rows; an IDF with more than 200 rows loads but cannot be saved as IDF; a 512-character XBin that
    only uses its second font is re-saved as a one-font file — same glyphs, other slot number, which is why the check
    compares glyphs, not slot numbers, for re-saved files), and the true exceptions have to be enumerated per format.
    On the implementation this half of the property is checked by the oracle (engine-written files and mutated files the
    loader still accepts), and the model's `load → save → load` is tied to the implementation's on the same files
    (`binformats resave`). -/
theorem resave_stable_partial (f : Fmt) (o : Opts) (date : List Nat) (b : List Nat) (g : LBuf)
    (hload : fromBytes f b = .ok g) (hrep : Representable f o g.toPic = true) (hdate : dateOk date = true)
    (hw : f = .tnd → g.toPic.w ≤ 1000) :
    ∃ b₂, save f o date g.toPic = .ok b₂ ∧
      ((o.sauce = true ∨ looksLikeSauce b₂ = false) → ∃ g₂, fromBytes f b₂ = .ok g₂ ∧ SamePicture f g.toPic g₂) := by
  cases f with
  | xb => exact xb_roundtrip o date _ hrep hdate
  | bin =>
    obtain ⟨b₂, g₂, h1, h2, h3⟩ := bin_roundtrip o date _ hrep hdate
    exact ⟨b₂, h1, fun _ => ⟨g₂, h2, h3⟩⟩
  | adf => exact adf_roundtrip o date _ hrep hdate
  | idf => exact idf_roundtrip o date _ hrep hdate
  | tnd => exact tnd_roundtrip o date _ hrep hdate (hw rfl)

/-! ## non-vacuity: representable pictures of every format, and the two recorded exclusions -/

set_option maxRecDepth 100000

def cA : Cell := ⟨0x41, ⟨7, 0, 0, 0⟩⟩
def cB : Cell := ⟨0x42, ⟨12, 9, 0, 0⟩⟩
def cBold : Cell := ⟨0x43, ⟨3, 1, Xb.attrBold, 0⟩⟩
def cBlink : Cell := ⟨0x44, ⟨14, 2, Xb.attrBlink, 0⟩⟩
def cEsc : Cell := ⟨1, ⟨0, 0, 0, 0⟩⟩
def cP1 : Cell := ⟨0xDB, ⟨5, 4, 0, 1⟩⟩
def fnt8 : Font := ⟨[70], 8, List.replicate 2048 0x55⟩
def date0 : List Nat := [50, 48, 50, 52, 48, 50, 50, 57]    -- "20240229"

example : dateOk date0 = true := by decide

/-- XBin, blink mode, two fonts (default + an 8... no: two 16-row fonts), compressed, with SAUCE -/
def xbPic : Pic := ⟨3, 2, [[cA, cP1, cA], [cP1, cP1, ⟨0x42, ⟨7, 6, Xb.attrBlink, 0⟩⟩]], .blink, dosPalette,
  [(0, defaultFont), (1, ⟨[71], 16, List.replicate 4096 0xAA⟩)]⟩
example : Representable .xb ⟨true, true⟩ xbPic = true := by decide +kernel
/-- XBin, ice mode, one 8-row font, a one-row picture (the pinned tree loaded it 25 rows high) -/
def xbLow : Pic := ⟨2, 1, [[cB, cBold]], .ice, dosPalette, [(0, fnt8)]⟩
example : Representable .xb ⟨true, false⟩ xbLow = true := by decide +kernel
example : (match save .xb ⟨true, false⟩ date0 xbLow with
    | .ok b => (match fromBytes .xb b with | .ok g => g.bh == 1 && picSame true .xb xbLow g | _ => false)
    | _ => false) = true := by decide +kernel

def binPic : Pic := ⟨2, 3, [[cA, cBlink], [cBold, cA], [cA, cA]], .blink, dosPalette, [(0, defaultFont)]⟩
example : Representable .bin ⟨true, false⟩ binPic = true := by decide +kernel

def row80 (c : Cell) : List Cell := cB :: List.replicate 79 c
def adfPic : Pic := ⟨80, 2, [row80 cA, row80 cBold], .ice, dosPalette, [(0, defaultFont)]⟩
example : Representable .adf ⟨false, false⟩ adfPic = true := by decide +kernel

/-- IDF with the escape pair (character 1 on attribute 0), compressed: the pinned tree shifted everything behind it -/
def idfPic : Pic := ⟨5, 2, [[cEsc, cA, cA, cA, cA], [cB, cEsc, cEsc, cB, cA]], .ice, dosPalette, [(0, defaultFont)]⟩
example : Representable .idf ⟨true, true⟩ idfPic = true := by decide +kernel
example : (match save .idf ⟨true, true⟩ date0 idfPic with
    | .ok b => (match fromBytes .idf b with | .ok g => picSame true .idf idfPic g | _ => false)
    | _ => false) = true := by decide +kernel

/-- Tundra: control-range characters, a bold cell on a bright colour, palette entry 0 that is not black -/
def tndPic : Pic := ⟨3, 2, [[⟨0x41, ⟨0, 0, 0, 0⟩⟩, ⟨2, ⟨14, 3, 0, 0⟩⟩, ⟨0x43, ⟨9, 0, Xb.attrBold, 0⟩⟩], [cA, cB, ⟨6, ⟨20, 17, 0, 0⟩⟩]], .ice,
  (31, 89, 15) :: dosPalette.drop 1 ++ [(1, 2, 3), (200, 100, 50), (9, 9, 9), (250, 251, 252), (77, 0, 77)], [(0, defaultFont)]⟩
example : Representable .tnd ⟨true, false⟩ tndPic = true := by decide +kernel
example : (match save .tnd ⟨true, false⟩ date0 tndPic with
    | .ok b => (match fromBytes .tnd b with | .ok g => picSame true .tnd tndPic g | _ => false)
    | _ => false) = true := by decide +kernel

/-- **Excluded from `tnd_rt_partial`, and really false:** a representable Tundra picture 1001 columns wide loads 80 wide. -/
def tndWide : Pic := ⟨1001, 1, [List.replicate 1001 cA], .ice, dosPalette, [(0, defaultFont)]⟩
theorem tnd_wide_violates :
    Representable .tnd ⟨true, false⟩ tndWide = true ∧
    (match save .tnd ⟨true, false⟩ date0 tndWide with
     | .ok b => (match fromBytes .tnd b with | .ok g => g.bw == 80 && !picSame true .tnd tndWide g | _ => false)
     | _ => false) = true := by
  constructor <;> decide +kernel

/-- **Excluded from `rt_nosauce_partial`, and really false:** a representable 64-column ice-colour XBin picture saved
    without SAUCE whose last row spells a SAUCE record loses that row. -/
def sauceRow : List Cell :=
  (pairsOf (BinFmt.sauceId ++ [48, 48] ++ List.replicate 75 32 ++ date0 ++ [0, 0, 0, 0, 6, 0, 64, 0, 1, 0] ++ List.replicate 28 0)).map
    fun q => (⟨q.1, fromU8 true q.2⟩ : Cell)
def fakeSaucePic : Pic := ⟨64, 2, [List.replicate 64 cA, sauceRow], .ice, dosPalette, [(0, defaultFont)]⟩
theorem fake_sauce_violates :
    Representable .xb ⟨false, false⟩ fakeSaucePic = true ∧
    (match save .xb ⟨false, false⟩ date0 fakeSaucePic with
     | .ok b => looksLikeSauce b && (match fromBytes .xb b with | .ok g => g.bh == 1 && !picSame true .xb fakeSaucePic g | _ => false)
     | _ => false) = true := by
  constructor <;> decide +kernel

end IcyVerif.C05
