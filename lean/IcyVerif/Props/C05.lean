import IcyVerif.Lemmas.BinFormatsLayers
set_option linter.unusedSimpArgs false
set_option linter.unusedVariables false
/-!
# C05 — binary art formats reproduce what was saved

Property (properties.jsonl): for every buffer representable in a binary format (XBin, BIN, ArtWorx ADF, iCE Draw IDF,
Tundra), saving it and loading the result yields the same width and height, the same character in every cell, the same
displayed foreground/background colours and blink state, the same blink/ice mode and, where the format embeds them,
identical font glyphs and palette.  Loading any file these loaders accept, saving it again in the same format and loading
that gives the same picture as the first load.

Model: `Model/BinFormats.lean` — `save fmt opts date pic` (= `Buffer::to_bytes(ext, lossless options)`), `fromBytes fmt bytes`
(= `Buffer::from_bytes`, incl. SAUCE detection, `set_sauce(resize)`, `Layer::set_char`, `crop_loaded_file`); XBin image data,
`encode_attr`, `decode_char` come from the C06 model.  The model follows the tree AFTER the C05 `fix:` commits; the
witnesses of the defects of the pinned tree are in `known_findings.txt` (`fixed:` lines) and replayed on every run.

`Representable fmt opts pic` is the decidable domain of the quantifier; `SamePicture fmt pic g` is the conclusion: width,
height, no allocated rows outside the picture, ice mode, and for EVERY cell character / displayed fg and bg colour through the
two palettes / blink / font page, plus embedded fonts and palette.  All round-trip theorems hold for ALL representable
pictures (induction over rows and cells; `decide` only for the 256-entry attribute-byte tables).

Statements that are `_partial`, and exactly what they exclude:
* `*_rt_nosauce_partial` — a file saved WITHOUT a SAUCE record whose last 128 bytes (picture content) begin with `SAUCE`
  is taken for a SAUCE record by `from_bytes` (finding `<fmt>:content-reads-as-sauce`, witness `fake_sauce_violates`).
  With `save_sauce = true` there is no exclusion (`xb_rt`, `bin_rt`, `adf_rt`, `idf_rt`).
* `tnd_rt_partial` — Tundra pictures wider than 1000 columns: `Buffer::set_sauce` replaces a SAUCE width above 1000 by 80
  (finding `tnd:sauce-width>1000`, witness `tnd_wide_violates`).
* `resave_stable_partial` — re-save stability is proved for every accepted file whose loaded picture is representable;
  the full statement is kept as a comment below with what is missing.
-/
namespace IcyVerif.C05
open IcyVerif.XbCompress IcyVerif.BinFormats IcyVerif.Gen

/-! ## save → load, with a SAUCE record: full strength -/

/-- **XBin** (width 1..=4096, one or two 256-glyph fonts of height 1..=32, 16 six-bit colours, blink or ice, compressed or
    not): every representable picture comes back as the same picture. -/
theorem xb_rt (o : Opts) (date : List Nat) (p : Pic) (hs : o.sauce = true) (hrep : Representable .xb o p = true)
    (hdate : dateOk date = true) :
    ∃ bytes g, save .xb o date p = .ok bytes ∧ fromBytes .xb bytes = .ok g ∧ SamePicture .xb p g := by
  obtain ⟨bytes, h1, h2⟩ := xb_roundtrip o date p hrep hdate
  obtain ⟨g, h3, h4⟩ := h2 (Or.inl hs)
  exact ⟨bytes, g, h1, h3, h4⟩

/-- **BIN** (even widths 2..=510, SAUCE, any height). -/
theorem bin_rt (o : Opts) (date : List Nat) (p : Pic) (hrep : Representable .bin o p = true) (hdate : dateOk date = true) :
    ∃ bytes g, save .bin o date p = .ok bytes ∧ fromBytes .bin bytes = .ok g ∧ SamePicture .bin p g :=
  bin_roundtrip o date p hrep hdate

/-- **ArtWorx ADF** (width 80, ice colours, 8x16 font, 16 six-bit colours). -/
theorem adf_rt (o : Opts) (date : List Nat) (p : Pic) (hs : o.sauce = true) (hrep : Representable .adf o p = true)
    (hdate : dateOk date = true) :
    ∃ bytes g, save .adf o date p = .ok bytes ∧ fromBytes .adf bytes = .ok g ∧ SamePicture .adf p g := by
  obtain ⟨bytes, h1, h2⟩ := adf_roundtrip o date p hrep hdate
  obtain ⟨g, h3, h4⟩ := h2 (Or.inl hs)
  exact ⟨bytes, g, h1, h3, h4⟩

/-- **iCE Draw IDF** (width 1..=80, height <= 200, ice colours, 8x16 font), raw and run-length coded. -/
theorem idf_rt (o : Opts) (date : List Nat) (p : Pic) (hs : o.sauce = true) (hrep : Representable .idf o p = true)
    (hdate : dateOk date = true) :
    ∃ bytes g, save .idf o date p = .ok bytes ∧ fromBytes .idf bytes = .ok g ∧ SamePicture .idf p g := by
  obtain ⟨bytes, h1, h2⟩ := idf_roundtrip o date p hrep hdate
  obtain ⟨g, h3, h4⟩ := h2 (Or.inl hs)
  exact ⟨bytes, g, h1, h3, h4⟩

/-- **Tundra** (any width the SAUCE record can hold — the width is stored nowhere else —, arbitrary 24-bit colours).
    Full strength since `fix: Tundra loader replaces a SAUCE width above 1000 by 80 …`. -/
theorem tnd_rt (o : Opts) (date : List Nat) (p : Pic) (hs : o.sauce = true) (hrep : Representable .tnd o p = true)
    (hdate : dateOk date = true) :
    ∃ bytes g, save .tnd o date p = .ok bytes ∧ fromBytes .tnd bytes = .ok g ∧ SamePicture .tnd p g := by
  obtain ⟨bytes, h1, h2⟩ := tnd_roundtrip o date p hrep hdate
  obtain ⟨g, h3, h4⟩ := h2 (Or.inl hs)
  exact ⟨bytes, g, h1, h3, h4⟩

/-! ## save → load, without a SAUCE record: PARTIAL (file content that `from_bytes` reads as a SAUCE record is excluded) -/

/-- XBin / ADF / IDF / Tundra (80 columns) saved without SAUCE.  Full statement: the same without the guard.  The guard is
    EXACT: `tailReadsAsSauce bytes` says that `SauceData::extract` answers `Ok(Some(..))` on the file (signature, version
    `00`, a date chrono accepts, and — if the comment count is not 0 — a `COMNT` block where it must be); in every other
    case (`Ok(None)`, or an `Err`, which `from_bytes` logs and ignores) the loader is handed the whole file.  Where the
    guard fails the tail of the picture data is cut off: the statement is false there (`fake_sauce_violates`; findings
    `<fmt>:content-reads-as-sauce`).  The writers cannot avoid it: nothing in the formats marks the end of the picture
    data, and appending an EOF character or an empty record only when the tail would parse is special-casing the input. -/
theorem rt_nosauce_partial (f : Fmt) (o : Opts) (date : List Nat) (p : Pic) (hf : f ≠ .bin) (hrep : Representable f o p = true)
    (hdate : dateOk date = true) :
    ∃ bytes, save f o date p = .ok bytes ∧
      (tailReadsAsSauce bytes = false → ∃ g, fromBytes f bytes = .ok g ∧ SamePicture f p g) := by
  cases f with
  | xb => obtain ⟨b, h1, h2⟩ := xb_roundtrip o date p hrep hdate; exact ⟨b, h1, fun h => h2 (Or.inr h)⟩
  | bin => exact absurd rfl hf
  | adf => obtain ⟨b, h1, h2⟩ := adf_roundtrip o date p hrep hdate; exact ⟨b, h1, fun h => h2 (Or.inr h)⟩
  | idf => obtain ⟨b, h1, h2⟩ := idf_roundtrip o date p hrep hdate; exact ⟨b, h1, fun h => h2 (Or.inr h)⟩
  | tnd => obtain ⟨b, h1, h2⟩ := tnd_roundtrip o date p hrep hdate; exact ⟨b, h1, fun h => h2 (Or.inr h)⟩

/-- the cheap sufficient condition: no `SAUCE` signature 128 bytes before the end of the file -/
theorem tail_guard_of_signature (bytes : List Nat) (h : looksLikeSauce bytes = false) : tailReadsAsSauce bytes = false :=
  tail_of_looks bytes h

/-- … and whenever the guard fails the loader is NOT handed the whole file: at least the 128 bytes of the "record" are
    cut off (so a format whose picture data extends to the end of the file cannot load all of it) -/
theorem tail_cut_when_guard_fails (f : Fmt) (bytes : List Nat) (h : tailReadsAsSauce bytes = true) :
    ∃ content s, Sauce.fromBytesSplit dateOk bytes = .ok (content, some s) ∧ content.length + 128 ≤ bytes.length ∧
      fromBytes f bytes = loadBody f content (some s) := by
  unfold tailReadsAsSauce at h
  cases hx : Sauce.extract dateOk bytes with
  | ok o =>
    cases o with
    | none => rw [hx] at h; exact absurd h (by simp)
    | some s =>
      have hle := IcyVerif.C11.header_len_le dateOk bytes s hx
      have hge : 128 ≤ s.headerLen := sauce_header_ge dateOk bytes s hx
      refine ⟨bytes.take (bytes.length - s.headerLen), s, ?_, ?_, ?_⟩
      · simp only [Sauce.fromBytesSplit, hx]
        rw [Sauce.usub_ok hle, Sauce.bind_ok, Sauce.slice_ok (Nat.zero_le _) (by omega), Sauce.bind_ok]
        simp
      · rw [List.length_take]; omega
      · unfold fromBytes
        simp only [Sauce.fromBytesSplit, hx]
        rw [Sauce.usub_ok hle, Sauce.bind_ok, Sauce.slice_ok (Nat.zero_le _) (by omega), Sauce.bind_ok]
        simp
  | err e => rw [hx] at h; exact absurd h (by simp)
  | panic site => rw [hx] at h; exact absurd h (by simp)

/-- the conclusion in the form the driver evaluates (`picSame`), so that the check `binformats rt` of the correspondence
    run and the theorems speak about the same predicate -/
theorem samePicture_checks (f : Fmt) (p : Pic) (g : LBuf) (h : SamePicture f p g) : picSame true f p g = true :=
  picSame_of_same f p g h

/-! ## re-save stability: for EVERY byte string the loader accepts

`fromBytes f bytes = .ok g` is the only thing assumed about the file (`hb`: a file is a string of BYTES); `Restable f o date g`
says: the picture `g` shows (`g.toPic`: `Buffer::get_char` over the buffer, plus palette, fonts, mode and the SAUCE data the
buffer keeps) is written by `save`, and that file loads to the same picture.  The proofs characterise the RANGE of each loader
(`Lemmas/BinFormatsResave*.lean`: an invariant of the cells a layer can hold, kept by `set_char`/placement/crop; the palette
and font blocks; the SAUCE data `extract` returns) and show that it lies inside the domain of the save → load theorems; where a
writer refuses a loaded picture by its own rules (`.err`, no file), that is stated as the other half.

What is NOT covered, per clause of `ResaveCovered` (each is `_partial` for exactly these):
* every format: pictures without rows (`1 ≤ g.bh`).  FALSE for BIN and for Tundra re-saved without SAUCE: neither format stores a
  height, the re-saved file of a 0-row picture loads as the 25 default rows (findings `bin:resave-height0`,
  `tnd:resave-height0`; witnesses `resave_bin_height0_violates`, `resave_tnd_height0_violates`).  True for XBin / ADF (header and
  crop give 0 rows again), never the case for IDF; not proved.
* XBin: 512-character files whose cells all use the second font (re-saved as a one-font file: same glyphs, other slot number —
  holds under the non-strict comparison `picSame false`, which the oracle and the correspondence run check; not proved).
  (Merge note: the work package also excluded font blocks that have the default font's CHECKSUM but other glyphs — guard
  `fontHonest` — because the writer left out a font NAMED like the default font.  `BitFont::is_default` was repaired meanwhile
  (C17 `fixed:` `xbin_font_named_default`: name AND glyphs), `Font.isDefault` / `fontOk` follow it, the guard held for every
  font and is dropped: the statement is the same minus that exclusion.)
* ADF: more than 65535 rows (a file above 10 MiB; the SAUCE height field is 16 bit; not known to fail).
* IDF: a header that announces more than 80 columns (the loader's layer is 80 columns wide, cells beyond it are dropped on
  every load; not known to fail).
* Tundra: files of 2 GiB, pictures of 2^30 cells (`i32` palette indices / positions), and re-saving WITHOUT a SAUCE record a
  picture that is not 80 columns wide (the format has no width field: the property's quantifier says "any width with SAUCE").
* BIN: re-saving without a SAUCE record (same reason; quantifier: "with SAUCE"). -/

/-- the loaded pictures the re-save theorem covers -/
def ResaveCovered (f : Fmt) (o : Opts) (bytes : List Nat) (g : LBuf) : Prop :=
  1 ≤ g.bh ∧
  match f with
  | .xb => analyzeFontUsage g.toPic.rows.flatten ≠ [1]
  | .bin => o.sauce = true
  | .adf => g.bh ≤ 65535
  | .idf => g.bw ≤ 80
  | .tnd => bytes.length + 8 ≤ 2147483648 ∧ g.bw * g.bh.toNat < 1073741824 ∧ (o.sauce = true ∨ g.bw = 80)

/-- loaded pictures a writer refuses by the format's own limits (it returns `Err`, no file is written): BIN stores width / 2
    in one byte of its SAUCE record, iCE Draw has at most 200 rows -/
def Refused (f : Fmt) (g : LBuf) : Prop :=
  match f with
  | .bin => ¬ (g.bw % 2 = 0 ∧ g.bw ≤ 510)
  | .idf => g.bh > 200
  | _ => False

/-- **PARTIAL** (see above for exactly what `ResaveCovered` leaves out): loading any file the loader accepts, saving it again
    in the same format and loading that gives the same picture as the first load — or the writer refuses the picture. -/
theorem resave_stable_partial (f : Fmt) (o : Opts) (date bytes : List Nat) (g : LBuf) (hb : ∀ b ∈ bytes, b < 256)
    (hdate : dateOk date = true) (hload : fromBytes f bytes = .ok g) (hc : ResaveCovered f o bytes g) :
    (¬ Refused f g → Restable f o date g) ∧ (Refused f g → save f o date g.toPic = .err) := by
  obtain ⟨hh, hc⟩ := hc
  cases f with
  | xb => exact ⟨fun _ => xb_resave_partial o date bytes g hb hdate hload hh hc, fun h => h.elim⟩
  | bin =>
    obtain ⟨h1, h2⟩ := bin_resave o date bytes g hb hdate hc hload hh
    exact ⟨fun hn => h1 (Classical.not_not.mp hn), fun hr => h2 hr⟩
  | adf => exact ⟨fun _ => adf_resave o date bytes g hb hdate hload hh hc, fun h => h.elim⟩
  | idf =>
    obtain ⟨h1, h2⟩ := idf_resave_partial o date bytes g hb hdate hload hh hc
    exact ⟨fun hn => h1 (by show g.bh ≤ 200; have : ¬ g.bh > 200 := hn; omega), h2⟩
  | tnd => exact ⟨fun _ => tnd_resave o date bytes g hb hdate hload hc.1 hh hc.2.1 hc.2.2, fun h => h.elim⟩

/-- the per-format statements behind it (`Lemmas/BinFormatsResave.lean`) -/
theorem resave_bin_partial (o : Opts) (date bytes : List Nat) (g : LBuf) (hb : ∀ b ∈ bytes, b < 256) (hdate : dateOk date = true)
    (hs : o.sauce = true) (hload : fromBytes .bin bytes = .ok g) (hh : 1 ≤ g.bh) :
    (g.bw % 2 = 0 ∧ g.bw ≤ 510 → Restable .bin o date g) ∧ (¬ (g.bw % 2 = 0 ∧ g.bw ≤ 510) → save .bin o date g.toPic = .err) :=
  bin_resave o date bytes g hb hdate hs hload hh

theorem resave_adf_partial (o : Opts) (date bytes : List Nat) (g : LBuf) (hb : ∀ b ∈ bytes, b < 256) (hdate : dateOk date = true)
    (hload : fromBytes .adf bytes = .ok g) (hh : 1 ≤ g.bh) (hh2 : g.bh ≤ 65535) : Restable .adf o date g :=
  adf_resave o date bytes g hb hdate hload hh hh2

theorem resave_xb_partial (o : Opts) (date bytes : List Nat) (g : LBuf) (hb : ∀ b ∈ bytes, b < 256) (hdate : dateOk date = true)
    (hload : fromBytes .xb bytes = .ok g) (hh : 1 ≤ g.bh)
    (hp1 : analyzeFontUsage g.toPic.rows.flatten ≠ [1]) : Restable .xb o date g :=
  xb_resave_partial o date bytes g hb hdate hload hh hp1

theorem resave_idf_partial (o : Opts) (date bytes : List Nat) (g : LBuf) (hb : ∀ b ∈ bytes, b < 256) (hdate : dateOk date = true)
    (hload : fromBytes .idf bytes = .ok g) (hh : 1 ≤ g.bh) (hw : g.bw ≤ 80) :
    (g.bh ≤ 200 → Restable .idf o date g) ∧ (g.bh > 200 → save .idf o date g.toPic = .err) :=
  idf_resave_partial o date bytes g hb hdate hload hh hw

theorem resave_tnd_partial (o : Opts) (date bytes : List Nat) (g : LBuf) (hb : ∀ b ∈ bytes, b < 256) (hdate : dateOk date = true)
    (hload : fromBytes .tnd bytes = .ok g) (hlen : bytes.length + 8 ≤ 2147483648) (hh : 1 ≤ g.bh)
    (harea : g.bw * g.bh.toNat < 1073741824) (hs : o.sauce = true ∨ g.bw = 80) : Restable .tnd o date g :=
  tnd_resave o date bytes g hb hdate hload hlen hh harea hs

/-- what every loader can produce (the facts the proofs above rest on), XBin as the example: width 1..=4096, at most 65535
    rows, blink or ice, a 16-colour 6-bit palette, one font or — in 512-character mode — two fonts of the same height, every
    cell an 8-bit character with a 4-bit foreground (3-bit in 512-character mode) and a background that fits the mode -/
theorem xb_loader_range (bytes : List Nat) (hb : ∀ b ∈ bytes, b < 256) (s : Option Sauce.Sauce) (g : LBuf) (h : xbLoad bytes s = .ok g) :
    XbRange s g := xb_range bytes hb s g h

/-! ## SAUCE-carrying saves: the texts of the record and fonts named by it -/

/-- title, author, group and comments survive the binary round trip (all five formats) -/
theorem sauce_texts_rt (f : Fmt) (o : Opts) (date : List Nat) (p : Pic) (bytes : List Nat) (g : LBuf)
    (hs : o.sauce = true) (hm : metaOk p.sauce = true) (hdate : dateOk date = true) (hb : ∀ b ∈ bytes, b < 256)
    (hsave : save f o date p = .ok bytes) (hload : fromBytes f bytes = .ok g) :
    ∃ m, g.sauce = some m ∧
      m.title = Sauce.carryPad Gen.Sauce.titleLen Gen.Sauce.titlePad (p.sauce.getD {}).title ∧
      m.author = Sauce.carryPad Gen.Sauce.authorLen Gen.Sauce.authorPad (p.sauce.getD {}).author ∧
      m.group = Sauce.carryPad Gen.Sauce.groupLen Gen.Sauce.groupPad (p.sauce.getD {}).group ∧
      m.comments = (p.sauce.getD {}).comments.map Sauce.carryNul :=
  sauce_texts_roundtrip f o date p bytes g hs hm hdate hb hsave hload

/-- … which under `SauceString`'s own equality (trailing blanks and NULs never count) is: the same title (C11
    `string_rt_equal`) -/
theorem sauce_title_equal (f : Fmt) (o : Opts) (date : List Nat) (p : Pic) (bytes : List Nat) (g : LBuf)
    (hs : o.sauce = true) (hm : metaOk p.sauce = true) (hdate : dateOk date = true) (hb : ∀ b ∈ bytes, b < 256)
    (hsave : save f o date p = .ok bytes) (hload : fromBytes f bytes = .ok g) :
    ∃ m, g.sauce = some m ∧ Sauce.strEq m.title (p.sauce.getD {}).title = true := by
  obtain ⟨m, h1, h2, _⟩ := sauce_texts_roundtrip f o date p bytes g hs hm hdate hb hsave hload
  refine ⟨m, h1, ?_⟩
  rw [h2]
  have hv := (metaOk_valid p [] hm).1
  exact (IcyVerif.C11.string_rt_equal Gen.Sauce.titleLen Gen.Sauce.titlePad (by decide) _ hv.title).1

/-- BIN stores no glyphs: a font SAUCE can name (TInfoS; table regenerated from `sauce_fonts!`) comes back as that font -/
theorem bin_font_by_name_rt (o : Opts) (date : List Nat) (p : Pic) (f0 : Font) (hrep : Representable .bin o p = true)
    (hdate : dateOk date = true) (hf0 : lookupFont p.fonts 0 = some f0) (hn : sauceFontByName f0.name = some f0) :
    ∃ bytes g, save .bin o date p = .ok bytes ∧ fromBytes .bin bytes = .ok g ∧ SamePicture .bin p g ∧ lookupFont g.fonts 0 = some f0 :=
  bin_font_by_name o date p f0 hrep hdate hf0 hn

/-! ## non-vacuity: representable pictures of every format, and the two recorded exclusions -/

set_option maxRecDepth 100000

def cA : Cell := ⟨0x41, ⟨7, 0, 0, 0⟩⟩
def cB : Cell := ⟨0x42, ⟨12, 9, 0, 0⟩⟩
def cBold : Cell := ⟨0x43, ⟨3, 1, Xb.attrBold, 0⟩⟩
def cBlink : Cell := ⟨0x44, ⟨14, 2, Xb.attrBlink, 0⟩⟩
def cEsc : Cell := ⟨1, ⟨0, 0, 0, 0⟩⟩
def cP1 : Cell := ⟨0xDB, ⟨5, 4, 0, 1⟩⟩
def fnt8 : Font := ⟨[70], 8, List.replicate 2048 0x55⟩
def date0 : List Nat := [50, 48, 50, 52, 48, 50, 50, 57]    -- "20240229"

example : dateOk date0 = true := by decide

/-- XBin, blink mode, two fonts (default + an 8... no: two 16-row fonts), compressed, with SAUCE -/
def xbPic : Pic := ⟨3, 2, [[cA, cP1, cA], [cP1, cP1, ⟨0x42, ⟨7, 6, Xb.attrBlink, 0⟩⟩]], .blink, dosPalette,
  [(0, defaultFont), (1, ⟨[71], 16, List.replicate 4096 0xAA⟩)], none⟩
example : Representable .xb ⟨true, true⟩ xbPic = true := by decide +kernel
/-- XBin, ice mode, one 8-row font, a one-row picture (the pinned tree loaded it 25 rows high) -/
def xbLow : Pic := ⟨2, 1, [[cB, cBold]], .ice, dosPalette, [(0, fnt8)], none⟩
example : Representable .xb ⟨true, false⟩ xbLow = true := by decide +kernel
example : (match save .xb ⟨true, false⟩ date0 xbLow with
    | .ok b => (match fromBytes .xb b with | .ok g => g.bh == 1 && picSame true .xb xbLow g | _ => false)
    | _ => false) = true := by decide +kernel

def binPic : Pic := ⟨2, 3, [[cA, cBlink], [cBold, cA], [cA, cA]], .blink, dosPalette, [(0, defaultFont)], none⟩
example : Representable .bin ⟨true, false⟩ binPic = true := by decide +kernel

def row80 (c : Cell) : List Cell := cB :: List.replicate 79 c
def adfPic : Pic := ⟨80, 2, [row80 cA, row80 cBold], .ice, dosPalette, [(0, defaultFont)], none⟩
example : Representable .adf ⟨false, false⟩ adfPic = true := by decide +kernel

/-- IDF with the escape pair (character 1 on attribute 0), compressed: the pinned tree shifted everything behind it -/
def idfPic : Pic := ⟨5, 2, [[cEsc, cA, cA, cA, cA], [cB, cEsc, cEsc, cB, cA]], .ice, dosPalette, [(0, defaultFont)], none⟩
example : Representable .idf ⟨true, true⟩ idfPic = true := by decide +kernel
example : (match save .idf ⟨true, true⟩ date0 idfPic with
    | .ok b => (match fromBytes .idf b with | .ok g => picSame true .idf idfPic g | _ => false)
    | _ => false) = true := by decide +kernel

/-- Tundra: control-range characters, a bold cell on a bright colour, palette entry 0 that is not black -/
def tndPic : Pic := ⟨3, 2, [[⟨0x41, ⟨0, 0, 0, 0⟩⟩, ⟨2, ⟨14, 3, 0, 0⟩⟩, ⟨0x43, ⟨9, 0, Xb.attrBold, 0⟩⟩], [cA, cB, ⟨6, ⟨20, 17, 0, 0⟩⟩]], .ice,
  (31, 89, 15) :: dosPalette.drop 1 ++ [(1, 2, 3), (200, 100, 50), (9, 9, 9), (250, 251, 252), (77, 0, 77)], [(0, defaultFont)], none⟩
example : Representable .tnd ⟨true, false⟩ tndPic = true := by decide +kernel
example : (match save .tnd ⟨true, false⟩ date0 tndPic with
    | .ok b => (match fromBytes .tnd b with | .ok g => picSame true .tnd tndPic g | _ => false)
    | _ => false) = true := by decide +kernel

/-- a representable Tundra picture 1001 columns wide (the pinned tree loaded it 80 columns wide: finding
    `tnd:sauce-width>1000`, repaired) comes back 1001 columns wide -/
def tndWide : Pic := ⟨1001, 1, [List.replicate 1001 cA], .ice, dosPalette, [(0, defaultFont)], none⟩
theorem tnd_wide_holds :
    ∃ bytes g, save .tnd ⟨true, false⟩ date0 tndWide = .ok bytes ∧ fromBytes .tnd bytes = .ok g ∧ g.bw = 1001 ∧
      SamePicture .tnd tndWide g := by
  obtain ⟨bytes, g, h1, h2, h3⟩ := tnd_rt ⟨true, false⟩ date0 tndWide rfl (by decide +kernel) (by decide)
  exact ⟨bytes, g, h1, h2, h3.width, h3⟩

/-- **Excluded from `rt_nosauce_partial`, and really false:** a representable 64-column ice-colour XBin picture saved
    without SAUCE whose last row spells a SAUCE record loses that row. -/
def sauceRow : List Cell :=
  (pairsOf (BinFmt.sauceId ++ [48, 48] ++ List.replicate 75 32 ++ date0 ++ [0, 0, 0, 0, 6, 0, 64, 0, 1, 0] ++ List.replicate 28 0)).map
    fun q => (⟨q.1, fromU8 true q.2⟩ : Cell)
def fakeSaucePic : Pic := ⟨64, 2, [List.replicate 64 cA, sauceRow], .ice, dosPalette, [(0, defaultFont)], none⟩
theorem fake_sauce_violates :
    Representable .xb ⟨false, false⟩ fakeSaucePic = true ∧
    (match save .xb ⟨false, false⟩ date0 fakeSaucePic with
     | .ok b => tailReadsAsSauce b && (match fromBytes .xb b with | .ok g => g.bh == 1 && !picSame true .xb fakeSaucePic g | _ => false)
     | _ => false) = true := by
  constructor <;> decide +kernel

/-! ## buffers with several layers

The writers read the buffer through `Buffer::get_char` only (translator guard `Gen.BinFmt.writersReadGetCharOnly`), i.e. they
save the picture of the WHOLE layer stack as the compositor (C13's model, `Model/Comp.lean`) shows it.  `Layered.flatten` is that
picture; everything above applies to it. -/

/-- for every stack of layers (visible or hidden, any offsets, with or without alpha channel, `Chars` / `Attributes` layers):
    if the composited picture is in the format's domain, saving the buffer and loading the file gives the composited picture -/
theorem layers_rt (hb : Comp.Cell → Nat × Nat) (f : Fmt) (o : Opts) (date : List Nat) (B : Layered)
    (hrep : Representable f o (B.flatten hb) = true) (hdate : dateOk date = true) :
    ∃ bytes, saveLayered hb f o date B = .ok bytes ∧
      ((o.sauce = true ∨ tailReadsAsSauce bytes = false) → ∃ g, fromBytes f bytes = .ok g ∧ SamePicture f (B.flatten hb) g) :=
  layered_roundtrip hb f o date B hrep hdate

/-- the composited picture is rectangular whatever the layers are, and its cells are `Buffer::get_char` -/
theorem layers_picture (hb : Comp.Cell → Nat × Nat) (B : Layered) (h : 1 ≤ B.h) :
    wellFormed (B.flatten hb) = true ∧
    ∀ x y, x < B.w → y < B.h → (B.flatten hb).cell x y = cellOf (Comp.getChar hb B.isTerm B.layers (x : Int) (y : Int)) :=
  ⟨flatten_wellFormed hb B h, fun x y hx hy => flatten_cell hb B x y hx hy⟩

/-- the one-layer buffers of the theorems above are the special case: one visible opaque `Normal` layer at offset 0 shows its
    visible cells, and the default cell where it holds an invisible one -/
theorem layers_single (hb : Comp.Cell → Nat × Nat) (B : Layered) (l : Comp.Layer) (hl : B.layers = [l]) (hv : l.visible = true)
    (hna : l.alpha = false) (hm : l.mode = .normal) (hox : l.offX = 0) (hoy : l.offY = 0) (x y : Nat)
    (hx : (x : Int) < l.w) (hy : (y : Int) < l.h) (hnt : (l.getChar x y).hasTransparentColor = false) :
    Comp.getChar hb B.isTerm B.layers (x : Int) (y : Int) =
      (if (l.getChar x y).isVisible then l.getChar x y else Comp.defaultCell.withPage l.dfltPage) := by
  rw [flatten_single hb B l hl hv hna hm hox hoy x y hx hy, hnt]
  simp

/-- non-vacuity: a 3x2 base layer under a smaller layer with an alpha channel at offset (1, 0) whose middle cell is
    invisible: the composited picture is in XBin's domain and is neither layer alone -/
def kA : Comp.Cell := ⟨0x41, ⟨7, 0, 0, 0⟩⟩
def kB : Comp.Cell := ⟨0x42, ⟨12, 9, 0, 0⟩⟩
def twoLayers : Layered :=
  { w := 3, h := 2, isTerm := false,
    layers := [⟨true, false, .normal, 0, 0, 3, 2, 0, [[kA, kA, kA], [kA, kA, kA]]⟩,
               ⟨true, true, .normal, 1, 0, 2, 2, 0, [[kB, Comp.invisibleCell], [Comp.invisibleCell, kB]]⟩],
    ice := .ice, pal := dosPalette, fonts := [(0, defaultFont)] }
example : Representable .xb ⟨true, true⟩ (twoLayers.flatten (fun _ => (0, 0))) = true ∧
    (twoLayers.flatten (fun _ => (0, 0))).rows = [[cA, cB, cA], [cA, cA, cB]] := by
  constructor <;> decide +kernel

/-! ## re-save stability: non-vacuity (files that load and meet `ResaveCovered`) and the excluded points that are really false -/

def fileOf (f : Fmt) (o : Opts) (p : Pic) : List Nat := match save f o date0 p with | .ok b => b | _ => []

/-- `hb`, `hload` and `ResaveCovered` hold for a two-font compressed XBin file, a BIN, an ADF, an IDF and a Tundra file -/
def xbTiny : Pic := ⟨3, 2, [[cA, cP1, cA], [cP1, cP1, ⟨0x42, ⟨7, 6, Xb.attrBlink, 0⟩⟩]], .blink, dosPalette,
  [(0, ⟨[70], 1, List.replicate 256 0x81⟩), (1, ⟨[71], 1, List.replicate 256 0xAA⟩)], none⟩
example : Representable .xb ⟨true, true⟩ xbTiny = true := by decide +kernel
example : (fileOf .xb ⟨true, true⟩ xbTiny).all (· < 256) = true ∧
    (match fromBytes .xb (fileOf .xb ⟨true, true⟩ xbTiny) with
     | .ok g => decide (1 ≤ g.bh) && (analyzeFontUsage g.toPic.rows.flatten != [1])
     | _ => false) = true := by constructor <;> decide +kernel
example : (match fromBytes .bin (fileOf .bin ⟨true, false⟩ binPic) with | .ok g => decide (1 ≤ g.bh) && decide (g.bw % 2 = 0 ∧ g.bw ≤ 510) | _ => false) = true := by
  decide +kernel
example : (match fromBytes .adf (fileOf .adf ⟨false, false⟩ adfPic) with | .ok g => decide (1 ≤ g.bh ∧ g.bh ≤ 65535) | _ => false) = true := by
  decide +kernel
example : (match fromBytes .idf (fileOf .idf ⟨true, true⟩ idfPic) with | .ok g => decide (1 ≤ g.bh ∧ g.bh ≤ 200 ∧ g.bw ≤ 80) | _ => false) = true := by
  decide +kernel
example : (match fromBytes .tnd (fileOf .tnd ⟨true, false⟩ tndPic) with
    | .ok g => decide (1 ≤ g.bh ∧ g.bw * g.bh.toNat < 1073741824) | _ => false) = true := by decide +kernel

/-- a SAUCE record (with its EOF character) of the given data type, file type and size -/
def sauceRec (dt ft w h : Nat) : List Nat :=
  [0x1A] ++ Gen.Sauce.sauceId ++ [48, 48] ++ List.replicate 75 32 ++ date0 ++ [0, 0, 0, 0, dt, ft, w % 256, w / 256, h % 256, h / 256, 0, 0, 0, 0, 0, 0] ++
    List.replicate 22 0

/-- **Excluded from the BIN clause, and really false:** a `.bin` file that is nothing but a (foreign) SAUCE record announcing
    4 x 0 loads without rows; re-saved (with SAUCE) and loaded again it has the 25 rows the BIN record type implies. -/
theorem resave_bin_height0_violates :
    (match fromBytes .bin (sauceRec 1 8 4 0) with
     | .ok g => g.bh == 0 && g.bw == 4 &&
        (match save .bin ⟨true, false⟩ date0 g.toPic with
         | .ok b₂ => (match fromBytes .bin b₂ with | .ok g₂ => g₂.bh == 25 && g₂.bw == 4 | _ => false)
         | _ => false)
     | _ => false) = true := by decide +kernel

/-- **Excluded from the Tundra clause, and really false:** a Tundra file without cells whose SAUCE record (height field 0: a
    foreign record, or the engine's own record of a picture without rows — since `fix: SAUCE record of a Tundra file …` the
    engine writes the picture's height) says 80 columns loads as 80 x 0; re-saved WITHOUT a SAUCE record it loads as 80 x 25. -/
theorem resave_tnd_height0_violates :
    (match fromBytes .tnd ([BinFmt.tndVersion] ++ BinFmt.tndHeader ++ sauceRec 1 8 80 0) with
     | .ok g => g.bh == 0 && g.bw == 80 &&
        (match save .tnd ⟨false, false⟩ date0 g.toPic with
         | .ok b₂ => (match fromBytes .tnd b₂ with | .ok g₂ => g₂.bh == 25 && g₂.bw == 80 | _ => false)
         | _ => false)
     | _ => false) = true := by decide +kernel

/-- SAUCE texts and a font by name: a BIN picture with title, author, one comment line and the font "IBM VGA50" -/
def vga50 : Font := match sauceFontByName [73, 66, 77, 32, 86, 71, 65, 53, 48] with | some f => f | none => defaultFont
def binNamed : Pic := ⟨2, 1, [[cA, cBlink]], .blink, dosPalette, [(0, vga50)],
  some { title := [72, 105], author := [109, 101, 32], group := [], comments := [[99, 49], [99, 0, 50]], ar := false, ls := false }⟩
example : Representable .bin ⟨true, false⟩ binNamed = true ∧ sauceFontByName vga50.name = some vga50 ∧ vga50.height = 8 := by
  refine ⟨by decide +kernel, by decide +kernel, by decide +kernel⟩
example : (match fromBytes .bin (fileOf .bin ⟨true, false⟩ binNamed) with
    | .ok g => (lookupFont g.fonts 0 == some vga50) &&
        (match g.sauce with
         | some m => m.title == [72, 105] && m.author == [109, 101] && m.comments == [[99, 49], [99]]
         | none => false)
    | _ => false) = true := by decide +kernel

end IcyVerif.C05
