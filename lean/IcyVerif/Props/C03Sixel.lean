import IcyVerif.Lemmas.SixelCost
/-! # C03 — sixel decode cost: `sixel_cost <= Q(|payload|, MAXDIM)` (DESIGN §4 C03)

The decoder model is C14's `Model/Sixel.lean` (row LENGTHS instead of pixels; every allocation whose size comes from a number
in the payload is checked against `hugeLimit` and ends the model with `Out.huge` beyond it).  Since the two size-limit repairs
(`MAX_SIXEL_SIZE`: raster attributes, repeat counts and cursor positions; `MAX_SIXEL_COLORS`: colour registers — numbers beyond
them are the parse errors the file already had) the three recorded findings are gone, and for EVERY payload:
* every reachable machine state is small: at most `MAX` rows of at most `4 MAX` bytes, at most `MAXC` palette entries
  (`sixel_state_bounded`) — memory is bounded by `4 MAX^2 + palette` at every moment, independent of the payload;
* no allocation request leaves the modelled range (`sixel_never_huge`: the outcome `huge` of C14's model is unreachable);
* the decoded picture is at most `MAX x MAX` pixels (`sixel_picture_bounded`);
* the only parameter-driven loop — the repeat introducer `!Pn` — runs at most `MAX` times per payload character:
  `parse_sixel_data` is called at most `(MAX + 1) * (|payload| + 1)` times (`sixel_cost`); each call writes at most 6 pixels
  and appends rows within the state bound.
The limits are the regenerated constants of the source (`Gen.Sixel.maxSixelSize`, `maxSixelColors`); the translator pins the
four guards.  Wall-clock time and allocator behaviour stay with the oracle (per-payload time, picture bytes `<= 4 MAX^2`). -/
namespace IcyVerif.C03
open IcyVerif.Sixel

/-- the limits found in the source, and that they keep every checked allocation inside the modelled range -/
theorem sixel_limits_from_source :
    maxSize = IcyVerif.Gen.Sixel.maxSixelSize ∧ maxColors = IcyVerif.Gen.Sixel.maxSixelColors ∧
    4 * maxSize ≤ hugeLimit ∧ maxSize * (4 * maxSize) ≤ hugeLimit ∧ maxColors ≤ hugeLimit :=
  ⟨rfl, rfl, limits_fit.1, limits_fit.2.1, limits_fit.2.2.1⟩

/-- every state the decoder reaches on any payload (any numbers in raster attributes, repeat counts, colour registers) is small -/
theorem sixel_state_bounded (hs vs : Nat) (payload : List Char) (s : St)
    (h : run { hscale := hs, vscale := vs } payload = .ok s) :
    s.rows.length ≤ maxSize ∧ (∀ r ∈ s.rows, r ≤ 4 * maxSize) ∧ s.rows.sum ≤ maxSize * (4 * maxSize) ∧ s.palLen ≤ maxColors := by
  have hsm : Small { hscale := hs, vscale := vs } := ⟨by simp, by simp, limits_fit.2.2.2⟩
  have := run_small hsm payload
  rw [h] at this
  have hg : Small s := this
  refine ⟨hg.height, hg.rows, ?_, hg.pal⟩
  have hsum : ∀ (M : Nat) (l : List Nat), (∀ r ∈ l, r ≤ M) → l.sum ≤ l.length * M := by
    intro M l
    induction l with
    | nil => intro _; simp
    | cons a t ih =>
      intro hl
      have h1 := hl a (by simp)
      have h2 := ih (fun r hr => hl r (by simp [hr]))
      simp only [List.sum_cons, List.length_cons, Nat.succ_mul]
      omega
  exact Nat.le_trans (hsum _ s.rows hg.rows) (Nat.mul_le_mul_right _ hg.height)

/-- no payload makes the decoder ask for an allocation outside the modelled range: the former findings `alloc` (C14),
    `sixel:payload:runaway` and `sixel:slow-or-huge` (C03) cannot occur -/
theorem sixel_never_huge (hs vs : Nat) (payload : List Char) :
    decode hs vs payload ≠ .huge ∧ parse payload ≠ .huge := by
  have h1 : Small { hscale := hs, vscale := vs } := ⟨by simp, by simp, limits_fit.2.2.2⟩
  have r1 := run_small h1 (payload ++ ['#'])
  have r2 := run_small small_init (payload ++ ['#'])
  constructor
  · unfold decode mapOut
    intro h
    revert r1 h
    cases run { hscale := hs, vscale := vs } (payload ++ ['#']) with
    | ok s => intro _ h; simp [Out.andThen] at h
    | err e => intro _ h; simp [Out.andThen] at h
    | panic p => intro _ h; simp [Out.andThen] at h
    | huge => intro g _; exact g
  · unfold parse mapOut
    intro h
    revert r2 h
    cases run {} (payload ++ ['#']) with
    | ok s => intro _ h; simp [Out.andThen] at h
    | err e => intro _ h; simp [Out.andThen] at h
    | panic p => intro _ h; simp [Out.andThen] at h
    | huge => intro g _; exact g

/-- the picture `Sixel::parse_from` returns is at most `MAX x MAX` pixels, `4 MAX^2` bytes -/
theorem sixel_picture_bounded (payload : List Char) (img : Img) (h : parse payload = .ok img) :
    img.w ≤ maxSize ∧ img.h ≤ maxSize ∧ img.dataLen ≤ maxSize * (4 * maxSize) := by
  unfold parse mapOut at h
  have r := run_small small_init (payload ++ ['#'])
  revert r h
  cases run {} (payload ++ ['#']) with
  | ok s =>
    intro h g
    simp only [Out.andThen] at h
    injection h with h; subst h
    have g' : Small s := g
    have hrl := rowLen_le g'.rows
    simp only [finish]
    refine ⟨by omega, g'.height, ?_⟩
    rw [sum_const]
    exact Nat.mul_le_mul g'.height hrl
  | err e => intro h; simp [Out.andThen] at h
  | panic p => intro h; simp [Out.andThen] at h
  | huge => intro h; simp [Out.andThen] at h

/-- `sixel_cost`: the number of `parse_sixel_data` calls (the only parameter-driven loop is the repeat introducer) is at most
    `(MAX + 1)` per payload character — whatever the repeat counts say -/
theorem sixel_cost (hs vs : Nat) (payload : List Char) :
    runWork { hscale := hs, vscale := vs } (payload ++ ['#']) ≤ (maxSize + 1) * (payload.length + 1) := by
  have := runWork_le (payload ++ ['#']) { hscale := hs, vscale := vs }
  simpa using this

/-- non-vacuity: the bounds are attained / the guards fire -/
example : maxSize = 4096 ∧ maxColors = 4096 := by decide
example : parse "\"1;1;4096;3".toList = .ok ⟨4096, 3, 49152⟩ := by decide +kernel
example : parse "\"1;1;4097;1".toList = .err .invalidPictureSize := by decide
example : parse "!4097~".toList = .err .invalidPictureSize := by decide
example : parse "#4096;2;0;0;0~".toList = .err .invalidColor := by decide
example : runWork {} "!40?$!40?".toList = 2 * (40 + 4) + 1 := by decide +kernel

end IcyVerif.C03
