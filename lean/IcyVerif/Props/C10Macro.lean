import IcyVerif.Lemmas.UniMacro
import IcyVerif.Lemmas.Unicode
/-! # C10 — macro bodies are valid UTF-8 and are what the definition says

"… every string it builds (layer titles, font names, SAUCE fields, **macro bodies**) is valid UTF-8, whatever bytes
arrived from a terminal stream …"

`Model/UniMacro.lean` follows the characters of a stream from `ESC P` through the DCS recorder, the number loop and
dispatch of `execute_dcs` and `parse_macro` into `Parser::macros`.  The theorems are about EVERY history of DCS
sequences and resets, every character a Rust `char` can be, text and hex macros; the correspondence run compares the
bytes of the stored `String`s (hook `verif_dcs_view`) with `storedBytes`. -/
namespace IcyVerif.C10
open IcyVerif.Uni IcyVerif.UniMacro IcyVerif.Gen.UniMacro IcyVerif.Gen.Unsafe

/-- the DCS recorder hands `execute_dcs` only characters that arrived (plus the ESC it held back): scalar values in,
    scalar values out -/
theorem dcs_record_scalar (chars s rest : List Nat) (hc : Scalars chars) (h : record false [] chars = .done s rest) :
    Scalars s :=
  (record_scalars false [] chars scalars_nil hc s rest h).1

/-- MAIN: after every history of DCS sequences (any characters: numbers, introducers, text and hex bodies, repeat
    groups, errors, clear requests) and resets, every body in the macro table is a sequence of scalar values, and the
    bytes of the stored `String` are well-formed UTF-8 -/
theorem macro_table_valid_utf8 (ops : List Op) (ho : ∀ op ∈ ops, OpScalars op) :
    ∀ e ∈ (run [] ops).1, Scalars e.2 ∧ ValidUtf8 (storedBytes e.2) := by
  intro e he
  have hs := run_scalars [] ops tableScalars_nil ho e he
  exact ⟨hs, e.2, hs, rfl⟩

/-- … in terms of the executable validator (`std::str::from_utf8(..).is_ok()`), which is what the oracle evaluates -/
theorem macro_table_validator (ops : List Op) (ho : ∀ op ∈ ops, OpScalars op) :
    ∀ e ∈ (run [] ops).1, validUtf8 (storedBytes e.2) = true :=
  fun e he => (validUtf8_iff _).mpr (macro_table_valid_utf8 ops ho e he).2

/-- a text macro (`Penc = 0`) is stored verbatim: whatever the table held, after `DCS <numbers> !z body ST` whose
    numbers read `Pid ; Pdt ; 0 …`, slot `Pid` holds exactly `body` — no character dropped, none altered -/
theorem text_macro_stored_verbatim (tbl : Table) (pre body : List Nat) (pid pdt : Int) (more : List Int)
    (hp : NumChars pre) (hn : (takeNums [] pre).1 = pid :: pdt :: encText :: more) :
    (executeDcs tbl (pre ++ (macroIntro ++ body))).2 = .ok ∧
    tblGet pid.toNat (executeDcs tbl (pre ++ (macroIntro ++ body))).1 = some body := by
  have hne : pre ≠ [] := by
    intro h; subst h; simp [takeNums] at hn
  have hfont : fontPrefix.isPrefixOf (pre ++ (macroIntro ++ body)) = false := by
    cases pre with
    | nil => exact absurd rfl hne
    | cons a t =>
      have ha := hp a (by simp)
      have : (67 == a) = false := by
        rcases ha with ha | ha
        · simp [isDigit] at ha; simp; omega
        · subst ha; decide
      simp [fontPrefix, List.isPrefixOf, this]
  have htn : takeNums [] (pre ++ (macroIntro ++ body)) = ((takeNums [] pre).1, macroIntro ++ body) := by
    apply takeNums_append _ _ _ hp
    intro c hc
    simp [macroIntro] at hc
    subst hc
    decide
  have hpre : macroIntro.isPrefixOf (macroIntro ++ body) = true := by simp [macroIntro, List.isPrefixOf]
  have hdrop : (macroIntro ++ body).drop macroIntro.length = body := by simp
  unfold executeDcs
  simp only [hfont, htn, hn, hpre, hdrop, if_true, Bool.false_eq_true, if_false]
  unfold parseMacro
  simp [tblGet_insert]

/-- a hex macro (`Penc = 1`) stores exactly the characters its hex digits name (`hexMacro`, all of them byte values) or
    nothing at all -/
theorem hex_macro_stored (tbl : Table) (nums : List Int) (pid pdt : Int) (more : List Int) (body : List Nat)
    (hn : nums = pid :: pdt :: encHex :: more) :
    (∀ m, hexMacro hexTable body = some m →
        tblGet pid.toNat (parseMacro tbl nums body).1 = some m ∧ (∀ c ∈ m, c < 256)) ∧
    (hexMacro hexTable body = none → (parseMacro tbl nums body).2 = .err ∧
        (parseMacro tbl nums body).1 = if pdt = pdtClear then [] else tbl) := by
  subst hn
  constructor
  · intro m hm
    refine ⟨?_, fun c hc => hexMacro_lt hexTable (by decide) body m hm c hc⟩
    unfold parseMacro
    simp [hm, tblGet_insert, encHex, encText]
  · intro hm
    unfold parseMacro
    simp [hm, encHex, encText]

/-- `ESC c` empties the table; a definition with `Pdt = 1` leaves only itself -/
theorem macro_clear (tbl : Table) (pid : Int) (more : List Int) (body : List Nat) :
    (step tbl .ris).1 = [] ∧
    (parseMacro tbl (pid :: pdtClear :: encText :: more) body).1 = [(pid.toNat, body)] := by
  constructor
  · rfl
  · unfold parseMacro
    simp [tblInsert, encText, pdtClear]

/-- the places of `src/parsers/ansi` that mention the macro table, as the model was written from them (regenerated
    inventory): three writers (`parse_macro` clears, the two `insert`s take the body as built), RIS, three readers, the
    hook.  A new writer or a step between building and storing a body changes the list. -/
def knownMacroTableSites : List (String × String × String) := [
  ("src/parsers/ansi/dcs.rs", "parse_macro", "self.macros.clear();"),
  ("src/parsers/ansi/dcs.rs", "parse_macro_sequence", "self.macros.insert(id, self.parse_string[start_index..].to_string());"),
  ("src/parsers/ansi/dcs.rs", "parse_hex_macro_sequence", "self.macros.insert(id, marco_rec);"),
  ("src/parsers/ansi/mod.rs", "get_baud_rate", "pub(crate) macros: HashMap<usize, String>,"),
  ("src/parsers/ansi/mod.rs", "default", "macros: HashMap::new(),"),
  ("src/parsers/ansi/mod.rs", "print_char", "self.macros.clear();"),
  ("src/parsers/ansi/mod.rs", "print_char", "if let Some(m) = self.macros.get(&i) {"),
  ("src/parsers/ansi/mod.rs", "verif_dcs_view", "let mut macros: Vec<(usize, String)> = self.macros.iter().map(|(k, v)| (*k, v.clone())).collect();"),
  ("src/parsers/ansi/mod.rs", "verif_dcs_view", "macros.sort();"),
  ("src/parsers/ansi/mod.rs", "verif_dcs_view", "(format!(\"{:?}\", self.state), self.parsed_numbers.clone(), macros)"),
  ("src/parsers/ansi/mod.rs", "invoke_macro_by_id", "let m = if let Some(m) = self.macros.get(&(id as usize)) {")]

theorem macro_table_sites_known :
    (macroTableSites.all fun s => knownMacroTableSites.contains s) = true ∧
    (knownMacroTableSites.all fun s => macroTableSites.contains s) = true := by
  decide

/-! ## non-vacuity -/
-- `DCS 5;0;0!zAÜ ST` then `DCS 7;0;1!z41DC ST`: both bodies are A, U+00DC; the stored bytes end in C3 9C
example : (run [] [.dcs [53,59,48,59,48,33,122,65,0xDC,27,92], .dcs [55,59,48,59,49,33,122,52,49,68,67,27,92]]).1
    = [(5, [65, 0xDC]), (7, [65, 0xDC])] := by decide
example : storedBytes [65, 0xDC] = [0x41, 0xC3, 0x9C] := by decide
example : validUtf8 (storedBytes [65, 0xDC]) = true ∧ validUtf8 [0x41, 0xC3] = false := by decide
-- an ESC pair inside the body is kept; `Pdt = 1` clears; a bad hex digit stores nothing
example : (run [] [.dcs [49,59,48,59,48,33,122,27,65,27,92]]).1 = [(1, [27, 65])] := by decide
example : (run [(3, [66])] [.dcs [49,59,49,59,49,33,122,52,71,27,92]]) = ([], [.err]) := by decide
example : (run [(3, [66])] [.ris]) = ([], [.ok]) := by decide
example : (takeNums [] [53,59,48,59,48]).1 = [5, 0, encText] ∧ NumChars [53,59,48,59,48] := by
  refine ⟨by decide, ?_⟩
  unfold NumChars
  decide
example : OpScalars (.dcs [53,59,48,59,48,33,122,65,0xDC,27,92]) := by
  unfold OpScalars Scalars
  decide
example : macroTableSites.length = 11 := by decide

end IcyVerif.C10
