import IcyVerif.Lemmas.FontDcsRt
import IcyVerif.Gen.FontDcs
import IcyVerif.Lemmas.FontRaw
import IcyVerif.Lemmas.Base64
/-! # C17 — the DCS font-loading sequence ON THE STREAM

`Props/C17.lean: dcs_rt_exact` is a statement about the text between `ESC P` and `ESC \`.  Here the same round trip is
stated on the character stream `BitFont::encode_as_ansi(slot)` really produces, fed character by character to
`ansi::Parser::print_char` (`Model/FontDcs.lean`: the parser's DCS state machine incl. `ReadPossibleMacroInDCS`, macro
replay, `execute_dcs`, and the buffer's font table), for EVERY parser whose state is `Default` — whatever macros are
defined, whatever `parse_string` / `parsed_numbers` / fonts are left over from earlier traffic — also behind arbitrary
text, for several fonts back to back, and for sequences that are cut off or interrupted. -/
namespace IcyVerif.C17
open IcyVerif.Font IcyVerif.FontDcs

/-- **DCS font loading on the stream, exact.**  For every well-formed 256-glyph font, every slot a `usize` can hold, every
    parser in the `Default` state (any macros, any left-over strings and numbers, any fonts) and any ESC-free text in front:
    feeding `text ++ encode_as_ansi(f, slot)` leaves the parser in `Default` with its macros untouched, and the font table
    is the old one with `slot` set to what `from_bytes` makes of the raw glyph bytes — which is `f` **iff** `rawGuard`. -/
theorem dcs_stream_exact (f : BitFont) (h : Nat) (wf : WfFont f h) (h256 : f.glyphs.length = 256)
    (hb : ∀ x ∈ flat f.glyphs, x < 256) (slot : Nat) (hs : slot < 18446744073709551616)
    (p : P) (hp : p.st = .dflt) (t : List Nat) (ht : ESC ∉ t) :
    ∃ s, encodeStream f slot = .ok s ∧
      (run p (t ++ s)).st = .dflt ∧ (run p (t ++ s)).macros = p.macros ∧
      (run p (t ++ s)).fonts = (match fromBytes (flat f.glyphs) with | .ok g => setFont p.fonts slot g | _ => p.fonts) ∧
      (fromBytes (flat f.glyphs) = .ok f ↔ rawGuard (flat f.glyphs) h = true) := by
  obtain ⟨s, h1, h2, h3, h4⟩ := stream_effect f h wf hb slot hs p hp t ht
  exact ⟨s, h1, h2, h3, h4, raw_exact f h wf h256 hb⟩

/-- the property's sentence for the DCS sequence: inside `rawGuard` the slot holds exactly `f` afterwards and every
    other slot holds what it held before -/
theorem dcs_stream_rt (f : BitFont) (h : Nat) (wf : WfFont f h) (h256 : f.glyphs.length = 256)
    (hb : ∀ x ∈ flat f.glyphs, x < 256) (hg : rawGuard (flat f.glyphs) h = true) (slot : Nat) (hs : slot < 18446744073709551616)
    (p : P) (hp : p.st = .dflt) (t : List Nat) (ht : ESC ∉ t) :
    ∃ s, encodeStream f slot = .ok s ∧ (run p (t ++ s)).st = .dflt ∧
      fontAt (run p (t ++ s)).fonts slot = some f ∧ ∀ k, k ≠ slot → fontAt (run p (t ++ s)).fonts k = fontAt p.fonts k := by
  obtain ⟨s, h1, h2, _, h4, h5⟩ := dcs_stream_exact f h wf h256 hb slot hs p hp t ht
  rw [h5.mpr hg] at h4
  refine ⟨s, h1, h2, ?_, ?_⟩
  · rw [h4]; exact fontAt_setFont_self _ _ _
  · intro k hk; rw [h4]; exact fontAt_setFont_other _ _ _ _ hk

/-- the literals of the model are the ones in the source (regenerated every run by `tools/gens/fontdcs.py`, which also pins the
    text of the `print_char` arms, `invoke_macro_by_id`, `load_custom_font`, `encode_as_ansi` and `Buffer::set_font`):
    prefix, separator, framing bytes, macro limits -/
theorem dcs_source_constants :
    prefixCTerm = IcyVerif.Gen.FontDcs.dcsPrefix ∧ IcyVerif.Gen.FontDcs.slotSeparator = 58 ∧
    IcyVerif.Gen.FontDcs.frameStart = [ESC, 80] ∧ IcyVerif.Gen.FontDcs.frameEnd = [ESC, 92] ∧
    IcyVerif.Term.MAX_MACRO_DEPTH = IcyVerif.Gen.FontDcs.maxMacroDepth ∧
    IcyVerif.Term.MAX_MACRO_EXPANSION = IcyVerif.Gen.FontDcs.maxMacroExpansion := by decide

/-! ### several fonts back to back -/

/-- one item of a font upload: text (no ESC), then `encode_as_ansi(font, slot)` -/
structure Upload where
  text : List Nat
  font : BitFont
  slot : Nat

def uploadStream : List Upload → Option (List Nat)
  | [] => some []
  | u :: rest =>
    match encodeStream u.font u.slot, uploadStream rest with
    | .ok s, some r => some (u.text ++ s ++ r)
    | _, _ => none

def UploadOk (u : Upload) : Prop :=
  ESC ∉ u.text ∧ u.slot < 18446744073709551616 ∧ u.font.glyphs.length = 256 ∧ (∀ x ∈ flat u.font.glyphs, x < 256) ∧
  ∃ h, WfFont u.font h ∧ rawGuard (flat u.font.glyphs) h = true

/-- **several fonts back to back** (what a writer emits for a buffer with several custom font slots), each behind any
    ESC-free text: the font table afterwards is the old one with every slot set in order (a later upload to the same slot
    wins), parser back in `Default`, macros untouched -/
theorem dcs_streams_back_to_back (us : List Upload) (hus : ∀ u ∈ us, UploadOk u) (p : P) (hp : p.st = .dflt) :
    ∃ s, uploadStream us = some s ∧ (run p s).st = .dflt ∧ (run p s).macros = p.macros ∧
      (run p s).fonts = us.foldl (fun fs u => setFont fs u.slot u.font) p.fonts := by
  induction us generalizing p with
  | nil => exact ⟨[], rfl, hp, rfl, rfl⟩
  | cons u rest ih =>
    obtain ⟨ht, hs, h256, hb, h, wf, hg⟩ := hus u (by simp)
    obtain ⟨s, h1, h2, h3, h4, h5⟩ := dcs_stream_exact u.font h wf h256 hb u.slot hs p hp u.text ht
    rw [h5.mpr hg] at h4
    obtain ⟨r, hr1, hr2, hr3, hr4⟩ := ih (fun v hv => hus v (List.mem_cons_of_mem _ hv)) (run p (u.text ++ s)) h2
    refine ⟨u.text ++ s ++ r, ?_, ?_, ?_, ?_⟩
    · simp only [uploadStream, h1, hr1]
    · rw [run_append]; exact hr2
    · rw [run_append, hr3, h3]
    · rw [run_append, hr4, h4]; rfl

/-! ### sequences that do not arrive -/

/-- **no terminator**: `ESC P` and any ESC-free text (in particular every prefix of a font payload) — everything is
    recorded, nothing is executed, every font is untouched -/
theorem dcs_unterminated_untouched (p : P) (hp : p.st = .dflt) (a : List Nat) (ha : ESC ∉ a) :
    (run p (ESC :: 80 :: a)).fonts = p.fonts ∧ (run p (ESC :: 80 :: a)).st = .dcs ∧ (run p (ESC :: 80 :: a)).str = a := by
  rw [run_unterminated p a hp ha]
  simp [P.str]

/-- **interrupted by a foreign escape sequence**: an `ESC x` (x neither `\` nor `[`) anywhere between `ESC P` and `ESC \` —
    the recorded string contains the ESC, `load_custom_font` rejects it (slot number or base64), every font is untouched
    and the parser is back in `Default` -/
theorem dcs_interrupted_untouched (p : P) (hp : p.st = .dflt) (a b : List Nat) (x : Nat) (ha : ESC ∉ a) (hb : ESC ∉ b)
    (h92 : x ≠ 92) (h91 : x ≠ 91) :
    (run p (ESC :: 80 :: (a ++ ESC :: x :: (b ++ [ESC, 92])))).fonts = p.fonts ∧
    (run p (ESC :: 80 :: (a ++ ESC :: x :: (b ++ [ESC, 92])))).st = .dflt :=
  run_interrupted p a b x hp ha hb h92 h91

/-- **a cut-off sequence followed by a complete one**: `ESC P` + any ESC-free beginning `a` (every prefix of a payload),
    optionally the lone ESC of its terminator, and then a complete `encode_as_ansi(f, slot)`: the parser records both as
    ONE string, neither font arrives, every font is untouched — also the one the complete sequence carries -/
theorem dcs_cut_then_complete_untouched (p : P) (hp : p.st = .dflt) (a : List Nat) (ha : ESC ∉ a) (lone : Bool)
    (f : BitFont) (h : Nat) (wf : WfFont f h) (slot : Nat) :
    ∃ s, encodeStream f slot = .ok s ∧
      (run p (ESC :: 80 :: (a ++ (if lone then [ESC] else []) ++ s))).fonts = p.fonts ∧
      (run p (ESC :: 80 :: (a ++ (if lone then [ESC] else []) ++ s))).st = .dflt := by
  refine ⟨ESC :: 80 :: ((prefixCTerm ++ IcyVerif.B64.stdCodec.fmt slot ++ [58] ++ IcyVerif.B64.stdCodec.b64e (flat f.glyphs)) ++ [ESC, 92]), ?_, ?_⟩
  · unfold encodeStream encodeAnsi; rw [toU8_eq f h wf]
  · have hpay := payload_noesc slot (flat f.glyphs)
    generalize prefixCTerm ++ IcyVerif.B64.stdCodec.fmt slot ++ [58] ++ IcyVerif.B64.stdCodec.b64e (flat f.glyphs) = pay at hpay
    cases lone with
    | false =>
      have e : ESC :: 80 :: (a ++ (if false = true then [ESC] else []) ++ ESC :: 80 :: (pay ++ [ESC, 92])) =
          ESC :: 80 :: (a ++ ESC :: 80 :: (pay ++ [ESC, 92])) := by simp
      rw [e]
      exact run_interrupted p a pay 80 hp ha hpay (by decide) (by decide)
    | true =>
      have e : ESC :: 80 :: (a ++ (if true = true then [ESC] else []) ++ ESC :: 80 :: (pay ++ [ESC, 92])) =
          ESC :: 80 :: (a ++ ESC :: ESC :: ((80 :: pay) ++ [ESC, 92])) := by simp
      rw [e]
      exact run_interrupted p a (80 :: pay) ESC hp ha (by simp [ESC]; exact fun e => hpay e) (by decide) (by decide)

/-! ### non-vacuity: concrete streams through the model -/
set_option maxRecDepth 100000

/-- an 8x1 font whose glyph `g` is the byte `255 - g` -/
def dcsFont : BitFont := { w := 8, h := 1, length := 256, glyphs := (List.range 256).map fun g => some [255 - g] }
/-- a parser that has seen other traffic: a left-over string, numbers, a macro, a font in slot 7 -/
def busy : P := { st := .dflt, strRev := [65, 66], nums := [5], macros := [(1, ['x'])], fonts := [(7, dcsFont)] }

example : (match encodeStream dcsFont 3 with
    | .ok s => decide (s.length = 361) && decide (fontAt (run busy ([72, 105] ++ s)).fonts 3 = some dcsFont) &&
        decide (fontAt (run busy ([72, 105] ++ s)).fonts 7 = some dcsFont) && decide ((run busy s).st = .dflt)
    | _ => false) = true := by decide +kernel
/-- the same stream without its last character installs nothing; with a foreign `ESC A` inside it installs nothing -/
example : (match encodeStream dcsFont 3 with
    | .ok s => decide (fontAt (run busy (s.take 360)).fonts 3 = none) &&
        decide (fontAt (run busy (s.take 100 ++ [27, 65] ++ s.drop 100)).fonts 3 = none)
    | _ => false) = true := by decide +kernel
example : UploadOk ⟨[72, 105], dcsFont, 3⟩ := by
  refine ⟨by decide, by decide, by decide +kernel, by decide +kernel, 1, ?_, by decide +kernel⟩
  exact { w8 := rfl, hh := rfl, h1 := by decide, h255 := by decide, n := by decide +kernel, len := by decide +kernel,
          rows := by
            intro g hg
            simp only [dcsFont, List.mem_map] at hg
            obtain ⟨k, _, rfl⟩ := hg
            exact ⟨[255 - k], rfl, rfl⟩ }

end IcyVerif.C17
