import IcyVerif.Lemmas.FontRt
import IcyVerif.Lemmas.TdfRt
/-! # C17 — bitmap and TheDraw fonts survive every encoding the engine uses

Models: `Model/Font.lean` (src/fonts.rs + the `CTerm:Font:` DCS payload of dcs.rs), `Model/Tdf.lean`
(src/tdf_font/mod.rs), both of the repaired tree.  `WfFont f h` covers every font of the property's quantifier
(width 8, height 1..=32, 256 or 512 glyphs) and more (any complete table of up to 55296 glyphs, heights up to 255).
Container byte layouts of XBin/ADF/IDF/IcyDraw belong to C05/C07; here: what is local to fonts.rs
(`convert_to_u8_data` → `create_8`/`from_basic`; IcyDraw `FONT_n` chunk = string + PSF2) — the containers are covered by
the oracle run of the harness (`Buffer::to_bytes` → `from_bytes` → compare glyphs). -/
namespace IcyVerif.C17
open IcyVerif.Font IcyVerif.Tdf IcyVerif.Uni

/-- PSF2: `from_bytes(to_psf2_bytes(f)) = f` — same dimensions, glyph count and bit-identical glyphs (structural equality
    of the whole font), for ALL well-formed fonts -/
theorem psf2_rt (f : BitFont) (h : Nat) (wf : WfFont f h) :
    ∃ bytes, f.toPsf2 = .ok bytes ∧ fromBytes bytes = .ok f :=
  ⟨_, toPsf2_eq f h wf, psf2_roundtrip f h wf⟩

/-- raw 8-bit glyph data: `from_bytes(convert_to_u8_data(f)) = f` for 256-glyph fonts.
    FULL statement (without `noMagic`) is FALSE: raw data has no header and `from_bytes` sniffs PSF magic numbers first
    (finding `raw_font_magic_ambiguity`, see `raw_magic_counterexample`). -/
theorem raw_rt_partial (f : BitFont) (h : Nat) (wf : WfFont f h) (h256 : f.glyphs.length = 256) :
    ∃ d, f.toU8 = .ok d ∧ d.length = 256 * h ∧ (noMagic d = true → fromBytes d = .ok f) := by
  refine ⟨_, toU8_eq f h wf, ?_, raw_roundtrip f h wf h256⟩
  rw [flat_length h _ wf.rows, h256]

/-- the excluded point is real: a well-formed 8x1 font whose first two glyph rows are 36 04 is read back as PSF1 -/
theorem raw_magic_counterexample :
    let f : BitFont := { w := 8, h := 1, length := 256, glyphs := ([0x36, 0x04, 0, 2] ++ List.replicate 252 7).map fun b => some [b] }
    f.toU8 = .ok ([0x36, 0x04, 0, 2] ++ List.replicate 252 7) ∧
    fromBytes ([0x36, 0x04, 0, 2] ++ List.replicate 252 7) ≠ .ok f := by
  decide +kernel

/-- raw glyph data through `create_8` / `from_basic` (the font part of the XBin, ADF and IDF loaders): no sniffing, no
    exception -/
theorem basic_rt (f : BitFont) (h : Nat) (wf : WfFont f h) (h256 : f.glyphs.length = 256) :
    ∃ d, f.toU8 = .ok d ∧ fromBasic 8 h d = f :=
  ⟨_, toU8_eq f h wf, basic_roundtrip f h wf h256⟩

/-- DCS font loading: `load_custom_font(encode_as_ansi(f, slot))` installs `f` in `slot`, for every codec satisfying
    `CodecLaws` (base64 decode∘encode = id, decimal parse∘format = id, no ':' in a formatted number — recorded assumptions
    about crates `base64` and `std`, exercised with the real crates by the correspondence run).
    Partial for the same reason as `raw_rt_partial`. -/
theorem dcs_rt_partial (c : Codec) (hc : CodecLaws c) (f : BitFont) (h : Nat) (wf : WfFont f h)
    (h256 : f.glyphs.length = 256) (hm : noMagic (flat f.glyphs) = true) (slot : Nat) :
    ∃ s, encodeAnsi c f slot = .ok s ∧ loadCustomFont c s = .ok (slot, f) :=
  dcs_roundtrip c hc f h wf h256 hm slot

/-- IcyDraw `FONT_n` chunk: UTF-8 name + PSF2 bytes, read back with `read_utf8_encoded_string` + `from_bytes` -/
theorem icy_font_chunk_rt (name : List Nat) (hv : ValidUtf8 name) (hl : name.length < 4294967296)
    (f : BitFont) (h : Nat) (wf : WfFont f h) :
    ∃ p, f.toPsf2 = .ok p ∧ readString (writeString name ++ p) = .ok (name, name.length + 4) ∧
      fromBytes ((writeString name ++ p).drop (name.length + 4)) = .ok f := by
  refine ⟨_, toPsf2_eq f h wf, (string_roundtrip name _ hv hl).1, ?_⟩
  rw [(string_roundtrip name _ hv hl).2]
  exact psf2_roundtrip f h wf

/-- TheDraw: `from_tdf_bytes(as_tdf_bytes(f)) = [f]` — same name, type, letter spacing and glyph table (sizes and data),
    for ALL fonts satisfying the decidable `WfTdf` (name ≤ 12 bytes, valid UTF-8, no NUL; type 0..2; spacing 0..=40;
    94 table entries; glyph sizes 0..=255; outline/block data without 0 bytes, colour data made of CRs and
    (char ≠ 0, attribute) pairs; at most 65535 bytes of glyph data) -/
theorem tdf_rt (f : TdfFont) (wf : WfTdf f) : ∃ bytes, asTdf f = .ok bytes ∧ fromTdf bytes = .ok [f] := by
  refine ⟨fileHeader ++ fontBytes f, ?_, ?_⟩
  · unfold asTdf; rw [addFontData_eq f wf]
  · have := fromTdf_bundle [f] (by simp) (by simpa using wf) [] (Or.inl rfl)
    simpa [bundleBytes] using this

/-- bundles: `from_tdf_bytes(create_font_bundle(fs)) = fs` for every non-empty list of well-formed fonts (1..=34 and beyond) -/
theorem tdf_bundle_rt (fs : List TdfFont) (hne : fs ≠ []) (wf : ∀ f ∈ fs, WfTdf f) :
    ∃ bytes, bundle fs = .ok bytes ∧ fromTdf bytes = .ok fs := by
  refine ⟨fileHeader ++ bundleBytes fs ++ [0], ?_, ?_⟩
  · unfold bundle; rw [bundleData_eq fs wf]
  · exact fromTdf_bundle fs hne wf [0] (Or.inr ⟨[], rfl⟩)

/-- the format's 16-bit limit: a font with more than 65535 bytes of glyph data is refused by the (repaired) writer
    instead of being written with wrapped offsets -/
theorem tdf_oversize_rejected (f : TdfFont) (h : (encLoop [] [] f.table).2.length > 0xFFFF) : asTdf f = .err := by
  have : addFontData f = .err := by
    unfold addFontData
    by_cases h1 : f.name.length > 12
    · rw [if_pos h1]
    · rw [if_neg h1]
      by_cases h2 : f.spaces > 40
      · rw [if_pos h2]
      · rw [if_neg h2]
        generalize hp : encLoop [] [] f.table = p at h
        obtain ⟨lk, fd⟩ := p
        simp only at h ⊢
        rw [if_pos h]
  unfold asTdf; rw [this]

/-! ## non-vacuity -/
/-- every font of the property's quantifier is in the domain of the theorems -/
example (rows : List (List Nat)) (h : Nat) (h1 : 1 ≤ h) (h32 : h ≤ 32) (hn : rows.length = 256 ∨ rows.length = 512)
    (hr : ∀ r ∈ rows, r.length = h) :
    WfFont { w := 8, h := h, length := rows.length, glyphs := rows.map some } h :=
  { w8 := rfl, hh := rfl, h1 := h1, h255 := by omega, n := by simp; omega, len := by simp,
    rows := by
      intro g hg
      simp only [List.mem_map] at hg
      obtain ⟨r, hr', rfl⟩ := hg
      exact ⟨r, rfl, hr r hr'⟩ }

def sampleTdf : TdfFont :=
  { name := [67, 111, 100, 101, 114, 32, 195, 169], ftype := 2, spaces := 1,
    table := [some { w := 2, h := 2, data := [65, 7, 66, 0, 13, 67, 9, 68, 10] }, none,
              some { w := 1, h := 1, data := [219, 15] }] ++ List.replicate 91 none }
example : WfTdf sampleTdf := by unfold WfTdf; decide +kernel
example : fromTdf (match asTdf sampleTdf with | .ok b => b | _ => []) = .ok [sampleTdf] := by decide +kernel
example : WfTdf { name := [], ftype := 0, spaces := 40, table := List.replicate 94 none } := by unfold WfTdf; decide +kernel
example : ¬ WfTdf { name := [65, 0, 66], ftype := 0, spaces := 0, table := List.replicate 94 none } := by
  unfold WfTdf; decide +kernel

end IcyVerif.C17
