import IcyVerif.Lemmas.FontRt
import IcyVerif.Lemmas.TdfRt
import IcyVerif.Lemmas.FontBoxRt
import IcyVerif.Lemmas.FontBoxIcy
import IcyVerif.Lemmas.FontRaw
import IcyVerif.Lemmas.Base64
/-! # C17 — bitmap and TheDraw fonts survive every encoding the engine uses

Models: `Model/Font.lean` (src/fonts.rs + the `CTerm:Font:` DCS payload of dcs.rs), `Model/Tdf.lean`
(src/tdf_font/mod.rs), both of the repaired tree.  `WfFont f h` covers every font of the property's quantifier
(width 8, height 1..=32, 256 or 512 glyphs) and more (any complete table of up to 55296 glyphs, heights up to 255).
Container byte layouts of XBin/ADF/IDF/IcyDraw are C05's `Model/BinFormats.lean` and C07's `Model/IcyDraw.lean`; the
container theorems below (`font_block_position`, `xb_font_rt`, `xb_font_rt_nosauce_partial`, `adf_font_rt`, `idf_font_rt`,
`adf_idf_font_rt_nosauce_partial`, `icy_font_rt`) are stated ON those models (`Model/FontBox.lean` says how a `BitFont` goes
in and comes out), for all palettes, flags, pictures and layers next to the font. -/
namespace IcyVerif.C17
open IcyVerif.Font IcyVerif.Tdf IcyVerif.Uni

/-- PSF2: `from_bytes(to_psf2_bytes(f)) = f` — same dimensions, glyph count and bit-identical glyphs (structural equality
    of the whole font), for ALL well-formed fonts -/
theorem psf2_rt (f : BitFont) (h : Nat) (wf : WfFont f h) :
    ∃ bytes, f.toPsf2 = .ok bytes ∧ fromBytes bytes = .ok f :=
  ⟨_, toPsf2_eq f h wf, psf2_roundtrip f h wf⟩

/-- raw 8-bit glyph data: `from_bytes(convert_to_u8_data(f)) = f` for 256-glyph fonts.
    FULL statement (without `noMagic`) is FALSE: raw data has no header and `from_bytes` sniffs PSF magic numbers first
    (finding `raw_font_magic_ambiguity`, see `raw_magic_counterexample`).  Superseded by `raw_rt_exact` below (the exact
    guard, as an iff); kept because it needs no hypothesis on the row values. -/
theorem raw_rt_partial (f : BitFont) (h : Nat) (wf : WfFont f h) (h256 : f.glyphs.length = 256) :
    ∃ d, f.toU8 = .ok d ∧ d.length = 256 * h ∧ (noMagic d = true → fromBytes d = .ok f) := by
  refine ⟨_, toU8_eq f h wf, ?_, raw_roundtrip f h wf h256⟩
  rw [flat_length h _ wf.rows, h256]

/-- the excluded point is real: a well-formed 8x1 font whose first two glyph rows are 36 04 is read back as PSF1 -/
theorem raw_magic_counterexample :
    let f : BitFont := { w := 8, h := 1, length := 256, glyphs := ([0x36, 0x04, 0, 2] ++ List.replicate 252 7).map fun b => some [b] }
    f.toU8 = .ok ([0x36, 0x04, 0, 2] ++ List.replicate 252 7) ∧
    fromBytes ([0x36, 0x04, 0, 2] ++ List.replicate 252 7) ≠ .ok f := by
  decide +kernel


/-- raw glyph data, the EXACT guard: `from_bytes(convert_to_u8_data(f)) = f` **iff** `rawGuard` — data starting with the
    PSF1 magic never comes back, data starting with the PSF2 magic comes back exactly when its first 32 bytes are a PSF2
    header (version 0, header size 0, 256 glyphs, char size = height = the font's, width 8) overlaying the glyph rows, all
    other data comes back.  This is the full-strength statement for the code as it is; the property's sentence "raw 8-bit
    glyph data … read back" is false exactly on the complement of the guard (finding `raw_font_magic_ambiguity`). -/
theorem raw_rt_exact (f : BitFont) (h : Nat) (wf : WfFont f h) (h256 : f.glyphs.length = 256)
    (hb : ∀ x ∈ flat f.glyphs, x < 256) :
    ∃ d, f.toU8 = .ok d ∧ d.length = 256 * h ∧ (fromBytes d = .ok f ↔ rawGuard d h = true) := by
  refine ⟨_, toU8_eq f h wf, ?_, raw_exact f h wf h256 hb⟩
  rw [flat_length h _ wf.rows, h256]

/-- DCS font loading with the REAL codec (`B64.stdCodec`: executable base64 and decimal formatting, whose laws are proved in
    `Lemmas/Base64.lean` and which the correspondence run compares with the crates): for every slot number a `usize` can
    hold, `load_custom_font(encode_as_ansi(f, slot))` installs `f` in `slot` **iff** `rawGuard` — no assumption about
    base64 padding (heights 1, 2, 3 mod 3 give `==`, `=`, none) or number formatting is left. -/
theorem dcs_rt_exact (f : BitFont) (h : Nat) (wf : WfFont f h) (h256 : f.glyphs.length = 256)
    (hb : ∀ x ∈ flat f.glyphs, x < 256) (slot : Nat) (hs : slot < 18446744073709551616) :
    ∃ s, encodeAnsi IcyVerif.B64.stdCodec f slot = .ok s ∧
      (loadCustomFont IcyVerif.B64.stdCodec s = .ok (slot, f) ↔ rawGuard (flat f.glyphs) h = true) := by
  refine ⟨prefixCTerm ++ IcyVerif.B64.stdCodec.fmt slot ++ [58] ++ IcyVerif.B64.stdCodec.b64e (flat f.glyphs), ?_, ?_⟩
  · unfold encodeAnsi; rw [toU8_eq f h wf]
  · unfold loadCustomFont
    have hdrop : (prefixCTerm ++ IcyVerif.B64.stdCodec.fmt slot ++ [58] ++ IcyVerif.B64.stdCodec.b64e (flat f.glyphs)).drop
        prefixCTerm.length = IcyVerif.B64.stdCodec.fmt slot ++ 58 :: IcyVerif.B64.stdCodec.b64e (flat f.glyphs) := by
      simp [List.append_assoc]
    rw [hdrop, splitColon_append _ _ (IcyVerif.B64.std_nocolon slot)]
    simp only [IcyVerif.B64.std_num slot hs, IcyVerif.B64.std_b64 _ hb]
    rw [← raw_exact f h wf h256 hb]
    cases hfb : fromBytes (flat f.glyphs) with
    | ok g => simp
    | err => simp
    | panic => simp

/-- the excluded points are real, and the overlay case of the guard is real too (8x1 fonts): PSF2 magic followed by
    anything but the overlay header is rejected; PSF2 magic followed by the overlay header comes back -/
theorem raw_psf2_witnesses :
    let bad : List Nat := [0x72, 0xb5, 0x4a, 0x86] ++ List.replicate 252 7
    let good : List Nat := [0x72, 0xb5, 0x4a, 0x86, 0, 0, 0, 0, 0, 0, 0, 0, 9, 9, 9, 9, 0, 1, 0, 0, 1, 0, 0, 0, 1, 0, 0, 0, 8, 0, 0, 0] ++
      List.replicate 224 7
    let fb : BitFont := { w := 8, h := 1, length := 256, glyphs := bad.map fun b => some [b] }
    let fg : BitFont := { w := 8, h := 1, length := 256, glyphs := good.map fun b => some [b] }
    (fb.toU8 = .ok bad ∧ rawGuard bad 1 = false ∧ fromBytes bad ≠ .ok fb) ∧
    (fg.toU8 = .ok good ∧ rawGuard good 1 = true ∧ fromBytes good = .ok fg) := by
  decide +kernel

/-- recorded, outside the quantifier (raw glyph data exists for 256-glyph fonts only — "256 (or 512 for PSF)"): which
    lengths are ambiguous.  `from_bytes` takes ANY multiple of 256 bytes as 256 glyphs, so the raw data of a 512-glyph font
    of height `h` is read as a 256-glyph font of height `2h`. -/
theorem raw_512_reads_as_double_height :
    let f : BitFont := { w := 8, h := 1, length := 512, glyphs := List.replicate 512 (some [5]) }
    f.toU8 = .ok (List.replicate 512 5) ∧
    fromBytes (List.replicate 512 5) = .ok { w := 8, h := 2, length := 256, glyphs := List.replicate 256 (some [5, 5]) } := by
  decide +kernel

/-- raw glyph data through `create_8` / `from_basic` (the font part of the XBin, ADF and IDF loaders): no sniffing, no
    exception -/
theorem basic_rt (f : BitFont) (h : Nat) (wf : WfFont f h) (h256 : f.glyphs.length = 256) :
    ∃ d, f.toU8 = .ok d ∧ fromBasic 8 h d = f :=
  ⟨_, toU8_eq f h wf, basic_roundtrip f h wf h256⟩


/-- one glyph through the clipboard encoding (`get_clipboard_data` → `Glyph::from_clipbard_data`): size and rows come back,
    for every glyph of every well-formed font -/
theorem clip_rt (f : BitFont) (h : Nat) (wf : WfFont f h) (k : Nat) (g : Glyph) (hg : f.get k = some g) :
    ∃ d, f.clipData k = some d ∧ fromClip d = .ok ((8, h), g) := by
  refine ⟨_, by unfold BitFont.clipData; rw [hg]; rfl, ?_⟩
  have h255 := wf.h255
  have e8 : asU32 (8 : Int) = 8 := by decide
  rw [wf.w8, wf.hh, e8, asU32_nat h (by omega)]
  simp only [clip16, fromClip, List.cons_append, List.nil_append]
  have e1 : h % 65536 % 256 + 256 * (h % 65536 / 256 % 256) = h := by omega
  rw [e1]

/-- DCS font loading: `load_custom_font(encode_as_ansi(f, slot))` installs `f` in `slot`, for every codec satisfying
    `CodecLaws` (base64 decode∘encode = id, decimal parse∘format = id, no ':' in a formatted number — recorded assumptions
    about crates `base64` and `std`, exercised with the real crates by the correspondence run).
    Partial for the same reason as `raw_rt_partial`.  Superseded by `dcs_rt_exact` (real codec with proved laws, exact
    guard); kept as the codec-generic form. -/
theorem dcs_rt_partial (c : Codec) (hc : CodecLaws c) (f : BitFont) (h : Nat) (wf : WfFont f h)
    (h256 : f.glyphs.length = 256) (hm : noMagic (flat f.glyphs) = true) (slot : Nat) :
    ∃ s, encodeAnsi c f slot = .ok s ∧ loadCustomFont c s = .ok (slot, f) :=
  dcs_roundtrip c hc f h wf h256 hm slot

/-- IcyDraw `FONT_n` chunk: UTF-8 name + PSF2 bytes, read back with `read_utf8_encoded_string` + `from_bytes` -/
theorem icy_font_chunk_rt (name : List Nat) (hv : ValidUtf8 name) (hl : name.length < 4294967296)
    (f : BitFont) (h : Nat) (wf : WfFont f h) :
    ∃ p, f.toPsf2 = .ok p ∧ readString (writeString name ++ p) = .ok (name, name.length + 4) ∧
      fromBytes ((writeString name ++ p).drop (name.length + 4)) = .ok f := by
  refine ⟨_, toPsf2_eq f h wf, (string_roundtrip name _ hv hl).1, ?_⟩
  rw [(string_roundtrip name _ hv hl).2]
  exact psf2_roundtrip f h wf

/-- TheDraw: `from_tdf_bytes(as_tdf_bytes(f)) = [f]` — same name, type, letter spacing and glyph table (sizes and data),
    for ALL fonts satisfying the decidable `WfTdf` (name ≤ 12 bytes, valid UTF-8, no NUL; type 0..2; spacing 0..=40;
    94 table entries; glyph sizes 0..=255; outline/block data without 0 bytes, colour data made of CRs and
    (char ≠ 0, attribute) pairs; at most 65535 bytes of glyph data) -/
theorem tdf_rt (f : TdfFont) (wf : WfTdf f) : ∃ bytes, asTdf f = .ok bytes ∧ fromTdf bytes = .ok [f] := by
  refine ⟨fileHeader ++ fontBytes f, ?_, ?_⟩
  · unfold asTdf; rw [addFontData_eq f wf]
  · have := fromTdf_bundle [f] (by simp) (by simpa using wf) [] (Or.inl rfl)
    simpa [bundleBytes] using this

/-- bundles: `from_tdf_bytes(create_font_bundle(fs)) = fs` for every non-empty list of well-formed fonts (1..=34 and beyond) -/
theorem tdf_bundle_rt (fs : List TdfFont) (hne : fs ≠ []) (wf : ∀ f ∈ fs, WfTdf f) :
    ∃ bytes, bundle fs = .ok bytes ∧ fromTdf bytes = .ok fs := by
  refine ⟨fileHeader ++ bundleBytes fs ++ [0], ?_, ?_⟩
  · unfold bundle; rw [bundleData_eq fs wf]
  · exact fromTdf_bundle fs hne wf [0] (Or.inr ⟨[], rfl⟩)

/-- the format's 16-bit limit: a font with more than 65535 bytes of glyph data is refused by the (repaired) writer
    instead of being written with wrapped offsets -/
theorem tdf_oversize_rejected (f : TdfFont) (h : (encLoop [] [] f.table).2.length > 0xFFFF) : asTdf f = .err := by
  have : addFontData f = .err := by
    unfold addFontData
    by_cases h1 : f.name.length > 12
    · rw [if_pos h1]
    · rw [if_neg h1]
      by_cases h2 : f.spaces > 40
      · rw [if_pos h2]
      · rw [if_neg h2]
        generalize hp : encLoop [] [] f.table = p at h
        obtain ⟨lk, fd⟩ := p
        simp only at h ⊢
        rw [if_pos h]
  unfold asTdf; rw [this]


/-! ## fonts inside containers

`p.fonts` holds `boxFont name f` = (name, height, `convert_to_u8_data()`) per slot; `FontBack g slot f` says that the loaded
buffer `g` has, in `slot`, a font block that `BitFont::create_8` turns into exactly `f` (structural equality of the whole
`BitFont`: dimensions, glyph count, every glyph row). -/
section containers
open IcyVerif.FontBox IcyVerif.BinFormats IcyVerif.XbCompress IcyVerif.Gen

/-- POSITION of the font blocks — XBin: behind the 11-byte header and the 48-byte palette block iff the palette is not the
    default one, second font right behind the first; ADF: offset 193; IDF: behind the image data — for EVERY picture the
    writers accept (no representability hypothesis): at the offsets `fontBlocks` names, the file holds the glyph bytes. -/
theorem font_block_position (f : Fmt) (o : Opts) (date : List Nat) (p : Pic) (bytes : List Nat)
    (h : save f o date p = .ok bytes) :
    ∀ b ∈ fontBlocks f o p, ∃ font, lookupFont p.fonts b.1 = some font ∧ (bytes.drop b.2.1).take b.2.2 = font.data :=
  font_blocks_hold f o date p bytes h

/-- **XBin**, saved with a SAUCE record (corollary of C05 `xb_roundtrip`; one font, or two in the 512-character mode; heights
    1..=32; every 16-colour 6-bit palette; blink / ice; compressed / raw; every representable picture): every font in use
    comes back glyph for glyph.  FULL strength since `fix: BitFont::is_default compares the glyphs`: whatever the font is
    NAMED (the former exclusion `xbin_font_named_default` is gone — `Representable` no longer says anything about names;
    the former counterexample is `xb_named_default_embedded` below). -/
theorem xb_font_rt (o : Opts) (date : List Nat) (p : Pic) (hrep : Representable .xb o p = true)
    (hdate : dateOk date = true) (hs : o.sauce = true) :
    ∃ bytes g, save .xb o date p = .ok bytes ∧ fromBytes .xb bytes = .ok g ∧
        ∀ slot ∈ analyzeFontUsage p.rows.flatten, ∀ (name : List Nat) (f : BitFont) (h : Nat), WfFont f h →
          f.glyphs.length = 256 → lookupFont p.fonts slot = boxFont name f → FontBack g slot f := by
  obtain ⟨bytes, h1, h2⟩ := xb_font_roundtrip o date p hrep hdate
  obtain ⟨g, h3, h4⟩ := h2 (Or.inl hs)
  exact ⟨bytes, g, h1, h3, fun slot hs name f h wf h256 hp => h4 slot hs name f h wf h256 (by rw [hp, boxFont_wf name f h wf])⟩

/-- XBin saved WITHOUT a SAUCE record.  PARTIAL — full statement: the same without `looksLikeSauce bytes = false`;
    excluded: a file whose last 128 bytes (picture content) read as a SAUCE record (C05 finding
    `xb:content-reads-as-sauce`, a property of the container, not of the font block). -/
theorem xb_font_rt_nosauce_partial (o : Opts) (date : List Nat) (p : Pic) (hrep : Representable .xb o p = true)
    (hdate : dateOk date = true) :
    ∃ bytes, save .xb o date p = .ok bytes ∧
      (looksLikeSauce bytes = false → ∃ g, fromBytes .xb bytes = .ok g ∧
        ∀ slot ∈ analyzeFontUsage p.rows.flatten, ∀ (name : List Nat) (f : BitFont) (h : Nat), WfFont f h →
          f.glyphs.length = 256 → lookupFont p.fonts slot = boxFont name f → FontBack g slot f) := by
  obtain ⟨bytes, h1, h2⟩ := xb_font_roundtrip o date p hrep hdate
  refine ⟨bytes, h1, fun hor => ?_⟩
  obtain ⟨g, h3, h4⟩ := h2 (Or.inr hor)
  exact ⟨g, h3, fun slot hs name f h wf h256 hp => h4 slot hs name f h wf h256 (by rw [hp, boxFont_wf name f h wf])⟩

/-- **ArtWorx ADF**, saved with a SAUCE record: FULL strength — every 8x16 font of 256 glyphs, whatever its name, next to
    every 6-bit palette and every 80-column ice-colour picture. -/
theorem adf_font_rt (o : Opts) (date : List Nat) (p : Pic) (hs : o.sauce = true) (hok : boxOk .adf p = true)
    (hdate : dateOk date = true) (name : List Nat) (f : BitFont) (wf : WfFont f 16) (h256 : f.glyphs.length = 256)
    (hp : lookupFont p.fonts 0 = boxFont name f) :
    ∃ bytes g, save .adf o date p = .ok bytes ∧ fromBytes .adf bytes = .ok g ∧ FontBack g 0 f := by
  obtain ⟨bytes, f0, hf0, h1, h2⟩ := adf_font_roundtrip o date p hok hdate
  obtain ⟨g, h3, h4⟩ := h2 (Or.inl hs)
  rw [hp, boxFont_wf name f 16 wf] at hf0
  injection hf0 with hf0
  exact ⟨bytes, g, h1, h3, fontBack_single g _ h4 f (unbox_flat _ f 16 wf h256 rfl (by rw [← hf0]; rfl))⟩

/-- **iCE Draw IDF**, saved with a SAUCE record, raw or run-length coded: FULL strength, as for ADF (width 1..=80, at
    most 200 rows). -/
theorem idf_font_rt (o : Opts) (date : List Nat) (p : Pic) (hs : o.sauce = true) (hok : boxOk .idf p = true)
    (hdate : dateOk date = true) (name : List Nat) (f : BitFont) (wf : WfFont f 16) (h256 : f.glyphs.length = 256)
    (hp : lookupFont p.fonts 0 = boxFont name f) :
    ∃ bytes g, save .idf o date p = .ok bytes ∧ fromBytes .idf bytes = .ok g ∧ FontBack g 0 f := by
  obtain ⟨bytes, f0, hf0, h1, h2⟩ := idf_font_roundtrip o date p hok hdate
  obtain ⟨g, h3, h4⟩ := h2 (Or.inl hs)
  rw [hp, boxFont_wf name f 16 wf] at hf0
  injection hf0 with hf0
  exact ⟨bytes, g, h1, h3, fontBack_single g _ h4 f (unbox_flat _ f 16 wf h256 rfl (by rw [← hf0]; rfl))⟩

/-- ADF / IDF saved WITHOUT a SAUCE record.  PARTIAL — full statement: the same without `hns`; excluded: files whose
    last 128 bytes (picture content / palette) read as a SAUCE record (C05 finding `<fmt>:content-reads-as-sauce`). -/
theorem adf_idf_font_rt_nosauce_partial (fm : Fmt) (hfm : fm = .adf ∨ fm = .idf) (o : Opts) (date : List Nat) (p : Pic)
    (hok : boxOk fm p = true) (hdate : dateOk date = true) (name : List Nat) (f : BitFont) (wf : WfFont f 16)
    (h256 : f.glyphs.length = 256) (hp : lookupFont p.fonts 0 = boxFont name f) :
    ∃ bytes, save fm o date p = .ok bytes ∧
      (looksLikeSauce bytes = false → ∃ g, fromBytes fm bytes = .ok g ∧ FontBack g 0 f) := by
  rcases hfm with rfl | rfl
  · obtain ⟨bytes, f0, hf0, h1, h2⟩ := adf_font_roundtrip o date p hok hdate
    refine ⟨bytes, h1, fun hns => ?_⟩
    obtain ⟨g, h3, h4⟩ := h2 (Or.inr hns)
    rw [hp, boxFont_wf name f 16 wf] at hf0
    injection hf0 with hf0
    exact ⟨g, h3, fontBack_single g _ h4 f (unbox_flat _ f 16 wf h256 rfl (by rw [← hf0]; rfl))⟩
  · obtain ⟨bytes, f0, hf0, h1, h2⟩ := idf_font_roundtrip o date p hok hdate
    refine ⟨bytes, h1, fun hns => ?_⟩
    obtain ⟨g, h3, h4⟩ := h2 (Or.inr hns)
    rw [hp, boxFont_wf name f 16 wf] at hf0
    injection hf0 with hf0
    exact ⟨g, h3, fontBack_single g _ h4 f (unbox_flat _ f 16 wf h256 rfl (by rw [← hf0]; rfl))⟩

/-- **IcyDraw** (corollary of C07 `doc_rt` with the real `FONT_n` codec `icyCodecs`: name as a string field + PSF2): every
    font slot of every well-formed document — any number of slots, 256 / 512 / any glyph count, every height 1..=255,
    valid UTF-8 names — is read back as the font that was saved (name and `BitFont`), whatever palette, SAUCE record and
    layers are next to it.  The palette and SAUCE payload codecs stay parameters with their own laws (C16 / C11). -/
theorem icy_font_rt {S : Type} (palEnc : List IcyDraw.RGB → List Nat) (palDec : List Nat → IcyDraw.Res (List IcyDraw.RGB))
    (sauceDec : List Nat → IcyDraw.Res (Option S)) (dflt : IcyFont) (sauceEqv : S → S → Prop)
    (d : IcyDraw.Doc IcyFont S) (hw : IcyVerif.C07.WfDoc d) (hfonts : ∀ kf ∈ d.fonts, WfIcyFont kf.2)
    (hpal : palDec (palEnc d.palette) = .ok d.palette)
    (hsauce : ∀ s b, d.sauce = some (s, b) → ∃ s', sauceDec b = .ok (some s') ∧ sauceEqv s' s) :
    ∃ cs st, IcyDraw.encodeDoc (icyCodecs palEnc palDec sauceDec dflt) d = some cs ∧
      IcyDraw.decodeDoc (icyCodecs palEnc palDec sauceDec dflt) cs = .ok st ∧ ∀ k, st.fontAt k = d.fonts.lookup k := by
  obtain ⟨cs, st, h1, h2, _, _, h5, _, _⟩ := IcyVerif.C07.doc_rt (icyCodecs palEnc palDec sauceDec dflt) sauceEqv d hw
    ⟨hpal, fun kf hkf => icy_font_codec palEnc palDec sauceDec dflt kf.2 (hfonts kf hkf), hsauce⟩
  exact ⟨cs, st, h1, h2, h5⟩

/-! ### non-vacuity and the excluded point -/
set_option maxRecDepth 100000

def boxDate : List Nat := [50, 48, 50, 52, 48, 50, 50, 57]
/-- an 8x8 font whose glyph `g` is eight rows of byte `g` (a shift by k glyphs or k bytes shows) -/
def idxFont : BitFont := { w := 8, h := 8, length := 256, glyphs := (List.range 256).map fun g => some (List.replicate 8 g) }
def idxBox : BinFormats.Font := ⟨[70], 8, (List.range 256).flatMap fun g => List.replicate 8 g⟩
def boxPal : List Rgb := (List.range 16).map fun i => (expand6 (i * 3), expand6 (63 - i), expand6 (i * 4))
/-- XBin, custom palette AND custom font, compressed, with SAUCE -/
def xbBoxPic : Pic := ⟨2, 1, [[⟨0x41, ⟨7, 0, 0, 0⟩⟩, ⟨0x42, ⟨12, 1, 0, 0⟩⟩]], .ice, boxPal, [(0, idxBox)], none⟩
example : Representable .xb ⟨true, true⟩ xbBoxPic = true := by decide +kernel
example : boxFont [70] idxFont = some idxBox := by decide +kernel
example : fontBlocks .xb ⟨true, true⟩ xbBoxPic = [(0, 59, 2048)] := by decide +kernel
example : (match save .xb ⟨true, true⟩ boxDate xbBoxPic with
    | .ok b => (match fromBytes .xb b with
      | .ok g => (lookupFont g.fonts 0).map unboxFont == some idxFont
      | _ => false)
    | _ => false) = true := by decide +kernel

/-- **The former counterexample** (finding `xbin_font_named_default`, repaired): an 8x16 font NAMED like the built-in
    default font whose glyphs are all zero is in the domain of `xb_font_rt`, IS embedded (font block behind the header,
    flag set) and its own glyphs are read back — not the built-in ones.  And the built-in font itself is still left out. -/
def namedPic : Pic := ⟨1, 1, [[⟨0x41, ⟨7, 0, 0, 0⟩⟩]], .blink, dosPalette, [(0, ⟨BinFmt.defaultFontName, 16, List.replicate 4096 0⟩)], none⟩
def builtinPic : Pic := ⟨1, 1, [[⟨0x41, ⟨7, 0, 0, 0⟩⟩]], .blink, dosPalette, [(0, defaultFont)], none⟩
theorem xb_named_default_embedded :
    (Representable .xb ⟨true, false⟩ namedPic = true ∧ fontBlocks .xb ⟨true, false⟩ namedPic = [(0, 11, 4096)] ∧
      fontBlocks .xb ⟨true, false⟩ builtinPic = []) ∧
    (match save .xb ⟨true, false⟩ boxDate namedPic with
     | .ok b => (match fromBytes .xb b with
       | .ok g => (lookupFont g.fonts 0).map (·.data) == some (List.replicate 4096 0) && BinFmt.defaultFontData != List.replicate 4096 0
       | _ => false)
     | _ => false) = true := by
  constructor <;> decide +kernel

end containers

/-! ## non-vacuity -/
/-- every font of the property's quantifier is in the domain of the theorems -/
example (rows : List (List Nat)) (h : Nat) (h1 : 1 ≤ h) (h32 : h ≤ 32) (hn : rows.length = 256 ∨ rows.length = 512)
    (hr : ∀ r ∈ rows, r.length = h) :
    WfFont { w := 8, h := h, length := rows.length, glyphs := rows.map some } h :=
  { w8 := rfl, hh := rfl, h1 := h1, h255 := by omega, n := by simp; omega, len := by simp,
    rows := by
      intro g hg
      simp only [List.mem_map] at hg
      obtain ⟨r, hr', rfl⟩ := hg
      exact ⟨r, rfl, hr r hr'⟩ }

def sampleTdf : TdfFont :=
  { name := [67, 111, 100, 101, 114, 32, 195, 169], ftype := 2, spaces := 1,
    table := [some { w := 2, h := 2, data := [65, 7, 66, 0, 13, 67, 9, 68, 10] }, none,
              some { w := 1, h := 1, data := [219, 15] }] ++ List.replicate 91 none }
example : WfTdf sampleTdf := by unfold WfTdf; decide +kernel
example : fromTdf (match asTdf sampleTdf with | .ok b => b | _ => []) = .ok [sampleTdf] := by decide +kernel
example : WfTdf { name := [], ftype := 0, spaces := 40, table := List.replicate 94 none } := by unfold WfTdf; decide +kernel
example : ¬ WfTdf { name := [65, 0, 66], ftype := 0, spaces := 0, table := List.replicate 94 none } := by
  unfold WfTdf; decide +kernel

end IcyVerif.C17
