import IcyVerif.Lemmas.ArtAnsiCells
import IcyVerif.Lemmas.ArtAnsiRows
/-! # C04 — ANSI files written by the engine parse back to the same picture

FULL STATEMENT (`ansi_rt`, not proved in this generality):
  for every single-layer picture `p` (width 80, or any width 1..=132 carried by SAUCE; height 1..=60) whose cells hold
  CP437 characters the chosen control-character handling can encode, palette / xterm-256 / RGB colours, bold, blink and
  the extended attributes the writer emits, for every `o : AnsiOpts` (compress, cursor-forward, repeat sequences,
  preserved line length, longer-terminal positioning, extended colours, 3 screen preparations, 3 control-character
  modes) and every ice mode:
      `show (load .ansi sauce (writeAnsi o p)) = show p`
  where `show` = per cell (glyph, displayed foreground RGB, background RGB, blink).

PROVED (for ALL pictures of the stated shape — induction over rows and cells; the simulation relation between the
writer's `AnsiState` and the reader's caret attribute is `RelS`, its preservation through every block of `get_color`
is `sgr_sync` in Lemmas/ArtAnsiSgr.lean):
  * `ansi_rt_partial₃` — ALL 2^5 combinations of compress / cursor forward / repeat sequences / preserved line length /
    longer-terminal positioning (`CSI y H` in front of every row instead of line breaks; then at most 999 rows), extended colours on or off, all three screen preparations, all three control-character modes (over the characters the
    mode can encode), 16 foreground x 8 background DOS colours, every attribute flag the writer emits (bold, faint, italic,
    underline, blink, concealed, crossed out, double underline), ALL THREE ice modes (blink / unlimited: 8 background colours;
    iCE: 16 background colours, no blink flag), width 80 — or any width 1..=132 carried by SAUCE (`SauceFits`).
    Conclusion `ShowsEq`: every cell of the picture is SHOWN by the loaded picture
    (`ShowEq`: same character up to the blank glyphs NUL / space / 0xFF, same displayed foreground colour unless the glyph
    is blank, same background colour, same blink state).  Ingredients: `sgr_sync_16` (SGR state tracking), `subst_sound`
    (the RLE scan with cursor-forward and repeat substitution drives the reader through "items": printed cells, or
    skipped cells that are spaces on colour 0, not blinking, and never in the last column), `trim_sound` (everything
    the end-of-line trimming drops is a blank on colour 0 that does not blink; a row keeps all its cells or at least
    two fewer, so the one-blank line break never occurs), the line-break lemma (`rows_comp`) and its `CSI y H` counterpart
    (`rows_longer`), the general crop lemma
    (`crop_view`: `crop_loaded_file` only removes rows that show nothing).
  * `ansi_rt_partial₁` — compress = false only, blink / unlimited mode, width 80, but the stronger conclusion `ShowsAll … ansiImg`: EVERY
    loaded cell IS the saved cell with the bold attribute folded into the bright colour (same character code, colour
    indices, blink and extended attributes), and the height is preserved.
  Both under the hypothesis that the file does not start with EF BB BF (known finding `ans:utf8-bom-prefix`,
  `bom_counterexample`).
NOT under a theorem (exhaustive option-lattice correspondence + oracle only): xterm-256 / RGB colours and backgrounds
8..15 outside iCE mode (would be `ansi_rt_partial₂`), the colour optimiser (C12).
-/
set_option linter.unusedSimpArgs false
namespace IcyVerif.C04
open IcyVerif.ArtIO IcyVerif.Gen.Art

/-- the loaded cell: the saved cell with bold folded into the bright colour (`parse_with_parser`) -/
def ansiImg (c : Cell) : Cell := ⟨c.ch, ⟨dispFg c.attr, c.attr.bg, { c.attr.fl with bold := false }⟩⟩

/-- the loaded picture shows `img` of EVERY saved cell; same size; the reader stayed inside the modelled sub-language -/
def ShowsAll (L : Loaded) (p : Pic) (img : Cell → Cell) : Prop :=
  L.stuck = false ∧ L.w = p.w ∧ L.h = p.rows.length ∧
  ∀ x y, x < p.w → y < p.rows.length → L.cellAt x y = img (p.get x y)

/-- every row holds all `w` cells (what `Buffer::get_char` shows of a row) -/
def Pic.Full (p : Pic) : Prop := ∀ r ∈ p.rows, r.length = p.w

theorem relS_initial (ic : Bool) : RelS ic ansiState0.isBlink ansiState0 defaultAttr := by
  refine ⟨rfl, by decide, by decide, fun _ => rfl, by decide, ?_, rfl⟩
  show ansiState0.bg = getRgb dosPalette (defaultAttr.bg + if (ic && false) = true then 8 else 0)
  simp only [Bool.and_false, Bool.false_eq_true, if_false]; decide

/-- the screen preparation sequences leave the fresh reader as it is -/
theorem ansi_prep_sim (o : AnsiOpts) (im : IceMode) (him : im ≠ .ice) (ic : Bool) (p : AnsiP) (core : Core) (st : AnsiState)
    (h : AInv ic st p core) (hfresh : core.scr.lines = [] ∧ core.scr.cx = 0 ∧ core.scr.cy = 0) :
    AInv ic st (ansiRun p core (ansiPrep o im)).1 (ansiRun p core (ansiPrep o im)).2 ∧
    (ansiRun p core (ansiPrep o im)).2.scr = core.scr := by
  obtain ⟨ns, ag, ice, rel⟩ := h
  obtain ⟨f1, f2, f3⟩ := hfresh
  have hscr : core.scr.clear = core.scr ∧ ({ core.scr with cy := 1 - 1, cx := 1 - 1 } : Screen).limit = core.scr := by
    cases hs : core.scr with
    | mk w lh lines cx cy => rw [hs] at f1 f2 f3; simp_all [Screen.clear, Screen.limit]
  unfold ansiPrep
  rw [if_neg him, List.nil_append]
  cases hp : o.prep with
  | none => exact ⟨⟨ns, ag, ice, rel⟩, rfl⟩
  | clear =>
    have e : ansiRun p core [27, 91, 50, 74] = ({ p with st := .ground }, core) := by
      simp [ansiRun, ansiStep, ns, ag, isDigit, numsDigit, parseNextNumber, i32Max, hscr.1]
      cases core; simp_all
    simp only []
    rw [e]
    exact ⟨⟨ns, rfl, ice, rel⟩, rfl⟩
  | home =>
    have e : ansiRun p core [27, 91, 49, 59, 49, 72] = ({ p with st := .ground }, core) := by
      simp [ansiRun, ansiStep, ns, ag, isDigit, numsDigit, parseNextNumber, i32Max, cup, hscr.2]
      cases core; simp_all
    simp only []
    rw [e]
    exact ⟨⟨ns, rfl, ice, rel⟩, rfl⟩

theorem foldBold_prImg (ic : Bool) (c : Cell) (ha : Attr16 ic c.attr) : foldBold (shown (prImg c)) = ansiImg c := by
  obtain ⟨hfg, _, _, hinv⟩ := ha
  have hd : dispFg c.attr < 16 := by unfold dispFg; split <;> simp_all <;> omega
  have hv : (prImg c).isVisible = true := by simp [prImg, printedAttr, Cell.isVisible, hinv]
  rw [shown_of_visible hv]
  unfold foldBold prImg printedAttr ansiImg
  by_cases h8 : 8 ≤ dispFg c.attr
  · have n8 : ¬ dispFg c.attr < 8 := by omega
    have l8 : dispFg c.attr - 8 < 8 := by omega
    have e : dispFg c.attr - 8 + 8 = dispFg c.attr := by omega
    simp [h8, n8, l8, e]
  · have l8 : dispFg c.attr < 8 := by omega
    simp [h8, l8]

/-- **C04, first theorem**: no compression, 16 x 8 colours, blink / unlimited mode — see the header. -/
theorem ansi_rt_partial₁ (o : AnsiOpts) (p : Pic) (hw : p.w = 80) (hc : o.compress = false)
    (hl : o.longerTerminalOutput = false) (hice : p.ice ≠ .ice) (hpal : p.pal = dosPalette) (hfull : Pic.Full p)
    (hne : p.rows ≠ []) (hdom : p.AllCells (CellDom o false)) (hbom : bomPrefixed (writeAnsi o p) = false) :
    ShowsAll (load .ansi none (writeAnsi o p)) p ansiImg := by
  -- the rows are already full: padding changes nothing
  have hpad : (p.rows.map fun r => r ++ List.replicate (p.w - r.length) defaultCell) = p.rows := by
    have : ∀ r ∈ p.rows, r ++ List.replicate (p.w - r.length) defaultCell = r := by
      intro r hr; rw [hfull r hr]; simp
    calc (p.rows.map fun r => r ++ List.replicate (p.w - r.length) defaultCell) = p.rows.map id :=
          List.map_congr_left this
      _ = p.rows := List.map_id _
  have hbytes : writeAnsi o p = ansiPrep o p.ice ++ genLines o p.w p.rows.length (genCells o dosPalette p.ice p.w p.rows ansiState0) 0 true := by
    unfold writeAnsi ansiEnd
    simp only [hpad, hpal, if_neg hice, List.append_nil]
  have hload : load .ansi none (writeAnsi o p) = finish .ansi (run .ansi (initial .ansi none) (writeAnsi o p)) := by
    unfold load; rw [if_neg (by decide), convertText_of_noBom hbom]
  have hicf : decide (p.ice = .ice) = false := by simp [hice]
  have A0 : AInv (decide (p.ice = .ice)) ansiState0 (initial .ansi none).ansi (initial .ansi none).core :=
    ⟨rfl, rfl, by rw [hicf]; rfl, relS_initial _⟩
  obtain ⟨A1, s1⟩ := ansi_prep_sim o p.ice hice _ _ _ _ A0 ⟨rfl, rfl, rfl⟩
  obtain ⟨⟨st', A2⟩, s2⟩ := rows_sim o p.ice p.w p.rows.length hc hl p.rows ansiState0 0 true _ _ hfull
    (by rw [hicf]; exact hdom) A1
  have hrun : (run .ansi (initial .ansi none) (writeAnsi o p)).core.scr = (freshScreen p.w 25).runOps (picOps id prImg p.w p.rows) := by
    rw [run_ansi_eq, hbytes, ansiRun_append]
    show (ansiRun _ _ _).2.scr = _
    rw [s2, s1, hw]; rfl
  have hstuck : (run .ansi (initial .ansi none) (writeAnsi o p)).core.stuck = false := by
    rw [run_ansi_eq, hbytes, ansiRun_append]
    exact A2.ns
  have hfit : ∀ r ∈ p.rows, (id r).length ≤ p.w := fun r hr => by rw [show (id r).length = r.length from rfl, hfull r hr]; exact Nat.le_refl _
  have hlast : ∀ r, p.rows.getLast? = some r → id r ≠ [] := by
    intro r hr e
    have hm : r ∈ p.rows := List.mem_of_getLast? hr
    have := hfull r hm
    rw [show id r = r from rfl] at e
    rw [e] at this; simp at this; omega
  obtain ⟨F1, F2, F3, F4⟩ := finish_spec id .ansi (by decide) _ prImg p.w 25 p.rows (by omega) hfit hne hlast hrun
  rw [hload]
  refine ⟨by rw [F3]; exact hstuck, F1, F2, ?_⟩
  intro x y hx hy
  have hrow : p.rows.getD y [] ∈ p.rows := mem_of_getD_lt hy
  have hxl : x < (id (p.rows.getD y [])).length := by rw [show (id (p.rows.getD y [])).length = (p.rows.getD y []).length from rfl, hfull _ hrow]; exact hx
  rw [F4 x y hx hy, if_pos hxl]
  show foldBold (shown (prImg ((p.rows.getD y []).getD x defaultCell))) = ansiImg (p.get x y)
  have hcell : (p.rows.getD y []).getD x defaultCell ∈ p.rows.getD y [] := mem_of_getD_lt hxl
  exact foldBold_prImg false _ (hdom _ hrow _ hcell).1

/-! ### compression: trimming, cursor forward, repeat sequences -/

/-- what C04 compares: the saved cell `c` and the loaded cell `l` show the same — the same character (NUL, space and
    0xFF are the same blank glyph; the writer's trimming and cursor-forward turn them into a space), the same displayed
    foreground colour unless the glyph is blank, the same background colour, the same blink state -/
def ShowEq (c l : Cell) : Prop :=
  (l.ch = c.ch ∨ (Blank c.ch ∧ l.ch = 32)) ∧ (¬ Blank c.ch → dispFg l.attr = dispFg c.attr) ∧
  l.attr.bg = c.attr.bg ∧ l.attr.fl.blink = c.attr.fl.blink

/-- every cell of the picture is shown by the loaded picture (the loaded picture may have fewer rows: trailing rows that
    show nothing are cropped and read as blank) -/
def ShowsEq (L : Loaded) (p : Pic) : Prop :=
  L.stuck = false ∧ L.w = p.w ∧ ∀ x y, x < p.w → y < p.rows.length → ShowEq (p.get x y) (L.cellAt x y)

theorem showEq_img (c : Cell) : ShowEq c (ansiImg c) := by
  refine ⟨Or.inl rfl, fun _ => ?_, rfl, rfl⟩
  show dispFg ⟨dispFg c.attr, c.attr.bg, { c.attr.fl with bold := false }⟩ = dispFg c.attr
  simp [dispFg]

theorem showEq_blank (c l : Cell) (h : TrimCell c) (hl : l = defaultCell ∨ l = invisibleCell) : ShowEq c l := by
  obtain ⟨h1, h2, h3⟩ := h
  rcases hl with e | e <;> subst e
  · exact ⟨Or.inr ⟨h1, rfl⟩, fun hn => absurd h1 hn, h2.symm, h3.symm⟩
  · exact ⟨Or.inr ⟨h1, rfl⟩, fun hn => absurd h1 hn, h2.symm, h3.symm⟩

/-- the iCE switch (if the buffer is in iCE mode) and the screen preparation: on the fresh reader only the iCE flags move -/
theorem ansi_prep_core (o : AnsiOpts) (im : IceMode) (p : AnsiP) (core : Core)
    (ns : core.stuck = false) (ag : p.st = .ground) (hfresh : core.scr.lines = [] ∧ core.scr.cx = 0 ∧ core.scr.cy = 0) :
    (ansiRun p core (ansiPrep o im)).2 = (if im = .ice then { core with bufIce := .ice, caretIce := true } else core) ∧
    (ansiRun p core (ansiPrep o im)).1.st = .ground := by
  obtain ⟨f1, f2, f3⟩ := hfresh
  have hscr : core.scr.clear = core.scr ∧ ({ core.scr with cy := 1 - 1, cx := 1 - 1 } : Screen).limit = core.scr := by
    cases hs : core.scr with
    | mk w lh lines cx cy => rw [hs] at f1 f2 f3; simp_all [Screen.clear, Screen.limit]
  -- the screen preparation alone, on any core with this screen
  have hprep : ∀ (p' : AnsiP) (core' : Core), core'.stuck = false → p'.st = .ground → core'.scr = core.scr →
      (ansiRun p' core' (match o.prep with
        | .none => []
        | .clear => [27, 91, 50, 74]
        | .home => [27, 91, 49, 59, 49, 72])).2 = core' ∧
      (ansiRun p' core' (match o.prep with
        | .none => []
        | .clear => [27, 91, 50, 74]
        | .home => [27, 91, 49, 59, 49, 72])).1.st = .ground := by
    intro p' core' ns' ag' hsc
    cases hp : o.prep with
    | none => exact ⟨rfl, ag'⟩
    | clear =>
      have e : ansiRun p' core' [27, 91, 50, 74] = ({ p' with st := .ground }, core') := by
        simp [ansiRun, ansiStep, ns', ag', isDigit, numsDigit, parseNextNumber, i32Max, hsc, hscr.1]
        cases core'; simp_all
      simp only []
      rw [e]; exact ⟨rfl, rfl⟩
    | home =>
      have e : ansiRun p' core' [27, 91, 49, 59, 49, 72] = ({ p' with st := .ground }, core') := by
        simp [ansiRun, ansiStep, ns', ag', isDigit, numsDigit, parseNextNumber, i32Max, cup, hsc, hscr.2]
        cases core'; simp_all
      simp only []
      rw [e]; exact ⟨rfl, rfl⟩
  unfold ansiPrep
  by_cases him : im = .ice
  · rw [if_pos him, if_pos him, ansiRun_append]
    have e : ansiRun p core [27, 91, 63, 51, 51, 104] = ({ p with st := .ground }, { core with bufIce := .ice, caretIce := true }) := by
      simp [ansiRun, ansiStep, ns, ag, isDigit, numsDigit, parseNextNumber, i32Max]
    rw [e]
    exact hprep _ _ ns rfl rfl
  · rw [if_neg him, if_neg him, List.nil_append]
    exact hprep p core ns ag rfl

/-- the closing iCE switch touches neither the screen nor the `stuck` flag -/
theorem ansi_end_core (im : IceMode) (p : AnsiP) (core : Core) (ns : core.stuck = false) (ag : p.st = .ground) :
    (ansiRun p core (ansiEnd im)).2.scr = core.scr ∧ (ansiRun p core (ansiEnd im)).2.stuck = false := by
  unfold ansiEnd
  by_cases him : im = .ice
  · rw [if_pos him]
    have e : ansiRun p core [27, 91, 63, 51, 51, 108] = ({ p with st := .ground }, { core with caretIce := false }) := by
      simp [ansiRun, ansiStep, ns, ag, isDigit, numsDigit, parseNextNumber, i32Max]
    rw [e]; exact ⟨rfl, ns⟩
  · rw [if_neg him]; exact ⟨rfl, ns⟩

/-- what the SAUCE record may say: nothing (then the picture is 80 columns wide), or the picture's width 1..=132, any
    height, and the iCE flag exactly when the buffer is in iCE mode (as `write_sauce_info` sets it) -/
def SauceFits (sauce : Option Sauce) (p : Pic) : Prop :=
  (sauce = none ∧ p.w = 80) ∨ (∃ h, sauce = some ⟨p.w, h, decide (p.ice = .ice)⟩ ∧ 1 ≤ h ∧ 1 ≤ p.w ∧ p.w ≤ 132)

theorem initial_ansi (sauce : Option Sauce) (p : Pic) (hs : SauceFits sauce p) :
    ∃ H, (initial .ansi sauce).core.scr = freshScreen p.w H ∧ (initial .ansi sauce).core.stuck = false ∧
      (initial .ansi sauce).ansi.st = .ground ∧ (initial .ansi sauce).core.attr = defaultAttr ∧
      ((initial .ansi sauce).core.caretIce = true → p.ice = .ice) ∧ 1 ≤ (initial .ansi sauce).core.termH ∧ 1 ≤ p.w ∧ p.w ≤ 132 := by
  rcases hs with ⟨e, hw⟩ | ⟨h, e, h1, h2, h3⟩
  · subst e
    exact ⟨25, by rw [hw]; rfl, rfl, rfl, rfl, (fun q => by cases q), by decide, by omega, by omega⟩
  · subst e
    have hcond : ¬ (p.w = 0 ∨ 1000 < p.w) := by omega
    refine ⟨h, ?_, rfl, rfl, rfl, ?_, ?_, h2, h3⟩
    · simp [initial, loadSize, hcond, freshScreen]
    · simp [initial]
    · simp [initial, loadSize, hcond]; exact h1

/-- **C04, third theorem**: every combination of compression, cursor forward, repeat sequences, preserved line length and
    longer-terminal positioning (`CSI y H` per row; then at most 999 rows), in blink, unlimited AND iCE mode (16 foreground
    colours; 8 background colours, 16 in iCE mode), width 80 — or any width 1..=132 when SAUCE carries it — see the header. -/
theorem ansi_rt_partial₃ (o : AnsiOpts) (p : Pic) (sauce : Option Sauce) (hs : SauceFits sauce p)
    (hlh : o.longerTerminalOutput = true → p.rows.length ≤ 999)
    (hpal : p.pal = dosPalette) (hfull : Pic.Full p) (hdom : p.AllCells (CellDom o (decide (p.ice = .ice))))
    (hbom : bomPrefixed (writeAnsi o p) = false) :
    ShowsEq (load .ansi sauce (writeAnsi o p)) p := by
  obtain ⟨H, i1, i2, i3, i4, i5, i6, hw1, hw2⟩ := initial_ansi sauce p hs
  have hpad : (p.rows.map fun r => r ++ List.replicate (p.w - r.length) defaultCell) = p.rows := by
    have : ∀ r ∈ p.rows, r ++ List.replicate (p.w - r.length) defaultCell = r := by
      intro r hr; rw [hfull r hr]; simp
    calc (p.rows.map fun r => r ++ List.replicate (p.w - r.length) defaultCell) = p.rows.map id :=
          List.map_congr_left this
      _ = p.rows := List.map_id _
  have hbytes : writeAnsi o p = ansiPrep o p.ice ++ genLines o p.w p.rows.length (genCells o dosPalette p.ice p.w p.rows ansiState0) 0 true
      ++ ansiEnd p.ice := by
    unfold writeAnsi
    simp only [hpad, hpal]
  have hload : load .ansi sauce (writeAnsi o p) = finish .ansi (run .ansi (initial .ansi sauce) (writeAnsi o p)) := by
    unfold load; rw [if_neg (by decide), convertText_of_noBom hbom]
  obtain ⟨c1, c2⟩ := ansi_prep_core o p.ice (initial .ansi sauce).ansi (initial .ansi sauce).core i2 i3 (by rw [i1]; exact ⟨rfl, rfl, rfl⟩)
  -- the reader after the preparation: fresh screen, default rendition, iCE flag as the buffer's mode says
  have hcinv : CInv (decide (p.ice = .ice)) defaultAttr p.w (ansiRun (initial .ansi sauce).ansi (initial .ansi sauce).core (ansiPrep o p.ice)).1
      (ansiRun (initial .ansi sauce).ansi (initial .ansi sauce).core (ansiPrep o p.ice)).2 := by
    rw [c1]
    by_cases him : p.ice = .ice
    · rw [if_pos him]
      exact ⟨i2, c2, by simp [him], i4, by show (initial .ansi sauce).core.scr.w = p.w; rw [i1]; rfl, i6⟩
    · rw [if_neg him]
      have hci : (initial .ansi sauce).core.caretIce = false := by
        cases hq : (initial .ansi sauce).core.caretIce with
        | false => rfl
        | true => exact absurd (i5 hq) him
      exact ⟨i2, c2, by simp [him, hci], i4, by rw [i1]; rfl, i6⟩
  have hscr1 : (ansiRun (initial .ansi sauce).ansi (initial .ansi sauce).core (ansiPrep o p.ice)).2.scr = freshScreen p.w H := by
    rw [c1]; split <;> exact i1
  have hfin : ∃ irows, RowsOk o p.w p.rows irows ∧ (run .ansi (initial .ansi sauce) (writeAnsi o p)).core.stuck = false ∧
      (finish .ansi (run .ansi (initial .ansi sauce) (writeAnsi o p))).w = p.w ∧
      (finish .ansi (run .ansi (initial .ansi sauce) (writeAnsi o p))).stuck = (run .ansi (initial .ansi sauce) (writeAnsi o p)).core.stuck ∧
      ∀ x y, x < p.w →
        ((finish .ansi (run .ansi (initial .ansi sauce) (writeAnsi o p))).cellAt x y = foldBold (itemsShown irows x y) ∨
         ((finish .ansi (run .ansi (initial .ansi sauce) (writeAnsi o p))).cellAt x y = invisibleCell ∧ itemsShown irows x y = defaultCell)) := by
    cases hl : o.longerTerminalOutput with
    | false =>
      obtain ⟨irows, R1, R2, R3, R4⟩ := rows_comp o p.ice (decide (p.ice = .ice)) rfl p.w p.rows.length (by omega) (by omega) hl p.rows
        ansiState0 defaultAttr 0 true _ _ hfull hdom (relS_initial _) hcinv (fun _ => by rw [hscr1]; rfl) (by omega)
      -- the reader is in its ground state after the rows (needed to read the closing iCE switch)
      have hrun : (run .ansi (initial .ansi sauce) (writeAnsi o p)).core.scr = picItems p.w irows (freshScreen p.w H) ∧
          (run .ansi (initial .ansi sauce) (writeAnsi o p)).core.stuck = false := by
        rw [run_ansi_eq, hbytes, ansiRun_append, ansiRun_append]
        obtain ⟨e1, e2⟩ := ansi_end_core p.ice _ _ R3 R4
        exact ⟨by show (ansiRun _ _ (ansiEnd p.ice)).2.scr = _; rw [e1, R2, hscr1], e2⟩
      obtain ⟨hrun, hstuck⟩ := hrun
      have hfits := R1.fits (by omega) hfull
      obtain ⟨F1, F2, F3⟩ := finish_items .ansi (by decide) _ p.w H irows (by omega) (by omega) hfits hrun
      exact ⟨irows, R1, hstuck, F1, F2, F3⟩
    | true =>
      obtain ⟨irows, R1, R2, R3, R4⟩ := rows_longer o p.ice (decide (p.ice = .ice)) rfl p.w p.rows.length (by omega) (by omega) (hlh hl) hl p.rows
        ansiState0 defaultAttr 0 true _ _ hfull hdom (relS_initial _) hcinv (fun _ => rfl) (by omega)
      have hrun : (run .ansi (initial .ansi sauce) (writeAnsi o p)).core.scr = picItemsL irows 0 (freshScreen p.w H) ∧
          (run .ansi (initial .ansi sauce) (writeAnsi o p)).core.stuck = false := by
        rw [run_ansi_eq, hbytes, ansiRun_append, ansiRun_append]
        obtain ⟨e1, e2⟩ := ansi_end_core p.ice _ _ R3 R4
        exact ⟨by show (ansiRun _ _ (ansiEnd p.ice)).2.scr = _; rw [e1, R2, hscr1], e2⟩
      obtain ⟨hrun, hstuck⟩ := hrun
      have hfits := R1.fits (by omega) hfull
      obtain ⟨F1, F2, F3⟩ := finish_itemsL .ansi (by decide) _ p.w H irows (by omega) (by omega) hfits hrun
      exact ⟨irows, R1, hstuck, F1, F2, F3⟩
  obtain ⟨irows, R1, hstuck, F1, F2, F3⟩ := hfin
  rw [hload]
  refine ⟨by rw [F2]; exact hstuck, F1, ?_⟩
  intro x y hx hy
  have hrow : p.rows.getD y [] ∈ p.rows := mem_of_getD_lt hy
  have hrl : (p.rows.getD y []).length = p.w := hfull _ hrow
  obtain ⟨G1, G2⟩ := R1.get y hy
  obtain ⟨l1, l2, l3⟩ := ansiRowLen_spec o p.w (by omega) (p.rows.getD y [])
  have hcellmem : (p.rows.getD y []).getD x defaultCell ∈ p.rows.getD y [] := mem_of_getD_lt (by omega)
  have hcd : CellDom o (decide (p.ice = .ice)) (p.get x y) := hdom _ hrow _ hcellmem
  -- what the layer shows at (x, y), by cases: printed, skipped, trimmed
  have hshown : itemsShown irows x y = prImg (p.get x y) ∨ (itemsShown irows x y = defaultCell ∧ TrimCell (p.get x y)) := by
    unfold itemsShown
    rw [R1.length_eq]
    by_cases hxl : x < ansiRowLen o p.w (p.rows.getD y [])
    · have hc : y < p.rows.length ∧ x < (irows.getD y []).length := ⟨hy, by rw [G1]; exact hxl⟩
      rw [if_pos hc]
      have htl : ((p.rows.getD y []).take (ansiRowLen o p.w (p.rows.getD y []))).length = ansiRowLen o p.w (p.rows.getD y []) := by
        rw [List.length_take, hrl]; omega
      have hget : ((p.rows.getD y []).take (ansiRowLen o p.w (p.rows.getD y []))).getD x defaultCell = p.get x y := by
        show ((p.rows.getD y []).take (ansiRowLen o p.w (p.rows.getD y []))).getD x defaultCell = (p.rows.getD y []).getD x defaultCell
        rw [List.getD_eq_getElem?_getD, List.getElem?_take, if_pos hxl, ← List.getD_eq_getElem?_getD]
      rcases G2 x (by rw [htl]; exact hxl) with h | ⟨h1, h2, _⟩
      · left
        rw [h, hget]
        show shown (prImg (p.get x y)) = _
        apply shown_of_visible
        simp [prImg, printedAttr, Cell.isVisible, hcd.1.2.2.2]
      · right
        rw [h1, hget] at *
        exact ⟨rfl, skip_trim (by rw [← hget]; exact h2)⟩
    · have hc : ¬ (y < p.rows.length ∧ x < (irows.getD y []).length) := by
        intro ⟨_, h2⟩; rw [G1] at h2; exact hxl h2
      rw [if_neg hc]
      right
      refine ⟨rfl, ?_⟩
      rcases l3 with e | ⟨_, ht⟩
      · omega
      · exact ht x (by omega) (by omega)
  rcases F3 x y hx with e | ⟨e1, e2⟩
  · rw [e]
    rcases hshown with h | ⟨h, ht⟩
    · rw [h]
      have : foldBold (prImg (p.get x y)) = ansiImg (p.get x y) := by
        have := foldBold_prImg _ (p.get x y) hcd.1
        rw [shown_of_visible (by simp [prImg, printedAttr, Cell.isVisible, hcd.1.2.2.2])] at this
        exact this
      rw [this]; exact showEq_img _
    · rw [h, foldBold_default]; exact showEq_blank _ _ ht (Or.inl rfl)
  · rw [e1]
    rcases hshown with h | ⟨_, ht⟩
    · -- the cell was printed, yet its row was cropped: then it was printed as a default blank
      rw [e2] at h
      have hpc : prImg (p.get x y) = defaultCell := h.symm
      have hch : (p.get x y).ch = 32 := congrArg Cell.ch hpc
      have hbg : (p.get x y).attr.bg = 0 := congrArg (fun c => c.attr.bg) hpc
      have hbl : (p.get x y).attr.fl.blink = false := congrArg (fun c => c.attr.fl.blink) hpc
      exact showEq_blank _ _ ⟨Or.inl hch, hbg, hbl⟩ (Or.inr rfl)
    · exact showEq_blank _ _ ht (Or.inr rfl)

/-- the simulation step the theorem rests on, restated here so that the axiom audit covers it: after the SGR parameters
    `get_color` emits for a cell the reader's attribute is the cell's rendition, the new writer state is again related
    to it, every parameter is one the reader accepts, and no 24-bit colour command is needed -/
theorem sgr_sync_16 (o : AnsiOpts) (im : IceMode) (attr : Attr) (ha : Attr16 (decide (im = .ice)) attr) (st : AnsiState) (A0 : Attr)
    (h : RelS (decide (im = .ice)) st.isBlink st A0) :
    (getColor o dosPalette im attr st).2.2 = [] ∧ AllSimple (getColor o dosPalette im attr st).2.1 ∧
    RelS (decide (im = .ice)) (getColor o dosPalette im attr st).1.isBlink (getColor o dosPalette im attr st).1
      (sgrSimple A0 (getColor o dosPalette im attr st).2.1) ∧
    sgrSimple A0 (getColor o dosPalette im attr st).2.1 = caretAttr (decide (im = .ice)) attr :=
  sgr_sync o im attr ha st A0 h

/-- a control sequence with parameters below 1000 is read back with exactly these parameters -/
theorem csi_roundtrip (p : AnsiP) (c : Core) (ps : List Nat) (final : Nat) (hs : c.stuck = false) (hg : p.st = .ground)
    (hne : ps ≠ []) (hlt : ∀ n ∈ ps, n < 1000) :
    ansiRun p c (csi ps final) = ansiStep { p with st := .csi ps false } c final :=
  csi_read p c ps final hs hg hne hlt

/-- `subst_sound`: the line loop with RLE / cursor-forward / repeat substitution makes the reader perform one item per
    cell — the printed cell, or a skip over a cell that is a space on colour 0, not blinking, away from the margin -/
theorem subst_sound (o : AnsiOpts) (ic : Bool) (w : Nat) (hw : w ≤ 999) (fuel : Nat) (cells : List Cell) (line : List CharCell)
    (A : Attr) (x : Nat) (p : AnsiP) (core : Core) (h1 : line.length ≤ fuel) (h2 : LineOk o ic A cells line)
    (h3 : x + cells.length ≤ w) (h4 : CInv ic A w p core) (h5 : cells ≠ [] → core.scr.cx = x) :
    ∃ items : List (Option Cell), items.length = cells.length ∧ ItemsOk x w cells items ∧
      (ansiRun p core (genLine o w fuel x line)).2.scr = core.scr.runItems items ∧
      CInv ic (lastAttr ic A cells) w (ansiRun p core (genLine o w fuel x line)).1 (ansiRun p core (genLine o w fuel x line)).2 :=
  genLine_items o ic w hw fuel cells line A x p core h1 h2 h3 h4 h5

/-- `trim_sound`: what `generate_cells` drops at the end of a row -/
theorem trim_sound (o : AnsiOpts) (w : Nat) (hw : 0 < w) (row : List Cell) :
    1 ≤ ansiRowLen o w row ∧ ansiRowLen o w row ≤ w ∧
    (ansiRowLen o w row = w ∨
      (ansiRowLen o w row + 2 ≤ w ∧ ∀ i, ansiRowLen o w row ≤ i → i < w → TrimCell (row.getD i defaultCell))) :=
  ansiRowLen_spec o w hw row

/-! ### non-vacuity -/

/-- two full rows: bright / bold / blinking / underlined cells, a control character (IcyTerm handling) -/
def demoRow0 : List Cell :=
  [⟨65, ⟨12, 1, { blink := true }⟩⟩, ⟨66, ⟨4, 1, { bold := true, underline := true }⟩⟩, ⟨27, ⟨7, 0, {}⟩⟩] ++
    List.replicate 77 ⟨32, ⟨3, 0, {}⟩⟩
def demoRow1 : List Cell := List.replicate 80 ⟨219, ⟨15, 7, { conceal := true, crossed := true }⟩⟩
def demoPic : Pic := { w := 80, rows := [demoRow0, demoRow1], ice := .unlimited, pal := dosPalette }
def demoOpts : AnsiOpts := { compress := false, ctrl := .icyTerm, prep := .clear }

example : demoPic.w = 80 ∧ demoOpts.compress = false ∧ demoOpts.longerTerminalOutput = false ∧ demoPic.ice ≠ .ice ∧
    demoPic.pal = dosPalette ∧ Pic.Full demoPic ∧ demoPic.rows ≠ [] ∧ demoPic.AllCells (CellDom demoOpts false) ∧
    bomPrefixed (writeAnsi demoOpts demoPic) = false := by
  refine ⟨rfl, rfl, rfl, by decide, rfl, ?_, by decide, ?_, ?_⟩
  · unfold Pic.Full; decide +kernel
  · simp only [Pic.AllCells, CellDom, Attr16, EncDom, demoOpts, and_true]; decide +kernel
  · decide +kernel

/-- the same picture under the default options (compression and cursor forward on) satisfies the hypotheses of the third
    theorem; the 77 trailing cyan-on-black spaces of row 0 are written as nothing at all -/
example : (({} : AnsiOpts).longerTerminalOutput = true → demoPic.rows.length ≤ 999) ∧ demoPic.AllCells (CellDom { ctrl := .icyTerm } (decide (demoPic.ice = .ice))) ∧
    bomPrefixed (writeAnsi { ctrl := .icyTerm } demoPic) = false ∧ (writeAnsi { ctrl := .icyTerm } demoPic).length < 200 := by
  refine ⟨fun _ => by decide, ?_, ?_, ?_⟩
  · simp only [Pic.AllCells, CellDom, Attr16, EncDom, and_true]; decide +kernel
  · decide +kernel
  · decide +kernel

/-- longer-terminal output of the same picture: `ESC[0m ESC[1H` row 0 `ESC[2H` row 1, no line break -/
example : (writeAnsi { longerTerminalOutput := true, ctrl := .icyTerm } demoPic).take 8 = [27, 91, 48, 109, 27, 91, 49, 72] ∧
    ¬ (13 ∈ writeAnsi { longerTerminalOutput := true, ctrl := .icyTerm } demoPic) ∧
    (load .ansi none (writeAnsi { longerTerminalOutput := true, ctrl := .icyTerm } demoPic)).cellAt 79 1 = ⟨219, ⟨15, 7, { conceal := true, crossed := true }⟩⟩ := by
  refine ⟨?_, ?_, ?_⟩ <;> decide +kernel

/-- an iCE-mode picture (bright backgrounds 9 and 15) under the default options, with SAUCE carrying width 40 -/
def icePic : Pic :=
  { w := 40, rows := [[⟨65, ⟨15, 9, {}⟩⟩, ⟨32, ⟨7, 15, {}⟩⟩, ⟨66, ⟨0, 1, {}⟩⟩] ++ List.replicate 37 defaultCell,
                      List.replicate 40 ⟨219, ⟨12, 8, { bold := true }⟩⟩], ice := .ice, pal := dosPalette }

example : SauceFits (some ⟨40, 2, true⟩) icePic ∧ Pic.Full icePic ∧ icePic.AllCells (CellDom {} (decide (icePic.ice = .ice))) ∧
    bomPrefixed (writeAnsi {} icePic) = false ∧
    (load .ansi (some ⟨40, 2, true⟩) (writeAnsi {} icePic)).cellAt 1 0 = ⟨32, ⟨7, 15, {}⟩⟩ := by
  refine ⟨Or.inr ⟨2, rfl, by decide, by decide, by decide⟩, ?_, ?_, ?_, ?_⟩
  · unfold Pic.Full; decide +kernel
  · simp only [Pic.AllCells, CellDom, Attr16, EncDom, AnsiPrintable]; decide +kernel
  · decide +kernel
  · decide +kernel

/-- the bold low colour of the second cell is written as `1;…;31` and comes back as colour 12 without the bold flag -/
example : (load .ansi none (writeAnsi demoOpts demoPic)).cellAt 1 0 = ⟨66, ⟨12, 1, { underline := true }⟩⟩ := by
  decide +kernel

/-- the known finding at model level: the UTF-8 BOM misdetection also hits ANSI files -/
def bomPic : Pic :=
  { w := 80, rows := [[⟨239, defaultAttr⟩, ⟨187, defaultAttr⟩, ⟨191, defaultAttr⟩] ++ List.replicate 77 defaultCell], ice := .unlimited, pal := dosPalette }
theorem bom_counterexample :
    bomPrefixed (writeAnsi {} bomPic) = true ∧
    (load .ansi none (writeAnsi {} bomPic)).cellAt 0 0 = ⟨65279, defaultAttr⟩ ∧ bomPic.get 0 0 = ⟨239, defaultAttr⟩ := by
  refine ⟨?_, ?_, ?_⟩ <;> decide +kernel

end IcyVerif.C04
