import IcyVerif.Lemmas.ArtAnsiCells
import IcyVerif.Lemmas.ArtAnsiRows
import IcyVerif.Lemmas.ArtAnsiXRows
/-! # C04 — ANSI files written by the engine parse back to the same picture

FULL STATEMENT (`ansi_rt`, PROVED in Props/C04X.lean together with `output_line_length`, `skip_lines` and font pages):
  for every single-layer picture `p` (width 80, or any width 1..=132 carried by SAUCE; height 1..=60) whose cells hold
  CP437 characters the chosen control-character handling can encode, palette / xterm-256 / RGB colours, bold, blink and
  the extended attributes the writer emits, for every `o : AnsiOpts` (compress, cursor-forward, repeat sequences,
  preserved line length, longer-terminal positioning, extended colours, 3 screen preparations, 3 control-character
  modes) and every ice mode:
      `show (load .ansi sauce (writeAnsi o p)) = show p`
  where `show` = per cell (glyph, displayed foreground RGB, background RGB, blink).
  This file holds the theorems about `writeAnsi` = `StringGenerator` without line splitting, skipped rows and font pages,
  which `ansi_rt` builds on (its row / cell induction is redone over the event-level writer in Lemmas/ArtAnsiF*.lean).

PROVED (for ALL pictures of the stated shape — induction over rows and cells):
  * `ansi_rt_partial₄` — the round trip for ALL COLOURS a buffer can hold.  The picture's palette is arbitrary (any number of
    entries; the 16 base colours may have been replaced), every cell's foreground and background are arbitrary colour indices
    resolved through it (`Palette::get_rgb`: out of range = black), so DOS colours, xterm-256 colours (`38;5;n` / `48;5;n`
    when extended colours are on), every other RGB value (`CSI 1;r;g;b t` / `CSI 0;r;g;b t`), bright backgrounds in blink /
    unlimited mode and custom base palettes are all covered; extended colours on or off; ALL 2^5 combinations of compress /
    cursor forward / repeat sequences / preserved line length / longer-terminal positioning (then at most 999 rows); all
    three screen preparations; all three control-character modes (over the characters the mode can encode); every attribute
    flag the writer emits; ALL THREE ice modes (in iCE mode cells do not blink); width 80 or any SAUCE width 1..=132; up
    to 1 000 000 rows (so that the loaded palette's indices stay below 2^31, where `get_rgb` reads them as indices).
    Conclusion `ShowsEqX`: every cell of the picture is SHOWN by the loaded picture, each through its own palette
    (`ShowEqX`: same character up to the blank glyphs NUL / space / 0xFF, same displayed foreground RGB unless the glyph is
    blank — bold low colour = bright colour —, same background RGB, same blink state).
    The simulation relation `RelX` (Lemmas/ArtAnsiXSgr.lean) relates the writer's `AnsiState` to the reader's caret
    attribute AND palette in RGB terms; its preservation through every block of `get_color` is `sgr_sync_all`.  The key
    palette facts: `insert_resolves` (`insert_color` of the RGB the writer emitted resolves to that RGB, earlier indices
    stay valid, the DOS prefix is never touched) and `xterm_lookup_sound` (the writer's xterm-256 hash lookup returns an
    index 0..=255 of the regenerated table that holds exactly the colour — so `38;5;n` is read back as the same RGB).
    SGR groups are read before 24-bit commands, so foreground and background actions may happen in either order
    (`chain_order`); both orders are covered.  `subst_sound_all`, `trim_sound_all` are the colour versions of the
    substitution and trimming lemmas.
    TWO DEFECTS were found while proving it (both repaired in the repository, see known_findings.txt): SGR 1 brightened
    the wrong colour when a palette slot below 8 held another DOS colour (`state.fg_idx` was the palette slot, not the DOS
    colour the terminal is on); blanks on colour 0 were skipped / trimmed although the palette's colour 0 was not black.
  * `ansi_rt_partial₃` — the same option lattice on the DOS palette only (16 foreground x 8 background colours, 16
    backgrounds in iCE mode) with the stronger conclusion `ShowsEq`: equal colour INDICES.
    Ingredients: `sgr_sync_16` (SGR state tracking), `subst_sound`
    (the RLE scan with cursor-forward and repeat substitution drives the reader through "items": printed cells, or
    skipped cells that are spaces on colour 0, not blinking, and never in the last column), `trim_sound` (everything
    the end-of-line trimming drops is a blank on colour 0 that does not blink; a row keeps all its cells or at least
    two fewer, so the one-blank line break never occurs), the line-break lemma (`rows_comp`) and its `CSI y H` counterpart
    (`rows_longer`), the general crop lemma
    (`crop_view`: `crop_loaded_file` only removes rows that show nothing).
  * `ansi_rt_partial₁` — compress = false only, blink / unlimited mode, width 80, DOS palette, but the stronger conclusion `ShowsAll … ansiImg`: EVERY
    loaded cell IS the saved cell with the bold attribute folded into the bright colour (same character code, colour
    indices, blink and extended attributes), and the height is preserved.
  All under the hypothesis that the file does not start with EF BB BF: `writeAnsi` is the `StringGenerator`'s output; the
  guard in `Ansi::to_bytes` that keeps such output from being read as UTF-8 (repair of the former finding
  `ans:utf8-bom-prefix`) is part of `writeAnsiX` (Model/ArtAnsiX.lean), and `ansi_rt` has no such hypothesis.
  `bom_counterexample` shows what happens WITHOUT the guard.
WHAT THE THEOREMS OF THIS FILE LEAVE TO `ansi_rt`: the BOM guard, `output_line_length`, `skip_lines`, font pages.  Outside
both: sixels, fonts uploaded with the file (slots >= 100), `modern_terminal_output` (excluded by the property); the colour
optimiser (`lossles_output = false`, `normalize_whitespaces`) is C12's subject (the harness hands the writer model the
optimised picture); the overline / invisible attribute bits, which the writer never emits, are excluded.
-/
set_option linter.unusedSimpArgs false
namespace IcyVerif.C04
open IcyVerif.ArtIO IcyVerif.Gen.Art

/-- the loaded cell: the saved cell with bold folded into the bright colour (`parse_with_parser`) -/
def ansiImg (c : Cell) : Cell := ⟨c.ch, ⟨dispFg c.attr, c.attr.bg, { c.attr.fl with bold := false }⟩⟩

/-- the loaded picture shows `img` of EVERY saved cell; same size; the reader stayed inside the modelled sub-language -/
def ShowsAll (L : Loaded) (p : Pic) (img : Cell → Cell) : Prop :=
  L.stuck = false ∧ L.w = p.w ∧ L.h = p.rows.length ∧
  ∀ x y, x < p.w → y < p.rows.length → L.cellAt x y = img (p.get x y)

/-- every row holds all `w` cells (what `Buffer::get_char` shows of a row) -/
def Pic.Full (p : Pic) : Prop := ∀ r ∈ p.rows, r.length = p.w

theorem relS_initial (ic : Bool) : RelS ic ansiState0.isBlink ansiState0 defaultAttr := by
  refine ⟨rfl, by decide, by decide, fun _ => rfl, by decide, ?_, rfl⟩
  show ansiState0.bg = getRgb dosPalette (defaultAttr.bg + if (ic && false) = true then 8 else 0)
  simp only [Bool.and_false, Bool.false_eq_true, if_false]; decide

/-- the screen preparation sequences leave the fresh reader as it is -/
theorem ansi_prep_sim (o : AnsiOpts) (im : IceMode) (him : im ≠ .ice) (ic : Bool) (p : AnsiP) (core : Core) (st : AnsiState)
    (h : AInv ic st p core) (hfresh : core.scr.lines = [] ∧ core.scr.cx = 0 ∧ core.scr.cy = 0) :
    AInv ic st (ansiRun p core (ansiPrep o im)).1 (ansiRun p core (ansiPrep o im)).2 ∧
    (ansiRun p core (ansiPrep o im)).2.scr = core.scr := by
  obtain ⟨ns, ag, ice, rel⟩ := h
  obtain ⟨f1, f2, f3⟩ := hfresh
  have hscr : core.scr.clear = core.scr ∧ ({ core.scr with cy := 1 - 1, cx := 1 - 1 } : Screen).limit = core.scr := by
    cases hs : core.scr with
    | mk w lh lines cx cy => rw [hs] at f1 f2 f3; simp_all [Screen.clear, Screen.limit]
  unfold ansiPrep
  rw [if_neg him, List.nil_append]
  cases hp : o.prep with
  | none => exact ⟨⟨ns, ag, ice, rel⟩, rfl⟩
  | clear =>
    have e : ansiRun p core [27, 91, 50, 74] = ({ p with st := .ground }, core) := by
      simp [ansiRun, ansiStep, ns, ag, isDigit, numsDigit, parseNextNumber, i32Max, hscr.1]
      cases core; simp_all
    simp only []
    rw [e]
    exact ⟨⟨ns, rfl, ice, rel⟩, rfl⟩
  | home =>
    have e : ansiRun p core [27, 91, 49, 59, 49, 72] = ({ p with st := .ground }, core) := by
      simp [ansiRun, ansiStep, ns, ag, isDigit, numsDigit, parseNextNumber, i32Max, cup, hscr.2]
      cases core; simp_all
    simp only []
    rw [e]
    exact ⟨⟨ns, rfl, ice, rel⟩, rfl⟩

theorem foldBold_prImg (ic : Bool) (c : Cell) (ha : Attr16 ic c.attr) : foldBold (shown (prImg c)) = ansiImg c := by
  obtain ⟨hfg, _, _, hinv⟩ := ha
  have hd : dispFg c.attr < 16 := by unfold dispFg; split <;> simp_all <;> omega
  have hv : (prImg c).isVisible = true := by simp [prImg, printedAttr, Cell.isVisible, hinv]
  rw [shown_of_visible hv]
  unfold foldBold prImg printedAttr ansiImg
  by_cases h8 : 8 ≤ dispFg c.attr
  · have n8 : ¬ dispFg c.attr < 8 := by omega
    have l8 : dispFg c.attr - 8 < 8 := by omega
    have e : dispFg c.attr - 8 + 8 = dispFg c.attr := by omega
    simp [h8, n8, l8, e]
  · have l8 : dispFg c.attr < 8 := by omega
    simp [h8, l8]

/-- **C04, first theorem**: no compression, 16 x 8 colours, blink / unlimited mode — see the header. -/
theorem ansi_rt_partial₁ (o : AnsiOpts) (p : Pic) (hw : p.w = 80) (hc : o.compress = false)
    (hl : o.longerTerminalOutput = false) (hice : p.ice ≠ .ice) (hpal : p.pal = dosPalette) (hfull : Pic.Full p)
    (hne : p.rows ≠ []) (hdom : p.AllCells (CellDom o false)) (hbom : bomPrefixed (writeAnsi o p) = false) :
    ShowsAll (load .ansi none (writeAnsi o p)) p ansiImg := by
  -- the rows are already full: padding changes nothing
  have hpad : (p.rows.map fun r => r ++ List.replicate (p.w - r.length) defaultCell) = p.rows := by
    have : ∀ r ∈ p.rows, r ++ List.replicate (p.w - r.length) defaultCell = r := by
      intro r hr; rw [hfull r hr]; simp
    calc (p.rows.map fun r => r ++ List.replicate (p.w - r.length) defaultCell) = p.rows.map id :=
          List.map_congr_left this
      _ = p.rows := List.map_id _
  have hbytes : writeAnsi o p = ansiPrep o p.ice ++ genLines o p.w p.rows.length (genCells o dosPalette p.ice p.w p.rows ansiState0) 0 true := by
    unfold writeAnsi ansiEnd
    simp only [hpad, hpal, if_neg hice, List.append_nil]
  have hload : load .ansi none (writeAnsi o p) = finish .ansi (run .ansi (initial .ansi none) (writeAnsi o p)) := by
    unfold load; rw [if_neg (by decide), convertText_of_noBom hbom]
  have hicf : decide (p.ice = .ice) = false := by simp [hice]
  have A0 : AInv (decide (p.ice = .ice)) ansiState0 (initial .ansi none).ansi (initial .ansi none).core :=
    ⟨rfl, rfl, by rw [hicf]; rfl, relS_initial _⟩
  obtain ⟨A1, s1⟩ := ansi_prep_sim o p.ice hice _ _ _ _ A0 ⟨rfl, rfl, rfl⟩
  obtain ⟨⟨st', A2⟩, s2⟩ := rows_sim o p.ice p.w p.rows.length hc hl p.rows ansiState0 0 true _ _ hfull
    (by rw [hicf]; exact hdom) A1
  have hrun : (run .ansi (initial .ansi none) (writeAnsi o p)).core.scr = (freshScreen p.w 25).runOps (picOps id prImg p.w p.rows) := by
    rw [run_ansi_eq, hbytes, ansiRun_append]
    show (ansiRun _ _ _).2.scr = _
    rw [s2, s1, hw]; rfl
  have hstuck : (run .ansi (initial .ansi none) (writeAnsi o p)).core.stuck = false := by
    rw [run_ansi_eq, hbytes, ansiRun_append]
    exact A2.ns
  have hfit : ∀ r ∈ p.rows, (id r).length ≤ p.w := fun r hr => by rw [show (id r).length = r.length from rfl, hfull r hr]; exact Nat.le_refl _
  have hlast : ∀ r, p.rows.getLast? = some r → id r ≠ [] := by
    intro r hr e
    have hm : r ∈ p.rows := List.mem_of_getLast? hr
    have := hfull r hm
    rw [show id r = r from rfl] at e
    rw [e] at this; simp at this; omega
  obtain ⟨F1, F2, F3, F4⟩ := finish_spec id .ansi (by decide) _ prImg p.w 25 p.rows (by omega) hfit hne hlast hrun
  rw [hload]
  refine ⟨by rw [F3]; exact hstuck, F1, F2, ?_⟩
  intro x y hx hy
  have hrow : p.rows.getD y [] ∈ p.rows := mem_of_getD_lt hy
  have hxl : x < (id (p.rows.getD y [])).length := by rw [show (id (p.rows.getD y [])).length = (p.rows.getD y []).length from rfl, hfull _ hrow]; exact hx
  rw [F4 x y hx hy, if_pos hxl]
  show foldBold (shown (prImg ((p.rows.getD y []).getD x defaultCell))) = ansiImg (p.get x y)
  have hcell : (p.rows.getD y []).getD x defaultCell ∈ p.rows.getD y [] := mem_of_getD_lt hxl
  exact foldBold_prImg false _ (hdom _ hrow _ hcell).1

/-! ### compression: trimming, cursor forward, repeat sequences -/

/-- what C04 compares: the saved cell `c` and the loaded cell `l` show the same — the same character (NUL, space and
    0xFF are the same blank glyph; the writer's trimming and cursor-forward turn them into a space), the same displayed
    foreground colour unless the glyph is blank, the same background colour, the same blink state -/
def ShowEq (c l : Cell) : Prop :=
  (l.ch = c.ch ∨ (Blank c.ch ∧ l.ch = 32)) ∧ (¬ Blank c.ch → dispFg l.attr = dispFg c.attr) ∧
  l.attr.bg = c.attr.bg ∧ l.attr.fl.blink = c.attr.fl.blink

/-- every cell of the picture is shown by the loaded picture (the loaded picture may have fewer rows: trailing rows that
    show nothing are cropped and read as blank) -/
def ShowsEq (L : Loaded) (p : Pic) : Prop :=
  L.stuck = false ∧ L.w = p.w ∧ ∀ x y, x < p.w → y < p.rows.length → ShowEq (p.get x y) (L.cellAt x y)

theorem showEq_img (c : Cell) : ShowEq c (ansiImg c) := by
  refine ⟨Or.inl rfl, fun _ => ?_, rfl, rfl⟩
  show dispFg ⟨dispFg c.attr, c.attr.bg, { c.attr.fl with bold := false }⟩ = dispFg c.attr
  simp [dispFg]

theorem showEq_blank (c l : Cell) (h : TrimCell c) (hl : l = defaultCell ∨ l = invisibleCell) : ShowEq c l := by
  obtain ⟨h1, h2, h3⟩ := h
  rcases hl with e | e <;> subst e
  · exact ⟨Or.inr ⟨h1, rfl⟩, fun hn => absurd h1 hn, h2.symm, h3.symm⟩
  · exact ⟨Or.inr ⟨h1, rfl⟩, fun hn => absurd h1 hn, h2.symm, h3.symm⟩

/-- the iCE switch (if the buffer is in iCE mode) and the screen preparation: on the fresh reader only the iCE flags move -/
theorem ansi_prep_core (o : AnsiOpts) (im : IceMode) (p : AnsiP) (core : Core)
    (ns : core.stuck = false) (ag : p.st = .ground) (hfresh : core.scr.lines = [] ∧ core.scr.cx = 0 ∧ core.scr.cy = 0) :
    (ansiRun p core (ansiPrep o im)).2 = (if im = .ice then { core with bufIce := .ice, caretIce := true } else core) ∧
    (ansiRun p core (ansiPrep o im)).1.st = .ground := by
  obtain ⟨f1, f2, f3⟩ := hfresh
  have hscr : core.scr.clear = core.scr ∧ ({ core.scr with cy := 1 - 1, cx := 1 - 1 } : Screen).limit = core.scr := by
    cases hs : core.scr with
    | mk w lh lines cx cy => rw [hs] at f1 f2 f3; simp_all [Screen.clear, Screen.limit]
  -- the screen preparation alone, on any core with this screen
  have hprep : ∀ (p' : AnsiP) (core' : Core), core'.stuck = false → p'.st = .ground → core'.scr = core.scr →
      (ansiRun p' core' (match o.prep with
        | .none => []
        | .clear => [27, 91, 50, 74]
        | .home => [27, 91, 49, 59, 49, 72])).2 = core' ∧
      (ansiRun p' core' (match o.prep with
        | .none => []
        | .clear => [27, 91, 50, 74]
        | .home => [27, 91, 49, 59, 49, 72])).1.st = .ground := by
    intro p' core' ns' ag' hsc
    cases hp : o.prep with
    | none => exact ⟨rfl, ag'⟩
    | clear =>
      have e : ansiRun p' core' [27, 91, 50, 74] = ({ p' with st := .ground }, core') := by
        simp [ansiRun, ansiStep, ns', ag', isDigit, numsDigit, parseNextNumber, i32Max, hsc, hscr.1]
        cases core'; simp_all
      simp only []
      rw [e]; exact ⟨rfl, rfl⟩
    | home =>
      have e : ansiRun p' core' [27, 91, 49, 59, 49, 72] = ({ p' with st := .ground }, core') := by
        simp [ansiRun, ansiStep, ns', ag', isDigit, numsDigit, parseNextNumber, i32Max, cup, hsc, hscr.2]
        cases core'; simp_all
      simp only []
      rw [e]; exact ⟨rfl, rfl⟩
  unfold ansiPrep
  by_cases him : im = .ice
  · rw [if_pos him, if_pos him, ansiRun_append]
    have e : ansiRun p core [27, 91, 63, 51, 51, 104] = ({ p with st := .ground }, { core with bufIce := .ice, caretIce := true }) := by
      simp [ansiRun, ansiStep, ns, ag, isDigit, numsDigit, parseNextNumber, i32Max]
    rw [e]
    exact hprep _ _ ns rfl rfl
  · rw [if_neg him, if_neg him, List.nil_append]
    exact hprep p core ns ag rfl

/-- the closing iCE switch touches neither the screen nor the `stuck` flag -/
theorem ansi_end_core (im : IceMode) (p : AnsiP) (core : Core) (ns : core.stuck = false) (ag : p.st = .ground) :
    (ansiRun p core (ansiEnd im)).2.scr = core.scr ∧ (ansiRun p core (ansiEnd im)).2.stuck = false := by
  unfold ansiEnd
  by_cases him : im = .ice
  · rw [if_pos him]
    have e : ansiRun p core [27, 91, 63, 51, 51, 108] = ({ p with st := .ground }, { core with caretIce := false }) := by
      simp [ansiRun, ansiStep, ns, ag, isDigit, numsDigit, parseNextNumber, i32Max]
    rw [e]; exact ⟨rfl, ns⟩
  · rw [if_neg him]; exact ⟨rfl, ns⟩

/-- what the SAUCE record may say: nothing (then the picture is 80 columns wide), or the picture's width 1..=132, any
    height, and the iCE flag exactly when the buffer is in iCE mode (as `write_sauce_info` sets it) -/
def SauceFits (sauce : Option Sauce) (p : Pic) : Prop :=
  (sauce = none ∧ p.w = 80) ∨ (∃ h, sauce = some ⟨p.w, h, decide (p.ice = .ice)⟩ ∧ 1 ≤ h ∧ 1 ≤ p.w ∧ p.w ≤ 132)

theorem initial_ansi (sauce : Option Sauce) (p : Pic) (hs : SauceFits sauce p) :
    ∃ H, (initial .ansi sauce).core.scr = freshScreen p.w H ∧ (initial .ansi sauce).core.stuck = false ∧
      (initial .ansi sauce).ansi.st = .ground ∧ (initial .ansi sauce).core.attr = defaultAttr ∧
      ((initial .ansi sauce).core.caretIce = true → p.ice = .ice) ∧ 1 ≤ (initial .ansi sauce).core.termH ∧ 1 ≤ p.w ∧ p.w ≤ 132 := by
  rcases hs with ⟨e, hw⟩ | ⟨h, e, h1, h2, h3⟩
  · subst e
    exact ⟨25, by rw [hw]; rfl, rfl, rfl, rfl, (fun q => by cases q), by decide, by omega, by omega⟩
  · subst e
    have hcond : ¬ (p.w = 0 ∨ 1000 < p.w) := by omega
    refine ⟨h, ?_, rfl, rfl, rfl, ?_, ?_, h2, h3⟩
    · simp [initial, loadSize, hcond, freshScreen]
    · simp [initial]
    · simp [initial, loadSize, hcond]; exact h1

/-- **C04, third theorem**: every combination of compression, cursor forward, repeat sequences, preserved line length and
    longer-terminal positioning (`CSI y H` per row; then at most 999 rows), in blink, unlimited AND iCE mode (16 foreground
    colours; 8 background colours, 16 in iCE mode), width 80 — or any width 1..=132 when SAUCE carries it — see the header. -/
theorem ansi_rt_partial₃ (o : AnsiOpts) (p : Pic) (sauce : Option Sauce) (hs : SauceFits sauce p)
    (hlh : o.longerTerminalOutput = true → p.rows.length ≤ 999)
    (hpal : p.pal = dosPalette) (hfull : Pic.Full p) (hdom : p.AllCells (CellDom o (decide (p.ice = .ice))))
    (hbom : bomPrefixed (writeAnsi o p) = false) :
    ShowsEq (load .ansi sauce (writeAnsi o p)) p := by
  obtain ⟨H, i1, i2, i3, i4, i5, i6, hw1, hw2⟩ := initial_ansi sauce p hs
  have hpad : (p.rows.map fun r => r ++ List.replicate (p.w - r.length) defaultCell) = p.rows := by
    have : ∀ r ∈ p.rows, r ++ List.replicate (p.w - r.length) defaultCell = r := by
      intro r hr; rw [hfull r hr]; simp
    calc (p.rows.map fun r => r ++ List.replicate (p.w - r.length) defaultCell) = p.rows.map id :=
          List.map_congr_left this
      _ = p.rows := List.map_id _
  have hbytes : writeAnsi o p = ansiPrep o p.ice ++ genLines o p.w p.rows.length (genCells o dosPalette p.ice p.w p.rows ansiState0) 0 true
      ++ ansiEnd p.ice := by
    unfold writeAnsi
    simp only [hpad, hpal]
  have hload : load .ansi sauce (writeAnsi o p) = finish .ansi (run .ansi (initial .ansi sauce) (writeAnsi o p)) := by
    unfold load; rw [if_neg (by decide), convertText_of_noBom hbom]
  obtain ⟨c1, c2⟩ := ansi_prep_core o p.ice (initial .ansi sauce).ansi (initial .ansi sauce).core i2 i3 (by rw [i1]; exact ⟨rfl, rfl, rfl⟩)
  -- the reader after the preparation: fresh screen, default rendition, iCE flag as the buffer's mode says
  have hcinv : CInv (decide (p.ice = .ice)) defaultAttr p.w (ansiRun (initial .ansi sauce).ansi (initial .ansi sauce).core (ansiPrep o p.ice)).1
      (ansiRun (initial .ansi sauce).ansi (initial .ansi sauce).core (ansiPrep o p.ice)).2 := by
    rw [c1]
    by_cases him : p.ice = .ice
    · rw [if_pos him]
      exact ⟨i2, c2, by simp [him], i4, by show (initial .ansi sauce).core.scr.w = p.w; rw [i1]; rfl, i6⟩
    · rw [if_neg him]
      have hci : (initial .ansi sauce).core.caretIce = false := by
        cases hq : (initial .ansi sauce).core.caretIce with
        | false => rfl
        | true => exact absurd (i5 hq) him
      exact ⟨i2, c2, by simp [him, hci], i4, by rw [i1]; rfl, i6⟩
  have hscr1 : (ansiRun (initial .ansi sauce).ansi (initial .ansi sauce).core (ansiPrep o p.ice)).2.scr = freshScreen p.w H := by
    rw [c1]; split <;> exact i1
  have hfin : ∃ irows, RowsOk o p.w p.rows irows ∧ (run .ansi (initial .ansi sauce) (writeAnsi o p)).core.stuck = false ∧
      (finish .ansi (run .ansi (initial .ansi sauce) (writeAnsi o p))).w = p.w ∧
      (finish .ansi (run .ansi (initial .ansi sauce) (writeAnsi o p))).stuck = (run .ansi (initial .ansi sauce) (writeAnsi o p)).core.stuck ∧
      ∀ x y, x < p.w →
        ((finish .ansi (run .ansi (initial .ansi sauce) (writeAnsi o p))).cellAt x y = foldBold (itemsShown irows x y) ∨
         ((finish .ansi (run .ansi (initial .ansi sauce) (writeAnsi o p))).cellAt x y = invisibleCell ∧ itemsShown irows x y = defaultCell)) := by
    cases hl : o.longerTerminalOutput with
    | false =>
      obtain ⟨irows, R1, R2, R3, R4⟩ := rows_comp o p.ice (decide (p.ice = .ice)) rfl p.w p.rows.length (by omega) (by omega) hl p.rows
        ansiState0 defaultAttr 0 true _ _ hfull hdom (relS_initial _) hcinv (fun _ => by rw [hscr1]; rfl) (by omega)
      -- the reader is in its ground state after the rows (needed to read the closing iCE switch)
      have hrun : (run .ansi (initial .ansi sauce) (writeAnsi o p)).core.scr = picItems p.w irows (freshScreen p.w H) ∧
          (run .ansi (initial .ansi sauce) (writeAnsi o p)).core.stuck = false := by
        rw [run_ansi_eq, hbytes, ansiRun_append, ansiRun_append]
        obtain ⟨e1, e2⟩ := ansi_end_core p.ice _ _ R3 R4
        exact ⟨by show (ansiRun _ _ (ansiEnd p.ice)).2.scr = _; rw [e1, R2, hscr1], e2⟩
      obtain ⟨hrun, hstuck⟩ := hrun
      have hfits := R1.fits (by omega) hfull
      obtain ⟨F1, F2, F3⟩ := finish_items .ansi (by decide) _ p.w H irows (by omega) (by omega) hfits hrun
      exact ⟨irows, R1, hstuck, F1, F2, F3⟩
    | true =>
      obtain ⟨irows, R1, R2, R3, R4⟩ := rows_longer o p.ice (decide (p.ice = .ice)) rfl p.w p.rows.length (by omega) (by omega) (hlh hl) hl p.rows
        ansiState0 defaultAttr 0 true _ _ hfull hdom (relS_initial _) hcinv (fun _ => rfl) (by omega)
      have hrun : (run .ansi (initial .ansi sauce) (writeAnsi o p)).core.scr = picItemsL irows 0 (freshScreen p.w H) ∧
          (run .ansi (initial .ansi sauce) (writeAnsi o p)).core.stuck = false := by
        rw [run_ansi_eq, hbytes, ansiRun_append, ansiRun_append]
        obtain ⟨e1, e2⟩ := ansi_end_core p.ice _ _ R3 R4
        exact ⟨by show (ansiRun _ _ (ansiEnd p.ice)).2.scr = _; rw [e1, R2, hscr1], e2⟩
      obtain ⟨hrun, hstuck⟩ := hrun
      have hfits := R1.fits (by omega) hfull
      obtain ⟨F1, F2, F3⟩ := finish_itemsL .ansi (by decide) _ p.w H irows (by omega) (by omega) hfits hrun
      exact ⟨irows, R1, hstuck, F1, F2, F3⟩
  obtain ⟨irows, R1, hstuck, F1, F2, F3⟩ := hfin
  rw [hload]
  refine ⟨by rw [F2]; exact hstuck, F1, ?_⟩
  intro x y hx hy
  have hrow : p.rows.getD y [] ∈ p.rows := mem_of_getD_lt hy
  have hrl : (p.rows.getD y []).length = p.w := hfull _ hrow
  obtain ⟨G1, G2⟩ := R1.get y hy
  obtain ⟨l1, l2, l3⟩ := ansiRowLen_spec o p.w (by omega) (p.rows.getD y [])
  have hcellmem : (p.rows.getD y []).getD x defaultCell ∈ p.rows.getD y [] := mem_of_getD_lt (by omega)
  have hcd : CellDom o (decide (p.ice = .ice)) (p.get x y) := hdom _ hrow _ hcellmem
  -- what the layer shows at (x, y), by cases: printed, skipped, trimmed
  have hshown : itemsShown irows x y = prImg (p.get x y) ∨ (itemsShown irows x y = defaultCell ∧ TrimCell (p.get x y)) := by
    unfold itemsShown
    rw [R1.length_eq]
    by_cases hxl : x < ansiRowLen o dosPalette p.w (p.rows.getD y [])
    · have hc : y < p.rows.length ∧ x < (irows.getD y []).length := ⟨hy, by rw [G1]; exact hxl⟩
      rw [if_pos hc]
      have htl : ((p.rows.getD y []).take (ansiRowLen o dosPalette p.w (p.rows.getD y []))).length = ansiRowLen o dosPalette p.w (p.rows.getD y []) := by
        rw [List.length_take, hrl]; omega
      have hget : ((p.rows.getD y []).take (ansiRowLen o dosPalette p.w (p.rows.getD y []))).getD x defaultCell = p.get x y := by
        show ((p.rows.getD y []).take (ansiRowLen o dosPalette p.w (p.rows.getD y []))).getD x defaultCell = (p.rows.getD y []).getD x defaultCell
        rw [List.getD_eq_getElem?_getD, List.getElem?_take, if_pos hxl, ← List.getD_eq_getElem?_getD]
      rcases G2 x (by rw [htl]; exact hxl) with h | ⟨h1, h2, _⟩
      · left
        rw [h, hget]
        show shown (prImg (p.get x y)) = _
        apply shown_of_visible
        simp [prImg, printedAttr, Cell.isVisible, hcd.1.2.2.2]
      · right
        rw [h1, hget] at *
        exact ⟨rfl, skip_trim (by rw [← hget]; exact h2)⟩
    · have hc : ¬ (y < p.rows.length ∧ x < (irows.getD y []).length) := by
        intro ⟨_, h2⟩; rw [G1] at h2; exact hxl h2
      rw [if_neg hc]
      right
      refine ⟨rfl, ?_⟩
      rcases l3 with e | ⟨_, ht⟩
      · omega
      · exact ht x (by omega) (by omega)
  rcases F3 x y hx with e | ⟨e1, e2⟩
  · rw [e]
    rcases hshown with h | ⟨h, ht⟩
    · rw [h]
      have : foldBold (prImg (p.get x y)) = ansiImg (p.get x y) := by
        have := foldBold_prImg _ (p.get x y) hcd.1
        rw [shown_of_visible (by simp [prImg, printedAttr, Cell.isVisible, hcd.1.2.2.2])] at this
        exact this
      rw [this]; exact showEq_img _
    · rw [h, foldBold_default]; exact showEq_blank _ _ ht (Or.inl rfl)
  · rw [e1]
    rcases hshown with h | ⟨_, ht⟩
    · -- the cell was printed, yet its row was cropped: then it was printed as a default blank
      rw [e2] at h
      have hpc : prImg (p.get x y) = defaultCell := h.symm
      have hch : (p.get x y).ch = 32 := congrArg Cell.ch hpc
      have hbg : (p.get x y).attr.bg = 0 := congrArg (fun c => c.attr.bg) hpc
      have hbl : (p.get x y).attr.fl.blink = false := congrArg (fun c => c.attr.fl.blink) hpc
      exact showEq_blank _ _ ⟨Or.inl hch, hbg, hbl⟩ (Or.inr rfl)
    · exact showEq_blank _ _ ht (Or.inr rfl)

/-! ### ALL colours: custom palettes, xterm-256, 24-bit, bright backgrounds in every ice mode (`ansi_rt_partial₄`) -/

/-- what C04 compares, in colours: the saved cell `c` seen through the picture's palette `pal` and the loaded cell `l` seen
    through the loaded palette `Lpal` show the same — the same character (NUL, space and 0xFF are the same blank glyph),
    the same displayed foreground RGB unless the glyph is blank (bold low colour = bright colour), the same background
    RGB, the same blink state.  `getRgb` is `Palette::get_rgb`. -/
def ShowEqX (pal Lpal : List Rgb) (c l : Cell) : Prop :=
  (l.ch = c.ch ∨ (Blank c.ch ∧ l.ch = 32)) ∧ (¬ Blank c.ch → getRgb Lpal (dispFg l.attr) = getRgb pal (dispFg c.attr)) ∧
  getRgb Lpal l.attr.bg = getRgb pal c.attr.bg ∧ l.attr.fl.blink = c.attr.fl.blink

/-- every cell of the picture is shown by the loaded picture, each through its own palette -/
def ShowsEqX (L : Loaded) (p : Pic) : Prop :=
  L.stuck = false ∧ L.w = p.w ∧ ∀ x y, x < p.w → y < p.rows.length → ShowEqX p.pal L.pal (p.get x y) (L.cellAt x y)

theorem showEqX_of_disp {pal P : List Rgb} {c l l' : Cell} (h : Disp pal P c l) (hlen : P.length ≤ 2147483648)
    (e1 : l'.ch = l.ch) (e2 : l'.attr.fg = l.attr.fg) (e3 : l'.attr.bg = l.attr.bg) (e4 : l'.attr.fl.bold = l.attr.fl.bold)
    (e5 : l'.attr.fl.blink = l.attr.fl.blink) : ShowEqX pal P c l' := by
  obtain ⟨h1, _, h3, h4, h5, h6, h7⟩ := h
  have ed : dispFg l'.attr = dispFg l.attr := by unfold dispFg; rw [e2, e4]
  refine ⟨Or.inl (by rw [e1, h1]), fun _ => ?_, ?_, by rw [e5, h7]⟩
  · rw [ed, getRgb_eq_pget _ _ (by omega), h5]
  · rw [e3, getRgb_eq_pget _ _ (by omega), h6]

theorem showEqX_blank {pal P : List Rgb} {c l : Cell} (ht : TrimCellX pal c) (hp : DosPre P) (hl : l = defaultCell ∨ l = invisibleCell) :
    ShowEqX pal P c l := by
  obtain ⟨h1, h2, h3⟩ := ht
  have hb : getRgb P 0 = (0, 0, 0) := by
    rw [getRgb_eq_pget _ _ (by omega), hp.get (by omega)]; decide
  rcases hl with e | e <;> subst e
  · exact ⟨Or.inr ⟨h1, rfl⟩, fun hn => absurd h1 hn, by rw [h2]; exact hb, h3.symm⟩
  · exact ⟨Or.inr ⟨h1, rfl⟩, fun hn => absurd h1 hn, by rw [h2]; exact hb, h3.symm⟩

theorem initial_pal (sauce : Option Sauce) : (initial .ansi sauce).core.pal = dosPalette := by
  cases sauce <;> rfl

theorem ansi_end_pal (im : IceMode) (p : AnsiP) (core : Core) (ns : core.stuck = false) (ag : p.st = .ground) :
    (ansiRun p core (ansiEnd im)).2.pal = core.pal := by
  unfold ansiEnd
  by_cases him : im = .ice
  · rw [if_pos him]
    have e : ansiRun p core [27, 91, 63, 51, 51, 108] = ({ p with st := .ground }, { core with caretIce := false }) := by
      simp [ansiRun, ansiStep, ns, ag, isDigit, numsDigit, parseNextNumber, i32Max]
    rw [e]
  · rw [if_neg him]; rfl

theorem relX_initial (ic : Bool) : RelX ic ansiState0.isBlink ansiState0 defaultAttr dosPalette :=
  relX_default ic ansiState0 dosPalette dosPre_refl

/-- **C04, fourth theorem**: as the third, for ALL colours a buffer can hold.  The picture's palette is arbitrary (any
    number of entries, the 16 base colours may have been replaced), every cell's foreground and background are arbitrary
    colour indices resolved through it (`Palette::get_rgb`: out of range = black), so xterm-256 colours (`38;5;n` /
    `48;5;n` with extended colours), any other RGB value (`CSI 1/0;r;g;b t`) and bright backgrounds in blink / unlimited
    mode are covered, with extended colours on or off, under every combination of compression, cursor forward, repeat
    sequences, preserved line length and longer-terminal positioning, every screen preparation and control-character mode,
    in all three ice modes (in iCE mode cells do not blink).  Conclusion: every cell is shown by the loaded picture with
    the same displayed RGB values, each picture seen through its own palette. -/
theorem ansi_rt_partial₄ (o : AnsiOpts) (p : Pic) (sauce : Option Sauce) (hs : SauceFits sauce p)
    (hlh : o.longerTerminalOutput = true → p.rows.length ≤ 999) (hrows : p.rows.length ≤ 1000000)
    (hpal : PalBytes p.pal) (hfull : Pic.Full p) (hdom : p.AllCells (CellDomX o (decide (p.ice = .ice))))
    (hbom : bomPrefixed (writeAnsi o p) = false) :
    ShowsEqX (load .ansi sauce (writeAnsi o p)) p := by
  obtain ⟨H, i1, i2, i3, i4, i5, i6, hw1, hw2⟩ := initial_ansi sauce p hs
  have hpad : (p.rows.map fun r => r ++ List.replicate (p.w - r.length) defaultCell) = p.rows := by
    have : ∀ r ∈ p.rows, r ++ List.replicate (p.w - r.length) defaultCell = r := by
      intro r hr; rw [hfull r hr]; simp
    calc (p.rows.map fun r => r ++ List.replicate (p.w - r.length) defaultCell) = p.rows.map id :=
          List.map_congr_left this
      _ = p.rows := List.map_id _
  have hbytes : writeAnsi o p = ansiPrep o p.ice ++ genLines o p.w p.rows.length (genCells o p.pal p.ice p.w p.rows ansiState0) 0 true
      ++ ansiEnd p.ice := by
    unfold writeAnsi
    simp only [hpad]
  have hload : load .ansi sauce (writeAnsi o p) = finish .ansi (run .ansi (initial .ansi sauce) (writeAnsi o p)) := by
    unfold load; rw [if_neg (by decide), convertText_of_noBom hbom]
  obtain ⟨c1, c2⟩ := ansi_prep_core o p.ice (initial .ansi sauce).ansi (initial .ansi sauce).core i2 i3 (by rw [i1]; exact ⟨rfl, rfl, rfl⟩)
  have hpal1 : (ansiRun (initial .ansi sauce).ansi (initial .ansi sauce).core (ansiPrep o p.ice)).2.pal = dosPalette := by
    rw [c1]; split <;> exact initial_pal sauce
  have hcinv : CInvX (decide (p.ice = .ice)) (defaultAttr, dosPalette) p.w (ansiRun (initial .ansi sauce).ansi (initial .ansi sauce).core (ansiPrep o p.ice)).1
      (ansiRun (initial .ansi sauce).ansi (initial .ansi sauce).core (ansiPrep o p.ice)).2 := by
    refine ⟨?_, hpal1⟩
    rw [c1]
    by_cases him : p.ice = .ice
    · rw [if_pos him]
      exact ⟨i2, c2, by simp [him], i4, by show (initial .ansi sauce).core.scr.w = p.w; rw [i1]; rfl, i6⟩
    · rw [if_neg him]
      have hci : (initial .ansi sauce).core.caretIce = false := by
        cases hq : (initial .ansi sauce).core.caretIce with
        | false => rfl
        | true => exact absurd (i5 hq) him
      exact ⟨i2, c2, by simp [him, hci], i4, by rw [i1]; rfl, i6⟩
  have hscr1 : (ansiRun (initial .ansi sauce).ansi (initial .ansi sauce).core (ansiPrep o p.ice)).2.scr = freshScreen p.w H := by
    rw [c1]; split <;> exact i1
  have hfin : ∃ (irows : List (List (Option Cell))) (Pf : List Rgb), RowsOkX o p.pal Pf p.w p.rows irows ∧ DosPre Pf ∧
      Pf.length ≤ 16 + 2 * p.w * p.rows.length ∧
      (run .ansi (initial .ansi sauce) (writeAnsi o p)).core.stuck = false ∧
      (finish .ansi (run .ansi (initial .ansi sauce) (writeAnsi o p))).pal = Pf ∧
      (finish .ansi (run .ansi (initial .ansi sauce) (writeAnsi o p))).w = p.w ∧
      (finish .ansi (run .ansi (initial .ansi sauce) (writeAnsi o p))).stuck = (run .ansi (initial .ansi sauce) (writeAnsi o p)).core.stuck ∧
      ∀ x y, x < p.w →
        ((finish .ansi (run .ansi (initial .ansi sauce) (writeAnsi o p))).cellAt x y = foldBold (itemsShown irows x y) ∨
         ((finish .ansi (run .ansi (initial .ansi sauce) (writeAnsi o p))).cellAt x y = invisibleCell ∧ itemsShown irows x y = defaultCell)) := by
    have hfp : ∀ rs : RS, (finish .ansi rs).pal = rs.core.pal := by
      intro rs; unfold finish; rw [if_neg (by decide)]
    cases hl : o.longerTerminalOutput with
    | false =>
      obtain ⟨irows, Rf, R1, Rp, Rl, R2, R3, Rpal, R4⟩ := rows_compX o p.pal hpal p.ice (decide (p.ice = .ice)) rfl p.w p.rows.length (by omega) (by omega) hl p.rows
        ansiState0 (defaultAttr, dosPalette) 0 true _ _ hfull hdom (relX_initial _) hcinv (fun _ => by rw [hscr1]; rfl) (by omega)
      have hrun : (run .ansi (initial .ansi sauce) (writeAnsi o p)).core.scr = picItems p.w irows (freshScreen p.w H) ∧
          (run .ansi (initial .ansi sauce) (writeAnsi o p)).core.stuck = false ∧
          (run .ansi (initial .ansi sauce) (writeAnsi o p)).core.pal = Rf.2 := by
        rw [run_ansi_eq, hbytes, ansiRun_append, ansiRun_append]
        obtain ⟨e1, e2⟩ := ansi_end_core p.ice _ _ R3 R4
        have e3 := ansi_end_pal p.ice _ _ R3 R4
        exact ⟨by show (ansiRun _ _ (ansiEnd p.ice)).2.scr = _; rw [e1, R2, hscr1], e2, by show (ansiRun _ _ (ansiEnd p.ice)).2.pal = _; rw [e3, Rpal]⟩
      obtain ⟨hrun, hstuck, hrpal⟩ := hrun
      have hfits := R1.fits (by omega) hfull
      obtain ⟨F1, F2, F3⟩ := finish_items .ansi (by decide) _ p.w H irows (by omega) (by omega) hfits hrun
      refine ⟨irows, Rf.2, R1, DosPre.mono dosPre_refl Rp, ?_, hstuck, by rw [hfp, hrpal], F1, F2, F3⟩
      have : ([] ++ dosPalette : List Rgb).length = 16 := by decide
      have h16 : (defaultAttr, dosPalette).2.length = 16 := by decide
      rw [h16] at Rl; exact Rl
    | true =>
      obtain ⟨irows, Rf, R1, Rp, Rl, R2, R3, Rpal, R4⟩ := rows_longerX o p.pal hpal p.ice (decide (p.ice = .ice)) rfl p.w p.rows.length (by omega) (by omega) (hlh hl) hl p.rows
        ansiState0 (defaultAttr, dosPalette) 0 true _ _ hfull hdom (relX_initial _) hcinv (fun _ => rfl) (by omega)
      have hrun : (run .ansi (initial .ansi sauce) (writeAnsi o p)).core.scr = picItemsL irows 0 (freshScreen p.w H) ∧
          (run .ansi (initial .ansi sauce) (writeAnsi o p)).core.stuck = false ∧
          (run .ansi (initial .ansi sauce) (writeAnsi o p)).core.pal = Rf.2 := by
        rw [run_ansi_eq, hbytes, ansiRun_append, ansiRun_append]
        obtain ⟨e1, e2⟩ := ansi_end_core p.ice _ _ R3 R4
        have e3 := ansi_end_pal p.ice _ _ R3 R4
        exact ⟨by show (ansiRun _ _ (ansiEnd p.ice)).2.scr = _; rw [e1, R2, hscr1], e2, by show (ansiRun _ _ (ansiEnd p.ice)).2.pal = _; rw [e3, Rpal]⟩
      obtain ⟨hrun, hstuck, hrpal⟩ := hrun
      have hfits := R1.fits (by omega) hfull
      obtain ⟨F1, F2, F3⟩ := finish_itemsL .ansi (by decide) _ p.w H irows (by omega) (by omega) hfits hrun
      refine ⟨irows, Rf.2, R1, DosPre.mono dosPre_refl Rp, ?_, hstuck, by rw [hfp, hrpal], F1, F2, F3⟩
      have h16 : (defaultAttr, dosPalette).2.length = 16 := by decide
      rw [h16] at Rl; exact Rl
  obtain ⟨irows, Pf, R1, hdp, hlen, hstuck, hLpal, F1, F2, F3⟩ := hfin
  -- the loaded palette is far below 2^31 entries: its indices are palette indices for `get_rgb`
  have hbig : Pf.length ≤ 2147483648 := by
    have h1 : 2 * p.w * p.rows.length ≤ 2 * 132 * 1000000 := Nat.mul_le_mul (Nat.mul_le_mul_left 2 hw2) hrows
    omega
  rw [hload]
  refine ⟨by rw [F2]; exact hstuck, F1, ?_⟩
  intro x y hx hy
  rw [hLpal]
  have hrow : p.rows.getD y [] ∈ p.rows := mem_of_getD_lt hy
  have hrl : (p.rows.getD y []).length = p.w := hfull _ hrow
  obtain ⟨G1, G2⟩ := R1.get y hy
  obtain ⟨l1, l2, l3⟩ := ansiRowLen_specX o p.pal p.w (by omega) (p.rows.getD y [])
  -- what the layer shows at (x, y), by cases: printed, skipped, trimmed
  have hshown : (∃ l, itemsShown irows x y = l ∧ Disp p.pal Pf (p.get x y) l) ∨ (itemsShown irows x y = defaultCell ∧ TrimCellX p.pal (p.get x y)) := by
    unfold itemsShown
    rw [R1.length_eq]
    by_cases hxl : x < ansiRowLen o p.pal p.w (p.rows.getD y [])
    · have hc : y < p.rows.length ∧ x < (irows.getD y []).length := ⟨hy, by rw [G1]; exact hxl⟩
      rw [if_pos hc]
      have htl : ((p.rows.getD y []).take (ansiRowLen o p.pal p.w (p.rows.getD y []))).length = ansiRowLen o p.pal p.w (p.rows.getD y []) := by
        rw [List.length_take, hrl]; omega
      have hget : ((p.rows.getD y []).take (ansiRowLen o p.pal p.w (p.rows.getD y []))).getD x defaultCell = p.get x y := by
        show ((p.rows.getD y []).take (ansiRowLen o p.pal p.w (p.rows.getD y []))).getD x defaultCell = (p.rows.getD y []).getD x defaultCell
        rw [List.getD_eq_getElem?_getD, List.getElem?_take, if_pos hxl, ← List.getD_eq_getElem?_getD]
      rcases G2 x (by rw [htl]; exact hxl) with ⟨l, h, hd⟩ | ⟨h1, h2, _⟩
      · left
        rw [h, hget] at *
        refine ⟨l, ?_, hd⟩
        show shown l = l
        apply shown_of_visible
        unfold Cell.isVisible; rw [hd.vis]; rfl
      · right
        rw [h1, hget] at *
        exact ⟨rfl, skip_trimX h2⟩
    · have hc : ¬ (y < p.rows.length ∧ x < (irows.getD y []).length) := by
        intro ⟨_, h2⟩; rw [G1] at h2; exact hxl h2
      rw [if_neg hc]
      right
      refine ⟨rfl, ?_⟩
      rcases l3 with e | ⟨_, ht⟩
      · omega
      · exact ht x (by omega) (by omega)
  rcases F3 x y hx with e | ⟨e1, e2⟩
  · rw [e]
    rcases hshown with ⟨l, h, hd⟩ | ⟨h, ht⟩
    · rw [h]
      exact showEqX_of_disp hd.fold hbig rfl rfl rfl rfl rfl
    · rw [h, foldBold_default]; exact showEqX_blank ht hdp (Or.inl rfl)
  · rw [e1]
    rcases hshown with ⟨l, h, hd⟩ | ⟨_, ht⟩
    · -- the cell was printed, yet its row was cropped: then it was printed as a default blank
      rw [e2] at h
      subst h
      exact showEqX_of_disp hd hbig rfl rfl rfl rfl rfl
    · exact showEqX_blank ht hdp (Or.inr rfl)

/-- the simulation step the theorem rests on, restated here so that the axiom audit covers it: after the SGR parameters
    `get_color` emits for a cell the reader's attribute is the cell's rendition, the new writer state is again related
    to it, every parameter is one the reader accepts, and no 24-bit colour command is needed -/
theorem sgr_sync_16 (o : AnsiOpts) (im : IceMode) (attr : Attr) (ha : Attr16 (decide (im = .ice)) attr) (st : AnsiState) (A0 : Attr)
    (h : RelS (decide (im = .ice)) st.isBlink st A0) :
    (getColor o dosPalette im attr st).2.2 = [] ∧ AllSimple (getColor o dosPalette im attr st).2.1 ∧
    RelS (decide (im = .ice)) (getColor o dosPalette im attr st).1.isBlink (getColor o dosPalette im attr st).1
      (sgrSimple A0 (getColor o dosPalette im attr st).2.1) ∧
    sgrSimple A0 (getColor o dosPalette im attr st).2.1 = caretAttr (decide (im = .ice)) attr :=
  sgr_sync o im attr ha st A0 h

/-- a control sequence with parameters below 1000 is read back with exactly these parameters -/
theorem csi_roundtrip (p : AnsiP) (c : Core) (ps : List Nat) (final : Nat) (hs : c.stuck = false) (hg : p.st = .ground)
    (hne : ps ≠ []) (hlt : ∀ n ∈ ps, n < 1000) :
    ansiRun p c (csi ps final) = ansiStep { p with st := .csi ps false } c final :=
  csi_read p c ps final hs hg hne hlt

/-- `subst_sound`: the line loop with RLE / cursor-forward / repeat substitution makes the reader perform one item per
    cell — the printed cell, or a skip over a cell that is a space on colour 0, not blinking, away from the margin -/
theorem subst_sound (o : AnsiOpts) (ic : Bool) (w : Nat) (hw : w ≤ 999) (fuel : Nat) (cells : List Cell) (line : List CharCell)
    (A : Attr) (x : Nat) (p : AnsiP) (core : Core) (h1 : line.length ≤ fuel) (h2 : LineOk o ic A cells line)
    (h3 : x + cells.length ≤ w) (h4 : CInv ic A w p core) (h5 : cells ≠ [] → core.scr.cx = x) :
    ∃ items : List (Option Cell), items.length = cells.length ∧ ItemsOk x w cells items ∧
      (ansiRun p core (genLine o w fuel x line)).2.scr = core.scr.runItems items ∧
      CInv ic (lastAttr ic A cells) w (ansiRun p core (genLine o w fuel x line)).1 (ansiRun p core (genLine o w fuel x line)).2 :=
  genLine_items o ic w hw fuel cells line A x p core h1 h2 h3 h4 h5

/-- `trim_sound`: what `generate_cells` drops at the end of a row -/
theorem trim_sound (o : AnsiOpts) (w : Nat) (hw : 0 < w) (row : List Cell) :
    1 ≤ ansiRowLen o dosPalette w row ∧ ansiRowLen o dosPalette w row ≤ w ∧
    (ansiRowLen o dosPalette w row = w ∨
      (ansiRowLen o dosPalette w row + 2 ≤ w ∧ ∀ i, ansiRowLen o dosPalette w row ≤ i → i < w → TrimCell (row.getD i defaultCell))) :=
  ansiRowLen_spec o w hw row

/-- `sgr_sync` for all colours, restated here so that the axiom audit covers it: after everything `get_color` emits for a
    cell (SGR parameters incl. `38;5;n` / `48;5;n`, 24-bit commands) the reader — `rdPre` = `select_graphic_rendition`
    followed by `select_24bit_color`, acting on caret attribute and palette — is again in step with the writer's state
    (`RelX`: the reader's colour indices resolve, in ITS palette, to the colours the state records), the state records the
    cell's displayed colours, the palette only grew (by at most two entries) and every parameter is below 1000 -/
theorem sgr_sync_all (o : AnsiOpts) (pal : List Rgb) (hpal : PalBytes pal) (im : IceMode) (attr : Attr)
    (ha : AttrX (decide (im = .ice)) attr) (st : AnsiState) (A0 : Attr) (P0 : List Rgb)
    (h : RelX (decide (im = .ice)) st.isBlink st A0 P0) :
    SyncX (decide (im = .ice)) pal attr P0 (getColor o pal im attr st)
      (rdPre (A0, P0) (getColor o pal im attr st).2.1 (getColor o pal im attr st).2.2) :=
  sgr_syncX o pal hpal im attr ha st A0 P0 h

/-- the palette lemma the colour round trip rests on: `Palette::insert_color` returns an index inside the (possibly
    extended) palette that resolves to the inserted colour, the old entries keep their positions, at most one entry is added -/
theorem insert_resolves (P : List Rgb) (c : Rgb) :
    (insertColor P c).2 < (insertColor P c).1.length ∧ pget (insertColor P c).1 (insertColor P c).2 = c ∧
    P <+: (insertColor P c).1 ∧ (insertColor P c).1.length ≤ P.length + 1 :=
  ⟨insertColor_lt P c, insertColor_get P c, insertColor_prefix P c, insertColor_len P c⟩

/-- the writer's xterm-256 lookup (a hash map filled from the regenerated `XTERM_256_PALETTE`) only ever returns a table
    index 0..=255 whose entry is exactly the colour asked for — so the reader's `XTERM_256_PALETTE[n]` is that colour -/
theorem xterm_lookup_sound (useExt : Bool) (c : Rgb) (e : Nat) (h : xtermIndex useExt c = some e) :
    e ≤ 255 ∧ xtermPalette.getD e (0, 0, 0) = c :=
  xtermIndex_spec useExt c e h

/-- `subst_sound` for all colours: the line loop with RLE / cursor-forward / repeat substitution makes the reader perform one
    item per cell — a printed cell that SHOWS what the saved cell shows (`Disp`), or a skip over a space on a black
    background that does not blink, away from the margin -/
theorem subst_sound_all (o : AnsiOpts) (ic : Bool) (pal : List Rgb) (w : Nat) (hw : w ≤ 999) (fuel : Nat) (cells : List Cell)
    (line : List CharCell) (R Re : RdSt) (x : Nat) (p : AnsiP) (core : Core) (h1 : line.length ≤ fuel)
    (h2 : LineOkX o ic pal R cells line Re) (h3 : x + cells.length ≤ w) (h4 : CInvX ic R w p core) (h5 : cells ≠ [] → core.scr.cx = x) :
    ∃ items : List (Option Cell), items.length = cells.length ∧ ItemsOkX pal Re.2 x w cells items ∧
      (ansiRun p core (genLine o w fuel x line)).2.scr = core.scr.runItems items ∧
      CInvX ic Re w (ansiRun p core (genLine o w fuel x line)).1 (ansiRun p core (genLine o w fuel x line)).2 :=
  genLine_itemsX o ic pal w hw fuel cells line R Re x p core h1 h2 h3 h4 h5

/-- `trim_sound` on an arbitrary palette: what `generate_cells` drops at the end of a row is blank, on a BLACK background
    (colour 0 of a palette whose colour 0 is black) and does not blink -/
theorem trim_sound_all (o : AnsiOpts) (pal : List Rgb) (w : Nat) (hw : 0 < w) (row : List Cell) :
    1 ≤ ansiRowLen o pal w row ∧ ansiRowLen o pal w row ≤ w ∧
    (ansiRowLen o pal w row = w ∨
      (ansiRowLen o pal w row + 2 ≤ w ∧ ∀ i, ansiRowLen o pal w row ≤ i → i < w → TrimCellX pal (row.getD i defaultCell))) :=
  ansiRowLen_specX o pal w hw row

/-! ### non-vacuity -/

/-- two full rows: bright / bold / blinking / underlined cells, a control character (IcyTerm handling) -/
def demoRow0 : List Cell :=
  [⟨65, ⟨12, 1, { blink := true }⟩⟩, ⟨66, ⟨4, 1, { bold := true, underline := true }⟩⟩, ⟨27, ⟨7, 0, {}⟩⟩] ++
    List.replicate 77 ⟨32, ⟨3, 0, {}⟩⟩
def demoRow1 : List Cell := List.replicate 80 ⟨219, ⟨15, 7, { conceal := true, crossed := true }⟩⟩
def demoPic : Pic := { w := 80, rows := [demoRow0, demoRow1], ice := .unlimited, pal := dosPalette }
def demoOpts : AnsiOpts := { compress := false, ctrl := .icyTerm, prep := .clear }

example : demoPic.w = 80 ∧ demoOpts.compress = false ∧ demoOpts.longerTerminalOutput = false ∧ demoPic.ice ≠ .ice ∧
    demoPic.pal = dosPalette ∧ Pic.Full demoPic ∧ demoPic.rows ≠ [] ∧ demoPic.AllCells (CellDom demoOpts false) ∧
    bomPrefixed (writeAnsi demoOpts demoPic) = false := by
  refine ⟨rfl, rfl, rfl, by decide, rfl, ?_, by decide, ?_, ?_⟩
  · unfold Pic.Full; decide +kernel
  · simp only [Pic.AllCells, CellDom, Attr16, EncDom, demoOpts, and_true]; decide +kernel
  · decide +kernel

/-- the same picture under the default options (compression and cursor forward on) satisfies the hypotheses of the third
    theorem; the 77 trailing cyan-on-black spaces of row 0 are written as nothing at all -/
example : (({} : AnsiOpts).longerTerminalOutput = true → demoPic.rows.length ≤ 999) ∧ demoPic.AllCells (CellDom { ctrl := .icyTerm } (decide (demoPic.ice = .ice))) ∧
    bomPrefixed (writeAnsi { ctrl := .icyTerm } demoPic) = false ∧ (writeAnsi { ctrl := .icyTerm } demoPic).length < 200 := by
  refine ⟨fun _ => by decide, ?_, ?_, ?_⟩
  · simp only [Pic.AllCells, CellDom, Attr16, EncDom, and_true]; decide +kernel
  · decide +kernel
  · decide +kernel

/-- longer-terminal output of the same picture: `ESC[0m ESC[1H` row 0 `ESC[2H` row 1, no line break -/
example : (writeAnsi { longerTerminalOutput := true, ctrl := .icyTerm } demoPic).take 8 = [27, 91, 48, 109, 27, 91, 49, 72] ∧
    ¬ (13 ∈ writeAnsi { longerTerminalOutput := true, ctrl := .icyTerm } demoPic) ∧
    (load .ansi none (writeAnsi { longerTerminalOutput := true, ctrl := .icyTerm } demoPic)).cellAt 79 1 = ⟨219, ⟨15, 7, { conceal := true, crossed := true }⟩⟩ := by
  refine ⟨?_, ?_, ?_⟩ <;> decide +kernel

/-- an iCE-mode picture (bright backgrounds 9 and 15) under the default options, with SAUCE carrying width 40 -/
def icePic : Pic :=
  { w := 40, rows := [[⟨65, ⟨15, 9, {}⟩⟩, ⟨32, ⟨7, 15, {}⟩⟩, ⟨66, ⟨0, 1, {}⟩⟩] ++ List.replicate 37 defaultCell,
                      List.replicate 40 ⟨219, ⟨12, 8, { bold := true }⟩⟩], ice := .ice, pal := dosPalette }

example : SauceFits (some ⟨40, 2, true⟩) icePic ∧ Pic.Full icePic ∧ icePic.AllCells (CellDom {} (decide (icePic.ice = .ice))) ∧
    bomPrefixed (writeAnsi {} icePic) = false ∧
    (load .ansi (some ⟨40, 2, true⟩) (writeAnsi {} icePic)).cellAt 1 0 = ⟨32, ⟨7, 15, {}⟩⟩ := by
  refine ⟨Or.inr ⟨2, rfl, by decide, by decide, by decide⟩, ?_, ?_, ?_, ?_⟩
  · unfold Pic.Full; decide +kernel
  · simp only [Pic.AllCells, CellDom, Attr16, EncDom, AnsiPrintable]; decide +kernel
  · decide +kernel
  · decide +kernel

/-- the bold low colour of the second cell is written as `1;…;31` and comes back as colour 12 without the bold flag -/
example : (load .ansi none (writeAnsi demoOpts demoPic)).cellAt 1 0 = ⟨66, ⟨12, 1, { underline := true }⟩⟩ := by
  decide +kernel

/-- a picture for the fourth theorem: a CUSTOM base palette (slot 3 holds DOS red, slot 0 stays black), two extra palette
    entries (xterm-256 colour 255 and an RGB value in no table); cells: the custom slot, a bright colour right after it,
    a blinking cell on a bright background outside iCE mode with the xterm colour, a bold cell with the RGB colour on the
    xterm colour, then blanks -/
def xPal : List Rgb := (dosPalette.set 3 (170, 0, 0)) ++ [(238, 238, 238), (1, 2, 3)]
def xRow : List Cell :=
  [⟨65, ⟨3, 0, {}⟩⟩, ⟨66, ⟨11, 0, {}⟩⟩, ⟨67, ⟨16, 12, { blink := true }⟩⟩, ⟨68, ⟨17, 16, { bold := true }⟩⟩] ++
    List.replicate 76 ⟨32, ⟨7, 0, {}⟩⟩
def xPic : Pic := { w := 80, rows := [xRow], ice := .unlimited, pal := xPal }

example : SauceFits none xPic ∧ (({} : AnsiOpts).longerTerminalOutput = true → xPic.rows.length ≤ 999) ∧ xPic.rows.length ≤ 1000000 ∧
    PalBytes xPic.pal ∧ Pic.Full xPic ∧ xPic.AllCells (CellDomX {} (decide (xPic.ice = .ice))) ∧
    bomPrefixed (writeAnsi {} xPic) = false := by
  refine ⟨Or.inl ⟨rfl, rfl⟩, fun _ => by decide, by decide, ?_, ?_, ?_, ?_⟩
  · unfold PalBytes; decide +kernel
  · unfold Pic.Full; decide +kernel
  · simp only [Pic.AllCells, CellDomX, AttrX, EncDom, AnsiPrintable]; decide +kernel
  · decide +kernel

/-- what is written for it: `ESC[31m A ESC[1;36m B ESC[0;5;38;5;255;48;5;12m C …` and a 24-bit command for (1,2,3); what
    comes back shows the same colours through the reader's own palette (DOS palette + the two inserted colours) -/
example : (writeAnsi {} xPic).take 14 = [27, 91, 51, 49, 109, 65, 27, 91, 49, 59, 51, 54, 109, 66] ∧
    (load .ansi none (writeAnsi {} xPic)).pal = dosPalette ++ [(238, 238, 238), (1, 2, 3)] ∧
    getRgb (load .ansi none (writeAnsi {} xPic)).pal (dispFg ((load .ansi none (writeAnsi {} xPic)).cellAt 0 0).attr) = (170, 0, 0) ∧
    getRgb (load .ansi none (writeAnsi {} xPic)).pal (dispFg ((load .ansi none (writeAnsi {} xPic)).cellAt 1 0).attr) = (85, 255, 255) ∧
    getRgb (load .ansi none (writeAnsi {} xPic)).pal (dispFg ((load .ansi none (writeAnsi {} xPic)).cellAt 2 0).attr) = (238, 238, 238) ∧
    getRgb (load .ansi none (writeAnsi {} xPic)).pal ((load .ansi none (writeAnsi {} xPic)).cellAt 2 0).attr.bg = (255, 85, 85) ∧
    ((load .ansi none (writeAnsi {} xPic)).cellAt 2 0).attr.fl.blink = true ∧
    getRgb (load .ansi none (writeAnsi {} xPic)).pal (dispFg ((load .ansi none (writeAnsi {} xPic)).cellAt 3 0).attr) = (1, 2, 3) ∧
    getRgb (load .ansi none (writeAnsi {} xPic)).pal ((load .ansi none (writeAnsi {} xPic)).cellAt 3 0).attr.bg = (238, 238, 238) := by
  refine ⟨?_, ?_, ?_, ?_, ?_, ?_, ?_, ?_, ?_⟩ <;> decide +kernel

/-- the same picture with extended colours switched off is written with 24-bit commands only (`CSI 1;238;238;238 t`) and
    satisfies the hypotheses as well -/
example : xPic.AllCells (CellDomX { useExtendedColors := false } (decide (xPic.ice = .ice))) ∧
    bomPrefixed (writeAnsi { useExtendedColors := false } xPic) = false ∧
    ¬ (38 ∈ ((writeAnsi { useExtendedColors := false } xPic).take 60)) := by
  refine ⟨?_, ?_, ?_⟩
  · simp only [Pic.AllCells, CellDomX, AttrX, EncDom, AnsiPrintable]; decide +kernel
  · decide +kernel
  · decide +kernel

/-- why `Ansi::to_bytes` guards its output (the former finding `ans:utf8-bom-prefix` at model level): the `StringGenerator`'s
    bytes for this picture start with EF BB BF and the loader reads them as UTF-8 -/
def bomPic : Pic :=
  { w := 80, rows := [[⟨239, defaultAttr⟩, ⟨187, defaultAttr⟩, ⟨191, defaultAttr⟩] ++ List.replicate 77 defaultCell], ice := .unlimited, pal := dosPalette }
theorem bom_counterexample :
    bomPrefixed (writeAnsi {} bomPic) = true ∧
    (load .ansi none (writeAnsi {} bomPic)).cellAt 0 0 = ⟨65279, defaultAttr⟩ ∧ bomPic.get 0 0 = ⟨239, defaultAttr⟩ := by
  refine ⟨?_, ?_, ?_⟩ <;> decide +kernel

end IcyVerif.C04
