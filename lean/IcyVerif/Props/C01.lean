import IcyVerif.Lemmas.TermWrap
import IcyVerif.Lemmas.TermOther
import IcyVerif.Lemmas.TermMusic
/-! # C01 — no byte stream can crash a terminal emulation
Theorems for all ten text-mode emulations on a terminal buffer with scrollback, after the repairs recorded in
`known_findings.txt`: the ANSI parser (CSI/ESC tables, DCS incl. macro definition/invocation and hex macros, OSC/APS
framing, the complete ANSI music machine of `sound.rs`), its four wrappers, and the five byte-oriented emulations.
The model represents every Rust panic it knows about as a `Panic` value: `clampMinMax` (`clamp` with min > max),
`negIndex` (a negative cursor coordinate or margin used as an index: insert-mode print, ECH, IL, DL and the
PETSCII / ATASCII line operations), and `overflow`, which the model raises *conservatively* whenever a plain `+`/`-`
on the cursor or the buffer height could leave `i32`, and for the one plain multiplication of `sound.rs`.

Outside the model (oracle run of `harness/src/c01.rs` only): what OSC execution, custom font loading and the sixel
decoder do; cell contents. -/
namespace IcyVerif.C01
open IcyVerif.Term

/-- no stream makes the model panic, except by exhausting `i32` row numbers -/
theorem no_panic_partial (w h : Int) (hw1 : 1 ≤ w) (hw2 : w ≤ 132) (hh1 : 1 ≤ h) (hh2 : h ≤ 60)
    (cfg : Cfg) (o : Nat → Orc) (bytes : List Char) (e : Panic)
    (hrun : run cfg o (initSt w h) bytes = .error e) : ∃ site, e = Panic.overflow site := by
  have hg := run_good cfg o bytes (initSt w h) (initSt_good w h hw1 hw2 hh1 hh2)
  rw [hrun] at hg
  exact hg

/-- the same for Avatar, PCBoard, Ctrl-A and Renegade -/
theorem no_panic_wrapped_partial (em : Emu) (w h : Int) (hw1 : 1 ≤ w) (hw2 : w ≤ 132) (hh1 : 1 ≤ h) (hh2 : h ≤ 60)
    (o : Nat → Orc) (bytes : List Char) (e : Panic)
    (hrun : wrun em o (initW w h) bytes = .error e) : ∃ site, e = Panic.overflow site := by
  have hg := wrun_good em o bytes (initW w h) (initSt_good w h hw1 hw2 hh1 hh2)
  rw [hrun] at hg
  exact hg

/-- the same for ASCII, ATASCII, PETSCII, Viewdata and Mode 7 -/
theorem no_panic_bytes_partial (em : Emu2) (w h : Int) (hw1 : 1 ≤ w) (hw2 : w ≤ 132) (hh1 : 1 ≤ h) (hh2 : h ≤ 60)
    (bytes : List Char) (e : Panic) (hrun : orun em (initO w h) bytes = .error e) : ∃ site, e = Panic.overflow site := by
  have hi := initO_good w h hw1 hw2 hh1 hh2
  have hg := orun_good em bytes (initO w h) hi.1 (fun _ => hi.2)
  rw [hrun] at hg
  exact hg

/-- PETSCII: `handle_reverse_mode` adds 0x80 to a `u8`; the stored byte is at most 0x7F, so it cannot overflow -/
theorem petscii_reverse_no_overflow : ∀ b, b < 256 → ∀ t, petsciiTch b = some t → t + 128 ≤ 255 := by decide +kernel

/-- …and that guard only fires once the scrollback has grown beyond 2^30 rows (tens of gigabytes of cells) -/
theorem overflow_guard_needs_2_30_rows (st : St) (hg : GoodSt st) (hb : st.s.bh ≤ 1073741000) :
    RangeOk st.s st.c := rangeOk_of_small st.s st.c hg.1 hg.2.1 hb

/-- after any character — also one that reported an error — the emulation is in a state from which every further
    character is again processed without panic ("keeps accepting further characters") -/
theorem errors_recoverable (cfg : Cfg) (o : Nat → Orc) (st st' : St) (ch : Char) (out : Out)
    (hg : GoodSt st) (hstep : step cfg o st ch = .ok (st', out)) (ch2 : Char) :
    match step cfg o st' ch2 with
    | .ok (st'', _) => GoodSt st''
    | .error e => ∃ site, e = Panic.overflow site := by
  have h := step_good cfg o st ch hg
  rw [hstep] at h
  have h2 := step_good cfg o st' ch2 h
  cases hs : step cfg o st' ch2 with
  | ok r => rw [hs] at h2; exact h2
  | error e => rw [hs] at h2; exact h2

/-- every reachable state satisfies the invariant (sizes and margins sane, cursor non-negative) -/
theorem reachable_good (w h : Int) (hw1 : 1 ≤ w) (hw2 : w ≤ 132) (hh1 : 1 ≤ h) (hh2 : h ≤ 60)
    (cfg : Cfg) (o : Nat → Orc) (bytes : List Char) (st : St)
    (hrun : run cfg o (initSt w h) bytes = .ok st) : GoodSt st := by
  have hg := run_good cfg o bytes (initSt w h) (initSt_good w h hw1 hw2 hh1 hh2)
  rw [hrun] at hg
  exact hg

/-- ANSI music (`sound.rs`): in every reachable state the music fields are in range — tempo 32..=255, octave 0..=6,
    default length 1..=64 — whatever digits the stream supplied -/
theorem music_fields_in_range (w h : Int) (cfg : Cfg) (o : Nat → Orc) (bytes : List Char) (st : St)
    (hrun : run cfg o (initSt w h) bytes = .ok st) :
    32 ≤ st.p.mus.tempo ∧ st.p.mus.tempo ≤ 255 ∧ st.p.mus.oct ≤ 6 ∧ 1 ≤ st.p.mus.mlen ∧ st.p.mus.mlen ≤ 64 := by
  have hm := run_mus cfg o bytes (initSt w h) st hrun musOk_init
  exact ⟨hm.t1, hm.t2, hm.o, hm.l1, hm.l2⟩

/-- …hence the only plain `i32` multiplication of `sound.rs` (`cur_tempo * pause`) cannot overflow: the music part
    of the step guard never fires, for any next character (what remains of the guard is `RangeOk`, see
    `overflow_guard_needs_2_30_rows`) -/
theorem music_arith_safe (w h : Int) (cfg : Cfg) (o : Nat → Orc) (bytes : List Char) (st : St)
    (hrun : run cfg o (initSt w h) bytes = .ok st) (ch : Char) : MusicSafe st.p.st st.p.mus ch :=
  musicSafe_of_ok _ _ _ (run_mus cfg o bytes (initSt w h) st hrun musOk_init)

/-- the note that is played is always an entry of the 84-entry frequency table (`FREQ[min(n + 12·octave, 83)]`) -/
theorem note_index_in_table (n oct : Nat) : freqIdx n oct < 84 := freqIdx_lt n oct

/-- non-vacuity: a tune in the "conflicting" music mode — style, tempo, octave 6, B sharpened twice (index pinned
    to 83), a dotted quarter pause (emitted three times: `Pause` is not left on an ignored character), default length 8 -/
example : (match run { musicOpt := 1, bsCtrl := true } (fun _ => { lineLen := 0, extOk := true }) (initSt 80 25)
      "\x1b[MFT200O6B++L8P4.  C\x0eA".toList with
    | .ok st => (st.p.mus.last, st.p.mus.tunes, st.p.mus.oct, st.c.x) | .error _ => ([], 0, 0, -1)) =
    ([.style 0, .note 83 800 false, .pause 1200, .pause 1200, .pause 1200, .note 72 1600 false], 1, 3, 1) := by decide +kernel

/-- macro replay terminates: `step` is a total function whose macro nesting is the structural recursion depth
    `MAX_MACRO_DEPTH`; a self-invoking macro is cut off (non-vacuity: the pinned tree recursed until abort) -/
def selfMacro : List Char := "\x1bP1;0;1!z581B5B312A7A\x1b\\\x1b[1*z".toList   -- hex macro 1 = "X ESC[1*z", then invoke it
example : (match run { musicOpt := 0, bsCtrl := true } (fun _ => { lineLen := 0, extOk := true }) (initSt 80 25) selfMacro with
    | .ok st => (st.c.x, st.c.y) | .error _ => (-1, -1)) = (8, 0) := by decide +kernel

/-- the panics of the pinned tree that the model could exhibit are gone: e.g. `CSI 0;0 r` then `CSI L` -/
example : (match run { musicOpt := 0, bsCtrl := true } (fun _ => { lineLen := 0, extOk := true }) (initSt 80 25)
      "\x1b[0;0r\x1b[L\x1b[2147483647B\x1b[99999999999;5H".toList with
    | .ok st => (st.c.x, st.c.y, st.s.mtb) | .error _ => (-1, -1, none)) = (4, 24, none) := by decide +kernel

end IcyVerif.C01
