import IcyVerif.Lemmas.SauceRoundTrip
/-! # C11 — SAUCE metadata round-trips and is cut off the content exactly
Only property theorems and non-vacuity examples live here.

Model: `Model/Sauce.lean` (`writeSauceInfo` = `Buffer::write_sauce_info`, `extract` = `SauceData::extract`,
`fromBytesSplit`/`setSauce` = the SAUCE part of `Buffer::from_bytes`/`Buffer::set_sauce`, `strRead`/`strAppend`/
`strLen`/`strEq` = `SauceString`), after the repairs `fix: SauceData::extract no longer underflows …` and
`fix: check the SAUCE comment block bound in usize …`.  chrono is a parameter: `dateOk` is the verdict of the date
parser on the 8 date bytes (universally quantified), the writer's date is an input.

Reading guide: `k` is the index of the `SauceFileType` handed to the writer (`kindNames`: 0 Undefined, 1 Ascii,
2 Ansi, 3 ANSiMation, 4 PCBoard, 5 Avatar, 6 TundraDraw, 7 Bin, 8 XBin; ans/adf/icy write 2, asc 1, avt 5, pcb 4,
bin/idf 7, xb 8, tnd 6), `b` the buffer settings the writer reads, `carry k b` what that SAUCE variant can carry. -/
namespace IcyVerif.C11
open IcyVerif.Sauce IcyVerif.Gen.Sauce

/-! ## 1. `extract` is total: no byte list makes it panic (C02 part) -/

/-- `SauceData::extract` never panics: every `data[a..b]`, `data[i]`, `usize - usize` and the `assert_eq!` is inside
    its bounds for **every** byte list and every behaviour of the date parser -/
theorem extract_total (dateOk : List Nat → Bool) (data : List Nat) (site : String) :
    extract dateOk data ≠ .panic site :=
  (isPanic_false_iff _).mp (extract_np dateOk data) site

/-- a record found by `extract` never claims more bytes than the file has … -/
theorem header_len_le (dateOk : List Nat → Bool) (data : List Nat) (s : Sauce)
    (h : extract dateOk data = .ok (some s)) : s.headerLen ≤ data.length := by
  simp only [extract] at h
  split at h
  · cases h
  obtain ⟨o0, _, h⟩ := bind_eq_ok h
  obtain ⟨oh, _, h⟩ := bind_eq_ok h
  cases oh with
  | none => cases h
  | some hd =>
    obtain ⟨r, _, h⟩ := bind_eq_ok h
    obtain ⟨hl, h1, h⟩ := bind_eq_ok h
    obtain ⟨_, e⟩ := usub_eq_ok h1
    have := Option.some.inj (Res.ok.inj h)
    rw [← this]
    show hl ≤ data.length
    omega

/-- … so the SAUCE part of `Buffer::from_bytes` (`len -= sauce_header_len; &bytes[..len]`) never panics either -/
theorem from_bytes_split_total (dateOk : List Nat → Bool) (bytes : List Nat) (site : String) :
    fromBytesSplit dateOk bytes ≠ .panic site := by
  apply (isPanic_false_iff _).mp
  simp only [fromBytesSplit]
  have hall : (slice bytes 0 bytes.length).isPanic = false := slice_np (Nat.zero_le _) (Nat.le_refl _)
  split
  · rename_i s hs
    have := header_len_le dateOk bytes s hs
    refine bind_np (usub_np this) fun len hlen => ?_
    obtain ⟨_, e⟩ := usub_eq_ok hlen
    refine bind_np (slice_np (Nat.zero_le _) (by omega)) fun c _ => rfl
  · exact bind_np hall fun c _ => rfl
  · exact bind_np hall fun c _ => rfl
  · rename_i s hs
    exact absurd hs (extract_total dateOk bytes s)

/-- the writer never panics; it refuses exactly: more than 255 comment lines, a .bin width above 511 -/
theorem write_outcome (k : Nat) (b : BufInfo) (date vec : List Nat) :
    (∃ bytes, writeSauceInfo k b date vec = .ok bytes) ∨
    (writeSauceInfo k b date vec = .err .commentLimit ∧ (b.sauce.getD {}).comments.length > commentLimit) ∨
    (writeSauceInfo k b date vec = .err .binWidth ∧ (writerArm k).fileType = none ∧ b.width / 2 > 255) := by
  simp only [writeSauceInfo, writeSauce]
  split
  · rename_i h; right; left; exact ⟨rfl, h⟩
  · split
    · left; exact ⟨_, rfl⟩
    · rename_i hft
      split
      · rename_i hw; right; right; exact ⟨rfl, hft, hw⟩
      · left; exact ⟨_, rfl⟩

/-! ## 2. round trip: for ALL contents and ALL metadata -/

/-- **extract ∘ write**: whatever the vector held before (`content` — any bytes, including bytes that look like
    `SAUCE00…` or `COMNT…`), after `write_sauce_info` the reader finds the record and returns exactly what the variant
    can carry; the header length is exactly the number of bytes appended -/
theorem extract_write (dateOk : List Nat → Bool) (k : Nat) (hk : k < 9) (b : BufInfo) (hv : Valid b)
    (date : List Nat) (hd : date.length = dateLen) (hok : dateOk date = true) (content bytes : List Nat)
    (hw : writeSauceInfo k b date content = .ok bytes) :
    extract dateOk bytes = .ok (some (carry k b (bytes.length - content.length))) := by
  simp only [writeSauceInfo] at hw
  obtain ⟨tail, h1, h2⟩ := bind_eq_ok hw
  have hb := (Res.ok.inj h2).symm
  subst hb
  rw [extract_writeSauce dateOk hk hv hd hok h1 content]
  congr 3
  simp only [List.length_append, List.length_cons, List.length_nil]
  omega

/-- **split_exact**: the file is `content ++ [EOF] ++ tail`; `tail` is the 128-byte record preceded — iff there are
    comment lines — by `COMNT` + 64 bytes per line; `sauce_header_len = |tail| + 1`; cutting that many bytes off the end
    gives back `content` byte for byte — for every `content` -/
theorem split_exact (dateOk : List Nat → Bool) (k : Nat) (hk : k < 9) (b : BufInfo) (hv : Valid b)
    (date : List Nat) (hd : date.length = dateLen) (hok : dateOk date = true) (content bytes : List Nat)
    (hw : writeSauceInfo k b date content = .ok bytes) :
    ∃ tail s, bytes = content ++ [eofByte] ++ tail ∧
      tail.length = sauceLen + (if (b.sauce.getD {}).comments.isEmpty then 0
                                else commentId.length + commentLen * (b.sauce.getD {}).comments.length) ∧
      extract dateOk bytes = .ok (some s) ∧ s.headerLen = tail.length + 1 ∧
      bytes.take (bytes.length - s.headerLen) = content ∧ bytes.drop (bytes.length - s.headerLen) = eofByte :: tail := by
  have hx := extract_write dateOk k hk b hv date hd hok content bytes hw
  simp only [writeSauceInfo] at hw
  obtain ⟨tail, h1, h2⟩ := bind_eq_ok hw
  have hb := (Res.ok.inj h2).symm
  subst hb
  obtain ⟨_, _, ht⟩ := writeSauce_ok h1
  have hlen : (content ++ [eofByte] ++ tail).length - content.length = tail.length + 1 := by
    simp only [List.length_append, List.length_cons, List.length_nil]; omega
  have hcut : (content ++ [eofByte] ++ tail).length - (tail.length + 1) = content.length := by
    simp only [List.length_append, List.length_cons, List.length_nil]; omega
  refine ⟨tail, _, rfl, ?_, hx, hlen, ?_, ?_⟩
  · rw [ht, List.length_append, recordBytes_length _ _ _ hv _ hd, commentBlock_eq]
    split
    · simp
    · rw [List.length_append, commentLines_length _ hv.comments]
      simp only [commentLen]; omega
  · show List.take ((content ++ [eofByte] ++ tail).length - ((content ++ [eofByte] ++ tail).length - content.length)) _ = _
    rw [hlen, hcut, List.append_assoc, List.take_left' rfl]
  · show List.drop ((content ++ [eofByte] ++ tail).length - ((content ++ [eofByte] ++ tail).length - content.length)) _ = _
    rw [hlen, hcut, List.append_assoc, List.drop_left' rfl]
    rfl

/-- **load_ignores_sauce (dispatch level)**: `Buffer::from_bytes` hands the format loader exactly `content` — no
    content byte lost, no metadata byte taken for content — together with the record -/
theorem load_ignores_sauce (dateOk : List Nat → Bool) (k : Nat) (hk : k < 9) (b : BufInfo) (hv : Valid b)
    (date : List Nat) (hd : date.length = dateLen) (hok : dateOk date = true) (content bytes : List Nat)
    (hw : writeSauceInfo k b date content = .ok bytes) :
    fromBytesSplit dateOk bytes = .ok (content, some (carry k b (bytes.length - content.length))) := by
  obtain ⟨tail, s, hb, _, hx, hl, htake, _⟩ := split_exact dateOk k hk b hv date hd hok content bytes hw
  have hx' := extract_write dateOk k hk b hv date hd hok content bytes hw
  have hs : s = carry k b (bytes.length - content.length) := by
    rw [hx] at hx'; exact Option.some.inj (Res.ok.inj hx')
  simp only [fromBytesSplit, hx]
  have hle : s.headerLen ≤ bytes.length := header_len_le dateOk bytes s hx
  rw [usub_ok hle, bind_ok, slice_ok (Nat.zero_le _) (by omega), bind_ok]
  simp only [List.drop_zero, Nat.sub_zero, htake]
  rw [hs]

/-- … and when the record's width, ice-colour and font settings are the loader's defaults, `set_sauce` leaves width,
    ice mode and font of the freshly created loader buffer as they are: the loader starts from the same state on the
    same bytes as for the content alone (the height is the record's; the format loaders recompute it from the content —
    that part is the subject of the format properties C04/C05/C15 and of this property's oracle run) -/
theorem set_sauce_defaults (knownFont : List Nat → Bool) (st : LoaderState) (s : Sauce) (resize : Bool)
    (hw : s.width = st.width) (hw1 : 0 < st.width) (hw2 : st.width ≤ widthMax) (hice : s.ice = false)
    (hfont : ∀ f, s.font = some f → knownFont f = true → f = st.fontName) :
    (setSauce knownFont st s resize).width = st.width ∧ (setSauce knownFont st s resize).ice = st.ice ∧
    (setSauce knownFont st s resize).fontName = st.fontName := by
  simp only [setSauce]
  split
  · refine ⟨?_, by simp [hice], ?_⟩
    · simp only []
      rw [if_neg (by omega)]; exact hw
    · simp only []
      split
      · rename_i f hf
        split
        · rename_i hk; exact hfont f hf hk
        · rfl
      · rfl
  · exact ⟨rfl, rfl, rfl⟩

/-- widths: the loader keeps every width 1..=1000 and (deliberately) turns 0 and anything larger into 80 -/
theorem loader_width (knownFont : List Nat → Bool) (st : LoaderState) (s : Sauce) :
    (setSauce knownFont st s true).width = if 1 ≤ s.width ∧ s.width ≤ 1000 then s.width else 80 := by
  simp only [setSauce, if_true]
  by_cases h : 1 ≤ s.width ∧ s.width ≤ 1000
  · rw [if_pos h, if_neg (by show ¬(_ ∨ _ > 1000); omega)]
  · rw [if_neg h, if_pos (by show _ ∨ _ > 1000; omega)]
    rfl

/-! ## 3. what each SAUCE variant can carry (the meaning of `carry`) -/

/-- every variant carries the three texts and all comment lines -/
theorem carry_texts (k : Nat) (b : BufInfo) (hl : Nat) :
    (carry k b hl).title = carryPad titleLen titlePad (b.sauce.getD {}).title ∧
    (carry k b hl).author = carryPad authorLen authorPad (b.sauce.getD {}).author ∧
    (carry k b hl).group = carryPad groupLen groupPad (b.sauce.getD {}).group ∧
    (carry k b hl).comments = (b.sauce.getD {}).comments.map carryNul ∧
    (carry k b hl).headerLen = hl := ⟨rfl, rfl, rfl, rfl, rfl⟩

/-- … and under `SauceString`'s own notion of equality (`PartialEq`, `to_string`: trailing blanks and NULs never
    count) title, author and group come back **equal, for every string** of at most 35/20/20 bytes — including
    trailing blanks and NULs; a comment line comes back exactly when it holds no NUL -/
theorem carry_texts_equal (k : Nat) (b : BufInfo) (hv : Valid b) (hl : Nat) :
    strEq (carry k b hl).title (b.sauce.getD {}).title = true ∧ strText (carry k b hl).title = strText (b.sauce.getD {}).title ∧
    strEq (carry k b hl).author (b.sauce.getD {}).author = true ∧ strText (carry k b hl).author = strText (b.sauce.getD {}).author ∧
    strEq (carry k b hl).group (b.sauce.getD {}).group = true ∧ strText (carry k b hl).group = strText (b.sauce.getD {}).group ∧
    (carry k b hl).comments.length = (b.sauce.getD {}).comments.length ∧
    ((∀ c ∈ (b.sauce.getD {}).comments, 0 ∉ c) → (carry k b hl).comments = (b.sauce.getD {}).comments) := by
  have t := carryPad_stripT (pad := titlePad) hv.title (by decide)
  have a := carryPad_stripT (pad := authorPad) hv.author (by decide)
  have g := carryPad_stripT (pad := groupPad) hv.group (by decide)
  refine ⟨(strEq_iff _ _).mpr t, by rw [strText_eq, strText_eq]; exact t, (strEq_iff _ _).mpr a,
    by rw [strText_eq, strText_eq]; exact a, (strEq_iff _ _).mpr g, by rw [strText_eq, strText_eq]; exact g, ?_, ?_⟩
  · simp [carry]
  · intro h
    show List.map carryNul _ = _
    conv => rhs; rw [← List.map_id (b.sauce.getD {}).comments]
    apply List.map_congr_left
    intro c hc
    simp only [carryNul, id]
    exact takeWhile_ne_zero_self c (h c hc)

/-- Character/ANSi (written by ans, adf, icy and for `Undefined`): width and height mod 2^16, ice colours,
    letter spacing, aspect ratio, font name (first 22 bytes, up to a NUL, without trailing blanks) -/
theorem carry_ansi (k : Nat) (hk : k = 0 ∨ k = 2) (b : BufInfo) (hl : Nat) :
    (carry k b hl).width = b.width % 65536 ∧ (carry k b hl).height = b.height % 65536 ∧
    (carry k b hl).ice = b.ice ∧ (carry k b hl).ls = (b.sauce.getD {}).ls ∧ (carry k b hl).ar = (b.sauce.getD {}).ar ∧
    (carry k b hl).font = some (strText (carryNul (strFrom tinfoLen b.fontName))) ∧ (carry k b hl).kind = 2 := by
  rcases hk with rfl | rfl <;>
    simp [carry, writerArm, writerArms, readerArm, readerArms]

/-- Character/ASCII (asc) and ANSiMation: size, ice colours, font name — no letter-spacing/aspect-ratio flags -/
theorem carry_ascii (k : Nat) (hk : k = 1 ∨ k = 3) (b : BufInfo) (hl : Nat) :
    (carry k b hl).width = b.width % 65536 ∧ (carry k b hl).height = b.height % 65536 ∧
    (carry k b hl).ice = b.ice ∧ (carry k b hl).ls = false ∧ (carry k b hl).ar = false ∧
    (carry k b hl).font = some (strText (carryNul (strFrom tinfoLen b.fontName))) ∧ (carry k b hl).kind = k := by
  rcases hk with rfl | rfl <;>
    simp [carry, writerArm, writerArms, readerArm, readerArms]

/-- PCBoard (pcb), Avatar (avt), TundraDraw (tnd), XBin (xb): size only — no flags, no font.  (Since the repair of the
    TundraDraw arm of `write_sauce_info` — `t_info2 = self.get_height()`, regenerated column `h2` — the Tundra record
    carries its height like the others; it used to carry 0.) -/
theorem carry_plain (k : Nat) (hk : k = 4 ∨ k = 5 ∨ k = 6 ∨ k = 8) (b : BufInfo) (hl : Nat) :
    (carry k b hl).width = b.width % 65536 ∧ (carry k b hl).height = b.height % 65536 ∧
    (carry k b hl).ice = false ∧ (carry k b hl).ls = false ∧ (carry k b hl).ar = false ∧
    (carry k b hl).font = none ∧ (carry k b hl).kind = k := by
  rcases hk with rfl | rfl | rfl | rfl <;>
    simp [carry, writerArm, writerArms, readerArm, readerArms]

/-- BinaryText (bin, idf): the width as a multiple of 2 (the field holds width/2), ice colours, font name -/
theorem carry_bin (b : BufInfo) (hl : Nat) :
    (carry 7 b hl).width = b.width / 2 * 2 ∧ (carry 7 b hl).height = 25 ∧
    (carry 7 b hl).ice = b.ice ∧ (carry 7 b hl).ls = false ∧ (carry 7 b hl).ar = false ∧
    (carry 7 b hl).font = some (strText (carryNul (strFrom tinfoLen b.fontName))) ∧ (carry 7 b hl).kind = 7 := by
  simp [carry, writerArm, writerArms, readerArm, readerArms, readerDefaultHeight]

/-- widths 1..=1000 survive save + load for every variant that stores the width (for Bin: even widths ≤ 510) -/
theorem width_round_trip (knownFont : List Nat → Bool) (st : LoaderState) (k : Nat) (hk : k < 9) (b : BufInfo) (hl : Nat)
    (h1 : 1 ≤ b.width) (h2 : b.width ≤ 1000) (hbin : k = 7 → b.width % 2 = 0) :
    (setSauce knownFont st (carry k b hl) true).width = b.width := by
  rw [loader_width]
  have hk' : k = 0 ∨ k = 1 ∨ k = 2 ∨ k = 3 ∨ k = 4 ∨ k = 5 ∨ k = 6 ∨ k = 7 ∨ k = 8 := by omega
  have hw : (carry k b hl).width = b.width := by
    rcases hk' with rfl | rfl | rfl | rfl | rfl | rfl | rfl | rfl | rfl
    · rw [(carry_ansi 0 (Or.inl rfl) b hl).1]; omega
    · rw [(carry_ascii 1 (Or.inl rfl) b hl).1]; omega
    · rw [(carry_ansi 2 (Or.inr rfl) b hl).1]; omega
    · rw [(carry_ascii 3 (Or.inr rfl) b hl).1]; omega
    · rw [(carry_plain 4 (Or.inl rfl) b hl).1]; omega
    · rw [(carry_plain 5 (Or.inr (Or.inl rfl)) b hl).1]; omega
    · rw [(carry_plain 6 (Or.inr (Or.inr (Or.inl rfl))) b hl).1]; omega
    · rw [(carry_bin b hl).1]; have := hbin rfl; omega
    · rw [(carry_plain 8 (Or.inr (Or.inr (Or.inr rfl))) b hl).1]; omega
  rw [hw, if_pos ⟨h1, h2⟩]

/-- the ten writers that append SAUCE (table regenerated from `src/formats/*.rs`: extension, loader default size,
    `resize_to_sauce`, variant written): every one writes a variant covered by the theorems above (`k < 9`), and every
    loader's default width lies in 1..=1000, so `set_sauce_defaults` applies to a record carrying that width -/
theorem writers_covered :
    loaders.length = 10 ∧
    loaders.all (fun l => decide (l.2.2.2.2 < 9) && decide (0 < l.2.1) && decide (l.2.1 ≤ widthMax)) = true := by
  decide

/-! ## 4. `SauceString`: the precise statement about padding, trailing blanks and NULs -/

/-- blank-padded field (`EMPTY ≠ 0`; title, author, group): `read (append_to s)` for every `s` that fits -/
theorem string_rt (len pad : Nat) (hp : pad ≠ 0) (s : List Nat) (hs : s.length ≤ len) (rest : List Nat) :
    strRead len pad (strAppend len pad s [] ++ rest) = .ok (carryPad len pad s) :=
  strRead_append_pad hp hs rest

/-- … which is: `s` without its trailing pad bytes — except that a string consisting of pad bytes only (in particular
    the empty string) comes back as `len` pad bytes (`is_empty()` is then false although `len()` is 0) -/
theorem string_rt_value (len pad : Nat) (s : List Nat) (hs : s.length ≤ len) :
    carryPad len pad s =
      if s.all (· == pad) then List.replicate len pad else (s.reverse.dropWhile (· == pad)).reverse :=
  carryPad_eq hs

/-- no trailing pad byte: the string comes back byte for byte (embedded and trailing NULs included) -/
theorem string_rt_exact (len pad : Nat) (hp : pad ≠ 0) (s : List Nat) (hs : s.length ≤ len) (hne : s ≠ [])
    (hlast : s.getLast? ≠ some pad) (rest : List Nat) :
    strRead len pad (strAppend len pad s [] ++ rest) = .ok s := by
  rw [string_rt len pad hp s hs rest, carryPad_exact hs hne hlast]

/-- trailing blanks and NULs: whatever `s` is, what comes back is equal to it in the sense of `PartialEq` and has the
    same `to_string()` (both ignore trailing blanks/NULs), when the pad byte is a blank or NUL -/
theorem string_rt_equal (len pad : Nat) (hpad : stripSet.contains pad = true) (s : List Nat) (hs : s.length ≤ len) :
    strEq (carryPad len pad s) s = true ∧ strText (carryPad len pad s) = strText s := by
  have t := carryPad_stripT hs hpad
  exact ⟨(strEq_iff _ _).mpr t, by rw [strText_eq, strText_eq]; exact t⟩

/-- NUL-padded field (comment lines, font name): cut at the first NUL, nothing else changes — trailing blanks stay -/
theorem string_rt_nul (len : Nat) (s : List Nat) (hs : s.length ≤ len) (rest : List Nat) :
    strRead len 0 (strAppend len 0 s [] ++ rest) = .ok (s.takeWhile (· != 0)) ∧
    (0 ∉ s → strRead len 0 (strAppend len 0 s [] ++ rest) = .ok s) := by
  have h := strRead_append_nul hs rest
  refine ⟨h, fun h0 => ?_⟩
  rw [h]
  congr 1
  exact takeWhile_ne_zero_self s h0

/-- `read` itself: never panics when the slice holds `LEN` bytes (the only way `extract` calls it) -/
theorem string_read_total (len pad : Nat) (d : List Nat) (h : len ≤ d.length) : ∃ s, strRead len pad d = .ok s :=
  strRead_total len pad d h

/-! ## 5. non-vacuity: concrete files through the model -/

def exMeta : Meta := { title := [72, 105, 32, 32], author := [0], group := [], comments := [[99, 49], [32]], ar := true, ls := false }
def exBuf : BufInfo := { sauce := some exMeta, width := 80, height := 25, ice := true, fontName := [73, 66, 77, 32, 86, 71, 65] }
def exDate : List Nat := [50, 48, 50, 54, 48, 57, 50, 57]
/-- content whose own last bytes are `SAUCE00` -/
def exContentSauce : List Nat := [120, 121] ++ sauceId ++ versionWrite
/-- content whose own last bytes are `COMNT` + 64 bytes -/
def exContentComnt : List Nat := commentId ++ List.replicate 64 65

example : Valid exBuf := ⟨by decide, by decide, by decide, by decide⟩

def written (k : Nat) (content : List Nat) : List Nat :=
  match writeSauceInfo k exBuf exDate content with
  | .ok bytes => bytes
  | _ => []

def check (k : Nat) (content : List Nat) : Bool :=
  match extract (fun _ => true) (written k content), fromBytesSplit (fun _ => true) (written k content) with
  | .ok (some s), .ok (c, some s') =>
    s == carry k exBuf (1 + 5 + 2 * 64 + 128) && s' == s && c == content && s.headerLen == 262 &&
      s.title == [72, 105] && s.comments == [[99, 49], [32]] && (written k content).length == content.length + 262
  | _, _ => false

/-- the hypotheses of `extract_write` are satisfiable and the conclusion is what one expects, on content ending in
    `SAUCE00`, in a `COMNT` look-alike block, and on empty content, for the Ansi, Bin and XBin variants -/
example : check 2 exContentSauce = true := by decide +kernel
example : check 2 exContentComnt = true := by decide +kernel
example : check 7 exContentSauce = true := by decide +kernel
example : check 8 [] = true := by decide +kernel

/-- the repaired defect: a file that is nothing but an engine-written record (no content, no EOF byte) — the whole
    file is SAUCE, nothing panics (`len - 1` underflowed here on the pinned tree) -/
example : (match extract (fun _ => true) ((written 2 []).drop 134) with
    | .err .invalidCommentBlock => true | _ => false) = true := by decide +kernel
def recordOnly : List Nat :=
  match writeSauceInfo 2 { exBuf with sauce := none } exDate [] with
  | .ok bytes => bytes.drop 1
  | _ => []
example : recordOnly.length = 128 := by decide +kernel
example : (match extract (fun _ => true) recordOnly, fromBytesSplit (fun _ => true) recordOnly with
    | .ok (some s), .ok (c, some _) => s.headerLen == 128 && c == [] | _, _ => false) = true := by decide +kernel
/-- COMNT block + record without content/EOF: also the whole file -/
example : (match extract (fun _ => true) ((written 2 []).drop 1) with
    | .ok (some s) => s.headerLen == 261 && s.comments.length == 2 | _ => false) = true := by decide +kernel
/-- error outcomes are reachable: bad version, bad date, missing comment block, wrong comment id -/
example : (match extract (fun _ => false) (written 2 []) with | .err .unsupportedDate => true | _ => false) = true := by
  decide +kernel
example : (match extract (fun _ => true) (List.replicate 127 0) with | .ok none => true | _ => false) = true := by
  decide +kernel
/-- a string of blanks comes back as 35 blanks, `Hi  ` as `Hi`, `A\0` unchanged -/
example : carryPad 35 32 [] = List.replicate 35 32 := by decide
example : carryPad 35 32 [72, 105, 32, 32] = [72, 105] := by decide
example : carryPad 35 32 [65, 0] = [65, 0] ∧ strEq [65, 0] [65] = true := by decide
/-- a comment with an embedded NUL is cut there -/
example : carryNul [65, 0, 66] = [65] := by decide

end IcyVerif.C11
