import IcyVerif.Lemmas.TermCost
import IcyVerif.Gen.Loops
import IcyVerif.Lemmas.RectCost
import IcyVerif.Lemmas.FontLoad
import IcyVerif.Lemmas.PalCost
import IcyVerif.Gen.TermResize
/-! # C03 — work per input is bounded by screen size, not by numbers in the input
What is proved (about the TermGeo model of the repaired code, for every parameter value):
* every parameter-driven loop count of the ANSI parser is bounded by the screen (`*_le` theorems); the table
  `knownLoopIds` lists every loop of the terminal-stream code with its bound expression as found in the source, and
  `all_loops_known` fails as soon as the source contains a loop (or a bound expression) that is not in the table;
* a numeric parameter never exceeds `i32::MAX` however many digits it has;
* a hex macro body is never expanded beyond the macro space (`hexMacro_len`), whatever its repeat counts;
* macro replay is bounded: one input character executes at most 1 + 65536 parser steps whatever the macros are
  (`macro_expansion_bounded`, by a potential argument over nesting depth and expansion budget).
What the model cannot exhibit (labelled partial): wall-clock time, allocator behaviour, stack size — the oracle run
of `harness/src/c03.rs` measures those on the real code (time and row growth per token, address-space cap).
The binary art-file loaders are in `Props/C03Loaders.lean` (cost-instrumented loader models), the sixel decoder in
`Props/C03Sixel.lean`.  The screen-relative bounds below are absolute: `term_size_bounded` shows that the terminal size
stays within the resize command's own clamps (regenerated) along every stream.
Added for the loaders and the rectangle commands:
* bitmap fonts (`BitFont::from_bytes`, also behind the `CTerm:Font:` DCS): the glyph loop runs at most once per byte of the
  file and the checksum loop at most max(512, file length) times, whatever height / length / charsize the header declares
  (`font_loader_cost`); this is proved FROM the zero-height guard found in the source (`font_zero_guard_present`) and fails
  without it (`font_loop_diverges_without_guard`);
* palette importers: at most one colour per byte of the file, whatever its count line announces (`palette_colours_le_bytes`);
* DECRQCRA visits at most width x height cells, DECFRA / DECERA / DECSERA at most width x max(rows present, height),
  for every parameter list (`rqcra_count_le`, `rect_count_le`); the guard text of the unclamped DECRQCRA loops is part of
  the loop inventory. -/
namespace IcyVerif.C03
open IcyVerif.Term

/-- every loop of the terminal-stream code that the model accounts for, as the 48-bit fingerprint of
    `file::fn::header [bound definition]` (the text is in the comment and in `Gen.Loops.loops`) -/
def knownLoopIds : List Nat := [
  203388126284514,   -- parsers/mod.rs::lf::while self.pos.y >= buf.layers[current_layer].lines.len() as i32
  126428441180987,   -- parsers/mod.rs::erase_charcter::for _ in 0..number [number = min(buf.terminal_state.get_width() - i, number)]
  133008129596596,   -- parsers/mod.rs::check_scrolling_on_caret_up::for _ in 0..steps [steps = (last.saturating_sub(self.pos.y)).min(buf.terminal_state.get_height())]
  12170991282525,   -- parsers/mod.rs::scroll_up::for x in start_column..=end_column [end_column = self.get_last_editable_column()]
  136316870764071,   -- parsers/mod.rs::scroll_up::(start_line..end_line).for_each [end_line = self.get_last_editable_line()]
  262002697356077,   -- parsers/mod.rs::scroll_down::for x in start_column..=end_column [end_column = self.get_last_editable_column()]
  231668604003529,   -- parsers/mod.rs::scroll_down::((start_line + 1)..=end_line).rev().for_each
  644990332521,   -- parsers/mod.rs::scroll_left::for i in start_line..=end_line [end_line = self.get_last_editable_line()]
  57877638774789,   -- parsers/mod.rs::scroll_right::for i in start_line..=end_line [end_line = self.get_last_editable_line()]
  162053793021590,   -- parsers/mod.rs::clear_buffer_down::for y in pos.y..self.get_last_visible_line()
  38803051704411,   -- parsers/mod.rs::clear_buffer_down::for x in 0..self.get_width()
  206571873139361,   -- parsers/mod.rs::clear_buffer_up::for y in self.get_first_visible_line()..pos.y
  82977877469592,   -- parsers/mod.rs::clear_buffer_up::for x in 0..self.get_width()
  266017184782112,   -- parsers/mod.rs::clear_line::for x in 0..self.get_width()
  216967187617199,   -- parsers/mod.rs::clear_line_end::for x in pos.x..self.get_width()
  261608968411101,   -- parsers/mod.rs::clear_line_start::for x in 0..pos.x
  172126641446036,   -- parsers/ansi/mod.rs::print_char::for i in 0..64
  37880302352809,   -- parsers/ansi/mod.rs::print_char::for b in m.as_bytes()
  246226998937849,   -- parsers/ansi/mod.rs::print_char::(0..buf.terminal_state.tab_count()).for_each
  278013456062273,   -- parsers/ansi/mod.rs::print_char::for _ in 0..number [number = min(*number, buf.terminal_state.get_width())]
  1660322948762,   -- parsers/ansi/mod.rs::print_char::for _ in 0..number [number = *number]
  108485408676630,   -- parsers/ansi/mod.rs::print_char::for _ in 0..min(*number, line_len)
  158796941833254,   -- parsers/ansi/mod.rs::print_char::for _ in 0..number [number = min(*number, buf.terminal_state.get_height())]
  271081030219619,   -- parsers/ansi/mod.rs::print_char::(0..num).for_each [num = min(num, buf.terminal_state.get_height())]
  111648938138143,   -- parsers/ansi/mod.rs::print_char::(0..num).for_each [num = min(num, buf.terminal_state.get_height())] #2
  224846332406421,   -- parsers/ansi/mod.rs::print_char::(0..num).for_each [num = min(num, buf.terminal_state.get_width().saturating_mul(buf.terminal_state.get_height()))]
  190528600599645,   -- parsers/ansi/mod.rs::print_char::(0..num).for_each [num = min(num, buf.terminal_state.tab_count() as i32 + 1)]
  51481091594342,   -- parsers/ansi/mod.rs::print_char::(0..num).for_each [num = min(num, buf.terminal_state.tab_count() as i32 + 1)] #2
  281022136991837,   -- parsers/ansi/mod.rs::invoke_macro_by_id::for ch in m.chars()
  237650164376874,   -- parsers/ansi/ansi_commands.rs::select_graphic_rendition::while i < self.parsed_numbers.len()
  41279561738007,   -- parsers/ansi/ansi_commands.rs::scroll_left::(0..num).for_each [num = num.min(buf.terminal_state.get_width())]
  171599094478279,   -- parsers/ansi/ansi_commands.rs::scroll_right::(0..num).for_each [num = num.min(buf.terminal_state.get_width())]
  158480357843142,   -- parsers/ansi/ansi_commands.rs::request_checksum_of_rectangular_area::for y in pt..pb [pb = self.parsed_numbers[4]] {guard: pt > pb || pl > pr || pr > buf.terminal_state.get_width() || pb > buf.terminal_state.get_height() || pl < 0 || pt < 0}
  38502396119993,   -- parsers/ansi/ansi_commands.rs::request_checksum_of_rectangular_area::for x in pl..pr [pr = self.parsed_numbers[5]] {guard: pt > pb || pl > pr || pr > buf.terminal_state.get_width() || pb > buf.terminal_state.get_height() || pl < 0 || pt < 0}
  114006608205224,   -- parsers/ansi/ansi_commands.rs::request_checksum_of_rectangular_area::for b in ch.attribute.attr.to_be_bytes()
  102835665758988,   -- parsers/ansi/ansi_commands.rs::request_checksum_of_rectangular_area::for b in ch.attribute.get_foreground().to_be_bytes()
  161869610143512,   -- parsers/ansi/ansi_commands.rs::request_checksum_of_rectangular_area::for b in ch.attribute.get_background().to_be_bytes()
  13263546534553,   -- parsers/ansi/ansi_commands.rs::fill_rectangular_area::for y in top_line..=bottom_line
  220635219371798,   -- parsers/ansi/ansi_commands.rs::fill_rectangular_area::for x in left_column..=right_column
  125396497144964,   -- parsers/ansi/ansi_commands.rs::erase_rectangular_area::for y in top_line..=bottom_line [bottom_line = self.parsed_numbers[offset + 2] .max(1) .min(buf.get_line_count().max(buf.terminal_state.get_height())) - 1]
  151209778952350,   -- parsers/ansi/ansi_commands.rs::erase_rectangular_area::for x in left_column..=right_column [right_column = self.parsed_numbers[offset + 3].max(1).min(buf.terminal_state.get_width()) - 1]
  242409457850471,   -- parsers/ansi/ansi_commands.rs::selective_erase_rectangular_area::for y in top_line..=bottom_line
  117568493873481,   -- parsers/ansi/ansi_commands.rs::selective_erase_rectangular_area::for x in left_column..=right_column
  104258745445048,   -- parsers/ansi/dcs.rs::push_repeated::for _ in 0..(n.max(0) as usize).min(room)
  267807463554554,   -- parsers/ansi/dcs.rs::execute_dcs::for ch in self.parse_string.chars()
  263942261828500,   -- parsers/ansi/dcs.rs::parse_hex_macro_sequence::for ch in self.parse_string[start_index..].chars()
  208965802564451,   -- parsers/ansi/osc.rs::parse_osc::for ch in self.parse_string.chars()
  59333638231237,   -- parsers/ansi/osc.rs::parse_osc::for a in OSC_PALETTE.captures_iter(&self.parse_string)
  25240594281441,   -- parsers/avatar/mod.rs::print_char::for _ in 0..repeat_count [repeat_count = (ch as usize).min(255)]
  279804614731691,   -- terminal_state.rs::reset_tabs::while i < self.get_width()
  151007286748451,   -- terminal_state.rs::next_tab_stop::while i < self.tab_stops.len() && self.tab_stops[i] <= x
  216312728822047,   -- terminal_state.rs::prev_tab_stop::while i >= 0 && self.tab_stops[i as usize] >= x
  88451286985492,   -- fonts.rs::fmt::for (y, b) in self.data.iter().enumerate()
  254679739834868,   -- fonts.rs::fmt::for i in 0..8
  154166043607708,   -- fonts.rs::calculate_checksum::for ch in 0..self.length
  117889436246693,   -- fonts.rs::calculate_checksum::for b in &glyph.data
  241381941161933,   -- fonts.rs::convert_to_u8_data::for ch in 0..self.length
  75843190773516,   -- fonts.rs::to_psf2_bytes::for i in 0..self.length
  161708487264824,   -- fonts.rs::glyphs_from_u8_data::while data.len() >= font_height
  207816280897166,   -- palette_handling.rs::load_palette::for (_, [r, g, b]) in HEX_REGEX.captures_iter(&data).map(|c| c.extract())
  2280331911125,   -- palette_handling.rs::load_palette::for (i, line) in data.lines().enumerate()
  147256833648363,   -- palette_handling.rs::load_palette::for (_, [r, g, b]) in PAL_REGEX.captures_iter(line).map(|c| c.extract())
  223769207628979,   -- palette_handling.rs::load_palette::for (i, line) in data.lines().enumerate() #2
  267398573337281,   -- palette_handling.rs::load_palette::for (i, line) in data.lines().enumerate() #3
  168223969727977,   -- palette_handling.rs::load_palette::for line in data.lines()
  160584003017280,   -- palette_handling.rs::export_lines::for c in &self.colors
  167572473013707,   -- palette_handling.rs::export_lines::for c in &self.colors #2
  64920024687084,   -- palette_handling.rs::export_lines::for c in &self.colors #3
  141981017646683,   -- palette_handling.rs::export_lines::for c in &self.colors #4
  163872262874269,   -- palette_handling.rs::export_lines::for c in &self.colors #5
  47975782806930,   -- palette_handling.rs::fill_to_16::(self.colors.len()..DOS_DEFAULT_PALETTE.len()).for_each
  133357773259086,   -- palette_handling.rs::is_default::for i in 0..DOS_DEFAULT_PALETTE.len()
  51230467820574,   -- palette_handling.rs::insert_color::for i in 0..self.colors.len()
  84286395416824,   -- palette_handling.rs::from::while o < pal.len()
  117082274575601,   -- palette_handling.rs::as_vec::for col in &self.colors
  88909030956191,   -- palette_handling.rs::from_63::while o < pal.len()
  78149143990703,   -- palette_handling.rs::as_vec_63::for col in &self.colors
  213368740633849   -- palette_handling.rs::get_checksum::for i in self.old_checksum..self.colors.len()
]

/-- the translator's inventory of the current source contains no loop outside the table -/
theorem all_loops_known : IcyVerif.Gen.Loops.loopIds.all (fun l => knownLoopIds.contains l) = true := by decide +kernel
theorem loop_inventory_complete : IcyVerif.Gen.Loops.loopIds.length = IcyVerif.Gen.Loops.loops.length := by decide +kernel

theorem sat_le (v : Int) : sat v ≤ 2147483647 := by unfold sat; omega
theorem sat_ge (v : Int) : -2147483648 ≤ sat v := by unfold sat; omega

/-- a parameter is at most `i32::MAX`, whatever digit string produced it -/
theorem parse_number_bounded (x : Int) (ch : Char) : parseNextNumber x ch ≤ 2147483647 := by
  unfold parseNextNumber satSub; exact sat_le _

/-- REP prints at most one screenful, for every parameter -/
theorem rep_count_le (nums : List Int) (s : Scr) (h : ScrOk s) : repCount nums s ≤ 7920 := by
  have := h.tw1; have := h.tw2; have := h.th1; have := h.th2
  have hm : satMul s.tw s.th ≤ 7920 := by
    unfold satMul sat
    have : s.tw * s.th ≤ 132 * 60 := Int.mul_le_mul (by omega) (by omega) (by omega) (by omega)
    omega
  unfold repCount
  omega

/-- cursor tabulation searches at most (number of tab stops + 1) times -/
theorem tab_count_le (nums : List Int) (s : Scr) : tabCount nums s ≤ s.tabs.length + 1 := by
  unfold tabCount; omega

theorem ich_count_le (nums : List Int) (s : Scr) (h : ScrOk s) : ichCount nums s ≤ 132 := by
  have := h.tw2; unfold ichCount; omega
theorem il_count_le (nums : List Int) (s : Scr) (h : ScrOk s) : ilCount nums s ≤ 60 := by
  have := h.th2; unfold ilCount; omega
theorem scroll_count_le (nums : List Int) (s : Scr) (h : ScrOk s) : scrollCount nums s ≤ 60 := by
  have := h.th2; unfold scrollCount; omega
theorem scroll_lr_count_le (nums : List Int) (s : Scr) (h : ScrOk s) : scrollLRCount nums s ≤ 132 := by
  have := h.tw2; unfold scrollLRCount; omega
theorem up_scroll_count_le (y : Int) (s : Scr) (h : ScrOk s) : upScrollCount y s ≤ 60 := by
  have := h.th2; unfold upScrollCount; omega
theorem dch_count_le (nums : List Int) (rowChars : Int) : (dchCount nums rowChars : Int) ≤ max rowChars 0 := by
  unfold dchCount; omega
theorem dl_count_le (nums : List Int) (rowsBelow : Int) : (dlCount nums rowsBelow : Int) ≤ max rowsBelow 0 := by
  unfold dlCount; omega

theorem strLen_append (a b : List Char) : strLen (a ++ b) = strLen a + strLen b := by
  simp [strLen]
theorem strLen_replicate (k : Nat) (r : List Char) : strLen (List.replicate k r).flatten = k * strLen r := by
  induction k with
  | zero => simp [strLen]
  | succ k ih => rw [List.replicate_succ, List.flatten_cons, strLen_append, ih, Nat.succ_mul]; omega
theorem length_le_strLen (l : List Char) : l.length ≤ strLen l := by
  induction l with
  | nil => simp [strLen]
  | cons c t ih =>
    have : 0 < c.utf8Size := Char.utf8Size_pos c
    simp only [strLen, List.map_cons, List.sum_cons, List.length_cons] at ih ⊢
    omega

/-- appending a repeat group never grows a macro beyond the macro space (unless it already was longer);
    sizes are `String::len`, i.e. UTF-8 bytes, as in `push_repeated` -/
theorem pushRepeated_len (dst r : List Char) (n : Int) :
    strLen (pushRepeated dst r n) ≤ max (strLen dst) MAX_MACRO_LEN := by
  unfold pushRepeated
  split
  · omega
  · simp only [strLen_append, strLen_replicate]
    have h1 : min n.toNat ((MAX_MACRO_LEN - strLen dst) / strLen r) * strLen r ≤ MAX_MACRO_LEN - strLen dst := by
      calc min n.toNat ((MAX_MACRO_LEN - strLen dst) / strLen r) * strLen r
          ≤ ((MAX_MACRO_LEN - strLen dst) / strLen r) * strLen r := Nat.mul_le_mul_right _ (Nat.min_le_right _ _)
        _ ≤ MAX_MACRO_LEN - strLen dst := Nat.div_mul_le_self _ _
    omega

/-- … and so is the number of characters a later invocation replays -/
theorem pushRepeated_chars (dst r : List Char) (n : Int) :
    (pushRepeated dst r n).length ≤ max (strLen dst) MAX_MACRO_LEN :=
  Nat.le_trans (length_le_strLen _) (pushRepeated_len dst r n)

/-- `replay` never replays more characters than the remaining expansion budget: with no budget it does nothing -/
theorem replay_budget (stepf : St → Char → R) (body : List Char) (st : St) (h : st.p.budget = 0) :
    replay stepf body st = .ok st := by
  cases body with
  | nil => rfl
  | cons c rest => unfold replay; simp [h]

/-- macro nesting clause: whatever macros are defined (self-invoking, mutually recursive, fan-out), one input
    character makes the parser execute at most 1 + 65536 character steps (`tick` counts outer and replayed steps) -/
theorem macro_expansion_bounded (cfg : Cfg) (o : Nat → Orc) (st st' : St) (ch : Char) (out : Out)
    (h : step cfg o st ch = .ok (st', out)) : st'.p.tick ≤ st.p.tick + 1 + 65536 :=
  macro_steps_bounded cfg o st st' ch out h

/-- and a whole stream of n characters at most n * 65537 steps -/
theorem stream_steps_bounded (cfg : Cfg) (o : Nat → Orc) : ∀ (cs : List Char) (st st' : St),
    run cfg o st cs = .ok st' → st'.p.tick ≤ st.p.tick + cs.length * 65537 := by
  intro cs
  induction cs with
  | nil => intro st st' h; simp only [run] at h; cases h; simp
  | cons c rest ih =>
    intro st st' h
    unfold run at h
    cases hs : step cfg o st c with
    | error e => rw [hs] at h; cases h
    | ok r =>
      rw [hs] at h
      obtain ⟨st1, out⟩ := r
      have h1 := macro_steps_bounded cfg o st st1 c out hs
      have h2 := ih st1 st' h
      simp only [List.length_cons, MAX_MACRO_EXPANSION] at *
      have : (rest.length + 1) * 65537 = rest.length * 65537 + 65537 := by omega
      omega

/-- the zero-height guard of `glyphs_from_u8_data` is in the source (regenerated flag) -/
theorem font_zero_guard_present : IcyVerif.Gen.FontPal.glyphZeroGuard = true := by decide

/-- font loaders: whatever the header declares (PSF1 character height 0..255 and mode, PSF2 headersize / length /
    charsize / height / width up to 2^32 - 1), loading `d` runs the glyph loop at most `|d|` times and the checksum loop at
    most `max 512 |d|` times — and never panics or diverges on the way (`.ok` / `.err` are the only outcomes) -/
theorem font_loader_cost (d : List Nat) :
    (∀ s, IcyVerif.FontLoad.fontFromBytes d.toArray ≠ .panic s) ∧
    ∀ f, IcyVerif.FontLoad.fontFromBytes d.toArray = .ok f → f.iters ≤ d.length ∧ f.cksum ≤ max 512 d.length := by
  have h := IcyVerif.FontLoad.fontFromBytes_sat font_zero_guard_present d.toArray
  refine ⟨h.noPanic, ?_⟩
  intro f hf
  rw [hf] at h
  have h2 : f.iters ≤ d.toArray.size ∧ f.cksum ≤ max 512 d.toArray.size := h
  simpa using h2

/-- "a PSF1 font header with character height 0 never consumes its data": without the guard the loop does not end -/
theorem font_loop_diverges_without_guard (hg : IcyVerif.Gen.FontPal.glyphZeroGuard = false) (d : List Nat) :
    IcyVerif.FontLoad.glyphsFrom 0 d.toArray 0 = .panic IcyVerif.FontLoad.sDiverge :=
  IcyVerif.FontLoad.glyphsFrom_needs_guard hg d.toArray 0 (Nat.zero_le _)

/-- palette importers: a file of n bytes yields at most n colours in every format — colours are pushed one per regex match
    (each match consumes at least one character of a line); the JASC / GIMP / ICE / Paint.NET COUNT LINE is never used as
    a size, whatever number stands there -/
theorem palette_colours_le_bytes (f : IcyVerif.Palette.Fmt) (d : List Nat) (cs : List IcyVerif.Palette.Rgb)
    (h : IcyVerif.PalLoad.palLoad f d = .ok cs) : cs.length ≤ d.length := by
  have h1 := IcyVerif.PalLoad.palLoad_length f d
  rw [h] at h1
  exact h1

/-- DECRQCRA (`CSI Pid;Pp;Pt;Pl;Pb;Pr * y`): the checksum loops visit at most width x height cells for every parameter list -/
theorem rqcra_count_le (nums : List Int) (tw th : Int) : IcyVerif.RectCost.rqcraCount nums tw th ≤ tw.toNat * th.toNat :=
  IcyVerif.RectCost.rqcraCount_le nums tw th

/-- DECFRA (`off` = 1), DECERA, DECSERA (`off` = 0): at most width x max(rows present, height) cells for every parameter list -/
theorem rect_count_le (nums : List Int) (off : Nat) (lines tw th : Int) (h1 : 1 ≤ tw) (h2 : 1 ≤ th) :
    IcyVerif.RectCost.rectCount nums off lines tw th ≤ tw.toNat * (max lines th).toNat :=
  IcyVerif.RectCost.rectCount_le nums off lines tw th h1 h2

/-- a rectangle parameter is at most `i32::MAX` however many digits it has (own copy of the number model for the
    rectangle driver) -/
theorem rect_param_bounded (ds : List Nat) : IcyVerif.RectCost.paramOf ds ≤ 2147483647 := IcyVerif.RectCost.paramOf_le ds


/-- the clamps of the text-area resize `CSI 8 ; rows ; cols t` as found in the source (regenerated) -/
theorem resize_clamps_from_source :
    IcyVerif.Gen.TermResize.minW = 1 ∧ IcyVerif.Gen.TermResize.maxW = 132 ∧
    IcyVerif.Gen.TermResize.minH = 1 ∧ IcyVerif.Gen.TermResize.maxH = 60 ∧ IcyVerif.Gen.TermResize.sizeSetters = 2 := by decide

/-- the terminal size stays within the resize command's own clamps along EVERY stream — resizes, resets, macros included:
    this is what turns the per-command bounds above (stated for a screen satisfying `ScrOk`) into absolute bounds -/
theorem term_size_bounded (w h : Int) (hw1 : 1 ≤ w) (hw2 : w ≤ 132) (hh1 : 1 ≤ h) (hh2 : h ≤ 60)
    (cfg : Cfg) (o : Nat → Orc) (bytes : List Char) (st : St) (hrun : run cfg o (initSt w h) bytes = .ok st) :
    IcyVerif.Gen.TermResize.minW ≤ st.s.tw ∧ st.s.tw ≤ IcyVerif.Gen.TermResize.maxW ∧
    IcyVerif.Gen.TermResize.minH ≤ st.s.th ∧ st.s.th ≤ IcyVerif.Gen.TermResize.maxH ∧ ScrOk st.s := by
  have hg := run_good cfg o bytes (initSt w h) (initSt_good w h hw1 hw2 hh1 hh2)
  rw [hrun] at hg
  have hk : ScrOk st.s := hg.1
  exact ⟨hk.tw1, hk.tw2, hk.th1, hk.th2, hk⟩

/-- … so after ANY stream (for instance one that asked for 2^31 - 1 rows) a repeat-style command runs at most a screenful of
    the largest screen: REP <= 7920 characters, scrolls / line inserts <= 60, column inserts <= 132 -/
theorem repeat_counts_absolute (w h : Int) (hw1 : 1 ≤ w) (hw2 : w ≤ 132) (hh1 : 1 ≤ h) (hh2 : h ≤ 60)
    (cfg : Cfg) (o : Nat → Orc) (bytes : List Char) (st : St) (hrun : run cfg o (initSt w h) bytes = .ok st) (nums : List Int) :
    repCount nums st.s ≤ 7920 ∧ scrollCount nums st.s ≤ 60 ∧ ilCount nums st.s ≤ 60 ∧ ichCount nums st.s ≤ 132 ∧
    scrollLRCount nums st.s ≤ 132 ∧ ∀ y, upScrollCount y st.s ≤ 60 := by
  have hk := (term_size_bounded w h hw1 hw2 hh1 hh2 cfg o bytes st hrun).2.2.2.2
  exact ⟨rep_count_le nums st.s hk, scroll_count_le nums st.s hk, il_count_le nums st.s hk, ich_count_le nums st.s hk,
    scroll_lr_count_le nums st.s hk, fun y => up_scroll_count_le y st.s hk⟩

/-- the terminal size after a stream (0 x 0 when the model reports an arithmetic overflow) -/
def sizeAfter (bytes : String) : Int × Int :=
  match run { musicOpt := 0, bsCtrl := false } (fun _ => default) (initSt 80 25) bytes.toList with
  | .ok st => (st.s.tw, st.s.th)
  | .error _ => (0, 0)

/-- the model's resize clamps ARE the regenerated ones: asking for 2^31 - 1 (0) rows and columns yields exactly the maximum
    (minimum) found in the source — fails when either the source constants or the model literals change -/
theorem resize_clamps_attained :
    sizeAfter "\x1b[8;2147483647;2147483647t" = (IcyVerif.Gen.TermResize.maxW, IcyVerif.Gen.TermResize.maxH) ∧
    sizeAfter "\x1b[8;0;0t" = (IcyVerif.Gen.TermResize.minW, IcyVerif.Gen.TermResize.minH) ∧
    sizeAfter "\x1b[8;61;133t\x1b[2147483647S" = (132, 60) := by decide +kernel

/-- non-vacuity: the table is not empty and the clamps are attained -/
example : knownLoopIds.length = 78 := by decide
example : repCount [2147483599] (initScr 132 60) = 7920 := by decide +kernel
example : tabCount [2147483599] (initScr 80 25) = 11 := by decide +kernel
example : IcyVerif.RectCost.rqcraCount [1, 1, 0, 0, 25, 80] 80 25 = 2000 := by decide
example : IcyVerif.RectCost.rqcraCount [1, 1, 0, 0, 2147483599, 80] 80 25 = 0 := by decide
example : IcyVerif.RectCost.rectCount [2147483599, 0, 2147483599, 2147483599] 0 30 80 25 = 80 := by decide
example : IcyVerif.RectCost.rectCount [0, 0, 2147483599, 2147483599] 0 30 80 25 = 2400 := by decide
example : IcyVerif.RectCost.paramOf ("99999999999".toList.map Char.toNat) = 2147483599 := by decide +kernel
/-- (a PSF1 header with character size 0 is rejected since the C02 repair of `BitFont::from_bytes`; the glyph loop itself
    still returns at once for height 0: `glyphsFrom`) -/
example : IcyVerif.FontLoad.fontFromBytes #[0x36, 0x04, 0, 0, 1, 2, 3] = .err := by decide
example : IcyVerif.FontLoad.glyphsFrom 0 #[0x36, 0x04, 0, 0, 1, 2, 3] 4 = .ok 0 := by decide

end IcyVerif.C03
