import IcyVerif.Lemmas.ColorOptDoc
import IcyVerif.Lemmas.CompVisible
/-! # C12 — default (colour-optimised) saving never changes the rendered picture

Objects (Model/ColorOpt.lean): `optCell / optimizeRow / optimizeRows` = the loops of `ColorOptimizer::optimize`
with the carried attribute; `flatCells / flatLayer` = `Buffer::flat_clone(false)` built on C13's `getChar`;
`renderCell` = the pixel block one cell contributes to `Buffer::render_to_rgba`, `renderDoc` the blocks of the
whole buffer rectangle (`imageBytes` lays them out as the RGBA vector, so equal blocks = equal bytes).
Fonts (`Nat → Option Font`), the palette (`Nat → Rgb`), the half-block classifier `hb`, the stack, the buffer
size, `is_terminal_buffer` and `normalize_whitespaces` are universally quantified everywhere.

`FontOk` is what the proof needs from a font (every glyph has `height` data bytes, bit count
= width·height ≠ 0 ⇒ at most 8 columns and every in-range bit set, the glyph of `' '` blank when any glyph is); `builtin_fonts_ok` discharges it for
every built-in font from the regenerated summaries (`Gen/Fonts.lean`, cross-checked against the compiled
crate by the harness on every run).

## The whole-document theorem is now FULL (`optimize_preserves_document`)

The property reads: for every document, `renderDoc (getChar [flatLayer (optimizeDoc S)]) = renderDoc (getChar S)` with
`FontsOk` as the only hypothesis.  On the pinned tree that statement was FALSE at two sites of `Buffer::flat_clone(false)`,
both reproduced on the real code and both repaired in `flat_clone` (known_findings.txt, `fixed:` lines
`flat_clone_resolves_transparent`, `flat_clone_invisible_font_page`):
  (1) the flat clone stored the composited cells in an OPAQUE layer, so a visible composited cell that still carried
      `TRANSPARENT_COLOR` (no opaque layer beneath it) was resolved against a default cell when read back → colour 0
      (colour 8 when bold) instead of RGB black.  Repair: the flat layer has an alpha channel, `Buffer::get_char` of the
      clone returns the pending cell unresolved, exactly as the stack does.
  (2) an invisible composited cell (non-terminal buffer, only alpha layers there) carries the `default_font_page` p of the
      lowest covering layer and is rendered with font p, but showed as `AttributedChar::default()` on page 0 in the clone;
      the pictures differed when font p is smaller than font 0.  Repair: such a cell is stored as a default blank ON PAGE p
      (`flatStore`), which renders exactly like the invisible cell (`flat_store_renders_same`).
The model follows the repaired code; the two documents that were the witnesses are now `example`s of the theorem
(`docT`, `docP`).  `tools/gens/coloropt.py` pins both repaired lines of `flat_clone` (the translator fails if one goes).
`FontsOk` itself is needed (`space_not_blank_changes_picture`, `stray_bits_changes_picture`): it excludes only
fonts that are not built in (see Props/C12Fonts.lean for the exact characterisation on loaded fonts). -/
namespace IcyVerif.C12
open IcyVerif.Comp IcyVerif.ColorOpt IcyVerif.Gen.Fonts

variable (fonts : Nat → Option Font) (pal : Nat → Rgb) (w0 h0 : Nat)

/-- Foreground (and flags, i.e. bold) of a blank glyph are invisible. -/
theorem blank_fg_irrelevant (c : Cell) (f : Font) (rows : List Nat)
    (hfont : fonts c.attr.page = some f) (hg : f.glyph c.ch = some rows) (hb : ones rows = 0) (fg flags : Nat) :
    renderCell fonts pal w0 h0 { c with attr := { c.attr with fg := fg, flags := flags } }
      = renderCell fonts pal w0 h0 c :=
  renderCell_blank fonts pal w0 h0 c _ f rows rows hfont hg hg hb hb rfl rfl rfl

/-- Background of a glyph with every in-range bit set is invisible. -/
theorem solid_bg_irrelevant (c : Cell) (f : Font) (rows : List Nat)
    (hfont : fonts c.attr.page = some f) (hg : f.glyph c.ch = some rows) (hw : f.w ≤ 8)
    (hfull : isFull f.w f.h rows = true) (bg : Nat) :
    renderCell fonts pal w0 h0 { c with attr := { c.attr with bg := bg } } = renderCell fonts pal w0 h0 c :=
  renderCell_full fonts pal w0 h0 c _ f rows hfont hg hw hfull rfl rfl rfl rfl

/-- Which blank character is used is invisible (same font, same number of data bytes). -/
theorem blank_char_irrelevant (c : Cell) (f : Font) (rows rows' : List Nat) (ch' : Nat)
    (hfont : fonts c.attr.page = some f) (hg : f.glyph c.ch = some rows) (hg' : f.glyph ch' = some rows')
    (hb : ones rows = 0) (hb' : ones rows' = 0) (hl : rows'.length = rows.length) :
    renderCell fonts pal w0 h0 { c with ch := ch' } = renderCell fonts pal w0 h0 c :=
  renderCell_blank fonts pal w0 h0 c _ f rows rows' hfont hg hg' hb hb' hl rfl rfl

/-- A glyph classified `Block` by `get_shape` in a font that is `FontOk` really has no background pixel (and the font
    has at most 8 columns, so every rendered column is one of the counted bits). -/
theorem block_shape_is_full (f : Font) (hf : FontOk f) (ch : Nat) (rows : List Nat)
    (hg : f.glyph ch = some rows) (hs : shape f rows = .block) : f.w ≤ 8 ∧ isFull f.w f.h rows = true :=
  hf.block_full ch rows hg (shape_block_ne hs) (shape_block hs)

/-- One step of the optimiser, any carried attribute: the cell renders as before. -/
theorem optimize_cell_preserves_render (norm : Bool) (carry : Attr) (c c' : Cell)
    (hok : FontsOk fonts) (h : optCell fonts norm carry c = some c') :
    renderCell fonts pal w0 h0 c' = renderCell fonts pal w0 h0 c :=
  optCell_render pal w0 h0 hok h

/-- `render (optimizeRow norm carry row) = render row` for EVERY row and EVERY carried attribute
    (induction on the row). -/
theorem optimize_preserves_row (norm : Bool) (carry carry' : Attr) (row row' : List Cell)
    (hok : FontsOk fonts) (h : optimizeRow fonts norm carry row = some (row', carry')) :
    row'.map (renderCell fonts pal w0 h0) = row.map (renderCell fonts pal w0 h0) :=
  optimizeRow_render pal w0 h0 hok h

/-- … and for every list of rows (the carry runs on from row to row). -/
theorem optimize_preserves_rows (norm : Bool) (carry carry' : Attr) (rows rows' : List (List Cell))
    (hok : FontsOk fonts) (h : optimizeRows fonts norm carry rows = some (rows', carry')) :
    rows'.map (List.map (renderCell fonts pal w0 h0)) = rows.map (List.map (renderCell fonts pal w0 h0)) := by
  induction rows generalizing carry carry' rows' with
  | nil =>
    simp only [optimizeRows, Option.some.injEq, Prod.mk.injEq] at h
    obtain ⟨rfl, _⟩ := h
    rfl
  | cons a rows ih =>
    unfold optimizeRows at h
    cases ha : optimizeRow fonts norm carry a with
    | none => rw [ha] at h; cases h
    | some p =>
      obtain ⟨a', ka⟩ := p
      rw [ha] at h
      simp only at h
      cases hr : optimizeRows fonts norm ka rows with
      | none => rw [hr] at h; cases h
      | some q =>
        obtain ⟨rs', kk⟩ := q
        rw [hr] at h
        simp only [Option.some.injEq, Prod.mk.injEq] at h
        obtain ⟨rfl, _⟩ := h
        simp only [List.map_cons]
        rw [optimizeRow_render pal w0 h0 hok ha, ih _ _ _ hr]

/-- The optimised buffer has the size of the original: `H` rows of `W` cells. -/
theorem optimize_preserves_size (norm : Bool) (hb : Cell → Nat × Nat) (isTerm : Bool) (S : List Layer) (W H : Nat)
    (cells' : List (List Cell)) (hopt : optimizeDoc fonts norm hb isTerm S W H = some cells') :
    cells'.length = H ∧ ∀ (y : Nat) (r : List Cell), cells'[y]? = some r → r.length = W := by
  unfold optimizeDoc at hopt
  cases ho : optimizeRows fonts norm defaultCell.attr (flatCells hb isTerm S W H) with
  | none => rw [ho] at hopt; cases hopt
  | some p =>
    obtain ⟨cs, k'⟩ := p
    rw [ho] at hopt
    simp only [Option.map_some, Option.some.injEq] at hopt
    subst hopt
    obtain ⟨hlen, hp⟩ := optimizeRows_get ho
    refine ⟨by rw [hlen, flatCells_length], ?_⟩
    intro y r hr
    have hy : y < H := by
      have := (List.getElem?_eq_some_iff.mp hr).1
      rw [hlen, flatCells_length] at this
      exact this
    cases W with
    | zero =>
      have : (flatCells hb isTerm S 0 H)[y]? = some [] := by
        unfold flatCells
        rw [List.getElem?_map, List.getElem?_range hy]; rfl
      exact (hp y [] r this hr).1
    | succ W =>
      obtain ⟨row, hrow, hrl, _⟩ := flatCells_get hb isTerm S (W + 1) H 0 y (Nat.succ_pos W) hy
      rw [(hp y row r hrow hr).1, hrl]

/-- `flat_clone(false)`: `Buffer::get_char` of the clone returns what was stored for the composited cell. -/
theorem flat_clone_same_cells (hb : Cell → Nat × Nat) (isTerm : Bool) (S : List Layer) (W H x y : Nat)
    (hx : x < W) (hy : y < H) :
    getChar hb isTerm [flatLayer W H (flatCells hb isTerm S W H)] x y = flatStore (getChar hb isTerm S x y) := by
  obtain ⟨row, hrow, _, hrx⟩ := flatCells_get hb isTerm S W H x y hx hy
  rw [getChar_flatLayer hb isTerm W H _ x y hx hy row _ hrow hrx]
  exact flatView_of_visible isTerm (flatStore_visible _)

/-- … which is the composited cell itself when that is visible (also when it carries a transparent colour). -/
theorem flat_store_id (c : Cell) (hv : c.isVisible = true) : flatStore c = c := flatStore_of_visible hv

/-- An invisible composited cell is exactly `AttributedChar::invisible()` with some font page (C13's walk). -/
theorem invisible_composite_is_invisible_cell (hb : Cell → Nat × Nat) (isTerm : Bool) (S : List Layer) (x y : Int)
    (h : (getChar hb isTerm S x y).isVisible = false) : ∃ p, getChar hb isTerm S x y = invisibleCell.withPage p := by
  rcases getChar_shape hb isTerm S x y with hv | he
  · rw [hv] at h; cases h
  · exact he

/-- What the clone stores renders exactly like the composited cell, for every stack and position and for EVERY font
    table and palette (no font hypothesis: an invisible cell and a default blank on the same page are the same glyph in the
    same colours). -/
theorem flat_store_renders_same (hb : Cell → Nat × Nat) (isTerm : Bool) (S : List Layer) (x y : Int) :
    renderCell fonts pal w0 h0 (flatStore (getChar hb isTerm S x y)) = renderCell fonts pal w0 h0 (getChar hb isTerm S x y) := by
  rcases getChar_shape hb isTerm S x y with hv | ⟨p, he⟩
  · rw [flatStore_of_visible hv]
  · rw [he, flatStore_invisible]
    exact renderCell_default_invisible fonts pal w0 h0 p

/-- `flat_clone(false)` alone never changes the picture: every stack, size, font table, palette. -/
theorem flat_clone_preserves_picture (hb : Cell → Nat × Nat) (isTerm : Bool) (S : List Layer) (W H : Nat) :
    renderDoc fonts pal w0 h0 (fun x y => getChar hb isTerm [flatLayer W H (flatCells hb isTerm S W H)] x y) W H
      = renderDoc fonts pal w0 h0 (fun x y => getChar hb isTerm S x y) W H := by
  unfold renderDoc
  apply List.map_congr_left
  intro y hy
  apply List.map_congr_left
  intro x hx
  simp only
  rw [flat_clone_same_cells hb isTerm S W H x y (List.mem_range.mp hx) (List.mem_range.mp hy)]
  exact flat_store_renders_same fonts pal w0 h0 hb isTerm S x y

/-- **The property, full strength.**  Whole documents — every layer stack (any number of layers, alpha, offsets, hidden,
    all three modes), every buffer size, both settings of `is_terminal_buffer` and of `normalize_whitespaces`, every
    palette, every half-block classifier, every font table that is `FontsOk` (all built-in fonts: `builtin_font_ok`),
    any colours incl. TRANSPARENT_COLOR, any flags (bold): whenever the optimiser returns (`hopt`: no `unwrap()` on a
    missing font page / glyph, characterised exactly by `optimize_defined_iff`), the optimised buffer renders to the same
    blocks as the original.  (`ice_mode`, `palette_mode`, `font_mode`, `buffer_type` are copied by `flat_clone` and read
    neither by the optimiser nor by `render_to_rgba`; the harness varies the ice mode to tie that.) -/
theorem optimize_preserves_document (norm : Bool) (hb : Cell → Nat × Nat) (isTerm : Bool) (S : List Layer)
    (W H : Nat) (cells' : List (List Cell))
    (hok : FontsOk fonts)
    (hopt : optimizeDoc fonts norm hb isTerm S W H = some cells') :
    renderDoc fonts pal w0 h0 (fun x y => getChar hb isTerm [flatLayer W H cells'] x y) W H
      = renderDoc fonts pal w0 h0 (fun x y => getChar hb isTerm S x y) W H := by
  have hsize := optimize_preserves_size fonts norm hb isTerm S W H cells' hopt
  unfold optimizeDoc at hopt
  cases ho : optimizeRows fonts norm defaultCell.attr (flatCells hb isTerm S W H) with
  | none => rw [ho] at hopt; cases hopt
  | some p =>
    obtain ⟨cs, k'⟩ := p
    rw [ho] at hopt
    simp only [Option.map_some, Option.some.injEq] at hopt
    subst hopt
    obtain ⟨_, hp⟩ := optimizeRows_get ho
    unfold renderDoc
    apply List.map_congr_left
    intro y hy
    apply List.map_congr_left
    intro x hx
    have hy := List.mem_range.mp hy
    have hx := List.mem_range.mp hx
    obtain ⟨row, hrow, hrl, hrx⟩ := flatCells_get hb isTerm S W H x y hx hy
    cases hr' : cs[y]? with
    | none =>
      have := List.getElem?_eq_none_iff.mp hr'
      rw [hsize.1] at this; omega
    | some r' =>
    have hlen' := hsize.2 y _ hr'
    cases hc' : r'[x]? with
    | none =>
      have := List.getElem?_eq_none_iff.mp hc'
      rw [hlen'] at this; omega
    | some c' =>
    obtain ⟨k0, hk0⟩ := (hp y row _ hrow hr').2 x _ _ hrx hc'
    simp only
    rw [getChar_flatLayer hb isTerm W H cs x y hx hy _ _ hr' hc']
    have hv' : c'.isVisible = true := by rw [optCell_isVisible hk0]; exact flatStore_visible _
    rw [flatView_of_visible isTerm hv', optCell_render pal w0 h0 hok hk0]
    exact flat_store_renders_same fonts pal w0 h0 hb isTerm S x y

/-- The optimiser returns (neither `unwrap()` panics) exactly when every composited cell of the buffer rectangle names a
    font page of the table and a code point of that font. -/
theorem optimize_defined_iff (norm : Bool) (hb : Cell → Nat × Nat) (isTerm : Bool) (S : List Layer) (W H : Nat) :
    (∃ cells', optimizeDoc fonts norm hb isTerm S W H = some cells') ↔
      ∀ x y : Nat, x < W → y < H → HasGlyph fonts (getChar hb isTerm S x y) := by
  have hstore : ∀ x y : Nat, HasGlyph fonts (flatStore (getChar hb isTerm S x y)) ↔ HasGlyph fonts (getChar hb isTerm S x y) := by
    intro x y
    rcases getChar_shape hb isTerm S x y with hv | ⟨p, he⟩
    · rw [flatStore_of_visible hv]
    · rw [he, flatStore_invisible]; exact Iff.rfl
  have hdoc : (∃ cells', optimizeDoc fonts norm hb isTerm S W H = some cells') ↔
      ∃ p, optimizeRows fonts norm defaultCell.attr (flatCells hb isTerm S W H) = some p := by
    unfold optimizeDoc
    constructor
    · rintro ⟨c, h⟩
      cases ho : optimizeRows fonts norm defaultCell.attr (flatCells hb isTerm S W H) with
      | none => rw [ho] at h; cases h
      | some p => exact ⟨p, rfl⟩
    · rintro ⟨p, h⟩; rw [h]; exact ⟨_, rfl⟩
  rw [hdoc, optimizeRows_defined_iff]
  constructor
  · intro h x y hx hy
    obtain ⟨row, hrow, _, hrx⟩ := flatCells_get hb isTerm S W H x y hx hy
    exact (hstore x y).mp (h y row x _ hrow hrx)
  · intro h y row x c hrow hc
    have hy : y < H := by
      have := (List.getElem?_eq_some_iff.mp hrow).1
      rw [flatCells_length] at this; exact this
    have hxW : x < W := by
      by_cases hW : W = 0
      · subst hW
        have : (flatCells hb isTerm S 0 H)[y]? = some [] := by
          unfold flatCells
          rw [List.getElem?_map, List.getElem?_range hy]; rfl
        rw [this] at hrow; cases hrow; simp at hc
      · obtain ⟨row0, hrow0, hrl, _⟩ := flatCells_get hb isTerm S W H 0 y (Nat.pos_of_ne_zero hW) hy
        rw [hrow0] at hrow; cases hrow
        have := (List.getElem?_eq_some_iff.mp hc).1
        rw [hrl] at this; exact this
    obtain ⟨row', hrow', _, hrx⟩ := flatCells_get hb isTerm S W H x y hxW hy
    rw [hrow'] at hrow; cases hrow
    rw [hrx] at hc; cases hc
    exact (hstore x y).mpr (h x y hxW hy)

/-- equal blocks = equal RGBA bytes (and equal panic behaviour) -/
theorem same_blocks_same_bytes (a b : List (List (List (List Px)))) (h : a = b) (hh : Nat) :
    imageBytes a hh = imageBytes b hh ∧ hasPanic a = hasPanic b := by subst h; exact ⟨rfl, rfl⟩

/-! ## every built-in font is `FontOk` -/

/-- every regenerated summary (ANSI slots 0..=42, Viewdata, every SAUCE font) passes the check, by evaluation -/
theorem builtin_fonts_ok : allFonts.all SummaryOk = true := by decide +kernel

/-- hence every built-in font (a font whose per-glyph summary is one of the regenerated ones) is `FontOk` -/
theorem builtin_font_ok (f : Font) (s : FontSum) (hs : s ∈ allFonts) (hsum : Summarizes f s) : FontOk f :=
  fontOk_of_summary hsum ((List.all_eq_true.mp builtin_fonts_ok) s hs)

/-- **The property on its quantifier**: every font slot holds a built-in font (its per-glyph summary is one of the
    regenerated ones, which the harness cross-checks against the compiled crate on every run). -/
theorem optimize_preserves_document_builtin (norm : Bool) (hb : Cell → Nat × Nat) (isTerm : Bool) (S : List Layer)
    (W H : Nat) (cells' : List (List Cell))
    (hbuiltin : ∀ p f, fonts p = some f → ∃ s ∈ allFonts, Summarizes f s)
    (hopt : optimizeDoc fonts norm hb isTerm S W H = some cells') :
    renderDoc fonts pal w0 h0 (fun x y => getChar hb isTerm [flatLayer W H cells'] x y) W H
      = renderDoc fonts pal w0 h0 (fun x y => getChar hb isTerm S x y) W H := by
  apply optimize_preserves_document fonts pal w0 h0 norm hb isTerm S W H cells' _ hopt
  intro p f hf
  obtain ⟨s, hs, hsum⟩ := hbuiltin p f hf
  exact builtin_font_ok f s hs hsum

/-! ## the two documents that violated the property on the pinned tree (now instances of the theorem), and the
witnesses that `FontsOk` cannot be dropped -/
section witnesses
open IcyVerif.Gen.Comp

/-- an 8x2 font: blank `' '`, an `'A'`-like glyph, a full block -/
def fA : Font := ⟨8, 2, fun ch => if ch = 32 then some [0, 0] else if ch = 65 then some [24, 36]
  else if ch = 219 then some [255, 255] else none⟩
/-- an 8x1 font with a blank `' '` -/
def fSmall : Font := ⟨8, 1, fun ch => if ch = 32 then some [0] else none⟩
def fontsW : Nat → Option Font := fun p => if p = 0 then some fA else if p = 1 then some fSmall else none
/-- DOS-like palette: 0 black, 8 dark grey; RGB-encoded black (= TRANSPARENT_COLOR) is black -/
def palW : Nat → Rgb := fun c => if c = transparentColor then (0, 0, 0) else if c = 0 then (0, 0, 0)
  else if c = 8 then (85, 85, 85) else (c, c, c)
def hbW : Cell → Nat × Nat := fun c => (c.attr.bg, c.attr.bg)

/-- one alpha layer, a bold `'A'` whose foreground is TRANSPARENT_COLOR (= RGB black), nothing beneath -/
def docT : List Layer := [⟨true, true, .normal, 0, 0, 1, 1, 0, [[⟨65, ⟨transparentColor, 1, 1, 0⟩⟩]]⟩]

-- (1) before the repair the clone resolved the foreground to colour 0 and bold made it colour 8 (grey, not black);
-- now the cell is read back unresolved and the picture is the same
example :
    optimizeDoc fontsW false hbW false docT 1 1 = some [[⟨65, ⟨transparentColor, 1, 1, 0⟩⟩]] ∧
    getChar hbW false [flatLayer 1 1 [[⟨65, ⟨transparentColor, 1, 1, 0⟩⟩]]] 0 0 = ⟨65, ⟨transparentColor, 1, 1, 0⟩⟩ ∧
    renderDoc fontsW palW 8 2 (fun x y => getChar hbW false [flatLayer 1 1 [[⟨65, ⟨transparentColor, 1, 1, 0⟩⟩]]] x y) 1 1
      = renderDoc fontsW palW 8 2 (fun x y => getChar hbW false docT x y) 1 1 := by
  refine ⟨?_, ?_, ?_⟩ <;> decide +kernel

/-- one empty alpha layer whose `default_font_page` is 1 (font 8x1), font 0 is 8x2 -/
def docP : List Layer := [⟨true, true, .normal, 0, 0, 1, 1, 1, []⟩]

-- (2) before the repair the clone painted the second pixel row of the invisible cell (font 0 instead of font 1);
-- now the cell is stored as a default blank on page 1 and the second row stays unwritten in both pictures
example :
    getChar hbW false docP 0 0 = invisibleCell.withPage 1 ∧
    optimizeDoc fontsW false hbW false docP 1 1 = some [[defaultCell.withPage 1]] ∧
    renderDoc fontsW palW 8 2 (fun x y => getChar hbW false [flatLayer 1 1 [[defaultCell.withPage 1]]] x y) 1 1
      = renderDoc fontsW palW 8 2 (fun x y => getChar hbW false docP x y) 1 1 := by
  refine ⟨?_, ?_, ?_⟩ <;> decide +kernel

/-! `FontOk` cannot be dropped either (fonts that are NOT built in; recorded as findings
`custom_font_space_not_blank`, `custom_font_stray_bits`): -/

/-- a font whose `' '` shows pixels while NUL is blank -/
def fB : Font := ⟨8, 1, fun ch => if ch = 32 then some [24] else if ch = 0 then some [0] else none⟩
def fontsB : Nat → Option Font := fun p => if p = 0 then some fB else none
def docB : List Layer := [⟨true, false, .normal, 0, 0, 1, 1, 0, [[⟨0, ⟨7, 0, 0, 0⟩⟩]]⟩]

/-- normalisation turns the blank NUL into the non-blank `' '` -/
theorem space_not_blank_changes_picture :
    optimizeDoc fontsB true hbW false docB 1 1 = some [[⟨32, ⟨7, 0, 0, 0⟩⟩]] ∧
    renderDoc fontsB palW 8 1 (fun x y => getChar hbW false [flatLayer 1 1 [[⟨32, ⟨7, 0, 0, 0⟩⟩]]] x y) 1 1
      ≠ renderDoc fontsB palW 8 1 (fun x y => getChar hbW false docB x y) 1 1 := by
  constructor
  · decide +kernel
  · decide +kernel

/-- a 6-wide font; glyph 219 has 6 set bits, two of them outside the width -/
def fC : Font := ⟨6, 1, fun ch => if ch = 32 then some [0] else if ch = 65 then some [48]
  else if ch = 219 then some [243] else none⟩
def fontsC : Nat → Option Font := fun p => if p = 0 then some fC else none
def docC : List Layer := [⟨true, false, .normal, 0, 0, 2, 1, 0, [[⟨65, ⟨7, 5, 0, 0⟩⟩, ⟨219, ⟨1, 2, 0, 0⟩⟩]]⟩]

/-- `get_shape` counts the two stray bits, calls the glyph a Block and replaces its (visible) background -/
theorem stray_bits_changes_picture :
    optimizeDoc fontsC false hbW false docC 2 1 = some [[⟨65, ⟨7, 5, 0, 0⟩⟩, ⟨219, ⟨1, 5, 0, 0⟩⟩]] ∧
    renderDoc fontsC palW 6 1 (fun x y => getChar hbW false
        [flatLayer 2 1 [[⟨65, ⟨7, 5, 0, 0⟩⟩, ⟨219, ⟨1, 5, 0, 0⟩⟩]]] x y) 2 1
      ≠ renderDoc fontsC palW 6 1 (fun x y => getChar hbW false docC x y) 2 1 := by
  constructor
  · decide +kernel
  · decide +kernel
end witnesses

/-! ## non-vacuity -/
section nonvacuity
theorem fA_ok : FontOk fA := by
  refine ⟨?_, ?_, ?_⟩
  · intro ch rows h
    unfold fA at h
    simp only at h
    split at h
    · cases h; rfl
    · split at h
      · cases h; rfl
      · split at h
        · cases h; rfl
        · cases h
  · intro ch rows h _
    unfold fA at h
    simp only at h
    split at h
    · cases h; rename_i hh; revert hh; decide
    · split at h
      · cases h; rename_i hh; revert hh; decide
      · split at h
        · cases h; decide
        · cases h
  · intro _ _ rows _ _ h
    have : fA.glyph spaceCh = some [0, 0] := by decide
    rw [this] at h; cases h; decide

/-- a 3x1 document: 'A' (3 on 1), a blank (5 on 2), a full block (4 on 6) -/
def docN : List Layer :=
  [⟨true, false, .normal, 0, 0, 3, 1, 0, [[⟨65, ⟨3, 1, 0, 0⟩⟩, ⟨32, ⟨5, 2, 1, 0⟩⟩, ⟨219, ⟨4, 6, 0, 0⟩⟩]]⟩]
def fontsN : Nat → Option Font := fun p => if p = 0 then some fA else none

example : FontsOk fontsN := by
  intro p f h
  unfold fontsN at h
  split at h
  · cases h; exact fA_ok
  · cases h

-- the rewrites really happen: the blank inherits foreground 3, the block inherits background 2
example : optimizeDoc fontsN true hbW false docN 3 1 =
    some [[⟨65, ⟨3, 1, 0, 0⟩⟩, ⟨32, ⟨3, 2, 1, 0⟩⟩, ⟨219, ⟨4, 2, 0, 0⟩⟩]] := by decide +kernel
-- and the picture is the same (the conclusion of the theorem, here by evaluation)
example : renderDoc fontsN palW 8 2 (fun x y => getChar hbW false
      [flatLayer 3 1 [[⟨65, ⟨3, 1, 0, 0⟩⟩, ⟨32, ⟨3, 2, 1, 0⟩⟩, ⟨219, ⟨4, 2, 0, 0⟩⟩]]] x y) 3 1
    = renderDoc fontsN palW 8 2 (fun x y => getChar hbW false docN x y) 3 1 := by decide +kernel
-- the hypothesis `hopt` of the theorem is characterised by `optimize_defined_iff`: here every cell has its glyph
example : ∀ x : Nat, x < 3 → ∀ y : Nat, y < 1 →
    (fontsN (getChar hbW false docN x y).attr.page).isSome = true := by decide +kernel
-- a summary in the regenerated table, its check, and a blank / full glyph of the default font
example : 0 < allFonts.length ∧ SummaryOk f_cp437 = true ∧ f_cp437.ones[32]? = some 0 ∧
    f_cp437.ones[219]? = some 128 ∧ f_cp437.full[219]? = some 1 := by decide +kernel
example : shape fA [0, 0] = .whitespace ∧ shape fA [255, 255] = .block ∧ shape fA [24, 36] = .mixed := by decide
end nonvacuity

end IcyVerif.C12
