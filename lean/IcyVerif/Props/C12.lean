import IcyVerif.Lemmas.ColorOptDoc
import IcyVerif.Lemmas.CompVisible
/-! # C12 — default (colour-optimised) saving never changes the rendered picture

Objects (Model/ColorOpt.lean): `optCell / optimizeRow / optimizeRows` = the loops of `ColorOptimizer::optimize`
with the carried attribute; `flatCells / flatLayer` = `Buffer::flat_clone(false)` built on C13's `getChar`;
`renderCell` = the pixel block one cell contributes to `Buffer::render_to_rgba`, `renderDoc` the blocks of the
whole buffer rectangle (`imageBytes` lays them out as the RGBA vector, so equal blocks = equal bytes).
Fonts (`Nat → Option Font`), the palette (`Nat → Rgb`), the half-block classifier `hb`, the stack, the buffer
size, `is_terminal_buffer` and `normalize_whitespaces` are universally quantified everywhere.

`FontOk` is what the proof needs from a font (≤ 8 columns, every glyph has `height` data bytes, bit count
= width·height ⇒ every in-range bit set, the glyph of `' '` blank); `builtin_fonts_ok` discharges it for
every built-in font from the regenerated summaries (`Gen/Fonts.lean`, cross-checked against the compiled
crate by the harness on every run).

## Full statement and why the proved one is `_partial`

The property reads: for every document, `renderDoc (getChar [flatLayer (optimizeDoc S)]) = renderDoc (getChar S)`
with `FontsOk` as the only hypothesis.  That statement is FALSE for the code as it is — `flat_clone(false)`
stores the composited cells in an OPAQUE layer, so `Buffer::get_char` of the clone differs from the original at
  (1) visible composited cells that still carry `TRANSPARENT_COLOR` (no opaque layer beneath them): the clone
      resolves the colour against a default cell → colour 0 (and a bold cell then renders colour 8), while the
      original renders RGB black — `transparent_unresolved_changes_picture` (witness);
  (2) invisible composited cells: the clone shows `AttributedChar::default()` on font page 0, the original
      renders the `' '` of the lowest covering layer's `default_font_page`; the pictures differ when that font is
      smaller than font 0 — `invisible_font_page_changes_picture` (witness).
Both are reproduced on the real code by the harness and recorded in known_findings.txt
(`flat_clone_resolves_transparent`, `flat_clone_invisible_font_page`).  `optimize_preserves_picture_partial`
excludes exactly those two sites (`hTr`, `hInv`); `invisible_cell_renders_as_default` shows that `hInv` holds
whenever the cell's font page has a font at least as large as font 0 (in particular for page 0).
`FontsOk` itself is needed too (`space_not_blank_changes_picture`, `stray_bits_changes_picture`): it excludes only
fonts that are not built in. -/
namespace IcyVerif.C12
open IcyVerif.Comp IcyVerif.ColorOpt IcyVerif.Gen.Fonts

variable (fonts : Nat → Option Font) (pal : Nat → Rgb) (w0 h0 : Nat)

/-- Foreground (and flags, i.e. bold) of a blank glyph are invisible. -/
theorem blank_fg_irrelevant (c : Cell) (f : Font) (rows : List Nat)
    (hfont : fonts c.attr.page = some f) (hg : f.glyph c.ch = some rows) (hb : ones rows = 0) (fg flags : Nat) :
    renderCell fonts pal w0 h0 { c with attr := { c.attr with fg := fg, flags := flags } }
      = renderCell fonts pal w0 h0 c :=
  renderCell_blank fonts pal w0 h0 c _ f rows rows hfont hg hg hb hb rfl rfl rfl

/-- Background of a glyph with every in-range bit set is invisible. -/
theorem solid_bg_irrelevant (c : Cell) (f : Font) (rows : List Nat)
    (hfont : fonts c.attr.page = some f) (hg : f.glyph c.ch = some rows) (hw : f.w ≤ 8)
    (hfull : isFull f.w f.h rows = true) (bg : Nat) :
    renderCell fonts pal w0 h0 { c with attr := { c.attr with bg := bg } } = renderCell fonts pal w0 h0 c :=
  renderCell_full fonts pal w0 h0 c _ f rows hfont hg hw hfull rfl rfl rfl rfl

/-- Which blank character is used is invisible (same font, same number of data bytes). -/
theorem blank_char_irrelevant (c : Cell) (f : Font) (rows rows' : List Nat) (ch' : Nat)
    (hfont : fonts c.attr.page = some f) (hg : f.glyph c.ch = some rows) (hg' : f.glyph ch' = some rows')
    (hb : ones rows = 0) (hb' : ones rows' = 0) (hl : rows'.length = rows.length) :
    renderCell fonts pal w0 h0 { c with ch := ch' } = renderCell fonts pal w0 h0 c :=
  renderCell_blank fonts pal w0 h0 c _ f rows rows' hfont hg hg' hb hb' hl rfl rfl

/-- A glyph classified `Block` by `get_shape` in a font that is `FontOk` really has no background pixel. -/
theorem block_shape_is_full (f : Font) (hf : FontOk f) (ch : Nat) (rows : List Nat)
    (hg : f.glyph ch = some rows) (hs : shape f rows = .block) : isFull f.w f.h rows = true :=
  hf.block_full ch rows hg (shape_block hs)

/-- One step of the optimiser, any carried attribute: the cell renders as before. -/
theorem optimize_cell_preserves_render (norm : Bool) (carry : Attr) (c c' : Cell)
    (hok : FontsOk fonts) (h : optCell fonts norm carry c = some c') :
    renderCell fonts pal w0 h0 c' = renderCell fonts pal w0 h0 c :=
  optCell_render pal w0 h0 hok h

/-- `render (optimizeRow norm carry row) = render row` for EVERY row and EVERY carried attribute
    (induction on the row). -/
theorem optimize_preserves_row (norm : Bool) (carry carry' : Attr) (row row' : List Cell)
    (hok : FontsOk fonts) (h : optimizeRow fonts norm carry row = some (row', carry')) :
    row'.map (renderCell fonts pal w0 h0) = row.map (renderCell fonts pal w0 h0) :=
  optimizeRow_render pal w0 h0 hok h

/-- … and for every list of rows (the carry runs on from row to row). -/
theorem optimize_preserves_rows (norm : Bool) (carry carry' : Attr) (rows rows' : List (List Cell))
    (hok : FontsOk fonts) (h : optimizeRows fonts norm carry rows = some (rows', carry')) :
    rows'.map (List.map (renderCell fonts pal w0 h0)) = rows.map (List.map (renderCell fonts pal w0 h0)) := by
  induction rows generalizing carry carry' rows' with
  | nil =>
    simp only [optimizeRows, Option.some.injEq, Prod.mk.injEq] at h
    obtain ⟨rfl, _⟩ := h
    rfl
  | cons a rows ih =>
    unfold optimizeRows at h
    cases ha : optimizeRow fonts norm carry a with
    | none => rw [ha] at h; cases h
    | some p =>
      obtain ⟨a', ka⟩ := p
      rw [ha] at h
      simp only at h
      cases hr : optimizeRows fonts norm ka rows with
      | none => rw [hr] at h; cases h
      | some q =>
        obtain ⟨rs', kk⟩ := q
        rw [hr] at h
        simp only [Option.some.injEq, Prod.mk.injEq] at h
        obtain ⟨rfl, _⟩ := h
        simp only [List.map_cons]
        rw [optimizeRow_render pal w0 h0 hok ha, ih _ _ _ hr]

/-- The optimised buffer has the size of the original: `H` rows of `W` cells. -/
theorem optimize_preserves_size (norm : Bool) (hb : Cell → Nat × Nat) (isTerm : Bool) (S : List Layer) (W H : Nat)
    (cells' : List (List Cell)) (hopt : optimizeDoc fonts norm hb isTerm S W H = some cells') :
    cells'.length = H ∧ ∀ (y : Nat) (r : List Cell), cells'[y]? = some r → r.length = W := by
  unfold optimizeDoc at hopt
  cases ho : optimizeRows fonts norm defaultCell.attr (flatCells hb isTerm S W H) with
  | none => rw [ho] at hopt; cases hopt
  | some p =>
    obtain ⟨cs, k'⟩ := p
    rw [ho] at hopt
    simp only [Option.map_some, Option.some.injEq] at hopt
    subst hopt
    obtain ⟨hlen, hp⟩ := optimizeRows_get ho
    refine ⟨by rw [hlen, flatCells_length], ?_⟩
    intro y r hr
    have hy : y < H := by
      have := (List.getElem?_eq_some_iff.mp hr).1
      rw [hlen, flatCells_length] at this
      exact this
    cases W with
    | zero =>
      have : (flatCells hb isTerm S 0 H)[y]? = some [] := by
        unfold flatCells
        rw [List.getElem?_map, List.getElem?_range hy]; rfl
      exact (hp y [] r this hr).1
    | succ W =>
      obtain ⟨row, hrow, hrl, _⟩ := flatCells_get hb isTerm S (W + 1) H 0 y (Nat.succ_pos W) hy
      rw [(hp y row r hrow hr).1, hrl]

/-- `flat_clone(false)`: what `Buffer::get_char` of the clone returns is `flatView` of the composited cell. -/
theorem flat_clone_same_cells (hb : Cell → Nat × Nat) (isTerm : Bool) (S : List Layer) (W H x y : Nat)
    (hx : x < W) (hy : y < H) :
    getChar hb isTerm [flatLayer W H (flatCells hb isTerm S W H)] x y = flatView hb (getChar hb isTerm S x y) := by
  obtain ⟨row, hrow, _, hrx⟩ := flatCells_get hb isTerm S W H x y hx hy
  exact getChar_flatLayer hb isTerm W H _ x y hx hy row _ hrow hrx

/-- … which is the composited cell itself when that is visible without transparent colour. -/
theorem flat_view_id (hb : Cell → Nat × Nat) (c : Cell) (hv : c.isVisible = true) (ht : c.hasTransparentColor = false) :
    flatView hb c = c := by
  unfold flatView; rw [hv, ht]; rfl

/-- Whole documents, both settings of `normalize_whitespaces`, every stack / size / palette / font table that
    is `FontsOk`: the optimised buffer renders to the same blocks as the original — except at the two sites
    named in the header (`hTr`, `hInv`). -/
theorem optimize_preserves_picture_partial (norm : Bool) (hb : Cell → Nat × Nat) (isTerm : Bool) (S : List Layer)
    (W H : Nat) (cells' : List (List Cell))
    (hok : FontsOk fonts)
    (hopt : optimizeDoc fonts norm hb isTerm S W H = some cells')
    (hTr : ∀ x y : Nat, x < W → y < H → (getChar hb isTerm S x y).isVisible = true →
      (getChar hb isTerm S x y).hasTransparentColor = false)
    (hInv : ∀ x y : Nat, x < W → y < H → (getChar hb isTerm S x y).isVisible = false →
      renderCell fonts pal w0 h0 defaultCell = renderCell fonts pal w0 h0 (getChar hb isTerm S x y)) :
    renderDoc fonts pal w0 h0 (fun x y => getChar hb isTerm [flatLayer W H cells'] x y) W H
      = renderDoc fonts pal w0 h0 (fun x y => getChar hb isTerm S x y) W H := by
  have hsize := optimize_preserves_size fonts norm hb isTerm S W H cells' hopt
  unfold optimizeDoc at hopt
  cases ho : optimizeRows fonts norm defaultCell.attr (flatCells hb isTerm S W H) with
  | none => rw [ho] at hopt; cases hopt
  | some p =>
    obtain ⟨cs, k'⟩ := p
    rw [ho] at hopt
    simp only [Option.map_some, Option.some.injEq] at hopt
    subst hopt
    obtain ⟨_, hp⟩ := optimizeRows_get ho
    unfold renderDoc
    apply List.map_congr_left
    intro y hy
    apply List.map_congr_left
    intro x hx
    have hy := List.mem_range.mp hy
    have hx := List.mem_range.mp hx
    obtain ⟨row, hrow, hrl, hrx⟩ := flatCells_get hb isTerm S W H x y hx hy
    cases hr' : cs[y]? with
    | none =>
      have := List.getElem?_eq_none_iff.mp hr'
      rw [hsize.1] at this; omega
    | some r' =>
    have hlen' := hsize.2 y _ hr'
    cases hc' : r'[x]? with
    | none =>
      have := List.getElem?_eq_none_iff.mp hc'
      rw [hlen'] at this; omega
    | some c' =>
    obtain ⟨k0, hk0⟩ := (hp y row _ hrow hr').2 x _ _ hrx hc'
    simp only
    rw [getChar_flatLayer hb isTerm W H cs x y hx hy _ _ hr' hc']
    cases hv : (getChar hb isTerm S x y).isVisible with
    | true => exact optCell_flatView_render pal w0 h0 hb hok hk0 hv (hTr x y hx hy hv)
    | false =>
      rw [flatView_invisible hb (by rw [optCell_isVisible hk0]; exact hv)]
      exact hInv x y hx hy hv

/-- An invisible composited cell is exactly `AttributedChar::invisible()` with some font page (C13's walk). -/
theorem invisible_composite_is_invisible_cell (hb : Cell → Nat × Nat) (isTerm : Bool) (S : List Layer) (x y : Int)
    (h : (getChar hb isTerm S x y).isVisible = false) : ∃ p, getChar hb isTerm S x y = invisibleCell.withPage p := by
  rcases getChar_shape hb isTerm S x y with hv | he
  · rw [hv] at h; cases h
  · exact he

/-- the font of page `p` paints the same region as font 0 and both have a glyph for `' '` -/
def PageLikeZero (fonts : Nat → Option Font) (w0 h0 p : Nat) : Prop :=
  ∃ f f0 rows rows0, fonts p = some f ∧ fonts 0 = some f0 ∧ f.glyph spaceCh = some rows ∧
    f0.glyph spaceCh = some rows0 ∧ min f.w w0 = min f0.w w0 ∧ min f.h h0 = min f0.h h0

/-- `hInv` holds for `invisible()` on a font page whose font is at least as large as font 0 (e.g. page 0). -/
theorem invisible_cell_renders_as_default (hok : FontsOk fonts) (p : Nat) (hp : PageLikeZero fonts w0 h0 p) :
    renderCell fonts pal w0 h0 defaultCell = renderCell fonts pal w0 h0 (invisibleCell.withPage p) := by
  obtain ⟨f, f0, rows, rows0, hf, hf0, hg, hg0, hw, hh⟩ := hp
  have hfo := hok _ _ hf
  have hfo0 := hok _ _ hf0
  have e1 : renderCell fonts pal w0 h0 defaultCell = renderGlyph w0 h0 f0 rows0 (pal 7) (pal 0) := by
    unfold renderCell
    have : defaultCell.attr.page = 0 := rfl
    rw [this, hf0]
    have : defaultCell.ch = spaceCh := rfl
    simp only [this, hg0]
    rfl
  have e2 : renderCell fonts pal w0 h0 (invisibleCell.withPage p) = renderGlyph w0 h0 f rows (pal 7) (pal 0) := by
    unfold renderCell
    have : (invisibleCell.withPage p).attr.page = p := rfl
    rw [this, hf]
    have : (invisibleCell.withPage p).ch = spaceCh := rfl
    simp only [this, hg]
    have hfg : renderFg (invisibleCell.withPage p) = 7 := by
      have h1 : renderFg (invisibleCell.withPage p) = renderFg invisibleCell := rfl
      rw [h1]; decide
    have hbg : (invisibleCell.withPage p).attr.bg = 0 := rfl
    rw [hfg, hbg]
  rw [e1, e2]
  exact renderGlyph_blank2 w0 h0 f0 f rows0 rows _ _ _ (hfo0.space_blank _ hg0) (hfo.space_blank _ hg)
    (by rw [hfo0.rows_len _ _ hg0]; exact Nat.le_refl _) (by rw [hfo.rows_len _ _ hg]; exact Nat.le_refl _)
    hw.symm hh.symm hfo0.width_le

/-- `optimize_preserves_picture_partial` with the second exclusion spelled out structurally: every font page
    that an invisible composited cell carries has a font painting the same region as font 0. -/
theorem optimize_preserves_picture_partial_fonts (norm : Bool) (hb : Cell → Nat × Nat) (isTerm : Bool) (S : List Layer)
    (W H : Nat) (cells' : List (List Cell))
    (hok : FontsOk fonts)
    (hopt : optimizeDoc fonts norm hb isTerm S W H = some cells')
    (hTr : ∀ x y : Nat, x < W → y < H → (getChar hb isTerm S x y).isVisible = true →
      (getChar hb isTerm S x y).hasTransparentColor = false)
    (hPg : ∀ (x y : Nat) (p : Nat), x < W → y < H → getChar hb isTerm S x y = invisibleCell.withPage p →
      PageLikeZero fonts w0 h0 p) :
    renderDoc fonts pal w0 h0 (fun x y => getChar hb isTerm [flatLayer W H cells'] x y) W H
      = renderDoc fonts pal w0 h0 (fun x y => getChar hb isTerm S x y) W H := by
  apply optimize_preserves_picture_partial fonts pal w0 h0 norm hb isTerm S W H cells' hok hopt hTr
  intro x y hx hy hv
  obtain ⟨p, hp⟩ := invisible_composite_is_invisible_cell hb isTerm S x y hv
  rw [hp]
  exact invisible_cell_renders_as_default fonts pal w0 h0 hok p (hPg x y p hx hy hp)

/-- equal blocks = equal RGBA bytes (and equal panic behaviour) -/
theorem same_blocks_same_bytes (a b : List (List (List (List Px)))) (h : a = b) (hh : Nat) :
    imageBytes a hh = imageBytes b hh ∧ hasPanic a = hasPanic b := by subst h; exact ⟨rfl, rfl⟩

/-! ## every built-in font is `FontOk` -/

/-- every regenerated summary (ANSI slots 0..=42, Viewdata, every SAUCE font) passes the check, by evaluation -/
theorem builtin_fonts_ok : allFonts.all SummaryOk = true := by decide +kernel

/-- hence every built-in font (a font whose per-glyph summary is one of the regenerated ones) is `FontOk` -/
theorem builtin_font_ok (f : Font) (s : FontSum) (hs : s ∈ allFonts) (hsum : Summarizes f s) : FontOk f :=
  fontOk_of_summary hsum ((List.all_eq_true.mp builtin_fonts_ok) s hs)

/-! ## the two excluded sites are real: witnesses (by evaluation of the model; the harness replays the same
documents on the implementation, see known_findings.txt) -/
section witnesses
open IcyVerif.Gen.Comp

/-- an 8x2 font: blank `' '`, an `'A'`-like glyph, a full block -/
def fA : Font := ⟨8, 2, fun ch => if ch = 32 then some [0, 0] else if ch = 65 then some [24, 36]
  else if ch = 219 then some [255, 255] else none⟩
/-- an 8x1 font with a blank `' '` -/
def fSmall : Font := ⟨8, 1, fun ch => if ch = 32 then some [0] else none⟩
def fontsW : Nat → Option Font := fun p => if p = 0 then some fA else if p = 1 then some fSmall else none
/-- DOS-like palette: 0 black, 8 dark grey; RGB-encoded black (= TRANSPARENT_COLOR) is black -/
def palW : Nat → Rgb := fun c => if c = transparentColor then (0, 0, 0) else if c = 0 then (0, 0, 0)
  else if c = 8 then (85, 85, 85) else (c, c, c)
def hbW : Cell → Nat × Nat := fun c => (c.attr.bg, c.attr.bg)

/-- one alpha layer, a bold `'A'` whose foreground is TRANSPARENT_COLOR (= RGB black), nothing beneath -/
def docT : List Layer := [⟨true, true, .normal, 0, 0, 1, 1, 0, [[⟨65, ⟨transparentColor, 1, 1, 0⟩⟩]]⟩]

/-- (1) the flat clone resolves the transparent foreground to colour 0, bold makes it colour 8: grey, not black -/
theorem transparent_unresolved_changes_picture :
    optimizeDoc fontsW false hbW false docT 1 1 = some [[⟨65, ⟨transparentColor, 1, 1, 0⟩⟩]] ∧
    renderDoc fontsW palW 8 2 (fun x y => getChar hbW false [flatLayer 1 1 [[⟨65, ⟨transparentColor, 1, 1, 0⟩⟩]]] x y) 1 1
      ≠ renderDoc fontsW palW 8 2 (fun x y => getChar hbW false docT x y) 1 1 := by
  constructor
  · decide +kernel
  · decide +kernel

/-- one empty alpha layer whose `default_font_page` is 1 (font 8x1), font 0 is 8x2 -/
def docP : List Layer := [⟨true, true, .normal, 0, 0, 1, 1, 1, []⟩]

/-- (2) the original leaves the second pixel row of the invisible cell unwritten, the optimised buffer paints it -/
theorem invisible_font_page_changes_picture :
    optimizeDoc fontsW false hbW false docP 1 1 = some [[invisibleCell.withPage 1]] ∧
    renderDoc fontsW palW 8 2 (fun x y => getChar hbW false [flatLayer 1 1 [[invisibleCell.withPage 1]]] x y) 1 1
      ≠ renderDoc fontsW palW 8 2 (fun x y => getChar hbW false docP x y) 1 1 := by
  constructor
  · decide +kernel
  · decide +kernel

/-! `FontOk` cannot be dropped either (fonts that are NOT built in; recorded as findings
`custom_font_space_not_blank`, `custom_font_stray_bits`): -/

/-- a font whose `' '` shows pixels while NUL is blank -/
def fB : Font := ⟨8, 1, fun ch => if ch = 32 then some [24] else if ch = 0 then some [0] else none⟩
def fontsB : Nat → Option Font := fun p => if p = 0 then some fB else none
def docB : List Layer := [⟨true, false, .normal, 0, 0, 1, 1, 0, [[⟨0, ⟨7, 0, 0, 0⟩⟩]]⟩]

/-- normalisation turns the blank NUL into the non-blank `' '` -/
theorem space_not_blank_changes_picture :
    optimizeDoc fontsB true hbW false docB 1 1 = some [[⟨32, ⟨7, 0, 0, 0⟩⟩]] ∧
    renderDoc fontsB palW 8 1 (fun x y => getChar hbW false [flatLayer 1 1 [[⟨32, ⟨7, 0, 0, 0⟩⟩]]] x y) 1 1
      ≠ renderDoc fontsB palW 8 1 (fun x y => getChar hbW false docB x y) 1 1 := by
  constructor
  · decide +kernel
  · decide +kernel

/-- a 6-wide font; glyph 219 has 6 set bits, two of them outside the width -/
def fC : Font := ⟨6, 1, fun ch => if ch = 32 then some [0] else if ch = 65 then some [48]
  else if ch = 219 then some [243] else none⟩
def fontsC : Nat → Option Font := fun p => if p = 0 then some fC else none
def docC : List Layer := [⟨true, false, .normal, 0, 0, 2, 1, 0, [[⟨65, ⟨7, 5, 0, 0⟩⟩, ⟨219, ⟨1, 2, 0, 0⟩⟩]]⟩]

/-- `get_shape` counts the two stray bits, calls the glyph a Block and replaces its (visible) background -/
theorem stray_bits_changes_picture :
    optimizeDoc fontsC false hbW false docC 2 1 = some [[⟨65, ⟨7, 5, 0, 0⟩⟩, ⟨219, ⟨1, 5, 0, 0⟩⟩]] ∧
    renderDoc fontsC palW 6 1 (fun x y => getChar hbW false
        [flatLayer 2 1 [[⟨65, ⟨7, 5, 0, 0⟩⟩, ⟨219, ⟨1, 5, 0, 0⟩⟩]]] x y) 2 1
      ≠ renderDoc fontsC palW 6 1 (fun x y => getChar hbW false docC x y) 2 1 := by
  constructor
  · decide +kernel
  · decide +kernel
end witnesses

/-! ## non-vacuity -/
section nonvacuity
theorem fA_ok : FontOk fA := by
  refine ⟨by decide, ?_, ?_, ?_⟩
  · intro ch rows h
    unfold fA at h
    simp only at h
    split at h
    · cases h; rfl
    · split at h
      · cases h; rfl
      · split at h
        · cases h; rfl
        · cases h
  · intro ch rows h _
    unfold fA at h
    simp only at h
    split at h
    · cases h; rename_i hh; revert hh; decide
    · split at h
      · cases h; rename_i hh; revert hh; decide
      · split at h
        · cases h; decide
        · cases h
  · intro rows h
    have : fA.glyph spaceCh = some [0, 0] := by decide
    rw [this] at h; cases h; decide

/-- a 3x1 document: 'A' (3 on 1), a blank (5 on 2), a full block (4 on 6) -/
def docN : List Layer :=
  [⟨true, false, .normal, 0, 0, 3, 1, 0, [[⟨65, ⟨3, 1, 0, 0⟩⟩, ⟨32, ⟨5, 2, 1, 0⟩⟩, ⟨219, ⟨4, 6, 0, 0⟩⟩]]⟩]
def fontsN : Nat → Option Font := fun p => if p = 0 then some fA else none

example : FontsOk fontsN := by
  intro p f h
  unfold fontsN at h
  split at h
  · cases h; exact fA_ok
  · cases h

-- the rewrites really happen: the blank inherits foreground 3, the block inherits background 2
example : optimizeDoc fontsN true hbW false docN 3 1 =
    some [[⟨65, ⟨3, 1, 0, 0⟩⟩, ⟨32, ⟨3, 2, 1, 0⟩⟩, ⟨219, ⟨4, 2, 0, 0⟩⟩]] := by decide +kernel
-- and the picture is the same (the conclusion of the theorem, here by evaluation)
example : renderDoc fontsN palW 8 2 (fun x y => getChar hbW false
      [flatLayer 3 1 [[⟨65, ⟨3, 1, 0, 0⟩⟩, ⟨32, ⟨3, 2, 1, 0⟩⟩, ⟨219, ⟨4, 2, 0, 0⟩⟩]]] x y) 3 1
    = renderDoc fontsN palW 8 2 (fun x y => getChar hbW false docN x y) 3 1 := by decide +kernel
-- the two exclusions hold for this document
example : ∀ x : Nat, x < 3 → ∀ y : Nat, y < 1 → (getChar hbW false docN x y).isVisible = true →
    (getChar hbW false docN x y).hasTransparentColor = false := by decide +kernel
example : ∀ x : Nat, x < 3 → ∀ y : Nat, y < 1 → (getChar hbW false docN x y).isVisible = false →
    renderCell fontsN palW 8 2 defaultCell = renderCell fontsN palW 8 2 (getChar hbW false docN x y) := by
  decide +kernel
-- a summary in the regenerated table, its check, and a blank / full glyph of the default font
example : 0 < allFonts.length ∧ SummaryOk f_cp437 = true ∧ f_cp437.ones[32]? = some 0 ∧
    f_cp437.ones[219]? = some 128 ∧ f_cp437.full[219]? = some 1 := by decide +kernel
example : shape fA [0, 0] = .whitespace ∧ shape fA [255, 255] = .block ∧ shape fA [24, 36] = .mixed := by decide
end nonvacuity

end IcyVerif.C12
