import IcyVerif.Lemmas.LoaderCostDispatch
import IcyVerif.Gen.LoaderLoops
/-! # C03 — binary loader cost: "declared image sizes" (DESIGN §4 C03: `loader_cost fmt d <= R(|d|)`)

The cost-instrumented loader models of `Model/LoaderCost.lean` count, for every byte string and on every outcome (a loader
that fails late has still done the work):
`work` = loop iterations of all loader loops, `rows` = rows `Layer::set_char` allocates (each `layer width` cells wide),
`extra` = bytes copied into font / palette / title objects and palette comparisons.  Forgetting the counters gives back the
C02 loader models exactly (`loader_cost_refines_c02`), so the counters ride on the trajectory C02's correspondence run pins.

Proved for ALL byte strings (and all SAUCE sizes the dispatch can hand over):
* XBin (raw and compressed): `work <= 65 |d|`, `rows * width <= 64 |d| + width` — no row is allocated before the bytes that
  fill it were read, whatever height the header declares; palette / font bytes copied `<= |d|`.
* BIN: `work <= |d| + width + 1`, `rows * width <= |d| + width`.   ADF: `work <= |d| + 81`, `rows * 80 <= |d| + 80`.
* IDF: `work <= 10923 |d|` (a 6-byte RLE record repeats a cell up to 65535 times — the format's own 16-bit count), rows
  `<= 65536` (the loader's 16-bit row guard; the start row `y1` of the header is a declared position).
* Tundra: `work <= |d|`, rows `<= 65535 + |d|` (position records jump to row 65534 at most), palette comparisons `<= |d|^2`.
* TheDraw fonts: `work <= (94 |d| + 202) |d| + 1` (glyph offsets may overlap: quadratic, not more).
* IcyDraw LAYER chunks: `work <= 2 |d| + 2`, new rows `<= |d| / 2 + 1`, bytes copied `<= |d|` per chunk — proved FROM the
  regenerated flag `icyNoColumnsGuard` (the repair); without it the row loop runs once per DECLARED row
  (`icy_rows_unbounded_without_guard`).  PARTIAL: a row is `declared layer width` cells wide, so cells = rows x declared
  width is not bounded by the chunk (recorded finding `file:icy:runaway`, the same defect as C02's `icyc:abort-alloc`).
What stays outside: wall-clock time and allocator behaviour (oracle: per-case time, cells allocated, address-space cap). -/
namespace IcyVerif.C03
open IcyVerif.Bytes IcyVerif.Loaders IcyVerif.LoaderCost IcyVerif.Gen

/-- every loop of the loader functions that the cost models account for (fingerprint of `file::fn::header [bound]`) -/
def knownLoaderLoopIds : List Nat := [
  188519920663492,   -- formats/xbinary.rs::read_data_compressed::while o < bytes.len() && pos.y < result.get_height()
  214578823012315,   -- formats/xbinary.rs::read_data_compressed::for _ in 0..repeat_counter [repeat_counter = (xbin_compression & 0b_0011_1111) + 1]
  18346930755952,   -- formats/xbinary.rs::read_data_compressed::for _ in 0..repeat_counter [repeat_counter = (xbin_compression & 0b_0011_1111) + 1] #2
  60051792712636,   -- formats/xbinary.rs::read_data_compressed::for _ in 0..repeat_counter
  138100984469372,   -- formats/xbinary.rs::read_data_compressed::for _ in 0..repeat_counter #2
  187422942327176,   -- formats/xbinary.rs::read_data_uncompressed::while o < bytes.len() && pos.y < result.get_height()
  262508432757940,   -- formats/bin.rs::load_buffer::loop
  235887604653891,   -- formats/bin.rs::load_buffer::for _ in 0..result.get_width()
  229719283161809,   -- formats/artworx.rs::load_buffer::loop
  260903170376157,   -- formats/artworx.rs::load_buffer::for _ in 0..result.get_width()
  255857849585927,   -- formats/artworx.rs::from_ega_data::for i in EGA_COLOR_OFFSETS
  173753340326466,   -- formats/ice_draw.rs::load_buffer::while o + 1 < data_size
  52272709047846,   -- formats/ice_draw.rs::load_buffer::while rle_count > 0
  265589647646636,   -- formats/tundra.rs::load_buffer::while o < data.len()
  174778050890394,   -- formats/icy_draw.rs::load_buffer::while is_running
  149580413782906,   -- formats/icy_draw.rs::load_buffer::for i in last_info..info.compressed_latin1_text.len()
  265580705166537,   -- formats/icy_draw.rs::load_buffer::for y in layer.get_line_count()..layer.get_height()
  254158443483404,   -- formats/icy_draw.rs::load_buffer::for x in 0..layer.get_width()
  8072159096204,   -- formats/icy_draw.rs::load_buffer::for y in 0..height [height = u32::from_le_bytes(bytes[o..(o + 4)].try_into().unwrap()) as i32]
  29216207942307,   -- formats/icy_draw.rs::load_buffer::for x in 0..width
  137704767272206,   -- tdf_font/mod.rs::from_tdf_bytes::while o < bytes.len()
  41398940123355,   -- tdf_font/mod.rs::from_tdf_bytes::for i in 0..font_name_len [font_name_len = bytes[o] as usize]
  136668118877408,   -- tdf_font/mod.rs::from_tdf_bytes::for _ in 0..CHAR_TABLE_SIZE
  10760717352924,   -- tdf_font/mod.rs::from_tdf_bytes::for char_offset in char_lookup_table
  204947922580343,   -- tdf_font/mod.rs::from_tdf_bytes::loop
  119378617598507,   -- sixel_mod.rs::parse_from::for ch in data.chars()
  228795855860539,   -- sixel_mod.rs::parse_from::for y in 0..self.height()
  205467245108975,   -- sixel_mod.rs::parse_char::for _ in 0..*i
  105813383564065,   -- sixel_mod.rs::translate_sixel_to_pixel::for i in 0..6
  252489462947686   -- formats/mod.rs::crop_loaded_file::while result.layers[0].lines.len() > 1 && result.layers[0].lines.last().unwrap().chars.is_empty()
]

/-- the translator's inventory of the loader loops in the current source contains no loop outside the table -/
theorem loader_loops_known : LoaderLoops.loopIds.all (fun l => knownLoaderLoopIds.contains l) = true := by decide +kernel
theorem loader_loop_inventory_complete : LoaderLoops.loopIds.length = LoaderLoops.loops.length := by decide +kernel

/-- `Layer::set_char` fills the rows it adds with full-width lines (what makes `rows * layer width` the cell count), and the
    repairs the budgets rely on are in the source -/
theorem loader_guards_present :
    LoaderLoops.setCharRowFill = true ∧ LoaderLoops.icyNoColumnsGuard = true ∧ LoaderLoops.fileRowCap = 65535 := by decide

/-- forgetting the counters gives back the C02 loader models, for every input -/
theorem loader_cost_refines_c02 (d : Bytes) (sauce : Option (Nat × Nat)) :
    (loadXbC d sauce).res = loadXb d sauce ∧ (loadBinC d sauce).res = loadBin d sauce ∧ (loadAdfC d sauce).res = loadAdf d sauce ∧
    (loadIdfC d sauce).res = loadIdf d sauce ∧ (loadTndC d sauce).res = loadTnd d sauce ∧ (loadTdfC d).res = loadTdf d ∧
    (∀ st, (icyNewLayerC d st).res = icyNewLayer d st) ∧ (∀ st n, (icyContinueC d st n).res = icyContinue d st n) ∧
    (∀ chunks, (loadIcyC chunks).res = loadIcy chunks) :=
  ⟨loadXbC_res d sauce, loadBinC_res d sauce, loadAdfC_res d sauce, loadIdfC_res d sauce, loadTndC_res d sauce, loadTdfC_res d,
   icyNewLayerC_res d, icyContinueC_res d, loadIcyC_res⟩

theorem rows_mul_le {rows n w : Nat} (h : rows ≤ n / w + 1) : rows * w ≤ n + w := by
  calc rows * w ≤ (n / w + 1) * w := Nat.mul_le_mul_right _ h
    _ = n / w * w + w := by rw [Nat.add_mul, Nat.one_mul]
    _ ≤ n + w := Nat.add_le_add_right (Nat.div_mul_le_self _ _) _

/-- XBin, raw and compressed, whatever width / height / font size / flags the header declares -/
theorem xb_loader_cost (d : List Nat) (sauce : Option (Nat × Nat)) :
    (loadXbC d.toArray sauce).work ≤ 65 * d.length ∧
    (loadXbC d.toArray sauce).rows * xbWidth d.toArray ≤ 64 * d.length + xbWidth d.toArray ∧
    (loadXbC d.toArray sauce).extra ≤ d.length := by
  have h := (loadXbC_pot d.toArray sauce).bound
  simp only [List.size_toArray] at h
  exact ⟨h.1, rows_mul_le h.2.1, h.2.2⟩

/-- BIN: the row width is 160 or what a SAUCE record says (1..=1000) -/
theorem bin_loader_cost (d : List Nat) (sauce : Option (Nat × Nat)) :
    (loadBinC d.toArray sauce).work ≤ d.length + binWidth sauce + 1 ∧
    (loadBinC d.toArray sauce).rows * binWidth sauce ≤ d.length + binWidth sauce ∧
    (loadBinC d.toArray sauce).extra = 0 ∧ 1 ≤ binWidth sauce ∧ binWidth sauce ≤ 1000 := by
  have h := (loadBinC_pot d.toArray sauce).bound
  simp only [List.size_toArray] at h
  exact ⟨h.1, rows_mul_le h.2.1, Nat.le_zero.mp h.2.2, binWidth_range sauce⟩

/-- ADF: rows of 80 cells behind 4289 bytes of header, palette and font -/
theorem adf_loader_cost (d : List Nat) (sauce : Option (Nat × Nat)) :
    (loadAdfC d.toArray sauce).work ≤ d.length + 81 ∧ (loadAdfC d.toArray sauce).rows * 80 ≤ d.length + 80 ∧
    (loadAdfC d.toArray sauce).extra ≤ 4288 := by
  have h := (loadAdfC_pot d.toArray sauce).bound
  simp only [List.size_toArray] at h
  exact ⟨h.1, rows_mul_le h.2.1, h.2.2⟩

/-- IDF: the RLE count is 16 bit (at most 10923 iterations per byte), the row guard is 16 bit (at most 65536 rows) — whatever
    `x1, y1, x2` the header declares -/
theorem idf_loader_cost (d : List Nat) (sauce : Option (Nat × Nat)) :
    (loadIdfC d.toArray sauce).work ≤ 10923 * d.length ∧ (loadIdfC d.toArray sauce).rows ≤ 65536 ∧
    (loadIdfC d.toArray sauce).extra ≤ 4144 := by
  have h := (loadIdfC_pot d.toArray sauce).bound
  simp only [List.size_toArray] at h
  exact h

/-- Tundra: one iteration per byte; a position record jumps to row 65534 at most, after that one row per cell at most -/
theorem tnd_loader_cost (d : List Nat) (sauce : Option (Nat × Nat)) :
    (loadTndC d.toArray sauce).work ≤ d.length ∧ (loadTndC d.toArray sauce).rows ≤ 65535 + d.length ∧
    (loadTndC d.toArray sauce).extra ≤ d.length * d.length := by
  have h := (loadTndC_pot d.toArray sauce).bound
  simp only [List.size_toArray] at h
  exact h

/-- TheDraw font bundle: quadratic (every glyph of every font record may run to the end of the file), no rows -/
theorem tdf_loader_cost (d : List Nat) :
    (loadTdfC d.toArray).work ≤ (94 * d.length + 202) * d.length + 1 ∧ (loadTdfC d.toArray).rows = 0 ∧ (loadTdfC d.toArray).extra = 0 := by
  have h := (loadTdfC_pot d.toArray).bound
  simp only [List.size_toArray, tdfFontBudget] at h
  exact ⟨h.1, Nat.le_zero.mp h.2.1, Nat.le_zero.mp h.2.2⟩

/-- the guard of the repaired IcyDraw row loops is in the source (regenerated flag) -/
theorem icy_guard_present : LoaderLoops.icyNoColumnsGuard = true := by decide

/-- IcyDraw `LAYER_n` and `LAYER_n~k` chunk payloads: iterations, new rows and copied bytes are bounded by the chunk, whatever
    width, height, data length the layer header declares.  PARTIAL: a new row is `declared width` cells wide — the number of
    CELLS allocated (rows x declared width) is not bounded by the chunk (finding `file:icy:runaway`). -/
theorem icy_layer_cost_partial (d : List Nat) (st : IcySt) (n : Nat) :
    ((icyNewLayerC d.toArray st).work ≤ 2 * d.length + 2 ∧ (icyNewLayerC d.toArray st).rows ≤ d.length / 2 + 1 ∧
      (icyNewLayerC d.toArray st).extra ≤ d.length) ∧
    ((icyContinueC d.toArray st n).work ≤ 2 * d.length + 2 ∧ (icyContinueC d.toArray st n).rows ≤ d.length / 2 + 1 ∧
      (icyContinueC d.toArray st n).extra ≤ d.length) := by
  have h1 := (icyNewLayerC_pot icy_guard_present d.toArray st).bound
  have h2 := (icyContinueC_pot icy_guard_present d.toArray st n).bound
  simp only [List.size_toArray] at h1 h2
  exact ⟨h1, h2⟩

/-- "a header declaring a huge height with no data": without the guard, a layer without columns makes the row loop run once
    per DECLARED row (up to 2^31 - 1) however short the chunk is -/
theorem icy_rows_unbounded_without_guard (hg : LoaderLoops.icyNoColumnsGuard = false) (d : List Nat) (l : Lay) (hw : l.w ≤ 0)
    (o : Nat) (ho : o < d.length) (height : Nat) : (icyRowsC d.toArray height 0 o l).work = height :=
  icyRowsC_work_without_guard hg d.toArray l hw o (by simpa using ho) height 0

/-- the dispatch `Buffer::from_bytes` for every extension: one polynomial for all binary art formats -/
theorem loader_cost (d : List Nat) (ext : String) (dateOk : Bool) :
    (fromBytesC d.toArray ext dateOk).res = fromBytes d.toArray ext dateOk ∧
    (fromBytesC d.toArray ext dateOk).work ≤ 10923 * d.length + 1001 ∧
    (fromBytesC d.toArray ext dateOk).rows ≤ 64 * d.length + 65536 ∧
    (fromBytesC d.toArray ext dateOk).extra ≤ d.length * d.length + d.length + 4288 :=
  by simpa using fromBytesC_cost d.toArray ext dateOk

end IcyVerif.C03
