import IcyVerif.Lemmas.TextLoad
import IcyVerif.Lemmas.SixelShadow
import IcyVerif.Props.C14
/-! # C02 — the text-format loaders (`ans ice diz pcb avt asc msg an1-an9 seq ata` and unknown extensions)
`Buffer::from_bytes` → `load_buffer` → `parse_with_parser` runs a terminal emulation on a FILE buffer
(`is_terminal_buffer = false`): `limit_caret_pos` clamps the row only to `0 ..= MAX_FILE_BUFFER_HEIGHT - 1`, `Caret::lf` and
`Buffer::print_char` grow the row table, `get_last_editable_line` reads it.  Models: `Model/TermFile.lean` (ANSI parser on a
file buffer with the row table), `TermFileWrap.lean`, `TermFileOther.lean`, `TextLoad.lean` (the loaders); every plain `i32`
`+ 1` / `*` on a cursor row is an explicit check there.

The theorems hold on the tree WITH the two row clamps (`fix:` commits: `limit_caret_pos` for file buffers, `Caret::lf`); the
facts "the clamps are in the source, the bound is at most 2·10^6" are regenerated constants (`text_row_clamps_present`),
and every proof below goes through them.  On the pinned tree the cursor row reached `i32::MAX` (`ESC[2147483599B` twice)
and LF / IND / NEL / print / DSR / Avatar `^V^D` / closing a hyperlink panicked with an arithmetic overflow. -/
namespace IcyVerif.C02
open IcyVerif.Term IcyVerif.TermFile IcyVerif.TextLoad IcyVerif.Gen.TextLoad IcyVerif.Bytes IcyVerif.Loaders

/-- the source facts the proofs rest on: both row clamps are present and the row bound keeps `row · width` inside `i32` -/
theorem text_row_clamps_present : TermFile.limitRowClamped = true ∧ TermFile.lfClamped = true ∧ 0 ≤ capY ∧ capY ≤ 2000000 :=
  ⟨limitRowClamped_true, lfClamped_true, capY_lo, capY_hi⟩

/-- ANSI parser (as the loaders configure it: music off; `bs_is_ctrl_char` either way) on a file buffer of any size a
    SAUCE record or a resize can produce, any row table to start from, any text, any oracle: no panic -/
theorem file_stream_no_panic (cfg : Cfg) (hm : cfg.musicOpt = 0) (w h tabW : Int) (rows : Array Nat)
    (hw1 : 1 ≤ w) (hw2 : w ≤ 1000) (hh0 : 0 ≤ h) (hh2 : h ≤ 65535) (o : Nat → Orc) (text : List Char) (e : Panic) :
    runF cfg o (initF w h tabW rows) text ≠ .error e := by
  intro hr
  have hg := runF_good cfg o hm text _ (initF_good w h tabW rows hw1 hw2 hh0 hh2)
  rw [hr] at hg; exact hg

/-- the same for Avatar, PCBoard, Ctrl-A and Renegade files -/
theorem file_stream_wrapped_no_panic (em : Emu) (w h tabW : Int) (rows : Array Nat)
    (hw1 : 1 ≤ w) (hw2 : w ≤ 1000) (hh0 : 0 ≤ h) (hh2 : h ≤ 65535) (o : Nat → Orc) (text : List Char) (e : Panic) :
    fwrun em o (initFW w h tabW rows) text ≠ .error e := by
  intro hr
  have hg := fwrun_good em o text (initFW w h tabW rows) (show FWGood (initFW w h tabW rows) from initF_good w h tabW rows hw1 hw2 hh0 hh2)
  rw [hr] at hg; exact hg

/-- the same for ASCII, ATASCII and PETSCII files -/
theorem file_stream_bytes_no_panic (em : FEmu2) (w h tabW : Int) (rows : Array Nat)
    (hw1 : 1 ≤ w) (hw2 : w ≤ 1000) (hh0 : 0 ≤ h) (hh2 : h ≤ 65535) (text : List Char) (e : Panic) :
    forun em (initFO w h tabW rows) text ≠ .error e := by
  intro hr
  have hg := forun_good em text _ (initFO_good w h tabW rows hw1 hw2 hh0 hh2)
  rw [hr] at hg; exact hg

/-- after any text the cursor of a file buffer is on a row `0 ..= MAX_FILE_BUFFER_HEIGHT - 1` and a column `0 ..= 1000`,
    the terminal size is 1..=1000 x 0..=65535 with margins inside it: the invariant every no-overflow argument uses -/
theorem file_stream_reachable (cfg : Cfg) (hm : cfg.musicOpt = 0) (w h tabW : Int) (rows : Array Nat)
    (hw1 : 1 ≤ w) (hw2 : w ≤ 1000) (hh0 : 0 ≤ h) (hh2 : h ≤ 65535) (o : Nat → Orc) (text : List Char) (st : FSt)
    (hr : runF cfg o (initF w h tabW rows) text = .ok st) :
    0 ≤ st.c.x ∧ st.c.x ≤ 1000 ∧ 0 ≤ st.c.y ∧ st.c.y ≤ capY ∧ 1 ≤ st.s.tw ∧ st.s.tw ≤ 1000 ∧ 0 ≤ st.s.th ∧ st.s.th ≤ 65535 := by
  have hg := runF_good cfg o hm text _ (initF_good w h tabW rows hw1 hw2 hh0 hh2)
  rw [hr] at hg
  obtain ⟨g1, g2, _, _, _⟩ := hg
  exact ⟨g2.1, g2.2.1, g2.2.2.1, g2.2.2.2, g1.tw1, g1.tw2, g1.th0, g1.th2⟩

/-- closing a hyperlink: `width - p.x + (cp.y - p.y) * width + p.x` stays inside `i32` for every pair of reachable positions -/
theorem hyperlink_length_no_overflow (tw cx cy px py : Int) (ht1 : 1 ≤ tw) (ht2 : tw ≤ 1000) (hcx : 0 ≤ cx ∧ cx ≤ 1000)
    (hcy : 0 ≤ cy ∧ cy ≤ capY) (hpx : 0 ≤ px ∧ px ≤ 1000) (hpy : 0 ≤ py ∧ py ≤ capY) : ∃ v, hyperLen tw cx cy px py = .ok v :=
  hyperLen_ok tw cx cy px py ht1 ht2 hcx hcy hpx hpy

/-- every text loader, up to the end of its character loop (`parse_with_parser`'s loop with `skip_errors = true`, the byte
    loops of seq / atascii), any content, any SAUCE size with a 16-bit height, any oracle: a parsed state, never a panic -/
theorem text_parse_total (m : String) (data : List Nat) (sauce : Option (Nat × Nat)) (o : Nat → Orc)
    (hs : ∀ w h, sauce = some (w, h) → h ≤ 65535) (what : String) : parseText m data sauce o ≠ some (.panic what) := by
  intro hp
  obtain ⟨p, pwp, hh⟩ := parseText_parsed m data sauce o hs _ hp
  cases hh

/-- the join loop + image layers + `crop_loaded_file` after the character loop: no panic when font 0 has a size
    (`BitFont` loaders never produce a zero dimension: PSF2 checks `charsize == height * ((width + 7) / 8) > 0`, C02 / C17) -/
theorem text_finish_total (p : Parsed) (fw fh : Int) (hfw : fw ≠ 0) (hfh : fh ≠ 0) (dec : Decoder) (what : String) :
    finish p fw fh dec ≠ .panic what := by
  unfold finish joinSixels
  rw [IcyVerif.SixelShadow.loadSixelsX_eq]
  simp only []
  have hc : ∀ id ∈ List.range p.sixq.length, id ∈ [List.range p.sixq.length].flatten := by
    intro id hid; simpa using hid
  rw [IcyVerif.C14.load_schedule_independent _ _ _ hc]
  have hr : ∀ (cfg : IcyVerif.SixelQueue.Cfg) (arr : List Nat), cfg.fw ≠ 0 → cfg.fh ≠ 0 →
      IcyVerif.C14.loadRef cfg arr = .err ∨ ∃ l, IcyVerif.C14.loadRef cfg arr = .ok l := by
    intro cfg arr h1 h2
    unfold IcyVerif.C14.loadRef
    split
    · exact Or.inl rfl
    · rw [if_neg (fun hz => by rcases hz.1 with hz | hz <;> contradiction)]
      exact Or.inr ⟨_, rfl⟩
  rcases hr { fw := fw, fh := fh, res := resOf dec p.sixq } (List.range p.sixq.length) hfw hfh with h | ⟨l, h⟩
  · rw [h]; intro hh; cases hh
  · rw [h]; intro hh; cases hh

/-! ## the shadow-removal loop of `Buffer::update_sixel_threads` (runs at the end of every text-format load) -/

/-- the source still has the loop the model transcribes (`Model/SixelShadow.lean: shadowLoop`): count taken once, index
    advanced only when nothing was removed, count decremented on removal, push at the end.  A rewrite (e.g. "collect the
    indices, then remove them") fails this check and needs a new model. -/
def shadowLoopSrc : List String := [
  "let vec = &mut self.layers[0].sixels;",
  "let mut sixel_count = vec.len();",
  "let mut i = 0;",
  "while i < sixel_count {",
  "let old_rect = vec[i].get_screen_rect(font_dims);",
  "if screen_rect.contains_rect(&old_rect) {",
  "vec.remove(i);",
  "sixel_count -= 1;",
  "} else {",
  "i += 1;",
  "}",
  "}",
  "vec.push(sixel);"]

def infixOf (a : List String) : List String → Bool
  | [] => a.isEmpty
  | x :: xs => a.isPrefixOf (x :: xs) || infixOf a xs

theorem shadow_loop_pinned :
    infixOf shadowLoopSrc (IcyVerif.Gen.Sixel.src_update_sixel_threads.filter (fun l => !l.startsWith "//")) = true := by decide +kernel

/-- **the removal loop is total for every list of images**: with the state `(vec, i, sixel_count)` explicit — `vec[i]` and
    `vec.remove(i)` panic beyond the end, `sixel_count -= 1` panics at 0, running out of `len + 1` iterations is divergence —
    the loop ends normally for every layer content, every new image and every font size, and leaves exactly the images the new
    one does not cover, in their order (the C14 list function) -/
theorem shadow_loop_total (cfg : IcyVerif.SixelQueue.Cfg) (new : IcyVerif.SixelQueue.Img) (vec : List IcyVerif.SixelQueue.Img) :
    IcyVerif.SixelShadow.shadowLoop cfg new (vec.length + 1) vec 0 vec.length = .ok (IcyVerif.SixelQueue.removeShadowed cfg new vec) :=
  IcyVerif.SixelShadow.shadowLoop_total cfg new vec

/-- the loop invariant behind it, from ANY reachable loop state: `vec = pre ++ suf`, `i = |pre|`, `sixel_count = |vec|` -/
theorem shadow_loop_invariant (cfg : IcyVerif.SixelQueue.Cfg) (new : IcyVerif.SixelQueue.Img) (pre suf : List IcyVerif.SixelQueue.Img)
    (fuel : Nat) (hf : suf.length < fuel) :
    IcyVerif.SixelShadow.shadowLoop cfg new fuel (pre ++ suf) pre.length (pre.length + suf.length)
      = .ok (pre ++ IcyVerif.SixelQueue.removeShadowed cfg new suf) :=
  IcyVerif.SixelShadow.shadowLoop_spec cfg new suf pre fuel hf

/-- the whole sixel join of a text load (any number of queued decodes, any decode results, any font size) never takes the
    panic exit of the indexed loop, and is the C14 model of the join -/
theorem sixel_join_total (fw fh : Int) (res : Nat → IcyVerif.SixelQueue.Res) (n : Nat) :
    joinSixels fw fh res n = .ok (IcyVerif.SixelLoad.loadSixels { fw := fw, fh := fh, res := res } (List.range n) [List.range n]) :=
  IcyVerif.SixelShadow.loadSixelsX_eq _ _ _

/-- `update_sixel_threads` itself, from any queue / layer state (not only the one a load produces) -/
theorem sixel_poll_total (cfg : IcyVerif.SixelQueue.Cfg) (s : IcyVerif.SixelQueue.St) (e : String) :
    IcyVerif.SixelShadow.pollX cfg s ≠ .error e := by
  rw [IcyVerif.SixelShadow.pollX_eq]; intro h; cases h

/-- **No file content can crash a text loader.** `Buffer::from_bytes` for every extension that selects a text loader —
    `ans ice diz pcb avt asc msg an1..an9 seq ata`, any capitalisation, and every unknown extension (ANSI fallback) —
    any bytes with or without a SAUCE record and comment block, any date-parser verdict, any oracle values (row lengths
    for HPA/HPR, Ok/Err of palette / font sub-languages), any sixel decode results, any completion schedule: a buffer or
    an error, never a panic (font 0 with a non-zero size). -/
theorem text_loader_total (d : List Nat) (ext : String) (dateOk : Bool) (o : Nat → Orc) (fw fh : Int) (hfw : fw ≠ 0) (hfh : fh ≠ 0)
    (dec : Decoder) (what : String) : fromBytesText d.toArray ext dateOk o fw fh dec ≠ some (.panic what) := by
  unfold fromBytesText fromBytesParse
  obtain ⟨r, hd⟩ := dispatchLen_is_ok d.toArray dateOk
  rw [hd]
  cases hd' : (Res.ok r : Bytes.Res (Nat × Option (Nat × Nat))) with
  | panic s => cases hd'
  | err => cases hd'
  | ok r =>
    obtain ⟨len, sauce⟩ := r
    simp only []
    intro hp
    cases hpt : parseText (loaderFor ext) ((d.toArray.extract 0 len).toList) sauce o with
    | none => rw [hpt] at hp; cases hp
    | some st =>
      rw [hpt] at hp
      simp only [Option.map, Option.some.injEq] at hp
      have hs : ∀ w h, sauce = some (w, h) → h ≤ 65535 := by
        intro w h hh; subst hh; exact dispatchLen_height d.toArray dateOk len w h (by rw [hd]; exact hd')
      obtain ⟨p, pwp, hst⟩ := parseText_parsed _ _ sauce o hs st hpt
      subst hst
      cases pwp with
      | true => exact text_finish_total p fw fh hfw hfh dec what hp
      | false => cases hp

/-- the extensions of the property's list select text loaders the model has (the others — `icy idf bin xb tnd adf` —
    are the binary loaders of `from_bytes_total` and the `.icy` container), and so does every unknown extension -/
theorem text_extensions_covered :
    (∀ ext ∈ ["ans", "ice", "diz", "pcb", "avt", "asc", "msg", "an1", "an2", "an3", "an4", "an5", "an6", "an7", "an8", "an9", "seq", "ata",
        "ANS", "Pcb", "zzz", "txt", ""], (loaderEntry (loaderFor ext)).isSome = true) ∧
    (∀ ext, IcyVerif.Gen.Loaders.extTable.find? (fun p => p.1 == lowerAscii ext) = none → (loaderEntry (loaderFor ext)).isSome = true) ∧
    (∀ m ∈ IcyVerif.Gen.Loaders.extTable.map Prod.snd, (loaderEntry m).isSome = true ∨ m ∈ ["icy_draw", "ice_draw", "bin", "xbinary", "tundra", "artworx"]) := by
  refine ⟨by decide, ?_, by decide⟩
  intro ext h
  unfold loaderFor
  rw [h]
  decide

/-- every line of the functions a file load reaches that does plain `i32` arithmetic on a cursor row (regenerated inventory)
    is a site the model accounts for: an `add1` / `hyperLen` check, or code behind `if !buf.is_terminal_buffer { return; }` /
    `self.is_terminal_buffer &&` that a file buffer never executes, or `y - 1` on a non-negative row -/
def knownRowSites : List (String × String) := [
  ("parsers/mod.rs::lf", "self.pos.y += 1;"),                                              -- lfF: add1
  ("parsers/mod.rs::lf", "if self.pos.y + 1 > buf.get_height() {"),                         -- after the early return: terminal buffers only
  ("parsers/mod.rs::lf", "buf.set_height(self.pos.y + 1);"),                                -- ditto
  ("parsers/mod.rs::index", "self.pos.y += 1;"),                                           -- indexF: add1
  ("parsers/mod.rs::reverse_index", "self.pos.y -= 1;"),                                   -- reverseIndexF: checked
  ("parsers/mod.rs::next_line", "self.pos.y += 1;"),                                       -- nextLineF: add1
  ("parsers/mod.rs::check_scrolling_on_caret_down", "self.pos.y -= 1;"),                   -- scrollDownForce: y > last editable line ≥ 0
  ("parsers/mod.rs::print_char", "if caret.pos.y + 1 > self.layers[layer].get_height() {"), -- printCharF: add1
  ("parsers/mod.rs::print_char", "self.layers[layer].set_height(caret.pos.y + 1);"),        -- same value
  ("parsers/mod.rs::print_char", "if self.is_terminal_buffer && caret.pos.y + 1 > self.get_height() {"),   -- short-circuit: not evaluated
  ("parsers/mod.rs::print_char", "self.set_height(caret.pos.y + 1);"),                      -- terminal buffers only
  ("parsers/ansi/mod.rs::print_char", "min(buf.terminal_state.get_height(), caret.pos.y + 1),"),           -- DSR 6: add1
  ("parsers/ansi/osc.rs::handle_osc_hyperlinks", "p.length = buf.terminal_state.get_width() - p.position.x + (cp.y - p.position.y) * buf.terminal_state.get_width() + p.position.x;"),  -- hyperLen
  ("parsers/avatar/mod.rs::print_char", "caret.pos.y = max(0, caret.pos.y - 1);"),          -- avatarStepF 3: checked
  ("parsers/avatar/mod.rs::print_char", "caret.pos.y += 1;")]                               -- avatarStepF 4: add1

set_option maxRecDepth 100000 in
theorem text_row_sites_known : ∀ s ∈ rowArithSites, s ∈ knownRowSites := by decide

/-- `CSI Pn M` (DL) on a file buffer: the model removes the rows `y .. y + k` in one step when there are no top/bottom margins;
    that is exactly `k` times `remove_terminal_line(y)` as the code loops (the loop is quadratic in the row count, the closed form is
    what keeps the model run fast on 65535-row tables) -/
theorem dl_closed_form_is_the_loop (s : Scr) (y : Int) (hy : 0 ≤ y) (k : Nat) (r : Rows) :
    removeTermLines s r y k = iterN (fun r => removeTermLine s r y) k r :=
  removeTermLines_eq_iter s y hy k r

/-- `crop_loaded_file` keeps one row (`while lines.len() > 1 && …`), as transcribed -/
theorem crop_constant_pinned : cropKeepRows = 1 := by decide

/-! ## non-vacuity -/
/-- the input that crashed the pinned tree — cursor down to the bound twice, then a cursor position report and a
    hyperlink closed 65534 rows below its start — runs through; the cursor stops on the last addressable row -/
example : (match runF fileCfg (fun _ => { lineLen := 0, extOk := true }) (initF 80 25 80 #[])
      "\x1b]8;;http://a\x1b\\\x1b[2147483599B\x1b[2147483599B\x1b[6n\x1b]8;;\x1b\\".toList with
    | .ok st => (st.c.x, st.c.y, st.hlDone, st.r.lens.size) | .error _ => (-1, -1, [], 0)) = (0, 65534, [65534 * 80 + 80], 0) := by
  decide +kernel

/-- a whole file: text, two line feeds, a SAUCE-less `.ans`: three rows are made, the two empty ones are cropped -/
example : (match fromBytesText #[65, 66, 10, 10] "ans" true (fun _ => { lineLen := -1, extOk := true }) 8 16
      (fun _ _ _ _ => .err) with
    | some (.ok l) => (l.bw, l.bh, l.rows.toList, l.images.length) | _ => (0, 0, [], 99)) = (80, 1, [80], 0) := by
  decide +kernel

/-- PETSCII (`.seq`): the 25 rows of 40 cells `Buffer::new((40, 25))` made are kept, nothing is cropped -/
example : (match fromBytesText #[65, 13, 66] "seq" true (fun _ => { lineLen := -1, extOk := true }) 8 8 (fun _ _ _ _ => .err) with
    | some (.ok l) => (l.bw, l.bh, l.rows.size, l.cx, l.cy) | _ => (0, 0, 0, 0, 0)) = (40, 25, 25, 1, 1) := by
  decide +kernel

/-- three images, the third covers both earlier ones (the input class of the stale-index regression): both are removed,
    one image is left; with an uncovered image between them it is the one that stays -/
example : (IcyVerif.SixelShadow.placeX { fw := 8, fh := 16, res := fun _ => .err } [⟨0, 0, 0, 6, 6⟩, ⟨1, 2, 0, 6, 6⟩] ⟨2, 0, 0, 30, 30⟩).toOption
    = some [⟨2, 0, 0, 30, 30⟩] := by decide +kernel
example : (IcyVerif.SixelShadow.placeX { fw := 8, fh := 16, res := fun _ => .err } [⟨0, 0, 0, 6, 6⟩, ⟨1, 40, 0, 6, 6⟩, ⟨2, 2, 0, 6, 6⟩] ⟨3, 0, 0, 30, 30⟩).toOption
    = some [⟨1, 40, 0, 6, 6⟩, ⟨3, 0, 0, 30, 30⟩] := by decide +kernel
/-- the panic exits of the state machine are real outcomes: a count that is too large indexes beyond the vector, too little
    fuel is divergence -/
example : (match IcyVerif.SixelShadow.shadowLoop { fw := 8, fh := 16, res := fun _ => .err } ⟨9, 0, 0, 30, 30⟩ 9 [⟨0, 0, 0, 6, 6⟩] 0 2 with
    | .error e => some e | .ok _ => none) = some IcyVerif.SixelShadow.sUpdate := by decide +kernel
example : (match IcyVerif.SixelShadow.shadowLoop { fw := 8, fh := 16, res := fun _ => .err } ⟨9, 0, 0, 30, 30⟩ 1 [⟨0, 0, 0, 6, 6⟩] 0 1 with
    | .error e => some e | .ok _ => none) = some IcyVerif.SixelShadow.sDiverge := by decide +kernel

end IcyVerif.C02
