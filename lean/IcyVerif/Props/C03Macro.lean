import IcyVerif.Lemmas.TermMacroDepth
import IcyVerif.Gen.MacroEntry
/-! # C03 — macro nesting is limited on EVERY call path into the replay ("a bound enforced at one of several entry points")
The statement of C03: work is "independent of ... macro nesting contained in it ... no input shorter than 64 bytes can ...
exhaust the stack", for "every DCS macro definition including self- and mutually-recursive macros".
Macro replay is the one native recursion of the terminal code (`print_char -> invoke_macro_by_id -> print_char`; the edges are
regenerated: `Gen.MacroEntry.entryEdges`).  It has TWO callers: the `CSI Pn * z` handler and state `ReadPossibleMacroInDCS`
(an `ESC [ Pn * z` met while a DCS string is recorded).  What is proved, about `stepK` (Model/TermMacroDepth.lean: the parser
step with the code's counter `macro_depth` and `fuel` native frames):
* the nesting test sits in the callee, in front of the counter and the loop (`macro_depth_guard_in_callee`, regenerated
  flag), no other line of the parser touches the counters (`macro_depth_uses_known`) and the call sites are the ones the
  model has (`entry_points_known`);
* FROM that flag: the counter accounting is the model's `step` (`macro_counter_refines`) and replay never nests deeper than
  `MAX_MACRO_DEPTH`, whatever the macros are and through whichever path they invoke each other: giving the parser more than
  `MAX_MACRO_DEPTH` frames changes nothing (`macro_nesting_bounded`, `macro_nesting_bounded_stream`);
* the placement matters: with the same test in the `CSI Pn * z` handler only, a 36-byte input nests as deep as there are
  frames (`macro_nesting_unbounded_without_callee_guard`) - only the expansion budget (65536 replayed characters) ends it.
The real stack is outside the model: harness/src/c03nest.rs counts the levels that ran on the real terminal. -/
namespace IcyVerif.C03
open IcyVerif.Term

/-- the limits of macro replay in the model are the ones in the source -/
theorem macro_limits_from_source :
    MAX_MACRO_DEPTH = IcyVerif.Gen.MacroEntry.maxMacroDepth ∧ MAX_MACRO_EXPANSION = IcyVerif.Gen.MacroEntry.maxMacroExpansion := by
  decide

/-- the nesting test of macro replay sits in `invoke_macro_by_id` itself, before `macro_depth += 1` and the replay loop
    (regenerated from the source on every run) -/
theorem macro_depth_guard_in_callee : IcyVerif.Gen.MacroEntry.depthGuardInCallee = true := by decide

/-- every line of the ANSI parser that reads or writes `macro_depth` / `macro_budget` (fingerprints of `file::fn::text`) -/
def knownDepthUseIds : List Nat := [
  128091481992444,   -- parsers/ansi/mod.rs::invoke_macro_by_id::if self.macro_depth >= MAX_MACRO_DEPTH {
  230945843794628,   -- parsers/ansi/mod.rs::invoke_macro_by_id::if self.macro_depth == 0 {
  6691482599719,     -- parsers/ansi/mod.rs::invoke_macro_by_id::self.macro_budget = MAX_MACRO_EXPANSION;
  273060919629821,   -- parsers/ansi/mod.rs::invoke_macro_by_id::self.macro_depth += 1;
  80785399749316,    -- parsers/ansi/mod.rs::invoke_macro_by_id::if self.macro_budget == 0 {
  103736153467206,   -- parsers/ansi/mod.rs::invoke_macro_by_id::self.macro_budget -= 1;
  26812778553415     -- parsers/ansi/mod.rs::invoke_macro_by_id::self.macro_depth -= 1;
]

/-- the counters are used exactly where the model uses them: nothing added, moved to another function or dropped -/
theorem macro_depth_uses_known : IcyVerif.Gen.MacroEntry.depthUseIds = knownDepthUseIds := by decide +kernel

/-- every call path into a bounded loop / recursion of the terminal code (fingerprints of `callee <- file::fn[state]`) -/
def knownEntryEdgeIds : List Nat := [
  270974900042562,   -- invoke_macro_by_id <- parsers/ansi/mod.rs::print_char[ReadPossibleMacroInDCS]    (stepCore, `.dcsMacro`)
  139937871653872,   -- invoke_macro <- parsers/ansi/mod.rs::print_char[EndCSI]                          (endCsi, `* z`)
  11879892676818,    -- print_char <- parsers/ansi/mod.rs::print_char[ReadRIPSupportRequest]             (stepCore, `.rip`: tail call)
  74485307414433,    -- print_char <- parsers/ansi/mod.rs::invoke_macro_by_id                            (replay)
  105332888772814,   -- execute_dcs <- parsers/ansi/mod.rs::print_char[RecordDCSEscape]                  (stepCore, `.dcsEsc`)
  158492973512053,   -- invoke_macro_by_id <- parsers/ansi/ansi_commands.rs::invoke_macro                (endCsi, `* z`)
  81415619609571,    -- parse_macro <- parsers/ansi/dcs.rs::execute_dcs                                  (executeDcs)
  128303186378059,   -- parse_macro_sequence <- parsers/ansi/dcs.rs::parse_macro
  47985125595641,    -- parse_hex_macro_sequence <- parsers/ansi/dcs.rs::parse_macro                     (hexMacro)
  251114550483781,   -- push_repeated <- parsers/ansi/dcs.rs::parse_hex_macro_sequence                   (hexMacro, `;`)
  203236082516109,   -- push_repeated <- parsers/ansi/dcs.rs::parse_hex_macro_sequence #2                (hexMacro, end of string)
  28336815419350,    -- Sixel::parse_from <- parsers/ansi/dcs.rs::execute_dcs                            (Props/C03Sixel)
  49021153349886,    -- Sixel::parse_from <- parsers/ansi/dcs.rs::execute_dcs #2                         (same call, cfg(not(verif)))
  210356313535620,   -- print_char <- parsers/avatar/mod.rs::print_fallback                              (Model/TermWrap)
  235193749771931,   -- print_char <- parsers/avatar/mod.rs::print_char                                  (Avatar repeat, <= 255)
  266486153541023,   -- print_char <- parsers/pcboard/mod.rs::print_char
  115646480361710,   -- print_char <- parsers/renegade/mod.rs::print_char
  153950061352471,   -- print_char <- parsers/ctrla/mod.rs::print_char
  117010357586406,   -- print_char <- parsers/ctrla/mod.rs::print_char #2
  265123830846547,   -- parse_sixel_data <- sixel_mod.rs::parse_char                                     (Model/Sixel)
  202636454463461,   -- parse_sixel_data <- sixel_mod.rs::parse_char #2
  228558390375500,   -- parse_sixel_data <- sixel_mod.rs::parse_char #3
  99485203521054     -- parse_sixel_data <- sixel_mod.rs::parse_char #4                                  (repeat loop)
]

/-- the source has no call path into macro replay, the DCS handlers, the hex-macro expansion or the sixel decoder that is not
    in the table (a new caller is a new entry point: it needs the model's attention and a generator family) -/
theorem entry_points_known :
    IcyVerif.Gen.MacroEntry.entryEdgeIds.all (fun e => knownEntryEdgeIds.contains e) = true ∧
    IcyVerif.Gen.MacroEntry.entryEdgeIds.length = IcyVerif.Gen.MacroEntry.entryEdges.length := by decide +kernel

/-- the code's accounting (counter + test in the callee, as found in the source) IS the model's `step`, for every amount of
    native stack of at least `MAX_MACRO_DEPTH` frames, every state and every character -/
theorem macro_counter_refines (f : Nat) (hf : MAX_MACRO_DEPTH ≤ f) (cfg : Cfg) (o : Nat → Orc) (st : St) (ch : Char) :
    stepK IcyVerif.Gen.MacroEntry.depthGuardInCallee f 0 cfg o st ch = step cfg o st ch := by
  rw [macro_depth_guard_in_callee]
  exact stepK_eq_step f hf cfg o st ch

/-- macro nesting clause, all call paths: whatever macros are defined (self-invoking, mutually recursive, through the CSI
    handler, inside a DCS, alternating) one input character never makes the replay nest deeper than `MAX_MACRO_DEPTH` levels -
    with `f` frames available the parser does exactly what it does with `MAX_MACRO_DEPTH` frames -/
theorem macro_nesting_bounded (f : Nat) (hf : MAX_MACRO_DEPTH ≤ f) (cfg : Cfg) (o : Nat → Orc) (st : St) (ch : Char) :
    stepK IcyVerif.Gen.MacroEntry.depthGuardInCallee f 0 cfg o st ch =
    stepK IcyVerif.Gen.MacroEntry.depthGuardInCallee MAX_MACRO_DEPTH 0 cfg o st ch := by
  rw [macro_counter_refines f hf, macro_counter_refines MAX_MACRO_DEPTH (Nat.le_refl _)]

/-- … and so along every stream -/
theorem macro_nesting_bounded_stream (f : Nat) (hf : MAX_MACRO_DEPTH ≤ f) (cfg : Cfg) (o : Nat → Orc) (st : St) (cs : List Char) :
    runK IcyVerif.Gen.MacroEntry.depthGuardInCallee f cfg o st cs = run cfg o st cs := by
  rw [macro_depth_guard_in_callee]
  exact runK_eq_run f hf cfg o cs st

/-- the placement of the test matters: were it in the `CSI Pn * z` handler only, the 36-byte input `selfNestInDcs` (a macro
    that re-opens a DCS and invokes itself inside it) would nest as deep as there are frames - 9 with 9, 12 with 12, 40 with 40 -
    while recursion through the handler itself stays at 8 -/
theorem macro_nesting_unbounded_without_callee_guard :
    levelsRun false 9 selfNestInDcs = 9 ∧ levelsRun false 12 selfNestInDcs = 12 ∧ levelsRun false 40 selfNestInDcs = 40 ∧
    levelsRun false 40 selfNestCsi = 8 := by decide +kernel

/-- non-vacuity: with the test in the callee both paths stop at 8 levels however many frames there are; the tables are not empty -/
example : levelsRun true 40 selfNestInDcs = 8 ∧ levelsRun true 40 selfNestCsi = 8 ∧ levelsRun true 3 selfNestInDcs = 3 := by decide +kernel
example : selfNestInDcs.length = 36 := by decide
example : knownEntryEdgeIds.length = 23 ∧ knownDepthUseIds.length = 7 := by decide
example : MAX_MACRO_DEPTH ≤ 8 ∧ MAX_MACRO_DEPTH ≤ 6554 := by decide

end IcyVerif.C03
