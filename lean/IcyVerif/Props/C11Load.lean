import IcyVerif.Props.C11
import IcyVerif.Lemmas.SauceLoad
/-! # C11, last sentence — "the picture loaded from content+EOF+SAUCE equals the picture loaded from the content alone",
COMPOSED with the format loaders for the five binary formats (xb bin adf idf tnd).

`Props/C11.lean` proves the sentence at the dispatch level (`load_ignores_sauce`: the slice handed to the loader is
`content`, the record is `carry k b`).  Here the loader behind the dispatch is the C05 model
(`Model/BinFormats.lean`): `SauceLoad.fromBytes` = `fromBytesSplit` (full `SauceData::extract`, 0..=255
comment lines) followed by `BinFormats.loadBody` — which, since the merge of the C05 work package, is C05's own
`BinFormats.fromBytes` (`binformats_from_bytes_is_this`): the two models of `Buffer::from_bytes` are one.

* `load_composed`  — for ALL content bytes and ALL metadata: `from_bytes (content ++ EOF ++ SAUCE)` IS the format
  loader applied to `content` and the carried record.
* `record_xb … record_tnd` — the SAUCE rule per loader: what of the record (`set_sauce(.., true)`:
  width with the 0 / >1000 → 80 rule, height, ice flag, a font NAMED in it) survives in the loaded buffer.
* `load_ignores_sauce_bin`, `load_ignores_sauce_tnd` — both together for the variant each writer appends
  (`loaders` table regenerated from `src/formats/*.rs`): at the loader's default width / ice mode / font the loaded
  buffer is the one loaded from the content alone.

MERGE NOTE (C05 work package).  The loader model now (1) KEEPS the record's texts and flags in the loaded buffer
(`LBuf.sauce`; `Buffer::set_sauce` stores them for the next save) and (2) models `set_sauce` replacing font slot 0 by a
font NAMED in the record (`BitFont::from_sauce_name`) — the part these theorems used to list as "not in the C05 loader
model".  "The same buffer" therefore reads `outMap (keep m) (load content)`: every field of the buffer loaded from the
content alone — sizes, rows, ice mode, palette, fonts — and next to it the kept record `m` (metadata, no part of the
picture); and "the record's … font settings equal the loader's defaults" is now a hypothesis where a record can name a
font that a loader would install (BIN: `fontAtDefault`; XBin and Tundra records carry no font name, ADF and IDF files
embed their font, IDF never applies the record).  The Tundra width rule follows the repaired loader (`tndRuleW`: widths
above 1000 are taken as they are, no longer as 80). -/
namespace IcyVerif.C11
open IcyVerif.Sauce IcyVerif.Gen.Sauce IcyVerif.SauceLoad IcyVerif.BinFormats IcyVerif.Gen

/-! ## 1. composition -/

/-- C05's `BinFormats.fromBytes` is this composition (at C05's date predicate, outcome levels flattened) -/
theorem binformats_from_bytes_is_this (f : Fmt) (bytes : List Nat) :
    BinFormats.fromBytes f bytes =
      (match SauceLoad.fromBytes BinFormats.dateOk f bytes with
       | .ok r => r
       | .err _ => .err
       | .panic _ => .panic) :=
  fromBytes_is_binformats f bytes

/-- **load_composed**: whatever the content (loadable or not, ending in SAUCE/COMNT look-alikes or not) and whatever
    the metadata (0..=255 comment lines …), `Buffer::from_bytes` of the written file is the format loader applied to
    exactly `content`, with the record the variant carries -/
theorem load_composed (dateOk : List Nat → Bool) (f : Fmt) (k : Nat) (hk : k < 9) (b : BufInfo) (hv : Valid b)
    (date : List Nat) (hd : date.length = dateLen) (hok : dateOk date = true) (content bytes : List Nat)
    (hw : writeSauceInfo k b date content = .ok bytes) :
    SauceLoad.fromBytes dateOk f bytes =
      .ok (loadBody f content (some (carry k b (bytes.length - content.length)))) := by
  simp only [SauceLoad.fromBytes, load_ignores_sauce dateOk k hk b hv date hd hok content bytes hw]
  rfl

/-- a file in which `extract` finds no record goes to the loader whole -/
theorem load_plain (dateOk : List Nat → Bool) (f : Fmt) (content : List Nat)
    (h : extract dateOk content = .ok none) :
    SauceLoad.fromBytes dateOk f content = .ok (loadBody f content none) := by
  simp only [SauceLoad.fromBytes, fromBytesSplit, h, slice_ok (Nat.zero_le _) (Nat.le_refl content.length)]
  simp [Res.bind]

/-! ## 2. the SAUCE rule, loader by loader

`keep m g` = the buffer `g` with the record's texts and flags `m` kept for the next save; `outMap` applies it to a
successful load and leaves `Err` / panic alone. -/

/-- XBin: size and ice mode come from the XBin header: a record that names no installable font changes nothing of the
    picture (and the record the XBin writer appends never names one: `carry_plain`) -/
theorem record_xb (d : List Nat) (s : Sauce.Sauce) (hf : fontAtDefault s = true) :
    loadBody .xb d (some s) = outMap (keep (some (metaOf s))) (loadBody .xb d none) :=
  xbLoad_record d s hf

/-- iCE Draw: the loader keeps the record as metadata but never resizes to it nor takes a font from it -/
theorem record_idf (d : List Nat) (s : Sauce.Sauce) :
    loadBody .idf d (some s) = outMap (keep (some (metaOf s))) (loadBody .idf d none) :=
  idfLoad_record d s

/-- ArtWorx: buffer width and ice mode are the format's, font and palette are in the file, the height is recomputed from
    the rows; the record's width is the layer width — equal to the default, the loaded picture is the same -/
theorem record_adf (d : List Nat) (s : Sauce.Sauce) (hw : ruleW s.width = BinFmt.adfStartW) :
    loadBody .adf d (some s) = outMap (keep (some (metaOf s))) (loadBody .adf d none) :=
  adfLoad_record d s hw

/-- BIN: the record's width, ice flag and font ARE the loader's (no header); its height is overwritten by the first
    cell — and a BinaryText record always says 25, the default -/
theorem record_bin (d : List Nat) (s : Sauce.Sauce) (hw : ruleW s.width = BinFmt.binStartW) (hi : s.ice = false)
    (hf : fontAtDefault s = true) (hh : s.height = BinFmt.binStartH ∨ 2 ≤ d.length) :
    loadBody .bin d (some s) = outMap (keep (some (metaOf s))) (loadBody .bin d none) :=
  binLoad_record d s hw hi hf hh

/-- Tundra: ice mode and palette are the format's, the width is the record's (the format has no size fields) — equal to
    the default, the loaded picture is the same.  The record's HEIGHT is overwritten by the first cell
    (`set_height(pos.y + 1)` before every `set_char`), exactly as in the BIN loader; it counts only for a file that
    places no cell at all (header only / position commands only), hence the same kind of hypothesis as `record_bin`:
    the record says the loader's default height, or the content places a cell (stated on the buffer of the content
    alone: it has a row).  `record_tnd_no_cell` below says what the loader does in the remaining case. -/
theorem record_tnd (d : List Nat) (s : Sauce.Sauce) (hw : tndRuleW s.width = BinFmt.tndStartW)
    (hf : fontAtDefault s = true)
    (hh : s.height = BinFmt.tndStartH ∨ ∀ g, loadBody .tnd d none = .ok g → g.lines ≠ []) :
    loadBody .tnd d (some s) = outMap (keep (some (metaOf s))) (loadBody .tnd d none) := by
  rcases tndLoad_record d s hw hf with h | ⟨g, h1, h2, h3, h4, h5⟩
  · exact h
  · rcases hh with hh | hh
    · show tndLoad d (some s) = outMap (keep (some (metaOf s))) (tndLoad d none)
      rw [h5, h1, hh, ← h3]
      show _ = Out.ok (keep (some (metaOf s)) g)
      rw [show keep (some (metaOf s)) g = { g with bh := g.bh, lh := g.lh, sauce := some (metaOf s) } from rfl, h4, h3]
    · exact absurd h2 (hh g h1)

/-! ## 3. both together: the property's last sentence for the binary formats -/

def extOf : Fmt → String
  | .xb => "xb"
  | .bin => "bin"
  | .adf => "adf"
  | .idf => "idf"
  | .tnd => "tnd"

/-- the `SauceFileType` the format's writer appends and the loader's default width — looked up in the table the
    translator regenerates from `src/formats/*.rs` -/
def kindOf (f : Fmt) : Nat := ((loaders.find? (fun l => l.1 == extOf f)).map (·.2.2.2.2)).getD 0
def defaultW (f : Fmt) : Nat := ((loaders.find? (fun l => l.1 == extOf f)).map (·.2.1)).getD 0

/-- the loader's default height, for the one loader whose file format stores no height (Tundra: the start buffer) -/
def defaultH (f : Fmt) : Nat := ((loaders.find? (fun l => l.1 == extOf f)).map (·.2.2.1)).getD 0

/-- the table against the constants of the C05 loader models (both regenerated from the source) -/
theorem loader_table :
    kindOf .xb = 8 ∧ kindOf .bin = 7 ∧ kindOf .adf = 2 ∧ kindOf .idf = 7 ∧ kindOf .tnd = 6 ∧
    defaultW .xb = BinFmt.xbStartW ∧ defaultW .bin = BinFmt.binStartW ∧ defaultW .adf = BinFmt.adfStartW ∧
    defaultW .idf = BinFmt.idfStartW ∧ defaultW .tnd = BinFmt.tndStartW ∧ defaultH .tnd = BinFmt.tndStartH ∧
    BinFmt.sauceMaxWidth = widthMax ∧ BinFmt.sauceFallbackWidth = widthFallback ∧ BinFmt.binStartH = readerDefaultHeight := by
  decide

/-- "the record's width, ice-colour and font settings equal the loader's defaults", per format: what the loader does
    not override itself.  (The font clause is new with the merge of the C05 work package, which models `set_sauce`
    installing a font named in the record: only the BinaryText record of a `.bin` file can do that — XBin and Tundra
    records carry no font name, `.adf` / `.idf` files embed their font.) -/
def AtDefaults (f : Fmt) (b : BufInfo) : Prop :=
  match f with
  | .xb | .idf => True
  | .adf | .tnd => b.width = defaultW f
  | .bin => b.width = defaultW f ∧ b.ice = false ∧ fontAtDefault (carry 7 b 0) = true

/-- **load_ignores_sauce_bin**: xb, bin, adf, idf — content (ANY bytes) + EOF + the SAUCE data the format's writer
    appends (any texts, 0..=255 comment lines, flags), record width / ice at the loader's defaults: `from_bytes` gives
    the SAME buffer as the loader on the content alone (`outMap (keep _)`: plus the kept record, see the merge note) -/
theorem load_ignores_sauce_bin (dateOk : List Nat → Bool) (f : Fmt) (hf : f ≠ .tnd) (b : BufInfo) (hv : Valid b)
    (hdef : AtDefaults f b) (date : List Nat) (hd : date.length = dateLen) (hok : dateOk date = true)
    (content bytes : List Nat) (hw : writeSauceInfo (kindOf f) b date content = .ok bytes) :
    SauceLoad.fromBytes dateOk f bytes =
      .ok (outMap (keep (some (metaOf (carry (kindOf f) b (bytes.length - content.length))))) (loadBody f content none)) := by
  have hk : kindOf f < 9 := by cases f <;> decide
  rw [load_composed dateOk f (kindOf f) hk b hv date hd hok content bytes hw]
  congr 1
  cases f with
  | xb =>
    apply record_xb
    have := (carry_plain 8 (by decide) b (bytes.length - content.length)).2.2.2.2.2.1
    show fontAtDefault (carry 8 b (bytes.length - content.length)) = true
    unfold fontAtDefault
    rw [this]
    rfl
  | idf => exact record_idf _ _
  | tnd => exact absurd rfl hf
  | adf =>
    apply record_adf
    have hwd : b.width = 80 := hdef
    have : (carry 2 b (bytes.length - content.length)).width = 80 := by
      rw [(carry_ansi 2 (Or.inr rfl) b _).1, hwd]
    show ruleW (carry 2 b (bytes.length - content.length)).width = _
    rw [this]; decide
  | bin =>
    obtain ⟨hwd, hice, hfont⟩ := hdef
    have hwd : b.width = 160 := hwd
    have hc := carry_bin b (bytes.length - content.length)
    apply record_bin
    · show ruleW (carry 7 b (bytes.length - content.length)).width = _
      rw [hc.1, hwd]; decide
    · show (carry 7 b (bytes.length - content.length)).ice = false
      rw [hc.2.2.1, hice]
    · exact hfont
    · left
      show (carry 7 b (bytes.length - content.length)).height = _
      rw [hc.2.1]; decide

/-- **load_ignores_sauce_tnd** — Tundra, as `load_ignores_sauce_bin`: content (ANY bytes) + EOF + the SAUCE data the
    Tundra writer appends, record width at the loader's default: `from_bytes` gives the SAME buffer as the loader on the
    content alone.  The Tundra format has no size fields, so besides the width the record's HEIGHT is a setting of the
    loader — for a file that places no cell (the first cell overwrites it): "the record's settings equal the loader's
    defaults" includes `b.height = 25` there, and nothing is asked of the height of a content that places a cell.
    (Before the repair of `write_sauce_info` the record said height 0 whatever the buffer: no buffer was at the default,
    finding `picture-tnd-no-cell`, now `fixed:`.) -/
theorem load_ignores_sauce_tnd (dateOk : List Nat → Bool) (b : BufInfo) (hv : Valid b)
    (hdef : AtDefaults .tnd b) (date : List Nat) (hd : date.length = dateLen) (hok : dateOk date = true)
    (content bytes : List Nat) (hw : writeSauceInfo (kindOf .tnd) b date content = .ok bytes)
    (hh : b.height = defaultH .tnd ∨ ∀ g, loadBody .tnd content none = .ok g → g.lines ≠ []) :
    SauceLoad.fromBytes dateOk .tnd bytes =
      .ok (outMap (keep (some (metaOf (carry 6 b (bytes.length - content.length))))) (loadBody .tnd content none)) := by
  rw [load_composed dateOk .tnd (kindOf .tnd) (by decide) b hv date hd hok content bytes hw]
  have hwd : b.width = 80 := hdef
  have hc := carry_plain 6 (Or.inr (Or.inr (Or.inl rfl))) b (bytes.length - content.length)
  have hww : tndRuleW (carry 6 b (bytes.length - content.length)).width = BinFmt.tndStartW := by
    rw [hc.1, hwd]; decide
  have hfd : fontAtDefault (carry 6 b (bytes.length - content.length)) = true := by
    unfold fontAtDefault
    rw [hc.2.2.2.2.2.1]
    rfl
  congr 1
  apply record_tnd content _ hww hfd
  rcases hh with hh | hh
  · left
    rw [hc.2.1, hh]; decide
  · exact Or.inr hh

/-! ## 4. non-vacuity -/

def exMetaL : Meta := { title := [72, 105], comments := [[99, 49], [32], []] }
/-- a .bin buffer at the loader's defaults (width 160, no ice colours) with three comment lines -/
def exBufBin : BufInfo := { sauce := some exMetaL, width := 160, height := 2, ice := false, fontName := [73, 66, 77] }
def exBufTnd : BufInfo := { sauce := some exMetaL, width := 80, height := 2, ice := true, fontName := [] }

example : Valid exBufBin := ⟨by decide, by decide, by decide, by decide⟩
example : AtDefaults .bin exBufBin := ⟨by decide, rfl, by decide +kernel⟩
example : AtDefaults .tnd exBufTnd := by show (80 : Nat) = defaultW .tnd; decide

def writtenBy (k : Nat) (b : BufInfo) (content : List Nat) : List Nat :=
  match writeSauceInfo k b exDate content with
  | .ok bytes => bytes
  | _ => []

def sameBuf (a b : LBuf) : Bool :=
  a.bw == b.bw && a.bh == b.bh && a.lw == b.lw && a.lh == b.lh && a.lines == b.lines && a.pal == b.pal

/-- .bin: two cells `A`,`B` + EOF + SAUCE with three comment lines: 326 bytes appended, the loaded buffer is the one
    of the four content bytes -/
example : (match SauceLoad.fromBytes (fun _ => true) .bin (writtenBy 7 exBufBin [65, 7, 66, 30]), loadBody .bin [65, 7, 66, 30] none with
    | .ok (.ok g), .ok g' => sameBuf g g' && g.lines.length == 1 && (writtenBy 7 exBufBin [65, 7, 66, 30]).length == 4 + 1 + 5 + 3 * 64 + 128
    | _, _ => false) = true := by decide +kernel

def tndHeaderOnly : List Nat := [24] ++ BinFmt.tndHeader

/-- Tundra: one cell `A` behind the header — same buffer with and without SAUCE -/
example : (match SauceLoad.fromBytes (fun _ => true) .tnd (writtenBy 6 exBufTnd (tndHeaderOnly ++ [65])), loadBody .tnd (tndHeaderOnly ++ [65]) none with
    | .ok (.ok g), .ok g' => sameBuf g g' && g.lines.length == 1 && g.bh == 1
    | _, _ => false) = true := by decide +kernel

/-- the second alternative of `hh` is satisfiable: that content places a cell -/
example : ∀ g, loadBody .tnd (tndHeaderOnly ++ [65]) none = .ok g → g.lines ≠ [] := by
  intro g hg
  have : (match loadBody .tnd (tndHeaderOnly ++ [65]) none with | .ok g' => g'.lines.length == 1 | _ => false) = true := by
    decide +kernel
  rw [hg] at this
  intro h
  dsimp only at this
  rw [h] at this
  exact absurd this (by decide)

/-- a Tundra buffer at the loader's defaults in the full sense (80 columns, 25 rows) -/
def exBufTnd25 : BufInfo := { exBufTnd with height := 25 }
example : AtDefaults .tnd exBufTnd25 ∧ exBufTnd25.height = defaultH .tnd := ⟨by show (80 : Nat) = defaultW .tnd; decide, by decide⟩

/-- the formerly excluded site (finding `picture-tnd-no-cell`, repaired): the header alone loads as 80x25 without SAUCE
    and as 80x25 with the SAUCE of an 80x25 buffer — the record now carries the 25 … -/
example : (match SauceLoad.fromBytes (fun _ => true) .tnd (writtenBy 6 exBufTnd25 tndHeaderOnly), loadBody .tnd tndHeaderOnly none with
    | .ok (.ok g), .ok g' => sameBuf g g' && g.bh == 25 && g.lines.isEmpty && g.bw == 80
    | _, _ => false) = true := by decide +kernel

/-- … and the hypothesis `hh` is needed: the same header with the SAUCE of an 80x2 buffer is an 80x2 picture (the record's
    height is honoured, the format has no other place for it), the header alone is 80x25 -/
example : (match SauceLoad.fromBytes (fun _ => true) .tnd (writtenBy 6 exBufTnd tndHeaderOnly), loadBody .tnd tndHeaderOnly none with
    | .ok (.ok g), .ok g' => g.bh == 2 && g'.bh == 25 && g.lines.isEmpty && g'.lines.isEmpty && g.bw == 80 && g'.bw == 80
    | _, _ => false) = true := by decide +kernel

/-- `load_plain` applies to the bare content of these examples -/
example : (match extract (fun _ => true) [65, 7, 66, 30] with | .ok none => true | _ => false) = true := by decide +kernel

end IcyVerif.C11
